(* C02deep — conditional constant propagation (model Passes.ccp, the code as it is now) preserves the
   behaviour of every well-formed function, including the two rewrites of the While case that re-optimise
   already optimised statements ("the loop runs once", peeling of iterations with known loop variables).
   Both runs are in mode Add (+ and - checked).  Next to the simulation (dynamic part of `good`) the proof
   carries static facts about the output of the pass (it is well scoped with respect to the names the
   context maps the scope to, its binders are pairwise distinct), because the loop rewrites run the pass on
   its own output.  The only excluded situations are the two dead constructs flagged by the model
   (Passes.fl): there the pass leaves operands that name statements it has dropped. *)
From Coq Require Import ZArith NArith List Bool Lia.
Import ListNotations.
From SV Require Import Common.Int32 C02.Kernels C02.Proofs C02deep.Syntax C02deep.Sem C02deep.Passes
  C02deep.ProofsSem C02deep.ProofsScope C02deep.ProofsDceSets C02deep.ProofsDce C02deep.ProofsCcpArith
  C02deep.ProofsCcpRel C02deep.ProofsCcpRel2 C02deep.ProofsCcp.
Open Scope Z_scope.

(* T is a scope for the optimised code: it contains the image of the scope S0 under the context, and its
   names have no context entry (they are defined by the optimised code itself) *)
Definition tscope (c : cx) (S0 T : list name) : Prop :=
  (forall x y, In x S0 -> opt_expr (cx_v c) (EVar x) = EVar y -> In y T) /\
  (forall y, In y T -> assoc y (cx_v c) = None) /\
  (forall z op y k, In z T -> assoc z (cx_b c) = Some (op, y, k) -> In y T).

Lemma tscope_expr c S0 T e : tscope c S0 T -> in_scope S0 e = true -> in_scope T (opt_expr (cx_v c) e) = true.
Proof.
  intros [H _] Hs. destruct e; try reflexivity. apply in_scope_var in Hs.
  destruct (opt_expr (cx_v c) (EVar x)) eqn:E; try reflexivity. apply in_scope_var. eauto.
Qed.
Lemma tscope_exprs c S0 T es : tscope c S0 T -> forallb (in_scope S0) es = true ->
  forallb (in_scope T) (map (opt_expr (cx_v c)) es) = true.
Proof.
  intros H Hs. rewrite forallb_forall in *. intros e He. apply in_map_iff in He. destruct He as [e0 [<- H0]].
  eapply tscope_expr; eauto.
Qed.
Lemma tscope_var c S0 T e y : tscope c S0 T -> in_scope S0 e = true -> opt_expr (cx_v c) e = EVar y -> In y T.
Proof. intros [H _] Hs E. destruct e; try discriminate. apply in_scope_var in Hs. eauto. Qed.

Lemma tscope_bind x e c c' S0 T :
  bind x e c = Some c' -> tscope c S0 T -> ~ In x S0 -> ~ In x T -> (forall y, e = EVar y -> In y T) ->
  tscope c' (x :: S0) T.
Proof.
  intros Hb (H1 & H2 & H3) Hx0 HxT He. destruct (bind_inv _ _ _ _ Hb) as (_ & Ev & Eb). split; [|split].
  - intros a y [<-|Ha]; cbn; rewrite Ev; cbn.
    + rewrite N.eqb_refl. auto.
    + destruct (N.eqb_spec a x) as [->|]; [contradiction|]. apply H1. exact Ha.
  - intros y Hy. rewrite Ev. cbn. destruct (N.eqb_spec y x) as [->|]; [contradiction | auto].
  - intros z op y k Hz. rewrite Eb. eauto.
Qed.
Lemma tscope_keep x c S0 T :
  tscope c S0 T -> assoc x (cx_v c) = None -> assoc x (cx_b c) = None -> tscope c (x :: S0) (x :: T).
Proof.
  intros (H1 & H2 & H3) Hx Hxb. split; [|split].
  - intros a y [<-|Ha]; [cbn; rewrite Hx; intros [= <-]; left; reflexivity|]. intros E. right. eauto.
  - intros y [<-|Hy]; auto.
  - intros z op y k [<-|Hz] E; [congruence|]. right. eauto.
Qed.
Lemma tscope_keep_b x op y k c S0 T :
  tscope c S0 T -> assoc x (cx_v c) = None -> In y T -> tscope (bind_b x (op, y, k) c) (x :: S0) (x :: T).
Proof.
  intros (H1 & H2 & H3) Hx Hy. split; [|split].
  - intros a z [<-|Ha]; [cbn; rewrite Hx; intros [= <-]; left; reflexivity|]. intros E. right. eapply H1; eauto.
  - intros z [<-|Hz]; cbn; auto.
  - intros z op' y' k' Hz. cbn. destruct (N.eqb_spec z x) as [->|Hn].
    + intros [= <- <- <-]. right. exact Hy.
    + intros E. destruct Hz as [<-|Hz]; [contradiction|]. right. eauto.
Qed.
Lemma tscope_ext bs c c' S0 T : ext_outside bs c c' -> disj S0 bs -> disj T bs -> tscope c S0 T -> tscope c' S0 T.
Proof.
  intros X D0 DT (H1 & H2 & H3). split; [|split].
  - intros x y Hx. cbn. destruct (X x) as [-> _]; [intros Hb; eapply D0; eauto|]. apply (H1 x y Hx).
  - intros y Hy. destruct (X y) as [-> _]; [intros Hb; eapply DT; eauto | auto].
  - intros z op y k Hz. destruct (X z) as [_ ->]; [intros Hb; eapply DT; eauto | eauto].
Qed.

Lemma tscope_sub0 c S0 S0' T : tscope c S0 T -> incl' S0' S0 -> tscope c S0' T.
Proof. intros (H1 & H2 & H3) Hi. split; [|split]; eauto. Qed.

Lemma in_scope_mono S S' e : incl' S S' -> in_scope S e = true -> in_scope S' e = true.
Proof. intros Hi H. destruct e; try reflexivity. apply in_scope_var. apply Hi. now apply in_scope_var. Qed.

Lemma scoped_mono_both :
  (forall s S S', incl' S S' -> scoped S s = true -> scoped S' s = true) /\
  (forall ss S S', incl' S S' -> scoped_l S ss = true -> scoped_l S' ss = true).
Proof.
  assert (Happ : forall a S S', incl' S S' -> incl' (a ++ S) (a ++ S')).
  { intros a S S' Hi x. rewrite !in_app_iff. intros [H|H]; auto. }
  apply stmt_stmts_ind2.
  - intros x op e1 e2 S S' Hi H. cbn in *. apply andb_prop in H. destruct H as [A B].
    now rewrite (in_scope_mono _ _ _ Hi A), (in_scope_mono _ _ _ Hi B).
  - intros x e S S' Hi H. cbn in *. eapply in_scope_mono; eauto.
  - intros x p e S S' Hi H. cbn in *. eapply in_scope_mono; eauto.
  - intros f args ret S S' Hi H. cbn in *. rewrite forallb_forall in *. intros e He. eapply in_scope_mono; eauto.
  - intros c s1 s2 fas H1 H2 S S' Hi H. rewrite scoped_SIf in *.
    apply andb_prop in H. destruct H as [H Hf]. apply andb_prop in H. destruct H as [H Hb]. apply andb_prop in H. destruct H as [Hc Ha].
    rewrite (in_scope_mono _ _ _ Hi Hc), (H1 _ _ Hi Ha), (H2 _ _ Hi Hb). cbn [andb].
    rewrite forallb_forall in *. intros t Ht. specialize (Hf t Ht). apply andb_prop in Hf. destruct Hf as [F1 F2].
    now rewrite (in_scope_mono _ _ _ (Happ _ _ _ Hi) F1), (in_scope_mono _ _ _ (Happ _ _ _ Hi) F2).
  - intros c inv ss H S S' Hi Hs. rewrite scoped_SSIf in *. apply andb_prop in Hs. destruct Hs as [Hc Hs].
    now rewrite (in_scope_mono _ _ _ Hi Hc), (H _ _ Hi Hs).
  - intros e S S' Hi H. cbn in *. eapply in_scope_mono; eauto.
  - intros lvs ss bc H S S' Hi Hs. rewrite scoped_SWhile in *.
    apply andb_prop in Hs. destruct Hs as [Hs H2]. apply andb_prop in Hs. destruct Hs as [H1 Hs].
    rewrite (H _ _ (Happ _ _ _ Hi) Hs). rewrite andb_true_r. apply andb_true_intro. split.
    + rewrite forallb_forall in *. intros t Ht. eapply in_scope_mono; eauto.
    + rewrite forallb_forall in *. intros t Ht. eapply in_scope_mono; [|apply H2; exact Ht].
      apply Happ, Happ, Hi.
  - intros x tn es S S' Hi H. cbn in *. rewrite forallb_forall in *. intros e He. eapply in_scope_mono; eauto.
  - intros x S S' Hi H. discriminate H.
  - intros x e S S' Hi H. discriminate H.
  - reflexivity.
  - intros s r Hs Hr S S' Hi H. cbn in *. apply andb_prop in H. destruct H as [A B].
    rewrite (Hs _ _ Hi A). cbn. eapply Hr; [|exact B]. apply Happ, Hi.
Qed.
Lemma scoped_mono s S S' : incl' S S' -> scoped S s = true -> scoped S' s = true.
Proof. apply scoped_mono_both. Qed.
Lemma scoped_l_mono ss S S' : incl' S S' -> scoped_l S ss = true -> scoped_l S' ss = true.
Proof. apply scoped_mono_both. Qed.

Ltac inc := let z := fresh "z" in let Hz := fresh "Hz" in
  intros z Hz; repeat first [progress cbn [app In map opt_names] in * | progress rewrite in_app_iff in *]; tauto.

Ltac inc2 := let z := fresh "z" in let Hz := fresh "Hz" in intros z Hz;
  repeat match goal with H : incl' _ _ |- _ => let H' := fresh "Hi" in pose proof (H z) as H'; clear H end;
  repeat first [progress cbn [app In map opt_names] in * | progress rewrite in_app_iff in *]; tauto.

Lemma scoped_l_app a : forall b S, scoped_l S (a ++ b) = scoped_l S a && scoped_l (defs_l a ++ S) b.
Proof.
  induction a as [|s r IH]; intros b S; cbn; [reflexivity|]. rewrite IH, <- andb_assoc. f_equal. f_equal. f_equal.
  now rewrite app_assoc.
Qed.
Lemma NoDup_app_intro {A} (a b : list A) : NoDup a -> NoDup b -> (forall x, In x a -> In x b -> False) -> NoDup (a ++ b).
Proof.
  induction a as [|x r IH]; cbn; intros Ha Hb Hd; [assumption|]. inversion Ha; subst. constructor.
  - rewrite in_app_iff. intros [H|H]; [contradiction | eapply Hd; eauto].
  - apply IH; auto. intros y Hy. apply Hd. auto.
Qed.

Section Full.
  Variables (w : world) (fuel : nat) (g : ver).
  Hypothesis Hg1 : v_guard g = true.
  Hypothesis Hg2 : v_optinit g = true.
  Hypothesis Hg3 : v_forward g = false.
  Notation exec_o := (exec Add w fuel).
  Notation exec_block_o := (exec_block Add w fuel).
  Notation exec_t := (exec Add w fuel).
  Notation exec_block_t := (exec_block Add w fuel).

  Definition dyn (ro : res) (out : list stmt) (c' : cx) (brk : bool) (S J bs ds : list name) (et : env) (tr : trace) : Prop :=
    match ro with
    | RNext eo' tr' =>
        brk = false /\
        exists et' S' J', exec_block_t out et tr = RNext et' tr' /\ Rel2 w c' S' J' eo' et' /\
                          incl' (ds ++ S) S' /\ incl' S' (bs ++ S) /\ incl' J J' /\ incl' J' (bs ++ S ++ J)
    | RBreak v _ tr' => exists et', exec_block_t out et tr = RBreak v et' tr'
    | _ => True
    end.

  Definition stat (bs ds : list name) (S0 : list name) (c : cx) (out : list stmt) (c' : cx) (brk : bool) (D : list name) : Prop :=
    cx_wf2 c' (bs ++ D) /\ ext_outside bs c c' /\ incl' (binders_l out) bs /\ NoDup (binders_l out) /\
    forall T, tscope c S0 T -> incl' T D ->
              scoped_l T out = true /\ (brk = false -> tscope c' (ds ++ S0) (defs_l out ++ T)).

  Definition good (bs ds : list name) (xo : env -> trace -> res) (S0 : list name) (c : cx)
             (out : list stmt) (c' : cx) (brk : bool) : Prop :=
    forall D, cx_wf2 c D -> incl' S0 D -> NoDup bs -> disj bs D ->
      stat bs ds S0 c out c' brk D /\
      forall S J eo et tr, incl' S0 S -> incl' S D -> incl' J D -> Rel2 w c S J eo et ->
                           dyn (xo eo tr) out c' brk S J bs ds et tr.

  Definition Pn (n : nat) : Prop := forall st c out c' brk f S0,
    ccp_stmt g n st c = Some (out, c', brk, f) -> fst f = false -> scoped S0 st = true ->
    good (binders st) (defs st) (exec_o st) S0 c out c' brk.
  Definition Qn (n : nat) : Prop := forall ss c out c' brk f S0,
    ccp_stmts g n ss c = Some (out, c', brk, f) -> fst f = false -> scoped_l S0 ss = true ->
    good (binders_l ss) (defs_l ss) (exec_block_o ss) S0 c out c' brk.

  (* an expression that the pass may bind a name to: an optimised in-scope operand, or not a variable *)
  Definition bindable (c : cx) (S0 : list name) (e : expr) : Prop :=
    (exists e0, e = opt_expr (cx_v c) e0 /\ in_scope S0 e0 = true) \/ (forall y, e <> EVar y).

  Lemma bindable_facts c S0 e D : bindable c S0 e -> cx_wf2 c D -> incl' S0 D ->
    (forall y, e = EVar y -> In y D /\ assoc y (cx_v c) = None) /\
    (forall T, tscope c S0 T -> forall y, e = EVar y -> In y T).
  Proof.
    intros [[e0 [-> Hs]]|Hn] Hwf Hi.
    - split.
      + intros y Ey. split; [eapply opt_expr_range; eauto; apply Hwf | eapply opt_expr_idem; eauto].
      + intros T HT y Ey. eapply tscope_var; eauto.
    - split; [intros y Ey | intros T _ y Ey]; exfalso; eapply Hn; eauto.
  Qed.

  Lemma incl'_nil a : incl' [] a. Proof. intros x []. Qed.

  (* ---------------------------------------------------------------- statements that bind one name *)
  Lemma bound_good x e c c' S0 (xo : env -> trace -> res) :
    bind x e c = Some c' -> bindable c S0 e ->
    (forall D S J eo et tr, cx_wf2 c D -> incl' S0 S -> incl' S D -> Rel2 w c S J eo et ->
       match xo eo tr with
       | RNext eo' tr' => exists v, eo' = (x, v) :: eo /\ tr' = tr /\ wrap32 v = eval w et e
       | RBreak _ _ _ => False
       | _ => True
       end) ->
    good [x] [x] xo S0 c [] c' false.
  Proof.
    intros Hb Hbd Hdy D Hwf HS0 Hnd Hdj.
    assert (HxD : ~ In x D) by (intros H; eapply Hdj; eauto; left; reflexivity).
    destruct (bindable_facts c S0 e D Hbd Hwf HS0) as [HeD HeT].
    split.
    - split; [|split; [|split; [|split]]].
      + eapply bind_wf2; eauto.
      + eapply bind_ext; eauto.
      + intros y [].
      + constructor.
      + intros T HT HTD. split; [reflexivity|]. intros _. cbn [app defs_l].
        eapply tscope_bind; eauto.
    - intros S J eo et tr Hi1 Hi2 HiJ HR. specialize (Hdy D S J eo et tr Hwf Hi1 Hi2 HR).
      destruct (xo eo tr); cbn [dyn]; auto; [|contradiction].
      destruct Hdy as (v & -> & -> & Hv). split; auto. exists et, (x :: S), J. split; [reflexivity|].
      assert (Hy : forall y, e = EVar y -> In y (S ++ J)).
      { intros y Ey. destruct Hbd as [[e0 [E0 Hs0]]|Hn]; [|exfalso; eapply Hn; eauto]. subst e.
        eapply (R2_expr_scope w c S J eo et e0); eauto. eapply in_scope_In; eauto. }
      assert (HxSJ : ~ In x (S ++ J)) by (rewrite in_app_iff; intros [H|H]; apply HxD; auto).
      split; [|repeat split; inc].
      eapply R2_bind; eauto. apply (cx_wf_notin_b c D x (cx_wf2_wf c D Hwf) HxD).
  Qed.

  (* the statement is kept (possibly rewritten) as a single statement that assigns x the same value;
     c' is c, or c with a record for x in the binary-expression context *)
  Lemma kept_good x st' c c' S0 (xo : env -> trace -> res) :
    binders st' = [x] -> defs st' = [x] ->
    (forall T, tscope c S0 T -> scoped T st' = true) ->
    (c' = c \/ exists op y k, c' = bind_b x (op, y, k) c /\
       (forall D, cx_wf2 c D -> incl' S0 D -> In y D /\ in32 k /\ assoc y (cx_v c) = None)) ->
    (forall op y k T, tscope c S0 T -> c' = bind_b x (op, y, k) c -> In y T) ->
    (forall D S J eo et tr, cx_wf2 c D -> incl' S0 S -> incl' S D -> Rel2 w c S J eo et ->
       match xo eo tr with
       | RNext eo' tr' => exists v, eo' = (x, v) :: eo /\ exec_t st' et tr = RNext ((x, v) :: et) tr' /\
            forall op y k, c' = bind_b x (op, y, k) c ->
              In y (S ++ J) /\ chk Add op && ovf op (eval w et (EVar y)) k = false /\ rt_binop op (eval w et (EVar y)) k = Val v
       | RBreak _ _ _ => False
       | _ => True
       end) ->
    good [x] [x] xo S0 c [st'] c' false.
  Proof.
    intros Hbs Hds Hsc Hc HyT0 Hdy D Hwf HS0 Hnd Hdj.
    assert (HxD : ~ In x D) by (intros H; eapply Hdj; eauto; left; reflexivity).
    assert (Hxv : assoc x (cx_v c) = None) by (apply (cx_wf_notin_v c D x (cx_wf2_wf c D Hwf) HxD)).
    assert (Hxb : assoc x (cx_b c) = None) by (apply (cx_wf_notin_b c D x (cx_wf2_wf c D Hwf) HxD)).
    split.
    - split; [|split; [|split; [|split]]].
      + destruct Hc as [->|(op & y & k & -> & Hyk)].
        * eapply cx_wf2_mono; eauto. apply incl'_cons_r.
        * destruct (Hyk D Hwf HS0) as (A & B & C). now apply bind_b_wf2.
      + destruct Hc as [->|(op & y & k & -> & _)]; [apply ext_refl | apply bind_b_ext].
      + cbn. rewrite Hbs, app_nil_r. apply incl'_refl.
      + cbn. rewrite Hbs, app_nil_r. repeat constructor. intros [].
      + intros T HT HTD. split; [cbn; now rewrite (Hsc T HT)|]. intros _. cbn [defs_l app]. rewrite Hds. cbn [app].
        destruct Hc as [->|(op & y & k & -> & Hyk)]; [apply tscope_keep; auto | apply tscope_keep_b; auto].
        exact (HyT0 op y k T HT eq_refl).
    - intros S J eo et tr Hi1 Hi2 HiJ HR. specialize (Hdy D S J eo et tr Hwf Hi1 Hi2 HR).
      destruct (xo eo tr); cbn [dyn]; auto; [|contradiction].
      destruct Hdy as (v & -> & Ht & Hrec). split; auto. exists ((x, v) :: et), (x :: S), J.
      split; [rewrite exec_block_cons, Ht; reflexivity|].
      assert (HxSJ : ~ In x (S ++ J)) by (rewrite in_app_iff; intros [H|H]; apply HxD; auto).
      assert (HR' : Rel2 w c (x :: S) J ((x, v) :: eo) ((x, v) :: et)).
      { apply R2_def; auto. }
      split; [|repeat split; inc].
      destruct Hc as [->|(op & y & k & -> & _)]; [exact HR'|].
      destruct (Hrec op y k eq_refl) as (Hy & Ho & Hv).
      assert (Hyx : y <> x) by (intros ->; contradiction).
      assert (Ey : eval w ((x, v) :: et) (EVar y) = eval w et (EVar y)).
      { unfold eval. cbn. destruct (N.eqb_spec y x); [contradiction | reflexivity]. }
      apply (R2_bind_b w c (x :: S) J _ _ x op y k v HR').
      * left; reflexivity.
      * cbn. right. exact Hy.
      * exact Hxb.
      * now rewrite Ey.
      * now rewrite Ey.
      * unfold eval. cbn. now rewrite N.eqb_refl.
  Qed.
  (* ---------------------------------------------------------------- Not, opaque primitives, Call, Break *)
  Lemma P_SNot n x e c out c' brk f S0 :
    ccp_stmt g (S n) (SNot x e) c = Some (out, c', brk, f) -> scoped S0 (SNot x e) = true ->
    good [x] [x] (exec_o (SNot x e)) S0 c out c' brk.
  Proof.
    cbn [ccp_stmt scoped]. intros H Hsc. destruct (lit (opt_expr (cx_v c) e)) as [z|] eqn:L.
    - destruct (bind x _ c) as [c1|] eqn:B; [|discriminate]. injection H as <- <- <- <-.
      eapply bound_good; eauto.
      + right. intros; discriminate.
      + intros D S J eo et tr Hwf Hi1 Hi2 HR. cbn. eexists. split; [reflexivity|]. split; [reflexivity|].
        destruct (lit_eval _ _ L) as (Hz & _ & _).
        rewrite (R2_expr w c S J eo et e HR (in_scope_In _ _ _ Hsc Hi1)), Hz.
        unfold eval. now rewrite wrap32_idem.
    - injection H as <- <- <- <-. eapply kept_good; [reflexivity | reflexivity | | left; reflexivity | |].
      + intros T HT. cbn. eapply tscope_expr; eauto.
      + intros op y k T _ E. exfalso. symmetry in E. eapply bind_b_neq; eauto.
      + intros D S J eo et tr Hwf Hi1 Hi2 HR. cbn. eexists. split; [reflexivity|].
        rewrite (R2_expr w c S J eo et e HR (in_scope_In _ _ _ Hsc Hi1)). split; [reflexivity|].
        intros op y k E. exfalso. symmetry in E. eapply bind_b_neq; eauto.
  Qed.

  Lemma P_SPrim n x p e c out c' brk f S0 :
    ccp_stmt g (S n) (SPrim x p e) c = Some (out, c', brk, f) -> scoped S0 (SPrim x p e) = true ->
    good [x] [x] (exec_o (SPrim x p e)) S0 c out c' brk.
  Proof.
    cbn [ccp_stmt scoped]. intros H Hsc.
    assert (Hnf : match p, opt_expr (cx_v c) e with
                  | PIdx _ i, EVar y => if v_forward g then assoc_i y i (cx_i c) else None
                  | _, _ => None
                  end = None) by (rewrite Hg3; destruct p; try reflexivity; destruct (opt_expr (cx_v c) e); reflexivity).
    rewrite Hnf in H. injection H as <- <- <- <-.
    eapply kept_good; [reflexivity | reflexivity | | left; reflexivity | |].
    - intros T HT. cbn. eapply tscope_expr; eauto.
    - intros op y k T _ E. exfalso. symmetry in E. eapply bind_b_neq; eauto.
    - intros D S J eo et tr Hwf Hi1 Hi2 HR. cbn. eexists. split; [reflexivity|].
      rewrite (R2_expr w c S J eo et e HR (in_scope_In _ _ _ Hsc Hi1)). split; [reflexivity|].
      intros op y k E. exfalso. symmetry in E. eapply bind_b_neq; eauto.
  Qed.

  Lemma P_SBreak n e c out c' brk f S0 :
    ccp_stmt g (S n) (SBreak e) c = Some (out, c', brk, f) -> scoped S0 (SBreak e) = true ->
    good [] [] (exec_o (SBreak e)) S0 c out c' brk.
  Proof.
    cbn [ccp_stmt scoped]. intros H Hsc. injection H as <- <- <- <-.
    intros D Hwf HS0 Hnd Hdj. split.
    - split; [assumption|]. split; [apply ext_refl|]. split; [cbn; intros x []|]. split; [constructor|].
      intros T HT HTD. split; [|discriminate]. cbn. rewrite (tscope_expr c S0 T e HT Hsc). reflexivity.
    - intros S J eo et tr Hi1 Hi2 HiJ HR. cbn. eexists.
      rewrite (R2_expr w c S J eo et e HR (in_scope_In _ _ _ Hsc Hi1)). reflexivity.
  Qed.

  (* a new struct: the statement is kept; the fields are recorded in a part of the context (cx_i) that only the
     forwarding of struct fields reads, which is switched off here (Hg3) *)
  Lemma P_SStruct n x tn es c out c' brk f S0 :
    ccp_stmt g (S n) (SStruct x tn es) c = Some (out, c', brk, f) -> scoped S0 (SStruct x tn es) = true ->
    good [x] [x] (exec_o (SStruct x tn es)) S0 c out c' brk.
  Proof.
    cbn [ccp_stmt scoped]. intros H Hsc. injection H as <- <- <- <-.
    change (good [x] [x] (exec_o (SStruct x tn es)) S0 c [SStruct x tn (map (opt_expr (cx_v c)) es)] c false).
    eapply kept_good; [reflexivity | reflexivity | | left; reflexivity | |].
    - intros T HT. cbn. eapply tscope_exprs; eauto.
    - intros op y k T _ E. exfalso. symmetry in E. eapply bind_b_neq; eauto.
    - intros D S J eo et tr Hwf Hi1 Hi2 HR. cbn. eexists. split; [reflexivity|].
      assert (Hes : map (eval w et) (map (opt_expr (cx_v c)) es) = map (eval w eo) es).
      { rewrite map_map. apply map_ext_in. intros a Ha. symmetry. apply (R2_expr w c S J eo et a HR).
        rewrite forallb_forall in Hsc. apply (in_scope_In _ _ _ (Hsc a Ha) Hi1). }
      rewrite Hes. split; [reflexivity|].
      intros op y k E. exfalso. symmetry in E. eapply bind_b_neq; eauto.
  Qed.

  Lemma P_SCall n fn args ret c out c' brk f S0 :
    ccp_stmt g (S n) (SCall fn args ret) c = Some (out, c', brk, f) -> scoped S0 (SCall fn args ret) = true ->
    good (opt_names ret) (opt_names ret) (exec_o (SCall fn args ret)) S0 c out c' brk.
  Proof.
    cbn [ccp_stmt scoped]. intros H Hsc. injection H as <- <- <- <-.
    intros D Hwf HS0 Hnd Hdj. split.
    - split; [eapply cx_wf2_mono; eauto; apply incl'_app_r|]. split; [apply ext_refl|].
      split; [cbn; rewrite app_nil_r; apply incl'_refl|]. split; [cbn; rewrite app_nil_r; exact Hnd|].
      intros T HT HTD. split; [cbn; now rewrite (tscope_exprs c S0 T args HT Hsc)|]. intros _. cbn [defs_l defs app].
      destruct ret as [r|]; cbn [opt_names app]; [|exact HT].
      assert (HrD : ~ In r D) by (intros Hr; eapply Hdj; eauto; left; reflexivity).
      apply tscope_keep; auto; [apply (cx_wf_notin_v c D r (cx_wf2_wf c D Hwf) HrD) | apply (cx_wf_notin_b c D r (cx_wf2_wf c D Hwf) HrD)].
    - intros S J eo et tr Hi1 Hi2 HiJ HR. cbn [exec].
      assert (Hargs : map (eval w et) (map (opt_expr (cx_v c)) args) = map (eval w eo) args).
      { rewrite map_map. apply map_ext_in. intros a Ha. symmetry. apply (R2_expr w c S J eo et a HR).
        rewrite forallb_forall in Hsc. apply (in_scope_In _ _ _ (Hsc a Ha) Hi1). }
      destruct (w_call w tr fn (map (eval w eo) args)) as [v|] eqn:Ec; cbn [dyn]; auto.
      split; auto. rewrite exec_block_cons. cbn [exec]. rewrite Hargs, Ec.
      destruct ret as [r|]; cbn [bind_opt opt_names app].
      + exists ((r, v) :: et), (r :: S), J. split; [reflexivity|].
        assert (HrD : ~ In r D) by (intros Hr; eapply Hdj; eauto; left; reflexivity).
        assert (HrSJ : ~ In r (S ++ J)) by (rewrite in_app_iff; intros [Hr|Hr]; apply HrD; auto).
        split; [|repeat split; inc].
        apply R2_def; auto; [apply (cx_wf_notin_v c D r (cx_wf2_wf c D Hwf) HrD) | apply (cx_wf_notin_b c D r (cx_wf2_wf c D Hwf) HrD)].
      + exists et, S, J. split; [reflexivity|]. split; [assumption|].
        repeat split; inc.
  Qed.
  (* ---------------------------------------------------------------- Binary *)
  Lemma bound_bin x op e1 e2 e c out c' brk f S0 :
    ccp_bound x e c = Some (out, c', brk, f) -> bindable c S0 e ->
    (forall D S J eo et v, cx_wf2 c D -> incl' S0 S -> incl' S D -> Rel2 w c S J eo et ->
       chk Add op && ovf op (eval w eo e1) (eval w eo e2) = false -> rt_binop op (eval w eo e1) (eval w eo e2) = Val v ->
       wrap32 v = eval w et e) ->
    good [x] [x] (exec_o (SBin x op e1 e2)) S0 c out c' brk.
  Proof.
    unfold ccp_bound. destruct (bind x e c) as [c1|] eqn:B; [|discriminate]. intros [= <- <- <- <-] Hbd Hdy.
    eapply bound_good; eauto.
    intros D S J eo et tr Hwf Hi1 Hi2 HR. apply (bin_step w fuel); auto.
    intros v Ho Hv. pose proof (Hdy D S J eo et v Hwf Hi1 Hi2 HR Ho Hv). eauto 6.
  Qed.

  Lemma kept_bin x op e1 e2 sop sa sb c c' S0 :
    (forall T, tscope c S0 T -> in_scope T sa = true /\ in_scope T sb = true) ->
    (c' = c \/ exists y k, c' = bind_b x (sop, y, k) c /\ sa = EVar y /\
       (forall D, cx_wf2 c D -> incl' S0 D -> In y D /\ in32 k /\ assoc y (cx_v c) = None) /\
       (forall en, eval w en sb = k)) ->
    (forall D S J eo et v, cx_wf2 c D -> incl' S0 S -> incl' S D -> Rel2 w c S J eo et ->
       chk Add op && ovf op (eval w eo e1) (eval w eo e2) = false -> rt_binop op (eval w eo e1) (eval w eo e2) = Val v ->
       rt_binop sop (eval w et sa) (eval w et sb) = Val v /\
       chk Add sop && ovf sop (eval w et sa) (eval w et sb) = false /\
       (c' = c \/ forall y, sa = EVar y -> In y (S ++ J))) ->
    good [x] [x] (exec_o (SBin x op e1 e2)) S0 c [SBin x sop sa sb] c' false.
  Proof.
    intros Hsc Hc Hdy. eapply kept_good; [reflexivity | reflexivity | | | |].
    - intros T HT. cbn. destruct (Hsc T HT) as [-> ->]. reflexivity.
    - destruct Hc as [->|(y & k & -> & _ & Hyk & _)]; [left; reflexivity|]. right. eauto.
    - intros op' y' k' T HT E. destruct Hc as [->|(y & k & -> & -> & _ & _)].
      + exfalso. symmetry in E. eapply bind_b_neq; eauto.
      + unfold bind_b in E. injection E as E1 E2 E3. subst. destruct (Hsc T HT) as [Ha _]. now apply in_scope_var in Ha.
    - intros D S J eo et tr Hwf Hi1 Hi2 HR. apply (bin_step w fuel); auto.
      intros v Ho Hv. destruct (Hdy D S J eo et v Hwf Hi1 Hi2 HR Ho Hv) as (Ht & Hot & Hrec).
      exists v. split; [reflexivity|]. split.
      + cbn [exec]. rewrite Hot, Ht. reflexivity.
      + intros op' y' k' E. destruct Hrec as [->|Hy].
        * exfalso. symmetry in E. eapply bind_b_neq; eauto.
        * destruct Hc as [->|(y & k & -> & -> & _ & Hk)].
          -- exfalso. symmetry in E. eapply bind_b_neq; eauto.
          -- unfold bind_b in E. injection E as E1 E2 E3. subst op' y' k'. rewrite (Hk et) in *. auto.
  Qed.

  Lemma rest_good x op e1 e2 c out c' brk f S0 :
    ccp_bin_rest x op (opt_expr (cx_v c) e1) (opt_expr (cx_v c) e2) c = Some (out, c', brk, f) ->
    in_scope S0 e1 = true -> in_scope S0 e2 = true ->
    good [x] [x] (exec_o (SBin x op e1 e2)) S0 c out c' brk.
  Proof.
    set (e1' := opt_expr (cx_v c) e1). set (e2' := opt_expr (cx_v c) e2).
    intros H Hs1 Hs2.
    assert (EA : forall S J eo et, incl' S0 S -> Rel2 w c S J eo et -> eval w eo e1 = eval w et e1').
    { intros S J eo et Hi HR. apply (R2_expr w c S J eo et e1 HR). eapply in_scope_In; eauto. }
    assert (EB : forall S J eo et, incl' S0 S -> Rel2 w c S J eo et -> eval w eo e2 = eval w et e2').
    { intros S J eo et Hi HR. apply (R2_expr w c S J eo et e2 HR). eapply in_scope_In; eauto. }
    assert (VS : forall S J eo et y, incl' S0 S -> Rel2 w c S J eo et -> e1' = EVar y \/ e2' = EVar y -> In y (S ++ J)).
    { intros S J eo et y Hi HR [E|E].
      - eapply (R2_expr_scope w c S J eo et e1); eauto. eapply in_scope_In; eauto.
      - eapply (R2_expr_scope w c S J eo et e2); eauto. eapply in_scope_In; eauto. }
    assert (VD : forall D y, cx_wf2 c D -> incl' S0 D -> e1' = EVar y \/ e2' = EVar y -> In y D /\ assoc y (cx_v c) = None).
    { intros D y Hwf Hi [E|E]; (split; [|eapply opt_expr_idem; eauto]).
      - apply (opt_expr_range c D S0 e1 y (cx_wf2_wf c D Hwf) Hi Hs1 E).
      - apply (opt_expr_range c D S0 e2 y (cx_wf2_wf c D Hwf) Hi Hs2 E). }
    assert (OT : forall T a, tscope c S0 T -> operand_of e1' e2' a -> in_scope T a = true).
    { intros T a HT [->|[->|[z ->]]]; [eapply tscope_expr; eauto | eapply tscope_expr; eauto | reflexivity]. }
    unfold ccp_bin_rest in H.
    destruct (match e1', e2' with
              | EVar a, EVar b => if N.eqb a b then match op with MINUS | MOD => Some (EInt 0) | DIV => Some (EInt 1) | _ => None end else None
              | _, _ => None end) as [e|] eqn:SV.
    - (* x op x *)
      assert (Hsv : exists a, e1' = EVar a /\ e2' = EVar a /\
                    ((op = MINUS \/ op = MOD) /\ e = EInt 0 \/ op = DIV /\ e = EInt 1)).
      { destruct e1' as [| | |a]; try discriminate. destruct e2' as [| | |b]; try discriminate.
        destruct (N.eqb_spec a b) as [->|]; [|discriminate]. exists b.
        destruct op; try discriminate; injection SV as <-; auto 8. }
      destruct Hsv as (a & E1 & E2 & Hop).
      eapply bound_bin; eauto.
      + right. intros y Ey. destruct Hop as [[_ ->]|[_ ->]]; discriminate.
      + intros D S J eo et v Hwf Hi1 Hi2 HR Ho Hv.
        rewrite (EA S J eo et Hi1 HR), (EB S J eo et Hi1 HR), E1, E2 in Hv.
        destruct Hop as [[[->| ->] ->]|[-> ->]]; change (eval w et (EInt 0)) with 0; change (eval w et (EInt 1)) with 1.
        * eapply id_minus_same; eauto.
        * eapply id_mod_same; eauto.
        * eapply id_div_same; eauto.
    - destruct (flex_unwrapped op e1' e2') as [[op' a'] b'] eqn:F.
      destruct (flex_unwrapped_operands _ _ _ _ _ _ F) as [Oa Ob].
      assert (FS : forall S J eo et v, incl' S0 S -> Rel2 w c S J eo et ->
                 chk Add op && ovf op (eval w eo e1) (eval w eo e2) = false -> rt_binop op (eval w eo e1) (eval w eo e2) = Val v ->
                 rt_binop op' (eval w et a') (eval w et b') = Val v /\
                 chk Add op' && ovf op' (eval w et a') (eval w et b') = false).
      { intros S J eo et v Hi HR Ho Hv. rewrite (EA S J eo et Hi HR), (EB S J eo et Hi HR) in Ho, Hv.
        destruct (flex_unwrapped_sound _ _ _ _ _ _ F w et) as [<- <-].
        rewrite (flex_unwrapped_chk Add _ _ _ _ _ _ F). auto. }
      assert (PLAIN : Some ([SBin x op' a' b'], c, false, fl0) = Some (out, c', brk, f) ->
                      good [x] [x] (exec_o (SBin x op e1 e2)) S0 c out c' brk).
      { intros [= <- <- <- <-]. apply kept_bin; [intros T HT; split; eapply OT; eauto | left; reflexivity|].
        intros D S J eo et v Hwf Hi1 Hi2 HR Ho Hv. destruct (FS S J eo et v Hi1 HR Ho Hv). auto. }
      destruct a' as [| | |v1]; try (apply PLAIN; exact H).
      destruct b' as [c2| | |]; try (apply PLAIN; exact H).
      destruct (match assoc v1 (cx_b c) with
                | Some (iop, iv, ic) => match merge_binop op' iop ic (wrap32 c2) with
                                        | Some (mop, mc) => Some (SBin x mop (EVar iv) (EInt mc))
                                        | None => None end
                | None => None end) as [s|] eqn:M.
      + (* merged with the recorded definition of v1 *)
        destruct (assoc v1 (cx_b c)) as [[[iop iv] ic]|] eqn:Ea; [|discriminate].
        destruct (merge_binop op' iop ic (wrap32 c2)) as [[mop mc]|] eqn:Em; [|discriminate].
        injection M as <-. injection H as <- <- <- <-.
        apply kept_bin; [|left; reflexivity|].
        * intros T HT. split; [|reflexivity]. apply in_scope_var.
          assert (Hv1T : In v1 T) by (apply in_scope_var; eapply OT; eauto).
          destruct HT as (_ & _ & H3). apply (H3 v1 iop iv ic Hv1T Ea).
        * intros D S J eo et v Hwf Hi1 Hi2 HR Ho Hv.
          destruct (FS S J eo et v Hi1 HR Ho Hv) as [Hv' Ho'].
          assert (Hv1 : In v1 (S ++ J)) by (eapply VS; eauto; apply operand_var; exact Oa).
          destruct HR as (_ & _ & RB). destruct (RB v1 iop iv ic Hv1 Ea) as (Hiv & Hoi & vi & Hvi & Hz).
          destruct Hwf as [[_ W2] _]. destruct (W2 v1 iop iv ic Ea) as (_ & _ & Hic).
          rewrite Hz in Hv', Ho'. change (eval w et (EInt c2)) with (wrap32 c2) in Hv', Ho'.
          destruct (merge_sound op' iop ic (wrap32 c2) mop mc (eval w et (EVar iv)) vi v Em
                      (eval_in32 _ _ _) Hic (wrap32_in _) Hvi Hoi Hv' Ho') as (Hmc & Hr & Hno).
          change (eval w et (EInt mc)) with (wrap32 mc). rewrite (wrap32_id mc Hmc). auto.
      + injection H as <- <- <- <-.
        apply kept_bin.
        * intros T HT. split; eapply OT; eauto.
        * right. exists v1, (wrap32 c2). split; [reflexivity|]. split; [reflexivity|]. split.
          -- intros D Hwf Hi. destruct (VD D v1 Hwf Hi (operand_var _ _ _ Oa)) as [A B]. split; [assumption|].
             split; [apply wrap32_in | assumption].
          -- intros en. reflexivity.
        * intros D S J eo et v Hwf Hi1 Hi2 HR Ho Hv. destruct (FS S J eo et v Hi1 HR Ho Hv) as [Hv' Ho'].
          split; [assumption|]. split; [assumption|]. right.
          intros y [= <-]. eapply VS; eauto. apply operand_var; exact Oa.
  Qed.
  Lemma P_SBin n x op e1 e2 c out c' brk f S0 :
    ccp_stmt g (S n) (SBin x op e1 e2) c = Some (out, c', brk, f) -> scoped S0 (SBin x op e1 e2) = true ->
    good [x] [x] (exec_o (SBin x op e1 e2)) S0 c out c' brk.
  Proof.
    cbn [ccp_stmt scoped]. unfold ccp_bin. intros H Hsc. apply andb_prop in Hsc. destruct Hsc as [Hs1 Hs2].
    set (e1' := opt_expr (cx_v c) e1) in *. set (e2' := opt_expr (cx_v c) e2) in *.
    assert (EA : forall S J eo et, incl' S0 S -> Rel2 w c S J eo et -> eval w eo e1 = eval w et e1').
    { intros S J eo et Hi HR. apply (R2_expr w c S J eo et e1 HR). eapply in_scope_In; eauto. }
    assert (EB : forall S J eo et, incl' S0 S -> Rel2 w c S J eo et -> eval w eo e2 = eval w et e2').
    { intros S J eo et Hi HR. apply (R2_expr w c S J eo et e2 HR). eapply in_scope_In; eauto. }
    destruct (lit e2') as [v2|] eqn:L2; [|eapply rest_good; eauto].
    destruct (lit_eval _ _ L2) as (Hv2 & _ & _).
    assert (B1 : forall (idl : forall a v, in32 a -> rt_binop op a v2 = Val v -> wrap32 v = a),
                 ccp_bound x e1' c = Some (out, c', brk, f) -> good [x] [x] (exec_o (SBin x op e1 e2)) S0 c out c' brk).
    { intros idl Hb. eapply bound_bin; eauto.
      - left. exists e1. auto.
      - intros D S J eo et v Hwf Hi1 Hi2 HR Ho Hv.
        rewrite (EB S J eo et Hi1 HR), Hv2 in Hv. rewrite <- (EA S J eo et Hi1 HR). eapply idl; eauto. apply eval_in32. }
    assert (B0 : forall z (idl : forall a v, in32 a -> rt_binop op a v2 = Val v -> wrap32 v = wrap32 z),
                 ccp_bound x (EInt z) c = Some (out, c', brk, f) -> good [x] [x] (exec_o (SBin x op e1 e2)) S0 c out c' brk).
    { intros z idl Hb. eapply bound_bin; eauto.
      - right. intros; discriminate.
      - intros D S J eo et v Hwf Hi1 Hi2 HR Ho Hv.
        rewrite (EB S J eo et Hi1 HR), Hv2 in Hv. change (eval w et (EInt z)) with (wrap32 z). eapply idl; eauto. apply eval_in32. }
    assert (TAIL : match lit e1' with
                   | Some v1 => match fold_binop op v1 v2 with
                                | Some r => ccp_bound x (EInt (wrap32 r)) c
                                | None => ccp_bin_rest x op e1' e2' c
                                end
                   | None => ccp_bin_rest x op e1' e2' c
                   end = Some (out, c', brk, f) -> good [x] [x] (exec_o (SBin x op e1 e2)) S0 c out c' brk).
    { intros HT. destruct (lit e1') as [v1|] eqn:L1; [|eapply rest_good; eauto].
      destruct (fold_binop op v1 v2) as [r|] eqn:Fo; [|eapply rest_good; eauto].
      destruct (lit_eval _ _ L1) as (Hv1 & _ & _).
      eapply bound_bin; eauto.
      - right. intros; discriminate.
      - intros D S J eo et v Hwf Hi1 Hi2 HR Ho Hv.
        rewrite (EA S J eo et Hi1 HR), (EB S J eo et Hi1 HR), Hv1, Hv2 in Hv.
        rewrite (fold_correct _ _ _ _ Fo) in Hv. injection Hv as <-.
        change (eval w et (EInt (wrap32 r))) with (wrap32 (wrap32 r)). now rewrite wrap32_idem. }
    destruct ((v2 =? 0) && match op with PLUS => true | _ => false end) eqn:C1.
    { apply andb_prop in C1. destruct C1 as [Ez Eop]. apply Z.eqb_eq in Ez. subst v2.
      destruct op; try discriminate. apply B1; [|exact H]. intros a v Ha Hv. eapply id_plus0; eauto. }
    destruct ((v2 =? 0) && match op with MUL => true | _ => false end) eqn:C2.
    { apply andb_prop in C2. destruct C2 as [Ez Eop]. apply Z.eqb_eq in Ez. subst v2.
      destruct op; try discriminate. apply (B0 0); [|exact H]. intros a v Ha Hv. eapply id_mul0; eauto. }
    destruct ((v2 =? 1) && match op with MOD => true | _ => false end) eqn:C3.
    { apply andb_prop in C3. destruct C3 as [Ez Eop]. apply Z.eqb_eq in Ez. subst v2.
      destruct op; try discriminate. apply (B0 0); [|exact H]. intros a v Ha Hv. eapply id_mod1; eauto. }
    destruct ((v2 =? 1) && match op with MUL | DIV => true | _ => false end) eqn:C4.
    { apply andb_prop in C4. destruct C4 as [Ez Eop]. apply Z.eqb_eq in Ez. subst v2.
      destruct op; try discriminate; (apply B1; [|exact H]); intros a v Ha Hv;
        [eapply id_mul1 | eapply id_div1]; eauto. }
    apply TAIL. exact H.
  Qed.
  (* ---------------------------------------------------------------- statement lists *)
  Lemma Q_of_P n : Pn n -> Qn n.
  Proof.
    intros HP ss. induction ss as [|st r IH]; intros c out c' brk f S0 H Hf Hsc.
    - cbn in H. injection H as <- <- <- <-. intros D Hwf HS0 Hnd Hdj. split.
      + split; [assumption|]. split; [apply ext_refl|]. split; [intros x []|]. split; [constructor|].
        intros T HT HTD. split; [reflexivity|]. intros _. exact HT.
      + intros S J eo et tr Hi1 Hi2 HiJ HR. cbn. split; auto. exists et, S, J. split; [reflexivity|].
        split; [assumption|]. repeat split; inc.
    - cbn [scoped_l] in Hsc. apply andb_prop in Hsc. destruct Hsc as [Hsc1 Hsc2].
      unfold ccp_stmts in H. cbn [ccp_go] in H.
      destruct (ccp_stmt g n st c) as [[[[o1 c1] b1] f1]|] eqn:E1; [|discriminate].
      cbn [binders_l defs_l].
      destruct b1.
      + injection H as <- <- <- <-.
        specialize (HP st c o1 c1 true f1 S0 E1 Hf Hsc1).
        intros D Hwf HS0 Hnd Hdj. destruct (disj_app_l _ _ _ Hdj) as [Hdj1 Hdj2].
        destruct (HP D Hwf HS0 (NoDup_app_l' _ _ Hnd) Hdj1) as [(W1 & X1 & B1 & N1 & T1) Hd]. split.
        * split; [eapply cx_wf2_mono; eauto; intros x; rewrite !in_app_iff; tauto|].
          split; [eapply ext_mono; eauto; apply incl'_app_l|]. split; [eapply incl'_trans; eauto; apply incl'_app_l|].
          split; [assumption|]. intros T HT HTD. destruct (T1 T HT HTD) as [A _]. split; [assumption | discriminate].
        * intros S J eo et tr Hi1 Hi2 HiJ HR. specialize (Hd S J eo et tr Hi1 Hi2 HiJ HR). rewrite exec_block_cons.
          destruct (exec_o st eo tr); cbn [dyn] in *; auto. destruct Hd as [Hd _]. discriminate.
      + destruct (ccp_go (ccp_stmt g n) r c1) as [[[[o2 c2] b2] f2]|] eqn:E2; [|discriminate].
        injection H as <- <- <- <-. apply orf_false in Hf. destruct Hf as [Hf1 Hf2].
        specialize (HP st c o1 c1 false f1 S0 E1 Hf1 Hsc1).
        specialize (IH c1 o2 c2 b2 f2 (defs st ++ S0) E2 Hf2 Hsc2).
        intros D Hwf HS0 Hnd Hdj. destruct (disj_app_l _ _ _ Hdj) as [Hdj1 Hdj2].
        destruct (HP D Hwf HS0 (NoDup_app_l' _ _ Hnd) Hdj1) as [(W1 & X1 & B1 & N1 & T1) Hd1].
        assert (HS0' : incl' (defs st ++ S0) (binders st ++ D)).
        { intros x. rewrite !in_app_iff. intros [Hx|Hx]; [left; now apply defs_in_binders | right; auto]. }
        assert (Hdj' : disj (binders_l r) (binders st ++ D)).
        { intros x Hx. rewrite in_app_iff. intros [Hb|Hb]; [eapply NoDup_app_disj'; eauto | eapply Hdj2; eauto]. }
        destruct (IH (binders st ++ D) W1 HS0' (NoDup_app_r' _ _ Hnd) Hdj') as [(W2 & X2 & B2 & N2 & T2) Hd2]. split.
        * split; [eapply cx_wf2_mono; eauto; intros x; rewrite !in_app_iff; tauto|]. split; [|split; [|split]].
          -- eapply ext_trans; eauto; [apply incl'_app_l | apply incl'_app_r].
          -- rewrite binders_l_app. intros x. rewrite !in_app_iff. intros [Hx|Hx]; auto.
          -- rewrite binders_l_app. apply NoDup_app_intro; auto.
             intros x Hx1 Hx2. eapply (NoDup_app_disj' _ _ x Hnd); eauto.
          -- intros T HT HTD. destruct (T1 T HT HTD) as [A1 A2]. specialize (A2 eq_refl).
             assert (HTD1 : incl' (defs_l o1 ++ T) (binders st ++ D)).
             { intros x. rewrite !in_app_iff. intros [Hx|Hx]; auto. left. apply B1. now apply defs_l_in_binders. }
             destruct (T2 _ A2 HTD1) as [C1 C2]. split.
             ++ rewrite scoped_l_app, A1. exact C1.
             ++ intros Eb. specialize (C2 Eb). rewrite defs_l_app, <- !app_assoc in *. exact C2.
        * intros S J eo et tr Hi1 Hi2 HiJ HR. specialize (Hd1 S J eo et tr Hi1 Hi2 HiJ HR). rewrite exec_block_cons.
          destruct (exec_o st eo tr) as [eo1 tr1|v eo1 tr1| | | | |]; cbn [dyn] in *; auto.
          -- destruct Hd1 as (_ & et1 & S1 & J1 & Ex1 & HR1 & Lo1 & Up1 & LJ1 & UJ1).
             assert (Hi1' : incl' (defs st ++ S0) S1) by inc2.
             assert (Hi2' : incl' S1 (binders st ++ D)) by inc2.
             assert (HiJ' : incl' J1 (binders st ++ D)) by inc2.
             specialize (Hd2 S1 J1 eo1 et1 tr1 Hi1' Hi2' HiJ' HR1).
             destruct (exec_block_o r eo1 tr1) as [eo2 tr2|v eo2 tr2| | | | |]; cbn [dyn] in *; auto.
             ++ destruct Hd2 as (-> & et2 & S2 & J2 & Ex2 & HR2 & Lo2 & Up2 & LJ2 & UJ2). split; auto. exists et2, S2, J2.
                split; [rewrite exec_block_app, Ex1; exact Ex2|]. split; [assumption|]. repeat split; inc2.
             ++ destruct Hd2 as [et2 Ex2]. exists et2. rewrite exec_block_app, Ex1. exact Ex2.
          -- destruct Hd1 as [et1 Ex1]. exists et1. rewrite exec_block_app, Ex1. reflexivity.
  Qed.
  (* ---------------------------------------------------------------- SingleIf *)
  Lemma P_SSIf n cnd inv ss c out c' brk f S0 :
    Qn n ->
    ccp_stmt g (S n) (SSIf cnd inv ss) c = Some (out, c', brk, f) -> fst f = false ->
    scoped S0 (SSIf cnd inv ss) = true ->
    good (binders_l ss) [] (exec_o (SSIf cnd inv ss)) S0 c out c' brk.
  Proof.
    intros HQ H Hf Hsc. rewrite scoped_SSIf in Hsc. apply andb_prop in Hsc. destruct Hsc as [Hc Hsc].
    cbn [ccp_stmt] in H. fold (ccp_stmts g n) in H.
    set (cnd' := opt_expr (cx_v c) cnd) in *.
    assert (EC : forall S J eo et, incl' S0 S -> Rel2 w c S J eo et -> eval w eo cnd = eval w et cnd').
    { intros S J eo et Hi HR. apply (R2_expr w c S J eo et cnd HR). eapply in_scope_In; eauto. }
    destruct (lit cnd') as [v|] eqn:L.
    - destruct (lit_eval _ _ L) as (Hv & _ & _).
      destruct (negb (Z.lxor v (b2z inv) =? 0)) eqn:T.
      + specialize (HQ ss c out c' brk f S0 H Hf Hsc).
        intros D Hwf HS0 Hnd Hdj. destruct (HQ D Hwf HS0 Hnd Hdj) as [(W1 & X1 & B1 & N1 & T1) Hd]. split.
        * split; [assumption|]. split; [assumption|]. split; [assumption|]. split; [assumption|].
          intros T0 HT HTD. destruct (T1 T0 HT HTD) as [A1 A2]. split; [assumption|]. intros Eb.
          eapply tscope_sub0; [apply A2; assumption|]. inc.
        * intros S J eo et tr Hi1 Hi2 HiJ HR. specialize (Hd S J eo et tr Hi1 Hi2 HiJ HR). rewrite exec_SSIf.
          rewrite (EC S J eo et Hi1 HR), Hv. destruct (cond v) as [b|] eqn:Eb; cbn [dyn]; auto.
          rewrite (cond_xor v b inv Eb), T.
          destruct (exec_block_o ss eo tr); cbn [dyn] in *; auto.
          destruct Hd as (Hb & et' & S' & J' & Ex & HR' & Lo & Up & LJ & UJ). split; auto. exists et', S', J'.
          split; [assumption|]. split; [assumption|]. repeat split; inc2.
      + injection H as <- <- <- <-. intros D Hwf HS0 Hnd Hdj. split.
        * split; [eapply cx_wf2_mono; eauto; apply incl'_app_r|]. split; [apply ext_refl|]. split; [intros x []|].
          split; [constructor|]. intros T0 HT HTD. split; [reflexivity|]. intros _. exact HT.
        * intros S J eo et tr Hi1 Hi2 HiJ HR. rewrite exec_SSIf.
          rewrite (EC S J eo et Hi1 HR), Hv. destruct (cond v) as [b|] eqn:Eb; cbn [dyn]; auto.
          rewrite (cond_xor v b inv Eb), T. cbn [dyn]. split; auto. exists et, S, J.
          split; [reflexivity|]. split; [assumption|]. repeat split; inc.
    - destruct (ccp_stmts g n ss c) as [[[[o1 c1] b1] f1]|] eqn:E1; [|discriminate].
      injection H as <- <- <- <-.
      specialize (HQ ss c o1 c1 b1 f1 S0 E1 Hf Hsc).
      intros D Hwf HS0 Hnd Hdj. destruct (HQ D Hwf HS0 Hnd Hdj) as [(W1 & X1 & B1 & N1 & T1) Hd]. split.
      + split; [assumption|]. split; [assumption|].
        assert (Eb : binders_l (if is_nil o1 then [] else [SSIf cnd' inv o1]) = binders_l o1).
        { destruct o1; [reflexivity|]. cbn [is_nil binders_l]. rewrite binders_SSIf, app_nil_r. reflexivity. }
        rewrite Eb. split; [assumption|]. split; [assumption|].
        intros T0 HT HTD. destruct (T1 T0 HT HTD) as [A1 _]. split.
        * destruct o1; [reflexivity|]. cbn [is_nil scoped_l]. rewrite scoped_SSIf, A1.
          unfold cnd'. rewrite (tscope_expr c S0 T0 cnd HT Hc). reflexivity.
        * intros _. assert (Ed : defs_l (if is_nil o1 then [] else [SSIf cnd' inv o1]) = []) by (destruct o1; reflexivity).
          rewrite Ed. cbn [app]. eapply tscope_ext; eauto.
          -- intros x Hx Hb. eapply Hdj; eauto.
          -- intros x Hx Hb. eapply Hdj; eauto.
      + intros S J eo et tr Hi1 Hi2 HiJ HR. specialize (Hd S J eo et tr Hi1 Hi2 HiJ HR). rewrite exec_SSIf.
        pose proof (EC S J eo et Hi1 HR) as Ecv. rewrite Ecv.
        destruct (cond (eval w et cnd')) as [b|] eqn:Eb; cbn [dyn]; auto.
        destruct (xorb b inv) eqn:Ex.
        * destruct (exec_block_o ss eo tr); cbn [dyn] in *; auto;
            rewrite (target_ssif_taken w fuel cnd' inv o1 et tr b Eb Ex); [|exact Hd].
          destruct Hd as (_ & et' & S' & J' & Ex' & HR' & Lo & Up & LJ & UJ). split; auto. exists et', S', J'.
          split; [assumption|]. split; [assumption|]. repeat split; inc2.
        * cbn [dyn]. split; auto. exists et, S, J.
          split; [apply (target_ssif_skipped w fuel cnd' inv o1 et tr b Eb Ex)|].
          split; [|repeat split; inc].
          eapply R2_ext; eauto. intros x Hx Hb. eapply Hdj; eauto. rewrite in_app_iff in Hx. destruct Hx; auto.
  Qed.
  (* ---------------------------------------------------------------- IfElse with a constant condition *)
  Lemma bind_fas_assoc b fas : forall c1 c2,
    bind_fas b fas c1 = Some c2 -> NoDup (map t_name fas) ->
    (forall t y, In t fas -> pick b t = EVar y -> ~ In y (map t_name fas)) ->
    cx_b c2 = cx_b c1 /\
    forall t, In t fas -> assoc (t_name t) (cx_v c2) = Some (opt_expr (cx_v c1) (pick b t)).
  Proof.
    induction fas as [|t r IH]; intros c1 c2 H Hnd Hfr; cbn in H.
    - injection H as <-. split; [reflexivity | intros t []].
    - destruct (bind (t_name t) _ c1) as [ca|] eqn:B; [|discriminate].
      destruct (bind_inv _ _ _ _ B) as (_ & Ev & Eb). inversion Hnd as [|? ? Hni Hnd']; subst.
      assert (Hfr' : forall t' y, In t' r -> pick b t' = EVar y -> ~ In y (map t_name r)).
      { intros t' y Ht' Ey Hy. eapply (Hfr t' y); eauto; right; assumption. }
      destruct (IH ca c2 H Hnd' Hfr') as [Hb Ha].
      split; [congruence|]. intros t' [<-|Ht'].
      + destruct (bind_fas_ext b r ca c2 H (t_name t) Hni) as [-> _]. rewrite Ev. cbn. rewrite N.eqb_refl.
        destruct b; reflexivity.
      + rewrite (Ha t' Ht'). f_equal. rewrite Ev. destruct (pick b t') eqn:Ep; try reflexivity. cbn.
        destruct (N.eqb_spec x (t_name t)) as [->|]; [|reflexivity].
        exfalso. eapply (Hfr t' (t_name t)); eauto; [right; assumption | left; reflexivity].
  Qed.

  Lemma bind_fas_static2 b fas : forall c1 c2 D1 Sx,
    bind_fas b fas c1 = Some c2 -> cx_wf2 c1 D1 -> incl' Sx D1 ->
    (forall t, In t fas -> in_scope Sx (pick b t) = true) ->
    NoDup (map t_name fas) -> (forall x, In x (map t_name fas) -> ~ In x D1) ->
    cx_wf2 c2 (map t_name fas ++ D1).
  Proof.
    induction fas as [|t r IH]; intros c1 c2 D1 Sx H Hwf Hi Hsc Hnd Hfr; cbn in H.
    - injection H as <-. assumption.
    - destruct (bind (t_name t) _ c1) as [ca|] eqn:B; [|discriminate]. inversion Hnd as [|? ? Hni Hnd']; subst.
      assert (Hwa : cx_wf2 ca (t_name t :: D1)).
      { eapply bind_wf2; eauto; [apply Hfr; left; reflexivity|]. intros y Ey. split.
        - eapply (opt_expr_range c1 D1 Sx (pick b t)); eauto; [apply Hwf | apply Hsc; left; reflexivity].
        - eapply opt_expr_idem; eauto. }
      assert (Hi' : incl' Sx (t_name t :: D1)) by (intros x Hx; right; auto).
      assert (Hsc' : forall t', In t' r -> in_scope Sx (pick b t') = true) by (intros t' Ht'; apply Hsc; right; assumption).
      assert (Hfr' : forall x, In x (map t_name r) -> ~ In x (t_name t :: D1)).
      { intros x Hx [<-|Hd]; [contradiction|]. eapply Hfr; eauto. right; assumption. }
      pose proof (IH ca c2 (t_name t :: D1) Sx H Hwa Hi' Hsc' Hnd' Hfr') as W.
      eapply cx_wf2_mono; eauto. intros x. cbn. rewrite !in_app_iff. cbn. tauto.
  Qed.

  Lemma bind_fas_tscope b fas : forall c1 c2 Sx Sy T,
    bind_fas b fas c1 = Some c2 -> tscope c1 (Sy ++ Sx) T ->
    (forall t, In t fas -> in_scope Sx (pick b t) = true) ->
    (forall x, In x (map t_name fas) -> ~ In x (Sy ++ Sx) /\ ~ In x T) -> NoDup (map t_name fas) ->
    tscope c2 (map t_name fas ++ Sy ++ Sx) T.
  Proof.
    induction fas as [|t r IH]; intros c1 c2 Sx Sy T H HT Hsc Hfr Hnd; cbn in H.
    - injection H as <-. exact HT.
    - destruct (bind (t_name t) _ c1) as [ca|] eqn:B; [|discriminate]. inversion Hnd as [|? ? Hni Hnd']; subst.
      destruct (Hfr (t_name t) (or_introl eq_refl)) as [F1 F2].
      assert (HTa : tscope ca ((t_name t :: Sy) ++ Sx) T).
      { cbn [app]. eapply tscope_bind; eauto. intros y Ey. eapply (tscope_var c1 (Sy ++ Sx) T (pick b t)); eauto.
        specialize (Hsc t (or_introl eq_refl)). destruct (pick b t); try reflexivity.
        apply in_scope_var in Hsc. apply in_scope_var. apply in_or_app. auto. }
      pose proof (IH ca c2 Sx (t_name t :: Sy) T H HTa (fun t' Ht' => Hsc t' (or_intror Ht'))) as W.
      eapply tscope_sub0; [apply W; auto|].
      + intros x Hx. destruct (Hfr x (or_intror Hx)) as [G1 G2]. split; auto. cbn [app]. intros [<-|Hy]; auto.
      + inc.
  Qed.

  Lemma R2_bind_fas b fas c1 c2 S1 J Sx eo1 et1 D1 :
    Rel2 w c1 S1 J eo1 et1 -> bind_fas b fas c1 = Some c2 -> NoDup (map t_name fas) ->
    (forall x, In x (map t_name fas) -> ~ In x D1) -> incl' S1 D1 -> incl' J D1 -> cx_wf c1 D1 -> incl' Sx S1 ->
    (forall t, In t fas -> in_scope Sx (pick b t) = true) ->
    Rel2 w c2 (map t_name fas ++ S1) J
        (combine (map t_name fas) (map (fun t => eval w eo1 (pick b t)) fas) ++ eo1) et1.
  Proof.
    intros HR Hb Hnd Hfr Hi HiJ Hwf Hix Hsc.
    assert (Hfr' : forall t y, In t fas -> pick b t = EVar y -> ~ In y (map t_name fas)).
    { intros t y Ht Ey Hy. apply (Hfr y Hy). apply Hi, Hix. apply in_scope_var. rewrite <- Ey. auto. }
    destruct (bind_fas_assoc b fas c1 c2 Hb Hnd Hfr') as [Eb Ha].
    pose proof (bind_fas_ext b fas c1 c2 Hb) as X.
    assert (Hvar : forall t, In t fas -> forall y, pick b t = EVar y -> In y S1).
    { intros t Ht y Ey. apply Hix. apply in_scope_var. rewrite <- Ey. auto. }
    assert (Hout : forall x, ~ In x (map t_name fas) -> opt_expr (cx_v c2) (EVar x) = opt_expr (cx_v c1) (EVar x)).
    { intros x Hx. cbn. destruct (X x Hx) as [-> _]. reflexivity. }
    assert (Hin : forall t, In t fas -> opt_expr (cx_v c2) (EVar (t_name t)) = opt_expr (cx_v c1) (pick b t)).
    { intros t Ht. cbn. now rewrite (Ha t Ht). }
    assert (Hup : forall x, In x (S1 ++ J) -> In x ((map t_name fas ++ S1) ++ J)) by inc.
    pose proof HR as (RV & RI & RB). split; [|split].
    - intros x Hx. destruct (in_dec N.eq_dec x (map t_name fas)) as [Hf|Hn].
      + apply in_map_iff in Hf. destruct Hf as [t [<- Ht]]. rewrite (Hin t Ht).
        unfold eval at 1. rewrite (lookup_bind w (pick b)), (find_name_unique fas t Hnd Ht), eval_wrap.
        apply (R2_expr w c1 S1 J eo1 et1 (pick b t) HR). apply Hvar; assumption.
      + rewrite (Hout x Hn). rewrite in_app_iff in Hx. destruct Hx as [Hx|Hx]; [contradiction|].
        rewrite <- (RV x Hx). apply eval_var_lookup. now apply (lookup_bind_notin w (pick b)).
    - intros x y Hx. destruct (in_dec N.eq_dec x (map t_name fas)) as [Hf|Hn].
      + apply in_map_iff in Hf. destruct Hf as [t [<- Ht]]. rewrite (Hin t Ht). intros E. apply Hup.
        apply (R2_expr_scope w c1 S1 J eo1 et1 (pick b t) y HR (Hvar t Ht) E).
      + rewrite (Hout x Hn). rewrite in_app_iff in Hx. destruct Hx as [Hx|Hx]; [contradiction|].
        intros E. apply Hup. eauto.
    - intros z op y k Hz. rewrite Eb. intros E.
      destruct (in_dec N.eq_dec z (map t_name fas)) as [Hf|Hn].
      + exfalso. rewrite (cx_wf_notin_b c1 D1 z Hwf (Hfr z Hf)) in E. discriminate.
      + assert (Hz' : In z (S1 ++ J)) by (rewrite !in_app_iff in *; tauto).
        destruct (RB z op y k Hz' E) as (Hy & R). split; [apply Hup; assumption | exact R].
  Qed.

  Lemma good_ext bs ds xo xo' S0 c out c' brk :
    good bs ds xo S0 c out c' brk ->
    (forall S J eo et tr, incl' S0 S -> Rel2 w c S J eo et -> xo' eo tr = xo eo tr \/ trivial_res (xo' eo tr)) ->
    good bs ds xo' S0 c out c' brk.
  Proof.
    intros Hg He D Hwf HS0 Hnd Hdj. destruct (Hg D Hwf HS0 Hnd Hdj) as [Hst Hd]. split; [exact Hst|].
    intros S J eo et tr Hi1 Hi2 HiJ HR. destruct (He S J eo et tr Hi1 HR) as [->|Ht]; [auto|].
    destruct (xo' eo tr); cbn in *; auto; contradiction.
  Qed.

  (* the taken branch replaces the statement; its final assignments become bindings *)
  Lemma const_if_core b sb fas bs S0 c out1 c1 b1 out c' brk :
    good (binders_l sb) (defs_l sb) (exec_block_o sb) S0 c out1 c1 b1 ->
    (b1 = true /\ out = out1 /\ c' = c1 /\ brk = true \/
     b1 = false /\ bind_fas b fas c1 = Some c' /\ out = out1 /\ brk = false) ->
    incl' (binders_l sb) bs -> incl' (map t_name fas) bs ->
    (NoDup bs -> NoDup (binders_l sb) /\ NoDup (map t_name fas) /\
                 forall x, In x (map t_name fas) -> ~ In x (binders_l sb)) ->
    (forall t, In t fas -> in_scope (defs_l sb ++ S0) (pick b t) = true) ->
    good bs (map t_name fas)
      (fun eo tr => match exec_block_o sb eo tr with
                    | RNext en' tr' => RNext (combine (map t_name fas) (map (fun t => eval w en' (pick b t)) fas) ++ en') tr'
                    | o => o
                    end) S0 c out c' brk.
  Proof.
    intros HQs Hres Hsub HFN Hnds Hfsc D Hwf HS0 Hnd Hdj.
    destruct (Hnds Hnd) as (Hnd1 & HndF & HdF).
    assert (Hdj1 : disj (binders_l sb) D) by (intros x Hx; apply Hdj; auto).
    assert (HdjF : forall x, In x (map t_name fas) -> ~ In x D) by (intros x Hx Hd; eapply Hdj; eauto).
    destruct (HQs D Hwf HS0 Hnd1 Hdj1) as [(W1 & X1 & B1 & N1 & T1) Hd1].
    assert (HSx : incl' (defs_l sb ++ S0) (binders_l sb ++ D)).
    { intros x. rewrite !in_app_iff. intros [Hx|Hx]; [left; now apply defs_l_in_binders | right; auto]. }
    assert (HfrD : forall x, In x (map t_name fas) -> ~ In x (binders_l sb ++ D)).
    { intros x Hx. rewrite in_app_iff. intros [Hb'|Hd']; [eapply HdF; eauto | eapply HdjF; eauto]. }
    split.
    - destruct Hres as [(-> & -> & -> & ->)|(-> & Hb & -> & ->)].
      + split; [eapply cx_wf2_mono; eauto; intros x; rewrite !in_app_iff; intros [Hx|Hx]; auto|].
        split; [eapply ext_mono; eauto|]. split; [eapply incl'_trans; eauto|]. split; [assumption|].
        intros T HT HTD. destruct (T1 T HT HTD) as [A _]. split; [assumption | discriminate].
      + split; [|split; [|split; [eapply incl'_trans; eauto|split; [assumption|]]]].
        * pose proof (bind_fas_static2 b fas c1 c' _ _ Hb W1 HSx Hfsc HndF HfrD) as W2.
          eapply cx_wf2_mono; eauto. intros x. rewrite !in_app_iff. intros [Hx|[Hx|Hx]]; auto.
        * eapply ext_trans; [exact X1 | eapply bind_fas_ext; eauto | assumption | assumption].
        * intros T HT HTD. destruct (T1 T HT HTD) as [A1 A2]. split; [assumption|]. intros _.
          specialize (A2 eq_refl).
          assert (HTD1 : forall x, In x (defs_l out1 ++ T) -> In x (binders_l sb ++ D)).
          { intros x. rewrite !in_app_iff. intros [Hx|Hx]; auto. left. apply B1. now apply defs_l_in_binders. }
          pose proof (bind_fas_tscope b fas c1 c' (defs_l sb ++ S0) [] (defs_l out1 ++ T) Hb A2 Hfsc) as W.
          eapply tscope_sub0; [apply W; auto|].
          -- intros x Hx. split; intros Hy; apply (HfrD x Hx); auto.
          -- inc.
    - intros S J eo et tr Hi1 Hi2 HiJ HR. specialize (Hd1 S J eo et tr Hi1 Hi2 HiJ HR).
      destruct (exec_block_o sb eo tr) as [eo1 tr1|v eo1 tr1| | | | |]; cbn [dyn] in *; auto.
      + destruct Hd1 as (Eb1 & et1 & S1 & J1 & Ex & HR1 & Lo & Up & LJ & UJ).
        destruct Hres as [(-> & _)|(_ & Hb & -> & ->)]; [discriminate|]. split; auto.
        exists et1, (map t_name fas ++ S1), J1. split; [assumption|]. split; [|repeat split; inc2].
        eapply (R2_bind_fas b fas c1 c' S1 J1 (defs_l sb ++ S0) eo1 et1 (binders_l sb ++ D)); eauto; try inc2.
        apply W1.
      + destruct Hres as [(_ & -> & _)|(_ & _ & -> & _)]; exact Hd1.
  Qed.
  Lemma P_SIf_const n cnd s1 s2 fas c out c' brk f S0 v :
    Qn n -> lit (opt_expr (cx_v c) cnd) = Some v ->
    match ccp_stmts g n (if negb (v =? 0) then s1 else s2) c with
    | None => None
    | Some (out, c1, true, f) => Some (out, c1, true, f)
    | Some (out, c1, false, f) =>
        match bind_fas (negb (v =? 0)) fas c1 with Some c2 => Some (out, c2, false, f) | None => None end
    end = Some (out, c', brk, f) ->
    fst f = false -> scoped S0 (SIf cnd s1 s2 fas) = true ->
    good (binders (SIf cnd s1 s2 fas)) (map t_name fas) (exec_o (SIf cnd s1 s2 fas)) S0 c out c' brk.
  Proof.
    intros HQ L H Hf Hsc. destruct (SIf_scoped_parts _ _ _ _ _ Hsc) as (Hc & Hs1 & Hs2 & Hfa).
    set (b := negb (v =? 0)) in *.
    destruct (SIf_binders_parts cnd s1 s2 fas b) as (Hsub & HFN & Hnds).
    destruct (ccp_stmts g n (if b then s1 else s2) c) as [[[[o1 c1] b1] f1]|] eqn:E1; [|discriminate].
    assert (Hres : fst f1 = false /\
                   (b1 = true /\ out = o1 /\ c' = c1 /\ brk = true \/
                    b1 = false /\ bind_fas b fas c1 = Some c' /\ out = o1 /\ brk = false)).
    { destruct b1.
      - injection H as <- <- <- <-. auto 8.
      - destruct (bind_fas b fas c1) as [c2|] eqn:B; [|discriminate]. injection H as <- <- <- <-. auto 8. }
    destruct Hres as [Hf1 Hres].
    assert (Hssb : scoped_l S0 (if b then s1 else s2) = true) by (destruct b; assumption).
    pose proof (HQ _ c o1 c1 b1 f1 S0 E1 Hf1 Hssb) as HQs.
    eapply good_ext; [eapply (const_if_core b); eauto|].
    intros S J eo et tr Hi HR. rewrite exec_SIf.
    destruct (lit_eval _ _ L) as (Hv & _ & _).
    rewrite (R2_expr w c S J eo et cnd HR (in_scope_In _ _ _ Hc Hi)), Hv.
    destruct (cond v) as [b0|] eqn:Ec; [|right; exact I].
    rewrite (cond_lit v b0 Ec). fold b. left. destruct b; reflexivity.
  Qed.

  Lemma P_SIf_10 cnd t c c' S0 :
    is_lit (t_e1 t) 1 && is_lit (t_e2 t) 0 = true ->
    bind (t_name t) (opt_expr (cx_v c) cnd) c = Some c' -> in_scope S0 cnd = true ->
    good [t_name t] [t_name t] (exec_o (SIf cnd [] [] [t])) S0 c [] c' false.
  Proof.
    intros Hl Hb Hc. apply andb_prop in Hl. destruct Hl as [L1 L0].
    eapply bound_good; eauto.
    - left. exists cnd. auto.
    - intros D S J eo et tr Hwf Hi1 Hi2 HR. rewrite exec_SIf.
      pose proof (R2_expr w c S J eo et cnd HR (in_scope_In _ _ _ Hc Hi1)) as Ec.
      destruct (cond (eval w eo cnd)) as [[|]|] eqn:Eb; [| |exact I].
      + cbn. eexists. split; [reflexivity|]. split; [reflexivity|].
        rewrite eval_wrap, (is_lit_eval w _ _ L1), <- Ec. symmetry. now apply cond_true.
      + cbn. eexists. split; [reflexivity|]. split; [reflexivity|].
        rewrite eval_wrap, (is_lit_eval w _ _ L0), <- Ec. symmetry. now apply cond_false.
  Qed.

  Lemma P_SIf_01 cnd t c S0 :
    is_lit (t_e1 t) 0 && is_lit (t_e2 t) 1 = true -> in_scope S0 cnd = true ->
    good [t_name t] [t_name t] (exec_o (SIf cnd [] [] [t])) S0 c
         [SBin (t_name t) XOR (opt_expr (cx_v c) cnd) (EInt 1)] c false.
  Proof.
    intros Hl Hc. apply andb_prop in Hl. destruct Hl as [L0 L1].
    eapply kept_good; [reflexivity | reflexivity | | left; reflexivity | |].
    - intros T HT. cbn. rewrite (tscope_expr c S0 T cnd HT Hc). reflexivity.
    - intros op y k T _ E. exfalso. symmetry in E. eapply bind_b_neq; eauto.
    - intros D S J eo et tr Hwf Hi1 Hi2 HR. rewrite exec_SIf.
      pose proof (R2_expr w c S J eo et cnd HR (in_scope_In _ _ _ Hc Hi1)) as Ec.
      destruct (cond (eval w eo cnd)) as [[|]|] eqn:Eb; [| |exact I].
      + cbn. eexists. split; [reflexivity|]. split.
        * rewrite <- Ec, (cond_true _ Eb), (is_lit_eval w _ _ L0). reflexivity.
        * intros op y k E. exfalso. symmetry in E. eapply bind_b_neq; eauto.
      + cbn. eexists. split; [reflexivity|]. split.
        * rewrite <- Ec, (cond_false _ Eb), (is_lit_eval w _ _ L1). reflexivity.
        * intros op y k E. exfalso. symmetry in E. eapply bind_b_neq; eauto.
  Qed.
  (* ---------------------------------------------------------------- "ends with break" is what the flag says *)
  Lemma ends_break_app_r a b : ends_break b = true -> ends_break (a ++ b) = true.
  Proof.
    intros H. destruct (ends_break_split b H) as (rest & e & ->). rewrite app_assoc. apply ends_break_app.
  Qed.

  Lemma ccp_bound_brk x e c out c' b f : ccp_bound x e c = Some (out, c', b, f) -> b = false.
  Proof. unfold ccp_bound. destruct (bind x e c); [intros [= _ _ <- _]; reflexivity | discriminate]. Qed.
  Lemma ccp_bin_rest_brk x op e1 e2 c out c' b f : ccp_bin_rest x op e1 e2 c = Some (out, c', b, f) -> b = false.
  Proof.
    unfold ccp_bin_rest. intros H.
    destruct (match e1, e2 with
              | EVar a, EVar b0 => if N.eqb a b0 then match op with MINUS | MOD => Some (EInt 0) | DIV => Some (EInt 1) | _ => None end else None
              | _, _ => None end); [eapply ccp_bound_brk; eauto|].
    destruct (flex_unwrapped op e1 e2) as [[op' a'] b'].
    repeat match type of H with
           | match ?x with _ => _ end = _ => destruct x; try discriminate
           end; injection H as _ _ <- _; reflexivity.
  Qed.
  Lemma ccp_bin_brk x op e1 e2 c out c' f : ccp_bin x op e1 e2 c = Some (out, c', true, f) -> False.
  Proof.
    unfold ccp_bin. intros H.
    assert (forall b, Some (out, c', true, f) = Some (out, c', b, f) -> b = false -> False) by (intros b [= <-]; discriminate).
    repeat match type of H with
           | match ?x with _ => _ end = _ => destruct x
           | (if ?x then _ else _) = _ => destruct x
           end;
      first [apply ccp_bound_brk in H | apply ccp_bin_rest_brk in H]; discriminate.
  Qed.

  Lemma try_loop_brk stmts body bc c : forall d l o c' b f,
    try_loop g stmts d l body bc c = Some (o, c', b, f) -> b = false.
  Proof.
    induction d as [|d IHd]; intros l o c' b f Et; cbn [try_loop] in Et;
      destruct (bind_inits l c) as [cA|]; try discriminate;
      destruct (stmts body cA) as [[[[oA cB] bA] fA]|]; try discriminate;
      destruct (split_last oA) as [[restA last]|].
    1, 3: destruct (negb (is_break last) || v_guard g && negb (no_break_l restA)); [injection Et as _ _ <- _; reflexivity|];
          destruct last; try discriminate; destruct bc as [bn|];
          [destruct (bind bn _ c); [|discriminate]|]; injection Et as _ _ <- _; reflexivity.
    - injection Et as _ _ <- _; reflexivity.
    - destruct (try_loop g stmts d _ body bc c) as [[[[o' c2'] b2'] f2']|] eqn:Et2; [|discriminate].
      injection Et as _ _ <- _. eapply IHd; eauto.
  Qed.

  Lemma ccp_brk_ends n : forall st c out c' f, ccp_stmt g n st c = Some (out, c', true, f) -> ends_break out = true.
  Proof.
    induction n as [|n IH]; intros st c out c' f H; [discriminate|].
    assert (HG : forall ss c out c' f, ccp_stmts g n ss c = Some (out, c', true, f) -> ends_break out = true).
    { induction ss as [|s r IHr]; intros c0 out0 c0' f0 H0; unfold ccp_stmts in H0; cbn [ccp_go] in H0; [discriminate|].
      destruct (ccp_stmt g n s c0) as [[[[o1 c1] b1] f1]|] eqn:E1; [|discriminate]. destruct b1.
      - injection H0 as <- <- <-. eapply IH; eauto.
      - destruct (ccp_go (ccp_stmt g n) r c1) as [[[[o2 c2] b2] f2]|] eqn:E2; [|discriminate].
        injection H0 as <- <- -> <-. apply ends_break_app_r. eapply IHr; eauto. }
    destruct st; cbn [ccp_stmt] in H; fold (ccp_stmts g n) in H.
    - exfalso. exact (ccp_bin_brk _ _ _ _ _ _ _ _ H).
    - destruct (lit _); [destruct (bind _ _ _)|]; try discriminate; injection H; discriminate.
    - match type of H with (match ?m with _ => _ end) = _ => destruct m as [cp|]; [destruct (bind _ _ _); [|discriminate]|] end; injection H; discriminate.
    - injection H; discriminate.
    - destruct (lit (opt_expr (cx_v c) c0)) as [v|].
      + destruct (ccp_stmts g n _ c) as [[[[o1 c1] b1] f1]|] eqn:E1; [|discriminate]. destruct b1.
        * injection H as <- <- <-. eapply HG; eauto.
        * destruct (bind_fas _ _ _); [injection H; discriminate | discriminate].
      + exfalso.
        assert (GEN : forall (X : option R), X = Some (out, c', true, f) ->
                  (forall o1 c1 b1 f1, ccp_stmts g n s1 c = Some (o1, c1, b1, f1) ->
                     X = match ccp_stmts g n s2 c with
                         | None => None
                         | Some (o2, c2, _, f2) =>
                             match merge_fas fas (map (fun t => opt_expr (cx_v c1) (t_e1 t)) fas)
                                             (map (fun t => opt_expr (cx_v c2) (t_e2 t)) fas) c with
                             | None => None
                             | Some (fas', c'0) =>
                                 Some (if is_nil o1 && is_nil o2 && is_nil fas' then [] else [SIf (opt_expr (cx_v c) c0) o1 o2 fas'],
                                       c'0, false,
                                       orf (orf f1 f2) (if (ends_break o1 || ends_break o2) && negb (is_nil fas) then fl_unproved else fl0))
                             end
                         end) -> ccp_stmts g n s1 c <> None -> False).
        { intros X HX HXe Hne. destruct (ccp_stmts g n s1 c) as [[[[o1 c1] b1] f1]|]; [|congruence].
          rewrite (HXe o1 c1 b1 f1 eq_refl) in HX. destruct (ccp_stmts g n s2 c) as [[[[o2 c2] b2] f2]|]; [|discriminate].
          destruct (merge_fas _ _ _ c) as [[fas' c0']|]; [injection HX; discriminate | discriminate]. }
        assert (GEN' : match ccp_stmts g n s1 c with
                       | None => None
                       | Some (o1, c1, _, f1) =>
                           match ccp_stmts g n s2 c with
                           | None => None
                           | Some (o2, c2, _, f2) =>
                               match merge_fas fas (map (fun t => opt_expr (cx_v c1) (t_e1 t)) fas)
                                               (map (fun t => opt_expr (cx_v c2) (t_e2 t)) fas) c with
                               | None => None
                               | Some (fas', c'0) =>
                                   Some (if is_nil o1 && is_nil o2 && is_nil fas' then [] else [SIf (opt_expr (cx_v c) c0) o1 o2 fas'],
                                         c'0, false,
                                         orf (orf f1 f2) (if (ends_break o1 || ends_break o2) && negb (is_nil fas) then fl_unproved else fl0))
                               end
                           end
                       end = Some (out, c', true, f) -> False).
        { intros HX. destruct (ccp_stmts g n s1 c) as [[[[o1 c1] b1] f1]|]; [|discriminate].
          destruct (ccp_stmts g n s2 c) as [[[[o2 c2] b2] f2]|]; [|discriminate].
          destruct (merge_fas _ _ _ c) as [[fas' c0']|]; [injection HX; discriminate | discriminate]. }
        clear GEN.
        destruct s1 as [|a1 r1]; [|exact (GEN' H)].
        destruct s2 as [|a2 r2]; [|exact (GEN' H)].
        destruct fas as [|t [|t2 r]]; [exact (GEN' H)| |exact (GEN' H)].
        destruct (is_lit (t_e1 t) 1 && is_lit (t_e2 t) 0).
        * destruct (bind (t_name t) _ c); [injection H; discriminate | discriminate].
        * destruct (is_lit (t_e1 t) 0 && is_lit (t_e2 t) 1); [injection H; discriminate | exact (GEN' H)].
    - destruct (lit _) as [v|].
      + destruct (negb _); [eapply HG; eauto | injection H; discriminate].
      + destruct (ccp_stmts g n ss c) as [[[[o1 c1] b1] f1]|]; [injection H; discriminate | discriminate].
    - injection H as <- <- <-. reflexivity.
    - destruct (elim_lvs g lvs c) as [[[K c1] f0]|]; [|discriminate].
      destruct (ccp_stmts g n ss c1) as [[[[body c_in] bb] f1]|]; [|discriminate].
      match type of H with match ?x with _ => _ end = _ => destruct x as [[rest e]|] end.
      + destruct (bind_inits _ c1) as [c2|]; [|discriminate].
        destruct (ccp_stmts g n rest c2) as [[[[o c3] b3] f2]|]; [|discriminate].
        destruct bc as [bn|]; [destruct (bind bn _ c3); [|discriminate]|]; injection H; discriminate.
      + destruct (try_loop g (ccp_stmts g n) 5 _ body bc c1) as [[[[o c2] b2] f2]|] eqn:Et; [|discriminate].
        injection H as <- <- -> <-. pose proof (try_loop_brk _ _ _ _ _ _ _ _ _ _ Et). discriminate.
    - injection H; discriminate.
    - injection H; discriminate.
    - injection H; discriminate.
  Qed.

  Lemma ccps_brk_ends n ss c out c' f : ccp_stmts g n ss c = Some (out, c', true, f) -> ends_break out = true.
  Proof.
    revert c out c' f. induction ss as [|s r IHr]; intros c0 out0 c0' f0 H0; unfold ccp_stmts in H0; cbn [ccp_go] in H0; [discriminate|].
    destruct (ccp_stmt g n s c0) as [[[[o1 c1] b1] f1]|] eqn:E1; [|discriminate]. destruct b1.
    - injection H0 as <- <- <-. eapply ccp_brk_ends; eauto.
    - destruct (ccp_go (ccp_stmt g n) r c1) as [[[[o2 c2] b2] f2]|] eqn:E2; [|discriminate].
      injection H0 as <- <- -> <-. apply ends_break_app_r. eapply IHr; eauto.
  Qed.
  (* ---------------------------------------------------------------- IfElse, general case *)
  Lemma merge_fas_static2 (fa fb : triple -> expr) fas : forall c fas' c',
    merge_fas fas (map fa fas) (map fb fas) c = Some (fas', c') -> NoDup (map t_name fas) ->
    (forall D, cx_wf2 c D -> (forall x, In x (map t_name fas) -> ~ In x D) ->
       (forall t y, In t fas -> expr_eq (fa t) (fb t) = true -> fa t = EVar y -> In y D /\ assoc y (cx_v c) = None) ->
       cx_wf2 c' (map t_name fas ++ D)) /\
    (forall S0 T, tscope c S0 T ->
       (forall x, In x (map t_name fas) -> ~ In x S0 /\ ~ In x T /\ assoc x (cx_v c) = None /\ assoc x (cx_b c) = None) ->
       (forall t y, In t fas -> expr_eq (fa t) (fb t) = true -> fa t = EVar y -> In y T) ->
       tscope c' (map t_name fas ++ S0) (map t_name fas' ++ T)).
  Proof.
    induction fas as [|t r IH]; intros c fas' c' H Hnd; cbn in H.
    - injection H as <- <-. split; [intros D Hwf _ _; exact Hwf | intros S0 T HT _ _; exact HT].
    - inversion Hnd as [|? ? Hni Hnd']; subst. destruct (expr_eq (fa t) (fb t)) eqn:Eq.
      + destruct (bind (t_name t) (fa t) c) as [ca|] eqn:B; [|discriminate].
        destruct (IH ca fas' c' H Hnd') as [I1 I2]. destruct (bind_inv _ _ _ _ B) as (Hn & Ev & Eb). split.
        * intros D Hwf Hfr Hy.
          assert (Hwa : cx_wf2 ca (t_name t :: D)).
          { eapply bind_wf2; eauto; [apply Hfr; left; reflexivity|]. intros y Ey. apply (Hy t y); auto. left; reflexivity. }
          eapply cx_wf2_mono; [apply (I1 (t_name t :: D) Hwa)|].
          -- intros x Hx [<-|Hd]; [contradiction|]. eapply Hfr; eauto. right; assumption.
          -- intros t0 y Ht0 E0 Ey. destruct (Hy t0 y (or_intror Ht0) E0 Ey) as [A Bn]. split; [right; assumption|].
             rewrite Ev. cbn. destruct (N.eqb_spec y (t_name t)) as [->|]; [|assumption].
             exfalso. apply (Hfr (t_name t)); [left; reflexivity | assumption].
          -- inc.
        * intros S0 T HT Hfr Hy. destruct (Hfr (t_name t) (or_introl eq_refl)) as (F1 & F2 & F3 & F4).
          assert (HTa : tscope ca (t_name t :: S0) T).
          { eapply tscope_bind; eauto. intros y Ey. apply (Hy t y); auto. left; reflexivity. }
          eapply tscope_sub0; [apply (I2 (t_name t :: S0) T HTa)|].
          -- intros x Hx. destruct (Hfr x (or_intror Hx)) as (G1 & G2 & G3 & G4).
             assert (x <> t_name t) by (intros ->; contradiction).
             split; [intros [E|Hi]; [congruence | contradiction]|]. split; [assumption|]. rewrite Ev, Eb. cbn.
             destruct (N.eqb_spec x (t_name t)); [contradiction | auto].
          -- intros t0 y Ht0 E0 Ey. apply (Hy t0 y); auto. right; assumption.
          -- inc.
      + destruct (merge_fas r (map fa r) (map fb r) c) as [[k ck]|] eqn:M; [|discriminate]. injection H as <- <-.
        destruct (IH c k ck M Hnd') as [I1 I2].
        destruct (merge_fas_spec fa fb r c k ck M) as (Eb & X & _). split.
        * intros D Hwf Hfr Hy. eapply cx_wf2_mono; [apply (I1 D Hwf)|].
          -- intros x Hx. apply Hfr. right; assumption.
          -- intros t0 y Ht0 E0 Ey. apply (Hy t0 y); auto. right; assumption.
          -- inc.
        * intros S0 T HT Hfr Hy. destruct (Hfr (t_name t) (or_introl eq_refl)) as (F1 & F2 & F3 & F4).
          assert (HTk : tscope ck (map t_name r ++ S0) (map t_name k ++ T)).
          { apply (I2 S0 T HT); [intros x Hx; apply Hfr; right; assumption|].
            intros t0 y Ht0 E0 Ey. apply (Hy t0 y); auto. right; assumption. }
          destruct (X (t_name t) Hni) as [Xv Xb].
          pose proof (tscope_keep (t_name t) ck _ _ HTk ltac:(rewrite Xv; exact F3) ltac:(rewrite Xb; exact F4)) as HT'.
          cbn [map]. eapply tscope_sub0; [|].
          -- change (t_name (t_name t, fa t, fb t)) with (t_name t). exact HT'.
          -- inc.
  Qed.

  Lemma R2_merge (gq gq' hq fa fb : triple -> expr) fas fas' c c' cb S J Sb Jb Sx eo et eob etb D :
    Rel2 w c S J eo et -> Rel2 w cb Sb Jb eob etb ->
    (forall x, In x S -> lookup x eob = lookup x eo) -> (forall x, In x (S ++ J) -> lookup x etb = lookup x et) ->
    merge_fas fas (map fa fas) (map fb fas) c = Some (fas', c') ->
    NoDup (map t_name fas) -> (forall x, In x (map t_name fas) -> ~ In x D) -> incl' S D -> incl' J D -> cx_wf c D ->
    incl' Sx Sb -> (forall t, In t fas -> in_scope Sx (gq t) = true) ->
    (forall t, In t fas -> opt_expr (cx_v cb) (gq t) = hq t) ->
    (forall t, In t fas -> expr_eq (fa t) (fb t) = true -> eval w etb (fa t) = eval w etb (hq t)) ->
    (forall t, In t fas -> gq' (t_name t, fa t, fb t) = hq t) ->
    (forall t y, In t fas -> expr_eq (fa t) (fb t) = true -> fa t = EVar y -> In y (S ++ J)) ->
    Rel2 w c' (map t_name fas ++ S) J
        (combine (map t_name fas) (map (fun t => eval w eob (gq t)) fas) ++ eob)
        (combine (map t_name fas') (map (fun t => eval w etb (gq' t)) fas') ++ etb).
  Proof.
    intros HR HRb Fo Ft Hm Hnd Hfr HSD HJD Hwf HSx Hsc Hh Hmg Hg' HyS.
    destruct (merge_fas_spec fa fb fas c fas' c' Hm) as (Eb & X & I3 & I4 & I5 & I6 & _).
    specialize (I5 Hnd). specialize (I6 Hnd).
    assert (Hsub : forall x, In x (map t_name fas') -> In x (map t_name fas)).
    { intros x Hx. apply in_map_iff in Hx. destruct Hx as [t' [<- Ht']].
      destruct (I3 t' Ht') as (t0 & Ht0 & -> & _). cbn. now apply in_map. }
    assert (HdS : disj (S ++ J) (map t_name fas)).
    { intros x Hx Hf. apply (Hfr x Hf). rewrite in_app_iff in Hx. destruct Hx; auto. }
    assert (HnS : forall y, In y (S ++ J) -> ~ In y (map t_name fas')) by (intros y Hy Hf; eapply HdS; eauto).
    pose proof (R2_ext w c c' S J _ eob etb (R2_frame w c S J eo et eob etb HR Fo Ft) X HdS) as HR2.
    assert (Hvar : forall t, In t fas -> forall y, gq t = EVar y -> In y Sb).
    { intros t Ht y Ey. apply HSx. apply in_scope_var. rewrite <- Ey. auto. }
    destruct HR2 as (RV2 & RI2 & RB2).
    assert (Hopt : forall t, In t fas ->
              opt_expr (cx_v c') (EVar (t_name t)) = if expr_eq (fa t) (fb t) then fa t else EVar (t_name t)).
    { intros t Ht. cbn. specialize (I5 t Ht). destruct (expr_eq (fa t) (fb t)); rewrite I5; [reflexivity|].
      rewrite (cx_wf_notin_v c D (t_name t) Hwf); [reflexivity|]. apply Hfr. now apply in_map. }
    assert (Hup : forall x, In x (S ++ J) -> In x ((map t_name fas ++ S) ++ J)) by inc.
    split; [|split].
    - intros x Hx. destruct (in_dec N.eq_dec x (map t_name fas)) as [Hf|Hn].
      + apply in_map_iff in Hf. destruct Hf as [t [<- Ht]]. rewrite (Hopt t Ht).
        unfold eval at 1. rewrite (lookup_bind w gq), (find_name_unique fas t Hnd Ht), eval_wrap.
        rewrite (R2_expr w cb Sb Jb eob etb (gq t) HRb (Hvar t Ht)), (Hh t Ht).
        destruct (expr_eq (fa t) (fb t)) eqn:Eq.
        * rewrite (eval_bind_notin w gq'); [symmetry; auto|]. intros y Ey. apply HnS. eauto.
        * unfold eval at 2. rewrite (lookup_bind w gq').
          pose proof (find_name_unique fas' (t_name t, fa t, fb t) I6 (I4 t Ht Eq)) as Hfind.
          change (t_name (t_name t, fa t, fb t)) with (t_name t) in Hfind.
          rewrite Hfind, eval_wrap. now rewrite (Hg' t Ht).
      + rewrite in_app_iff in Hx. destruct Hx as [Hx|Hx]; [contradiction|].
        rewrite (eval_bind_notin w gq) by (intros y [= <-]; exact Hn). rewrite (RV2 x Hx).
        symmetry. apply (eval_bind_notin w gq'). intros y Ey. apply HnS. eauto.
    - intros x y Hx. destruct (in_dec N.eq_dec x (map t_name fas)) as [Hf|Hn].
      + apply in_map_iff in Hf. destruct Hf as [t [<- Ht]]. rewrite (Hopt t Ht).
        destruct (expr_eq (fa t) (fb t)) eqn:Eq.
        * intros E. apply Hup. eauto.
        * intros [= <-]. rewrite !in_app_iff. left. left. now apply in_map.
      + rewrite in_app_iff in Hx. destruct Hx as [Hx|Hx]; [contradiction|]. intros E. apply Hup. eauto.
    - intros z op y k Hz. rewrite Eb. intros E.
      destruct (in_dec N.eq_dec z (map t_name fas)) as [Hf|Hn].
      + exfalso. rewrite (cx_wf_notin_b c D z Hwf (Hfr z Hf)) in E. discriminate.
      + assert (Hz' : In z (S ++ J)) by (rewrite !in_app_iff in *; tauto).
        rewrite <- Eb in E. destruct (RB2 z op y k Hz' E) as (Hy & Ho & v & Hv & Hzv).
        split; [apply Hup; assumption|].
        rewrite !(eval_bind_notin w gq') by (intros u [= <-]; auto). eauto.
  Qed.
  Lemma P_SIf_generic n cnd s1 s2 fas c o1 c1 b1 f1 o2 c2 b2 f2 fas' c' S0 :
    Qn n ->
    ccp_stmts g n s1 c = Some (o1, c1, b1, f1) -> ccp_stmts g n s2 c = Some (o2, c2, b2, f2) ->
    merge_fas fas (map (fun t => opt_expr (cx_v c1) (t_e1 t)) fas) (map (fun t => opt_expr (cx_v c2) (t_e2 t)) fas) c
      = Some (fas', c') ->
    fst f1 = false -> fst f2 = false ->
    (ends_break o1 || ends_break o2) && negb (is_nil fas) = false ->
    scoped S0 (SIf cnd s1 s2 fas) = true ->
    good (binders (SIf cnd s1 s2 fas)) (map t_name fas) (exec_o (SIf cnd s1 s2 fas)) S0 c
         (if is_nil o1 && is_nil o2 && is_nil fas' then [] else [SIf (opt_expr (cx_v c) cnd) o1 o2 fas']) c' false.
  Proof.
    intros HQ E1 E2 Hm Hf1 Hf2 Hfl Hsc. destruct (SIf_scoped_parts _ _ _ _ _ Hsc) as (Hc & Hs1 & Hs2 & Hfa).
    set (fa := fun t => opt_expr (cx_v c1) (t_e1 t)) in *. set (fb := fun t => opt_expr (cx_v c2) (t_e2 t)) in *.
    set (cnd' := opt_expr (cx_v c) cnd).
    intros D Hwf HS0 Hnd Hdj. rewrite binders_SIf in *.
    assert (Hnd1 : NoDup (binders_l s1)) by (eapply NoDup_app_l'; eauto).
    assert (Hnd2 : NoDup (binders_l s2)) by (eapply NoDup_app_l', NoDup_app_r'; eauto).
    assert (HndF : NoDup (map t_name fas)) by (eapply NoDup_app_r', NoDup_app_r'; eauto).
    assert (D12 : forall x, In x (binders_l s1) -> In x (binders_l s2) -> False).
    { intros x H1 H2. eapply (NoDup_app_disj' _ _ x Hnd); eauto. rewrite in_app_iff. auto. }
    assert (D1F : forall x, In x (binders_l s1) -> In x (map t_name fas) -> False).
    { intros x H1 H2. eapply (NoDup_app_disj' _ _ x Hnd); eauto. rewrite in_app_iff. auto. }
    assert (D2F : forall x, In x (binders_l s2) -> In x (map t_name fas) -> False).
    { intros x H1 H2. apply NoDup_app_r' in Hnd. eapply (NoDup_app_disj' _ _ x Hnd); eauto. }
    assert (Dj1 : disj (binders_l s1) D) by (intros x Hx; apply Hdj; rewrite !in_app_iff; auto).
    assert (Dj2 : disj (binders_l s2) D) by (intros x Hx; apply Hdj; rewrite !in_app_iff; auto).
    assert (DjF : forall x, In x (map t_name fas) -> ~ In x D) by (intros x Hx Hd; eapply Hdj; eauto; rewrite !in_app_iff; auto).
    destruct (HQ s1 c o1 c1 b1 f1 S0 E1 Hf1 Hs1 D Hwf HS0 Hnd1 Dj1) as [(W1 & X1 & Bo1 & N1 & T1) Hd1].
    destruct (HQ s2 c o2 c2 b2 f2 S0 E2 Hf2 Hs2 D Hwf HS0 Hnd2 Dj2) as [(W2 & X2 & Bo2 & N2 & T2) Hd2].
    destruct (merge_fas_spec fa fb fas c fas' c' Hm) as (Eb & X & I3 & I4 & I5 & I6 & _).
    destruct (merge_fas_static2 fa fb fas c fas' c' Hm HndF) as [MW MT].
    assert (HSx1 : incl' (defs_l s1 ++ S0) (binders_l s1 ++ D)).
    { intros x. rewrite !in_app_iff. intros [Hx|Hx]; [left; now apply defs_l_in_binders | right; auto]. }
    assert (HSx2 : incl' (defs_l s2 ++ S0) (binders_l s2 ++ D)).
    { intros x. rewrite !in_app_iff. intros [Hx|Hx]; [left; now apply defs_l_in_binders | right; auto]. }
    assert (R1 : forall t y, In t fas -> fa t = EVar y -> In y (binders_l s1 ++ D) /\ assoc y (cx_v c1) = None).
    { intros t y Ht E. split; [|eapply opt_expr_idem; eauto].
      eapply (opt_expr_range c1 _ (defs_l s1 ++ S0) (t_e1 t)); eauto; [apply W1 | exact (Hfa true t Ht)]. }
    assert (R2 : forall t y, In t fas -> fb t = EVar y -> In y (binders_l s2 ++ D)).
    { intros t y Ht E. eapply (opt_expr_range c2 _ (defs_l s2 ++ S0) (t_e2 t)); eauto; [apply W2 | exact (Hfa false t Ht)]. }
    assert (Hsub' : forall x, In x (map t_name fas') -> In x (map t_name fas)).
    { intros x Hx. apply in_map_iff in Hx. destruct Hx as [t' [<- Ht']].
      destruct (I3 t' Ht') as (t0 & Ht0 & -> & _). cbn. now apply in_map. }
    assert (HmD : forall t y, In t fas -> expr_eq (fa t) (fb t) = true -> fa t = EVar y -> In y D /\ assoc y (cx_v c) = None).
    { intros t y Ht Eq Ey. assert (Ev : fb t = EVar y) by (apply expr_eq_var; rewrite <- Ey; exact Eq).
      destruct (R1 t y Ht Ey) as [A An]. pose proof (R2 t y Ht Ev) as B. rewrite in_app_iff in A, B.
      assert (HyD : In y D). { destruct A as [A|A]; auto. destruct B as [B|B]; [exfalso; eauto | auto]. }
      split; [assumption|]. destruct (X1 y) as [Ev1 _]; [intros Hb; eapply Dj1; eauto|]. now rewrite <- Ev1. }
    (* when there are final assignments neither optimised branch ends in a break *)
    assert (Hbb : fas <> [] -> b1 = false /\ b2 = false).
    { intros Hne. destruct fas as [|t0 r0]; [congruence|]. cbn in Hfl. rewrite andb_true_r in Hfl.
      apply orb_false_elim in Hfl. destruct Hfl as [F1 F2]. split.
      - destruct b1; [|reflexivity]. rewrite (ccps_brk_ends n s1 c o1 c1 f1 E1) in F1. discriminate.
      - destruct b2; [|reflexivity]. rewrite (ccps_brk_ends n s2 c o2 c2 f2 E2) in F2. discriminate. }
    assert (Ebind : binders_l (if is_nil o1 && is_nil o2 && is_nil fas' then [] else [SIf cnd' o1 o2 fas']) =
                    binders_l o1 ++ binders_l o2 ++ map t_name fas').
    { destruct (is_nil o1 && is_nil o2 && is_nil fas') eqn:En.
      - apply andb_prop in En. destruct En as [En E3]. apply andb_prop in En. destruct En as [En1 En2].
        destruct o1, o2, fas'; try discriminate. reflexivity.
      - cbn [binders_l]. rewrite binders_SIf, app_nil_r. reflexivity. }
    assert (Edefs : defs_l (if is_nil o1 && is_nil o2 && is_nil fas' then [] else [SIf cnd' o1 o2 fas']) = map t_name fas').
    { destruct (is_nil o1 && is_nil o2 && is_nil fas') eqn:En; [|reflexivity].
      apply andb_prop in En. destruct En as [_ E3]. destruct fas'; [reflexivity | discriminate]. }
    split.
    - split; [|split; [|split; [|split]]].
      + eapply cx_wf2_mono; [apply (MW D Hwf DjF HmD)|]. inc.
      + eapply ext_mono; eauto. inc.
      + rewrite Ebind. intros x. rewrite !in_app_iff. intros [Hx|[Hx|Hx]]; auto.
      + rewrite Ebind. apply NoDup_app_intro; [assumption | apply NoDup_app_intro; auto |].
        * intros x Hx Hf. eapply D2F; eauto.
        * intros x Hx. rewrite in_app_iff. intros [Hy|Hy]; [eapply D12; eauto | eapply D1F; eauto].
      + intros T HT HTD. destruct (T1 T HT HTD) as [A1 A2]. destruct (T2 T HT HTD) as [B1' B2'].
        assert (HfaT : forall t, In t fas -> in_scope (defs_l o1 ++ T) (fa t) = true /\ in_scope (defs_l o2 ++ T) (fb t) = true).
        { intros t Ht. destruct (Hbb ltac:(intros ->; destruct Ht)) as [-> ->].
          split; [eapply tscope_expr; [apply A2; reflexivity | exact (Hfa true t Ht)]
                 | eapply tscope_expr; [apply B2'; reflexivity | exact (Hfa false t Ht)]]. }
        split.
        * destruct (is_nil o1 && is_nil o2 && is_nil fas'); [reflexivity|]. cbn [scoped_l]. rewrite scoped_SIf, A1, B1'.
          unfold cnd'. rewrite (tscope_expr c S0 T cnd HT Hc). cbn [andb]. rewrite andb_true_r.
          apply forallb_forall. intros t' Ht'. destruct (I3 t' Ht') as (t0 & Ht0 & -> & _).
          change (t_e1 (t_name t0, fa t0, fb t0)) with (fa t0). change (t_e2 (t_name t0, fa t0, fb t0)) with (fb t0).
          destruct (HfaT t0 Ht0) as [-> ->]. reflexivity.
        * intros _. rewrite Edefs.
          apply (MT S0 T HT).
          -- intros x Hx. assert (HxD : ~ In x D) by auto.
             split; [intros Hs; apply HxD; auto|]. split; [intros Hs; apply HxD; auto|].
             split; [apply (cx_wf_notin_v c D x (cx_wf2_wf c D Hwf) HxD) | apply (cx_wf_notin_b c D x (cx_wf2_wf c D Hwf) HxD)].
          -- intros t y Ht Eq Ey. assert (Ev : fb t = EVar y) by (apply expr_eq_var; rewrite <- Ey; exact Eq).
             destruct (HfaT t Ht) as [Ha Hb]. rewrite Ey in Ha. rewrite Ev in Hb. apply in_scope_var in Ha, Hb.
             rewrite in_app_iff in Ha, Hb. destruct Ha as [Ha|Ha]; auto. destruct Hb as [Hb|Hb]; auto.
             exfalso. apply (D12 y); [apply Bo1 | apply Bo2]; now apply defs_l_in_binders.
    - intros S J eo et tr Hi1 Hi2 HiJ HR. rewrite exec_SIf.
      pose proof (R2_expr w c S J eo et cnd HR (in_scope_In _ _ _ Hc Hi1)) as Ec. fold cnd' in Ec. rewrite Ec.
      destruct (cond (eval w et cnd')) as [b|] eqn:Eb'; [|exact I].
      assert (HSnb1 : forall x, In x (S ++ J) -> ~ In x (binders_l s1)).
      { intros x Hx Hb. eapply Dj1; eauto. rewrite in_app_iff in Hx. destruct Hx; auto. }
      assert (HSnb2 : forall x, In x (S ++ J) -> ~ In x (binders_l s2)).
      { intros x Hx Hb. eapply Dj2; eauto. rewrite in_app_iff in Hx. destruct Hx; auto. }
      destruct b.
      + specialize (Hd1 S J eo et tr Hi1 Hi2 HiJ HR).
        pose proof (frame_block Add w fuel s1 eo tr) as Fo.
        destruct (exec_block_o s1 eo tr) as [eo1 tr1|v eo1 tr1| | | | |]; cbn [dyn] in *; auto.
        * destruct Hd1 as (_ & et1 & S1 & J1 & Ex1 & HR1 & Lo1 & Up1 & LJ1 & UJ1). split; auto.
          pose proof (frame_block Add w fuel o1 et tr) as Ft. rewrite Ex1 in Ft. cbn in Fo, Ft.
          exists (bind_e1 w fas' et1), (map t_name fas ++ S), J.
          split; [rewrite (target_if w fuel cnd' o1 o2 fas' et tr true Eb'), Ex1; reflexivity|].
          split; [|repeat split; inc].
          unfold bind_e1.
          assert (HFo : forall x, In x S -> lookup x eo1 = lookup x eo).
          { intros x Hx. apply Fo. apply HSnb1. apply in_or_app; auto. }
          assert (HFt : forall x, In x (S ++ J) -> lookup x et1 = lookup x et).
          { intros x Hx. apply Ft. intros Hb. apply (HSnb1 x Hx). auto. }
          assert (HSx : incl' (defs_l s1 ++ S0) S1) by inc2.
          assert (HyS : forall t y, In t fas -> expr_eq (fa t) (fb t) = true -> fa t = EVar y -> In y (S ++ J)).
          { intros t y Ht Eq Ey.
            assert (Hy1 : In y (S1 ++ J1)).
            { eapply (R2_expr_scope w c1 S1 J1 eo1 et1 (t_e1 t)); eauto. intros z Ez. apply HSx.
              pose proof (Hfa true t Ht) as Hs. cbn in Hs. rewrite Ez in Hs. now apply in_scope_var in Hs. }
            destruct (HmD t y Ht Eq Ey) as [HyD _].
            assert (HyB : ~ In y (binders_l s1)) by (intros Hb; eapply Dj1; eauto).
            rewrite in_app_iff in Hy1. destruct Hy1 as [Hy1|Hy1].
            - apply Up1 in Hy1. rewrite in_app_iff in *. tauto.
            - apply UJ1 in Hy1. rewrite !in_app_iff in *. tauto. }
          exact (R2_merge t_e1 t_e1 fa fa fb fas fas' c c' c1 S J S1 J1 (defs_l s1 ++ S0) eo et eo1 et1 D HR HR1 HFo HFt Hm HndF
                   DjF Hi2 HiJ (cx_wf2_wf c D Hwf) HSx (fun t Ht => Hfa true t Ht) (fun t _ => eq_refl) (fun t _ _ => eq_refl)
                   (fun t _ => eq_refl) HyS).
        * destruct Hd1 as [et1 Ex1]. exists et1. rewrite (target_if w fuel cnd' o1 o2 fas' et tr true Eb'), Ex1. reflexivity.
      + specialize (Hd2 S J eo et tr Hi1 Hi2 HiJ HR).
        pose proof (frame_block Add w fuel s2 eo tr) as Fo.
        destruct (exec_block_o s2 eo tr) as [eo1 tr1|v eo1 tr1| | | | |]; cbn [dyn] in *; auto.
        * destruct Hd2 as (_ & et1 & S1 & J1 & Ex1 & HR1 & Lo1 & Up1 & LJ1 & UJ1). split; auto.
          pose proof (frame_block Add w fuel o2 et tr) as Ft. rewrite Ex1 in Ft. cbn in Fo, Ft.
          exists (bind_e2 w fas' et1), (map t_name fas ++ S), J.
          split; [rewrite (target_if w fuel cnd' o1 o2 fas' et tr false Eb'), Ex1; reflexivity|].
          split; [|repeat split; inc].
          unfold bind_e2.
          assert (HFo : forall x, In x S -> lookup x eo1 = lookup x eo).
          { intros x Hx. apply Fo. apply HSnb2. apply in_or_app; auto. }
          assert (HFt : forall x, In x (S ++ J) -> lookup x et1 = lookup x et).
          { intros x Hx. apply Ft. intros Hb. apply (HSnb2 x Hx). auto. }
          assert (HSx : incl' (defs_l s2 ++ S0) S1) by inc2.
          assert (HyS : forall t y, In t fas -> expr_eq (fa t) (fb t) = true -> fa t = EVar y -> In y (S ++ J)).
          { intros t y Ht Eq Ey.
            assert (Ev : fb t = EVar y) by (apply expr_eq_var; rewrite <- Ey; exact Eq).
            assert (Hy1 : In y (S1 ++ J1)).
            { eapply (R2_expr_scope w c2 S1 J1 eo1 et1 (t_e2 t)); eauto. intros z Ez. apply HSx.
              pose proof (Hfa false t Ht) as Hs. cbn in Hs. rewrite Ez in Hs. now apply in_scope_var in Hs. }
            destruct (HmD t y Ht Eq Ey) as [HyD _].
            assert (HyB : ~ In y (binders_l s2)) by (intros Hb; eapply Dj2; eauto).
            rewrite in_app_iff in Hy1. destruct Hy1 as [Hy1|Hy1].
            - apply Up1 in Hy1. rewrite in_app_iff in *. tauto.
            - apply UJ1 in Hy1. rewrite !in_app_iff in *. tauto. }
          exact (R2_merge t_e2 t_e2 fb fa fb fas fas' c c' c2 S J S1 J1 (defs_l s2 ++ S0) eo et eo1 et1 D HR HR1 HFo HFt Hm HndF
                   DjF Hi2 HiJ (cx_wf2_wf c D Hwf) HSx (fun t Ht => Hfa false t Ht) (fun t _ => eq_refl)
                   (fun t _ Eq => expr_eq_sound _ _ Eq w et1) (fun t _ => eq_refl) HyS).
        * destruct Hd2 as [et1 Ex1]. exists et1. rewrite (target_if w fuel cnd' o1 o2 fas' et tr false Eb'), Ex1. reflexivity.
  Qed.
  (* ---------------------------------------------------------------- While: loop variables that never change *)
  Lemma elim_spec2 lvs : forall c K c1 f0,
    elim_lvs g lvs c = Some (K, c1, f0) -> NoDup (map t_name lvs) ->
    (forall t y, In t lvs -> t_e1 t = EVar y -> ~ In y (map t_name lvs)) ->
    K = filter (fun t => negb (is_elim t)) lvs /\
    cx_b c1 = cx_b c /\
    ext_outside (map t_name lvs) c c1 /\
    (forall t, In t lvs ->
       if is_elim t then assoc (t_name t) (cx_v c1) = Some (opt_expr (cx_v c) (t_e1 t))
       else assoc (t_name t) (cx_v c1) = assoc (t_name t) (cx_v c)) /\
    (forall D Sx, cx_wf2 c D -> incl' Sx D -> (forall t, In t lvs -> in_scope Sx (t_e1 t) = true) ->
                  (forall x, In x (map t_name lvs) -> ~ In x D) -> cx_wf2 c1 (map t_name lvs ++ D)) /\
    (forall S0 T, tscope c S0 T -> (forall t, In t lvs -> in_scope S0 (t_e1 t) = true) ->
       (forall x, In x (map t_name lvs) -> ~ In x S0 /\ ~ In x T /\ assoc x (cx_v c) = None /\ assoc x (cx_b c) = None) ->
       tscope c1 (map t_name lvs ++ S0) (map t_name K ++ T)) /\
    fst f0 = false.
  Proof.
    unfold is_elim. induction lvs as [|t r IH]; intros c K c1 f0 H Hnd Hfr; cbn in H.
    - injection H as <- <- <-. split; [reflexivity|]. split; [reflexivity|]. split; [apply ext_refl|]. split; [intros t []|].
      split; [intros D Sx Hwf _ _ _; exact Hwf|]. split; [intros S0 T HT _ _; exact HT | reflexivity].
    - inversion Hnd as [|? ? Hni Hnd']; subst.
      assert (Hfr' : forall t' y, In t' r -> t_e1 t' = EVar y -> ~ In y (map t_name r)).
      { intros t' y Ht' Ey Hy. eapply (Hfr t' y); eauto; right; assumption. }
      cbn [filter]. destruct (expr_eq (t_e1 t) (t_e2 t)) eqn:Eq; cbn [negb].
      + rewrite Hg2 in H. destruct (bind (t_name t) _ c) as [ca|] eqn:B; [|discriminate].
        destruct (elim_lvs g r ca) as [[[k0 c0] f1]|] eqn:E; [|discriminate]. injection H as <- <- <-.
        destruct (IH ca k0 c0 f1 E Hnd' Hfr') as (I1 & I2 & I3 & I4 & I5 & I6 & I7).
        destruct (bind_inv _ _ _ _ B) as (Hn & Evc & Ebc).
        assert (Hoptr : forall t', In t' r -> opt_expr (cx_v ca) (t_e1 t') = opt_expr (cx_v c) (t_e1 t')).
        { intros t' Ht'. rewrite Evc. destruct (t_e1 t') eqn:Ep; try reflexivity. cbn.
          destruct (N.eqb_spec x (t_name t)) as [->|]; [|reflexivity].
          exfalso. eapply (Hfr t' (t_name t)); eauto; [right; assumption | left; reflexivity]. }
        split; [assumption|]. split; [congruence|]. split; [|split; [|split; [|split]]].
        * eapply ext_trans; [eapply bind_ext; eauto | exact I3 | |]; inc.
        * intros t' [<-|Ht'].
          -- rewrite Eq. destruct (I3 (t_name t) Hni) as [-> _]. rewrite Evc. cbn. now rewrite N.eqb_refl.
          -- specialize (I4 t' Ht'). destruct (expr_eq (t_e1 t') (t_e2 t')).
             ++ rewrite I4. f_equal. now apply Hoptr.
             ++ rewrite I4, Evc. cbn. destruct (N.eqb_spec (t_name t') (t_name t)) as [E'|]; [|reflexivity].
                exfalso. apply Hni. rewrite <- E'. now apply in_map.
        * intros D Sx Hwf Hi Hsc HfD.
          assert (Hwa : cx_wf2 ca (t_name t :: D)).
          { eapply bind_wf2; eauto; [apply HfD; left; reflexivity|]. intros y Ey. split.
            - eapply (opt_expr_range c D Sx (t_e1 t)); eauto; [apply Hwf | apply Hsc; left; reflexivity].
            - eapply opt_expr_idem; eauto. }
          eapply cx_wf2_mono; [apply (I5 (t_name t :: D) Sx Hwa)|].
          -- intros x Hx. right. auto.
          -- intros t' Ht'. apply Hsc. right; assumption.
          -- intros x Hx [<-|Hd]; [contradiction|]. eapply HfD; eauto. right; assumption.
          -- inc.
        * intros S0 T HT Hsc HfT. destruct (HfT (t_name t) (or_introl eq_refl)) as (F1 & F2 & F3 & F4).
          assert (HTa : tscope ca (t_name t :: S0) T).
          { eapply tscope_bind; eauto. intros y Ey. eapply (tscope_var c S0 T (t_e1 t)); eauto. apply Hsc. left; reflexivity. }
          eapply tscope_sub0; [apply (I6 (t_name t :: S0) T HTa)|].
          -- intros t' Ht'. specialize (Hsc t' (or_intror Ht')). destruct (t_e1 t'); try reflexivity.
             apply in_scope_var in Hsc. apply in_scope_var. right. exact Hsc.
          -- intros x Hx. destruct (HfT x (or_intror Hx)) as (G1 & G2 & G3 & G4).
             assert (x <> t_name t) by (intros ->; contradiction).
             split; [intros [E'|Hi]; [congruence | contradiction]|]. split; [assumption|]. rewrite Evc, Ebc. cbn.
             destruct (N.eqb_spec x (t_name t)); [contradiction | auto].
          -- inc.
        * cbn. exact I7.
      + destruct (elim_lvs g r c) as [[[k0 c0] f1]|] eqn:E; [|discriminate]. injection H as <- <- <-.
        destruct (IH c k0 c0 f1 E Hnd' Hfr') as (I1 & I2 & I3 & I4 & I5 & I6 & I7).
        split; [now f_equal|]. split; [assumption|]. split; [|split; [|split; [|split]]].
        * eapply ext_mono; eauto. inc.
        * intros t' [<-|Ht'].
          -- rewrite Eq. now destruct (I3 (t_name t) Hni) as [-> _].
          -- exact (I4 t' Ht').
        * intros D Sx Hwf Hi Hsc HfD. eapply cx_wf2_mono; [apply (I5 D Sx Hwf Hi)|].
          -- intros t' Ht'. apply Hsc. right; assumption.
          -- intros x Hx. apply HfD. right; assumption.
          -- inc.
        * intros S0 T HT Hsc HfT. destruct (HfT (t_name t) (or_introl eq_refl)) as (F1 & F2 & F3 & F4).
          assert (HTk : tscope c0 (map t_name r ++ S0) (map t_name k0 ++ T)).
          { apply (I6 S0 T HT); [intros t' Ht'; apply Hsc; right; assumption | intros x Hx; apply HfT; right; assumption]. }
          destruct (I3 (t_name t) Hni) as [Xv Xb].
          pose proof (tscope_keep (t_name t) c0 _ _ HTk ltac:(rewrite Xv; exact F3) ltac:(rewrite Xb; exact F4)) as HT'.
          cbn [map]. eapply tscope_sub0; [exact HT'|]. inc.
        * exact I7.
  Qed.
  (* binding the loop variables to their (optimised) initial values *)
  Lemma bind_inits_spec ts : forall c c2,
    bind_inits ts c = Some c2 -> NoDup (map t_name ts) ->
    (forall t y, In t ts -> t_e1 t = EVar y -> ~ In y (map t_name ts)) ->
    cx_b c2 = cx_b c /\
    ext_outside (map t_name ts) c c2 /\
    (forall t, In t ts -> assoc (t_name t) (cx_v c2) = Some (t_e1 t)) /\
    (forall D, cx_wf2 c D -> (forall x, In x (map t_name ts) -> ~ In x D) ->
               (forall t y, In t ts -> t_e1 t = EVar y -> In y D /\ assoc y (cx_v c) = None) ->
               cx_wf2 c2 (map t_name ts ++ D)) /\
    (forall S0 T, tscope c S0 T -> (forall x, In x (map t_name ts) -> ~ In x S0 /\ ~ In x T) ->
                  (forall t y, In t ts -> t_e1 t = EVar y -> In y T) ->
                  tscope c2 (map t_name ts ++ S0) T).
  Proof.
    induction ts as [|t r IH]; intros c c2 H Hnd Hfr; cbn in H.
    - injection H as <-. split; [reflexivity|]. split; [apply ext_refl|]. split; [intros t []|].
      split; [intros D Hwf _ _; exact Hwf | intros S0 T HT _ _; exact HT].
    - destruct (bind (t_name t) (t_e1 t) c) as [ca|] eqn:B; [|discriminate].
      inversion Hnd as [|? ? Hni Hnd']; subst. destruct (bind_inv _ _ _ _ B) as (Hn & Ev & Eb).
      assert (Hfr' : forall t' y, In t' r -> t_e1 t' = EVar y -> ~ In y (map t_name r)).
      { intros t' y Ht' Ey Hy. eapply (Hfr t' y); eauto; right; assumption. }
      destruct (IH ca c2 H Hnd' Hfr') as (I1 & I2 & I3 & I4 & I5).
      split; [congruence|]. split; [|split; [|split]].
      + eapply ext_trans; [eapply bind_ext; eauto | exact I2 | |]; inc.
      + intros t' [<-|Ht']; [|auto]. destruct (I2 (t_name t) Hni) as [-> _]. rewrite Ev. cbn. now rewrite N.eqb_refl.
      + intros D Hwf HfD Hy.
        assert (Hwa : cx_wf2 ca (t_name t :: D)).
        { eapply bind_wf2; eauto; [apply HfD; left; reflexivity|]. intros y Ey. apply (Hy t y); auto. left; reflexivity. }
        eapply cx_wf2_mono; [apply (I4 (t_name t :: D) Hwa)|].
        * intros x Hx [<-|Hd]; [contradiction|]. eapply HfD; eauto. right; assumption.
        * intros t' y Ht' Ey. destruct (Hy t' y (or_intror Ht') Ey) as [A Bn]. split; [right; assumption|].
          rewrite Ev. cbn. destruct (N.eqb_spec y (t_name t)) as [->|]; [|assumption].
          exfalso. apply (HfD (t_name t)); [left; reflexivity | assumption].
        * inc.
      + intros S0 T HT HfT Hy. destruct (HfT (t_name t) (or_introl eq_refl)) as [F1 F2].
        assert (HTa : tscope ca (t_name t :: S0) T).
        { eapply tscope_bind; eauto. intros y Ey. apply (Hy t y); auto. left; reflexivity. }
        eapply tscope_sub0; [apply (I5 (t_name t :: S0) T HTa)|].
        * intros x Hx. destruct (HfT x (or_intror Hx)) as [G1 G2]. split; [|assumption].
          intros [E'|Hi]; [subst; contradiction | contradiction].
        * intros t' y Ht' Ey. apply (Hy t' y); auto. right; assumption.
        * inc.
  Qed.
  (* ---------------------------------------------------------------- statements without a break of this loop *)
  Lemma ccp_nobreak n : forall st c out c' b f,
    no_break st = true -> ccp_stmt g n st c = Some (out, c', b, f) -> b = false.
  Proof.
    induction n as [|n IH]; intros st c out c' b f Hnb H; [discriminate|].
    assert (HG : forall ss c out c' b f, no_break_l ss = true -> ccp_stmts g n ss c = Some (out, c', b, f) -> b = false).
    { induction ss as [|s r IHr]; intros c0 out0 c0' b0 f0 Hn0 H0; unfold ccp_stmts in H0; cbn [ccp_go] in H0.
      - injection H0 as _ _ <- _. reflexivity.
      - cbn in Hn0. apply andb_prop in Hn0. destruct Hn0 as [Hn1 Hn2].
        destruct (ccp_stmt g n s c0) as [[[[o1 c1] b1] f1]|] eqn:E1; [|discriminate].
        pose proof (IH _ _ _ _ _ _ Hn1 E1) as ->.
        destruct (ccp_go (ccp_stmt g n) r c1) as [[[[o2 c2] b2] f2]|] eqn:E2; [|discriminate].
        injection H0 as _ _ <- _. eapply IHr; eauto. }
    destruct b; [|reflexivity]. exfalso.
    destruct st; cbn [ccp_stmt] in H; fold (ccp_stmts g n) in H.
    - exact (ccp_bin_brk _ _ _ _ _ _ _ _ H).
    - destruct (lit _); [destruct (bind _ _ _)|]; try discriminate; injection H; discriminate.
    - match type of H with (match ?m with _ => _ end) = _ => destruct m as [cp|]; [destruct (bind _ _ _); [|discriminate]|] end; injection H; discriminate.
    - injection H; discriminate.
    - change (no_break (SIf c0 s1 s2 fas)) with (no_break_l s1 && no_break_l s2) in Hnb.
      apply andb_prop in Hnb. destruct Hnb as [Hn1 Hn2].
      destruct (lit (opt_expr (cx_v c) c0)) as [v|].
      + destruct (ccp_stmts g n _ c) as [[[[o1 c1] b1] f1]|] eqn:E1; [|discriminate].
        assert (b1 = false) as -> by (eapply HG; [|exact E1]; destruct (negb (v =? 0)); assumption).
        destruct (bind_fas _ _ _); [injection H; discriminate | discriminate].
      + assert (GEN' : match ccp_stmts g n s1 c with
                       | None => None
                       | Some (o1, c1, _, f1) =>
                           match ccp_stmts g n s2 c with
                           | None => None
                           | Some (o2, c2, _, f2) =>
                               match merge_fas fas (map (fun t => opt_expr (cx_v c1) (t_e1 t)) fas)
                                               (map (fun t => opt_expr (cx_v c2) (t_e2 t)) fas) c with
                               | None => None
                               | Some (fas', c'0) =>
                                   Some (if is_nil o1 && is_nil o2 && is_nil fas' then [] else [SIf (opt_expr (cx_v c) c0) o1 o2 fas'],
                                         c'0, false,
                                         orf (orf f1 f2) (if (ends_break o1 || ends_break o2) && negb (is_nil fas) then fl_unproved else fl0))
                               end
                           end
                       end = Some (out, c', true, f) -> False).
        { intros HX. destruct (ccp_stmts g n s1 c) as [[[[o1 c1] b1] f1]|]; [|discriminate].
          destruct (ccp_stmts g n s2 c) as [[[[o2 c2] b2] f2]|]; [|discriminate].
          destruct (merge_fas _ _ _ c) as [[fas' c0']|]; [injection HX; discriminate | discriminate]. }
        destruct s1 as [|a1 r1]; [|exact (GEN' H)].
        destruct s2 as [|a2 r2]; [|exact (GEN' H)].
        destruct fas as [|t [|t2 r]]; [exact (GEN' H)| |exact (GEN' H)].
        destruct (is_lit (t_e1 t) 1 && is_lit (t_e2 t) 0).
        * destruct (bind (t_name t) _ c); [injection H; discriminate | discriminate].
        * destruct (is_lit (t_e1 t) 0 && is_lit (t_e2 t) 1); [injection H; discriminate | exact (GEN' H)].
    - change (no_break (SSIf c0 inv ss)) with (no_break_l ss) in Hnb. destruct (lit _) as [v|].
      + destruct (negb _); [pose proof (HG _ _ _ _ _ _ Hnb H); discriminate | injection H; discriminate].
      + destruct (ccp_stmts g n ss c) as [[[[o1 c1] b1] f1]|]; [injection H; discriminate | discriminate].
    - discriminate.
    - pose proof (ccp_brk_ends (S n) (SWhile lvs ss bc) c out c' f) as HE. cbn [ccp_stmt] in HE. fold (ccp_stmts g n) in HE.
      (* the While case never reports a break *)
      destruct (elim_lvs g lvs c) as [[[K c1] f0]|]; [|discriminate].
      destruct (ccp_stmts g n ss c1) as [[[[body c_in] bb] f1]|]; [|discriminate].
      match type of H with match ?x with _ => _ end = _ => destruct x as [[rest e]|] end.
      + destruct (bind_inits _ c1) as [c2|]; [|discriminate].
        destruct (ccp_stmts g n rest c2) as [[[[o c3] b3] f2]|]; [|discriminate].
        destruct bc as [bn|]; [destruct (bind bn _ c3); [|discriminate]|]; injection H; discriminate.
      + destruct (try_loop g (ccp_stmts g n) 5 _ body bc c1) as [[[[o c2] b2] f2]|] eqn:Et; [|discriminate].
        injection H as <- <- -> <-. pose proof (try_loop_brk _ _ _ _ _ _ _ _ _ _ Et). discriminate.
    - injection H; discriminate.
    - injection H; discriminate.
    - injection H; discriminate.
  Qed.

  Lemma ccps_nobreak n ss c out c' b f : no_break_l ss = true -> ccp_stmts g n ss c = Some (out, c', b, f) -> b = false.
  Proof.
    revert c out c' b f. induction ss as [|s r IHr]; intros c0 out0 c0' b0 f0 Hn0 H0; unfold ccp_stmts in H0; cbn [ccp_go] in H0.
    - injection H0 as _ _ <- _. reflexivity.
    - cbn in Hn0. apply andb_prop in Hn0. destruct Hn0 as [Hn1 Hn2].
      destruct (ccp_stmt g n s c0) as [[[[o1 c1] b1] f1]|] eqn:E1; [|discriminate].
      pose proof (ccp_nobreak _ _ _ _ _ _ _ Hn1 E1) as ->.
      destruct (ccp_go (ccp_stmt g n) r c1) as [[[[o2 c2] b2] f2]|] eqn:E2; [|discriminate].
      injection H0 as _ _ <- _. eapply IHr; eauto.
  Qed.

  (* binding already optimised initial values is the same as binding them through the context *)
  Lemma bind_inits_as_fas ts : forall c,
    (forall t y, In t ts -> t_e1 t = EVar y -> assoc y (cx_v c) = None /\ ~ In y (map t_name ts)) ->
    bind_inits ts c = bind_fas true ts c.
  Proof.
    induction ts as [|t r IH]; intros c Hy; cbn; [reflexivity|].
    assert (Ho : opt_expr (cx_v c) (t_e1 t) = t_e1 t).
    { destruct (t_e1 t) eqn:E; try reflexivity. cbn. destruct (Hy t x (or_introl eq_refl) E) as [-> _]. reflexivity. }
    rewrite Ho. destruct (bind (t_name t) (t_e1 t) c) as [ca|] eqn:B; [|reflexivity].
    apply IH. intros t' y Ht' Ey. destruct (Hy t' y (or_intror Ht') Ey) as [A Bn].
    destruct (bind_inv _ _ _ _ B) as (_ & Ev & _). split; [|intros Hi; apply Bn; right; assumption].
    rewrite Ev. cbn. destruct (N.eqb_spec y (t_name t)) as [->|]; [|assumption]. exfalso. apply Bn. left; reflexivity.
  Qed.
  (* ---------------------------------------------------------------- "the loop runs once" (on optimised code) *)
  Lemma once_good n lvsX rest e bc c1 c2 out c3 b3 f2 c4 Tst :
    Qn n -> no_break_l rest = true ->
    (forall t, In t lvsX -> in_scope Tst (t_e1 t) = true) ->
    (forall t y, In t lvsX -> t_e1 t = EVar y -> assoc y (cx_v c1) = None) ->
    scoped_l (map t_name lvsX ++ Tst) (rest ++ [SBreak e]) = true ->
    bind_inits lvsX c1 = Some c2 ->
    ccp_stmts g n rest c2 = Some (out, c3, b3, f2) -> fst f2 = false ->
    match bc with Some b => bind b (opt_expr (cx_v c3) e) c3 = Some c4 | None => c4 = c3 end ->
    good (map t_name lvsX ++ binders_l rest ++ opt_names bc) (opt_names bc)
         (exec_o (SWhile lvsX (rest ++ [SBreak e]) bc)) Tst c1 out c4 false.
  Proof.
    intros HQ Hnb Hini Hopt Hsc Hbi Hccp Hf2 Hbc.
    set (LX := map t_name lvsX) in *.
    rewrite scoped_l_app in Hsc. apply andb_prop in Hsc. destruct Hsc as [Hsr Hse].
    cbn in Hse. rewrite andb_true_r in Hse.
    pose proof (ccps_nobreak n rest c2 out c3 b3 f2 Hnb Hccp) as ->.
    intros D Hwf HTD Hnd Hdj.
    assert (HndL : NoDup LX) by (eapply NoDup_app_l'; eauto).
    assert (HndR : NoDup (binders_l rest)) by (eapply NoDup_app_l', NoDup_app_r'; eauto).
    assert (DLR : forall x, In x LX -> In x (binders_l rest) -> False).
    { intros x H1 H2. eapply (NoDup_app_disj' _ _ x Hnd); eauto. rewrite in_app_iff. auto. }
    assert (DLc : forall x, In x LX -> In x (opt_names bc) -> False).
    { intros x H1 H2. eapply (NoDup_app_disj' _ _ x Hnd); eauto. rewrite in_app_iff. auto. }
    assert (DRc : forall x, In x (binders_l rest) -> In x (opt_names bc) -> False).
    { intros x H1 H2. apply NoDup_app_r' in Hnd. eapply (NoDup_app_disj' _ _ x Hnd); eauto. }
    assert (DjL : forall x, In x LX -> ~ In x D) by (intros x Hx Hd; eapply Hdj; eauto; rewrite !in_app_iff; auto).
    assert (DjR : forall x, In x (binders_l rest) -> ~ In x D) by (intros x Hx Hd; eapply Hdj; eauto; rewrite !in_app_iff; auto).
    assert (Djc : forall x, In x (opt_names bc) -> ~ In x D) by (intros x Hx Hd; eapply Hdj; eauto; rewrite !in_app_iff; auto).
    assert (HiniD : forall t y, In t lvsX -> t_e1 t = EVar y -> In y Tst).
    { intros t y Ht Ey. specialize (Hini t Ht). rewrite Ey in Hini. now apply in_scope_var in Hini. }
    assert (Hinifresh : forall t y, In t lvsX -> t_e1 t = EVar y -> ~ In y LX).
    { intros t y Ht Ey Hy. apply (DjL y Hy). apply HTD. eauto. }
    destruct (bind_inits_spec lvsX c1 c2 Hbi HndL Hinifresh) as (Eb2 & X2 & A2 & W2f & T2f).
    assert (W2 : cx_wf2 c2 (LX ++ D)).
    { apply W2f; auto. intros t y Ht Ey. split; [apply HTD; eauto | eauto]. }
    assert (HS2 : incl' (LX ++ Tst) (LX ++ D)) by inc2.
    assert (HdjR : disj (binders_l rest) (LX ++ D)).
    { intros x Hx. rewrite in_app_iff. intros [Hl|Hd]; [eapply DLR | eapply DjR]; eauto. }
    destruct (HQ rest c2 out c3 false f2 (LX ++ Tst) Hccp Hf2 Hsr (LX ++ D) W2 HS2 HndR HdjR) as [(W3 & X3 & B3 & N3 & T3) Hd3].
    assert (Escope : forall y, opt_expr (cx_v c3) e = EVar y -> In y (binders_l rest ++ LX ++ D) /\ assoc y (cx_v c3) = None).
    { intros y Ey. split; [|eapply opt_expr_idem; eauto].
      eapply (opt_expr_range c3 _ (defs_l rest ++ LX ++ Tst) e); eauto; [apply W3|].
      intros x. rewrite !in_app_iff. intros [Hx|[Hx|Hx]]; auto. left. now apply defs_l_in_binders. }
    assert (HbcD : forall b, bc = Some b -> ~ In b (binders_l rest ++ LX ++ D)).
    { intros b -> . rewrite !in_app_iff. intros [H|[H|H]]; [eapply DRc | eapply DLc | eapply Djc]; eauto; left; reflexivity. }
    split.
    - split; [|split; [|split; [|split]]].
      + destruct bc as [b|]; [|subst c4; eapply cx_wf2_mono; eauto; inc].
        eapply cx_wf2_mono; [eapply (bind_wf2 b _ c3 c4 _ Hbc W3 (HbcD b eq_refl)); eauto|]. inc.
      + assert (X13 : ext_outside (LX ++ binders_l rest ++ opt_names bc) c1 c3).
        { eapply ext_trans; [exact X2 | exact X3 | |]; inc. }
        destruct bc as [b|]; [|subst c4; exact X13].
        eapply ext_trans; [exact X13 | eapply bind_ext; eauto | |]; inc.
      + eapply incl'_trans; eauto. inc.
      + assumption.
      + intros T HT HTDD.
        assert (HT2 : tscope c2 (LX ++ Tst) T).
        { apply T2f; auto.
          - intros x Hx. split; intros Hi; apply (DjL x Hx); auto.
          - intros t y Ht Ey. destruct HT as (H1 & _). apply (H1 y y); [eauto|]. cbn. now rewrite (Hopt t y Ht Ey). }
        assert (HTD2 : incl' T (LX ++ D)) by inc2.
        destruct (T3 T HT2 HTD2) as [A1 A3]. specialize (A3 eq_refl). split; [assumption|]. intros _.
        destruct bc as [b|]; cbn [opt_names app].
        * eapply tscope_sub0; [eapply (tscope_bind b _ c3 c4 _ _ Hbc A3)|].
          -- intros Hi. apply (HbcD b eq_refl). rewrite !in_app_iff in *. destruct Hi as [Hi|[Hi|Hi]]; auto.
             left. now apply defs_l_in_binders.
          -- intros Hi. apply (HbcD b eq_refl). rewrite !in_app_iff in *. destruct Hi as [Hi|Hi]; auto.
             left. apply B3. now apply defs_l_in_binders.
          -- intros y Ey. eapply (tscope_var c3 _ _ e); eauto.
          -- inc.
        * subst c4. eapply tscope_sub0; eauto. inc.
    - intros Sd J a et tr Hi1 Hi2 HiJ HR. rewrite exec_SWhile.
      destruct fuel as [|k]; [cbn; exact I|]. cbn [loop]. rewrite exec_block_break_last.
      assert (HRh : Rel2 w c2 (LX ++ Sd) J (bind_e1 w lvsX a) et).
      { unfold bind_e1. rewrite (bind_inits_as_fas lvsX c1) in Hbi by (intros t y Ht Ey; split; eauto).
        apply (R2_bind_fas true lvsX c1 c2 Sd J Tst a et D HR Hbi HndL DjL Hi2 HiJ (cx_wf2_wf c1 D Hwf) Hi1 Hini). }
      assert (HiS1 : incl' (LX ++ Tst) (LX ++ Sd)) by inc2.
      assert (HiS2 : incl' (LX ++ Sd) (LX ++ D)) by inc2.
      assert (HiJ2 : incl' J (LX ++ D)) by inc2.
      specialize (Hd3 (LX ++ Sd) J (bind_e1 w lvsX a) et tr HiS1 HiS2 HiJ2 HRh).
      pose proof (proj2 (no_break_not_break Add w (S k)) rest (bind_e1 w lvsX a) tr) as Hnbk.
      destruct (exec_block Add w (S k) rest (bind_e1 w lvsX a) tr) as [ar t|v ar t| | | | |] eqn:Er; cbn [dyn] in *; auto.
      + destruct Hd3 as (_ & et2 & S2 & J2 & Ex & HR3 & Lo & Up & LJ & UJ). split; auto.
        set (v := eval w ar e).
        exists et2, (opt_names bc ++ S2), J2. split; [assumption|]. split; [|repeat split; inc2].
        assert (Hev : forall x, e = EVar x -> In x S2).
        { intros x ->. apply Lo. apply in_scope_var in Hse. rewrite !in_app_iff in *. destruct Hse as [H|[H|H]]; auto. }
        destruct bc as [b|]; cbn [bind_opt opt_names app]; [|subst c4; exact HR3].
        assert (HbSJ : ~ In b (S2 ++ J2)).
        { intros Hi. apply (HbcD b eq_refl). rewrite in_app_iff in Hi. destruct Hi as [Hi|Hi].
          - apply Up in Hi. rewrite !in_app_iff in *. destruct Hi as [Hi|[Hi|Hi]]; auto.
          - apply UJ in Hi. rewrite !in_app_iff in *. destruct Hi as [Hi|[[Hi|Hi]|Hi]]; auto. }
        eapply (R2_bind w c3 c4 S2 J2 ar et2 b _ v HR3 Hbc HbSJ).
        * apply (cx_wf_notin_b c3 _ b (cx_wf2_wf _ _ W3) (HbcD b eq_refl)).
        * unfold v. rewrite eval_wrap. apply (R2_expr w c3 S2 J2 ar et2 e HR3 Hev).
        * intros y Ey. eapply (R2_expr_scope w c3 S2 J2 ar et2 e); eauto.
      + exfalso. eapply Hnbk; eauto.
  Qed.
  (* ---------------------------------------------------------------- rewrites of an optimised loop *)
  Lemma R2_shrink c S S' J eo et : Rel2 w c S J eo et -> incl' S' S -> Rel2 w c S' (J ++ S) eo et.
  Proof.
    intros (RV & RI & RB) Hi.
    assert (Hin : forall x, In x (S ++ J) -> In x (S' ++ J ++ S)) by inc.
    assert (Hout : forall x, In x (S' ++ J ++ S) -> In x (S ++ J)) by inc2.
    split; [|split].
    - intros x Hx. auto.
    - intros x y Hx E. apply Hin. eauto.
    - intros z op y k Hz E. destruct (RB z op y k (Hout z Hz) E) as (Hy & R). split; auto.
  Qed.

  (* `good` for a statement W of the optimised code, run from the same environment on both sides, with the
     scope after the statement given exactly *)
  Definition dynT (ro : res) (out : list stmt) (c' : cx) (S bs ds : list name) (et : env) (tr : trace) : Prop :=
    match ro with
    | RNext e1 tr' => exists et2 J', exec_block_t out et tr = RNext et2 tr' /\ Rel2 w c' (ds ++ S) J' e1 et2 /\
                                     incl' J' (bs ++ S)
    | RBreak v _ tr' => exists et2, exec_block_t out et tr = RBreak v et2 tr'
    | _ => True
    end.
  Definition tgood (bs ds : list name) (W : stmt) (Tst : list name) (c1 : cx) (out : list stmt) (c' : cx) : Prop :=
    forall D, cx_wf2 c1 D -> incl' Tst D -> NoDup bs -> disj bs D ->
      stat bs ds Tst c1 out c' false D /\
      forall et tr, Rel2 w c1 Tst [] et et -> dynT (exec_o W et tr) out c' Tst bs ds et tr.

  Lemma good_tgood bs ds W Tst c1 out c' : good bs ds (exec_o W) Tst c1 out c' false -> tgood bs ds W Tst c1 out c'.
  Proof.
    intros Hg D Hwf HTD Hnd Hdj. destruct (Hg D Hwf HTD Hnd Hdj) as [Hst Hd]. split; [exact Hst|].
    intros et tr HR. specialize (Hd Tst [] et et tr (incl'_refl _) HTD (incl'_nil _) HR).
    destruct (exec_o W et tr); cbn [dyn dynT] in *; auto.
    destruct Hd as (_ & et2 & S' & J' & Ex & HR' & Lo & Up & LJ & UJ).
    exists et2, (J' ++ S'). split; [assumption|]. split; [eapply R2_shrink; eauto|]. inc2.
  Qed.

  Lemma R2_eo c S J eo eo' et : Rel2 w c S J eo et -> agree w S eo eo' -> Rel2 w c S J eo' et.
  Proof. intros (RV & RI & RB) Ha. split; [|split]; auto. intros x Hx. rewrite <- (Ha x Hx). auto. Qed.

  Lemma tscope_self c T : (forall x, In x T -> assoc x (cx_v c) = None) ->
    (forall z op y k, In z T -> assoc z (cx_b c) = Some (op, y, k) -> In y T) -> tscope c T T.
  Proof. intros H1 H2. split; [|split]; auto. intros x y Hx. cbn. rewrite (H1 x Hx). intros [= <-]. exact Hx. Qed.
  Lemma tscope_super c T T' : tscope c T T' -> (forall x, In x T -> assoc x (cx_v c) = None) -> incl' T T'.
  Proof. intros (H1 & _) Hn x Hx. apply (H1 x x Hx). cbn. now rewrite (Hn x Hx). Qed.

  (* the loop is emitted as it is *)
  Lemma tl_keep lvsX body bc c1 Tst :
    scoped Tst (SWhile lvsX body bc) = true -> (forall x, In x Tst -> assoc x (cx_v c1) = None) ->
    tgood (map t_name lvsX ++ binders_l body ++ opt_names bc) (opt_names bc) (SWhile lvsX body bc) Tst c1
          [SWhile lvsX body bc] c1.
  Proof.
    intros Hsc HTn D Hwf HTD Hnd Hdj.
    set (W := SWhile lvsX body bc) in *. set (bs := map t_name lvsX ++ binders_l body ++ opt_names bc) in *.
    assert (Hbs : binders_l [W] = bs) by (cbn [binders_l]; apply app_nil_r).
    assert (Hbc : forall b, bc = Some b -> assoc b (cx_v c1) = None /\ assoc b (cx_b c1) = None /\ ~ In b D).
    { intros b ->. assert (Hn : ~ In b D) by (intros Hd; apply (Hdj b); [unfold bs; cbn; rewrite !in_app_iff; cbn; auto | exact Hd]).
      split; [eapply cx_wf_notin_v; eauto; apply Hwf|]. split; [eapply cx_wf_notin_b; eauto; apply Hwf | exact Hn]. }
    split.
    - split; [eapply cx_wf2_mono; eauto; inc|]. split; [apply ext_refl|]. rewrite Hbs.
      split; [apply incl'_refl|]. split; [assumption|]. intros T HT HTD'.
      pose proof (tscope_super _ _ _ HT HTn) as Hsup.
      split; [cbn [scoped_l]; rewrite (scoped_mono W Tst T Hsup Hsc); reflexivity|]. intros _.
      change (defs_l [W]) with (opt_names bc). destruct bc as [b|]; cbn [opt_names app]; [|exact HT].
      destruct (Hbc b eq_refl) as (A & B & _). apply tscope_keep; auto.
    - intros et tr HR.
      assert (Eb : exec_block_t [W] et tr = exec_o W et tr).
      { rewrite exec_block_cons. destruct (exec_o W et tr); reflexivity. }
      pose proof (frame_stmt Add w fuel W et tr) as Hfr.
      destruct (exec_o W et tr) as [e1 t| | | | | |] eqn:E; cbn [dynT]; auto.
      + exists e1, []. split; [exact Eb|]. split; [|apply incl'_nil]. cbn [frame_res] in Hfr.
        assert (HR' : Rel2 w c1 Tst [] e1 e1).
        { assert (Hl : forall x, In x (Tst ++ []) -> lookup x e1 = lookup x et).
          { intros x Hx. rewrite app_nil_r in Hx. apply Hfr. intros Hb. apply (Hdj x Hb). auto. }
          apply (R2_frame w c1 Tst [] et et e1 e1 HR); auto. intros x Hx. apply Hl. rewrite app_nil_r. exact Hx. }
        destruct bc as [b|]; cbn [opt_names app]; [|exact HR'].
        destruct (Hbc b eq_refl) as (A & B & _).
        apply (R2_add_many w c1 Tst [] [b] e1 e1 HR'). intros x [<-|[]]. auto.
      + unfold W in E. rewrite exec_SWhile in E. destruct (loop _ _ _ _ _); discriminate.
  Qed.
  (* the first run of the pass over the body of an optimised loop, with the loop variables bound to their
     initial values *)
  Lemma tl_first n lvsX body bc c1 Tst cA first cB bA fA D :
    Qn n -> scoped Tst (SWhile lvsX body bc) = true ->
    (forall x, In x Tst -> assoc x (cx_v c1) = None) ->
    (forall z op y k, In z Tst -> assoc z (cx_b c1) = Some (op, y, k) -> In y Tst) ->
    bind_inits lvsX c1 = Some cA -> ccp_stmts g n body cA = Some (first, cB, bA, fA) -> fst fA = false ->
    cx_wf2 c1 D -> incl' Tst D -> NoDup (map t_name lvsX ++ binders_l body ++ opt_names bc) ->
    disj (map t_name lvsX ++ binders_l body ++ opt_names bc) D ->
    cx_wf2 cA (map t_name lvsX ++ D) /\ ext_outside (map t_name lvsX) c1 cA /\
    tscope cA (map t_name lvsX ++ Tst) Tst /\
    stat (binders_l body) (defs_l body) (map t_name lvsX ++ Tst) cA first cB bA (map t_name lvsX ++ D) /\
    forall et tr, Rel2 w c1 Tst [] et et ->
      Rel2 w cA (map t_name lvsX ++ Tst) [] (bind_e1 w lvsX et) et /\
      dyn (exec_block_o body (bind_e1 w lvsX et) tr) first cB bA (map t_name lvsX ++ Tst) []
          (binders_l body) (defs_l body) et tr.
  Proof.
    intros HQ Hsc HTn HTb Hbi Hccp HfA Hwf HTD Hnd Hdj. set (LX := map t_name lvsX) in *.
    rewrite scoped_SWhile in Hsc. apply andb_prop in Hsc. destruct Hsc as [Hsc Hl2]. apply andb_prop in Hsc. destruct Hsc as [Hl1 Hsb].
    fold LX in Hsb, Hl2. rewrite forallb_forall in Hl1.
    assert (HndL : NoDup LX) by (eapply NoDup_app_l'; eauto).
    assert (HndB : NoDup (binders_l body)) by (eapply NoDup_app_l', NoDup_app_r'; eauto).
    assert (DLB : forall x, In x LX -> In x (binders_l body) -> False).
    { intros x H1 H2. eapply (NoDup_app_disj' _ _ x Hnd); eauto. rewrite in_app_iff. auto. }
    assert (DjL : forall x, In x LX -> ~ In x D) by (intros x Hx Hd; eapply Hdj; eauto; rewrite !in_app_iff; auto).
    assert (DjB : forall x, In x (binders_l body) -> ~ In x D) by (intros x Hx Hd; eapply Hdj; eauto; rewrite !in_app_iff; auto).
    assert (HiniT : forall t y, In t lvsX -> t_e1 t = EVar y -> In y Tst).
    { intros t y Ht Ey. specialize (Hl1 t Ht). rewrite Ey in Hl1. now apply in_scope_var in Hl1. }
    assert (Hinifresh : forall t y, In t lvsX -> t_e1 t = EVar y -> ~ In y LX).
    { intros t y Ht Ey Hy. apply (DjL y Hy). apply HTD. eauto. }
    destruct (bind_inits_spec lvsX c1 cA Hbi HndL Hinifresh) as (EbA & XA & AA & WAf & TAf).
    assert (WA : cx_wf2 cA (LX ++ D)).
    { apply WAf; auto. intros t y Ht Ey. split; [apply HTD; eauto | eauto]. }
    assert (HTA : tscope cA (LX ++ Tst) Tst).
    { apply TAf; [apply tscope_self; auto | | exact HiniT].
      intros x Hx. split; intros Hi; apply (DjL x Hx); auto. }
    assert (HS2 : incl' (LX ++ Tst) (LX ++ D)) by inc2.
    assert (HdjB : disj (binders_l body) (LX ++ D)).
    { intros x Hx. rewrite in_app_iff. intros [Hl|Hd]; [eapply DLB | eapply DjB]; eauto. }
    destruct (HQ body cA first cB bA fA (LX ++ Tst) Hccp HfA Hsb (LX ++ D) WA HS2 HndB HdjB) as [Hst Hd].
    split; [assumption|]. split; [assumption|]. split; [assumption|]. split; [assumption|].
    intros et tr HR.
    assert (HRh : Rel2 w cA (LX ++ Tst) [] (bind_e1 w lvsX et) et).
    { unfold bind_e1. rewrite (bind_inits_as_fas lvsX c1) in Hbi by (intros t y Ht Ey; split; eauto).
      apply (R2_bind_fas true lvsX c1 cA Tst [] Tst et et D HR Hbi HndL DjL HTD (incl'_nil _) (cx_wf2_wf c1 D Hwf) (incl'_refl _)).
      intros t Ht. apply Hl1. exact Ht. }
    split; [exact HRh|]. apply Hd; auto; [apply incl'_refl | apply incl'_nil].
  Qed.
  Lemma tscope_more_T c S0 T L : tscope c S0 T ->
    (forall x, In x L -> assoc x (cx_v c) = None /\ assoc x (cx_b c) = None) -> tscope c S0 (L ++ T).
  Proof.
    intros (H1 & H2 & H3) HL. split; [|split].
    - intros x y Hx E. apply in_or_app. right. eauto.
    - intros y Hy. apply in_app_or in Hy. destruct Hy as [Hy|Hy]; [apply HL; assumption | auto].
    - intros z op y k Hz E. apply in_app_or in Hz. destruct Hz as [Hz|Hz].
      + destruct (HL z Hz) as [_ Eb]. congruence.
      + apply in_or_app. right. eauto.
  Qed.

  (* the first run ends in its only break: the loop is replaced by that run *)
  Lemma tl_break n lvsX body bc c1 Tst cA rest v cB bA fA c' :
    Qn n -> scoped Tst (SWhile lvsX body bc) = true ->
    (forall x, In x Tst -> assoc x (cx_v c1) = None) ->
    (forall z op y k, In z Tst -> assoc z (cx_b c1) = Some (op, y, k) -> In y Tst) ->
    bind_inits lvsX c1 = Some cA -> ccp_stmts g n body cA = Some (rest ++ [SBreak v], cB, bA, fA) -> fst fA = false ->
    no_break_l rest = true ->
    match bc with Some b => bind b (opt_expr (cx_v c1) v) c1 = Some c' | None => c' = c1 end ->
    tgood (map t_name lvsX ++ binders_l body ++ opt_names bc) (opt_names bc) (SWhile lvsX body bc) Tst c1 rest c'.
  Proof.
    intros HQ Hsc HTn HTb Hbi Hccp HfA Hnb Hbc D Hwf HTD Hnd Hdj. set (LX := map t_name lvsX) in *.
    destruct (tl_first n lvsX body bc c1 Tst cA _ cB bA fA D HQ Hsc HTn HTb Hbi Hccp HfA Hwf HTD Hnd Hdj)
      as (WA & XA & HTA & (WB & XB & BB & NB & SB) & Hdyn).
    fold LX in WA, XA, HTA, WB, XB, BB, NB, SB, Hdyn.
    rewrite binders_l_app in BB, NB. cbn [binders_l binders] in BB, NB. rewrite app_nil_r in BB, NB.
    assert (HndL : NoDup LX) by (eapply NoDup_app_l'; eauto).
    assert (DjL : forall x, In x LX -> ~ In x D) by (intros x Hx Hd; eapply Hdj; eauto; rewrite !in_app_iff; auto).
    assert (DjB : forall x, In x (binders_l body) -> ~ In x D) by (intros x Hx Hd; eapply Hdj; eauto; rewrite !in_app_iff; auto).
    assert (Djc : forall x, In x (opt_names bc) -> ~ In x D) by (intros x Hx Hd; eapply Hdj; eauto; rewrite !in_app_iff; auto).
    assert (DLc : forall x, In x LX -> In x (opt_names bc) -> False).
    { intros x H1 H2. eapply (NoDup_app_disj' _ _ x Hnd); eauto. rewrite in_app_iff. auto. }
    assert (DBc : forall x, In x (binders_l body) -> In x (opt_names bc) -> False).
    { intros x H1 H2. apply NoDup_app_r' in Hnd. eapply (NoDup_app_disj' _ _ x Hnd); eauto. }
    assert (Hrb : forall x, In x (defs_l rest) -> In x (binders_l body)) by (intros x Hx; apply BB; now apply defs_l_in_binders).
    assert (Hnoent : forall x, ~ In x D -> assoc x (cx_v c1) = None /\ assoc x (cx_b c1) = None).
    { intros x Hx. split; [eapply cx_wf_notin_v | eapply cx_wf_notin_b]; eauto; apply Hwf. }
    (* the break value is a name of the optimised code *)
    destruct (SB Tst HTA ltac:(inc2)) as [SBs _].
    rewrite scoped_l_app in SBs. apply andb_prop in SBs. destruct SBs as [_ Hv]. cbn in Hv. rewrite andb_true_r in Hv.
    assert (Hvy : forall y, v = EVar y -> In y (defs_l rest ++ Tst)) by (intros y ->; now apply in_scope_var in Hv).
    assert (Hov : opt_expr (cx_v c1) v = v).
    { destruct v as [| | |y]; try reflexivity. cbn. specialize (Hvy y eq_refl). apply in_app_or in Hvy.
      destruct Hvy as [Hy|Hy]; [destruct (Hnoent y (DjB y (Hrb y Hy))) as [-> _] | rewrite (HTn y Hy)]; reflexivity. }
    rewrite Hov in Hbc.
    assert (HbcN : forall b, bc = Some b -> ~ In b (LX ++ binders_l body ++ D)).
    { intros b ->. rewrite !in_app_iff. intros [H|[H|H]]; [eapply DLc | eapply DBc | eapply Djc]; eauto; left; reflexivity. }
    split.
    - split; [|split; [|split; [|split]]].
      + destruct bc as [b|]; [|subst c'; eapply cx_wf2_mono; eauto; inc].
        assert (W1 : cx_wf2 c1 (LX ++ binders_l body ++ D)) by (eapply cx_wf2_mono; eauto; inc).
        eapply cx_wf2_mono; [eapply (bind_wf2 b v c1 c' _ Hbc W1 (HbcN b eq_refl))|inc].
        intros y Ey. specialize (Hvy y Ey). apply in_app_or in Hvy. destruct Hvy as [Hy|Hy].
        * split; [rewrite !in_app_iff; auto|]. apply Hnoent. auto.
        * split; [rewrite !in_app_iff; auto | auto].
      + destruct bc as [b|]; [|subst c'; apply ext_refl]. eapply ext_mono; [eapply bind_ext; eauto|]. inc.
      + eapply incl'_trans; eauto. inc.
      + assumption.
      + intros T HT HTDD. pose proof (tscope_super _ _ _ HT HTn) as Hsup.
        assert (HT2 : tscope cA (LX ++ Tst) T).
        { destruct (bind_inits_spec lvsX c1 cA Hbi HndL) as (_ & _ & _ & _ & TAf).
          - intros t y Ht Ey Hy. apply (DjL y Hy). apply HTD.
            rewrite scoped_SWhile in Hsc. apply andb_prop in Hsc. destruct Hsc as [Hsc _]. apply andb_prop in Hsc. destruct Hsc as [Hl1 _].
            rewrite forallb_forall in Hl1. specialize (Hl1 t Ht). rewrite Ey in Hl1. now apply in_scope_var in Hl1.
          - apply TAf; auto.
            + intros x Hx. split; intros Hi; apply (DjL x Hx); auto.
            + intros t y Ht Ey. apply Hsup.
              rewrite scoped_SWhile in Hsc. apply andb_prop in Hsc. destruct Hsc as [Hsc _]. apply andb_prop in Hsc. destruct Hsc as [Hl1 _].
              rewrite forallb_forall in Hl1. specialize (Hl1 t Ht). rewrite Ey in Hl1. now apply in_scope_var in Hl1. }
        destruct (SB T HT2 ltac:(inc2)) as [A1 _].
        rewrite scoped_l_app in A1. apply andb_prop in A1. destruct A1 as [A1 A2]. split; [assumption|]. intros _.
        assert (HT3 : tscope c1 Tst (defs_l rest ++ T)).
        { apply tscope_more_T; auto. }
        destruct bc as [b|]; cbn [opt_names app]; [|subst c'; exact HT3].
        apply (tscope_bind b v c1 c' Tst _ Hbc HT3).
        * intros Hi. apply (HbcN b eq_refl). rewrite !in_app_iff. auto.
        * intros Hi. apply (HbcN b eq_refl). rewrite !in_app_iff in *. destruct Hi as [Hi|Hi]; auto.
        * intros y Ey. specialize (Hvy y Ey). rewrite !in_app_iff in *. destruct Hvy; auto.
    - intros et tr HR. rewrite exec_SWhile.
      destruct fuel as [|k]; [cbn; exact I|]. cbn [loop]. destruct (Hdyn et tr HR) as [HRh Hd].
      pose proof (frame_block Add w (S k) body (bind_e1 w lvsX et) tr) as Hfb.
      destruct (exec_block Add w (S k) body (bind_e1 w lvsX et) tr) as [ab t1|vb a1 t1| | | | |] eqn:Eb; cbn [dyn dynT] in *; auto.
      + destruct Hd as (_ & et' & S' & J' & Ex & _). exfalso. eapply ends_break_not_next; [|exact Ex]. apply ends_break_app.
      + destruct Hd as [et' Ex]. rewrite exec_block_break_last in Ex.
        pose proof (frame_block Add w fuel rest et tr) as Hfr.
        destruct (exec_block_t rest et tr) as [etr t2| | | | | |] eqn:Er; try discriminate.
        2:{ exfalso. eapply (proj2 (no_break_not_break Add w fuel)); eauto. }
        cbn in Ex. injection Ex as Ev <- <-. exists etr, (defs_l rest). split; [reflexivity|]. split; [|intros x Hx; apply Hrb in Hx; rewrite !in_app_iff; auto].
        cbn [frame_res] in Hfb, Hfr.
        assert (HR1 : Rel2 w c1 Tst [] a1 etr).
        { apply (R2_frame w c1 Tst [] et et a1 etr HR).
          - intros x Hx. rewrite Hfb; [unfold bind_e1; apply lookup_bind_notin|]; intros Hi; [apply (DjL x) | apply (DjB x)]; auto.
          - intros x Hx. rewrite app_nil_r in Hx. apply Hfr. intros Hi. apply (DjB x); auto. }
        assert (HR2 : Rel2 w c1 Tst (defs_l rest) a1 etr).
        { apply (R2_more_J w c1 Tst [] _ a1 etr HR1 (incl'_nil _)). intros z op y k0 Hz _ E.
          destruct (Hnoent z (DjB z (Hrb z Hz))) as [_ E']. congruence. }
        destruct bc as [b|]; cbn [bind_opt opt_names app]; [|subst c'; exact HR2].
        apply (R2_bind w c1 c' Tst _ a1 etr b v vb HR2 Hbc).
        * intros Hi. apply (HbcN b eq_refl). rewrite !in_app_iff in *. destruct Hi as [Hi|Hi]; auto.
        * apply Hnoent. intros Hi. apply (HbcN b eq_refl). rewrite !in_app_iff. auto.
        * rewrite <- Ev. apply eval_wrap.
        * intros y Ey. specialize (Hvy y Ey). rewrite !in_app_iff in *. destruct Hvy; auto.
  Qed.
  (* the first run is empty: the loop can start from the loop values of that run *)
  Lemma tl_advance n lvsX body bc c1 Tst cA cB bA fA out c' :
    Qn n -> scoped Tst (SWhile lvsX body bc) = true ->
    (forall x, In x Tst -> assoc x (cx_v c1) = None) ->
    (forall z op y k, In z Tst -> assoc z (cx_b c1) = Some (op, y, k) -> In y Tst) ->
    bind_inits lvsX c1 = Some cA -> ccp_stmts g n body cA = Some ([], cB, bA, fA) -> fst fA = false ->
    (scoped Tst (SWhile (map (fun t => (t_name t, opt_expr (cx_v cB) (t_e2 t), t_e2 t)) lvsX) body bc) = true ->
     tgood (map t_name lvsX ++ binders_l body ++ opt_names bc) (opt_names bc)
           (SWhile (map (fun t => (t_name t, opt_expr (cx_v cB) (t_e2 t), t_e2 t)) lvsX) body bc) Tst c1 out c') ->
    tgood (map t_name lvsX ++ binders_l body ++ opt_names bc) (opt_names bc) (SWhile lvsX body bc) Tst c1 out c'.
  Proof.
    intros HQ Hsc HTn HTb Hbi Hccp HfA Hadv D Hwf HTD Hnd Hdj. set (LX := map t_name lvsX) in *.
    set (adv := map (fun t => (t_name t, opt_expr (cx_v cB) (t_e2 t), t_e2 t)) lvsX) in *.
    destruct (tl_first n lvsX body bc c1 Tst cA _ cB bA fA D HQ Hsc HTn HTb Hbi Hccp HfA Hwf HTD Hnd Hdj)
      as (WA & XA & HTA & (WB & XB & BB & NB & SB) & Hdyn).
    fold LX in WA, XA, HTA, WB, XB, SB, Hdyn.
    assert (bA = false) as ->.
    { destruct bA; [|reflexivity]. pose proof (ccps_brk_ends n body cA [] cB fA Hccp) as Hx. discriminate Hx. }
    destruct (SB Tst HTA ltac:(inc2)) as [_ HTB]. specialize (HTB eq_refl). cbn [defs_l app] in HTB.
    pose proof Hsc as Hsc'. rewrite scoped_SWhile in Hsc'. apply andb_prop in Hsc'. destruct Hsc' as [Hsc' Hl2].
    apply andb_prop in Hsc'. destruct Hsc' as [Hl1 Hsb]. fold LX in Hsb, Hl2.
    assert (En : map t_name adv = LX) by (unfold adv; rewrite map_map; reflexivity).
    assert (Hsadv : scoped Tst (SWhile adv body bc) = true).
    { rewrite scoped_SWhile, En, Hsb, andb_true_r. rewrite forallb_forall in Hl2. apply andb_true_intro. split.
      - rewrite forallb_forall. intros t Ht. apply in_map_iff in Ht. destruct Ht as [t0 [<- Ht0]]. cbn.
        eapply tscope_expr; eauto.
      - rewrite forallb_forall. intros t Ht. apply in_map_iff in Ht. destruct Ht as [t0 [<- Ht0]]. cbn. auto. }
    destruct (Hadv Hsadv D Hwf HTD Hnd Hdj) as [Hst HdA]. split; [exact Hst|].
    intros et tr HR. destruct (Hdyn et tr HR) as [HRh Hd]. specialize (HdA et tr HR).
    destruct (exec_o (SWhile lvsX body bc) et tr) as [e1 t|v0 e0 t0| | | | |] eqn:EW; cbn [dynT]; auto.
    2:{ exfalso. eapply while_never_break; eauto. }
    apply while_first in EW.
    destruct EW as [(v & a1 & Eb & ->)|(ab & t1 & k & v & a1 & Ef & Eb & El & ->)]; rewrite Eb in Hd; cbn [dyn] in Hd.
    - destruct Hd as [et' Ex]. rewrite exec_block_nil in Ex. discriminate.
    - destruct Hd as (_ & et' & S' & J' & Ex & HRB & Lo & Up & LJ & UJ). rewrite exec_block_nil in Ex. injection Ex as <- <-.
      pose proof (frame_block Add w fuel body (bind_e1 w lvsX et) tr) as Hfb. rewrite Eb in Hfb. cbn [frame_res] in Hfb.
      assert (DjL : forall x, In x LX -> ~ In x D) by (intros x Hx Hd; eapply Hdj; eauto; rewrite !in_app_iff; auto).
      assert (DjB : forall x, In x (binders_l body) -> ~ In x D) by (intros x Hx Hd; eapply Hdj; eauto; rewrite !in_app_iff; auto).
      rewrite forallb_forall in Hl2.
      assert (Ha : agree w (LX ++ Tst) (bind_e2 w lvsX ab) (bind_e1 w adv et)).
      { unfold bind_e2, bind_e1. rewrite En. unfold adv. rewrite map_map. cbn [t_e1].
        apply (agree_bind2 w t_e2 (fun t => opt_expr (cx_v cB) (t_e2 t)) lvsX Tst ab et ab et).
        - intros t0 Ht0. apply (R2_expr w cB S' J' ab et (t_e2 t0) HRB). intros x Ex. apply Lo.
          specialize (Hl2 t0 Ht0). rewrite Ex in Hl2. now apply in_scope_var in Hl2.
        - intros x Hx. apply eval_var_lookup. rewrite Hfb by (intros Hi; apply (DjB x); auto).
          unfold bind_e1. apply lookup_bind_notin. intros Hi. apply (DjL x); auto. }
      destruct (while_advance Add w fuel lvsX (fun t => opt_expr (cx_v cB) (t_e2 t)) body bc Tst et tr k ab v a1 t Ef)
        as [a1' [EWa Ha1]]; auto.
      + apply scoped_l_scopedc. exact Hsb.
      + apply orb_true_intro. right. rewrite forallb_forall. exact Hl2.
      + fold adv in EWa. rewrite EWa in HdA. cbn [dynT] in HdA. destruct HdA as (et2 & J2 & Ex2 & HR2 & HJ2).
        exists et2, J2. split; [exact Ex2|]. split; [|exact HJ2]. apply (R2_eo _ _ _ _ _ _ HR2).
        apply agree_bind_opt. apply agree_sym. eapply agree_sub; eauto. inc.
  Qed.
  Lemma split_last_spec {A} (l : list A) :
    match split_last l with Some (r, x) => l = r ++ [x] | None => l = [] end.
  Proof.
    induction l as [|a l IH]; cbn; [reflexivity|]. destruct l as [|b l']; [reflexivity|].
    destruct (split_last (b :: l')) as [[i z]|]; [|discriminate]. cbn. now rewrite IH.
  Qed.

  Lemma tl_tgood n bc c1 Tst body :
    Qn n -> (forall x, In x Tst -> assoc x (cx_v c1) = None) ->
    (forall z op y k, In z Tst -> assoc z (cx_b c1) = Some (op, y, k) -> In y Tst) ->
    forall depth lvsX out c' brk f,
    try_loop g (ccp_stmts g n) depth lvsX body bc c1 = Some (out, c', brk, f) -> fst f = false ->
    scoped Tst (SWhile lvsX body bc) = true ->
    brk = false /\
    tgood (map t_name lvsX ++ binders_l body ++ opt_names bc) (opt_names bc) (SWhile lvsX body bc) Tst c1 out c'.
  Proof.
    intros HQ HTn HTb.
    assert (En : forall (cB : cx) lvsX, map t_name (map (fun t => (t_name t, opt_expr (cx_v cB) (t_e2 t), t_e2 t)) lvsX) = map t_name lvsX)
      by (intros; rewrite map_map; reflexivity).
    induction depth as [|d IH]; intros lvsX out c' brk f H Hf Hsc; cbn [try_loop] in H;
      (destruct (bind_inits lvsX c1) as [cA|] eqn:Hbi; [|discriminate]);
      (destruct (ccp_stmts g n body cA) as [[[[first cB] bA] fA]|] eqn:Hccp; [|discriminate]);
      pose proof (split_last_spec first) as Hsl;
      (destruct (split_last first) as [[rest last]|];
       [ rewrite Hg1 in H; cbn [andb negb] in H;
         destruct (negb (is_break last) || negb (no_break_l rest)) eqn:Ec;
         [ injection H as <- <- <- <-; split; [reflexivity|]; apply tl_keep; auto
         | destruct last; try discriminate H; apply orb_false_elim in Ec; destruct Ec as [_ Ec];
           apply negb_false_iff in Ec; subst first;
           assert (HfA : fst fA = false);
           [ destruct bc as [b|]; [destruct (bind b _ c1); [|discriminate]|]; injection H as _ _ _ <-;
             apply orf_false in Hf; apply Hf
           | destruct bc as [b|];
             [ destruct (bind b _ c1) as [cb|] eqn:Eb; [|discriminate]; injection H as <- <- <- _; split; [reflexivity|];
               eapply tl_break; eauto
             | injection H as <- <- <- _; split; [reflexivity|]; eapply tl_break; eauto ] ] ]
       | subst first ]).
    - injection H as <- <- <- <-. split; [reflexivity|]. eapply tl_advance; eauto.
      intros Hs. rewrite <- (En cB lvsX). apply tl_keep; auto.
    - destruct (try_loop g (ccp_stmts g n) d _ body bc c1) as [[[[o c2] b2] f2]|] eqn:Et; [|discriminate].
      injection H as <- <- <- <-. apply orf_false in Hf. destruct Hf as [HfA Hf2].
      assert (b2 = false) as -> by (eapply try_loop_brk; eauto).
      split; [reflexivity|]. eapply tl_advance; eauto.
      intros Hs. rewrite <- (En cB lvsX). eapply IH; eauto.
  Qed.
  (* ---------------------------------------------------------------- While, first stage: the optimised loop *)
  Definition Fw (c1 c_in : cx) (t : triple) : (name * expr * expr)%type :=
    (t_name t, opt_expr (cx_v c1) (t_e1 t), opt_expr (cx_v c_in) (t_e2 t)).

  Lemma while_stage1 n lvs ss bc c K c1 f0 body c_in bb f1 S0 D :
    Qn n -> elim_lvs g lvs c = Some (K, c1, f0) -> ccp_stmts g n ss c1 = Some (body, c_in, bb, f1) -> fst f1 = false ->
    scoped S0 (SWhile lvs ss bc) = true ->
    cx_wf2 c D -> incl' S0 D -> NoDup (binders (SWhile lvs ss bc)) -> disj (binders (SWhile lvs ss bc)) D ->
    let lvs' := map (Fw c1 c_in) K in
    let LN := map t_name lvs in
    cx_wf2 c1 (LN ++ D) /\ ext_outside LN c c1 /\ cx_b c1 = cx_b c /\
    incl' (binders_l body) (binders_l ss) /\ NoDup (binders_l body) /\
    map t_name lvs' = map t_name K /\ incl' (map t_name K) LN /\ NoDup (map t_name K) /\
    (forall T, tscope c S0 T -> incl' T D ->
       tscope c1 S0 T /\ (forall t, In t lvs' -> in_scope T (t_e1 t) = true) /\
       scoped_l (map t_name lvs' ++ T) body = true /\
       (ends_break body = false ->
        forall t, In t lvs' -> in_scope (defs_l body ++ map t_name lvs' ++ T) (t_e2 t) = true)) /\
    (forall S J eo et tr, incl' S0 S -> incl' S D -> incl' J D -> Rel2 w c S J eo et ->
       match exec_o (SWhile lvs ss bc) eo tr with
       | RNext eo' tr' => exists et', exec_t (SWhile lvs' body bc) et tr = RNext et' tr' /\
                                      Rel2 w c1 (opt_names bc ++ S) J eo' et'
       | _ => True
       end).
  Proof.
    intros HQ Ee Eb Hf1 Hsc Hwf HS0 Hnd Hdj lvs' LN.
    rewrite scoped_SWhile in Hsc. apply andb_prop in Hsc. destruct Hsc as [Hsc Hl2].
    apply andb_prop in Hsc. destruct Hsc as [Hl1 Hss]. rewrite forallb_forall in Hl1, Hl2.
    rewrite binders_SWhile in Hnd, Hdj. fold LN in Hss, Hl2, Hnd, Hdj.
    specialize (HQ ss c1 body c_in bb f1 (LN ++ S0) Eb Hf1 Hss).
    assert (HndL : NoDup LN) by (eapply NoDup_app_l'; eauto).
    assert (HndB : NoDup (binders_l ss)) by (eapply NoDup_app_l', NoDup_app_r'; eauto).
    assert (DLB : forall x, In x LN -> In x (binders_l ss) -> False).
    { intros x H1 H2. eapply (NoDup_app_disj' _ _ x Hnd); eauto. rewrite in_app_iff. auto. }
    assert (DjL : forall x, In x LN -> ~ In x D) by (intros x Hx Hd; eapply Hdj; eauto; rewrite !in_app_iff; auto).
    assert (DjB : forall x, In x (binders_l ss) -> ~ In x D) by (intros x Hx Hd; eapply Hdj; eauto; rewrite !in_app_iff; auto).
    assert (Djc : forall x, In x (opt_names bc) -> ~ In x D) by (intros x Hx Hd; eapply Hdj; eauto; rewrite !in_app_iff; auto).
    assert (DLc : forall x, In x LN -> In x (opt_names bc) -> False).
    { intros x H1 H2. eapply (NoDup_app_disj' _ _ x Hnd); eauto. rewrite in_app_iff. auto. }
    assert (Hinitfresh : forall t y, In t lvs -> t_e1 t = EVar y -> ~ In y LN).
    { intros t y Ht Ey Hy. apply (DjL y Hy). apply HS0. apply in_scope_var. rewrite <- Ey. auto. }
    destruct (elim_spec2 lvs c K c1 f0 Ee HndL Hinitfresh) as (EK & Ebc & X1 & A1 & W1 & T1 & _).
    assert (HwfL : cx_wf2 c1 (LN ++ D)) by (apply (W1 D S0 Hwf HS0); auto).
    assert (HS0L : incl' (LN ++ S0) (LN ++ D)) by inc2.
    assert (HdjB : disj (binders_l ss) (LN ++ D)).
    { intros x Hx. rewrite in_app_iff. intros [Hl|Hd]; [eapply DLB | eapply DjB]; eauto. }
    destruct (HQ (LN ++ D) HwfL HS0L HndB HdjB) as [(Wb & Xb & Bb & Nb & Sb) Hdb].
    assert (HKin : forall t, In t K -> In t lvs /\ is_elim t = false).
    { intros t Ht. rewrite EK in Ht. apply filter_In in Ht. destruct Ht as [Ht He]. split; auto. now apply negb_true_iff in He. }
    assert (HinK : forall t, In t lvs -> is_elim t = false -> In t K).
    { intros t Ht He. rewrite EK. apply filter_In. split; auto. now rewrite He. }
    assert (HndK : NoDup (map t_name K)) by (rewrite EK; now apply NoDup_filter_names).
    assert (ELK : map t_name lvs' = map t_name K) by (unfold lvs'; rewrite map_map; reflexivity).
    assert (HLK : forall x, In x (map t_name K) -> In x LN).
    { intros x Hx. apply in_map_iff in Hx. destruct Hx as [t [<- Ht]]. apply in_map. apply HKin. exact Ht. }
    assert (Hopt1 : forall t, In t lvs -> opt_expr (cx_v c1) (t_e1 t) = opt_expr (cx_v c) (t_e1 t)).
    { intros t Ht. destruct (t_e1 t) eqn:Ep; try reflexivity. cbn. destruct (X1 x) as [-> _]; [|reflexivity].
      eapply Hinitfresh; eauto. }
    split; [exact HwfL|]. split; [exact X1|]. split; [exact Ebc|]. split; [exact Bb|]. split; [exact Nb|].
    split; [exact ELK|]. split; [exact HLK|]. split; [exact HndK|]. split.
    - intros T HT HTD.
      assert (HTL : forall x, In x LN -> ~ In x S0 /\ ~ In x T /\ assoc x (cx_v c) = None /\ assoc x (cx_b c) = None).
      { intros x Hx. split; [intros Hi; apply (DjL x Hx); auto|]. split; [intros Hi; apply (DjL x Hx); auto|].
        split; [eapply cx_wf_notin_v | eapply cx_wf_notin_b]; eauto; apply Hwf. }
      assert (HT1 : tscope c1 (LN ++ S0) (map t_name K ++ T)) by (apply T1; auto).
      assert (HT1o : tscope c1 S0 T).
      { eapply tscope_ext; [exact X1 | | | exact HT]; intros x Hx Hl; apply (DjL x Hl); auto. }
      destruct (Sb (map t_name K ++ T) HT1) as [Sb1 Sb2].
      { intros x. rewrite !in_app_iff. intros [Hx|Hx]; auto. }
      split; [exact HT1o|]. split; [|split].
      + intros t Ht. apply in_map_iff in Ht. destruct Ht as [t0 [<- Ht0]]. cbn. eapply tscope_expr; eauto.
        apply Hl1. apply HKin. exact Ht0.
      + rewrite ELK. exact Sb1.
      + intros Hnb t Ht. assert (bb = false) as ->.
        { destruct bb; [|reflexivity]. rewrite (ccps_brk_ends n ss c1 body c_in f1 Eb) in Hnb. discriminate. }
        specialize (Sb2 eq_refl). apply in_map_iff in Ht. destruct Ht as [t0 [<- Ht0]]. cbn. rewrite ELK.
        eapply tscope_expr; eauto. apply Hl2. apply HKin. exact Ht0.
    - intros S J eo et tr Hi1 Hi2 HiJ HR.
      assert (HSL : forall x, In x S -> ~ In x LN) by (intros x Hx Hl; apply (DjL x Hl); auto).
      assert (HJL : forall x, In x J -> ~ In x LN) by (intros x Hx Hl; apply (DjL x Hl); auto).
      assert (HSB : forall x, In x S -> ~ In x (binders_l ss)) by (intros x Hx Hb; apply (DjB x Hb); auto).
      assert (HJB : forall x, In x J -> ~ In x (binders_l ss)) by (intros x Hx Hb; apply (DjB x Hb); auto).
      assert (HSJLK : forall x, In x (S ++ J) -> ~ In x (map t_name lvs')).
      { intros x Hx Hl. rewrite ELK in Hl. apply HLK in Hl. apply in_app_or in Hx. destruct Hx; [eapply HSL | eapply HJL]; eauto. }
      assert (Hinit_in : forall t, In t lvs -> forall y, t_e1 t = EVar y -> In y S).
      { intros t Ht. eapply in_scope_In; eauto. }
      set (Iv := fun eh th : env =>
        Rel2 w c S J eh th /\ (forall x, In x S -> lookup x eh = lookup x eo) /\
        (forall x, In x (S ++ J) -> lookup x th = lookup x et) /\
        forall t, In t lvs -> if is_elim t then eval w eh (EVar (t_name t)) = eval w eo (t_e1 t)
                              else lookup (t_name t) eh = lookup (t_name t) th).
      assert (HF : forall t, In t K -> find (fun t' : triple => N.eqb (t_name t) (t_name t')) lvs' = Some (Fw c1 c_in t)).
      { intros t Ht. apply find_mapped; auto. }
      assert (HRel1 : forall eh th, Iv eh th -> Rel2 w c1 (LN ++ S) J eh th).
      { intros eh th (HRh & Hfro & Hfrt & Hlv). pose proof HRh as (RV & RI & RB).
        assert (Ho : forall x, In x S -> opt_expr (cx_v c1) (EVar x) = opt_expr (cx_v c) (EVar x)).
        { intros x Hx. cbn. destruct (X1 x (HSL x Hx)) as [-> _]. reflexivity. }
        assert (Hoe : forall t, In t lvs -> is_elim t = true -> opt_expr (cx_v c1) (EVar (t_name t)) = opt_expr (cx_v c) (t_e1 t)).
        { intros t Ht He. cbn. pose proof (A1 t Ht) as A. rewrite He in A. now rewrite A. }
        assert (Hok : forall t, In t lvs -> is_elim t = false -> opt_expr (cx_v c1) (EVar (t_name t)) = EVar (t_name t)).
        { intros t Ht He. cbn. pose proof (A1 t Ht) as A. rewrite He in A. rewrite A.
          rewrite (cx_wf_notin_v c D (t_name t) (cx_wf2_wf _ _ Hwf)); [reflexivity|]. apply DjL. now apply in_map. }
        assert (Hup : forall x, In x (S ++ J) -> In x ((LN ++ S) ++ J)) by inc.
        split; [|split].
        - intros x Hx. destruct (in_dec N.eq_dec x LN) as [Hl|Hn].
          + apply in_map_iff in Hl. destruct Hl as [t [<- Ht]]. specialize (Hlv t Ht).
            destruct (is_elim t) eqn:He.
            * rewrite (Hoe t Ht He), Hlv.
              rewrite (R2_expr w c S J eo et (t_e1 t) HR (Hinit_in t Ht)).
              symmetry. apply (eval_same_on w (S ++ J)).
              -- intros y Ey. eapply (R2_expr_scope w c S J eo et (t_e1 t)); eauto.
              -- intros y Hy. apply Hfrt. exact Hy.
            * rewrite (Hok t Ht He). unfold eval. now rewrite Hlv.
          + rewrite in_app_iff in Hx. destruct Hx as [Hx|Hx]; [contradiction|]. rewrite (Ho x Hx). auto.
        - intros x y Hx. destruct (in_dec N.eq_dec x LN) as [Hl|Hn].
          + apply in_map_iff in Hl. destruct Hl as [t [<- Ht]]. destruct (is_elim t) eqn:He.
            * rewrite (Hoe t Ht He). intros E. apply Hup.
              eapply (R2_expr_scope w c S J eo et (t_e1 t)); eauto.
            * rewrite (Hok t Ht He). intros [= <-]. apply in_or_app. left. apply in_or_app. left. now apply in_map.
          + rewrite in_app_iff in Hx. destruct Hx as [Hx|Hx]; [contradiction|]. rewrite (Ho x Hx). intros E.
            apply Hup. eauto.
        - intros z op y k Hz. rewrite Ebc. intros E.
          destruct (in_dec N.eq_dec z LN) as [Hl|Hn].
          + exfalso. rewrite (cx_wf_notin_b c D z (cx_wf2_wf _ _ Hwf) (DjL z Hl)) in E. discriminate.
          + assert (Hz' : In z (S ++ J)) by (rewrite !in_app_iff in *; tauto).
            destruct (RB z op y k Hz' E) as (Hy & R). split; [apply Hup; assumption | exact R]. }
      assert (Hinit : Iv (bind_e1 w lvs eo) (bind_e1 w lvs' et)).
      { split; [|split; [|split]].
        - eapply R2_frame; eauto; intros x Hx; unfold bind_e1.
          + apply (lookup_bind_notin w t_e1). auto.
          + apply (lookup_bind_notin w t_e1). auto.
        - intros x Hx. unfold bind_e1. apply (lookup_bind_notin w t_e1); auto.
        - intros x Hx. unfold bind_e1. apply (lookup_bind_notin w t_e1); auto.
        - intros t Ht. destruct (is_elim t) eqn:He.
          + unfold eval at 1. unfold bind_e1. rewrite (lookup_bind w t_e1), (find_name_unique lvs t HndL Ht). apply eval_wrap.
          + unfold bind_e1. rewrite !(lookup_bind w t_e1), (find_name_unique lvs t HndL Ht), (HF t (HinK t Ht He)).
            unfold Fw. cbn [t_e1 fst snd]. rewrite (Hopt1 t Ht). apply (R2_expr w c S J eo et (t_e1 t) HR). exact (Hinit_in t Ht). }
      assert (Hstep : forall eh th t0, Iv eh th ->
         match exec_block_o ss eh t0 with
         | RNext e1' t1 => exists e2', exec_block_t body th t0 = RNext e2' t1 /\ Iv (bind_e2 w lvs e1') (bind_e2 w lvs' e2')
         | RBreak v _ t1 => exists e2', exec_block_t body th t0 = RBreak v e2' t1
         | _ => True
         end).
      { intros eh th t0 HIv. pose proof (HRel1 eh th HIv) as HRL. destruct HIv as (HRh & Hfro & Hfrt & Hlv).
        assert (HiL1 : incl' (LN ++ S0) (LN ++ S)) by inc2.
        assert (HiL2 : incl' (LN ++ S) (LN ++ D)) by inc2.
        assert (HiL3 : incl' J (LN ++ D)) by inc2.
        specialize (Hdb (LN ++ S) J eh th t0 HiL1 HiL2 HiL3 HRL).
        pose proof (frame_block Add w fuel ss eh t0) as Fo.
        destruct (exec_block_o ss eh t0) as [eo1 tr1|v eo1 tr1| | | | |]; cbn [dyn] in *; auto.
        destruct Hdb as (_ & et1 & S1 & J1 & Ex1 & HR1 & Lo1 & Up1 & LJ1 & UJ1). exists et1. split; [assumption|].
        pose proof (frame_block Add w fuel body th t0) as Ft. rewrite Ex1 in Ft. cbn in Fo, Ft.
        assert (Fo' : forall x, In x S -> lookup x (bind_e2 w lvs eo1) = lookup x eh).
        { intros x Hx. unfold bind_e2. rewrite (lookup_bind_notin w t_e2) by auto. apply Fo. auto. }
        assert (Ft' : forall x, In x (S ++ J) -> lookup x (bind_e2 w lvs' et1) = lookup x th).
        { intros x Hx. unfold bind_e2. rewrite (lookup_bind_notin w t_e2) by auto. apply Ft. intros Hb. apply Bb in Hb.
          apply in_app_or in Hx. destruct Hx; [eapply HSB | eapply HJB]; eauto. }
        split; [|split; [|split]].
        - eapply R2_frame; eauto.
        - intros x Hx. rewrite (Fo' x Hx). auto.
        - intros x Hx. rewrite (Ft' x Hx). auto.
        - intros t Ht. destruct (is_elim t) eqn:He.
          + unfold eval at 1. unfold bind_e2. rewrite (lookup_bind w t_e2), (find_name_unique lvs t HndL Ht), eval_wrap.
            unfold is_elim in He. rewrite <- (expr_eq_sound _ _ He w eo1).
            apply (eval_same_on w S (t_e1 t) eo eo1 (Hinit_in t Ht)). intros y Hy. rewrite (Fo y) by auto. apply Hfro. exact Hy.
          + unfold bind_e2. rewrite !(lookup_bind w t_e2), (find_name_unique lvs t HndL Ht), (HF t (HinK t Ht He)).
            unfold Fw. cbn [t_e2 snd]. apply (R2_expr w c_in S1 J1 eo1 et1 (t_e2 t) HR1).
            intros y Ey. apply Lo1. specialize (Hl2 t Ht). rewrite Ey in Hl2. apply in_scope_var in Hl2.
            rewrite !in_app_iff in *. destruct Hl2 as [Hy|[Hy|Hy]]; auto. }
      pose proof (loop_sim2 Iv _ _ _ _ Hstep fuel _ _ tr Hinit) as HL.
      pose proof (frame_stmt Add w fuel (SWhile lvs ss bc) eo tr) as FWo.
      pose proof (frame_stmt Add w fuel (SWhile lvs' body bc) et tr) as FWt.
      rewrite exec_SWhile. rewrite exec_SWhile in FWo, FWt.
      destruct (loop (exec_block_o ss) (bind_e2 w lvs) fuel (bind_e1 w lvs eo) tr) as [? ?|v eo1 tr1| | | | |] eqn:EL; auto.
      destruct HL as [et1 HLt]. rewrite HLt in FWt.
      exists (bind_opt bc v et1). split; [rewrite exec_SWhile, HLt; reflexivity|].
      rewrite binders_SWhile in FWo, FWt. rewrite ELK in FWt. unfold frame_res in FWo, FWt.
      apply R2_add_many.
      + apply (R2_ext w c c1 S J LN); [|exact X1 | intros x Hx Hl; apply in_app_or in Hx; destruct Hx; [eapply HSL | eapply HJL]; eauto].
        apply (R2_frame w c S J eo et _ _ HR); intros x Hx.
        * apply FWo. rewrite !in_app_iff. intros [Hb|[Hb|Hb]]; [eapply HSL | eapply HSB | eapply Djc]; eauto.
        * apply FWt. rewrite !in_app_iff. apply in_app_or in Hx.
          intros [Hb|[Hb|Hb]]; destruct Hx as [Hx|Hx];
            first [eapply HSL; eauto; fail | eapply HJL; eauto; fail | eapply HSB; eauto; fail | eapply HJB; eauto; fail | eapply Djc; eauto; fail].
      + intros x Hx. destruct bc as [bn|]; [|destruct Hx]. destruct Hx as [<-|[]]. cbn [bind_opt lookup].
        rewrite N.eqb_refl. split; [reflexivity|].
        assert (Hbn : ~ In bn (LN ++ D)).
        { rewrite in_app_iff. intros [Hl|Hd]; [eapply DLc; eauto; left; reflexivity | eapply Djc; eauto; left; reflexivity]. }
        split; [apply (cx_wf_notin_v c1 _ bn (cx_wf2_wf _ _ HwfL) Hbn) | apply (cx_wf_notin_b c1 _ bn (cx_wf2_wf _ _ HwfL) Hbn)].
  Qed.
  (* ---------------------------------------------------------------- While: both stages composed *)
  Definition efree (c : cx) (D : list name) : list name :=
    filter (fun x => match assoc x (cx_v c) with None => true | Some _ => false end) D.
  Lemma efree_In c D x : In x (efree c D) <-> In x D /\ assoc x (cx_v c) = None.
  Proof. unfold efree. rewrite filter_In. destruct (assoc x (cx_v c)); split; intros [A B]; split; auto; discriminate. Qed.

  Lemma tscope_efree c D S0 : cx_wf2 c D -> incl' S0 D -> tscope c S0 (efree c D).
  Proof.
    intros Hwf Hi. split; [|split].
    - intros x y Hx E. apply efree_In. split; [eapply (opt_expr_range c D S0 (EVar x)); eauto; [apply Hwf | now apply in_scope_var] | eapply opt_idem; eauto].
    - intros y Hy. apply efree_In in Hy. apply Hy.
    - intros z op y k Hz E. apply efree_In. destruct Hwf as ((_ & Wb) & _ & W3). split; [apply (Wb z op y k E) | apply (W3 z op y k E)].
  Qed.

  (* the dynamic counterpart: the names of S ++ J without an entry *)
  Lemma tscope_dyn c D S0 S J eo et : cx_wf2 c D -> incl' S0 S -> Rel2 w c S J eo et ->
    tscope c S0 (efree c (S ++ J)) /\ Rel2 w c (efree c (S ++ J)) [] et et.
  Proof.
    intros Hwf Hi (RV & RI & RB). pose proof Hwf as (_ & _ & W3). split; [split; [|split]|split; [|split]].
    - intros x y Hx E. apply efree_In. split; [eauto | eapply opt_idem; eauto].
    - intros y Hy. apply efree_In in Hy. apply Hy.
    - intros z op y k Hz E. apply efree_In in Hz. apply efree_In. destruct (RB z op y k (proj1 Hz) E) as (Hy & _).
      split; [exact Hy | apply (W3 z op y k E)].
    - intros x Hx. apply efree_In in Hx. cbn. now rewrite (proj2 Hx).
    - intros x y Hx. apply efree_In in Hx. cbn. rewrite (proj2 Hx). intros [= <-]. rewrite app_nil_r. apply efree_In. exact Hx.
    - intros z op y k Hz E. rewrite app_nil_r in *. apply efree_In in Hz. destruct (RB z op y k (proj1 Hz) E) as (Hy & R).
      split; [|exact R]. apply efree_In. split; [exact Hy | apply (W3 z op y k E)].
  Qed.

  Lemma R2_compose c1 c4 S Sv J J' ds eo' et' et2 bs2 :
    Rel2 w c1 (ds ++ S) J eo' et' -> Rel2 w c4 (ds ++ Sv) J' et' et2 ->
    ext_outside bs2 c1 c4 -> (forall x, In x (S ++ J) -> ~ In x bs2) ->
    (forall x, In x Sv <-> In x (S ++ J) /\ assoc x (cx_v c1) = None) ->
    (forall x, In x ds -> assoc x (cx_v c1) = None) ->
    (forall z op y k, assoc z (cx_b c1) = Some (op, y, k) -> assoc z (cx_v c1) = None) ->
    (forall x y, opt_expr (cx_v c1) (EVar x) = EVar y -> assoc y (cx_v c1) = None) ->
    (forall x y, In x S -> opt_expr (cx_v c1) (EVar x) = EVar y -> In y (S ++ J)) ->
    Rel2 w c4 (ds ++ S) (J ++ Sv ++ J') eo' et2.
  Proof.
    intros (AV & AI & AB) (BV & BI & BB) X Hout HSv Hds W3 Hid HRI.
    assert (Hsame : forall x, In x (S ++ J) -> opt_expr (cx_v c4) (EVar x) = opt_expr (cx_v c1) (EVar x)).
    { intros x Hx. cbn. destruct (X x (Hout x Hx)) as [-> _]. reflexivity. }
    assert (HSvid : forall y, In y Sv -> opt_expr (cx_v c4) (EVar y) = EVar y).
    { intros y Hy. apply HSv in Hy. rewrite (Hsame y (proj1 Hy)). cbn. now rewrite (proj2 Hy). }
    assert (Himg : forall x y, In x S -> opt_expr (cx_v c1) (EVar x) = EVar y -> In y Sv).
    { intros x y Hx E. apply HSv. split; [eapply HRI; eauto | eapply Hid; eauto]. }
    assert (HBup : forall x, In x ((ds ++ Sv) ++ J') -> In x ((ds ++ S) ++ J ++ Sv ++ J')) by inc.
    split; [|split].
    - intros x Hx. apply in_app_or in Hx. destruct Hx as [Hx|Hx].
      + rewrite (AV x (in_or_app _ _ _ (or_introl Hx))). cbn [opt_expr]. rewrite (Hds x Hx).
        apply BV. apply in_or_app. left. exact Hx.
      + rewrite (AV x (in_or_app _ _ _ (or_intror Hx))). rewrite (Hsame x (in_or_app _ _ _ (or_introl Hx))).
        destruct (opt_expr (cx_v c1) (EVar x)) as [| | |y] eqn:E; try reflexivity.
        pose proof (Himg x y Hx E) as Hy. rewrite (BV y (in_or_app _ _ _ (or_intror Hy))). now rewrite (HSvid y Hy).
    - intros x y Hx E. apply in_app_or in Hx. destruct Hx as [Hx|Hx].
      + apply HBup. apply (BI x y); [apply in_or_app; left; exact Hx | exact E].
      + rewrite (Hsame x (in_or_app _ _ _ (or_introl Hx))) in E. pose proof (Himg x y Hx E). rewrite !in_app_iff. auto.
    - intros z op y k Hz E.
      assert (Hcase : In z ((ds ++ Sv) ++ J') \/ (In z (S ++ J) /\ ~ In z Sv)).
      { rewrite !in_app_iff in *. destruct (in_dec N.eq_dec z Sv); tauto. }
      destruct Hcase as [Hz'|[Hz' Hn]].
      + destruct (BB z op y k Hz' E) as (Hy & R). split; [apply HBup; exact Hy | exact R].
      + exfalso. destruct (X z (Hout z Hz')) as [_ Eb]. rewrite Eb in E. apply Hn. apply HSv. split; [exact Hz' | eapply W3; eauto].
  Qed.
  Lemma tscope_compose cF c1 ds S0 T T2 :
    tscope cF (ds ++ T) T2 -> tscope c1 S0 T -> incl' T T2 ->
    (forall x, In x S0 -> opt_expr (cx_v cF) (EVar x) = opt_expr (cx_v c1) (EVar x)) ->
    tscope cF (ds ++ S0) T2.
  Proof.
    intros (H1 & H2 & H3) (G1 & _ & _) Hi Hs. split; [|split]; auto.
    intros x y Hx E. apply in_app_or in Hx. destruct Hx as [Hx|Hx].
    - apply (H1 x y); [apply in_or_app; left; exact Hx | exact E].
    - rewrite (Hs x Hx) in E. apply Hi. eauto.
  Qed.

  Definition minus (a b : list name) : list name := filter (fun x => negb (memb x b)) a.
  Lemma minus_In a b x : In x (minus a b) <-> In x a /\ ~ In x b.
  Proof.
    unfold minus. rewrite filter_In. split; intros [A B]; split; auto.
    - intros Hb. apply memb_In in Hb. rewrite Hb in B. discriminate.
    - destruct (memb x b) eqn:E; [|reflexivity]. apply memb_In in E. contradiction.
  Qed.

  Lemma elim_wf_tight lvs c K c1 f0 D S0 :
    elim_lvs g lvs c = Some (K, c1, f0) -> NoDup (map t_name lvs) ->
    cx_wf2 c D -> incl' S0 D -> (forall t, In t lvs -> in_scope S0 (t_e1 t) = true) ->
    (forall x, In x (map t_name lvs) -> ~ In x D) ->
    cx_wf2 c1 (minus (map t_name lvs ++ D) (map t_name K)).
  Proof.
    intros Ee HndL Hwf HS0 Hl1 DjL. set (LN := map t_name lvs) in *.
    assert (Hinitfresh : forall t y, In t lvs -> t_e1 t = EVar y -> ~ In y LN).
    { intros t y Ht Ey Hy. apply (DjL y Hy). apply HS0. apply in_scope_var. rewrite <- Ey. auto. }
    destruct (elim_spec2 lvs c K c1 f0 Ee HndL Hinitfresh) as (EK & Ebc & X1 & A1 & W1 & _ & _).
    pose proof (W1 D S0 Hwf HS0 Hl1 DjL) as HwfL. fold LN in HwfL. destruct HwfL as ((V & B) & I2 & I3).
    assert (HD : forall y, In y D -> In y (minus (LN ++ D) (map t_name K))).
    { intros y Hy. apply minus_In. split; [apply in_or_app; auto|]. intros Hk. apply in_map_iff in Hk.
      destruct Hk as [t [<- Ht]]. rewrite EK in Ht. apply filter_In in Ht. apply (DjL (t_name t)); [apply in_map; apply Ht | exact Hy]. }
    split; [split|split; assumption].
    - intros x e Ea. destruct (in_dec N.eq_dec x LN) as [Hl|Hn].
      + apply in_map_iff in Hl. destruct Hl as [t [<- Ht]]. pose proof (A1 t Ht) as A. destruct (is_elim t) eqn:He.
        * rewrite A in Ea. injection Ea as <-. split.
          -- apply minus_In. split; [apply in_or_app; left; now apply in_map|]. intros Hk. apply in_map_iff in Hk.
             destruct Hk as [t' [En Ht']]. rewrite EK in Ht'. apply filter_In in Ht'. destruct Ht' as [Ht' He'].
             assert (t' = t).
             { pose proof (find_name_unique lvs t HndL Ht) as F1. pose proof (find_name_unique lvs t' HndL Ht') as F2.
               rewrite En in F2. congruence. }
             subst t'. rewrite He in He'. discriminate.
          -- intros y Ey. apply HD. eapply (opt_expr_range c D S0 (t_e1 t)); eauto. apply Hwf.
        * rewrite A, (cx_wf_notin_v c D (t_name t) (cx_wf2_wf _ _ Hwf)) in Ea; [discriminate|]. apply DjL. now apply in_map.
      + destruct (X1 x Hn) as [Ev _]. rewrite Ev in Ea. destruct Hwf as ((Vc & _) & _). destruct (Vc x e Ea) as [Hx Hy].
        split; [apply HD; exact Hx | intros y Ey; apply HD; eauto].
    - intros z op y k E. rewrite Ebc in E. destruct Hwf as ((_ & Bc) & _). destruct (Bc z op y k E) as (Hz & Hy & Hk).
      split; [apply HD; exact Hz|]. split; [apply HD; exact Hy | exact Hk].
  Qed.
  Lemma P_SWhile n lvs ss bc c out c' brk f S0 :
    Qn n ->
    ccp_stmt g (S n) (SWhile lvs ss bc) c = Some (out, c', brk, f) -> fst f = false ->
    scoped S0 (SWhile lvs ss bc) = true ->
    good (binders (SWhile lvs ss bc)) (opt_names bc) (exec_o (SWhile lvs ss bc)) S0 c out c' brk.
  Proof.
    intros HQ H Hf Hsc. cbn [ccp_stmt] in H. fold (ccp_stmts g n) in H.
    destruct (elim_lvs g lvs c) as [[[K c1] f0]|] eqn:Ee; [|discriminate].
    destruct (ccp_stmts g n ss c1) as [[[[body c_in] bb] f1]|] eqn:Eb; [|discriminate].
    change (fun t : triple => (t_name t, opt_expr (cx_v c1) (t_e1 t), opt_expr (cx_v c_in) (t_e2 t))) with (Fw c1 c_in) in H.
    set (lvs' := map (Fw c1 c_in) K) in *.
    set (bs2 := map t_name lvs' ++ binders_l body ++ opt_names bc).
    (* what the two rewrites of the optimised loop provide, and what follows from it *)
    assert (Hcomp : fst f1 = false -> brk = false ->
      (forall D Tst, cx_wf2 c D -> incl' S0 D -> NoDup (binders (SWhile lvs ss bc)) -> disj (binders (SWhile lvs ss bc)) D ->
                     tscope c S0 Tst -> incl' Tst D ->
                     tgood bs2 (opt_names bc) (SWhile lvs' body bc) Tst c1 out c') ->
      good (binders (SWhile lvs ss bc)) (opt_names bc) (exec_o (SWhile lvs ss bc)) S0 c out c' brk).
    { intros Hf1 -> HT2 D Hwf HS0 Hnd Hdj.
      destruct (while_stage1 n lvs ss bc c K c1 f0 body c_in bb f1 S0 D HQ Ee Eb Hf1 Hsc Hwf HS0 Hnd Hdj)
        as (HwfL & X1 & Ebc & Bb & Nb & ELK & HLK & HndK & HstT & Hst1).
      fold lvs' in ELK, HstT, Hst1.
      specialize (fun Tst => HT2 D Tst Hwf HS0 Hnd Hdj).
      pose proof Hsc as Hsc'. rewrite scoped_SWhile in Hsc'. apply andb_prop in Hsc'. destruct Hsc' as [Hsc' _].
      apply andb_prop in Hsc'. destruct Hsc' as [Hl1 _]. rewrite forallb_forall in Hl1.
      rewrite binders_SWhile in *. set (LN := map t_name lvs) in *.
      assert (HndL : NoDup LN) by (eapply NoDup_app_l'; eauto).
      assert (DLB : forall x, In x LN -> In x (binders_l ss) -> False).
      { intros x H1 H2. eapply (NoDup_app_disj' _ _ x Hnd); eauto. rewrite in_app_iff. auto. }
      assert (DjL : forall x, In x LN -> ~ In x D) by (intros x Hx Hd; eapply Hdj; eauto; rewrite !in_app_iff; auto).
      assert (DjB : forall x, In x (binders_l ss) -> ~ In x D) by (intros x Hx Hd; eapply Hdj; eauto; rewrite !in_app_iff; auto).
      assert (Djc : forall x, In x (opt_names bc) -> ~ In x D) by (intros x Hx Hd; eapply Hdj; eauto; rewrite !in_app_iff; auto).
      assert (DLc : forall x, In x LN -> In x (opt_names bc) -> False).
      { intros x H1 H2. eapply (NoDup_app_disj' _ _ x Hnd); eauto. rewrite in_app_iff. auto. }
      assert (DBc : forall x, In x (binders_l ss) -> In x (opt_names bc) -> False).
      { intros x H1 H2. apply NoDup_app_r' in Hnd. eapply (NoDup_app_disj' _ _ x Hnd); eauto. }
      set (Dk := minus (LN ++ D) (map t_name K)).
      pose proof (elim_wf_tight lvs c K c1 f0 D S0 Ee HndL Hwf HS0 Hl1 DjL) as Wk. fold LN Dk in Wk.
      assert (HDk : incl' D Dk).
      { intros y Hy. apply minus_In. split; [apply in_or_app; auto|]. intros Hk. apply (DjL y); auto. }
      assert (Hnd2 : NoDup bs2).
      { unfold bs2. rewrite ELK. apply NoDup_app_intro; [exact HndK | |].
        - apply NoDup_app_intro; [exact Nb | eapply NoDup_app_r', NoDup_app_r'; eauto |].
          intros x H1 H2. eapply DBc; eauto.
        - intros x H1 H2. apply in_app_or in H2. destruct H2 as [H2|H2]; [eapply DLB | eapply DLc]; eauto. }
      assert (Hdj2 : disj bs2 Dk).
      { intros x Hx Hd. apply minus_In in Hd. destruct Hd as [Hd Hk]. unfold bs2 in Hx. rewrite ELK in Hx.
        apply in_app_or in Hx. destruct Hx as [Hx|Hx]; [contradiction|]. apply in_app_or in Hd. apply in_app_or in Hx.
        destruct Hx as [Hx|Hx]; destruct Hd as [Hd|Hd];
          first [eapply DLB; eauto; fail | eapply DjB; eauto; fail | eapply DLc; eauto; fail | eapply Djc; eauto; fail]. }
      assert (Hbs2 : incl' bs2 (LN ++ binders_l ss ++ opt_names bc)).
      { unfold bs2. rewrite ELK. intros x. rewrite !in_app_iff. intros [Hx|[Hx|Hx]]; auto. }
      assert (HDbs2 : forall x, In x D -> ~ In x bs2).
      { intros x Hx Hb. apply (Hdj2 x Hb). auto. }
      split.
      - assert (Hefd : incl' (efree c D) D) by (intros x Hx; apply efree_In in Hx; apply Hx).
        destruct (HT2 (efree c D) (tscope_efree c D S0 Hwf HS0) Hefd Dk Wk (incl'_trans _ _ _ Hefd HDk) Hnd2 Hdj2)
          as [(W4 & X4 & B4 & N4 & _) _].
        split; [|split; [|split; [|split]]].
        + eapply cx_wf2_mono; eauto. intros x Hx. apply in_app_or in Hx. destruct Hx as [Hx|Hx].
          * apply in_or_app. left. auto.
          * apply minus_In in Hx. destruct Hx as [Hx _]. rewrite !in_app_iff in *. tauto.
        + eapply ext_trans; [exact X1 | exact X4 | | exact Hbs2]. inc.
        + eapply incl'_trans; eauto.
        + assumption.
        + intros T HT HTD. destruct (HstT T HT HTD) as (HT1o & _).
          destruct (HT2 T HT HTD Dk Wk (incl'_trans _ _ _ HTD HDk) Hnd2 Hdj2) as [(_ & X4' & _ & _ & S5) _].
          destruct (S5 T) as [A1 A2].
          { apply tscope_self; [apply HT1o | apply HT1o]. }
          { eapply incl'_trans; eauto. }
          split; [exact A1|]. intros _. specialize (A2 eq_refl).
          apply (tscope_compose c' c1 (opt_names bc) S0 T _ A2 HT1o); [inc|].
          intros x Hx. cbn. destruct (X4' x (HDbs2 x (HS0 x Hx))) as [-> _]. reflexivity.
      - intros S J eo et tr Hi1 Hi2 HiJ HR. specialize (Hst1 S J eo et tr Hi1 Hi2 HiJ HR).
        destruct (exec_o (SWhile lvs ss bc) eo tr) as [eo' tr'|v0 e0 t0| | | | |] eqn:EW; cbn [dyn]; auto.
        2:{ exfalso. eapply while_never_break; eauto. }
        destruct Hst1 as (et' & EW1 & RA). split; [reflexivity|].
        destruct (tscope_dyn c D S0 S J eo et Hwf Hi1 HR) as [HTd HRd]. set (Sv := efree c (S ++ J)) in *.
        assert (HSvD : incl' Sv D).
        { intros x Hx. apply efree_In in Hx. destruct Hx as [Hx _]. apply in_app_or in Hx. destruct Hx; auto. }
        assert (HSJL : forall x, In x (S ++ J) -> ~ In x LN).
        { intros x Hx Hl. apply (DjL x Hl). apply in_app_or in Hx. destruct Hx; auto. }
        destruct (HT2 Sv HTd HSvD Dk Wk (incl'_trans _ _ _ HSvD HDk) Hnd2 Hdj2) as [(_ & X4 & _) Hd2].
        assert (HRd1 : Rel2 w c1 Sv [] et et).
        { apply (R2_ext w c c1 Sv [] LN et et HRd X1). intros x Hx. rewrite app_nil_r in Hx. apply efree_In in Hx. apply HSJL, Hx. }
        specialize (Hd2 et tr HRd1). rewrite EW1 in Hd2. cbn [dynT] in Hd2. destruct Hd2 as (et2 & J' & Ex2 & RB & HJ').
        exists et2, (opt_names bc ++ S), (J ++ Sv ++ J'). split; [exact Ex2|]. split.
        + pose proof HwfL as (_ & _ & W3).
          apply (R2_compose c1 c' S Sv J J' (opt_names bc) eo' et' et2 bs2 RA RB X4).
          * intros x Hx. apply HDbs2. apply in_app_or in Hx. destruct Hx; auto.
          * intros x. unfold Sv. rewrite efree_In. split; intros [A B]; split; auto.
            -- destruct (X1 x (HSJL x A)) as [-> _]. exact B.
            -- destruct (X1 x (HSJL x A)) as [<- _]. exact B.
          * intros x Hx. apply (cx_wf_notin_v c1 (LN ++ D) x (cx_wf2_wf _ _ HwfL)). rewrite in_app_iff.
            intros [Hl|Hd]; [eapply DLc | eapply Djc]; eauto.
          * intros z op y k E. apply (W3 z op y k E).
          * intros x y E. eapply opt_idem; eauto.
          * intros x y Hx E. destruct HR as (_ & RI & _). apply (RI x y Hx). cbn in *.
            destruct (X1 x (HSJL x (in_or_app _ _ _ (or_introl Hx)))) as [<- _]. exact E.
        + split; [apply incl'_refl|]. split; [inc|]. split; [inc|].
          intros x Hx. apply in_app_or in Hx. destruct Hx as [Hx|Hx]; [rewrite !in_app_iff; auto|].
          apply in_app_or in Hx. destruct Hx as [Hx|Hx].
          * apply efree_In in Hx. destruct Hx as [Hx _]. rewrite !in_app_iff in *. tauto.
          * apply HJ' in Hx. apply in_app_or in Hx. destruct Hx as [Hx|Hx].
            -- apply Hbs2 in Hx. rewrite !in_app_iff in *. tauto.
            -- apply efree_In in Hx. destruct Hx as [Hx _]. rewrite !in_app_iff in *. tauto. }
    destruct (match split_last body with
              | Some (rest, SBreak e) => if v_guard g && negb (no_break_l rest) then None else Some (rest, e)
              | _ => None end) as [[rest e]|] eqn:Eonce.
    - (* "the loop runs once" *)
      assert (Hbody : body = rest ++ [SBreak e] /\ no_break_l rest = true).
      { pose proof (split_last_spec body) as Hsl. destruct (split_last body) as [[r l]|]; [|discriminate].
        destruct l; try discriminate. rewrite Hg1 in Eonce. cbn [andb] in Eonce.
        destruct (no_break_l r) eqn:En; [|discriminate]. injection Eonce as <- <-. auto. }
      destruct Hbody as [Hbd Hnb].
      destruct (bind_inits lvs' c1) as [c2|] eqn:Hbi; [|discriminate].
      destruct (ccp_stmts g n rest c2) as [[[[o c3] b3] f2]|] eqn:Hccp; [|discriminate].
      assert (Hfl : fst f1 = false /\ fst f2 = false /\ brk = false /\ o = out /\
                    match bc with Some b => bind b (opt_expr (cx_v c3) e) c3 = Some c' | None => c' = c3 end).
      { destruct bc as [b|]; [destruct (bind b _ c3) as [c4|] eqn:Ebd; [|discriminate]|];
          injection H as <- <- <- <-; apply orf_false in Hf; destruct Hf as [Hf _];
          apply orf_false in Hf; destruct Hf as [_ Hf]; apply orf_false in Hf; destruct Hf as [A B]; auto. }
      destruct Hfl as (Hf1 & Hf2 & Hbrk & -> & Hbc).
      apply (Hcomp Hf1 Hbrk). intros D Tst Hwf HS0 Hnd Hdj HT HTD.
      destruct (while_stage1 n lvs ss bc c K c1 f0 _ c_in bb f1 S0 D HQ Ee Eb Hf1 Hsc Hwf HS0 Hnd Hdj)
        as (HwfL & X1 & Ebc & Bb & Nb & ELK & HLK & HndK & HstT & _).
      fold lvs' in ELK, HstT. destruct (HstT Tst HT HTD) as (HT1o & Hini & Hscb & _).
      apply good_tgood. unfold bs2. rewrite Hbd in *. rewrite binders_l_app. cbn [binders_l binders]. rewrite app_nil_r.
      apply (once_good n lvs' rest e bc c1 c2 out c3 b3 f2 c' Tst HQ Hnb Hini); auto.
      intros t y Ht Ey. apply in_map_iff in Ht. destruct Ht as [t0 [<- Ht0]]. cbn in Ey.
      eapply opt_expr_idem; eauto.
    - (* the loop is kept, or its first iterations are evaluated *)
      destruct (try_loop g (ccp_stmts g n) 5 lvs' body bc c1) as [[[[o c2] b2] f2]|] eqn:Et; [|discriminate].
      injection H as <- <- <- <-. apply orf_false in Hf. destruct Hf as [Hf Hfi].
      apply orf_false in Hf. destruct Hf as [Hf Hf2]. apply orf_false in Hf. destruct Hf as [_ Hf1].
      assert (Hdead : ends_break body = false \/ lvs' = []).
      { unfold dead_loop_values in Hfi. revert Hfi. destruct (ends_break body); [|auto]. destruct lvs'; [auto|]. intros Hx. discriminate Hx. }
      apply (Hcomp Hf1 (try_loop_brk _ _ _ _ _ _ _ _ _ _ Et)). intros D Tst Hwf HS0 Hnd Hdj HT HTD.
      destruct (while_stage1 n lvs ss bc c K c1 f0 _ c_in bb f1 S0 D HQ Ee Eb Hf1 Hsc Hwf HS0 Hnd Hdj)
        as (HwfL & X1 & Ebc & Bb & Nb & ELK & HLK & HndK & HstT & _).
      fold lvs' in ELK, HstT. destruct (HstT Tst HT HTD) as (HT1o & Hini & Hscb & Hlv).
      apply (tl_tgood n bc c1 Tst body HQ (proj1 (proj2 HT1o)) (proj2 (proj2 HT1o)) 5 lvs' o c2 b2 f2 Et Hf2).
      rewrite scoped_SWhile, Hscb, andb_true_r. apply andb_true_intro. split.
      + rewrite forallb_forall. exact Hini.
      + destruct Hdead as [Hd| ->]; [rewrite forallb_forall; exact (Hlv Hd) | reflexivity].
  Qed.
  (* ---------------------------------------------------------------- all statements *)
  Lemma P_step n : Qn n -> Pn (S n).
  Proof.
    intros HQ st c out c' brk f S0 H Hf Hsc. destruct st as [x op e1 e2|x e|x p e|fn args ret|cnd s1 s2 fas|cnd inv ss|e|lvs ss bc|x tn es|x|x e].
    - exact (P_SBin n x op e1 e2 c out c' brk f S0 H Hsc).
    - exact (P_SNot n x e c out c' brk f S0 H Hsc).
    - exact (P_SPrim n x p e c out c' brk f S0 H Hsc).
    - exact (P_SCall n fn args ret c out c' brk f S0 H Hsc).
    - cbn [ccp_stmt] in H. fold (ccp_stmts g n) in H. cbn [defs].
      destruct (lit (opt_expr (cx_v c) cnd)) as [v|] eqn:L.
      + eapply P_SIf_const; eauto.
      + assert (GEN :
          match ccp_stmts g n s1 c with
          | None => None
          | Some (o1, c1, _, f1) =>
              match ccp_stmts g n s2 c with
              | None => None
              | Some (o2, c2, _, f2) =>
                  match merge_fas fas (map (fun t => opt_expr (cx_v c1) (t_e1 t)) fas)
                                  (map (fun t => opt_expr (cx_v c2) (t_e2 t)) fas) c with
                  | None => None
                  | Some (fas', c'0) =>
                      Some (if is_nil o1 && is_nil o2 && is_nil fas' then []
                            else [SIf (opt_expr (cx_v c) cnd) o1 o2 fas'], c'0, false,
                            orf (orf f1 f2) (if (ends_break o1 || ends_break o2) && negb (is_nil fas) then fl_unproved else fl0))
                  end
              end
          end = Some (out, c', brk, f) ->
          good (binders (SIf cnd s1 s2 fas)) (map t_name fas) (exec_o (SIf cnd s1 s2 fas)) S0 c out c' brk).
        { intros HG. destruct (ccp_stmts g n s1 c) as [[[[o1 c1] b1] f1]|] eqn:E1; [|discriminate].
          destruct (ccp_stmts g n s2 c) as [[[[o2 c2] b2] f2]|] eqn:E2; [|discriminate].
          destruct (merge_fas fas _ _ c) as [[fas' c0]|] eqn:Hm; [|discriminate].
          injection HG as <- <- <- <-. apply orf_false in Hf. destruct Hf as [Hf Hfd].
          apply orf_false in Hf. destruct Hf as [Hf1 Hf2].
          eapply P_SIf_generic; eauto.
          destruct ((ends_break o1 || ends_break o2) && negb (is_nil fas)); [discriminate Hfd | reflexivity]. }
        destruct s1 as [|a1 r1]; [|apply GEN; exact H].
        destruct s2 as [|a2 r2]; [|apply GEN; exact H].
        destruct fas as [|t [|t2 r]]; [apply GEN; exact H| |apply GEN; exact H].
        destruct (SIf_scoped_parts _ _ _ _ _ Hsc) as (Hc & _).
        destruct (is_lit (t_e1 t) 1 && is_lit (t_e2 t) 0) eqn:L10.
        * destruct (bind (t_name t) _ c) as [cb|] eqn:B; [|discriminate]. injection H as <- <- <- <-.
          exact (P_SIf_10 cnd t c cb S0 L10 B Hc).
        * destruct (is_lit (t_e1 t) 0 && is_lit (t_e2 t) 1) eqn:L01.
          -- injection H as <- <- <- <-. exact (P_SIf_01 cnd t c S0 L01 Hc).
          -- apply GEN; exact H.
    - exact (P_SSIf n cnd inv ss c out c' brk f S0 HQ H Hf Hsc).
    - exact (P_SBreak n e c out c' brk f S0 H Hsc).
    - exact (P_SWhile n lvs ss bc c out c' brk f S0 HQ H Hf Hsc).
    - exact (P_SStruct n x tn es c out c' brk f S0 H Hsc).
    - discriminate Hsc.
    - discriminate Hsc.
  Qed.

  Theorem ccp_all n : Pn n /\ Qn n.
  Proof.
    induction n as [|n [IHP IHQ]].
    - assert (P0 : Pn 0) by (intros st c out c' brk f S0 H; discriminate). split; [exact P0 | apply Q_of_P; exact P0].
    - pose proof (P_step n IHQ) as HP. split; [exact HP | apply Q_of_P; exact HP].
  Qed.
End Full.

(* the pass as it is now (ccp = ccp_gen ver_now): every run of a well-formed function that does not overflow in
   + and - is reproduced by the output, which does not overflow there either; the output is again well scoped
   with pairwise distinct binders, so the next round can rely on the same theorem.  `fst fl = false` excludes
   only the two situations in which the pass leaves a dangling operand in dead code (see Passes.fl). *)
Theorem ccp_nf_preserves_add w f f' fl :
  wf_func f = true -> ccp_nf f = Some (f', fl) -> fst fl = false -> refines_add w f' f.
Proof.
  unfold wf_func, ccp_nf, ccp_gen. intros Hwf H Hfl. apply andb_prop in Hwf. destruct Hwf as [Hwf Hret].
  apply andb_prop in Hwf. destruct Hwf as [Hnd Hsc]. apply nodupb_NoDup in Hnd.
  destruct (ccp_stmts ver_nf ccp_fuel (f_body f) cx0) as [[[[out c] b] f1]|] eqn:E; [|discriminate].
  injection H as <- <-.
  intros args fuel v tr Hsem.
  destruct (ccp_all w fuel ver_nf eq_refl eq_refl eq_refl ccp_fuel) as [_ HQ].
  specialize (HQ (f_body f) cx0 out c b f1 (f_params f) E Hfl Hsc (f_params f) (cx_wf2_init _) (incl'_refl _)).
  destruct HQ as [_ Hd].
  - eapply NoDup_app_r'; eauto.
  - intros x Hb Hp. eapply (NoDup_app_disj' _ _ x Hnd); eauto.
  - specialize (Hd (f_params f) [] (init_env f args) (init_env f args) [] (incl'_refl _) (incl'_refl _) (fun x (H : In x []) => match H with end) (R2_init _ _ _)).
    unfold sem in *. cbn [f_body f_params f_ret].
    change (init_env {| f_params := f_params f; f_body := out; f_ret := opt_expr (cx_v c) (f_ret f) |} args)
      with (init_env f args).
    destruct (exec_block Add w fuel (f_body f) (init_env f args) []) as [eo' tr'| | | | | |]; try discriminate.
    injection Hsem as <- <-. cbn [dyn] in Hd. destruct Hd as (_ & et' & S' & J' & Ex & HR & Lo & _).
    rewrite Ex. f_equal. symmetry. apply (R2_expr w c S' J' eo' et' (f_ret f) HR).
    intros x Ex'. apply Lo. apply in_scope_var. rewrite <- Ex'. exact Hret.
Qed.

Corollary ccp_nf_preserves w f f' fl :
  wf_func f = true -> ccp_nf f = Some (f', fl) -> fst fl = false -> refines w f' f.
Proof. intros H1 H2 H3. apply refines_add_refines. exact (ccp_nf_preserves_add w f f' fl H1 H2 H3). Qed.

(* the pass itself: the same whenever forwarding of struct fields does not change its result on f *)
Lemma nf_eq f r : no_struct_forwarding f -> ccp f = r -> ccp_nf f = r.
Proof. unfold no_struct_forwarding. intros -> H. exact H. Qed.
Theorem ccp_preserves_add w f f' fl :
  wf_func f = true -> no_struct_forwarding f -> ccp f = Some (f', fl) -> fst fl = false -> refines_add w f' f.
Proof. intros H1 Hn H2 H3. exact (ccp_nf_preserves_add w f f' fl H1 (nf_eq f _ Hn H2) H3). Qed.
Theorem ccp_preserves w f f' fl :
  wf_func f = true -> no_struct_forwarding f -> ccp f = Some (f', fl) -> fst fl = false -> refines w f' f.
Proof. intros H1 Hn H2 H3. exact (ccp_nf_preserves w f f' fl H1 (nf_eq f _ Hn H2) H3). Qed.

(* the same with the exclusion as a named decidable hypothesis on f (Passes.dead_final_operands) *)
Lemma no_dead_flag f f' fl : no_dead_final_operands f -> ccp f = Some (f', fl) -> fst fl = false.
Proof. unfold no_dead_final_operands, dead_final_operands. intros H E. rewrite E in H. exact H. Qed.
Theorem ccp_preserves_add_named w f f' fl :
  wf_func f = true -> no_dead_final_operands f -> no_struct_forwarding f -> ccp f = Some (f', fl) -> refines_add w f' f.
Proof. intros H1 H2 Hn H3. exact (ccp_preserves_add w f f' fl H1 Hn H3 (no_dead_flag f f' fl H2 H3)). Qed.
Theorem ccp_preserves_named w f f' fl :
  wf_func f = true -> no_dead_final_operands f -> no_struct_forwarding f -> ccp f = Some (f', fl) -> refines w f' f.
Proof. intros H1 H2 Hn H3. exact (ccp_preserves w f f' fl H1 Hn H3 (no_dead_flag f f' fl H2 H3)). Qed.

Lemma NoDup_nodupb l : NoDup l -> nodupb l = true.
Proof.
  induction 1 as [|x l Hn Hnd IH]; cbn; [reflexivity|]. rewrite IH, andb_true_r. apply negb_true_iff.
  destruct (memb x l) eqn:E; [|reflexivity]. apply memb_In in E. contradiction.
Qed.

(* the output of the pass is well formed again (a function body has no Break outside of a loop) *)
Theorem ccp_nf_wf f f' fl :
  wf_func f = true -> no_break_l (f_body f) = true -> ccp_nf f = Some (f', fl) -> fst fl = false -> wf_func f' = true.
Proof.
  unfold wf_func at 1, ccp_nf, ccp_gen. intros Hwf Hnb H Hfl. apply andb_prop in Hwf. destruct Hwf as [Hwf Hret].
  apply andb_prop in Hwf. destruct Hwf as [Hnd Hsc]. apply nodupb_NoDup in Hnd.
  destruct (ccp_stmts ver_nf ccp_fuel (f_body f) cx0) as [[[[out c] b] f1]|] eqn:E; [|discriminate].
  injection H as <- <-.
  destruct (ccp_all (mkworld (fun _ _ _ => None) (fun _ => 0%Z) (fun _ => 0%Z) (fun _ v => v) (fun _ _ => 0%Z)) 0 ver_nf eq_refl eq_refl eq_refl ccp_fuel) as [_ HQ].
  specialize (HQ (f_body f) cx0 out c b f1 (f_params f) E Hfl Hsc (f_params f) (cx_wf2_init _) (incl'_refl _)).
  destruct HQ as [(W & X & B & N & S5) _].
  - eapply NoDup_app_r'; eauto.
  - intros x Hb Hp. eapply (NoDup_app_disj' _ _ x Hnd); eauto.
  - assert (HT0 : tscope cx0 (f_params f) (f_params f)).
    { apply tscope_self; intros; [reflexivity | discriminate]. }
    destruct (S5 (f_params f) HT0 (incl'_refl _)) as [A1 A2].
    unfold wf_func. cbn [f_params f_body f_ret]. rewrite A1, andb_true_r. apply andb_true_intro. split.
    + apply NoDup_nodupb. apply NoDup_app_intro; [eapply NoDup_app_l'; eauto | exact N |].
      intros x Hp Hb. apply B in Hb. eapply (NoDup_app_disj' _ _ x Hnd); eauto.
    + assert (b = false) as -> by (eapply (ccps_nobreak ver_nf); eauto).
      specialize (A2 eq_refl). eapply tscope_expr; eauto.
Qed.
(* the pass makes no new names *)
Lemma ccp_nf_binders f f' fl : wf_func f = true -> ccp_nf f = Some (f', fl) -> fst fl = false ->
  f_params f' = f_params f /\ incl' (binders_l (f_body f')) (binders_l (f_body f)).
Proof.
  unfold wf_func, ccp_nf, ccp_gen. intros Hwf H Hfl. apply andb_prop in Hwf. destruct Hwf as [Hwf Hret].
  apply andb_prop in Hwf. destruct Hwf as [Hnd Hsc]. apply nodupb_NoDup in Hnd.
  destruct (ccp_stmts ver_nf ccp_fuel (f_body f) cx0) as [[[[out c] b] f1]|] eqn:E; [|discriminate].
  injection H as <- <-. split; [reflexivity|]. cbn [f_body].
  destruct (ccp_all (mkworld (fun _ _ _ => None) (fun _ => 0%Z) (fun _ => 0%Z) (fun _ v => v) (fun _ _ => 0%Z)) 0 ver_nf eq_refl eq_refl eq_refl ccp_fuel) as [_ HQ].
  specialize (HQ (f_body f) cx0 out c b f1 (f_params f) E Hfl Hsc (f_params f) (cx_wf2_init _) (incl'_refl _)).
  destruct HQ as [(_ & _ & B & _) _]; [eapply NoDup_app_r'; eauto | | exact B].
  intros x Hb Hp. eapply (NoDup_app_disj' _ _ x Hnd); eauto.
Qed.

Theorem ccp_wf f f' fl :
  wf_func f = true -> no_break_l (f_body f) = true -> no_struct_forwarding f -> ccp f = Some (f', fl) -> fst fl = false ->
  wf_func f' = true.
Proof. intros H1 H2 Hn H3 H4. exact (ccp_nf_wf f f' fl H1 H2 (nf_eq f _ Hn H3) H4). Qed.
Theorem ccp_wf_named f f' fl :
  wf_func f = true -> no_break_l (f_body f) = true -> no_dead_final_operands f -> no_struct_forwarding f ->
  ccp f = Some (f', fl) -> wf_func f' = true.
Proof. intros H1 H2 H3 Hn H4. exact (ccp_wf f f' fl H1 H2 Hn H4 (no_dead_flag f f' fl H3 H4)). Qed.
