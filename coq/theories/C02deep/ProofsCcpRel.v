(* C02deep — the simulation relation of the CCP proof and its basic closure properties. *)
From Coq Require Import ZArith NArith List Bool Lia.
Import ListNotations.
From SV Require Import Common.Int32 C02.Kernels C02deep.Syntax C02deep.Sem C02deep.Passes
  C02deep.ProofsSem C02deep.ProofsCcpArith.
Open Scope Z_scope.

Definition incl' (a b : list name) : Prop := forall x, In x a -> In x b.
Definition disj (a b : list name) : Prop := forall x, In x a -> In x b -> False.

(* static well-formedness of a context with respect to the set D of names bound so far *)
Definition cx_wf (c : cx) (D : list name) : Prop :=
  (forall x e, assoc x (cx_v c) = Some e -> In x D /\ forall y, e = EVar y -> In y D) /\
  (forall z op y k, assoc z (cx_b c) = Some (op, y, k) -> In z D /\ In y D /\ in32 k).

(* c' agrees with c on every name outside bs *)
Definition ext_outside (bs : list name) (c c' : cx) : Prop :=
  forall x, ~ In x bs -> assoc x (cx_v c') = assoc x (cx_v c) /\ assoc x (cx_b c') = assoc x (cx_b c).

Lemma ext_refl bs c : ext_outside bs c c.
Proof. intros x _. auto. Qed.
Lemma ext_trans bs1 bs2 bs c1 c2 c3 :
  ext_outside bs1 c1 c2 -> ext_outside bs2 c2 c3 -> incl' bs1 bs -> incl' bs2 bs -> ext_outside bs c1 c3.
Proof.
  intros H1 H2 I1 I2 x Hx. destruct (H1 x) as [A1 B1]; [intros H; apply Hx; auto|].
  destruct (H2 x) as [A2 B2]; [intros H; apply Hx; auto|]. split; congruence.
Qed.

Lemma cx_wf_mono c D D' : cx_wf c D -> incl' D D' -> cx_wf c D'.
Proof.
  intros [H1 H2] Hi. split.
  - intros x e E. destruct (H1 x e E) as [A B]. split; auto.
  - intros z op y k E. destruct (H2 z op y k E) as (A & B & C). auto.
Qed.

Section Rel.
  Variable w : world.

  (* the simulation relation between the environment of the original run (strict) and of the optimised run *)
  Definition Rel (c : cx) (S : list name) (eo et : env) : Prop :=
    (forall x, In x S -> eval w eo (EVar x) = eval w et (opt_expr (cx_v c) (EVar x))) /\
    (forall x y, In x S -> opt_expr (cx_v c) (EVar x) = EVar y -> In y S) /\
    (forall z op y k, In z S -> assoc z (cx_b c) = Some (op, y, k) ->
       In y S /\ chk Add op && ovf op (eval w et (EVar y)) k = false /\
       exists v, rt_binop op (eval w et (EVar y)) k = Val v /\ eval w et (EVar z) = wrap32 v).

  Lemma eval_var_lookup en en' x : lookup x en' = lookup x en -> eval w en' (EVar x) = eval w en (EVar x).
  Proof. unfold eval. now intros ->. Qed.

  Lemma opt_expr_nonvar v e : (forall x, e <> EVar x) -> opt_expr v e = e.
  Proof. destruct e; auto. intros H. exfalso. eapply H; eauto. Qed.

  Lemma eval_nonvar en en' e : (forall x, e <> EVar x) -> eval w en e = eval w en' e.
  Proof. destruct e; auto. intros H. exfalso. eapply H; eauto. Qed.

  (* an in-scope operand has the same value on both sides after substitution *)
  Lemma Rel_expr c S eo et e :
    Rel c S eo et -> (forall x, e = EVar x -> In x S) -> eval w eo e = eval w et (opt_expr (cx_v c) e).
  Proof.
    intros (RV & _ & _) H. destruct e; try reflexivity. apply RV. auto.
  Qed.
  (* ... and its variable, if any, is in scope *)
  Lemma Rel_expr_scope c S eo et e y :
    Rel c S eo et -> (forall x, e = EVar x -> In x S) -> opt_expr (cx_v c) e = EVar y -> In y S.
  Proof.
    intros (_ & RI & _) H E. destruct e; try discriminate. eapply RI; eauto.
  Qed.

  Lemma Rel_frame c S eo et eo' et' :
    Rel c S eo et ->
    (forall x, In x S -> lookup x eo' = lookup x eo) ->
    (forall x, In x S -> lookup x et' = lookup x et) ->
    Rel c S eo' et'.
  Proof.
    intros (RV & RI & RB) Ho Ht. split; [|split].
    - intros x Hx. rewrite (eval_var_lookup eo eo' x) by auto. rewrite RV by assumption.
      destruct (opt_expr (cx_v c) (EVar x)) eqn:E; try reflexivity.
      symmetry. apply eval_var_lookup. apply Ht. eapply RI; eauto.
    - exact RI.
    - intros z op y k Hz E. destruct (RB z op y k Hz E) as (Hy & Ho' & v & Hv & Hzv).
      rewrite (eval_var_lookup et et' y) by auto. rewrite (eval_var_lookup et et' z) by auto. eauto 6.
  Qed.

  Lemma Rel_ext c c' S bs eo et :
    Rel c S eo et -> ext_outside bs c c' -> disj S bs -> Rel c' S eo et.
  Proof.
    intros (RV & RI & RB) He Hd.
    assert (Ho : forall x, In x S -> opt_expr (cx_v c') (EVar x) = opt_expr (cx_v c) (EVar x)).
    { intros x Hx. cbn. destruct (He x) as [-> _]; [intros H; eapply Hd; eauto | reflexivity]. }
    split; [|split].
    - intros x Hx. rewrite Ho by assumption. auto.
    - intros x y Hx. rewrite Ho by assumption. eauto.
    - intros z op y k Hz E. destruct (He z) as [_ Eb]; [intros H; eapply Hd; eauto|]. rewrite Eb in E. eauto.
  Qed.

  Lemma Rel_sub c S S' eo et :
    Rel c S eo et -> incl' S' S ->
    (forall x y, In x S' -> opt_expr (cx_v c) (EVar x) = EVar y -> In y S') ->
    (forall z op y k, In z S' -> assoc z (cx_b c) = Some (op, y, k) -> In y S') ->
    Rel c S' eo et.
  Proof.
    intros (RV & RI & RB) Hi H1 H2. split; [|split]; auto.
    intros z op y k Hz E. destruct (RB z op y k (Hi _ Hz) E) as (_ & R). split; eauto.
  Qed.

  (* the original run assigns x, the optimised run does not: x is bound to e in the context *)
  Lemma Rel_bind c c' S eo et x e v :
    Rel c S eo et -> bind x e c = Some c' -> ~ In x S -> assoc x (cx_b c) = None ->
    wrap32 v = eval w et e -> (forall y, e = EVar y -> In y S) ->
    Rel c' (x :: S) ((x, v) :: eo) et.
  Proof.
    intros (RV & RI & RB) Hb Hx Hxb Hv He. unfold bind in Hb.
    destruct (assoc x (cx_v c)) eqn:Ex; [discriminate|]. injection Hb as <-. cbn [cx_v cx_b].
    assert (Ho : forall y, y <> x -> opt_expr ((x, e) :: cx_v c) (EVar y) = opt_expr (cx_v c) (EVar y)).
    { intros y Hy. cbn. destruct (N.eqb_spec y x); [contradiction | reflexivity]. }
    assert (Hox : opt_expr ((x, e) :: cx_v c) (EVar x) = e) by (cbn; now rewrite N.eqb_refl).
    unfold Rel. cbn [cx_v cx_b]. split; [|split].
    - intros y [<-|Hy].
      + rewrite Hox. unfold eval at 1. cbn. now rewrite N.eqb_refl.
      + assert (y <> x) by (intros ->; contradiction). rewrite Ho by assumption.
        rewrite <- RV by assumption. unfold eval. cbn. destruct (N.eqb_spec y x); [contradiction | reflexivity].
    - intros y z [<-|Hy].
      + rewrite Hox. intros ->. right. auto.
      + assert (y <> x) by (intros ->; contradiction). rewrite Ho by assumption. intros E. right. eauto.
    - intros z op y k [<-|Hz] E; [congruence|]. destruct (RB z op y k Hz E) as (Hy & R). split; [right; assumption | exact R].
  Qed.

  (* both runs assign x the same value (the statement is kept) *)
  Lemma Rel_def c S eo et x v :
    Rel c S eo et -> ~ In x S -> assoc x (cx_v c) = None -> assoc x (cx_b c) = None ->
    Rel c (x :: S) ((x, v) :: eo) ((x, v) :: et).
  Proof.
    intros (RV & RI & RB) Hx Hxv Hxb.
    assert (Hl : forall en y, y <> x -> eval w ((x, v) :: en) (EVar y) = eval w en (EVar y)).
    { intros en y Hy. unfold eval. cbn. destruct (N.eqb_spec y x); [contradiction | reflexivity]. }
    split; [|split].
    - intros y [<-|Hy].
      + cbn [opt_expr]. rewrite Hxv. unfold eval. cbn. now rewrite N.eqb_refl.
      + assert (y <> x) by (intros ->; contradiction). rewrite Hl by assumption. rewrite RV by assumption.
        destruct (opt_expr (cx_v c) (EVar y)) eqn:E; try reflexivity.
        symmetry. apply Hl. intros ->. apply Hx. eapply RI; eauto.
    - intros y z [<-|Hy].
      + cbn [opt_expr]. rewrite Hxv. intros [= <-]. left. reflexivity.
      + intros E. right. eauto.
    - intros z op y k [<-|Hz] E; [congruence|]. destruct (RB z op y k Hz E) as (Hy & Ho & u & Hu & Hz').
      assert (y <> x) by (intros ->; contradiction). assert (z <> x) by (intros ->; contradiction).
      rewrite !Hl by assumption. split; [right; assumption|]. eauto.
  Qed.

  (* recording x = y op k for a kept statement *)
  Lemma Rel_bind_b c S eo et x op y k u :
    Rel c S eo et -> In x S -> In y S -> assoc x (cx_b c) = None ->
    chk Add op && ovf op (eval w et (EVar y)) k = false -> rt_binop op (eval w et (EVar y)) k = Val u ->
    eval w et (EVar x) = wrap32 u ->
    Rel (bind_b x (op, y, k) c) S eo et.
  Proof.
    intros (RV & RI & RB) Hx Hy Hxb Ho Hu Hxu. split; [|split]; auto.
    intros z op' y' k' Hz. cbn. destruct (N.eqb_spec z x) as [->|Hn].
    - intros [= <- <- <-]. eauto 6.
    - eauto.
  Qed.

  Lemma Rel_add_many c S L eo et :
    Rel c S eo et ->
    (forall x, In x L -> lookup x eo = lookup x et /\ assoc x (cx_v c) = None /\ assoc x (cx_b c) = None) ->
    Rel c (L ++ S) eo et.
  Proof.
    intros (RV & RI & RB) HL. split; [|split].
    - intros x Hx. destruct (in_dec N.eq_dec x L) as [Hl|Hn].
      + destruct (HL x Hl) as (E & Ev & _). cbn [opt_expr]. rewrite Ev. unfold eval. now rewrite E.
      + rewrite in_app_iff in Hx. destruct Hx; [contradiction | auto].
    - intros x y Hx. destruct (in_dec N.eq_dec x L) as [Hl|Hn].
      + destruct (HL x Hl) as (_ & Ev & _). cbn [opt_expr]. rewrite Ev. intros [= <-]. apply in_or_app; auto.
      + rewrite in_app_iff in Hx. destruct Hx as [Hx|Hx]; [contradiction|]. intros E. apply in_or_app. right. eauto.
    - intros z op y k Hz E. destruct (in_dec N.eq_dec z L) as [Hl|Hn].
      + destruct (HL z Hl) as (_ & _ & Eb). congruence.
      + rewrite in_app_iff in Hz. destruct Hz as [Hz|Hz]; [contradiction|].
        destruct (RB z op y k Hz E) as (Hy & R). split; [apply in_or_app; right; assumption | exact R].
  Qed.

End Rel.

Lemma Rel_init w S en : Rel w cx0 S en en.
Proof.
  split; [|split].
  - intros x _. reflexivity.
  - intros x y Hx [= <-]. exact Hx.
  - intros z op y k _ E. discriminate.
Qed.
Lemma cx_wf_init D : cx_wf cx0 D.
Proof. split; intros; discriminate. Qed.


(* ---- static facts about bind ---- *)
Lemma bind_inv x e c c' : bind x e c = Some c' ->
  assoc x (cx_v c) = None /\ cx_v c' = (x, e) :: cx_v c /\ cx_b c' = cx_b c.
Proof. unfold bind. destruct (assoc x (cx_v c)); [discriminate|]. intros [= <-]. auto. Qed.

Lemma bind_wf x e c c' D :
  bind x e c = Some c' -> cx_wf c D -> (forall y, e = EVar y -> In y D) -> cx_wf c' (x :: D).
Proof.
  intros Hb [W1 W2] He. destruct (bind_inv _ _ _ _ Hb) as (_ & Ev & Eb). split.
  - intros y e'. rewrite Ev. cbn. destruct (N.eqb_spec y x) as [->|Hn].
    + intros [= <-]. split; [left; reflexivity|]. intros z Ez. right. auto.
    + intros E. destruct (W1 y e' E) as [A B]. split; [right; assumption|]. intros z Ez. right. auto.
  - intros z op y k. rewrite Eb. intros E. destruct (W2 z op y k E) as (A & B & C). split; [right|split; [right|]]; auto.
Qed.
Lemma bind_ext x e c c' : bind x e c = Some c' -> ext_outside [x] c c'.
Proof.
  intros Hb. destruct (bind_inv _ _ _ _ Hb) as (_ & Ev & Eb). intros y Hy. rewrite Ev, Eb. cbn.
  destruct (N.eqb_spec y x) as [->|]; [exfalso; apply Hy; left; reflexivity | auto].
Qed.

Lemma bind_b_wf x op y k c D : cx_wf c D -> In y D -> in32 k -> cx_wf (bind_b x (op, y, k) c) (x :: D).
Proof.
  intros [W1 W2] Hy Hk. split.
  - intros z e E. cbn in E. destruct (W1 z e E) as [A B]. split; [right; assumption|]. intros u Eu. right. auto.
  - intros z op' y' k'. cbn. destruct (N.eqb_spec z x) as [->|Hn].
    + intros [= <- <- <-]. split; [left; reflexivity|]. split; [right|]; auto.
    + intros E. destruct (W2 z op' y' k' E) as (A & B & C). split; [right|split; [right|]]; auto.
Qed.
Lemma bind_b_ext x b c : ext_outside [x] c (bind_b x b c).
Proof.
  intros y Hy. cbn. destruct (N.eqb_spec y x) as [->|]; [exfalso; apply Hy; left; reflexivity | auto].
Qed.

Lemma cx_wf_notin_v c D x : cx_wf c D -> ~ In x D -> assoc x (cx_v c) = None.
Proof. intros [W1 _] Hx. destruct (assoc x (cx_v c)) eqn:E; auto. exfalso. apply Hx. destruct (W1 x e E); auto. Qed.
Lemma cx_wf_notin_b c D x : cx_wf c D -> ~ In x D -> assoc x (cx_b c) = None.
Proof.
  intros [_ W2] Hx. destruct (assoc x (cx_b c)) as [[[op y] k]|] eqn:E; auto. exfalso. apply Hx. destruct (W2 x op y k E); auto.
Qed.

(* an optimised in-scope operand only mentions names of D *)
Lemma opt_expr_range c D S0 e y :
  cx_wf c D -> incl' S0 D -> in_scope S0 e = true -> opt_expr (cx_v c) e = EVar y -> In y D.
Proof.
  intros [W1 _] Hi Hs E. destruct e; try discriminate. cbn in E. apply memb_In in Hs.
  destruct (assoc x (cx_v c)) eqn:Ea.
  - subst. destruct (W1 x (EVar y) Ea) as [_ B]. auto.
  - injection E as <-. auto.
Qed.
