(* C02deep — the simulation relation of the full CCP proof.
   Rel2 c S J eo et: S = names of the original run in scope (their values are given by the context c in the
   optimised run), J = further names of the optimised run that context entries may mention (they arise when
   a loop is replaced by its first iteration: the statements of the loop body are then in the enclosing
   scope of the optimised function only).  cx_wf2 adds to cx_wf that the context is idempotent: a name that
   occurs on the right of an entry has no entry itself. *)
From Coq Require Import ZArith NArith List Bool Lia.
Import ListNotations.
From SV Require Import Common.Int32 C02.Kernels C02deep.Syntax C02deep.Sem C02deep.Passes
  C02deep.ProofsSem C02deep.ProofsCcpArith C02deep.ProofsCcpRel.
Open Scope Z_scope.

Definition cx_wf2 (c : cx) (D : list name) : Prop :=
  cx_wf c D /\
  (forall x e y, assoc x (cx_v c) = Some e -> e = EVar y -> assoc y (cx_v c) = None) /\
  (forall z op y k, assoc z (cx_b c) = Some (op, y, k) -> assoc y (cx_v c) = None /\ assoc z (cx_v c) = None).

Lemma cx_wf2_wf c D : cx_wf2 c D -> cx_wf c D.
Proof. intros H. apply H. Qed.
Lemma cx_wf2_mono c D D' : cx_wf2 c D -> incl' D D' -> cx_wf2 c D'.
Proof. intros (H1 & H2 & H3) Hi. split; [eapply cx_wf_mono; eauto | auto]. Qed.
Lemma cx_wf2_init D : cx_wf2 cx0 D.
Proof. split; [apply cx_wf_init|]. split; intros; discriminate. Qed.

(* the optimised form of a variable is a name without entry, or not a variable *)
Lemma opt_idem c D x y : cx_wf2 c D -> opt_expr (cx_v c) (EVar x) = EVar y -> assoc y (cx_v c) = None.
Proof.
  intros (_ & H2 & _) E. cbn in E. destruct (assoc x (cx_v c)) eqn:Ea.
  - subst. eapply H2; eauto.
  - injection E as <-. assumption.
Qed.
Lemma opt_expr_idem c D e y : cx_wf2 c D -> opt_expr (cx_v c) e = EVar y -> assoc y (cx_v c) = None.
Proof. intros H E. destruct e; try discriminate. eapply opt_idem; eauto. Qed.

Lemma bind_wf2 x e c c' D :
  bind x e c = Some c' -> cx_wf2 c D -> ~ In x D ->
  (forall y, e = EVar y -> In y D /\ assoc y (cx_v c) = None) -> cx_wf2 c' (x :: D).
Proof.
  intros Hb (W & I1 & I2) Hx He. destruct (bind_inv _ _ _ _ Hb) as (Hn & Ev & Eb).
  split; [eapply bind_wf; eauto; intros y Ey; apply (He y Ey)|]. rewrite Ev, Eb. split.
  - intros a e' y. cbn. destruct (N.eqb_spec a x) as [->|Na].
    + intros [= <-] ->. destruct (He y eq_refl) as [Hy Hny]. destruct (N.eqb_spec y x) as [->|]; [contradiction | assumption].
    + intros Ea ->. destruct W as [W1 _]. destruct (W1 a (EVar y) Ea) as [_ Hr]. specialize (Hr y eq_refl).
      destruct (N.eqb_spec y x) as [->|]; [contradiction | eapply I1; eauto].
  - intros z op y k Ez. destruct (I2 z op y k Ez) as [A B]. destruct W as [_ W2]. destruct (W2 z op y k Ez) as (Hz & Hy & _).
    cbn. destruct (N.eqb_spec y x) as [->|]; [contradiction|]. destruct (N.eqb_spec z x) as [->|]; [contradiction|]. auto.
Qed.

Lemma bind_b_wf2 x op y k c D :
  cx_wf2 c D -> In y D -> in32 k -> assoc y (cx_v c) = None -> assoc x (cx_v c) = None ->
  cx_wf2 (bind_b x (op, y, k) c) (x :: D).
Proof.
  intros (W & I1 & I2) Hy Hk Hny Hnx. split; [now apply bind_b_wf|]. split; [exact I1|].
  intros z op' y' k'. cbn. destruct (N.eqb_spec z x) as [->|].
  - intros [= <- <- <-]. auto.
  - apply I2.
Qed.

Section Rel2.
  Variable w : world.

  Definition Rel2 (c : cx) (S J : list name) (eo et : env) : Prop :=
    (forall x, In x S -> eval w eo (EVar x) = eval w et (opt_expr (cx_v c) (EVar x))) /\
    (forall x y, In x S -> opt_expr (cx_v c) (EVar x) = EVar y -> In y (S ++ J)) /\
    (forall z op y k, In z (S ++ J) -> assoc z (cx_b c) = Some (op, y, k) ->
       In y (S ++ J) /\ chk Add op && ovf op (eval w et (EVar y)) k = false /\
       exists v, rt_binop op (eval w et (EVar y)) k = Val v /\ eval w et (EVar z) = wrap32 v).

  Lemma R2_expr c S J eo et e :
    Rel2 c S J eo et -> (forall x, e = EVar x -> In x S) -> eval w eo e = eval w et (opt_expr (cx_v c) e).
  Proof. intros (RV & _ & _) H. destruct e; try reflexivity. apply RV. auto. Qed.
  Lemma R2_expr_scope c S J eo et e y :
    Rel2 c S J eo et -> (forall x, e = EVar x -> In x S) -> opt_expr (cx_v c) e = EVar y -> In y (S ++ J).
  Proof. intros (_ & RI & _) H E. destruct e; try discriminate. eapply RI; eauto. Qed.

  Lemma R2_frame c S J eo et eo' et' :
    Rel2 c S J eo et ->
    (forall x, In x S -> lookup x eo' = lookup x eo) ->
    (forall x, In x (S ++ J) -> lookup x et' = lookup x et) ->
    Rel2 c S J eo' et'.
  Proof.
    intros (RV & RI & RB) Ho Ht. split; [|split].
    - intros x Hx. rewrite (eval_var_lookup w eo eo' x) by auto. rewrite RV by assumption.
      destruct (opt_expr (cx_v c) (EVar x)) eqn:E; try reflexivity.
      symmetry. apply eval_var_lookup. apply Ht. eapply RI; eauto.
    - exact RI.
    - intros z op y k Hz E. destruct (RB z op y k Hz E) as (Hy & Ho' & v & Hv & Hzv).
      rewrite (eval_var_lookup w et et' y) by auto. rewrite (eval_var_lookup w et et' z) by auto. eauto 6.
  Qed.

  Lemma R2_ext c c' S J bs eo et :
    Rel2 c S J eo et -> ext_outside bs c c' -> disj (S ++ J) bs -> Rel2 c' S J eo et.
  Proof.
    intros (RV & RI & RB) He Hd.
    assert (Ho : forall x, In x S -> opt_expr (cx_v c') (EVar x) = opt_expr (cx_v c) (EVar x)).
    { intros x Hx. cbn. destruct (He x) as [-> _]; [intros H; eapply Hd; eauto; apply in_or_app; auto | reflexivity]. }
    split; [|split].
    - intros x Hx. rewrite Ho by assumption. auto.
    - intros x y Hx. rewrite Ho by assumption. eauto.
    - intros z op y k Hz E. destruct (He z) as [_ Eb]; [intros H; eapply Hd; eauto|]. rewrite Eb in E. eauto.
  Qed.

  (* more optimised-run names may be mentioned *)
  Lemma R2_more_J c S J J' eo et :
    Rel2 c S J eo et -> incl' J J' ->
    (forall z op y k, In z J' -> ~ In z (S ++ J) -> assoc z (cx_b c) = Some (op, y, k) ->
       In y (S ++ J') /\ chk Add op && ovf op (eval w et (EVar y)) k = false /\
       exists v, rt_binop op (eval w et (EVar y)) k = Val v /\ eval w et (EVar z) = wrap32 v) ->
    Rel2 c S J' eo et.
  Proof.
    intros (RV & RI & RB) Hi Hnew.
    assert (Hin : forall x, In x (S ++ J) -> In x (S ++ J')) by (intros x; rewrite !in_app_iff; intros [H|H]; auto).
    split; [exact RV|]. split.
    - intros x y Hx E. apply Hin. eauto.
    - intros z op y k Hz E. destruct (in_dec N.eq_dec z (S ++ J)) as [Hz'|Hz'].
      + destruct (RB z op y k Hz' E) as (Hy & R). split; auto.
      + apply (Hnew z op y k); auto. rewrite in_app_iff in Hz. destruct Hz as [Hz|Hz]; auto.
        exfalso. apply Hz'. apply in_or_app. auto.
  Qed.

  Lemma R2_bind c c' S J eo et x e v :
    Rel2 c S J eo et -> bind x e c = Some c' -> ~ In x (S ++ J) -> assoc x (cx_b c) = None ->
    wrap32 v = eval w et e -> (forall y, e = EVar y -> In y (S ++ J)) ->
    Rel2 c' (x :: S) J ((x, v) :: eo) et.
  Proof.
    intros (RV & RI & RB) Hb Hx Hxb Hv He. unfold bind in Hb.
    destruct (assoc x (cx_v c)) eqn:Ex; [discriminate|]. injection Hb as <-.
    assert (HxS : ~ In x S) by (intros H; apply Hx; apply in_or_app; auto).
    assert (Ho : forall y, y <> x -> opt_expr ((x, e) :: cx_v c) (EVar y) = opt_expr (cx_v c) (EVar y)).
    { intros y Hy. cbn. destruct (N.eqb_spec y x); [contradiction | reflexivity]. }
    assert (Hox : opt_expr ((x, e) :: cx_v c) (EVar x) = e) by (cbn; now rewrite N.eqb_refl).
    unfold Rel2. cbn [cx_v cx_b]. split; [|split].
    - intros y [<-|Hy].
      + rewrite Hox. unfold eval at 1. cbn. now rewrite N.eqb_refl.
      + assert (y <> x) by (intros ->; contradiction). rewrite Ho by assumption.
        rewrite <- RV by assumption. unfold eval. cbn. destruct (N.eqb_spec y x); [contradiction | reflexivity].
    - intros y z [<-|Hy].
      + rewrite Hox. intros ->. right. auto.
      + assert (y <> x) by (intros ->; contradiction). rewrite Ho by assumption. intros E. right. eauto.
    - intros z op y k [<-|Hz] E; [congruence|]. destruct (RB z op y k Hz E) as (Hy & R). split; [right; assumption | exact R].
  Qed.

  Lemma R2_def c S J eo et x v :
    Rel2 c S J eo et -> ~ In x (S ++ J) -> assoc x (cx_v c) = None -> assoc x (cx_b c) = None ->
    Rel2 c (x :: S) J ((x, v) :: eo) ((x, v) :: et).
  Proof.
    intros (RV & RI & RB) Hx Hxv Hxb.
    assert (HxS : ~ In x S) by (intros H; apply Hx; apply in_or_app; auto).
    assert (Hl : forall en y, y <> x -> eval w ((x, v) :: en) (EVar y) = eval w en (EVar y)).
    { intros en y Hy. unfold eval. cbn. destruct (N.eqb_spec y x); [contradiction | reflexivity]. }
    split; [|split].
    - intros y [<-|Hy].
      + cbn [opt_expr]. rewrite Hxv. unfold eval. cbn. now rewrite N.eqb_refl.
      + assert (y <> x) by (intros ->; contradiction). rewrite Hl by assumption. rewrite RV by assumption.
        destruct (opt_expr (cx_v c) (EVar y)) eqn:E; try reflexivity.
        symmetry. apply Hl. intros ->. apply Hx. eapply RI; eauto.
    - intros y z [<-|Hy].
      + cbn [opt_expr]. rewrite Hxv. intros [= <-]. left. reflexivity.
      + intros E. right. eauto.
    - intros z op y k [<-|Hz] E; [congruence|]. destruct (RB z op y k Hz E) as (Hy & Ho & u & Hu & Hz').
      assert (y <> x) by (intros ->; contradiction). assert (z <> x) by (intros ->; contradiction).
      rewrite !Hl by assumption. split; [right; assumption|]. eauto.
  Qed.

  Lemma R2_bind_b c S J eo et x op y k u :
    Rel2 c S J eo et -> In x (S ++ J) -> In y (S ++ J) -> assoc x (cx_b c) = None ->
    chk Add op && ovf op (eval w et (EVar y)) k = false -> rt_binop op (eval w et (EVar y)) k = Val u ->
    eval w et (EVar x) = wrap32 u ->
    Rel2 (bind_b x (op, y, k) c) S J eo et.
  Proof.
    intros (RV & RI & RB) Hx Hy Hxb Ho Hu Hxu. split; [|split]; auto.
    intros z op' y' k' Hz. cbn. destruct (N.eqb_spec z x) as [->|Hn].
    - intros [= <- <- <-]. eauto 6.
    - eauto.
  Qed.

  Lemma R2_add_many c S J L eo et :
    Rel2 c S J eo et ->
    (forall x, In x L -> lookup x eo = lookup x et /\ assoc x (cx_v c) = None /\ assoc x (cx_b c) = None) ->
    Rel2 c (L ++ S) J eo et.
  Proof.
    intros (RV & RI & RB) HL.
    assert (Hin : forall x, In x (S ++ J) -> In x ((L ++ S) ++ J)) by (intros x; rewrite !in_app_iff; tauto).
    split; [|split].
    - intros x Hx. destruct (in_dec N.eq_dec x L) as [Hl|Hn].
      + destruct (HL x Hl) as (E & Ev & _). cbn [opt_expr]. rewrite Ev. unfold eval. now rewrite E.
      + rewrite in_app_iff in Hx. destruct Hx; [contradiction | auto].
    - intros x y Hx. destruct (in_dec N.eq_dec x L) as [Hl|Hn].
      + destruct (HL x Hl) as (_ & Ev & _). cbn [opt_expr]. rewrite Ev. intros [= <-]. rewrite !in_app_iff. auto.
      + rewrite in_app_iff in Hx. destruct Hx as [Hx|Hx]; [contradiction|]. intros E. apply Hin. eauto.
    - intros z op y k Hz E. destruct (in_dec N.eq_dec z L) as [Hl|Hn].
      + destruct (HL z Hl) as (_ & _ & Eb). congruence.
      + assert (Hz' : In z (S ++ J)) by (rewrite !in_app_iff in *; tauto).
        destruct (RB z op y k Hz' E) as (Hy & R). split; auto.
  Qed.

  Lemma R2_init S en : Rel2 cx0 S [] en en.
  Proof.
    split; [|split].
    - intros x _. reflexivity.
    - intros x y Hx [= <-]. apply in_or_app. auto.
    - intros z op y k _ E. discriminate.
  Qed.
End Rel2.
