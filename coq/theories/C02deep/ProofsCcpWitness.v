(* C02deep — concrete witnesses: the full-strength CCP statement (without the "proved path" flag) is false of
   the faithful model of the pass as it was BEFORE the repairs that followed the findings of this check:
   fef18b5 (unchanging loop variable bound to its raw initial value), 6cdc437 (a conditional Break re-emitted
   outside its loop), 8c7c465 (two rounds: merged constants wrap, then a comparison is merged over them).
   All were replayed on the real pass / compiler at the time. *)
From Coq Require Import ZArith NArith List Bool.
Import ListNotations.
From SV Require Import Common.Int32 C02deep.Syntax C02deep.Sem C02deep.Passes.
Open Scope Z_scope.

Definition wit_world : world := mkworld (fun _ _ _ => Some 0) (fun _ => 0) (fun _ => 0) (fun _ v => v) (fun _ _ => 0).

(* f(v1) { v2 = 1 + 2; loop (v3 = v2 then v2, v4 = v1 then v6) { v5 = v4 >= v3; if v5 break v3; v6 = v4 + 1 } -> v7; return v7 } *)
Definition wit_raw_init : func :=
  mkfunc [1%N]
    [SBin 2%N PLUS (EInt 1) (EInt 2);
     SWhile [(3%N, EVar 2%N, EVar 2%N); (4%N, EVar 1%N, EVar 6%N)]
       [SBin 5%N GE (EVar 4%N) (EVar 3%N);
        SSIf (EVar 5%N) false [SBreak (EVar 3%N)];
        SBin 6%N PLUS (EVar 4%N) (EInt 1)]
       (Some 7%N)]
    (EVar 7%N).

(* before fix fef18b5 the unchanging loop variable v3 was bound to the RAW variable v2, whose definition
   constant folding had already removed: the output read an undefined name *)
Lemma ccp_old2_refuted :
  exists f f' fl, wf_func f = true /\ ccp_old2 f = Some (f', fl) /\ ~ refines wit_world f' f.
Proof.
  exists wit_raw_init. eexists. eexists. split; [vm_compute; reflexivity|]. split; [vm_compute; reflexivity|].
  intros H. specialize (H [0] 10%nat 3 []). vm_compute in H. specialize (H eq_refl). discriminate.
Qed.
(* the repaired pass substitutes the folded constant, on the proved path *)
Lemma ccp_new_on_old2_witness :
  exists f' fl, ccp wit_raw_init = Some (f', fl) /\ fl = (false, false) /\
                sem Wrap wit_world f' [0] 10 = Done 3 [].
Proof. eexists. eexists. split; [vm_compute; reflexivity|]. split; vm_compute; auto. Qed.

(* lp(i, n) = if i > n { 1 } else if 0 < 1 { 2 } else lp(i + 1, n), after tail-recursion lowering *)
Definition wit_loop_once : func :=
  mkfunc [1%N; 2%N]
    [SWhile [(3%N, EVar 1%N, EVar 8%N); (4%N, EVar 2%N, EVar 4%N)]
       [SBin 5%N GT (EVar 3%N) (EVar 4%N);
        SSIf (EVar 5%N) false [SBreak (EInt 1)];
        SBin 6%N LT (EInt 0) (EInt 1);
        SSIf (EVar 6%N) false [SBreak (EInt 2)];
        SBin 8%N PLUS (EVar 3%N) (EInt 1)]
       (Some 7%N)]
    (EVar 7%N).

Lemma ccp_old_refuted :
  exists f f' fl, wf_func f = true /\ ccp_old f = Some (f', fl) /\ snd fl = true /\ ~ refines wit_world f' f.
Proof.
  exists wit_loop_once. eexists. eexists. split; [vm_compute; reflexivity|]. split; [vm_compute; reflexivity|].
  split; [reflexivity|].
  intros H. specialize (H [5; 3] 10%nat 1 []). vm_compute in H. specialize (H eq_refl). discriminate.
Qed.
(* after the repair the same function stays a loop (the shortcut is not taken: snd fl = false) and behaves.
   Its output is a loop whose body now ends in `break 2` and whose loop variable v3 still names its dropped
   loop value v8: a dangling name that is never read (see ccp_wf_refuted in ProofsPipeline.v) *)
Lemma ccp_new_on_old_witness :
  exists f' fl, ccp wit_loop_once = Some (f', fl) /\ snd fl = false /\
                sem Wrap wit_world f' [5; 3] 10 = Done 1 [] /\ sem Wrap wit_world f' [1; 3] 10 = Done 2 [].
Proof. eexists. eexists. split; [vm_compute; reflexivity|]. split; vm_compute; auto. Qed.

(* The one exclusion of the CCP theorem is about unreachable code only: on wit_loop_once the pass (as it is now)
   keeps the loop, its optimised body ends in `break 2`, the statement v8 = v3 + 1 after it is dropped, and the
   loop variable v3 still has the loop value v8.  The output is not well scoped any more (wf_func fails), it is
   flagged by Passes.dead_final_operands, and it still behaves like the input (v8 is never read). *)
Lemma ccp_dead_code_ill_scoped_witness :
  exists f f' fl, wf_func f = true /\ no_break_l (f_body f) = true /\ ccp f = Some (f', fl) /\
                  dead_final_operands f = true /\ wf_func f' = false /\
                  f_body f' = [SWhile [(3%N, EVar 1%N, EVar 8%N); (4%N, EVar 2%N, EVar 4%N)]
                                 [SBin 5%N LT (EVar 4%N) (EVar 3%N); SSIf (EVar 5%N) false [SBreak (EInt 1)]; SBreak (EInt 2)]
                                 (Some 7%N)] /\
                  sem Add wit_world f [5; 3] 10 = Done 1 [] /\ sem Add wit_world f' [5; 3] 10 = Done 1 [] /\
                  sem Add wit_world f [1; 3] 10 = Done 2 [] /\ sem Add wit_world f' [1; 3] 10 = Done 2 [].
Proof.
  exists wit_loop_once. eexists. eexists. split; [vm_compute; reflexivity|]. split; [vm_compute; reflexivity|].
  split; [vm_compute; reflexivity|]. vm_compute. repeat split.
Qed.

(* f(x) = ((x + MAX) + 1) < -3 : with the wrapping merge of constants (before fix 8c7c465) two rounds of the
   pass turned it into x < 2147483645; the current model (C02.Kernels.merge_binop declines when c1 + c2 wraps)
   keeps the behaviour through two rounds *)
Definition wit_two_rounds : func :=
  mkfunc [1%N]
    [SBin 2%N PLUS (EVar 1%N) (EInt MAX);
     SBin 3%N PLUS (EVar 2%N) (EInt 1);
     SBin 4%N LT (EVar 3%N) (EInt (-3))]
    (EVar 4%N).
Lemma ccp_two_rounds_now :
  exists f1 f2, ccp wit_two_rounds = Some (f1, (false, false)) /\ ccp f1 = Some (f2, (false, false)) /\
                sem All wit_world wit_two_rounds [-5] 10 = Done 0 [] /\ sem Wrap wit_world f2 [-5] 10 = Done 0 [].
Proof. eexists. eexists. split; [vm_compute; reflexivity|]. split; [vm_compute; reflexivity|]. split; vm_compute; reflexivity. Qed.
