(* C02deep — common subexpression elimination (Passes.cse) preserves behaviour.  The output runs like the input
   with some additional fresh names bound; a hoisted value is computed without a failure because the branch that
   is taken computes the same value from the same operands (mode Add: no new overflow), and since fix 32a0c6b
   it can never trap, so that on the target semantics (mode Wrap) EVERY run is reproduced exactly, the runs that
   trap or abort included. *)
From Coq Require Import ZArith NArith List Bool Lia.
Import ListNotations.
From SV Require Import Common.Int32 C02deep.Syntax C02deep.Sem C02deep.Passes C02deep.ProofsSem C02deep.ProofsScope
  C02deep.ProofsDceSets C02deep.ProofsDce C02deep.ProofsCcpArith C02deep.ProofsCcpRel C02deep.ProofsCcp C02deep.ProofsCcpFull
  C02deep.ProofsLvn C02deep.ProofsWf C02deep.ProofsCseStatic.
Open Scope Z_scope.

Section CseDyn.
  Variables (m : mode) (w : world) (fuel : nat) (hd : bool).
  Notation exec := (exec m w fuel).
  Notation exec_block := (exec_block m w fuel).

  (* what `x = v` computes, if it does not fail *)
  Definition bval_val (env : env) (v : bval) : option Z :=
    match v with
    | BVBin op e1 e2 =>
        let a := eval w env e1 in let b := eval w env e2 in
        if chk m op && ovf op a b then None else match rt_binop op a b with Val r => Some r | TrapArith => None end
    | BVNot e => Some (Z.lxor (eval w env e) 1)
    | BVPrim p e => Some (w_prim w p (eval w env e))
    end.
  Definition bval_ok (env : env) (v : bval) : Prop := exists r, bval_val env v = Some r.

  Lemma exec_stmt_of_bval x v env tr r : bval_val env v = Some r -> exec (stmt_of_bval x v) env tr = RNext ((x, r) :: env) tr.
  Proof.
    destruct v as [op e1 e2|e|p e]; cbn [bval_val stmt_of_bval].
    - destruct (unwrapped op e1 e2) as [[op' a] b] eqn:U. cbn [Sem.exec].
      destruct (unwrapped_sound _ _ _ _ _ _ U w env) as [R O]. rewrite (unwrapped_chk m _ _ _ _ _ _ U), <- O, <- R.
      destruct (chk m op && ovf op _ _); [discriminate|]. destruct (rt_binop op _ _); [|discriminate]. now intros [= ->].
    - intros [= <-]. reflexivity.
    - intros [= <-]. reflexivity.
  Qed.
  Lemma bval_val_agree v env env' : (forall e, In e (bexprs v) -> eval w env e = eval w env' e) -> bval_val env v = bval_val env' v.
  Proof.
    intros H. destruct v as [op e1 e2|e|p e]; cbn [bval_val bexprs] in *.
    - now rewrite (H e1 (or_introl eq_refl)), (H e2 (or_intror (or_introl eq_refl))).
    - now rewrite (H e (or_introl eq_refl)).
    - now rewrite (H e (or_introl eq_refl)).
  Qed.
  Lemma bval_val_same v u env : bsame v u -> bval_val env v = bval_val env u.
  Proof.
    destruct v as [op e1 e2|e|p e], u as [op' e1' e2'|e'|p' e']; cbn [bsame bval_val]; try contradiction.
    - intros (-> & E1 & E2). now rewrite (expr_eq_sound _ _ E1 w env), (expr_eq_sound _ _ E2 w env).
    - intros E. now rewrite (expr_eq_sound _ _ E w env).
    - intros (-> & E). now rewrite (expr_eq_sound _ _ E w env).
  Qed.
  Lemma bval_ok_bin x op e1 e2 env tr env' tr' : exec (SBin x op e1 e2) env tr = RNext env' tr' -> bval_ok env (BVBin op e1 e2).
  Proof.
    unfold bval_ok, bval_val. cbn [Sem.exec]. destruct (chk m op && ovf op _ _); [discriminate|].
    destruct (rt_binop op _ _) as [r|]; [|discriminate]. intros _. exists r. reflexivity.
  Qed.
  Lemma rt_binop_nondiv op a b : is_divmod op = false -> exists r, rt_binop op a b = Val r.
  Proof. destruct op; cbn; try discriminate; intros _; eexists; reflexivity. Qed.
  Lemma bval_ok_wrap env v : m = Wrap -> bval_divmod v = false -> bval_ok env v.
  Proof.
    intros Hm Hd. unfold bval_ok. destruct v as [op e1 e2|e|p e]; cbn [bval_val bval_divmod] in *; [|eexists; reflexivity..].
    rewrite Hm. cbn [chk andb]. destruct (rt_binop_nondiv op (eval w env e1) (eval w env e2) Hd) as [r ->]. exists r. reflexivity.
  Qed.
  Lemma agree_exprs T env env' v : vars_in v T -> agree w T env env' -> forall e, In e (bexprs v) -> eval w env e = eval w env' e.
  Proof. intros Hv Ha e He. destruct e; try reflexivity. apply Ha. eapply Hv; eauto. Qed.
  Lemma bval_ok_agree T env env' v : vars_in v T -> agree w T env env' -> bval_ok env v -> bval_ok env' v.
  Proof. intros Hv Ha [r E]. exists r. rewrite <- E. symmetry. apply bval_val_agree. eapply agree_exprs; eauto. Qed.

  (* the hoisted statements run, and only bind their names *)
  Lemma exec_hoisted named : forall env tr, (forall p, In p named -> forall env', (forall x, ~ In x (map fst named) -> lookup x env' = lookup x env) -> bval_ok env' (snd p)) ->
    exists env1, exec_block (hoisted named) env tr = RNext env1 tr /\ forall x, ~ In x (map fst named) -> lookup x env1 = lookup x env.
  Proof.
    induction named as [|[x v] r IH]; intros env tr H.
    - exists env. split; [reflexivity | auto].
    - cbn [hoisted map fst snd]. fold (hoisted r). rewrite exec_block_cons.
      destruct (H (x, v) (or_introl eq_refl) env (fun _ _ => eq_refl)) as [val E].
      rewrite (exec_stmt_of_bval x v env tr val E).
      destruct (IH ((x, val) :: env) tr) as [env1 [E1 F1]].
      { intros p Hp env' Hl. apply (H p (or_intror Hp)). intros y Hy. rewrite Hl by (intros Hi; apply Hy; right; exact Hi).
        cbn. destruct (N.eqb_spec y x) as [->|]; [exfalso; apply Hy; left; reflexivity | reflexivity]. }
      exists env1. split; [exact E1|]. intros y Hy. rewrite F1 by (intros Hi; apply Hy; right; exact Hi).
      cbn. destruct (N.eqb_spec y x) as [->|]; [exfalso; apply Hy; left; reflexivity | reflexivity].
  Qed.

  Definition simc (Sn : list name) (r1 r2 : res) : Prop :=
    match r1 with
    | RNext e1 t => exists e2, r2 = RNext e2 t /\ agree w Sn e1 e2
    | RBreak _ _ _ | RStuck | ROvf => True
    | o => hd = false -> m = Wrap -> r2 = o
    end.

  Definition PC (st : stmt) : Prop := forall set sup out set' sup' S eo et tr,
    cse_stmt hd st set sup = Some (out, set', sup') -> scoped S st = true -> no_break st = true ->
    NoDup (binders st) -> disj (binders st) S -> disj sup (binders st ++ S) -> agree w S eo et ->
    simc (defs st ++ S) (exec st eo tr) (exec_block out et tr) /\
    (forall eo' tr', exec st eo tr = RNext eo' tr' -> forall v, In v set' -> In v set \/ bval_ok eo' v).
  Definition QC (ss : list stmt) : Prop := forall sup out set sup' S eo et tr,
    cse_stmts hd ss sup = Some (out, set, sup') -> scoped_l S ss = true -> no_break_l ss = true ->
    NoDup (binders_l ss) -> disj (binders_l ss) S -> disj sup (binders_l ss ++ S) -> agree w S eo et ->
    simc (defs_l ss ++ S) (exec_block ss eo tr) (exec_block out et tr) /\
    (forall eo' tr', exec_block ss eo tr = RNext eo' tr' -> forall v, In v set -> bval_ok eo' v).

  Lemma frame_agree bs S e e' : (forall x, ~ In x bs -> lookup x e' = lookup x e) -> disj bs S -> agree w S e e'.
  Proof. intros H Hd x Hx. symmetry. apply eval_var_lookup. apply H. intros Hb. exact (Hd x Hb Hx). Qed.
  Lemma agree_trans T a b c : agree w T a b -> agree w T b c -> agree w T a c.
  Proof. intros H1 H2 x Hx. rewrite (H1 x Hx). auto. Qed.

  (* a statement that is kept as it is *)
  Lemma PC_plain st S eo et tr : scoped S st = true -> agree w S eo et ->
    simc (defs st ++ S) (exec st eo tr) (exec_block [st] et tr).
  Proof.
    intros Hsc Ha. pose proof (proj1 (exec_agree_both m w fuel) st S eo et tr (proj1 scoped_scopedc_both st S Hsc) Ha) as H.
    rewrite exec_block_cons. unfold simc. destruct (exec st eo tr) as [e1 t|v e1 t|t|t| | |]; cbn [res_agree] in H; auto.
    - destruct H as [e1' [-> Ha1]]. exists e1'. split; [reflexivity | exact Ha1].
    - intros _ _. now rewrite H.
    - intros _ _. now rewrite H.
    - intros _ _. now rewrite H.
  Qed.
  Lemma frame_stmt_agree st S eo tr eo' tr' : exec st eo tr = RNext eo' tr' -> disj (binders st) S -> agree w S eo eo'.
  Proof.
    intros E Hd. pose proof (frame_stmt m w fuel st eo tr) as F. rewrite E in F. cbn in F. eapply frame_agree; eauto.
  Qed.
  Lemma frame_block_agree ss S eo tr eo' tr' : exec_block ss eo tr = RNext eo' tr' -> disj (binders_l ss) S -> agree w S eo eo'.
  Proof.
    intros E Hd. pose proof (frame_block m w fuel ss eo tr) as F. rewrite E in F. cbn in F. eapply frame_agree; eauto.
  Qed.

  Lemma PC_insert st v (set : bset) (sup : list name) (out : list stmt) (set' : bset) (sup' : list name) S eo et tr :
    Some ([st], bset_insert v set, sup) = Some (out, set', sup') -> scoped S st = true -> disj (binders st) S -> agree w S eo et ->
    vars_in v S -> (forall eo' tr', exec st eo tr = RNext eo' tr' -> bval_ok eo v) ->
    simc (defs st ++ S) (exec st eo tr) (exec_block out et tr) /\
    (forall eo' tr', exec st eo tr = RNext eo' tr' -> forall u, In u set' -> In u set \/ bval_ok eo' u).
  Proof.
    intros H Hsc Hdj Ha Hv Hok. injection H as <- <- <-. split; [now apply PC_plain|].
    intros eo' tr' E u Hu. destruct (bset_insert_In _ _ _ Hu) as [->|Hu']; [|auto]. right.
    eapply bval_ok_agree; [exact Hv | eapply frame_stmt_agree; eauto | eauto].
  Qed.

  Lemma PC_SBin x op e1 e2 : PC (SBin x op e1 e2).
  Proof.
    intros set sup out set' sup' S eo et tr H Hsc _ _ Hdj _ Ha. cbn [cse_stmt] in H.
    eapply PC_insert; eauto; [exact (vars_of_scoped_bin S x op e1 e2 Hsc)|]. intros eo' tr' E. eapply bval_ok_bin; eauto.
  Qed.
  Lemma PC_SNot x e : PC (SNot x e).
  Proof.
    intros set sup out set' sup' S eo et tr H Hsc _ _ Hdj _ Ha. cbn [cse_stmt] in H.
    eapply PC_insert; eauto; [|intros; eexists; reflexivity]. intros e' y [<-|[]] ->. cbn in Hsc. now apply in_scope_var.
  Qed.
  Lemma PC_SPrim x p e : PC (SPrim x p e).
  Proof.
    intros set sup out set' sup' S eo et tr H Hsc _ _ Hdj _ Ha. cbn [cse_stmt] in H.
    assert (Hv : vars_in (BVPrim p e) S) by (intros e' y [<-|[]] ->; cbn in Hsc; now apply in_scope_var).
    destruct p; try (eapply PC_insert; eauto; intros; eexists; reflexivity).
    injection H as <- <- <-. split; [now apply PC_plain | auto].
  Qed.
  Lemma PC_other st : (forall set sup, cse_stmt hd st set sup = Some ([st], set, sup)) -> PC st.
  Proof.
    intros He set sup out set' sup' S eo et tr H Hsc _ _ _ _ Ha. rewrite He in H. injection H as <- <- <-.
    split; [now apply PC_plain | auto].
  Qed.

  Lemma QC_nil : QC [].
  Proof.
    intros sup out set sup' S eo et tr H _ _ _ _ _ Ha. cbn in H. injection H as <- <- <-. split.
    - cbn. exists et. split; [reflexivity | exact Ha].
    - intros eo' tr' _ v [].
  Qed.

  Lemma QC_cons st r : PC st -> QC r -> QC (st :: r).
  Proof.
    intros Hs Hr sup out set sup' S eo et tr H Hsc Hnb Hnd Hdj Hds Ha. cbn [cse_stmts] in H.
    cbn [scoped_l] in Hsc. apply andb_prop in Hsc. destruct Hsc as [Hsc1 Hsc2].
    cbn in Hnb. apply andb_prop in Hnb. destruct Hnb as [Hnb1 Hnb2]. cbn [binders_l defs_l] in *.
    destruct (cse_stmts hd r sup) as [[[r' set_r] sup1]|] eqn:E1; [|discriminate].
    destruct (cse_stmt hd st set_r sup1) as [[[o set'] sup2]|] eqn:E2; [|discriminate]. injection H as <- <- <-.
    assert (Hnds : NoDup (binders st)) by (eapply NoDup_app_l; eauto).
    assert (Hndr : NoDup (binders_l r)) by (eapply NoDup_app_r; eauto).
    assert (Dsr : forall x, In x (binders st) -> In x (binders_l r) -> False) by (intros x; apply (NoDup_app_disj _ _ x Hnd)).
    assert (Djs : disj (binders st) S) by (intros x Hx; apply Hdj; rewrite in_app_iff; auto).
    assert (Djr : disj (binders_l r) (defs st ++ S)).
    { intros x Hx Hi. apply in_app_or in Hi. destruct Hi as [Hi|Hi]; [apply (Dsr x); auto; now apply defs_in_binders|].
      apply (Hdj x); auto. rewrite in_app_iff. auto. }
    destruct cse_static_all as [HPS HQS].
    destruct (HQS r hd sup r' set_r sup1 (defs st ++ S) E1 Hsc2 Hndr Djr) as (ur & Esup & _ & _ & _ & _ & _ & Vr & _).
    destruct (HPS st hd set_r sup1 o set' sup2 S E2 Hsc1 Hnds Djs) as (us & _ & _ & _ & _ & _ & _ & _ & Vs & _).
    assert (Hds1 : disj sup1 (binders st ++ S)).
    { intros x Hx Hi. apply (Hds x); [rewrite Esup; apply in_or_app; auto|]. rewrite !in_app_iff in *. tauto. }
    assert (Hdsr : disj sup (binders_l r ++ defs st ++ S)).
    { intros x Hx Hi. apply (Hds x Hx). rewrite !in_app_iff in *. destruct Hi as [Hi|[Hi|Hi]]; auto. left. left. now apply defs_in_binders. }
    destruct (Hs set_r sup1 o set' sup2 S eo et tr E2 Hsc1 Hnb1 Hnds Djs Hds1 Ha) as [Sim1 Set1].
    rewrite exec_block_cons, exec_block_app.
    destruct (exec st eo tr) as [e1 t1|v e1 t1|t1|t1| | |] eqn:Ex1; cbn [simc] in Sim1 |- *.
    - destruct Sim1 as [et1 [-> Ha1]].
      destruct (Hr sup r' set_r sup1 (defs st ++ S) e1 et1 t1 E1 Hsc2 Hnb2 Hndr Djr Hdsr Ha1) as [Sim2 Set2].
      split.
      + destruct (exec_block r e1 t1) as [e2 t2|v e2 t2|t2|t2| | |] eqn:Ex2; cbn [simc] in Sim2 |- *; auto.
        destruct Sim2 as [et2 [-> Ha2]]. exists et2. split; [reflexivity|]. eapply agree_sub; eauto.
        intros x. rewrite !in_app_iff. tauto.
      + intros eo' tr' Er v Hv. destruct (Set1 e1 t1 eq_refl v Hv) as [Hv'|Hok]; [exact (Set2 eo' tr' Er v Hv')|].
        destruct (Vs v Hv) as [Hv'|HvS]; [exact (Set2 eo' tr' Er v Hv')|].
        eapply bval_ok_agree; [exact HvS | | exact Hok]. eapply frame_block_agree; eauto.
        intros x Hx Hi. apply (Hdj x); auto. rewrite in_app_iff. auto.
    - split; [exact I | discriminate].
    - split; [|discriminate]. intros Hh Hm. now rewrite (Sim1 Hh Hm).
    - split; [|discriminate]. intros Hh Hm. now rewrite (Sim1 Hh Hm).
    - split; [exact I | discriminate].
    - split; [exact I | discriminate].
    - split; [|discriminate]. intros Hh Hm. now rewrite (Sim1 Hh Hm).
  Qed.

  Lemma exec_block_single st en tr : exec_block [st] en tr = exec st en tr.
  Proof. rewrite exec_block_cons. destruct (exec st en tr); reflexivity. Qed.

  Lemma PC_SIf c s1 s2 fas : QC s1 -> QC s2 -> PC (SIf c s1 s2 fas).
  Proof.
    intros HQ1 HQ2 set sup out set' sup' S eo et tr H Hsc Hnb Hnd Hdj Hds Ha. rewrite cse_stmt_SIf in H.
    rewrite scoped_SIf in Hsc. apply andb_prop in Hsc. destruct Hsc as [Hsc Hf].
    apply andb_prop in Hsc. destruct Hsc as [Hsc Hs2]. apply andb_prop in Hsc. destruct Hsc as [Hc Hs1].
    rewrite forallb_forall in Hf.
    change (no_break (SIf c s1 s2 fas)) with (no_break_l s1 && no_break_l s2) in Hnb. apply andb_prop in Hnb. destruct Hnb as [Hnb1 Hnb2].
    rewrite binders_SIf in *. cbn [defs].
    assert (Hnd1 : NoDup (binders_l s1)) by (eapply NoDup_app_l; eauto).
    assert (Hnd2 : NoDup (binders_l s2)) by (eapply NoDup_app_l, NoDup_app_r; eauto).
    assert (D12 : forall x, In x (binders_l s1) -> In x (binders_l s2) -> False).
    { intros x H1 H2. eapply (NoDup_app_disj _ _ x Hnd); eauto. rewrite in_app_iff. auto. }
    assert (Dj1 : disj (binders_l s1) S) by (intros x Hx; apply Hdj; rewrite !in_app_iff; auto).
    assert (Dj2 : disj (binders_l s2) S) by (intros x Hx; apply Hdj; rewrite !in_app_iff; auto).
    assert (Djf : disj (map t_name fas) S) by (intros x Hx; apply Hdj; rewrite !in_app_iff; auto).
    destruct (cse_stmts hd s1 sup) as [[[s1' set1] sup1]|] eqn:E1; [|discriminate].
    destruct (cse_stmts hd s2 sup1) as [[[s2' set2] sup2]|] eqn:E2; [|discriminate].
    destruct (take_names _ sup2) as [[named sup3]|] eqn:Et; [|discriminate]. injection H as <- <- <-.
    destruct cse_static_all as [_ HQS].
    destruct (HQS s1 hd sup s1' set1 sup1 S E1 Hs1 Hnd1 Dj1) as (u1 & Es1 & _ & _ & _ & _ & _ & V1 & _).
    destruct (HQS s2 hd sup1 s2' set2 sup2 S E2 Hs2 Hnd2 Dj2) as (u2 & Es2 & _ & _ & _ & _ & _ & V2 & _).
    destruct (take_names_spec _ _ _ _ Et) as [Tn Es3].
    set (common := cse_common hd set1 set2) in *. set (hn := map fst named) in *.
    assert (Hcv : forall v, In v common -> vars_in v S).
    { intros v Hv. destruct (cse_common_In _ _ _ _ Hv) as (Hv1 & (u & Hu & Hsame) & _).
      pose proof (V1 v Hv1) as W1. pose proof (bsame_vars v u _ Hsame (V2 u Hu)) as W2.
      intros e y He Ey. specialize (W1 e y He Ey). specialize (W2 e y He Ey). rewrite in_app_iff in W1, W2.
      destruct W1 as [W1|W1]; [|exact W1]. destruct W2 as [W2|W2]; [|exact W2]. destruct (D12 y W1 W2). }
    assert (Hnamed : forall p, In p (rev named) -> In (snd p) common).
    { intros p Hp. apply in_rev in Hp. apply in_rev. rewrite <- Tn. now apply in_map. }
    assert (Hsup1 : forall x, In x sup1 -> In x sup) by (intros x Hx; rewrite Es1; apply in_or_app; auto).
    assert (Hsup2 : forall x, In x sup2 -> In x sup) by (intros x Hx; apply Hsup1; rewrite Es2; apply in_or_app; auto).
    assert (HhnS : forall x, In x hn -> ~ In x S).
    { intros x Hx Hi. apply (Hds x); [apply Hsup2; rewrite Es3; apply in_or_app; auto | apply in_or_app; auto]. }
    assert (Hhn_rev : forall x, In x (map fst (rev named)) <-> In x hn) by (intros x; rewrite map_rev; symmetry; apply in_rev).
    assert (Hds1 : disj sup (binders_l s1 ++ S)).
    { intros x Hx Hi. apply (Hds x Hx). rewrite !in_app_iff in *. tauto. }
    assert (Hds2 : disj sup1 (binders_l s2 ++ S)).
    { intros x Hx Hi. apply (Hds x (Hsup1 x Hx)). rewrite !in_app_iff in *. tauto. }
    (* the hoisted statements, when their values can be computed before the if-else *)
    assert (Hhoist : (forall v, In v common -> bval_ok et v) ->
              exists eth, exec_block (hoisted (rev named)) et tr = RNext eth tr /\ agree w S eo eth).
    { intros Hok. destruct (exec_hoisted (rev named) et tr) as [eth [Eh Fh]].
      - intros p Hp env' Hl. apply (bval_ok_agree S et env'); [apply Hcv, Hnamed, Hp | | apply Hok, Hnamed, Hp].
        intros x Hx. apply eval_var_lookup. symmetry. apply Hl. intros Hi. apply Hhn_rev in Hi. exact (HhnS x Hi Hx).
      - exists eth. split; [exact Eh|]. eapply agree_trans; [exact Ha|]. intros x Hx. symmetry. apply eval_var_lookup, Fh.
        intros Hi. apply Hhn_rev in Hi. exact (HhnS x Hi Hx). }
    rewrite exec_SIf, exec_block_app.
    destruct (cond (eval w eo c)) as [b|] eqn:Ec; [|split; [exact I | discriminate]].
    assert (Ecb : forall eth, agree w S eo eth -> cond (eval w eth c) = Some b).
    { intros eth Hae. rewrite <- (ProofsScope.agree_eval w S eo eth c Hae Hc). exact Ec. }
    (* the branch that is taken *)
    set (sb := if b then s1 else s2). set (sb' := if b then s1' else s2').
    assert (HQb : forall etx, agree w S eo etx ->
              simc (defs_l sb ++ S) (exec_block sb eo tr) (exec_block sb' etx tr) /\
              (forall eb tb, exec_block sb eo tr = RNext eb tb -> forall v, In v common -> bval_ok eb v)).
    { intros etx Hax. unfold sb, sb'. destruct b.
      - destruct (HQ1 sup s1' set1 sup1 S eo etx tr E1 Hs1 Hnb1 Hnd1 Dj1 Hds1 Hax) as [Sm St]. split; [exact Sm|].
        intros eb tb Eb v Hv. apply (St eb tb Eb). apply (cse_common_In _ _ _ _ Hv).
      - destruct (HQ2 sup1 s2' set2 sup2 S eo etx tr E2 Hs2 Hnb2 Hnd2 Dj2 Hds2 Hax) as [Sm St]. split; [exact Sm|].
        intros eb tb Eb v Hv. destruct (cse_common_In _ _ _ _ Hv) as (_ & (u & Hu & Hsame) & _).
        destruct (St eb tb Eb u Hu) as [r Er]. exists r. now rewrite (bval_val_same v u eb Hsame). }
    assert (Djb : disj (binders_l sb) S) by (unfold sb; destruct b; assumption).
    assert (Htgt : forall eth, agree w S eo eth ->
              exec_block [SIf c s1' s2' fas] eth tr =
              match exec_block sb' eth tr with
              | RNext en' tr' => RNext ((if b then bind_e1 w fas else bind_e2 w fas) en') tr'
              | o => o
              end).
    { intros eth Hae. rewrite exec_block_single, exec_SIf, (Ecb eth Hae). unfold sb'. destruct b; reflexivity. }
    assert (Horig : (if b
                     then match exec_block s1 eo tr with RNext en' tr' => RNext (bind_e1 w fas en') tr' | o => o end
                     else match exec_block s2 eo tr with RNext en' tr' => RNext (bind_e2 w fas en') tr' | o => o end) =
                    match exec_block sb eo tr with
                    | RNext en' tr' => RNext ((if b then bind_e1 w fas else bind_e2 w fas) en') tr'
                    | o => o
                    end) by (unfold sb; destruct b; reflexivity).
    rewrite Horig. clear Horig.
    destruct (exec_block sb eo tr) as [eb tb|v eb tb|tb|tb| | |] eqn:Eb; cbn [simc].
    - (* the branch completes *)
      destruct (HQb eo (fun x _ => eq_refl)) as [_ Stb].
      assert (Hok : forall v, In v common -> bval_ok et v).
      { intros v Hv. apply (bval_ok_agree S eo et v (Hcv v Hv) Ha).
        apply (bval_ok_agree S eb eo v (Hcv v Hv)); [|exact (Stb eb tb eq_refl v Hv)].
        intros x Hx. symmetry. exact (frame_block_agree sb S eo tr eb tb Eb Djb x Hx). }
      destruct (Hhoist Hok) as [eth [Eh Hae]]. rewrite Eh, (Htgt eth Hae).
      destruct (HQb eth Hae) as [Smb _]. cbn [simc] in Smb. destruct Smb as [etb [-> Hab]].
      assert (Hfas : forall (g : triple -> expr), (forall t, In t fas -> in_scope (defs_l sb ++ S) (g t) = true) ->
                agree w (map t_name fas ++ S)
                  (combine (map t_name fas) (map (fun t => eval w eb (g t)) fas) ++ eb)
                  (combine (map t_name fas) (map (fun t => eval w etb (g t)) fas) ++ etb)).
      { intros g Hg. apply (agree_bind w g fas S (defs_l sb ++ S) eb etb eb etb Hab Hg).
        eapply agree_sub; eauto. intros x Hx. apply in_or_app. auto. }
      assert (Hres : agree w (map t_name fas ++ S) ((if b then bind_e1 w fas else bind_e2 w fas) eb)
                                                 ((if b then bind_e1 w fas else bind_e2 w fas) etb)).
      { unfold sb in Hfas. destruct b; [apply (Hfas t_e1) | apply (Hfas t_e2)]; intros t Ht; specialize (Hf t Ht);
          apply andb_prop in Hf; tauto. }
      split.
      + eexists. split; [reflexivity | exact Hres].
      + intros eo' tr' [= <- <-] v Hv. destruct (bset_fold_In _ _ _ Hv) as [Hv'|Hv']; [right | left; exact Hv'].
        apply in_rev in Hv'. apply (bval_ok_agree S eb _ v (Hcv v Hv')); [|exact (Stb eb tb eq_refl v Hv')].
        intros x Hx. apply eval_var_lookup. symmetry. destruct b; unfold bind_e1, bind_e2; apply lookup_bind_notin; intros Hi; exact (Djf x Hi Hx).
    - split; [exact I | discriminate].
    - split; [|discriminate]. intros Hh Hm.
      assert (Hok : forall v, In v common -> bval_ok et v).
      { intros v Hv. apply bval_ok_wrap; [exact Hm|]. destruct (cse_common_In _ _ _ _ Hv) as (_ & _ & [Hx|Hx]); [congruence | exact Hx]. }
      destruct (Hhoist Hok) as [eth [Eh Hae]]. rewrite Eh, (Htgt eth Hae).
      destruct (HQb eth Hae) as [Smb _]. cbn [simc] in Smb. now rewrite (Smb Hh Hm).
    - split; [|discriminate]. intros Hh Hm.
      assert (Hok : forall v, In v common -> bval_ok et v).
      { intros v Hv. apply bval_ok_wrap; [exact Hm|]. destruct (cse_common_In _ _ _ _ Hv) as (_ & _ & [Hx|Hx]); [congruence | exact Hx]. }
      destruct (Hhoist Hok) as [eth [Eh Hae]]. rewrite Eh, (Htgt eth Hae).
      destruct (HQb eth Hae) as [Smb _]. cbn [simc] in Smb. now rewrite (Smb Hh Hm).
    - split; [exact I | discriminate].
    - split; [exact I | discriminate].
    - split; [|discriminate]. intros Hh Hm.
      assert (Hok : forall v, In v common -> bval_ok et v).
      { intros v Hv. apply bval_ok_wrap; [exact Hm|]. destruct (cse_common_In _ _ _ _ Hv) as (_ & _ & [Hx|Hx]); [congruence | exact Hx]. }
      destruct (Hhoist Hok) as [eth [Eh Hae]]. rewrite Eh, (Htgt eth Hae).
      destruct (HQb eth Hae) as [Smb _]. cbn [simc] in Smb. now rewrite (Smb Hh Hm).
  Qed.

  Theorem cse_dyn_all : (forall st, PC st) /\ (forall ss, QC ss).
  Proof.
    apply stmt_stmts_ind2.
    - exact PC_SBin.
    - exact PC_SNot.
    - exact PC_SPrim.
    - intros f args ret. apply PC_other. reflexivity.
    - exact PC_SIf.
    - intros c inv ss _. apply PC_other. reflexivity.
    - intros e. apply PC_other. reflexivity.
    - intros lvs ss bc _. apply PC_other. reflexivity.
    - intros x tn es. apply PC_other. reflexivity.
    - intros x. apply PC_other. reflexivity.
    - intros x e. apply PC_other. reflexivity.
    - exact QC_nil.
    - exact QC_cons.
  Qed.
End CseDyn.

(* every run but Stuck / Overflow: a run that ends normally is reproduced in every checking mode, and with the
   division filter (hd = false) on the target semantics also the runs that trap, abort or run out of fuel *)
Lemma cse_sem_sim m w hd fuel sup f f' sup' args :
  wf_func f = true -> no_break_l (f_body f) = true -> fresh_for sup f -> cse_gen hd sup f = Some (f', sup') ->
  match sem m w f args fuel with
  | Stuck | Overflow => True
  | Done v tr => sem m w f' args fuel = Done v tr
  | o => hd = false -> m = Wrap -> sem m w f' args fuel = o
  end.
Proof.
  unfold wf_func, cse_gen. intros H Hnb (Hns & Hds) E. apply andb_prop in H. destruct H as [H Hret]. apply andb_prop in H. destruct H as [Hnd Hsc].
  apply nodupb_NoDup in Hnd. destruct (cse_stmts hd (f_body f) sup) as [[[body set] sup1]|] eqn:Es; [|discriminate].
  injection E as <- <-. destruct (cse_dyn_all m w fuel hd) as [_ HQ].
  destruct (HQ (f_body f) sup body set sup1 (f_params f) (init_env f args) (init_env f args) [] Es Hsc Hnb) as [Sim _].
  { eapply NoDup_app_r; eauto. }
  { intros x Hb Hp. eapply (NoDup_app_disj _ _ x Hnd); eauto. }
  { intros x Hx Hi. apply (Hds x Hx). rewrite !in_app_iff in *. tauto. }
  { intros x _. reflexivity. }
  unfold sem. cbn [f_body f_params f_ret].
  change (init_env {| f_params := f_params f; f_body := body; f_ret := f_ret f |} args) with (init_env f args).
  destruct (exec_block m w fuel (f_body f) (init_env f args) []) as [e1 t|v e1 t|t|t| | |]; cbn [simc] in Sim; auto.
  - destruct Sim as [e2 [-> Ha]]. f_equal. symmetry. apply (ProofsScope.agree_eval w _ e1 e2 (f_ret f) Ha Hret).
  - intros Hh Hm. now rewrite (Sim Hh Hm).
  - intros Hh Hm. now rewrite (Sim Hh Hm).
  - intros Hh Hm. now rewrite (Sim Hh Hm).
Qed.

Theorem cse_preserves_mode m w hd sup f f' sup' args fuel v tr :
  wf_func f = true -> no_break_l (f_body f) = true -> fresh_for sup f -> cse_gen hd sup f = Some (f', sup') ->
  sem m w f args fuel = Done v tr -> sem m w f' args fuel = Done v tr.
Proof. intros W N F E Hs. pose proof (cse_sem_sim m w hd fuel sup f f' sup' args W N F E) as H. rewrite Hs in H. exact H. Qed.

Theorem cse_preserves_add w hd sup f f' sup' :
  wf_func f = true -> no_break_l (f_body f) = true -> fresh_for sup f -> cse_gen hd sup f = Some (f', sup') -> refines_add w f' f.
Proof. intros W N F E args fuel v tr Hs. exact (cse_preserves_mode Add w hd sup f f' sup' args fuel v tr W N F E Hs). Qed.

(* the pass as it is now, on the target semantics: same value, same calls, same trap, same fuel *)
Theorem cse_preserves w sup f f' args fuel :
  wf_func f = true -> no_break_l (f_body f) = true -> fresh_for sup f -> cse sup f = Some f' ->
  same_unless_stuck (sem Wrap w f' args fuel) (sem Wrap w f args fuel).
Proof.
  unfold cse. intros W N F E. destruct (cse_gen false sup f) as [[f1 sup1]|] eqn:Eg; [|discriminate]. injection E as <-.
  pose proof (cse_sem_sim Wrap w false fuel sup f f1 sup1 args W N F Eg) as H.
  destruct (sem Wrap w f args fuel) eqn:Es; cbn; auto.
  exfalso. unfold sem in Es. destruct (wrap_not_ovf w fuel) as [_ Hn].
  specialize (Hn (f_body f) (init_env f args) []). destruct (exec_block Wrap w fuel (f_body f) _ _); cbn in *; try discriminate; auto.
Qed.

(* before fix 32a0c6b (finding C02-cse-hoists-trapping-division): a division computed in both branches was
   hoisted in front of the if-else, so that it trapped before the call that precedes it inside the branch *)
Definition wit_div : func :=
  mkfunc [1%N; 2%N; 3%N]
    [SIf (EVar 1%N) [SCall 9%N [] None; SBin 4%N DIV (EVar 2%N) (EVar 3%N)] [SBin 5%N DIV (EVar 2%N) (EVar 3%N)]
         [(6%N, EVar 4%N, EVar 5%N)]]
    (EVar 6%N).
Definition wit_div_world : world := mkworld (fun _ _ _ => Some 0) (fun _ => 0) (fun _ => 0) (fun _ v => v) (fun _ _ => 0).
Lemma cse_old_hoists_division_refuted :
  exists f sup f', wf_func f = true /\ no_break_l (f_body f) = true /\ cse_old sup f = Some f' /\
    sem Wrap wit_div_world f [1; 7; 0] 10 = Trap [(9%N, [])] /\ sem Wrap wit_div_world f' [1; 7; 0] 10 = Trap [] /\
    cse sup f = Some f.
Proof. exists wit_div, [100%N]. eexists. repeat split; vm_compute; reflexivity. Qed.
