(* C02deep — common subexpression elimination (Passes.cse): static facts.  The values hoisted in front of an
   if-else only mention names of the enclosing scope, the fresh names come from the supply in order, and the
   output is well formed again. *)
From Coq Require Import ZArith NArith List Bool Lia.
Import ListNotations.
From SV Require Import Common.Int32 C02deep.Syntax C02deep.Sem C02deep.Passes C02deep.ProofsSem C02deep.ProofsScope
  C02deep.ProofsDceSets C02deep.ProofsDce C02deep.ProofsCcpRel C02deep.ProofsCcp C02deep.ProofsCcpFull C02deep.ProofsLvn C02deep.ProofsWf.
Open Scope Z_scope.

(* ---- the sets of values ---- *)
Definition bsame (v u : bval) : Prop :=
  match v, u with
  | BVBin op e1 e2, BVBin op' e1' e2' => op = op' /\ expr_eq e1 e1' = true /\ expr_eq e2 e2' = true
  | BVNot e, BVNot e' => expr_eq e e' = true
  | BVPrim p e, BVPrim p' e' => p = p' /\ expr_eq e e' = true
  | _, _ => False
  end.
Lemma lexc_Eq a b : lexc a b = Eq -> a = Eq /\ b = Eq.
Proof. destruct a; cbn; auto; discriminate. Qed.
Lemma binop_rank_inj a b : binop_rank a = binop_rank b -> a = b.
Proof. destruct a, b; cbn; congruence. Qed.
Lemma bval_cmp_same v u : bval_cmp v u = Eq -> bsame v u.
Proof.
  destruct v as [op e1 e2|e|p e], u as [op' e1' e2'|e'|p' e']; cbn [bval_cmp bsame bval_rank].
  - intros H. apply lexc_Eq in H. destruct H as [H1 H]. apply lexc_Eq in H. destruct H as [H2 H3].
    apply N.compare_eq in H1. apply binop_rank_inj in H1. unfold expr_eq. rewrite H2, H3. auto.
  - discriminate.
  - destruct p'; discriminate.
  - discriminate.
  - intros H. unfold expr_eq. now rewrite H.
  - destruct p'; discriminate.
  - destruct p; discriminate.
  - destruct p; discriminate.
  - destruct p, p'; try discriminate; intros H.
    + apply lexc_Eq in H. destruct H as [H1 H]. apply lexc_Eq in H. destruct H as [H2 H3].
      apply N.compare_eq in H1, H3. subst. unfold expr_eq. now rewrite H2.
    + apply lexc_Eq in H. destruct H as [H1 H2]. apply N.compare_eq in H1. subst. unfold expr_eq. now rewrite H2.
    + apply lexc_Eq in H. destruct H as [H1 H2]. apply N.compare_eq in H1. subst. unfold expr_eq. now rewrite H2.
Qed.

Lemma bset_insert_In v s u : In u (bset_insert v s) -> u = v \/ In u s.
Proof.
  induction s as [|a r IH]; cbn; [intros [<-|[]]; auto|].
  destruct (bval_cmp v a); cbn; [auto | intros [<-|H]; auto|].
  intros [<-|H]; [auto|]. destruct (IH H); auto.
Qed.
Lemma bset_insert_mono v s u : In u s -> In u (bset_insert v s).
Proof.
  induction s as [|a r IH]; cbn; [intros []|]. destruct (bval_cmp v a); cbn; [auto | auto|].
  intros [<-|H]; auto.
Qed.
Lemma bset_fold_In l : forall s u, In u (fold_left (fun s v => bset_insert v s) l s) -> In u l \/ In u s.
Proof.
  induction l as [|a r IH]; cbn; [auto|]. intros s u H. destruct (IH _ _ H) as [H1|H1]; [auto|].
  destruct (bset_insert_In _ _ _ H1); auto.
Qed.
Lemma bset_fold_mono l : forall s u, In u s -> In u (fold_left (fun s v => bset_insert v s) l s).
Proof. induction l as [|a r IH]; cbn; [auto|]. intros s u H. apply IH. now apply bset_insert_mono. Qed.
Lemma bset_mem_In v s : bset_mem v s = true -> exists u, In u s /\ bsame v u.
Proof.
  unfold bset_mem. rewrite existsb_exists. intros [u [Hu E]]. exists u. split; [exact Hu|].
  apply bval_cmp_same. destruct (bval_cmp v u); [reflexivity | discriminate | discriminate].
Qed.
Lemma cse_common_In hd set1 set2 v : In v (cse_common hd set1 set2) ->
  In v set1 /\ (exists u, In u set2 /\ bsame v u) /\ (hd = true \/ bval_divmod v = false).
Proof.
  unfold cse_common. rewrite !filter_In. intros [[H1 H2] H3]. split; [exact H1|]. split; [now apply bset_mem_In|].
  destruct hd; [auto|]. right. cbn in H3. now apply negb_true_iff in H3.
Qed.
Lemma take_names_spec vs : forall sup named sup', take_names vs sup = Some (named, sup') ->
  map snd named = vs /\ sup = map fst named ++ sup'.
Proof.
  induction vs as [|v r IH]; intros sup named sup'; cbn.
  - intros [= <- <-]. auto.
  - destruct sup as [|x s]; [discriminate|]. destruct (take_names r s) as [[l s']|] eqn:E; [|discriminate].
    intros [= <- <-]. destruct (IH _ _ _ E) as [A B]. cbn. now rewrite A, B.
Qed.

(* the variables a value mentions *)
Definition vars_in (v : bval) (L : list name) : Prop := forall e y, In e (bexprs v) -> e = EVar y -> In y L.
Lemma vars_in_mono v L L' : vars_in v L -> incl' L L' -> vars_in v L'.
Proof. intros H Hi e y He Ey. eauto. Qed.
Lemma bsame_vars v u L : bsame v u -> vars_in u L -> vars_in v L.
Proof.
  destruct v as [op e1 e2|e|p e], u as [op' e1' e2'|e'|p' e']; cbn; try contradiction.
  - intros (_ & E1 & E2) H e y [<-|[<-|[]]] Ey; subst.
    + apply (H (EVar y) y); [left; now apply expr_eq_var | reflexivity].
    + apply (H (EVar y) y); [right; left; now apply expr_eq_var | reflexivity].
  - intros E H e0 y [<-|[]] Ey; subst. apply (H (EVar y) y); [left; now apply expr_eq_var | reflexivity].
  - intros (_ & E) H e0 y [<-|[]] Ey; subst. apply (H (EVar y) y); [left; now apply expr_eq_var | reflexivity].
Qed.

Lemma stmt_of_bval_facts x v : defs (stmt_of_bval x v) = [x] /\ binders (stmt_of_bval x v) = [x] /\ no_break (stmt_of_bval x v) = true.
Proof. destruct v as [op e1 e2|e|p e]; cbn; [destruct (unwrapped op e1 e2) as [[op' a] b]|..]; auto. Qed.
Lemma stmt_of_bval_scoped x v S : vars_in v S -> scoped S (stmt_of_bval x v) = true.
Proof.
  intros H. assert (Hs : forall e, In e (bexprs v) -> in_scope S e = true).
  { intros e He. destruct e; try reflexivity. apply in_scope_var. eapply H; eauto. }
  destruct v as [op e1 e2|e|p e]; cbn [stmt_of_bval bexprs] in *.
  - assert (H1 : in_scope S e1 = true) by (apply Hs; left; reflexivity).
    assert (H2 : in_scope S e2 = true) by (apply Hs; right; left; reflexivity).
    unfold unwrapped. destruct op; cbn; try (now rewrite H1, H2).
    destruct e2; cbn in *; try (now rewrite H1, ?H2). destruct (wrap32 z =? MIN); cbn; now rewrite H1.
  - cbn. apply Hs. left; reflexivity.
  - cbn. apply Hs. left; reflexivity.
Qed.

(* the hoisted statements *)
Definition hoisted (named : list (name * bval)) : list stmt := map (fun p => stmt_of_bval (fst p) (snd p)) named.
Lemma hoisted_defs named : defs_l (hoisted named) = rev (map fst named).
Proof.
  induction named as [|[x v] r IH]; cbn; [reflexivity|]. fold (hoisted r). rewrite IH.
  destruct (stmt_of_bval_facts x v) as (-> & _ & _). reflexivity.
Qed.
Lemma hoisted_binders named : binders_l (hoisted named) = map fst named.
Proof.
  induction named as [|[x v] r IH]; cbn; [reflexivity|]. fold (hoisted r). rewrite IH.
  destruct (stmt_of_bval_facts x v) as (_ & -> & _). reflexivity.
Qed.
Lemma hoisted_no_break named : no_break_l (hoisted named) = true.
Proof.
  induction named as [|[x v] r IH]; cbn; [reflexivity|]. fold (hoisted r). rewrite IH.
  destruct (stmt_of_bval_facts x v) as (_ & _ & ->). reflexivity.
Qed.
Lemma hoisted_scoped named : forall S, (forall p, In p named -> vars_in (snd p) S) -> scoped_l S (hoisted named) = true.
Proof.
  induction named as [|[x v] r IH]; intros S H; cbn; [reflexivity|]. fold (hoisted r).
  rewrite (stmt_of_bval_scoped x v S (H (x, v) (or_introl eq_refl))). cbn. apply IH.
  intros p Hp. eapply vars_in_mono; [apply H; right; exact Hp|]. intros y Hy. apply in_or_app. auto.
Qed.

Definition PS (st : stmt) : Prop := forall hd set sup out set' sup' S,
  cse_stmt hd st set sup = Some (out, set', sup') -> scoped S st = true -> NoDup (binders st) -> disj (binders st) S ->
  exists used, sup = used ++ sup' /\ scoped_l S out = true /\
    (forall x, In x (defs st) -> In x (defs_l out)) /\ (forall x, In x (defs_l out) -> In x (defs st) \/ In x used) /\
    (forall x, In x (binders_l out) <-> In x (binders st) \/ In x used) /\
    (NoDup used -> disj used (binders st) -> NoDup (binders_l out)) /\
    (forall v, In v set -> In v set') /\ (forall v, In v set' -> In v set \/ vars_in v S) /\
    (no_break st = true -> no_break_l out = true).
Definition QS (ss : list stmt) : Prop := forall hd sup out set sup' S,
  cse_stmts hd ss sup = Some (out, set, sup') -> scoped_l S ss = true -> NoDup (binders_l ss) -> disj (binders_l ss) S ->
  exists used, sup = used ++ sup' /\ scoped_l S out = true /\
    (forall x, In x (defs_l ss) -> In x (defs_l out)) /\ (forall x, In x (defs_l out) -> In x (defs_l ss) \/ In x used) /\
    (forall x, In x (binders_l out) <-> In x (binders_l ss) \/ In x used) /\
    (NoDup used -> disj used (binders_l ss) -> NoDup (binders_l out)) /\
    (forall v, In v set -> vars_in v (binders_l ss ++ S)) /\
    (no_break_l ss = true -> no_break_l out = true).

(* statements that are kept as they are *)
Lemma PS_plain st (set set' : bset) :
  (forall v, In v set -> In v set') -> (forall S, scoped S st = true -> forall v, In v set' -> In v set \/ vars_in v S) ->
  forall sup S, scoped S st = true -> NoDup (binders st) ->
  exists used, sup = used ++ sup /\ scoped_l S [st] = true /\
    (forall x, In x (defs st) -> In x (defs_l [st])) /\ (forall x, In x (defs_l [st]) -> In x (defs st) \/ In x used) /\
    (forall x, In x (binders_l [st]) <-> In x (binders st) \/ In x used) /\
    (NoDup used -> disj used (binders st) -> NoDup (binders_l [st])) /\
    (forall v, In v set -> In v set') /\ (forall v, In v set' -> In v set \/ vars_in v S) /\
    (no_break st = true -> no_break_l [st] = true).
Proof.
  intros Hm Hv sup S Hsc Hnd. exists []. cbn [app defs_l binders_l scoped_l no_break_l]. rewrite Hsc, !app_nil_r.
  split; [reflexivity|]. split; [reflexivity|]. split; [intros x; cbn; tauto|]. split; [intros x; cbn; tauto|]. split; [intros x; cbn; tauto|].
  split; [auto|]. split; [exact Hm|]. split; [exact (Hv S Hsc)|]. intros ->. reflexivity.
Qed.

Lemma cse_stmt_SIf hd c s1 s2 fas set sup :
  cse_stmt hd (SIf c s1 s2 fas) set sup =
  match cse_stmts hd s1 sup with
  | None => None
  | Some (s1', set1, sup1) =>
      match cse_stmts hd s2 sup1 with
      | None => None
      | Some (s2', set2, sup2) =>
          match take_names (rev (cse_common hd set1 set2)) sup2 with
          | None => None
          | Some (named, sup3) =>
              Some (hoisted (rev named) ++ [SIf c s1' s2' fas],
                    fold_left (fun s v => bset_insert v s) (rev (cse_common hd set1 set2)) set, sup3)
          end
      end
  end.
Proof. reflexivity. Qed.

Lemma PS_SIf c s1 s2 fas : QS s1 -> QS s2 -> PS (SIf c s1 s2 fas).
Proof.
  intros HQ1 HQ2 hd set sup out set' sup' S H Hsc Hnd Hdj. rewrite cse_stmt_SIf in H.
  rewrite scoped_SIf in Hsc. apply andb_prop in Hsc. destruct Hsc as [Hsc Hf].
  apply andb_prop in Hsc. destruct Hsc as [Hsc Hs2]. apply andb_prop in Hsc. destruct Hsc as [Hc Hs1].
  rewrite forallb_forall in Hf. rewrite binders_SIf in *.
  assert (Hnd1 : NoDup (binders_l s1)) by (eapply NoDup_app_l; eauto).
  assert (Hnd2 : NoDup (binders_l s2)) by (eapply NoDup_app_l, NoDup_app_r; eauto).
  assert (D12 : forall x, In x (binders_l s1) -> In x (binders_l s2) -> False).
  { intros x H1 H2. eapply (NoDup_app_disj _ _ x Hnd); eauto. rewrite in_app_iff. auto. }
  assert (Dj1 : disj (binders_l s1) S) by (intros x Hx; apply Hdj; rewrite !in_app_iff; auto).
  assert (Dj2 : disj (binders_l s2) S) by (intros x Hx; apply Hdj; rewrite !in_app_iff; auto).
  destruct (cse_stmts hd s1 sup) as [[[s1' set1] sup1]|] eqn:E1; [|discriminate].
  destruct (cse_stmts hd s2 sup1) as [[[s2' set2] sup2]|] eqn:E2; [|discriminate].
  destruct (take_names _ sup2) as [[named sup3]|] eqn:Et; [|discriminate]. injection H as <- <- <-.
  destruct (HQ1 hd sup s1' set1 sup1 S E1 Hs1 Hnd1 Dj1) as (u1 & -> & A1 & A2 & A2' & A3 & A4 & A5 & A6).
  destruct (HQ2 hd sup1 s2' set2 sup2 S E2 Hs2 Hnd2 Dj2) as (u2 & -> & B1 & B2 & B2' & B3 & B4 & B5 & B6).
  destruct (take_names_spec _ _ _ _ Et) as [Tn ->].
  set (common := cse_common hd set1 set2) in *.
  assert (Hcv : forall v, In v common -> vars_in v S).
  { intros v Hv. destruct (cse_common_In _ _ _ _ Hv) as (Hv1 & (u & Hu & Hsame) & _).
    pose proof (A5 v Hv1) as V1. pose proof (bsame_vars v u _ Hsame (B5 u Hu)) as V2.
    intros e y He Ey. specialize (V1 e y He Ey). specialize (V2 e y He Ey). rewrite in_app_iff in V1, V2.
    destruct V1 as [V1|V1]; [|exact V1]. destruct V2 as [V2|V2]; [|exact V2]. destruct (D12 y V1 V2). }
  assert (Hnamed : forall p, In p (rev named) -> vars_in (snd p) S).
  { intros p Hp. apply Hcv. apply in_rev in Hp. apply in_rev. rewrite <- Tn. now apply in_map. }
  set (hn := map fst named) in *.
  assert (Hhd : defs_l (hoisted (rev named)) = hn) by (rewrite hoisted_defs, map_rev, rev_involutive; reflexivity).
  assert (Hhb : forall x, In x (binders_l (hoisted (rev named))) <-> In x hn).
  { intros x. rewrite hoisted_binders, map_rev. symmetry. apply in_rev. }
  exists (u1 ++ u2 ++ hn). split; [now rewrite <- !app_assoc|].
  assert (HS1 : incl' S (hn ++ S)) by (intros x Hx; apply in_or_app; auto).
  split; [|split; [|split; [|split; [|split; [|split; [|split]]]]]].
  - rewrite scoped_l_app, (hoisted_scoped _ S Hnamed), Hhd. cbn [andb scoped_l]. rewrite andb_true_r, scoped_SIf.
    rewrite (in_scope_mono _ _ _ HS1 Hc), (scoped_l_mono _ _ _ HS1 A1), (scoped_l_mono _ _ _ HS1 B1). cbn [andb].
    rewrite forallb_forall. intros t Ht. specialize (Hf t Ht). apply andb_prop in Hf. destruct Hf as [F1 F2].
    apply andb_true_intro. split.
    + eapply in_scope_mono; [|exact F1]. intros x. rewrite !in_app_iff. intros [Hx|Hx]; [|auto]. left. apply A2. auto.
    + eapply in_scope_mono; [|exact F2]. intros x. rewrite !in_app_iff. intros [Hx|Hx]; [|auto]. left. apply B2. auto.
  - intros x. rewrite defs_l_app, in_app_iff. cbn [defs_l defs app]. tauto.
  - intros x. rewrite defs_l_app, in_app_iff, Hhd. cbn [defs_l defs app]. rewrite !in_app_iff. tauto.
  - intros x. rewrite binders_l_app, in_app_iff, Hhb. cbn [binders_l]. rewrite binders_SIf, app_nil_r, !in_app_iff, A3, B3. tauto.
  - intros Hndu Hdju. rewrite binders_l_app. cbn [binders_l]. rewrite binders_SIf, app_nil_r.
    assert (Nu1 : NoDup u1) by (eapply NoDup_app_l; eauto).
    assert (Nu2 : NoDup u2) by (eapply NoDup_app_l, NoDup_app_r; eauto).
    assert (Nh : NoDup hn) by (eapply NoDup_app_r, NoDup_app_r; eauto).
    assert (U12 : forall x, In x u1 -> In x u2 -> False).
    { intros x H1 H2. eapply (NoDup_app_disj _ _ x Hndu); eauto. rewrite in_app_iff. auto. }
    assert (U1h : forall x, In x u1 -> In x hn -> False).
    { intros x H1 H2. eapply (NoDup_app_disj _ _ x Hndu); eauto. rewrite in_app_iff. auto. }
    assert (U2h : forall x, In x u2 -> In x hn -> False).
    { intros x H1 H2. apply NoDup_app_r in Hndu. eapply (NoDup_app_disj _ _ x Hndu); eauto. }
    assert (Ub : forall x, In x (u1 ++ u2 ++ hn) -> In x (binders_l s1 ++ binders_l s2 ++ map t_name fas) -> False) by exact Hdju.
    apply NoDup_app_intro.
    + rewrite hoisted_binders, map_rev. apply NoDup_rev. exact Nh.
    + apply NoDup_app_intro; [|apply NoDup_app_intro|].
      * apply A4; [exact Nu1|]. intros x H1 H2. apply (Ub x); rewrite !in_app_iff; auto.
      * apply B4; [exact Nu2|]. intros x H1 H2. apply (Ub x); rewrite !in_app_iff; auto.
      * eapply NoDup_app_r, NoDup_app_r; eauto.
      * intros x H1 H2. apply B3 in H1. destruct H1 as [H1|H1].
        -- apply NoDup_app_r in Hnd. eapply (NoDup_app_disj _ _ x Hnd); eauto.
        -- apply (Ub x); rewrite !in_app_iff; auto.
      * intros x H1 H2. apply A3 in H1. apply in_app_or in H2. destruct H2 as [H2|H2].
        -- apply B3 in H2. destruct H1 as [H1|H1], H2 as [H2|H2].
           ++ apply (D12 x); auto.
           ++ apply (Ub x); rewrite !in_app_iff; auto.
           ++ apply (Ub x); rewrite !in_app_iff; auto.
           ++ apply (U12 x); auto.
        -- destruct H1 as [H1|H1].
           ++ eapply (NoDup_app_disj _ _ x Hnd); eauto. rewrite in_app_iff. auto.
           ++ apply (Ub x); rewrite !in_app_iff; auto.
    + intros x H1 H2. apply Hhb in H1. rewrite !in_app_iff in H2. destruct H2 as [H2|[H2|H2]].
      * apply A3 in H2. destruct H2 as [H2|H2]; [apply (Ub x); rewrite !in_app_iff; auto | apply (U1h x); auto].
      * apply B3 in H2. destruct H2 as [H2|H2]; [apply (Ub x); rewrite !in_app_iff; auto | apply (U2h x); auto].
      * apply (Ub x); rewrite !in_app_iff; auto.
  - intros v Hv. now apply bset_fold_mono.
  - intros v Hv. destruct (bset_fold_In _ _ _ Hv) as [Hv'|Hv']; [|auto]. right. apply Hcv. now apply in_rev.
  - intros Hn. change (no_break (SIf c s1 s2 fas)) with (no_break_l s1 && no_break_l s2) in Hn. apply andb_prop in Hn.
    destruct Hn as [N1 N2]. rewrite no_break_l_app, hoisted_no_break. cbn [andb no_break_l].
    change (no_break (SIf c s1' s2' fas)) with (no_break_l s1' && no_break_l s2'). now rewrite (A6 N1), (B6 N2).
Qed.

Lemma vars_of_scoped_bin S x op e1 e2 : scoped S (SBin x op e1 e2) = true -> vars_in (BVBin op e1 e2) S.
Proof.
  cbn. intros H. apply andb_prop in H. destruct H as [A B]. intros e y [<-|[<-|[]]] ->; now apply in_scope_var.
Qed.

Lemma PS_SBin x op e1 e2 : PS (SBin x op e1 e2).
Proof.
  intros hd set sup out set' sup' S H Hsc Hnd Hdj. cbn [cse_stmt] in H. injection H as <- <- <-.
  apply PS_plain; auto.
  - intros v. apply bset_insert_mono.
  - intros S1 Hs1 v Hv. destruct (bset_insert_In _ _ _ Hv) as [->|Hv']; [right; exact (vars_of_scoped_bin S1 x op e1 e2 Hs1) | auto].
Qed.
Lemma PS_SNot x e : PS (SNot x e).
Proof.
  intros hd set sup out set' sup' S H Hsc Hnd Hdj. cbn [cse_stmt] in H. injection H as <- <- <-.
  apply PS_plain; auto.
  - intros v. apply bset_insert_mono.
  - intros S1 Hs1 v Hv. destruct (bset_insert_In _ _ _ Hv) as [->|Hv']; [right | auto].
    intros e' y [<-|[]] ->. cbn in Hs1. now apply in_scope_var.
Qed.
Lemma PS_SPrim x p e : PS (SPrim x p e).
Proof.
  intros hd set sup out set' sup' S H Hsc Hnd Hdj. cbn [cse_stmt] in H.
  assert (Hins : Some ([SPrim x p e], bset_insert (BVPrim p e) set, sup) = Some (out, set', sup') ->
    exists used, sup = used ++ sup' /\ scoped_l S out = true /\
    (forall x0, In x0 (defs (SPrim x p e)) -> In x0 (defs_l out)) /\ (forall x0, In x0 (defs_l out) -> In x0 (defs (SPrim x p e)) \/ In x0 used) /\
    (forall x0, In x0 (binders_l out) <-> In x0 (binders (SPrim x p e)) \/ In x0 used) /\
    (NoDup used -> disj used (binders (SPrim x p e)) -> NoDup (binders_l out)) /\
    (forall v, In v set -> In v set') /\ (forall v, In v set' -> In v set \/ vars_in v S) /\
    (no_break (SPrim x p e) = true -> no_break_l out = true)).
  { intros H0. injection H0 as <- <- <-. apply PS_plain; auto.
    - intros v. apply bset_insert_mono.
    - intros S1 Hs1 v Hv. destruct (bset_insert_In _ _ _ Hv) as [->|Hv']; [right | auto].
      intros e' y [<-|[]] ->. cbn in Hs1. now apply in_scope_var. }
  destruct p; try (apply Hins; exact H). injection H as <- <- <-. apply PS_plain; auto.
Qed.
Lemma PS_other st : (forall hd set sup, cse_stmt hd st set sup = Some ([st], set, sup)) -> PS st.
Proof.
  intros He hd set sup out set' sup' S H Hsc Hnd Hdj. rewrite He in H. injection H as <- <- <-. apply PS_plain; auto.
Qed.

Lemma QS_nil : QS [].
Proof.
  intros hd sup out set sup' S H _ _ _. cbn in H. injection H as <- <- <-. exists []. cbn.
  split; [reflexivity|]. split; [reflexivity|]. split; [auto|]. split; [auto|]. split; [tauto|]. split; [constructor|].
  split; [intros v []|auto].
Qed.
Lemma QS_cons st r : PS st -> QS r -> QS (st :: r).
Proof.
  intros Hs Hr hd sup out set sup' S H Hsc Hnd Hdj. cbn [cse_stmts] in H.
  cbn [scoped_l] in Hsc. apply andb_prop in Hsc. destruct Hsc as [Hsc1 Hsc2]. cbn [binders_l defs_l] in *.
  destruct (cse_stmts hd r sup) as [[[r' set_r] sup1]|] eqn:E1; [|discriminate].
  destruct (cse_stmt hd st set_r sup1) as [[[o set'] sup2]|] eqn:E2; [|discriminate]. injection H as <- <- <-.
  assert (Hnds : NoDup (binders st)) by (eapply NoDup_app_l; eauto).
  assert (Hndr : NoDup (binders_l r)) by (eapply NoDup_app_r; eauto).
  assert (Dsr : forall x, In x (binders st) -> In x (binders_l r) -> False) by (intros x; apply (NoDup_app_disj _ _ x Hnd)).
  assert (Djs : disj (binders st) S) by (intros x Hx; apply Hdj; rewrite in_app_iff; auto).
  assert (Djr : disj (binders_l r) (defs st ++ S)).
  { intros x Hx Hi. apply in_app_or in Hi. destruct Hi as [Hi|Hi]; [apply (Dsr x); auto; now apply defs_in_binders|].
    apply (Hdj x); auto. rewrite in_app_iff. auto. }
  destruct (Hr hd sup r' set_r sup1 (defs st ++ S) E1 Hsc2 Hndr Djr) as (ur & -> & A1 & A2 & A2' & A3 & A4 & A5 & A6).
  destruct (Hs hd set_r sup1 o set' sup2 S E2 Hsc1 Hnds Djs) as (us & -> & B1 & B2 & B2' & B3 & B4 & B5 & B6 & B7).
  exists (ur ++ us). split; [now rewrite <- app_assoc|]. split; [|split; [|split; [|split; [|split; [|split]]]]].
  - rewrite scoped_l_app, B1. cbn [andb]. eapply scoped_l_mono; [|exact A1].
    intros x. rewrite !in_app_iff. intros [Hx|Hx]; auto.
  - intros x. rewrite defs_l_app, !in_app_iff. intros [Hx|Hx]; auto.
  - intros x. rewrite defs_l_app, !in_app_iff. intros [Hx|Hx].
    + destruct (A2' x Hx); auto.
    + destruct (B2' x Hx); auto.
  - intros x. rewrite binders_l_app, !in_app_iff, A3, B3. tauto.
  - intros Hndu Hdju. rewrite binders_l_app.
    assert (Nur : NoDup ur) by (eapply NoDup_app_l; eauto). assert (Nus : NoDup us) by (eapply NoDup_app_r; eauto).
    apply NoDup_app_intro.
    + apply B4; [exact Nus|]. intros x H1 H2. apply (Hdju x); rewrite in_app_iff; auto.
    + apply A4; [exact Nur|]. intros x H1 H2. apply (Hdju x); rewrite in_app_iff; auto.
    + intros x H1 H2. apply B3 in H1. apply A3 in H2. destruct H1 as [H1|H1], H2 as [H2|H2].
      * apply (Dsr x); auto.
      * apply (Hdju x); rewrite in_app_iff; auto.
      * apply (Hdju x); rewrite in_app_iff; auto.
      * eapply (NoDup_app_disj _ _ x Hndu); eauto.
  - intros v Hv. destruct (B6 v Hv) as [Hv'|Hv'].
    + eapply vars_in_mono; [apply A5; exact Hv'|]. intros x. rewrite !in_app_iff. intros [Hx|[Hx|Hx]]; auto.
      left. left. now apply defs_in_binders.
    + eapply vars_in_mono; [exact Hv'|]. intros x Hx. rewrite !in_app_iff. auto.
  - intros Hn. cbn in Hn. apply andb_prop in Hn. destruct Hn as [N1 N2]. now rewrite no_break_l_app, (B7 N1), (A6 N2).
Qed.

Theorem cse_static_all : (forall st, PS st) /\ (forall ss, QS ss).
Proof.
  apply stmt_stmts_ind2.
  - exact PS_SBin.
  - exact PS_SNot.
  - exact PS_SPrim.
  - intros f args ret. apply PS_other. reflexivity.
  - exact PS_SIf.
  - intros c inv ss _. apply PS_other. reflexivity.
  - intros e. apply PS_other. reflexivity.
  - intros lvs ss bc _. apply PS_other. reflexivity.
  - intros x tn es. apply PS_other. reflexivity.
  - intros x. apply PS_other. reflexivity.
  - intros x e. apply PS_other. reflexivity.
  - exact QS_nil.
  - exact QS_cons.
Qed.

(* a supply of fresh names for f *)
Definition fresh_for (sup : list name) (f : func) : Prop :=
  NoDup sup /\ disj sup (f_params f ++ binders_l (f_body f)).

Theorem cse_wf hd sup f f' sup' :
  wf_func f = true -> fresh_for sup f -> cse_gen hd sup f = Some (f', sup') ->
  wf_func f' = true /\ fresh_for sup' f' /\ (no_break_l (f_body f) = true -> no_break_l (f_body f') = true).
Proof.
  unfold wf_func at 1, cse_gen. intros H (Hns & Hds) E. apply andb_prop in H. destruct H as [H Hret]. apply andb_prop in H. destruct H as [Hnd Hsc].
  apply nodupb_NoDup in Hnd. destruct (cse_stmts hd (f_body f) sup) as [[[body set] sup1]|] eqn:Es; [|discriminate].
  injection E as <- <-. destruct cse_static_all as [_ HQ].
  destruct (HQ (f_body f) hd sup body set sup1 (f_params f) Es Hsc) as (used & -> & A1 & A2 & A2' & A3 & A4 & A5 & A6).
  { eapply NoDup_app_r; eauto. }
  { intros x Hb Hp. eapply (NoDup_app_disj _ _ x Hnd); eauto. }
  assert (Nu : NoDup used) by (eapply NoDup_app_l; eauto).
  assert (Du : disj used (f_params f ++ binders_l (f_body f))) by (intros x Hx; apply Hds; apply in_or_app; auto).
  split; [|split].
  - unfold wf_func. cbn [f_params f_body f_ret]. rewrite A1, andb_true_r. apply andb_true_intro. split.
    + apply NoDup_nodupb. apply NoDup_app_intro; [eapply NoDup_app_l; eauto | |].
      * apply A4; [exact Nu|]. intros x H1 H2. apply (Du x H1). apply in_or_app. auto.
      * intros x Hp Hb. apply A3 in Hb. destruct Hb as [Hb|Hb]; [eapply (NoDup_app_disj _ _ x Hnd); eauto|].
        apply (Du x Hb). apply in_or_app. auto.
    + eapply in_scope_mono; [|exact Hret]. intros x. rewrite !in_app_iff. intros [Hx|Hx]; auto.
  - cbn [f_params f_body]. split; [eapply NoDup_app_r; eauto|]. intros x Hx Hi. apply in_app_or in Hi.
    destruct Hi as [Hi|Hi]; [apply (Hds x); [apply in_or_app; auto | apply in_or_app; auto]|].
    apply A3 in Hi. destruct Hi as [Hi|Hi]; [apply (Hds x); apply in_or_app; auto|].
    eapply (NoDup_app_disj _ _ x Hns); eauto.
  - exact A6.
Qed.
