(* C02deep — dead code elimination preserves the semantics of every well-formed function (wrapping mode),
   exactly: same return value, same trace, same trap, same fuel; the only runs on which nothing is claimed
   are those of ill-typed functions that get Stuck (a condition that is not 0/1, an escaping Break). *)
From Coq Require Import ZArith NArith List Bool Lia.
Import ListNotations.
From SV Require Import Common.Int32 C02deep.Syntax C02deep.Sem C02deep.Passes C02deep.ProofsSem C02deep.ProofsDceSets.
Open Scope Z_scope.

Definition agree_on (s Sc : list name) (e1 e2 : env) : Prop :=
  forall x, In x s -> In x Sc -> lookup x e1 = lookup x e2.

Lemma agree_on_sub s s' Sc Sc' e1 e2 :
  agree_on s' Sc' e1 e2 -> (forall x, In x s -> In x s') -> (forall x, In x Sc -> In x Sc') -> agree_on s Sc e1 e2.
Proof. intros H H1 H2 x Hx Hs. apply H; auto. Qed.

Lemma agree_eval w s Sc e1 e2 e :
  agree_on s Sc e1 e2 -> in_scope Sc e = true -> (forall x, e = EVar x -> In x s) -> eval w e1 e = eval w e2 e.
Proof.
  intros H Hs Hu. destruct e; try reflexivity. unfold eval. f_equal. apply H; auto. now apply in_scope_var.
Qed.

Lemma agree_evals w s Sc e1 e2 es :
  agree_on s Sc e1 e2 -> forallb (in_scope Sc) es = true -> (forall x, In (EVar x) es -> In x s) ->
  map (eval w e1) es = map (eval w e2) es.
Proof.
  intros H Hs Hu. apply map_ext_in. intros e He. rewrite forallb_forall in Hs.
  eapply agree_eval; eauto. intros x ->. auto.
Qed.

Lemma find_name_unique (l : list triple) t :
  NoDup (map t_name l) -> In t l -> find (fun t' => N.eqb (t_name t) (t_name t')) l = Some t.
Proof.
  induction l as [|a r IH]; cbn; intros Hnd Hi; [contradiction|]. inversion Hnd as [|? ? Hni Hnd']; subst.
  destruct Hi as [->|Hi]; [now rewrite N.eqb_refl|].
  destruct (N.eqb_spec (t_name t) (t_name a)) as [E|_]; [|auto].
  exfalso. apply Hni. rewrite <- E. now apply in_map.
Qed.
Lemma find_name_none (l : list triple) x :
  ~ In x (map t_name l) -> find (fun t' => N.eqb x (t_name t')) l = None.
Proof.
  induction l as [|a r IH]; cbn; intros H; [reflexivity|].
  destruct (N.eqb_spec x (t_name a)) as [->|_]; [exfalso; auto | auto].
Qed.

Section Dce.
  Variables (m : mode) (w : world) (fuel : nat).
  Notation exec := (exec m w fuel).
  Notation exec_block := (exec_block m w fuel).

  Definition sim (s Sn Sb : list name) (r1 r2 : res) : Prop :=
    match r1 with
    | RNext e1 t => exists e2, r2 = RNext e2 t /\ agree_on s Sn e1 e2
    | RBreak v e1 t => exists e2, r2 = RBreak v e2 t /\ agree_on s Sb e1 e2
    | RStuck | ROvf => True
    | o => r2 = o
    end.

  Definition exec_opt (o : option stmt) (e : env) (tr : trace) : res :=
    match o with Some st => exec st e tr | None => RNext e tr end.

  Definition pre (bs ds : list name) (S s : list name) : Prop :=
    NoDup bs /\ (forall x, In x bs -> ~ In x S) /\ (forall x, In x s -> In x bs -> In x ds).

  Definition P (st : stmt) : Prop := forall S s,
    scoped S st = true -> pre (binders st) (defs st) S s ->
    forall e1 e2 tr, agree_on (snd (dce_stmt st s)) S e1 e2 ->
    sim s (defs st ++ S) S (exec st e1 tr) (exec_opt (fst (dce_stmt st s)) e2 tr).
  Definition Q (ss : list stmt) : Prop := forall S s,
    scoped_l S ss = true -> pre (binders_l ss) (defs_l ss) S s ->
    forall e1 e2 tr, agree_on (snd (dce_stmts ss s)) S e1 e2 ->
    sim s (defs_l ss ++ S) S (exec_block ss e1 tr) (exec_block (fst (dce_stmts ss s)) e2 tr).

  (* assigning the same value to x on both sides, or only on the left when x is not live *)
  Lemma agree_bind_both s S x v e1 e2 :
    agree_on s S e1 e2 -> agree_on s (x :: S) ((x, v) :: e1) ((x, v) :: e2).
  Proof.
    intros H y Hy Hs. cbn. destruct (N.eqb_spec y x) as [->|N]; [reflexivity|].
    apply H; auto. destruct Hs; [congruence | assumption].
  Qed.
  Lemma agree_bind_left s S x v e1 e2 :
    agree_on s S e1 e2 -> ~ In x s -> agree_on s (x :: S) ((x, v) :: e1) e2.
  Proof.
    intros H Hn y Hy Hs. cbn. destruct (N.eqb_spec y x) as [->|N]; [contradiction|].
    apply H; auto. destruct Hs; [congruence | assumption].
  Qed.

  Lemma P_SBin x op a b : P (SBin x op a b).
  Proof.
    intros S s Hsc (Hnd & Hfr & Hint) e1 e2 tr Hag. cbn in Hsc. apply andb_prop in Hsc. destruct Hsc as [Ha Hb].
    cbn [dce_stmt] in *. destruct (negb (memb x s) && negb (is_divmod op)) eqn:E; cbn [fst snd exec_opt] in *.
    - apply andb_prop in E. destruct E as [E1 E2]. apply negb_true_iff in E1. apply memb_false in E1.
      cbn. destruct (chk m op && ovf op _ _); [exact I|]. destruct (rt_binop op _ _) eqn:R.
      + cbn. exists e2. split; auto. now apply agree_bind_left.
      + exfalso. destruct op; cbn in E2; try discriminate; cbn in R;
          repeat match type of R with (if ?c then _ else _) = _ => destruct c end; discriminate.
    - cbn.
      rewrite (agree_eval w _ _ _ _ a Hag Ha) by (intros y ->; rewrite !In_use_expr; auto).
      rewrite (agree_eval w _ _ _ _ b Hag Hb) by (intros y ->; rewrite !In_use_expr; auto).
      destruct (chk m op && ovf op _ _); [exact I|].
      destruct (rt_binop op _ _); cbn; [|reflexivity].
      eexists. split; [reflexivity|]. apply agree_bind_both.
      eapply agree_on_sub; eauto. intros y Hy. rewrite !In_use_expr. auto.
  Qed.
  Lemma P_SNot x a : P (SNot x a).
  Proof.
    intros S s Hsc (Hnd & Hfr & Hint) e1 e2 tr Hag. cbn in Hsc.
    cbn [dce_stmt] in *. destruct (negb (memb x s)) eqn:E; cbn [fst snd exec_opt] in *.
    - apply negb_true_iff in E. apply memb_false in E. cbn. exists e2. split; auto. now apply agree_bind_left.
    - cbn. rewrite (agree_eval w _ _ _ _ a Hag Hsc) by (intros y ->; rewrite !In_use_expr; auto).
      eexists. split; [reflexivity|]. apply agree_bind_both.
      eapply agree_on_sub; eauto. intros y Hy. rewrite !In_use_expr. auto.
  Qed.
  Lemma P_SPrim x p a : P (SPrim x p a).
  Proof.
    intros S s Hsc (Hnd & Hfr & Hint) e1 e2 tr Hag. cbn in Hsc.
    cbn [dce_stmt] in *. destruct (negb (memb x s)) eqn:E; cbn [fst snd exec_opt] in *.
    - apply negb_true_iff in E. apply memb_false in E. cbn. exists e2. split; auto. now apply agree_bind_left.
    - cbn. rewrite (agree_eval w _ _ _ _ a Hag Hsc) by (intros y ->; rewrite !In_use_expr; auto).
      eexists. split; [reflexivity|]. apply agree_bind_both.
      eapply agree_on_sub; eauto. intros y Hy. rewrite !In_use_expr. auto.
  Qed.
  Lemma P_SCall f args ret : P (SCall f args ret).
  Proof.
    intros S s Hsc (Hnd & Hfr & Hint) e1 e2 tr Hag. cbn in Hsc.
    cbn [dce_stmt fst snd exec_opt] in *. cbn.
    rewrite (agree_evals w _ _ _ _ args Hag Hsc) by (intros y Hy; rewrite In_use_exprs; auto).
    destruct (w_call w tr f _); cbn; [|reflexivity].
    assert (Hag' : agree_on s S e1 e2).
    { eapply agree_on_sub; eauto. intros y Hy. rewrite In_use_exprs. auto. }
    destruct ret as [r|]; cbn.
    - destruct (memb r s) eqn:M; cbn; eexists; (split; [reflexivity|]).
      + now apply agree_bind_both.
      + apply agree_bind_left; auto. now apply memb_false.
    - eexists. split; [reflexivity|]. exact Hag'.
  Qed.
  Lemma P_SStruct x tn es : P (SStruct x tn es).
  Proof.
    intros S s Hsc (Hnd & Hfr & Hint) e1 e2 tr Hag. cbn in Hsc.
    cbn [dce_stmt] in *. destruct (negb (memb x s)) eqn:E; cbn [fst snd exec_opt] in *.
    - apply negb_true_iff in E. apply memb_false in E. cbn. exists e2. split; auto. now apply agree_bind_left.
    - cbn. rewrite (agree_evals w _ _ _ _ es Hag Hsc) by (intros y Hy; rewrite In_use_exprs; auto).
      eexists. split; [reflexivity|]. apply agree_bind_both.
      eapply agree_on_sub; eauto. intros y Hy. rewrite In_use_exprs. auto.
  Qed.
  Lemma P_SLateDecl x : P (SLateDecl x).
  Proof. intros S s Hsc. discriminate Hsc. Qed.
  Lemma P_SLateAssign x a : P (SLateAssign x a).
  Proof. intros S s Hsc. discriminate Hsc. Qed.
  Lemma P_SBreak a : P (SBreak a).
  Proof.
    intros S s Hsc (Hnd & Hfr & Hint) e1 e2 tr Hag. cbn in Hsc.
    cbn [dce_stmt fst snd exec_opt] in *. cbn.
    rewrite (agree_eval w _ _ _ _ a Hag Hsc) by (intros y ->; rewrite !In_use_expr; auto).
    eexists. split; [reflexivity|]. eapply agree_on_sub; eauto. intros y Hy. rewrite In_use_expr. auto.
  Qed.

  Lemma Q_nil : Q [].
  Proof.
    intros S s _ _ e1 e2 tr Hag. cbn in *. exists e2. auto.
  Qed.

  Lemma NoDup_app_l {A} (a b : list A) : NoDup (a ++ b) -> NoDup a.
  Proof. induction a; cbn; intros H; [constructor|]. inversion H; subst. constructor; auto. rewrite in_app_iff in *. tauto. Qed.
  Lemma NoDup_app_r {A} (a b : list A) : NoDup (a ++ b) -> NoDup b.
  Proof. induction a; cbn; intros H; auto. inversion H; auto. Qed.
  Lemma NoDup_app_disj {A} (a b : list A) x : NoDup (a ++ b) -> In x a -> In x b -> False.
  Proof.
    induction a; cbn; intros H Ha Hb; [contradiction|]. inversion H; subst. destruct Ha as [->|Ha]; auto.
    rewrite in_app_iff in *. tauto.
  Qed.

  Lemma Q_cons st r : P st -> Q r -> Q (st :: r).
  Proof.
    intros Hs Hr S s Hsc (Hnd & Hfr & Hint) e1 e2 tr Hag.
    cbn [scoped_l] in Hsc. apply andb_prop in Hsc. destruct Hsc as [Hsc1 Hsc2].
    cbn [binders_l defs_l] in *.
    cbn [dce_stmts] in *.
    pose proof (dce_stmts_grows r s) as G. pose proof (dce_stmts_mono r s) as M.
    specialize (Hr (defs st ++ S) s Hsc2).
    destruct (dce_stmts r s) as [r' s1]. cbn [fst snd] in *.
    specialize (Hs S s1 Hsc1).
    destruct (dce_stmt st s1) as [o s2]. cbn [fst snd] in *.
    assert (Hpre1 : pre (binders st) (defs st) S s1).
    { split; [eapply NoDup_app_l; eauto|]. split; [intros x Hx; apply Hfr; rewrite in_app_iff; auto|].
      intros x Hx Hb. destruct (G x Hx) as [Hx'|Hx'].
      - specialize (Hint x Hx' ltac:(rewrite in_app_iff; auto)). rewrite in_app_iff in Hint. destruct Hint; auto.
        exfalso. eapply (NoDup_app_disj _ _ x Hnd); eauto. now apply defs_l_in_binders.
      - destruct (uses_l_scoped _ _ _ Hsc2 Hx') as [Hi|Hi].
        + rewrite in_app_iff in Hi. destruct Hi as [Hi|Hi]; auto. exfalso. apply (Hfr x); auto. rewrite in_app_iff; auto.
        + exfalso. eapply (NoDup_app_disj _ _ x Hnd); eauto. }
    assert (Hpre2 : pre (binders_l r) (defs_l r) (defs st ++ S) s).
    { split; [eapply NoDup_app_r; eauto|]. split.
      - intros x Hx. rewrite in_app_iff. intros [Hi|Hi].
        + eapply (NoDup_app_disj _ _ x Hnd); eauto. now apply defs_in_binders.
        + apply (Hfr x); auto. rewrite in_app_iff; auto.
      - intros x Hx Hb. specialize (Hint x Hx ltac:(rewrite in_app_iff; auto)). rewrite in_app_iff in Hint.
        destruct Hint; auto. exfalso. eapply (NoDup_app_disj _ _ x Hnd); eauto. now apply defs_in_binders. }
    specialize (Hs Hpre1 e1 e2 tr Hag). specialize (Hr Hpre2).
    rewrite exec_block_cons.
    assert (Hscope : forall x, In x ((defs_l r ++ defs st) ++ S) <-> In x (defs_l r ++ defs st ++ S)).
    { intros x. rewrite !in_app_iff. tauto. }
    destruct (exec st e1 tr) as [e1' tr'|v e1' tr'|tr'|tr'| | |] eqn:E1; cbn [sim] in Hs.
    - destruct Hs as [e2' [E2 Hag']].
      assert (Hstep : exec_block (match o with Some st' => st' :: r' | None => r' end) e2 tr = exec_block r' e2' tr').
      { destruct o as [st'|]; cbn [exec_opt] in E2.
        - rewrite exec_block_cons, E2. reflexivity.
        - injection E2 as <- <-. reflexivity. }
      rewrite Hstep. specialize (Hr e1' e2' tr' Hag').
      destruct (exec_block r e1' tr'); cbn [sim] in *; auto.
      + destruct Hr as [e3 [E3 H3]]. exists e3. split; auto. eapply agree_on_sub; eauto. intros x. apply Hscope.
      + destruct Hr as [e3 [E3 H3]]. exists e3. split; auto. eapply agree_on_sub; eauto.
        intros x Hx. rewrite in_app_iff. auto.
    - destruct Hs as [e2' [E2 Hag']]. destruct o as [st'|]; cbn [exec_opt] in E2; [|discriminate].
      rewrite exec_block_cons, E2. cbn. exists e2'. split; auto. eapply agree_on_sub; eauto.
    - destruct o as [st'|]; cbn [exec_opt] in Hs; [|discriminate]. rewrite exec_block_cons, Hs. reflexivity.
    - destruct o as [st'|]; cbn [exec_opt] in Hs; [|discriminate]. rewrite exec_block_cons, Hs. reflexivity.
    - exact I.
    - exact I.
    - destruct o as [st'|]; cbn [exec_opt] in Hs; [|discriminate]. rewrite exec_block_cons, Hs. reflexivity.
  Qed.
  Lemma sim_weaken s s' Sn Sn' Sb Sb' r1 r2 :
    sim s Sn Sb r1 r2 -> (forall x, In x s' -> In x s) ->
    (forall x, In x Sn' -> In x Sn) -> (forall x, In x Sb' -> In x Sb) ->
    sim s' Sn' Sb' r1 r2.
  Proof.
    intros H Hs H1 H2. destruct r1; cbn in *; auto.
    - destruct H as [e [E Ha]]. exists e. split; auto. eapply agree_on_sub; eauto.
    - destruct H as [e [E Ha]]. exists e. split; auto. eapply agree_on_sub; eauto.
  Qed.

  Lemma P_SSIf c inv ss : Q ss -> P (SSIf c inv ss).
  Proof.
    intros HQ S s Hsc (Hnd & Hfr & Hint) e1 e2 tr Hag.
    rewrite scoped_SSIf in Hsc. apply andb_prop in Hsc. destruct Hsc as [Hc Hsc].
    rewrite binders_SSIf in *. cbn [defs] in *.
    rewrite dce_SSIf in *. pose proof (dce_stmts_mono ss s) as M.
    specialize (HQ S s Hsc). destruct (dce_stmts ss s) as [ss' sa]. cbn [fst snd] in *.
    assert (Hpre : pre (binders_l ss) (defs_l ss) S s).
    { split; auto. split; auto. intros x Hx Hb. destruct (Hint x Hx Hb). }
    specialize (HQ Hpre). rewrite exec_SSIf.
    destruct (is_nil ss') eqn:En; cbn [fst snd exec_opt] in *.
    - destruct ss'; [|discriminate]. destruct (cond _) as [b|]; [|exact I].
      destruct (xorb b inv).
      + specialize (HQ e1 e2 tr Hag). rewrite exec_block_nil in HQ.
        eapply sim_weaken; eauto. intros x Hx. rewrite in_app_iff. auto.
      + cbn. exists e2. split; auto. eapply agree_on_sub; eauto.
    - rewrite exec_SSIf.
      rewrite <- (agree_eval w _ _ _ _ c Hag Hc) by (intros y ->; rewrite In_use_expr; auto).
      destruct (cond _) as [b|]; [|exact I].
      assert (Hag' : agree_on sa S e1 e2).
      { eapply agree_on_sub; eauto. intros y Hy. rewrite In_use_expr. auto. }
      destruct (xorb b inv).
      + specialize (HQ e1 e2 tr Hag'). eapply sim_weaken; eauto. intros x Hx. rewrite in_app_iff. auto.
      + cbn. exists e2. split; auto. eapply agree_on_sub; eauto.
  Qed.
  (* simultaneous assignment of the retained triples vs all triples *)
  Lemma triples_agree (g : triple -> expr) ts ts' s sa D S e1 e2 :
    agree_on sa (D ++ S) e1 e2 ->
    (forall x, In x s -> In x sa) ->
    NoDup (map t_name ts) -> NoDup (map t_name ts') ->
    (forall t, In t ts' -> In t ts) ->
    (forall t, In t ts -> In (t_name t) s -> In t ts') ->
    (forall t x, In t ts' -> g t = EVar x -> In x sa) ->
    (forall t, In t ts -> in_scope (D ++ S) (g t) = true) ->
    agree_on s (map t_name ts ++ S)
      (combine (map t_name ts) (map (fun t => eval w e1 (g t)) ts) ++ e1)
      (combine (map t_name ts') (map (fun t => eval w e2 (g t)) ts') ++ e2).
  Proof.
    intros Hag Hsub Hnd Hnd' Hin Hkeep Huse Hsc x Hx Hs.
    rewrite !lookup_bind. destruct (in_dec N.eq_dec x (map t_name ts)) as [Hi|Hn].
    - apply in_map_iff in Hi. destruct Hi as [t [<- Ht]].
      assert (Ht' : In t ts') by auto.
      rewrite (find_name_unique ts t Hnd Ht), (find_name_unique ts' t Hnd' Ht').
      eapply agree_eval; eauto.
    - rewrite (find_name_none ts x Hn), (find_name_none ts' x).
      + apply Hag; auto. rewrite in_app_iff in *. tauto.
      + intros Hi. apply Hn. apply in_map_iff in Hi. destruct Hi as [t [E Ht]]. apply in_map_iff. exists t. auto.
  Qed.

  Lemma P_SIf c s1 s2 fas : Q s1 -> Q s2 -> P (SIf c s1 s2 fas).
  Proof.
    intros HQ1 HQ2 S s Hsc (Hnd & Hfr & Hint) e1 e2 tr Hag.
    rewrite scoped_SIf in Hsc. apply andb_prop in Hsc. destruct Hsc as [Hsc Hf].
    apply andb_prop in Hsc. destruct Hsc as [Hsc Hs2]. apply andb_prop in Hsc. destruct Hsc as [Hc Hs1].
    rewrite forallb_forall in Hf.
    rewrite binders_SIf in *. cbn [defs] in *.
    assert (Hnd1 : NoDup (binders_l s1)) by (eapply NoDup_app_l; eauto).
    assert (Hnd2 : NoDup (binders_l s2)) by (eapply NoDup_app_l, NoDup_app_r; eauto).
    assert (Hndf : NoDup (map t_name fas)) by (eapply NoDup_app_r, NoDup_app_r; eauto).
    assert (D12 : forall x, In x (binders_l s1) -> In x (binders_l s2) -> False).
    { intros x H1 H2. eapply (NoDup_app_disj _ _ x Hnd); eauto. rewrite in_app_iff. auto. }
    assert (D1f : forall x, In x (binders_l s1) -> In x (map t_name fas) -> False).
    { intros x H1 H2. eapply (NoDup_app_disj _ _ x Hnd); eauto. rewrite in_app_iff. auto. }
    assert (D2f : forall x, In x (binders_l s2) -> In x (map t_name fas) -> False).
    { intros x H1 H2. apply NoDup_app_r in Hnd. eapply (NoDup_app_disj _ _ x Hnd); eauto. }
    assert (Fr1 : forall x, In x (binders_l s1) -> ~ In x S) by (intros x Hx; apply Hfr; rewrite !in_app_iff; auto).
    assert (Fr2 : forall x, In x (binders_l s2) -> ~ In x S) by (intros x Hx; apply Hfr; rewrite !in_app_iff; auto).
    assert (Frf : forall x, In x (map t_name fas) -> ~ In x S) by (intros x Hx; apply Hfr; rewrite !in_app_iff; auto).
    rewrite dce_SIf in *.
    destruct (dce_fas fas s) as [fas' sa] eqn:Ef.
    destruct (dce_fas_spec _ _ _ _ Ef) as (F1 & F2 & F3 & F4 & F5 & F6).
    pose proof (dce_stmts_mono s1 sa) as M1. pose proof (dce_stmts_grows s1 sa) as G1.
    specialize (HQ1 S sa Hs1). destruct (dce_stmts s1 sa) as [s1' sb]. cbn [fst snd] in *.
    pose proof (dce_stmts_mono s2 sb) as M2.
    specialize (HQ2 S sb Hs2). destruct (dce_stmts s2 sb) as [s2' sc]. cbn [fst snd] in *.
    (* uses of the final assignments *)
    assert (Hsa : forall x, In x sa -> In x (binders_l s1 ++ binders_l s2) ->
                  (In x (binders_l s1) -> In x (defs_l s1)) /\ (In x (binders_l s2) -> In x (defs_l s2))).
    { intros x Hx Hb. destruct (F5 x Hx) as [Hs|[t [Ht Hu]]].
      - exfalso. rewrite in_app_iff in Hb. specialize (Hint x Hs ltac:(rewrite !in_app_iff; tauto)).
        destruct Hb; eauto.
      - specialize (Hf t Ht). apply andb_prop in Hf. destruct Hf as [Hf1 Hf2]. destruct Hu as [E|E].
        + rewrite E in Hf1. apply in_scope_var in Hf1. rewrite in_app_iff in Hf1. destruct Hf1 as [Hd|Hd].
          * split; auto. intros H2. exfalso. apply (D12 x); auto. now apply defs_l_in_binders.
          * exfalso. rewrite in_app_iff in Hb. destruct Hb as [Hb|Hb]; [apply (Fr1 x) | apply (Fr2 x)]; auto.
        + rewrite E in Hf2. apply in_scope_var in Hf2. rewrite in_app_iff in Hf2. destruct Hf2 as [Hd|Hd].
          * split; auto. intros H1. exfalso. apply (D12 x); auto. now apply defs_l_in_binders.
          * exfalso. rewrite in_app_iff in Hb. destruct Hb as [Hb|Hb]; [apply (Fr1 x) | apply (Fr2 x)]; auto. }
    assert (Hpre1 : pre (binders_l s1) (defs_l s1) S sa).
    { split; auto. split; auto. intros x Hx Hb. apply (Hsa x Hx); auto. rewrite in_app_iff. auto. }
    assert (Hpre2 : pre (binders_l s2) (defs_l s2) S sb).
    { split; auto. split; auto. intros x Hx Hb. destruct (G1 x Hx) as [Ha|Hu].
      - apply (Hsa x Ha); auto. rewrite in_app_iff. auto.
      - exfalso. destruct (uses_l_scoped _ _ _ Hs1 Hu) as [Hi|Hi]; [apply (Fr2 x) | apply (D12 x)]; auto. }
    specialize (HQ1 Hpre1). specialize (HQ2 Hpre2).
    rewrite exec_SIf.
    destruct (cond (eval w e1 c)) as [b|] eqn:Ec; [|destruct (_ && _); exact I].
    (* what the optimised statement does, whether it was kept or dropped *)
    assert (Htgt : agree_on sc S e1 e2 /\
      exec_opt (fst (if is_nil s1' && is_nil s2' && is_nil fas' then (None, sc)
                     else (Some (SIf c s1' s2' fas'), use_expr c sc))) e2 tr =
      if b then match exec_block s1' e2 tr with RNext en' tr' => RNext (bind_e1 w fas' en') tr' | o => o end
      else match exec_block s2' e2 tr with RNext en' tr' => RNext (bind_e2 w fas' en') tr' | o => o end).
    { destruct (is_nil s1' && is_nil s2' && is_nil fas') eqn:En; cbn [fst snd exec_opt] in *.
      - split; auto. apply andb_prop in En. destruct En as [En E3]. apply andb_prop in En. destruct En as [E1' E2'].
        destruct s1', s2', fas'; try discriminate. destruct b; reflexivity.
      - split; [eapply agree_on_sub; eauto; intros y Hy; rewrite In_use_expr; auto|].
        rewrite exec_SIf.
        rewrite <- (agree_eval w _ _ _ _ c Hag Hc) by (intros y ->; rewrite In_use_expr; auto).
        rewrite Ec. destruct b; reflexivity. }
    destruct Htgt as [Hag' Htgt]. rewrite Htgt. clear Htgt.
    destruct b.
    - assert (Hag1 : agree_on sb S e1 e2) by (eapply agree_on_sub; eauto).
      specialize (HQ1 e1 e2 tr Hag1).
      destruct (exec_block s1 e1 tr) as [e1' tr'|v e1' tr'|tr'|tr'| | |]; cbn [sim] in *; auto.
      + destruct HQ1 as [e2' [-> Ha]]. eexists. split; [reflexivity|]. unfold bind_e1.
        eapply (triples_agree t_e1); eauto.
        * intros t x Ht E. apply (F4 t x Ht). left. exact E.
        * intros t Ht. specialize (Hf t Ht). apply andb_prop in Hf. tauto.
      + destruct HQ1 as [e2' [-> Ha]]. eexists. split; [reflexivity|]. eapply agree_on_sub; eauto.
      + now rewrite HQ1.
      + now rewrite HQ1.
      + now rewrite HQ1.
    - specialize (HQ2 e1 e2 tr Hag').
      destruct (exec_block s2 e1 tr) as [e1' tr'|v e1' tr'|tr'|tr'| | |]; cbn [sim] in *; auto.
      + destruct HQ2 as [e2' [-> Ha]]. eexists. split; [reflexivity|]. unfold bind_e2.
        assert (Ha' : agree_on sa (defs_l s2 ++ S) e1' e2') by (eapply agree_on_sub; eauto).
        eapply (triples_agree t_e2); eauto.
        * intros t x Ht E. apply (F4 t x Ht). right. exact E.
        * intros t Ht. specialize (Hf t Ht). apply andb_prop in Hf. tauto.
      + destruct HQ2 as [e2' [-> Ha]]. eexists. split; [reflexivity|]. eapply agree_on_sub; eauto.
      + now rewrite HQ2.
      + now rewrite HQ2.
      + now rewrite HQ2.
  Qed.
  (* two loops whose bodies and updates preserve a relation between the environments *)
  Definition step_sim (Iv K : env -> env -> Prop) (n1 n2 : env -> env) (r1 r2 : res) : Prop :=
    match r1 with
    | RNext e1 t => exists e2, r2 = RNext e2 t /\ Iv (n1 e1) (n2 e2)
    | RBreak v e1 t => exists e2, r2 = RBreak v e2 t /\ K e1 e2
    | RStuck | ROvf => True
    | o => r2 = o
    end.
  Lemma loop_sim (Iv K : env -> env -> Prop) b1 b2 n1 n2 :
    (forall e1 e2 tr, Iv e1 e2 -> step_sim Iv K n1 n2 (b1 e1 tr) (b2 e2 tr)) ->
    forall n e1 e2 tr, Iv e1 e2 ->
    step_sim (fun _ _ => False) K n1 n2 (loop b1 n1 n e1 tr) (loop b2 n2 n e2 tr).
  Proof.
    intros Hstep. induction n as [|n IH]; intros e1 e2 tr HI; cbn [loop]; [reflexivity|].
    specialize (Hstep e1 e2 tr HI).
    destruct (b1 e1 tr) as [e1' t|v e1' t|t|t| | |]; cbn [step_sim] in Hstep.
    - destruct Hstep as [e2' [-> HI']]. apply IH. exact HI'.
    - destruct Hstep as [e2' [-> HK]]. cbn. eauto.
    - rewrite Hstep. reflexivity.
    - rewrite Hstep. reflexivity.
    - exact I.
    - exact I.
    - rewrite Hstep. reflexivity.
  Qed.

  Lemma P_SWhile lvs ss bc : Q ss -> P (SWhile lvs ss bc).
  Proof.
    intros HQ S s Hsc (Hnd & Hfr & Hint) e1 e2 tr Hag.
    rewrite scoped_SWhile in Hsc. apply andb_prop in Hsc. destruct Hsc as [Hsc Hl2].
    apply andb_prop in Hsc. destruct Hsc as [Hl1 Hs]. rewrite forallb_forall in Hl1, Hl2.
    rewrite binders_SWhile in *. cbn [defs] in *.
    assert (HndL : NoDup (map t_name lvs)) by (eapply NoDup_app_l; eauto).
    assert (HndB : NoDup (binders_l ss)) by (eapply NoDup_app_l, NoDup_app_r; eauto).
    assert (DLB : forall x, In x (map t_name lvs) -> In x (binders_l ss) -> False).
    { intros x H1 H2. eapply (NoDup_app_disj _ _ x Hnd); eauto. rewrite in_app_iff. auto. }
    assert (DLc : forall x, In x (map t_name lvs) -> In x (opt_names bc) -> False).
    { intros x H1 H2. eapply (NoDup_app_disj _ _ x Hnd); eauto. rewrite in_app_iff. auto. }
    assert (DBc : forall x, In x (binders_l ss) -> In x (opt_names bc) -> False).
    { intros x H1 H2. apply NoDup_app_r in Hnd. eapply (NoDup_app_disj _ _ x Hnd); eauto. }
    assert (FrL : forall x, In x (map t_name lvs) -> ~ In x S) by (intros x Hx; apply Hfr; rewrite !in_app_iff; auto).
    assert (FrB : forall x, In x (binders_l ss) -> ~ In x S) by (intros x Hx; apply Hfr; rewrite !in_app_iff; auto).
    rewrite dce_SWhile in *. cbn zeta in *.
    set (inside := uses_l ss (use_triples lvs [])) in *.
    set (lvs1 := filter (fun t => memb (t_name t) inside) lvs) in *.
    set (sa := use_e2s lvs1 s) in *.
    pose proof (dce_stmts_grows ss sa) as G. pose proof (dce_stmts_binders ss sa) as Bsub.
    specialize (HQ (map t_name lvs ++ S) sa Hs).
    destruct (dce_stmts ss sa) as [ss' sb]. cbn [fst snd] in *.
    destruct (dce_lvs lvs1 sb) as [lvs2 sc] eqn:El.
    destruct (dce_lvs_spec _ _ _ _ El) as (F1 & F2 & F3 & F4 & F5 & F6). cbn [fst snd exec_opt] in *.
    assert (Hs_sa : forall x, In x s -> In x sa) by (intros x Hx; unfold sa; rewrite In_use_e2s; auto).
    assert (Hin1 : forall t, In t lvs1 -> In t lvs) by (intros t Ht; apply filter_In in Ht; tauto).
    assert (Hpre : pre (binders_l ss) (defs_l ss) (map t_name lvs ++ S) sa).
    { split; auto. split.
      - intros x Hx. rewrite in_app_iff. intros [Hi|Hi]; [eapply DLB | eapply FrB]; eauto.
      - intros x Hx Hb. unfold sa in Hx. rewrite In_use_e2s in Hx. destruct Hx as [[t [Ht E]]|Hx].
        + specialize (Hl2 t (Hin1 t Ht)). rewrite E in Hl2. apply in_scope_var in Hl2.
          rewrite !in_app_iff in Hl2. destruct Hl2 as [Hi|[Hi|Hi]]; auto; exfalso; [eapply DLB | eapply FrB]; eauto.
        + exfalso. specialize (Hint x Hx ltac:(rewrite !in_app_iff; tauto)). eapply DBc; eauto. }
    specialize (HQ Hpre).
    (* a loop variable that is live at the loop head is retained *)
    assert (Hkeep : forall t, In t lvs -> In (t_name t) sb -> In t lvs2).
    { intros t Ht Hx. apply F3; auto. apply filter_In. split; auto. apply memb_In.
      destruct (G _ Hx) as [Ha|Hu].
      - unfold sa in Ha. rewrite In_use_e2s in Ha. destruct Ha as [[t' [Ht' E]]|Ha].
        + unfold inside. rewrite uses_l_spec, In_use_triples. right. left. exists t'. split; auto. right. exact E.
        + exfalso. specialize (Hint _ Ha ltac:(rewrite !in_app_iff; left; now apply in_map)).
          eapply DLc; eauto. now apply in_map.
      - unfold inside. rewrite uses_l_spec. auto. }
    assert (HndL2 : NoDup (map t_name lvs2)) by (apply F6, NoDup_filter_names, HndL).
    assert (Hnames2 : forall x, In x (map t_name lvs2) -> In x (map t_name lvs)).
    { intros x Hi. apply in_map_iff in Hi. destruct Hi as [t [E Ht]]. apply in_map_iff. exists t. auto. }
    set (Inv := agree_on sb (map t_name lvs ++ S)).
    (* the relation is established by the initial values ... *)
    assert (Hinit : Inv (bind_e1 w lvs e1) (bind_e1 w lvs2 e2)).
    { intros x Hx Hsx. unfold bind_e1. rewrite !lookup_bind.
      destruct (in_dec N.eq_dec x (map t_name lvs)) as [Hi|Hn].
      - apply in_map_iff in Hi. destruct Hi as [t [<- Ht]]. assert (Ht2 : In t lvs2) by auto.
        rewrite (find_name_unique lvs t HndL Ht), (find_name_unique lvs2 t HndL2 Ht2).
        eapply agree_eval; eauto.
      - rewrite (find_name_none lvs x Hn), (find_name_none lvs2 x) by auto.
        apply Hag; auto. rewrite in_app_iff in Hsx. tauto. }
    (* ... and preserved by one iteration *)
    assert (Hstep : forall e1 e2 tr, Inv e1 e2 ->
      step_sim Inv (agree_on s S) (bind_e2 w lvs) (bind_e2 w lvs2) (exec_block ss e1 tr) (exec_block ss' e2 tr)).
    { intros a1 a2 t HI. specialize (HQ a1 a2 t HI).
      pose proof (frame_block m w fuel ss a1 t) as Fr1.
      pose proof (frame_block m w fuel ss' a2 t) as Fr2.
      destruct (exec_block ss a1 t) as [a1' t'|v a1' t'|t'|t'| | |]; cbn [sim step_sim] in *; auto.
      - destruct HQ as [a2' [E Ha]]. exists a2'. split; auto. rewrite E in Fr2. cbn in Fr2.
        intros x Hx Hsx. unfold bind_e2. rewrite !lookup_bind.
        destruct (in_dec N.eq_dec x (map t_name lvs)) as [Hi|Hn].
        + apply in_map_iff in Hi. destruct Hi as [t0 [<- Ht]]. assert (Ht2 : In t0 lvs2) by auto.
          rewrite (find_name_unique lvs t0 HndL Ht), (find_name_unique lvs2 t0 HndL2 Ht2).
          eapply agree_eval; eauto.
          intros y E'. unfold sa. rewrite In_use_e2s. left. exists t0. split; auto.
        + rewrite (find_name_none lvs x Hn), (find_name_none lvs2 x) by auto.
          assert (HxS : In x S) by (rewrite in_app_iff in Hsx; tauto).
          rewrite Fr1, Fr2; auto; intros Hb; eapply FrB; eauto.
      - destruct HQ as [a2' [E Ha]]. exists a2'. split; auto. eapply agree_on_sub; eauto.
        intros x Hx. rewrite in_app_iff. auto. }
    rewrite !exec_SWhile.
    pose proof (loop_sim Inv (agree_on s S) _ _ _ _ Hstep fuel _ _ tr Hinit) as HL.
    destruct (loop (exec_block ss) (bind_e2 w lvs) fuel (bind_e1 w lvs e1) tr) as [a1' t'|v a1' t'|t'|t'| | |];
      cbn [sim step_sim] in *; auto.
    - destruct HL as [a2' [-> Ha]]. eexists. split; [reflexivity|].
      destruct bc as [b|]; cbn [keep_if bind_opt opt_names app].
      + destruct (memb b s) eqn:M; cbn [bind_opt].
        * now apply agree_bind_both.
        * apply agree_bind_left; auto. now apply memb_false.
      + exact Ha.
    - now rewrite HL.
    - now rewrite HL.
    - now rewrite HL.
  Qed.

  Theorem dce_sim : (forall st, P st) /\ (forall ss, Q ss).
  Proof.
    apply stmt_stmts_ind2.
    - exact P_SBin.
    - exact P_SNot.
    - exact P_SPrim.
    - exact P_SCall.
    - exact P_SIf.
    - exact P_SSIf.
    - exact P_SBreak.
    - exact P_SWhile.
    - exact P_SStruct.
    - exact P_SLateDecl.
    - exact P_SLateAssign.
    - exact Q_nil.
    - exact Q_cons.
  Qed.
End Dce.

(* every result but Stuck is reproduced exactly (target semantics) *)
Definition same_unless_stuck (o' o : outcome) : Prop := match o with Stuck => True | _ => o' = o end.

Lemma dce_sem_sim m w f args fuel :
  wf_func f = true ->
  match sem m w f args fuel with
  | Stuck | Overflow => True
  | o => sem m w (dce f) args fuel = o
  end.
Proof.
  unfold wf_func. intros H. apply andb_prop in H. destruct H as [H Hret]. apply andb_prop in H. destruct H as [Hnd Hsc].
  apply nodupb_NoDup in Hnd.
  destruct (dce_sim m w fuel) as [_ HQ].
  unfold sem, dce, init_env. cbn [f_params f_body f_ret].
  set (s0 := use_expr (f_ret f) []).
  assert (Hpre : pre (binders_l (f_body f)) (defs_l (f_body f)) (f_params f) s0).
  { split; [eapply NoDup_app_r; eauto|]. split.
    - intros x Hx Hp. eapply (NoDup_app_disj _ _ x Hnd); eauto.
    - intros x Hx Hb. unfold s0 in Hx. rewrite In_use_expr in Hx. destruct Hx as [E|[]].
      rewrite E in Hret. apply in_scope_var in Hret. rewrite in_app_iff in Hret. destruct Hret; auto.
      exfalso. eapply (NoDup_app_disj _ _ x Hnd); eauto. }
  specialize (HQ (f_body f) (f_params f) s0 Hsc Hpre (combine (f_params f) args) (combine (f_params f) args) []
                 ltac:(intros x _ _; reflexivity)).
  destruct (exec_block m w fuel (f_body f) _ _) as [e1' t'|v e1' t'|t'|t'| | |]; cbn [sim] in *; auto.
  - destruct HQ as [e2' [-> Ha]]. f_equal. symmetry. eapply agree_eval; eauto.
    intros x E. unfold s0. rewrite In_use_expr. auto.
  - now rewrite HQ.
  - now rewrite HQ.
  - now rewrite HQ.
Qed.

Theorem dce_preserves w f args fuel :
  wf_func f = true -> same_unless_stuck (sem Wrap w (dce f) args fuel) (sem Wrap w f args fuel).
Proof.
  intros Hwf. pose proof (dce_sem_sim Wrap w f args fuel Hwf) as H.
  destruct (sem Wrap w f args fuel) eqn:E; cbn; auto.
  exfalso. unfold sem in E. destruct (wrap_not_ovf w fuel) as [_ Hn].
  specialize (Hn (f_body f) (init_env f args) []). destruct (exec_block Wrap w fuel (f_body f) _ _); cbn in *; try discriminate; auto.
Qed.

(* in every checking mode a run that is Done stays the same run: DCE only removes statements *)
Theorem dce_preserves_mode m w f args fuel v tr :
  wf_func f = true -> sem m w f args fuel = Done v tr -> sem m w (dce f) args fuel = Done v tr.
Proof.
  intros Hwf Hs. pose proof (dce_sem_sim m w f args fuel Hwf) as H. rewrite Hs in H. exact H.
Qed.

(* the property's reading: a run without overflow / trap / type error is reproduced on the target *)
Corollary dce_refines w f : wf_func f = true -> refines w (dce f) f.
Proof.
  intros Hwf args fuel v tr H. apply strict_done_wrapping in H.
  pose proof (dce_preserves w f args fuel Hwf) as Hp. rewrite H in Hp. exact Hp.
Qed.

(* DCE after any refinement is still a refinement *)
Lemma refines_then_dce w f f1 : refines w f1 f -> wf_func f1 = true -> refines w (dce f1) f.
Proof.
  intros H Hwf args fuel v tr Hs. specialize (H args fuel v tr Hs).
  pose proof (dce_preserves w f1 args fuel Hwf) as Hp. rewrite H in Hp. exact Hp.
Qed.
