(* C02deep — facts about the use sets computed by the DCE model (no semantics yet). *)
From Coq Require Import ZArith NArith List Bool Lia.
Import ListNotations.
From SV Require Import Common.Int32 C02deep.Syntax C02deep.Sem C02deep.Passes C02deep.ProofsSem.
Open Scope Z_scope.

Lemma In_use_expr x e s : In x (use_expr e s) <-> e = EVar x \/ In x s.
Proof.
  destruct e; cbn; try (split; [auto | intros [H|H]; [discriminate | assumption]]).
  split; [intros [->|H]; auto | intros [[= ->]|H]; auto].
Qed.
Lemma In_use_exprs x es s : In x (use_exprs es s) <-> In (EVar x) es \/ In x s.
Proof.
  revert s. induction es as [|e r IH]; intros s; cbn; [tauto|].
  rewrite IH, In_use_expr. intuition.
Qed.
Definition triple_uses (x : name) (t : triple) : Prop := t_e1 t = EVar x \/ t_e2 t = EVar x.
Lemma In_use_triples x ts s :
  In x (use_triples ts s) <-> (exists t, In t ts /\ triple_uses x t) \/ In x s.
Proof.
  revert s. induction ts as [|t r IH]; intros s; cbn.
  - split; [auto | intros [[t [[] _]]|H]; assumption].
  - rewrite IH, !In_use_expr. unfold triple_uses. split.
    + intros [[t' [Hi Hu]]|[H|[H|H]]]; eauto 6.
    + intros [[t' [[<-|Hi] Hu]]|H]; [destruct Hu; auto | eauto | auto].
Qed.
Lemma In_use_e2s x ts s :
  In x (use_e2s ts s) <-> (exists t, In t ts /\ t_e2 t = EVar x) \/ In x s.
Proof.
  revert s. induction ts as [|t r IH]; intros s; cbn.
  - split; [auto | intros [[t [[] _]]|H]; assumption].
  - rewrite IH, In_use_expr. split.
    + intros [[t' [Hi Hu]]|[H|H]]; eauto 6.
    + intros [[t' [[<-|Hi] Hu]]|H]; eauto.
Qed.

Lemma in_scope_var S x : in_scope S (EVar x) = true <-> In x S.
Proof. cbn. apply memb_In. Qed.

(* ---- uses st s = uses st [] ∪ s ---- *)
Lemma uses_spec_both :
  (forall st s x, In x (uses st s) <-> In x (uses st []) \/ In x s) /\
  (forall ss s x, In x (uses_l ss s) <-> In x (uses_l ss []) \/ In x s).
Proof.
  apply stmt_stmts_ind2.
  - intros y op e1 e2 s x. cbn. rewrite !In_use_expr. cbn. tauto.
  - intros y e s x. cbn. rewrite !In_use_expr. cbn. tauto.
  - intros y p e s x. cbn. rewrite !In_use_expr. cbn. tauto.
  - intros f args ret s x. cbn. rewrite !In_use_exprs. cbn. tauto.
  - intros c s1 s2 fas H1 H2 s x.
    change (uses (SIf c s1 s2 fas) s) with (use_triples fas (uses_l s2 (uses_l s1 (use_expr c s)))).
    change (uses (SIf c s1 s2 fas) []) with (use_triples fas (uses_l s2 (uses_l s1 (use_expr c [])))).
    rewrite !In_use_triples, (H2 (uses_l s1 (use_expr c s))), (H2 (uses_l s1 (use_expr c []))),
      (H1 (use_expr c s)), (H1 (use_expr c [])), !In_use_expr. cbn. tauto.
  - intros c inv ss H s x.
    change (uses (SSIf c inv ss) s) with (uses_l ss (use_expr c s)).
    change (uses (SSIf c inv ss) []) with (uses_l ss (use_expr c [])).
    rewrite (H (use_expr c s)), (H (use_expr c [])), !In_use_expr. cbn. tauto.
  - intros e s x. cbn. rewrite !In_use_expr. cbn. tauto.
  - intros lvs ss bc H s x.
    change (uses (SWhile lvs ss bc) s) with (uses_l ss (use_triples lvs s)).
    change (uses (SWhile lvs ss bc) []) with (uses_l ss (use_triples lvs [])).
    rewrite (H (use_triples lvs s)), (H (use_triples lvs [])), !In_use_triples. cbn. tauto.
  - intros y tn es s x. cbn. rewrite !In_use_exprs. cbn. tauto.
  - intros y s x. cbn. tauto.
  - intros y e s x. cbn. rewrite !In_use_expr. cbn. tauto.
  - intros s x. cbn. tauto.
  - intros st r Hs Hr s x. cbn [uses_l]. rewrite (Hr (uses st s)), (Hr (uses st [])), (Hs s). tauto.
Qed.
Lemma uses_spec st s x : In x (uses st s) <-> In x (uses st []) \/ In x s.
Proof. apply uses_spec_both. Qed.
Lemma uses_l_spec ss s x : In x (uses_l ss s) <-> In x (uses_l ss []) \/ In x s.
Proof. apply uses_spec_both. Qed.

(* unfolding equations of uses / dce_stmt on the compound statements *)
Lemma uses_SIf c s1 s2 fas s : uses (SIf c s1 s2 fas) s = use_triples fas (uses_l s2 (uses_l s1 (use_expr c s))).
Proof. reflexivity. Qed.
Lemma uses_SSIf c inv ss s : uses (SSIf c inv ss) s = uses_l ss (use_expr c s).
Proof. reflexivity. Qed.
Lemma uses_SWhile lvs ss bc s : uses (SWhile lvs ss bc) s = uses_l ss (use_triples lvs s).
Proof. reflexivity. Qed.

Lemma dce_SIf c s1 s2 fas s :
  dce_stmt (SIf c s1 s2 fas) s =
  let '(fas', sa) := dce_fas fas s in
  let '(s1', sb) := dce_stmts s1 sa in
  let '(s2', sc) := dce_stmts s2 sb in
  if is_nil s1' && is_nil s2' && is_nil fas' then (None, sc)
  else (Some (SIf c s1' s2' fas'), use_expr c sc).
Proof. reflexivity. Qed.
Lemma dce_SSIf c inv ss s :
  dce_stmt (SSIf c inv ss) s =
  let '(ss', sa) := dce_stmts ss s in
  if is_nil ss' then (None, sa) else (Some (SSIf c inv ss'), use_expr c sa).
Proof. reflexivity. Qed.
Lemma dce_SWhile lvs ss bc s :
  dce_stmt (SWhile lvs ss bc) s =
  let bc' := keep_if bc s in
  let inside := uses_l ss (use_triples lvs []) in
  let lvs1 := filter (fun t => memb (t_name t) inside) lvs in
  let sa := use_e2s lvs1 s in
  let '(ss', sb) := dce_stmts ss sa in
  let '(lvs2, sc) := dce_lvs lvs1 sb in
  (Some (SWhile lvs2 ss' bc'), sc).
Proof. reflexivity. Qed.

(* ---- scoping: in-scope reads ---- *)
Lemma scoped_SIf S c s1 s2 fas :
  scoped S (SIf c s1 s2 fas) =
  in_scope S c && scoped_l S s1 && scoped_l S s2 &&
  forallb (fun t => in_scope (defs_l s1 ++ S) (t_e1 t) && in_scope (defs_l s2 ++ S) (t_e2 t)) fas.
Proof. reflexivity. Qed.
Lemma scoped_SSIf S c inv ss : scoped S (SSIf c inv ss) = in_scope S c && scoped_l S ss.
Proof. reflexivity. Qed.
Lemma scoped_SWhile S lvs ss bc :
  scoped S (SWhile lvs ss bc) =
  forallb (fun t => in_scope S (t_e1 t)) lvs &&
  scoped_l (map t_name lvs ++ S) ss &&
  forallb (fun t => in_scope (defs_l ss ++ map t_name lvs ++ S) (t_e2 t)) lvs.
Proof. reflexivity. Qed.
Lemma binders_SIf c s1 s2 fas : binders (SIf c s1 s2 fas) = binders_l s1 ++ binders_l s2 ++ map t_name fas.
Proof. reflexivity. Qed.
Lemma binders_SSIf c inv ss : binders (SSIf c inv ss) = binders_l ss.
Proof. reflexivity. Qed.
Lemma binders_SWhile lvs ss bc : binders (SWhile lvs ss bc) = map t_name lvs ++ binders_l ss ++ opt_names bc.
Proof. reflexivity. Qed.

Lemma defs_in_binders_both :
  (forall st x, In x (defs st) -> In x (binders st)) /\
  (forall ss x, In x (defs_l ss) -> In x (binders_l ss)).
Proof.
  apply stmt_stmts_ind2; try (intros; cbn in *; tauto).
  - intros c s1 s2 fas _ _ x H. rewrite binders_SIf. cbn in H. rewrite !in_app_iff. auto.
  - intros lvs ss bc _ x H. rewrite binders_SWhile. cbn in H. rewrite !in_app_iff. auto.
  - intros st r Hs Hr x H. cbn in *. rewrite in_app_iff in *. destruct H; auto.
Qed.
Lemma defs_in_binders st x : In x (defs st) -> In x (binders st).
Proof. apply defs_in_binders_both. Qed.
Lemma defs_l_in_binders ss x : In x (defs_l ss) -> In x (binders_l ss).
Proof. apply defs_in_binders_both. Qed.

(* L3: a name read by a well-scoped statement is in scope or bound inside the statement *)
Lemma uses_scoped_both :
  (forall st S x, scoped S st = true -> In x (uses st []) -> In x S \/ In x (binders st)) /\
  (forall ss S x, scoped_l S ss = true -> In x (uses_l ss []) -> In x S \/ In x (binders_l ss)).
Proof.
  apply stmt_stmts_ind2.
  - intros y op e1 e2 S x H. cbn in H. apply andb_prop in H. destruct H as [H1 H2].
    cbn [uses]. rewrite !In_use_expr. intros [->|[->|[]]]; left; now apply in_scope_var.
  - intros y e S x H. cbn in H. cbn [uses]. rewrite In_use_expr. intros [->|[]]. left. now apply in_scope_var.
  - intros y p e S x H. cbn in H. cbn [uses]. rewrite In_use_expr. intros [->|[]]. left. now apply in_scope_var.
  - intros f args ret S x H. cbn in H. cbn [uses]. rewrite In_use_exprs. intros [Hi|[]].
    left. rewrite forallb_forall in H. apply in_scope_var. now apply H.
  - intros c s1 s2 fas H1 H2 S x H. rewrite scoped_SIf in H.
    apply andb_prop in H. destruct H as [H Hf]. apply andb_prop in H. destruct H as [H Hs2].
    apply andb_prop in H. destruct H as [Hc Hs1].
    rewrite uses_SIf, binders_SIf, In_use_triples, uses_l_spec, (uses_l_spec s1), In_use_expr, !in_app_iff.
    intros [[t [Ht Hu]]|[Hx|[Hx|[->|[]]]]].
    + rewrite forallb_forall in Hf. specialize (Hf t Ht). apply andb_prop in Hf. destruct Hf as [Hf1 Hf2].
      destruct Hu as [E|E].
      * rewrite E in Hf1. apply in_scope_var in Hf1. rewrite in_app_iff in Hf1. destruct Hf1; auto.
        right. left. now apply defs_l_in_binders.
      * rewrite E in Hf2. apply in_scope_var in Hf2. rewrite in_app_iff in Hf2. destruct Hf2; auto.
        right. right. left. now apply defs_l_in_binders.
    + destruct (H2 S x Hs2 Hx); auto.
    + destruct (H1 S x Hs1 Hx); auto.
    + left. now apply in_scope_var.
  - intros c inv ss H S x Hs. rewrite scoped_SSIf in Hs. apply andb_prop in Hs. destruct Hs as [Hc Hs].
    rewrite uses_SSIf, binders_SSIf, uses_l_spec, In_use_expr. intros [Hx|[->|[]]].
    + eauto.
    + left. now apply in_scope_var.
  - intros e S x H. cbn in H. cbn [uses]. rewrite In_use_expr. intros [->|[]]. left. now apply in_scope_var.
  - intros lvs ss bc H S x Hs. rewrite scoped_SWhile in Hs.
    apply andb_prop in Hs. destruct Hs as [Hs Hl2]. apply andb_prop in Hs. destruct Hs as [Hl1 Hs].
    rewrite uses_SWhile, binders_SWhile, uses_l_spec, In_use_triples, !in_app_iff. intros [Hx|[[t [Ht Hu]]|[]]].
    + destruct (H _ x Hs Hx) as [Hi|Hi]; auto. rewrite in_app_iff in Hi. destruct Hi; auto.
    + rewrite forallb_forall in Hl1, Hl2. specialize (Hl1 t Ht). specialize (Hl2 t Ht). destruct Hu as [E|E].
      * rewrite E in Hl1. apply in_scope_var in Hl1. auto.
      * rewrite E in Hl2. apply in_scope_var in Hl2. rewrite !in_app_iff in Hl2. destruct Hl2 as [Hi|[Hi|Hi]]; auto.
        right. right. left. now apply defs_l_in_binders.
  - intros y tn es S x H. cbn in H. cbn [uses]. rewrite In_use_exprs. intros [Hi|[]].
    left. rewrite forallb_forall in H. apply in_scope_var. now apply H.
  - intros y S x H. discriminate H.
  - intros y e S x H. discriminate H.
  - intros S x _ [].
  - intros st r Hs Hr S x H. cbn in H. apply andb_prop in H. destruct H as [H1 H2].
    cbn [uses_l binders_l]. rewrite uses_l_spec, in_app_iff. intros [Hx|Hx].
    + destruct (Hr _ x H2 Hx) as [Hi|Hi]; auto. rewrite in_app_iff in Hi. destruct Hi as [Hi|Hi]; auto.
      right. left. now apply defs_in_binders.
    + destruct (Hs S x H1 Hx); auto.
Qed.
Lemma uses_scoped st S x : scoped S st = true -> In x (uses st []) -> In x S \/ In x (binders st).
Proof. apply uses_scoped_both. Qed.
Lemma uses_l_scoped ss S x : scoped_l S ss = true -> In x (uses_l ss []) -> In x S \/ In x (binders_l ss).
Proof. apply uses_scoped_both. Qed.

(* ---- the retained final assignments / loop variables ---- *)
Lemma dce_fas_spec fas : forall s fas' s', dce_fas fas s = (fas', s') ->
  (forall x, In x s -> In x s') /\
  (forall t, In t fas' -> In t fas) /\
  (forall t, In t fas -> In (t_name t) s -> In t fas') /\
  (forall t x, In t fas' -> triple_uses x t -> In x s') /\
  (forall x, In x s' -> In x s \/ exists t, In t fas /\ triple_uses x t) /\
  (NoDup (map t_name fas) -> NoDup (map t_name fas')).
Proof.
  induction fas as [|t r IH]; intros s fas' s'; cbn.
  - intros [= <- <-]. repeat split; auto. intros t x [].
  - destruct (memb (t_name t) s) eqn:M.
    + destruct (dce_fas r _) as [r' s1] eqn:E. intros [= <- <-].
      destruct (IH _ _ _ E) as (I1 & I2 & I3 & I4 & I5 & I6). repeat split.
      * intros x Hx. apply I1. rewrite !In_use_expr. auto.
      * intros t' [<-|H]; [left; reflexivity | right; auto].
      * intros t' [<-|H] Hn; [left; reflexivity|]. right. apply I3; auto. rewrite !In_use_expr. auto.
      * intros t' x [<-|H] Hu; [|eauto]. apply I1. rewrite !In_use_expr. destruct Hu; auto.
      * intros x Hx. destruct (I5 x Hx) as [H|[t' [H1 H2]]].
        -- rewrite !In_use_expr in H. destruct H as [H|[H|H]]; auto; right; exists t; unfold triple_uses; auto.
        -- right. exists t'. auto.
      * intros Hnd. inversion Hnd as [|? ? Hni Hnd']; subst. cbn. constructor; auto.
        intros Hi. apply Hni. apply in_map_iff in Hi. destruct Hi as [t' [E' Hi]].
        apply in_map_iff. exists t'. auto.
    + intros E. destruct (IH _ _ _ E) as (I1 & I2 & I3 & I4 & I5 & I6). repeat split; auto.
      * intros t' [<-|H] Hn; [|auto]. apply memb_In in Hn. congruence.
      * intros x Hx. destruct (I5 x Hx) as [H|[t' [H1 H2]]]; auto. right. exists t'. auto.
      * intros Hnd. inversion Hnd; auto.
Qed.

Lemma dce_lvs_spec lvs : forall s lvs' s', dce_lvs lvs s = (lvs', s') ->
  (forall x, In x s -> In x s') /\
  (forall t, In t lvs' -> In t lvs) /\
  (forall t, In t lvs -> In (t_name t) s -> In t lvs') /\
  (forall t x, In t lvs' -> t_e1 t = EVar x -> In x s') /\
  (forall x, In x s' -> In x s \/ exists t, In t lvs /\ t_e1 t = EVar x) /\
  (NoDup (map t_name lvs) -> NoDup (map t_name lvs')).
Proof.
  induction lvs as [|t r IH]; intros s lvs' s'; cbn.
  - intros [= <- <-]. repeat split; auto. intros t x [].
  - destruct (memb (t_name t) s) eqn:M.
    + destruct (dce_lvs r _) as [r' s1] eqn:E. intros [= <- <-].
      destruct (IH _ _ _ E) as (I1 & I2 & I3 & I4 & I5 & I6). repeat split.
      * intros x Hx. apply I1. rewrite !In_use_expr. auto.
      * intros t' [<-|H]; [left; reflexivity | right; auto].
      * intros t' [<-|H] Hn; [left; reflexivity|]. right. apply I3; auto. rewrite !In_use_expr. auto.
      * intros t' x [<-|H] Hu; [|eauto]. apply I1. rewrite !In_use_expr. auto.
      * intros x Hx. destruct (I5 x Hx) as [H|[t' [H1 H2]]].
        -- rewrite !In_use_expr in H. destruct H as [H|H]; auto. right. exists t. auto.
        -- right. exists t'. auto.
      * intros Hnd. inversion Hnd as [|? ? Hni Hnd']; subst. cbn. constructor; auto.
        intros Hi. apply Hni. apply in_map_iff in Hi. destruct Hi as [t' [E' Hi]].
        apply in_map_iff. exists t'. auto.
    + intros E. destruct (IH _ _ _ E) as (I1 & I2 & I3 & I4 & I5 & I6). repeat split; auto.
      * intros t' [<-|H] Hn; [|auto]. apply memb_In in Hn. congruence.
      * intros x Hx. destruct (I5 x Hx) as [H|[t' [H1 H2]]]; auto. right. exists t'. auto.
      * intros Hnd. inversion Hnd; auto.
Qed.

Lemma NoDup_filter_names (p : triple -> bool) l : NoDup (map t_name l) -> NoDup (map t_name (filter p l)).
Proof.
  induction l as [|t r IH]; cbn; intros H; [constructor|]. inversion H as [|? ? Hni Hnd]; subst.
  destruct (p t); cbn; auto. constructor; auto. intros Hi. apply Hni.
  apply in_map_iff in Hi. destruct Hi as [t' [E Hi]]. apply filter_In in Hi. apply in_map_iff. exists t'. tauto.
Qed.

(* ---- M (the set only grows), L2 (it grows by reads of the statement), B (no new binders) ---- *)
Definition opt_binders (o : option stmt) : list name := match o with Some st => binders st | None => [] end.

Lemma dce_sets_both :
  (forall st s, (forall x, In x s -> In x (snd (dce_stmt st s))) /\
                (forall x, In x (snd (dce_stmt st s)) -> In x s \/ In x (uses st [])) /\
                (forall x, In x (opt_binders (fst (dce_stmt st s))) -> In x (binders st))) /\
  (forall ss s, (forall x, In x s -> In x (snd (dce_stmts ss s))) /\
                (forall x, In x (snd (dce_stmts ss s)) -> In x s \/ In x (uses_l ss [])) /\
                (forall x, In x (binders_l (fst (dce_stmts ss s))) -> In x (binders_l ss))).
Proof.
  apply stmt_stmts_ind2.
  - intros y op e1 e2 s. cbn [dce_stmt uses]. destruct (negb (memb y s) && negb (is_divmod op)); cbn.
    + repeat split; auto; try (intros x []).
    + repeat split; intros x; rewrite ?In_use_expr; cbn; tauto.
  - intros y e s. cbn [dce_stmt uses]. destruct (negb (memb y s)); cbn.
    + repeat split; auto; try (intros x []).
    + repeat split; intros x; rewrite ?In_use_expr; cbn; tauto.
  - intros y p e s. cbn [dce_stmt uses]. destruct (negb (memb y s)); cbn.
    + repeat split; auto; try (intros x []).
    + repeat split; intros x; rewrite ?In_use_expr; cbn; tauto.
  - intros f args ret s. cbn [dce_stmt uses fst snd opt_binders binders].
    repeat split; intros x; rewrite ?In_use_exprs; cbn; try tauto.
    destruct ret as [r|]; cbn; [|tauto]. destruct (memb r s); cbn; tauto.
  - intros c s1 s2 fas H1 H2 s. rewrite dce_SIf.
    destruct (dce_fas fas s) as [fas' sa] eqn:Ef.
    destruct (dce_fas_spec _ _ _ _ Ef) as (F1 & F2 & _ & _ & F5 & _).
    destruct (H1 sa) as (A1 & A2 & A3). destruct (dce_stmts s1 sa) as [s1' sb]. cbn [fst snd] in *.
    destruct (H2 sb) as (B1 & B2 & B3). destruct (dce_stmts s2 sb) as [s2' sc]. cbn [fst snd] in *.
    assert (M : forall x, In x s -> In x sc) by auto.
    assert (L : forall x, In x sc -> In x s \/ In x (uses (SIf c s1 s2 fas) [])).
    { intros x Hx. rewrite uses_SIf, In_use_triples, uses_l_spec, (uses_l_spec s1).
      destruct (B2 x Hx) as [Hb|Hb]; [|tauto]. destruct (A2 x Hb) as [Ha|Ha]; [|tauto].
      destruct (F5 x Ha) as [Hf|Hf]; tauto. }
    destruct (is_nil s1' && is_nil s2' && is_nil fas'); cbn [fst snd opt_binders].
    + repeat split; auto; try (intros x []).
    + repeat split.
      * intros x Hx. rewrite In_use_expr. auto.
      * intros x Hx. rewrite In_use_expr in Hx. destruct Hx as [->|Hx]; auto.
        right. rewrite uses_SIf, In_use_triples, uses_l_spec, (uses_l_spec s1), In_use_expr. tauto.
      * intros x. rewrite !binders_SIf, !in_app_iff. intros [H|[H|H]]; auto.
        right. right. apply in_map_iff in H. destruct H as [t [E Ht]]. apply in_map_iff. exists t. auto.
  - intros c inv ss H s. rewrite dce_SSIf. destruct (H s) as (A1 & A2 & A3).
    destruct (dce_stmts ss s) as [ss' sa]. cbn [fst snd] in *.
    destruct (is_nil ss'); cbn [fst snd opt_binders].
    + repeat split; auto.
      * intros x Hx. rewrite uses_SSIf, uses_l_spec. destruct (A2 x Hx); tauto.
      * intros x [].
    + repeat split.
      * intros x Hx. rewrite In_use_expr. auto.
      * intros x. rewrite In_use_expr, uses_SSIf, uses_l_spec, In_use_expr. intros [->|Hx]; [tauto|].
        destruct (A2 x Hx); tauto.
      * intros x. rewrite !binders_SSIf. auto.
  - intros e s. cbn [dce_stmt uses fst snd opt_binders binders].
    repeat split; intros x; rewrite ?In_use_expr; cbn; tauto.
  - intros lvs ss bc H s. rewrite dce_SWhile. cbn zeta.
    set (inside := uses_l ss (use_triples lvs [])).
    set (lvs1 := filter (fun t => memb (t_name t) inside) lvs).
    destruct (H (use_e2s lvs1 s)) as (A1 & A2 & A3).
    destruct (dce_stmts ss (use_e2s lvs1 s)) as [ss' sb]. cbn [fst snd] in *.
    destruct (dce_lvs lvs1 sb) as [lvs2 sc] eqn:El.
    destruct (dce_lvs_spec _ _ _ _ El) as (F1 & F2 & _ & _ & F5 & _). cbn [fst snd opt_binders].
    repeat split.
    + intros x Hx. apply F1, A1. rewrite In_use_e2s. auto.
    + intros x Hx. rewrite uses_SWhile, uses_l_spec, In_use_triples.
      destruct (F5 x Hx) as [Hb|[t [Ht E]]].
      * destruct (A2 x Hb) as [Ha|Ha]; [|tauto]. rewrite In_use_e2s in Ha. destruct Ha as [[t [Ht E]]|Ha]; [|tauto].
        right. right. left. exists t. split; [|right; exact E]. apply filter_In in Ht. tauto.
      * right. right. left. exists t. split; [|left; exact E]. apply filter_In in Ht. tauto.
    + intros x. rewrite !binders_SWhile, !in_app_iff. intros [Hx|[Hx|Hx]]; auto.
      * left. apply in_map_iff in Hx. destruct Hx as [t [E Ht]]. apply in_map_iff. exists t. split; auto.
        apply F2 in Ht. apply filter_In in Ht. tauto.
      * right. right. destruct bc as [b|]; cbn in *; [|tauto]. destruct (memb b s); cbn in *; tauto.
  - intros y tn es s. cbn [dce_stmt uses]. destruct (negb (memb y s)); cbn.
    + repeat split; auto; try (intros x []).
    + repeat split; intros x; rewrite ?In_use_exprs; cbn; tauto.
  - intros y s. cbn [dce_stmt uses]. destruct (negb (memb y s)); cbn.
    + repeat split; auto; try (intros x []).
    + repeat split; intros x; cbn; tauto.
  - intros y e s. cbn [dce_stmt uses]. destruct (negb (memb y s)); cbn.
    + repeat split; auto; try (intros x []).
    + repeat split; intros x; rewrite ?In_use_expr; cbn; tauto.
  - intros s. cbn. repeat split; auto; try (intros x []).
  - intros st r Hs Hr s. cbn [dce_stmts]. destruct (Hr s) as (A1 & A2 & A3).
    destruct (dce_stmts r s) as [r' s1]. cbn [fst snd] in *.
    destruct (Hs s1) as (B1 & B2 & B3). destruct (dce_stmt st s1) as [o s2]. cbn [fst snd] in *.
    repeat split.
    + auto.
    + intros x Hx. cbn [uses_l]. rewrite uses_l_spec. destruct (B2 x Hx) as [Hb|Hb]; [|tauto].
      destruct (A2 x Hb); tauto.
    + intros x. cbn [binders_l]. rewrite in_app_iff. destruct o as [st'|]; cbn [binders_l opt_binders] in *.
      * rewrite in_app_iff. intros [Hx|Hx]; auto.
      * auto.
Qed.

Lemma dce_stmt_mono st s x : In x s -> In x (snd (dce_stmt st s)).
Proof. apply dce_sets_both. Qed.
Lemma dce_stmts_mono ss s x : In x s -> In x (snd (dce_stmts ss s)).
Proof. apply dce_sets_both. Qed.
Lemma dce_stmt_grows st s x : In x (snd (dce_stmt st s)) -> In x s \/ In x (uses st []).
Proof. apply dce_sets_both. Qed.
Lemma dce_stmts_grows ss s x : In x (snd (dce_stmts ss s)) -> In x s \/ In x (uses_l ss []).
Proof. apply dce_sets_both. Qed.
Lemma dce_stmts_binders ss s x : In x (binders_l (fst (dce_stmts ss s))) -> In x (binders_l ss).
Proof. apply dce_sets_both. Qed.
