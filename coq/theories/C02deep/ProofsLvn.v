(* C02deep — local value numbering (model Passes.lvn) preserves the behaviour of every well-formed function.
   The variable context of LVN is a special case of the CCP value context (every binding is a variable), so
   the relation Rel of ProofsCcpRel is reused; the table of numbered values gets its own invariant.
   As for CCP both runs are in mode Add (refines_add); `refines` is a corollary. *)
From Coq Require Import ZArith NArith List Bool Lia.
Import ListNotations.
From SV Require Import Common.Int32 C02.Kernels C02deep.Syntax C02deep.Sem C02deep.Passes
  C02deep.ProofsSem C02deep.ProofsDceSets C02deep.ProofsDce C02deep.ProofsCcpArith C02deep.ProofsCcpRel C02deep.ProofsCcp.
Open Scope Z_scope.

Definition cx_of (vc : lvc) : cx := mkcx (map (fun p => (fst p, EVar (snd p))) vc) [] [].

Lemma assoc_cx_of x vc : assoc x (cx_v (cx_of vc)) = option_map EVar (assoc x vc).
Proof.
  induction vc as [|[y n] r IH]; cbn; [reflexivity|]. destruct (N.eqb x y); [reflexivity | exact IH].
Qed.
Lemma lvn_expr_opt vc e : lvn_expr vc e = opt_expr (cx_v (cx_of vc)) e.
Proof.
  destruct e; try reflexivity. cbn [lvn_expr opt_expr]. unfold lvn_var. rewrite assoc_cx_of.
  destruct (assoc x vc); reflexivity.
Qed.

Definition bexprs (v : bval) : list expr :=
  match v with BVBin _ e1 e2 => [e1; e2] | BVNot e | BVPrim _ e => [e] end.

Lemma binop_eq_eq a b : binop_eq a b = true -> a = b.
Proof. destruct a, b; cbn; congruence. Qed.
Lemma prim_eq_eq a b : prim_eq a b = true -> a = b.
Proof.
  destruct a, b; cbn; try discriminate.
  - intros H. apply andb_prop in H. destruct H as [H1 H2]. apply N.eqb_eq in H1, H2. now subst.
  - intros H. apply N.eqb_eq in H. now subst.
Qed.

Lemma bassoc_In v bc n : bassoc v bc = Some n -> exists u, In (u, n) bc /\ bval_eq v u = true.
Proof.
  induction bc as [|[u m] r IH]; cbn; [discriminate|]. destruct (bval_eq v u) eqn:E.
  - intros [= <-]. exists u. auto.
  - intros H. destruct (IH H) as [u' [Hi He]]. exists u'. auto.
Qed.

Section Lvn.
  Variables (w : world) (fuel : nat).
  Notation exec_o := (exec Add w fuel).
  Notation exec_block_o := (exec_block Add w fuel).
  Notation exec_t := (exec Add w fuel).
  Notation exec_block_t := (exec_block Add w fuel).

  (* the numbered value u is what the name n holds in the optimised run *)
  Definition holds (et : env) (u : bval) (n : name) : Prop :=
    match u with
    | BVBin op e1 e2 => exists r, rt_binop op (eval w et e1) (eval w et e2) = Val r /\ eval w et (EVar n) = wrap32 r
    | BVNot e => eval w et (EVar n) = wrap32 (Z.lxor (eval w et e) 1)
    | BVPrim p e => eval w et (EVar n) = wrap32 (w_prim w p (eval w et e))
    end.

  Definition TB (bc : lbc) (S : list name) (et : env) : Prop :=
    forall u n, In (u, n) bc ->
      In n S /\ (forall e y, In e (bexprs u) -> e = EVar y -> In y S) /\ holds et u n.

  Definition wfL (vc : lvc) (bc : lbc) (D : list name) : Prop :=
    cx_wf (cx_of vc) D /\
    forall u n, In (u, n) bc -> In n D /\ (forall e y, In e (bexprs u) -> e = EVar y -> In y D).

  Lemma eval_frame et et' e S :
    (forall y, In y S -> lookup y et' = lookup y et) -> (forall y, e = EVar y -> In y S) -> eval w et' e = eval w et e.
  Proof. intros H Hv. destruct e; try reflexivity. apply eval_var_lookup. apply H. auto. Qed.

  Lemma bval_eq_holds et v u n : bval_eq v u = true -> holds et u n -> holds et v n.
  Proof.
    destruct v, u; cbn; try discriminate.
    - intros H. apply andb_prop in H. destruct H as [H H2]. apply andb_prop in H. destruct H as [Ho H1].
      apply binop_eq_eq in Ho. subst. rewrite (expr_eq_sound _ _ H1 w et), (expr_eq_sound _ _ H2 w et). auto.
    - intros H. now rewrite (expr_eq_sound _ _ H w et).
    - intros H. apply andb_prop in H. destruct H as [Hp He]. apply prim_eq_eq in Hp. subst.
      now rewrite (expr_eq_sound _ _ He w et).
  Qed.

  Lemma TB_frame bc S et et' : TB bc S et -> (forall y, In y S -> lookup y et' = lookup y et) -> TB bc S et'.
  Proof.
    intros H Hf u n Hi. destruct (H u n Hi) as (Hn & Hv & Hh). split; [assumption|]. split; [assumption|].
    assert (Ee : forall e, In e (bexprs u) -> eval w et' e = eval w et e).
    { intros e He. eapply eval_frame; eauto. }
    assert (En : eval w et' (EVar n) = eval w et (EVar n)) by (apply eval_var_lookup; auto).
    destruct u; cbn [holds bexprs] in *.
    - destruct Hh as [r [Hr Hn']]. exists r. rewrite En, (Ee e1), (Ee e2) by (cbn; auto). auto.
    - rewrite En, (Ee e) by (cbn; auto). assumption.
    - rewrite En, (Ee e) by (cbn; auto). assumption.
  Qed.
  Lemma TB_mono bc S S' et : TB bc S et -> incl' S S' -> TB bc S' et.
  Proof.
    intros H Hi u n Hu. destruct (H u n Hu) as (Hn & Hv & Hh). split; [auto|]. split; [|assumption]. intros e y He Ey. eauto.
  Qed.

  (* the relation of the LVN proof *)
  Definition RelL (vc : lvc) (bc : lbc) (S : list name) (eo et : env) : Prop :=
    Rel w (cx_of vc) S eo et /\ TB bc S et.

  Definition dynL (ro : res) (out : list stmt) (vc' : lvc) (bc' : lbc) (S bs ds : list name) (et : env) (tr : trace) : Prop :=
    match ro with
    | RNext eo' tr' =>
        exists et' S', exec_block_t out et tr = RNext et' tr' /\ RelL vc' bc' S' eo' et' /\
                       incl' (ds ++ S) S' /\ incl' S' (bs ++ S)
    | RBreak v _ tr' => exists et', exec_block_t out et tr = RBreak v et' tr'
    | _ => True
    end.

  Definition goodL (bs ds : list name) (xo : env -> trace -> res) (S0 : list name) (vc : lvc) (bc : lbc)
             (out : list stmt) (vc' : lvc) (bc' : lbc) : Prop :=
    forall D, wfL vc bc D -> incl' S0 D -> NoDup bs -> disj bs D ->
      (wfL vc' bc' (bs ++ D) /\ incl' (binders_l out) bs) /\
      forall S eo et tr, incl' S0 S -> incl' S D -> RelL vc bc S eo et ->
                         dynL (xo eo tr) out vc' bc' S bs ds et tr.

  Definition olist (o : option stmt) : list stmt := match o with Some s => [s] | None => [] end.

  Lemma wfL_mono vc bc D D' : wfL vc bc D -> incl' D D' -> wfL vc bc D'.
  Proof.
    intros [H1 H2] Hi. split; [eapply cx_wf_mono; eauto|]. intros u n Hu. destruct (H2 u n Hu) as [A B]. split; eauto.
  Qed.

  Lemma lvn_expr_range vc bc D S0 e y :
    wfL vc bc D -> incl' S0 D -> in_scope S0 e = true -> lvn_expr vc e = EVar y -> In y D.
  Proof. intros [H _] Hi Hs. rewrite lvn_expr_opt. eapply opt_expr_range; eauto. Qed.

  Lemma RelL_expr vc bc S eo et e :
    RelL vc bc S eo et -> (forall x, e = EVar x -> In x S) -> eval w eo e = eval w et (lvn_expr vc e).
  Proof. intros [HR _] H. rewrite lvn_expr_opt. eapply Rel_expr; eauto. Qed.
  Lemma RelL_expr_scope vc bc S eo et e y :
    RelL vc bc S eo et -> (forall x, e = EVar x -> In x S) -> lvn_expr vc e = EVar y -> In y S.
  Proof. intros [HR _] H. rewrite lvn_expr_opt. eapply Rel_expr_scope; eauto. Qed.

  (* ---- the value-numbered statement forms ---- *)
  (* dropped: x is an alias of the representative n *)
  Lemma number_drop x v n vc bc S0 (xo : env -> trace -> res) :
    bassoc v bc = Some n ->
    (forall S eo et tr, incl' S0 S -> RelL vc bc S eo et ->
       match xo eo tr with
       | RNext eo' tr' => exists z, eo' = (x, z) :: eo /\ tr' = tr /\ forall u, bval_eq v u = true -> holds et u n -> wrap32 z = eval w et (EVar n)
       | RBreak _ _ _ => False
       | _ => True
       end) ->
    goodL [x] [x] xo S0 vc bc [] (lvn_bind_var vc x n) bc.
  Proof.
    intros Hb Hdy D Hwf HS0 Hnd Hdj.
    assert (HxD : ~ In x D) by (intros H; eapply Hdj; eauto; left; reflexivity).
    destruct (bassoc_In _ _ _ Hb) as (u & Hu & Heq).
    assert (Hxv : assoc x vc = None).
    { destruct Hwf as [Hc _]. pose proof (cx_wf_notin_v _ _ x Hc HxD) as H. rewrite assoc_cx_of in H.
      destruct (assoc x vc); [discriminate | reflexivity]. }
    assert (Ebv : cx_of (lvn_bind_var vc x n) = mkcx ((x, EVar n) :: cx_v (cx_of vc)) [] []).
    { unfold lvn_bind_var. rewrite Hxv. reflexivity. }
    split.
    - split; [|intros y []]. destruct Hwf as [Hc Hbw]. split.
      + rewrite Ebv. destruct (Hbw u n Hu) as [HnD _].
        apply (bind_wf x (EVar n) (cx_of vc) _ D); auto.
        * unfold bind. rewrite assoc_cx_of, Hxv. reflexivity.
        * intros y [= <-]. exact HnD.
      + intros u' n' Hu'. destruct (Hbw u' n' Hu') as [A B]. split; [right; auto|]. intros e y He Ey. right. eauto.
    - intros S eo et tr Hi1 Hi2 HR. specialize (Hdy S eo et tr Hi1 HR).
      destruct (xo eo tr); cbn [dynL]; auto; [|contradiction].
      destruct Hdy as (z & -> & -> & Hz). destruct HR as [HR HT]. destruct (HT u n Hu) as (HnS & _ & Hh).
      exists et, (x :: S). split; [reflexivity|]. split; [|split; apply incl'_refl].
      assert (HxS : ~ In x S) by (intros H; apply HxD; auto).
      split.
      + rewrite Ebv. eapply (Rel_bind w (cx_of vc) _ S eo et x (EVar n) z); eauto.
        * unfold bind. rewrite assoc_cx_of, Hxv. reflexivity.
        * intros y [= <-]. exact HnS.
      + eapply TB_mono; eauto. apply incl'_cons_r.
  Qed.

  (* kept: x becomes the representative of v *)
  Lemma number_keep x v st' vc bc S0 (xo : env -> trace -> res) :
    binders st' = [x] ->
    (forall D, wfL vc bc D -> incl' S0 D -> forall e y, In e (bexprs v) -> e = EVar y -> In y D) ->
    (forall S eo et tr, incl' S0 S -> RelL vc bc S eo et ->
       match xo eo tr with
       | RNext eo' tr' => exists z, eo' = (x, z) :: eo /\ exec_t st' et tr = RNext ((x, z) :: et) tr' /\
                                    (forall e y, In e (bexprs v) -> e = EVar y -> In y S) /\
                                    forall et', (forall y, In y S -> lookup y et' = lookup y et) -> lookup x et' = z -> holds et' v x
       | RBreak _ _ _ => False
       | _ => True
       end) ->
    goodL [x] [x] xo S0 vc bc [st'] vc ((v, x) :: bc).
  Proof.
    intros Hbs Hst Hdy D Hwf HS0 Hnd Hdj.
    assert (HxD : ~ In x D) by (intros H; eapply Hdj; eauto; left; reflexivity).
    split.
    - split; [|cbn; rewrite Hbs, app_nil_r; apply incl'_refl]. destruct Hwf as [Hc Hbw]. split.
      + eapply cx_wf_mono; eauto. apply incl'_cons_r.
      + intros u' n' [[= <- <-]|Hu'].
        * split; [left; reflexivity|]. intros e y He Ey. right. eapply Hst; eauto. split; assumption.
        * destruct (Hbw u' n' Hu') as [A B]. split; [right; auto|]. intros e y He Ey. right. eauto.
    - intros S eo et tr Hi1 Hi2 HR. specialize (Hdy S eo et tr Hi1 HR).
      destruct (xo eo tr); cbn [dynL]; auto; [|contradiction].
      destruct Hdy as (z & -> & Ht & Hvs & Hh). destruct HR as [HR HT].
      assert (HxS : ~ In x S) by (intros H; apply HxD; auto).
      exists ((x, z) :: et), (x :: S). split; [rewrite exec_block_cons, Ht; reflexivity|].
      split; [|split; apply incl'_refl].
      assert (Hfr : forall y, In y S -> lookup y ((x, z) :: et) = lookup y et).
      { intros y Hy. cbn. destruct (N.eqb_spec y x) as [->|]; [contradiction | reflexivity]. }
      split.
      + destruct Hwf as [Hc _]. apply Rel_def; auto. eapply cx_wf_notin_v; eauto.
      + intros u' n' [[= <- <-]|Hu'].
        * split; [left; reflexivity|]. split; [intros e y He Ey; right; eauto|].
          apply Hh; auto. cbn. now rewrite N.eqb_refl.
        * pose proof (TB_mono _ _ (x :: S) _ (TB_frame _ _ _ _ HT Hfr) (incl'_cons_r x S)) as HT'. exact (HT' u' n' Hu').
  Qed.
  (* a statement kept without touching the table *)
  Lemma plain_keep x st' vc bc S0 (xo : env -> trace -> res) :
    binders st' = [x] ->
    (forall S eo et tr, incl' S0 S -> RelL vc bc S eo et ->
       match xo eo tr with
       | RNext eo' tr' => exists z, eo' = (x, z) :: eo /\ exec_t st' et tr = RNext ((x, z) :: et) tr'
       | RBreak _ _ _ => False
       | _ => True
       end) ->
    goodL [x] [x] xo S0 vc bc [st'] vc bc.
  Proof.
    intros Hbs Hdy D Hwf HS0 Hnd Hdj.
    assert (HxD : ~ In x D) by (intros H; eapply Hdj; eauto; left; reflexivity).
    split.
    - split; [eapply wfL_mono; eauto; apply incl'_cons_r | cbn; rewrite Hbs, app_nil_r; apply incl'_refl].
    - intros S eo et tr Hi1 Hi2 HR. specialize (Hdy S eo et tr Hi1 HR).
      destruct (xo eo tr); cbn [dynL]; auto; [|contradiction].
      destruct Hdy as (z & -> & Ht). destruct HR as [HR HT].
      assert (HxS : ~ In x S) by (intros H; apply HxD; auto).
      exists ((x, z) :: et), (x :: S). split; [rewrite exec_block_cons, Ht; reflexivity|].
      split; [|split; apply incl'_refl]. split.
      + destruct Hwf as [Hc _]. apply Rel_def; auto. eapply cx_wf_notin_v; eauto.
      + eapply TB_mono; [eapply TB_frame; eauto | apply incl'_cons_r].
        intros y Hy. cbn. destruct (N.eqb_spec y x) as [->|]; [contradiction | reflexivity].
  Qed.

  Lemma holds_bin et' et S op e1 e2 x z :
    (forall y, In y S -> lookup y et' = lookup y et) -> lookup x et' = z ->
    (forall y, e1 = EVar y -> In y S) -> (forall y, e2 = EVar y -> In y S) ->
    rt_binop op (eval w et e1) (eval w et e2) = Val z -> holds et' (BVBin op e1 e2) x.
  Proof.
    intros Hf Hx H1 H2 Hr. cbn. exists z. rewrite (eval_frame et et' e1 S), (eval_frame et et' e2 S) by auto.
    split; [assumption|]. unfold eval. now rewrite Hx.
  Qed.

  Definition PL (st : stmt) : Prop := forall vc bc o vc' bc' S0,
    lvn_stmt st vc bc = (o, vc', bc') -> scoped S0 st = true ->
    goodL (binders st) (defs st) (exec_o st) S0 vc bc (olist o) vc' bc'.
  Definition QL (ss : list stmt) : Prop := forall vc bc out vc' bc' S0,
    lvn_stmts ss vc bc = (out, vc', bc') -> scoped_l S0 ss = true ->
    goodL (binders_l ss) (defs_l ss) (exec_block_o ss) S0 vc bc out vc' bc'.

  Lemma PL_SBin x op e1 e2 : PL (SBin x op e1 e2).
  Proof.
    intros vc bc o vc' bc' S0 H Hsc. cbn [lvn_stmt] in H. cbn [scoped] in Hsc.
    apply andb_prop in Hsc. destruct Hsc as [Hs1 Hs2]. unfold lvn_number in H.
    set (a := lvn_expr vc e1) in *. set (b := lvn_expr vc e2) in *.
    destruct (bassoc (BVBin op a b) bc) as [n|] eqn:Eb; injection H as <- <- <-; cbn [olist binders defs].
    - eapply number_drop; eauto. intros S eo et tr Hi HR. apply (bin_step w fuel); auto.
      intros z Ho Hz. exists z. split; [reflexivity|]. split; [reflexivity|]. intros u Heq Hh.
      pose proof (bval_eq_holds et _ _ n Heq Hh) as Hv. cbn in Hv. destruct Hv as [r [Hr Hn]].
      rewrite (RelL_expr vc bc S eo et e1 HR (in_scope_In _ _ _ Hs1 Hi)) in Hz.
      rewrite (RelL_expr vc bc S eo et e2 HR (in_scope_In _ _ _ Hs2 Hi)) in Hz.
      fold a b in Hz. rewrite Hz in Hr. injection Hr as <-. now rewrite Hn.
    - eapply number_keep; [reflexivity | |].
      + intros D Hwf Hi e y [<-|[<-|[]]] Ey;
          [apply (lvn_expr_range vc bc D S0 e1 y Hwf Hi Hs1 Ey) | apply (lvn_expr_range vc bc D S0 e2 y Hwf Hi Hs2 Ey)].
      + intros S eo et tr Hi HR. apply (bin_step w fuel); auto.
        intros z Ho Hz. exists z. split; [reflexivity|].
        rewrite (RelL_expr vc bc S eo et e1 HR (in_scope_In _ _ _ Hs1 Hi)) in Hz, Ho.
        rewrite (RelL_expr vc bc S eo et e2 HR (in_scope_In _ _ _ Hs2 Hi)) in Hz, Ho. fold a b in Hz, Ho.
        assert (Va : forall y, a = EVar y -> In y S).
        { intros y Ey. eapply (RelL_expr_scope vc bc S eo et e1); eauto. eapply in_scope_In; eauto. }
        assert (Vb : forall y, b = EVar y -> In y S).
        { intros y Ey. eapply (RelL_expr_scope vc bc S eo et e2); eauto. eapply in_scope_In; eauto. }
        split; [cbn [exec]; rewrite Ho, Hz; reflexivity|]. split.
        * intros e y [<-|[<-|[]]] Ey; auto.
        * intros et' Hf Hx. eapply holds_bin; eauto.
  Qed.

  Lemma PL_SNot x e : PL (SNot x e).
  Proof.
    intros vc bc o vc' bc' S0 H Hsc. cbn [lvn_stmt] in H. cbn [scoped] in Hsc. unfold lvn_number in H.
    set (a := lvn_expr vc e) in *.
    destruct (bassoc (BVNot a) bc) as [n|] eqn:Eb; injection H as <- <- <-; cbn [olist binders defs].
    - eapply number_drop; eauto. intros S eo et tr Hi HR. cbn [exec]. eexists. split; [reflexivity|]. split; [reflexivity|].
      intros u Heq Hh. pose proof (bval_eq_holds et _ _ n Heq Hh) as Hv. cbn in Hv.
      rewrite (RelL_expr vc bc S eo et e HR (in_scope_In _ _ _ Hsc Hi)). fold a. now rewrite Hv.
    - eapply number_keep; [reflexivity | |].
      + intros D Hwf Hi e0 y [<-|[]] Ey. apply (lvn_expr_range vc bc D S0 e y Hwf Hi Hsc Ey).
      + intros S eo et tr Hi HR. cbn. eexists. split; [reflexivity|].
        rewrite (RelL_expr vc bc S eo et e HR (in_scope_In _ _ _ Hsc Hi)). fold a. split; [reflexivity|].
        assert (Va : forall y, a = EVar y -> In y S).
        { intros y Ey. eapply (RelL_expr_scope vc bc S eo et e); eauto. eapply in_scope_In; eauto. }
        split; [intros e0 y [<-|[]] Ey; auto|].
        intros et' Hf Hx. cbn. rewrite (eval_frame et et' a S) by auto. unfold eval at 1. now rewrite Hx.
  Qed.

  Lemma PL_SPrim x p e : PL (SPrim x p e).
  Proof.
    intros vc bc o vc' bc' S0 H Hsc. cbn [lvn_stmt] in H. cbn [scoped] in Hsc.
    set (a := lvn_expr vc e) in *.
    assert (PLAIN : (o, vc', bc') = (Some (SPrim x p a), vc, bc) ->
                    goodL [x] [x] (exec_o (SPrim x p e)) S0 vc bc (olist o) vc' bc').
    { intros [= -> -> ->]. eapply plain_keep; [reflexivity|].
      intros S eo et tr Hi HR. cbn. eexists. split; [reflexivity|].
      rewrite (RelL_expr vc bc S eo et e HR (in_scope_In _ _ _ Hsc Hi)). reflexivity. }
    assert (NUM : lvn_number x (BVPrim p a) (SPrim x p a) vc bc = (o, vc', bc') ->
                  goodL [x] [x] (exec_o (SPrim x p e)) S0 vc bc (olist o) vc' bc').
    { unfold lvn_number. intros HN.
      destruct (bassoc (BVPrim p a) bc) as [n|] eqn:Eb; injection HN as <- <- <-; cbn [olist].
      - eapply number_drop; eauto. intros S eo et tr Hi HR. cbn [exec]. eexists. split; [reflexivity|]. split; [reflexivity|].
        intros u Heq Hh. pose proof (bval_eq_holds et _ _ n Heq Hh) as Hv. cbn in Hv.
        rewrite (RelL_expr vc bc S eo et e HR (in_scope_In _ _ _ Hsc Hi)). fold a. now rewrite Hv.
      - eapply number_keep; [reflexivity | |].
        + intros D Hwf Hi e0 y [<-|[]] Ey. apply (lvn_expr_range vc bc D S0 e y Hwf Hi Hsc Ey).
        + intros S eo et tr Hi HR. cbn. eexists. split; [reflexivity|].
          rewrite (RelL_expr vc bc S eo et e HR (in_scope_In _ _ _ Hsc Hi)). fold a. split; [reflexivity|].
          assert (Va : forall y, a = EVar y -> In y S).
          { intros y Ey. eapply (RelL_expr_scope vc bc S eo et e); eauto. eapply in_scope_In; eauto. }
          split; [intros e0 y [<-|[]] Ey; auto|].
          intros et' Hf Hx. cbn. rewrite (eval_frame et et' a S) by auto. unfold eval at 1. now rewrite Hx. }
    cbn [binders defs]. destruct p; [apply NUM; exact H | apply NUM; exact H | apply PLAIN; symmetry; exact H].
  Qed.
  Lemma PL_SCall fn args ret : PL (SCall fn args ret).
  Proof.
    intros vc bc o vc' bc' S0 H Hsc. cbn [lvn_stmt] in H. cbn [scoped] in Hsc. injection H as <- <- <-.
    cbn [olist binders defs]. intros D Hwf HS0 Hnd Hdj. split.
    - split; [eapply wfL_mono; eauto; apply incl'_app_r | cbn; rewrite app_nil_r; apply incl'_refl].
    - intros S eo et tr Hi1 Hi2 HR. cbn [exec].
      assert (Hargs : map (eval w et) (map (lvn_expr vc) args) = map (eval w eo) args).
      { rewrite map_map. apply map_ext_in. intros a Ha. symmetry. apply (RelL_expr vc bc S eo et a HR).
        rewrite forallb_forall in Hsc. apply (in_scope_In _ _ _ (Hsc a Ha) Hi1). }
      destruct (w_call w tr fn (map (eval w eo) args)) as [v|] eqn:Ec; cbn [dynL]; auto.
      rewrite exec_block_cons. cbn [exec]. rewrite Hargs, Ec. destruct HR as [HR HT].
      destruct ret as [r|]; cbn [bind_opt opt_names app].
      + assert (HrD : ~ In r D) by (intros Hr; eapply Hdj; eauto; left; reflexivity).
        assert (HrS : ~ In r S) by (intros Hr; apply HrD; auto).
        exists ((r, v) :: et), (r :: S). split; [reflexivity|]. split; [|split; apply incl'_refl]. split.
        * destruct Hwf as [Hc _]. apply Rel_def; auto. eapply cx_wf_notin_v; eauto.
        * eapply TB_mono; [eapply TB_frame; eauto | apply incl'_cons_r].
          intros y Hy. cbn. destruct (N.eqb_spec y r) as [->|]; [contradiction | reflexivity].
      + exists et, S. split; [reflexivity|]. split; [split; assumption|]. split; apply incl'_refl.
  Qed.

  Lemma PL_SStruct x tn es : PL (SStruct x tn es).
  Proof.
    intros vc bc o vc' bc' S0 H Hsc. cbn [lvn_stmt] in H. cbn [scoped] in Hsc. injection H as <- <- <-.
    cbn [olist binders defs]. apply plain_keep; [reflexivity|].
    intros S eo et tr Hi1 HR. cbn [exec].
    assert (Hes : map (eval w et) (map (lvn_expr vc) es) = map (eval w eo) es).
    { rewrite map_map. apply map_ext_in. intros a Ha. symmetry. apply (RelL_expr vc bc S eo et a HR).
      rewrite forallb_forall in Hsc. apply (in_scope_In _ _ _ (Hsc a Ha) Hi1). }
    rewrite Hes. eexists. split; reflexivity.
  Qed.
  Lemma PL_SLateDecl x : PL (SLateDecl x).
  Proof. intros vc bc o vc' bc' S0 _ Hsc. discriminate Hsc. Qed.
  Lemma PL_SLateAssign x e : PL (SLateAssign x e).
  Proof. intros vc bc o vc' bc' S0 _ Hsc. discriminate Hsc. Qed.

  Lemma PL_SBreak e : PL (SBreak e).
  Proof.
    intros vc bc o vc' bc' S0 H Hsc. cbn [lvn_stmt] in H. cbn [scoped] in Hsc. injection H as <- <- <-.
    cbn [olist binders defs]. intros D Hwf HS0 Hnd Hdj. split.
    - split; [assumption | intros x []].
    - intros S eo et tr Hi1 Hi2 HR. cbn. eexists.
      rewrite (RelL_expr vc bc S eo et e HR (in_scope_In _ _ _ Hsc Hi1)). reflexivity.
  Qed.

  Lemma QL_nil : QL [].
  Proof.
    intros vc bc out vc' bc' S0 H _. cbn in H. injection H as <- <- <-. intros D Hwf HS0 Hnd Hdj. split.
    - split; [assumption | intros x []].
    - intros S eo et tr Hi1 Hi2 HR. cbn. exists et, S. split; [reflexivity|]. split; [assumption|]. split; apply incl'_refl.
  Qed.

  Lemma QL_cons st r : PL st -> QL r -> QL (st :: r).
  Proof.
    intros HP IH vc bc out vc' bc' S0 H Hsc.
    cbn [scoped_l] in Hsc. apply andb_prop in Hsc. destruct Hsc as [Hsc1 Hsc2]. cbn [lvn_stmts] in H.
    destruct (lvn_stmt st vc bc) as [[o1 vc1] bc1] eqn:E1.
    destruct (lvn_stmts r vc1 bc1) as [[o2 vc2] bc2] eqn:E2. injection H as <- <- <-.
    specialize (HP vc bc o1 vc1 bc1 S0 E1 Hsc1). specialize (IH vc1 bc1 o2 vc2 bc2 (defs st ++ S0) E2 Hsc2).
    cbn [binders_l defs_l].
    intros D Hwf HS0 Hnd Hdj. destruct (disj_app_l _ _ _ Hdj) as [Hdj1 Hdj2].
    destruct (HP D Hwf HS0 (NoDup_app_l' _ _ Hnd) Hdj1) as [(W1 & B1) Hd1].
    assert (HS0' : incl' (defs st ++ S0) (binders st ++ D)).
    { intros x. rewrite !in_app_iff. intros [Hx|Hx]; [left; now apply defs_in_binders | right; auto]. }
    assert (Hdj' : disj (binders_l r) (binders st ++ D)).
    { intros x Hx. rewrite in_app_iff. intros [Hb|Hb]; [eapply NoDup_app_disj'; eauto | eapply Hdj2; eauto]. }
    destruct (IH (binders st ++ D) W1 HS0' (NoDup_app_r' _ _ Hnd) Hdj') as [(W2 & B2) Hd2].
    assert (Eout : match o1 with Some st' => st' :: o2 | None => o2 end = olist o1 ++ o2) by (destruct o1; reflexivity).
    rewrite Eout. split.
    - split; [eapply wfL_mono; eauto; intros x; rewrite !in_app_iff; tauto|].
      rewrite binders_l_app. intros x. rewrite !in_app_iff. intros [Hx|Hx]; auto.
    - intros S eo et tr Hi1 Hi2 HR. specialize (Hd1 S eo et tr Hi1 Hi2 HR). rewrite exec_block_cons.
      destruct (exec_o st eo tr) as [eo1 tr1|v eo1 tr1| | | | |]; cbn [dynL] in *; auto.
      + destruct Hd1 as (et1 & S1 & Ex1 & HR1 & Lo1 & Up1).
        assert (Hi1' : incl' (defs st ++ S0) S1).
        { intros x Hx. apply Lo1. rewrite in_app_iff in *. destruct Hx; auto. }
        assert (Hi2' : incl' S1 (binders st ++ D)).
        { intros x Hx. apply Up1 in Hx. rewrite in_app_iff in *. destruct Hx; auto. }
        specialize (Hd2 S1 eo1 et1 tr1 Hi1' Hi2' HR1).
        destruct (exec_block_o r eo1 tr1) as [eo2 tr2|v eo2 tr2| | | | |]; cbn [dynL] in *; auto.
        * destruct Hd2 as (et2 & S2 & Ex2 & HR2 & Lo2 & Up2). exists et2, S2.
          split; [rewrite exec_block_app, Ex1; exact Ex2|]. split; [assumption|]. split.
          -- intros x Hx. apply Lo2. rewrite !in_app_iff in *. destruct Hx as [[Hx|Hx]|Hx]; auto;
               right; apply Lo1; rewrite in_app_iff; auto.
          -- intros x Hx. apply Up2 in Hx. rewrite !in_app_iff in *. destruct Hx as [Hx|Hx]; auto.
             apply Up1 in Hx. rewrite in_app_iff in Hx. tauto.
        * destruct Hd2 as [et2 Ex2]. exists et2. rewrite exec_block_app, Ex1. exact Ex2.
      + destruct Hd1 as [et1 Ex1]. exists et1. rewrite exec_block_app, Ex1. reflexivity.
  Qed.
  (* ---- compound statements: the contexts after the statement are those before it ---- *)
  Lemma lvn_SIf c s1 s2 fas vc bc :
    lvn_stmt (SIf c s1 s2 fas) vc bc =
    let c' := lvn_expr vc c in
    let '(s1', vc1, _) := lvn_stmts s1 vc bc in
    let '(s2', vc2, _) := lvn_stmts s2 vc bc in
    (Some (SIf c' s1' s2' (map (fun t => (t_name t, lvn_expr vc1 (t_e1 t), lvn_expr vc2 (t_e2 t))) fas)), vc, bc).
  Proof. reflexivity. Qed.
  Lemma lvn_SSIf c inv ss vc bc :
    lvn_stmt (SSIf c inv ss) vc bc =
    let c' := lvn_expr vc c in
    let '(ss', _, _) := lvn_stmts ss vc bc in (Some (SSIf c' inv ss'), vc, bc).
  Proof. reflexivity. Qed.
  Lemma lvn_SWhile lvs ss bcol vc bc :
    lvn_stmt (SWhile lvs ss bcol) vc bc =
    let '(ss', vc1, _) := lvn_stmts ss vc bc in
    (Some (SWhile (map (fun t => (t_name t, lvn_expr vc (t_e1 t), lvn_expr vc1 (t_e2 t))) lvs) ss' bcol), vc, bc).
  Proof. reflexivity. Qed.

  Lemma RelL_after vc bc S L D eo et eo' et' :
    RelL vc bc S eo et -> wfL vc bc D -> incl' S D ->
    (forall x, In x S -> lookup x eo' = lookup x eo) -> (forall x, In x S -> lookup x et' = lookup x et) ->
    (forall x, In x L -> lookup x eo' = lookup x et' /\ ~ In x D) ->
    RelL vc bc (L ++ S) eo' et'.
  Proof.
    intros [HR HT] [Hc _] HSD Fo Ft HL. split.
    - apply Rel_add_many; [eapply Rel_frame; eauto|]. intros x Hx. destruct (HL x Hx) as [E Hn].
      split; [assumption|]. split; [eapply cx_wf_notin_v; eauto | reflexivity].
    - eapply TB_mono; [eapply TB_frame; eauto | apply incl'_app_r].
  Qed.

  Lemma PL_SSIf c inv ss : QL ss -> PL (SSIf c inv ss).
  Proof.
    intros HQ vc bc o vc' bc' S0 H Hsc. rewrite lvn_SSIf in H. cbn zeta in H.
    rewrite scoped_SSIf in Hsc. apply andb_prop in Hsc. destruct Hsc as [Hc Hsc].
    destruct (lvn_stmts ss vc bc) as [[ss' vc1] bc1] eqn:E1. injection H as <- <- <-.
    specialize (HQ vc bc ss' vc1 bc1 S0 E1 Hsc). rewrite binders_SSIf. cbn [defs olist].
    intros D Hwf HS0 Hnd Hdj. destruct (HQ D Hwf HS0 Hnd Hdj) as [(W1 & B1) Hd]. split.
    - split; [eapply wfL_mono; eauto; apply incl'_app_r|]. cbn [binders_l]. rewrite binders_SSIf, app_nil_r. exact B1.
    - intros S eo et tr Hi1 Hi2 HR. specialize (Hd S eo et tr Hi1 Hi2 HR). rewrite exec_SSIf.
      pose proof (RelL_expr vc bc S eo et c HR (in_scope_In _ _ _ Hc Hi1)) as Ec. rewrite Ec.
      destruct (cond (eval w et (lvn_expr vc c))) as [b|] eqn:Eb; cbn [dynL]; auto.
      assert (HSB : forall x, In x S -> ~ In x (binders_l ss)) by (intros x Hx Hb; eapply Hdj; eauto).
      destruct (xorb b inv) eqn:Ex.
      + pose proof (frame_block Add w fuel ss eo tr) as Fo.
        destruct (exec_block_o ss eo tr) as [eo1 tr1|v eo1 tr1| | | | |]; cbn [dynL] in *; auto.
        * destruct Hd as (et1 & S1 & Ex1 & HR1 & Lo1 & Up1).
          pose proof (frame_block Add w fuel ss' et tr) as Ft. rewrite Ex1 in Ft. cbn in Fo, Ft.
          exists et1, S. split; [rewrite exec_block_cons, exec_SSIf, Eb, Ex, Ex1; reflexivity|].
          split; [|split; [apply incl'_refl | apply incl'_app_r]].
          apply (RelL_after vc bc S [] D eo et eo1 et1 HR Hwf Hi2).
          -- intros x Hx. apply Fo. auto.
          -- intros x Hx. apply Ft. intros Hb. apply (HSB x Hx). auto.
          -- intros x [].
        * destruct Hd as [et1 Ex1]. exists et1. rewrite exec_block_cons, exec_SSIf, Eb, Ex, Ex1. reflexivity.
      + exists et, S. split; [rewrite exec_block_cons, exec_SSIf, Eb, Ex; reflexivity|].
        split; [assumption|]. split; [apply incl'_refl | apply incl'_app_r].
  Qed.

  Lemma PL_SIf c s1 s2 fas : QL s1 -> QL s2 -> PL (SIf c s1 s2 fas).
  Proof.
    intros HQ1 HQ2 vc bc o vc' bc' S0 H Hsc. rewrite lvn_SIf in H. cbn zeta in H.
    destruct (SIf_scoped_parts _ _ _ _ _ Hsc) as (Hc & Hs1 & Hs2 & Hfa).
    destruct (lvn_stmts s1 vc bc) as [[s1' vc1] bc1] eqn:E1.
    destruct (lvn_stmts s2 vc bc) as [[s2' vc2] bc2] eqn:E2. injection H as <- <- <-.
    set (F := fun t : triple => (t_name t, lvn_expr vc1 (t_e1 t), lvn_expr vc2 (t_e2 t))).
    specialize (HQ1 vc bc s1' vc1 bc1 S0 E1 Hs1). specialize (HQ2 vc bc s2' vc2 bc2 S0 E2 Hs2).
    cbn [defs olist]. intros D Hwf HS0 Hnd Hdj. rewrite binders_SIf in *.
    assert (Hnd1 : NoDup (binders_l s1)) by (eapply NoDup_app_l'; eauto).
    assert (Hnd2 : NoDup (binders_l s2)) by (eapply NoDup_app_l', NoDup_app_r'; eauto).
    assert (HndF : NoDup (map t_name fas)) by (eapply NoDup_app_r', NoDup_app_r'; eauto).
    assert (Dj1 : disj (binders_l s1) D) by (intros x Hx; apply Hdj; rewrite !in_app_iff; auto).
    assert (Dj2 : disj (binders_l s2) D) by (intros x Hx; apply Hdj; rewrite !in_app_iff; auto).
    assert (DjF : forall x, In x (map t_name fas) -> ~ In x D) by (intros x Hx Hd; eapply Hdj; eauto; rewrite !in_app_iff; auto).
    destruct (HQ1 D Hwf HS0 Hnd1 Dj1) as [(W1 & Bo1) Hd1].
    destruct (HQ2 D Hwf HS0 Hnd2 Dj2) as [(W2 & Bo2) Hd2].
    assert (EFN : map t_name (map F fas) = map t_name fas) by (rewrite map_map; reflexivity).
    split.
    - split; [eapply wfL_mono; eauto; apply incl'_app_r|].
      cbn [binders_l]. rewrite binders_SIf, app_nil_r, EFN. intros x. rewrite !in_app_iff. intros [Hx|[Hx|Hx]]; auto.
    - intros S eo et tr Hi1 Hi2 HR. rewrite exec_SIf.
      pose proof (RelL_expr vc bc S eo et c HR (in_scope_In _ _ _ Hc Hi1)) as Ec. rewrite Ec.
      destruct (cond (eval w et (lvn_expr vc c))) as [b|] eqn:Eb; [|exact I].
      assert (HSnb1 : forall x, In x S -> ~ In x (binders_l s1)) by (intros x Hx Hb; eapply Dj1; eauto).
      assert (HSnb2 : forall x, In x S -> ~ In x (binders_l s2)) by (intros x Hx Hb; eapply Dj2; eauto).
      assert (HSF : forall x, In x S -> ~ In x (map t_name fas)) by (intros x Hx Hf; apply (DjF x Hf); auto).
      destruct b.
      + specialize (Hd1 S eo et tr Hi1 Hi2 HR). pose proof (frame_block Add w fuel s1 eo tr) as Fo.
        destruct (exec_block_o s1 eo tr) as [eo1 tr1|v eo1 tr1| | | | |]; cbn [dynL] in *; auto.
        * destruct Hd1 as (et1 & S1 & Ex1 & HR1 & Lo1 & Up1).
          pose proof (frame_block Add w fuel s1' et tr) as Ft. rewrite Ex1 in Ft. cbn in Fo, Ft.
          exists (bind_e1 w (map F fas) et1), (map t_name fas ++ S).
          split; [rewrite exec_block_cons, exec_SIf, Eb, Ex1; reflexivity|].
          split; [|split; [apply incl'_refl | intros x; rewrite !in_app_iff; tauto]].
          apply (RelL_after vc bc S _ D eo et _ _ HR Hwf Hi2); unfold bind_e1.
          -- intros x Hx. rewrite (lookup_bind_notin w t_e1) by auto. apply Fo. auto.
          -- intros x Hx. rewrite (lookup_bind_notin w t_e1) by (rewrite EFN; auto). apply Ft. intros Hb. apply (HSnb1 x Hx). auto.
          -- intros x Hx. split; [|auto]. apply in_map_iff in Hx. destruct Hx as [t [<- Ht]].
             assert (HF : find (fun t' : triple => N.eqb (t_name t) (t_name t')) (map F fas) = Some (F t)) by (apply find_mapped; auto).
             rewrite !(lookup_bind w t_e1), (find_name_unique fas t HndF Ht), HF.
             cbn [F t_e1 fst snd]. apply (RelL_expr vc1 bc1 S1 eo1 et1 (t_e1 t) HR1).
             intros y Ey. apply Lo1. pose proof (Hfa true t Ht) as Hs. cbn in Hs. rewrite Ey in Hs.
             apply in_scope_var in Hs. rewrite !in_app_iff in *. destruct Hs; auto.
        * destruct Hd1 as [et1 Ex1]. exists et1. rewrite exec_block_cons, exec_SIf, Eb, Ex1. reflexivity.
      + specialize (Hd2 S eo et tr Hi1 Hi2 HR). pose proof (frame_block Add w fuel s2 eo tr) as Fo.
        destruct (exec_block_o s2 eo tr) as [eo1 tr1|v eo1 tr1| | | | |]; cbn [dynL] in *; auto.
        * destruct Hd2 as (et1 & S1 & Ex1 & HR1 & Lo1 & Up1).
          pose proof (frame_block Add w fuel s2' et tr) as Ft. rewrite Ex1 in Ft. cbn in Fo, Ft.
          exists (bind_e2 w (map F fas) et1), (map t_name fas ++ S).
          split; [rewrite exec_block_cons, exec_SIf, Eb, Ex1; reflexivity|].
          split; [|split; [apply incl'_refl | intros x; rewrite !in_app_iff; tauto]].
          apply (RelL_after vc bc S _ D eo et _ _ HR Hwf Hi2); unfold bind_e2.
          -- intros x Hx. rewrite (lookup_bind_notin w t_e2) by auto. apply Fo. auto.
          -- intros x Hx. rewrite (lookup_bind_notin w t_e2) by (rewrite EFN; auto). apply Ft. intros Hb. apply (HSnb2 x Hx). auto.
          -- intros x Hx. split; [|auto]. apply in_map_iff in Hx. destruct Hx as [t [<- Ht]].
             assert (HF : find (fun t' : triple => N.eqb (t_name t) (t_name t')) (map F fas) = Some (F t)) by (apply find_mapped; auto).
             rewrite !(lookup_bind w t_e2), (find_name_unique fas t HndF Ht), HF.
             cbn [F t_e2 snd]. apply (RelL_expr vc2 bc2 S1 eo1 et1 (t_e2 t) HR1).
             intros y Ey. apply Lo1. pose proof (Hfa false t Ht) as Hs. cbn in Hs. rewrite Ey in Hs.
             apply in_scope_var in Hs. rewrite !in_app_iff in *. destruct Hs; auto.
        * destruct Hd2 as [et1 Ex1]. exists et1. rewrite exec_block_cons, exec_SIf, Eb, Ex1. reflexivity.
  Qed.
  Lemma PL_SWhile lvs ss bcol : QL ss -> PL (SWhile lvs ss bcol).
  Proof.
    intros HQ vc bc o vc' bc' S0 H Hsc. rewrite lvn_SWhile in H.
    destruct (lvn_stmts ss vc bc) as [[ss' vc1] bc1] eqn:E1. injection H as <- <- <-.
    set (F := fun t : triple => (t_name t, lvn_expr vc (t_e1 t), lvn_expr vc1 (t_e2 t))).
    rewrite scoped_SWhile in Hsc. apply andb_prop in Hsc. destruct Hsc as [Hsc Hl2].
    apply andb_prop in Hsc. destruct Hsc as [Hl1 Hss]. rewrite forallb_forall in Hl1, Hl2.
    set (LN := map t_name lvs) in *.
    assert (ELN : map t_name (map F lvs) = LN) by (unfold LN; rewrite map_map; reflexivity).
    specialize (HQ vc bc ss' vc1 bc1 (LN ++ S0) E1 Hss).
    cbn [defs olist]. rewrite binders_SWhile. fold LN.
    intros D Hwf HS0 Hnd Hdj.
    assert (HndL : NoDup LN) by (eapply NoDup_app_l'; eauto).
    assert (HndB : NoDup (binders_l ss)) by (eapply NoDup_app_l', NoDup_app_r'; eauto).
    assert (DLB : forall x, In x LN -> In x (binders_l ss) -> False).
    { intros x H1 H2. eapply (NoDup_app_disj' _ _ x Hnd); eauto. rewrite in_app_iff. auto. }
    assert (DjL : forall x, In x LN -> ~ In x D) by (intros x Hx Hd; eapply Hdj; eauto; rewrite !in_app_iff; auto).
    assert (DjB : forall x, In x (binders_l ss) -> ~ In x D) by (intros x Hx Hd; eapply Hdj; eauto; rewrite !in_app_iff; auto).
    assert (Djc : forall x, In x (opt_names bcol) -> ~ In x D) by (intros x Hx Hd; eapply Hdj; eauto; rewrite !in_app_iff; auto).
    assert (HwfL : wfL vc bc (LN ++ D)) by (eapply wfL_mono; eauto; apply incl'_app_r).
    assert (HS0L : incl' (LN ++ S0) (LN ++ D)) by (intros x; rewrite !in_app_iff; intros [Hx|Hx]; auto).
    assert (HdjB : disj (binders_l ss) (LN ++ D)).
    { intros x Hx. rewrite in_app_iff. intros [Hl|Hd]; [eapply DLB | eapply DjB]; eauto. }
    destruct (HQ (LN ++ D) HwfL HS0L HndB HdjB) as [(Wb & Bb) Hdb].
    split.
    - split; [apply (wfL_mono vc bc D _ Hwf); apply incl'_app_r|].
      cbn [binders_l]. rewrite binders_SWhile, app_nil_r, ELN. intros x. rewrite !in_app_iff.
      intros [Hx|[Hx|Hx]]; auto.
    - intros S eo et tr Hi1 Hi2 HR.
      assert (HSL : forall x, In x S -> ~ In x LN) by (intros x Hx Hl; apply (DjL x Hl); auto).
      assert (HSB : forall x, In x S -> ~ In x (binders_l ss)) by (intros x Hx Hb; apply (DjB x Hb); auto).
      set (Iv := fun eh th : env => RelL vc bc S eh th /\ forall x, In x LN -> lookup x eh = lookup x th).
      assert (HF : forall t, In t lvs -> find (fun t' : triple => N.eqb (t_name t) (t_name t')) (map F lvs) = Some (F t)).
      { intros t Ht. apply find_mapped; auto. }
      assert (Hinit : Iv (bind_e1 w lvs eo) (bind_e1 w (map F lvs) et)).
      { split.
        - apply (RelL_after vc bc S [] D eo et _ _ HR Hwf Hi2); unfold bind_e1.
          + intros x Hx. apply (lookup_bind_notin w t_e1). auto.
          + intros x Hx. apply (lookup_bind_notin w t_e1). rewrite ELN. auto.
          + intros x [].
        - intros x Hx. apply in_map_iff in Hx. destruct Hx as [t [<- Ht]]. unfold bind_e1.
          rewrite !(lookup_bind w t_e1), (find_name_unique lvs t HndL Ht), (HF t Ht).
          cbn [F t_e1 fst snd]. apply (RelL_expr vc bc S eo et (t_e1 t) HR). eapply in_scope_In; eauto. }
      assert (Hstep : forall eh th t0, Iv eh th ->
         match exec_block_o ss eh t0 with
         | RNext e1' t1 => exists e2', exec_block_t ss' th t0 = RNext e2' t1 /\ Iv (bind_e2 w lvs e1') (bind_e2 w (map F lvs) e2')
         | RBreak v _ t1 => exists e2', exec_block_t ss' th t0 = RBreak v e2' t1
         | _ => True
         end).
      { intros eh th t0 [HRh HLh].
        assert (HRL : RelL vc bc (LN ++ S) eh th).
        { apply (RelL_after vc bc S LN D eh th eh th HRh Hwf Hi2); auto. }
        assert (HiL1 : incl' (LN ++ S0) (LN ++ S)) by (intros x; rewrite !in_app_iff; intros [Hx|Hx]; auto).
        assert (HiL2 : incl' (LN ++ S) (LN ++ D)) by (intros x; rewrite !in_app_iff; intros [Hx|Hx]; auto).
        specialize (Hdb (LN ++ S) eh th t0 HiL1 HiL2 HRL).
        pose proof (frame_block Add w fuel ss eh t0) as Fo.
        destruct (exec_block_o ss eh t0) as [eo1 tr1|v eo1 tr1| | | | |]; cbn [dynL] in *; auto.
        destruct Hdb as (et1 & S1 & Ex1 & HR1 & Lo1 & Up1). exists et1. split; [assumption|].
        pose proof (frame_block Add w fuel ss' th t0) as Ft. rewrite Ex1 in Ft. cbn in Fo, Ft.
        split.
        - apply (RelL_after vc bc S [] D eh th _ _ HRh Hwf Hi2); unfold bind_e2.
          + intros x Hx. rewrite (lookup_bind_notin w t_e2) by auto. apply Fo. auto.
          + intros x Hx. rewrite (lookup_bind_notin w t_e2) by (rewrite ELN; auto). apply Ft. intros Hb. apply (HSB x Hx). auto.
          + intros x [].
        - intros x Hx. apply in_map_iff in Hx. destruct Hx as [t [<- Ht]]. unfold bind_e2.
          rewrite !(lookup_bind w t_e2), (find_name_unique lvs t HndL Ht), (HF t Ht).
          cbn [F t_e2 snd]. apply (RelL_expr vc1 bc1 S1 eo1 et1 (t_e2 t) HR1).
          intros y Ey. apply Lo1. specialize (Hl2 t Ht). rewrite Ey in Hl2. apply in_scope_var in Hl2.
          rewrite !in_app_iff in *. destruct Hl2 as [Hy|[Hy|Hy]]; auto. }
      pose proof (loop_sim2 Iv _ _ _ _ Hstep fuel _ _ tr Hinit) as HL.
      pose proof (frame_stmt Add w fuel (SWhile lvs ss bcol) eo tr) as FWo.
      pose proof (frame_stmt Add w fuel (SWhile (map F lvs) ss' bcol) et tr) as FWt.
      rewrite exec_SWhile. rewrite exec_SWhile in FWo, FWt.
      destruct (loop (exec_block_o ss) (bind_e2 w lvs) fuel (bind_e1 w lvs eo) tr) as [? ?|v eo1 tr1| | | | |] eqn:EL;
        cbn [dynL]; auto.
      destruct HL as [et1 HLt]. rewrite HLt in FWt.
      exists (bind_opt bcol v et1), (opt_names bcol ++ S).
      split; [rewrite exec_block_cons, exec_SWhile, HLt; reflexivity|].
      split; [|split; [apply incl'_refl | intros x; rewrite !in_app_iff; tauto]].
      rewrite binders_SWhile in FWo, FWt. rewrite ELN in FWt. fold LN in FWo. unfold frame_res in FWo, FWt.
      apply (RelL_after vc bc S _ D eo et _ _ HR Hwf Hi2).
      + intros x Hx. apply FWo. rewrite !in_app_iff. intros [Hb|[Hb|Hb]]; [eapply HSL | eapply HSB | eapply Djc]; eauto.
      + intros x Hx. apply FWt. rewrite !in_app_iff. intros [Hb|[Hb|Hb]]; [eapply HSL | eapply HSB | eapply Djc]; eauto.
      + intros x Hx. split; [|auto]. destruct bcol as [bn|]; [|destruct Hx]. destruct Hx as [<-|[]].
        cbn [bind_opt lookup]. now rewrite N.eqb_refl.
  Qed.

  Theorem lvn_all : (forall st, PL st) /\ (forall ss, QL ss).
  Proof.
    apply stmt_stmts_ind2.
    - exact PL_SBin.
    - exact PL_SNot.
    - exact PL_SPrim.
    - exact PL_SCall.
    - exact PL_SIf.
    - exact PL_SSIf.
    - exact PL_SBreak.
    - exact PL_SWhile.
    - exact PL_SStruct.
    - exact PL_SLateDecl.
    - exact PL_SLateAssign.
    - exact QL_nil.
    - exact QL_cons.
  Qed.
End Lvn.

Theorem lvn_preserves_add w f : wf_func f = true -> refines_add w (lvn f) f.
Proof.
  unfold wf_func. intros Hwf. apply andb_prop in Hwf. destruct Hwf as [Hwf Hret].
  apply andb_prop in Hwf. destruct Hwf as [Hnd Hsc]. apply nodupb_NoDup in Hnd.
  intros args fuel v tr Hsem. unfold lvn.
  destruct (lvn_stmts (f_body f) [] []) as [[body vc] bc] eqn:E.
  destruct (lvn_all w fuel) as [_ HQ].
  assert (Hwf0 : wfL [] [] (f_params f)).
  { split; [apply cx_wf_init | intros u n []]. }
  destruct (HQ (f_body f) [] [] body vc bc (f_params f) E Hsc (f_params f) Hwf0 (incl'_refl _)) as [_ Hd].
  - eapply NoDup_app_r'; eauto.
  - intros x Hb Hp. eapply (NoDup_app_disj' _ _ x Hnd); eauto.
  - assert (HR0 : RelL w [] [] (f_params f) (init_env f args) (init_env f args)).
    { split; [apply (Rel_init w) | intros u n []]. }
    specialize (Hd (f_params f) (init_env f args) (init_env f args) [] (incl'_refl _) (incl'_refl _) HR0).
    unfold sem in *. cbn [f_body f_params f_ret].
    change (init_env {| f_params := f_params f; f_body := body; f_ret := lvn_expr vc (f_ret f) |} args)
      with (init_env f args).
    destruct (exec_block Add w fuel (f_body f) (init_env f args) []) as [eo' tr'| | | | | |]; try discriminate.
    injection Hsem as <- <-. cbn [dynL] in Hd. destruct Hd as (et' & S' & Ex & HR & Lo & _).
    rewrite Ex. f_equal. symmetry. apply (RelL_expr w vc bc S' eo' et' (f_ret f) HR).
    intros x Ex'. apply Lo. apply in_scope_var. rewrite <- Ex'. exact Hret.
Qed.

Corollary lvn_preserves w f : wf_func f = true -> refines w (lvn f) f.
Proof. intros H. apply refines_add_refines. now apply lvn_preserves_add. Qed.
