(* C02deep — the passes compose: one round of the per-function pipeline (restricted to the modelled passes). *)
From Coq Require Import ZArith NArith List Bool.
Import ListNotations.
From SV Require Import Common.Int32 C02deep.Syntax C02deep.Sem C02deep.Passes C02deep.ProofsSem C02deep.ProofsDce
  C02deep.ProofsCcp C02deep.ProofsCcpFull C02deep.ProofsLvn.
Open Scope Z_scope.

(* one round of the per-function pipeline with value numbering on *)
Lemma round_preserves w f f1 fl :
  wf_func f = true -> no_dead_final_operands f -> ccp f = Some (f1, fl) -> wf_func f1 = true -> wf_func (lvn f1) = true ->
  refines_add w (dce (lvn f1)) f.
Proof.
  intros H1 H2 H3 H4 H5.
  apply (refines_add_trans w f f1); [exact (ccp_preserves_add_named w f f1 fl H1 H2 H3)|].
  apply (refines_add_trans w f1 (lvn f1)); [exact (lvn_preserves_add w f1 H4)|].
  intros args fuel v tr Hs. exact (dce_preserves_mode Add w (lvn f1) args fuel v tr H5 Hs).
Qed.
