(* C02deep — the passes compose: well-formedness (and the absence of a Break outside of a loop, and the freshness
   of the supply of names) is preserved by every modelled pass, `refines_add` is transitive, so the per-function
   pipeline of lib.rs (restricted to the modelled passes) preserves behaviour given these facts of its INPUT only. *)
From Coq Require Import ZArith NArith List Bool.
Import ListNotations.
From SV Require Import Common.Int32 C02deep.Syntax C02deep.Sem C02deep.Passes C02deep.ProofsSem C02deep.ProofsDceSets C02deep.ProofsDce
  C02deep.ProofsCcpRel C02deep.ProofsCcp C02deep.ProofsCcpFull C02deep.ProofsLvn C02deep.ProofsWf C02deep.ProofsWfLvn
  C02deep.ProofsCseStatic C02deep.ProofsCse.
Open Scope Z_scope.

(* one round of the per-function pipeline with value numbering on *)
Lemma round_preserves w f f1 fl :
  wf_func f = true -> no_break_l (f_body f) = true -> no_dead_final_operands f -> no_struct_forwarding f ->
  ccp f = Some (f1, fl) ->
  refines_add w (dce (lvn f1)) f /\ wf_func (dce (lvn f1)) = true /\ no_break_l (f_body (dce (lvn f1))) = true.
Proof.
  intros H1 Hn H2 Hnf H3.
  pose proof (ccp_wf_named f f1 fl H1 Hn H2 Hnf H3) as H4. pose proof (lvn_wf f1 H4) as H5.
  split; [|split].
  - apply (refines_add_trans w f f1); [exact (ccp_preserves_add_named w f f1 fl H1 H2 Hnf H3)|].
    apply (refines_add_trans w f1 (lvn f1)); [exact (lvn_preserves_add w f1 H4)|].
    intros args fuel v tr Hs. exact (dce_preserves_mode Add w (lvn f1) args fuel v tr H5 Hs).
  - apply dce_wf. exact H5.
  - apply dce_no_break, lvn_no_break. exact (ccp_no_break f f1 fl Hn H3).
Qed.

(* the invariant of a partial pipeline run *)
Definition okf (w : world) (f f' : func) (s : list name) : Prop :=
  refines_add w f' f /\ wf_func f' = true /\ no_break_l (f_body f') = true /\ fresh_for s f'.
Definition okr (w : world) (f : func) (r : option pst) : Prop :=
  match r with Some (f', fl, s) => fst fl = false -> okf w f f' s | None => True end.
Lemma refines_add_refl w f : refines_add w f f.
Proof. intros args fuel v tr H. exact H. Qed.
Lemma fresh_for_sub s f f' : fresh_for s f -> f_params f' = f_params f -> incl' (binders_l (f_body f')) (binders_l (f_body f)) ->
  fresh_for s f'.
Proof.
  intros [Hn Hd] Ep Hb. split; [exact Hn|]. intros x Hx Hi. apply (Hd x Hx). rewrite Ep in Hi. apply in_app_or in Hi.
  apply in_or_app. destruct Hi; auto.
Qed.

Lemma okr_ccp w f r : okr w f r -> okr w f (then_ccp ver_nf r).
Proof.
  destruct r as [[[f1 fl1] s]|]; cbn; [|auto]. intros H. change (ccp_gen ver_nf f1) with (ccp_nf f1).
  destruct (ccp_nf f1) as [[f2 fl2]|] eqn:E; cbn; [|exact I].
  intros Hf. apply orb_false_elim in Hf. destruct Hf as [Hf1 Hf2]. destruct (H Hf1) as (R & W & N & F).
  destruct (ccp_nf_binders f1 f2 fl2 W E Hf2) as [Ep Hb].
  split; [|split; [|split]].
  - apply (refines_add_trans w f f1); [exact R|]. exact (ccp_nf_preserves_add w f1 f2 fl2 W E Hf2).
  - exact (ccp_nf_wf f1 f2 fl2 W N E Hf2).
  - exact (ccp_gen_no_break ver_nf f1 f2 fl2 eq_refl N E).
  - exact (fresh_for_sub s f1 f2 F Ep Hb).
Qed.
Lemma okr_pure w f r (p : func -> func) :
  (forall g, wf_func g = true -> refines_add w (p g) g /\ wf_func (p g) = true /\
             f_params (p g) = f_params g /\ incl' (binders_l (f_body (p g))) (binders_l (f_body g))) ->
  (forall g, no_break_l (f_body g) = true -> no_break_l (f_body (p g)) = true) ->
  okr w f r -> okr w f (then_pure p r).
Proof.
  intros Hp Hn. destruct r as [[[f1 fl1] s]|]; cbn; [|auto]. intros H Hf. destruct (H Hf) as (R & W & N & F).
  destruct (Hp f1 W) as (R' & W' & Ep & Hb). split; [|split; [|split]]; auto.
  - apply (refines_add_trans w f f1); assumption.
  - exact (fresh_for_sub s f1 (p f1) F Ep Hb).
Qed.
Lemma okr_cse w f b r : okr w f r -> okr w f (then_cse b r).
Proof.
  destruct b; [|auto]. destruct r as [[[f1 fl1] s]|]; cbn; [|auto]. intros H.
  destruct (cse_gen false s f1) as [[f2 s2]|] eqn:E; [|exact I]. intros Hf. destruct (H Hf) as (R & W & N & F).
  destruct (cse_wf false s f1 f2 s2 W F E) as (W' & F' & N').
  split; [|split; [|split]]; auto.
  apply (refines_add_trans w f f1); [exact R|]. exact (cse_preserves_add w false s f1 f2 s2 W N F E).
Qed.
Lemma dce_step w g : wf_func g = true -> refines_add w (dce g) g /\ wf_func (dce g) = true /\
  f_params (dce g) = f_params g /\ incl' (binders_l (f_body (dce g))) (binders_l (f_body g)).
Proof.
  intros W. split; [|split; [apply dce_wf; exact W|split; [reflexivity|]]].
  - intros args fuel v tr Hs. exact (dce_preserves_mode Add w g args fuel v tr W Hs).
  - intros x Hx. unfold dce in Hx. cbn [f_body] in Hx. eapply dce_stmts_binders; eauto.
Qed.
Lemma lvn_step w g : wf_func g = true -> refines_add w (lvn g) g /\ wf_func (lvn g) = true /\
  f_params (lvn g) = f_params g /\ incl' (binders_l (f_body (lvn g))) (binders_l (f_body g)).
Proof. intros W. split; [exact (lvn_preserves_add w g W)|]. split; [exact (lvn_wf g W) | exact (lvn_binders g W)]. Qed.
Lemma okr_round w f b c r : okr w f r -> okr w f (one_round ver_nf b c r).
Proof.
  intros H. unfold one_round. apply okr_pure; [apply dce_step | apply dce_no_break|].
  destruct b; [apply okr_pure; [apply lvn_step | apply lvn_no_break | apply okr_cse, okr_ccp; exact H]|].
  apply okr_pure; [intros g W; split; [apply refines_add_refl|]; split; [exact W|]; split; [reflexivity | intros x Hx; exact Hx]
                  | auto | apply okr_cse, okr_ccp; exact H].
Qed.

(* optimize_function_for_rounds, restricted to the modelled passes, on its input only *)
Theorem pipeline_nf_preserves w b c sup f f' fl sup' :
  wf_func f = true -> no_break_l (f_body f) = true -> fresh_for sup f ->
  pipeline_gen ver_nf b c sup f = Some (f', fl, sup') -> fst fl = false ->
  refines_add w f' f /\ wf_func f' = true /\ no_break_l (f_body f') = true.
Proof.
  intros W N F E Hf.
  assert (H0 : okr w f (Some (f, fl0, sup))) by (intros _; split; [apply refines_add_refl | auto]).
  pose proof (okr_ccp w f _ (okr_pure w f _ dce (dce_step w) dce_no_break (okr_ccp w f _ (okr_round w f b c _ (okr_round w f b c _ H0))))) as H.
  change (okr w f (pipeline_gen ver_nf b c sup f)) in H. rewrite E in H. destruct (H Hf) as (R & W' & N' & _). auto.
Qed.
(* the pipeline itself: the same whenever forwarding of struct fields does not change its result on f *)
Theorem pipeline_preserves w b c sup f f' fl sup' :
  wf_func f = true -> no_break_l (f_body f) = true -> fresh_for sup f -> pipeline_no_struct_forwarding b c sup f ->
  pipeline b c sup f = Some (f', fl, sup') -> fst fl = false ->
  refines_add w f' f /\ wf_func f' = true /\ no_break_l (f_body f') = true.
Proof.
  intros W N F Hn E Hf. unfold pipeline_no_struct_forwarding in Hn. rewrite <- Hn in E.
  exact (pipeline_nf_preserves w b c sup f f' fl sup' W N F E Hf).
Qed.
Corollary pipeline_preserves_named w b c sup f f' fl sup' :
  wf_func f = true -> no_break_l (f_body f) = true -> fresh_for sup f ->
  pipeline_no_dead_final_operands b c sup f -> pipeline_no_struct_forwarding b c sup f ->
  pipeline b c sup f = Some (f', fl, sup') ->
  refines w f' f /\ wf_func f' = true /\ no_break_l (f_body f') = true.
Proof.
  intros W N F D Hn E. unfold pipeline_no_dead_final_operands in D. rewrite E in D.
  destruct (pipeline_preserves w b c sup f f' fl sup' W N F Hn E D) as (R & W' & N'). split; [apply refines_add_refines; exact R | auto].
Qed.
