(* C02deep — relaxed scoping (Syntax.scopedc), bodies that end in a Break, fuel monotonicity, and:
   the run of well-scoped statements depends only on the variables in scope. *)
From Coq Require Import ZArith NArith List Bool Lia.
Import ListNotations.
From SV Require Import Common.Int32 C02deep.Syntax C02deep.Sem C02deep.ProofsSem.
Open Scope Z_scope.

(* ---- unfolding ---- *)
Lemma scopedc_SIf S c s1 s2 fas :
  scopedc S (SIf c s1 s2 fas) =
  in_scope S c && scopedc_l S s1 && scopedc_l S s2 &&
  forallb (fun t => in_scope (defs_l s1 ++ S) (t_e1 t) && in_scope (defs_l s2 ++ S) (t_e2 t)) fas.
Proof. reflexivity. Qed.
Lemma scopedc_SSIf S c inv ss : scopedc S (SSIf c inv ss) = in_scope S c && scopedc_l S ss.
Proof. reflexivity. Qed.
Lemma scopedc_SWhile S lvs ss bc :
  scopedc S (SWhile lvs ss bc) =
  forallb (fun t => in_scope S (t_e1 t)) lvs &&
  scopedc_l (map t_name lvs ++ S) ss &&
  (ends_break ss || forallb (fun t => in_scope (defs_l ss ++ map t_name lvs ++ S) (t_e2 t)) lvs).
Proof. reflexivity. Qed.

Lemma scoped_scopedc_both :
  (forall s S, scoped S s = true -> scopedc S s = true) /\
  (forall ss S, scoped_l S ss = true -> scopedc_l S ss = true).
Proof.
  apply stmt_stmts_ind2; try (intros; assumption).
  - intros c s1 s2 fas H1 H2 S H. change (scoped S (SIf c s1 s2 fas)) with
      (in_scope S c && scoped_l S s1 && scoped_l S s2 &&
       forallb (fun t => in_scope (defs_l s1 ++ S) (t_e1 t) && in_scope (defs_l s2 ++ S) (t_e2 t)) fas) in H.
    rewrite scopedc_SIf. apply andb_prop in H. destruct H as [H Hf]. apply andb_prop in H. destruct H as [H Hb].
    apply andb_prop in H. destruct H as [Hc Ha]. rewrite Hc, (H1 S Ha), (H2 S Hb), Hf. reflexivity.
  - intros c inv ss H S Hs. change (scoped S (SSIf c inv ss)) with (in_scope S c && scoped_l S ss) in Hs.
    rewrite scopedc_SSIf. apply andb_prop in Hs. destruct Hs as [Hc Hs]. now rewrite Hc, (H S Hs).
  - intros lvs ss bc H S Hs. change (scoped S (SWhile lvs ss bc)) with
      (forallb (fun t => in_scope S (t_e1 t)) lvs && scoped_l (map t_name lvs ++ S) ss &&
       forallb (fun t => in_scope (defs_l ss ++ map t_name lvs ++ S) (t_e2 t)) lvs) in Hs.
    rewrite scopedc_SWhile. apply andb_prop in Hs. destruct Hs as [Hs H2]. apply andb_prop in Hs. destruct Hs as [H1 Hs].
    rewrite H1, (H _ Hs), H2, orb_true_r. reflexivity.
  - intros s r Hs Hr S H. cbn in *. apply andb_prop in H. destruct H as [A B]. now rewrite (Hs S A), (Hr _ B).
Qed.
Lemma scoped_l_scopedc ss S : scoped_l S ss = true -> scopedc_l S ss = true.
Proof. apply scoped_scopedc_both. Qed.
Lemma wf_wfc f : wf_func f = true -> wfc_func f = true.
Proof.
  unfold wf_func, wfc_func. intros H. apply andb_prop in H. destruct H as [H R]. apply andb_prop in H. destruct H as [N S].
  now rewrite N, (scoped_l_scopedc _ _ S), R.
Qed.

Lemma scopedc_l_app a : forall b S, scopedc_l S (a ++ b) = scopedc_l S a && scopedc_l (defs_l a ++ S) b.
Proof.
  induction a as [|s r IH]; intros b S; cbn; [reflexivity|]. rewrite IH, <- andb_assoc. f_equal. f_equal. f_equal.
  now rewrite app_assoc.
Qed.
Lemma defs_l_app a b : defs_l (a ++ b) = defs_l b ++ defs_l a.
Proof. induction a; cbn; [now rewrite app_nil_r|]. now rewrite IHa, app_assoc. Qed.

(* ---- a block whose last statement is a Break never falls through ---- *)
Lemma ends_break_split ss : ends_break ss = true -> exists rest e, ss = rest ++ [SBreak e].
Proof.
  unfold ends_break. destruct (rev ss) as [|s r] eqn:E; [discriminate|]. destruct s; try discriminate. intros _.
  exists (rev r), e. rewrite <- (rev_involutive ss), E. reflexivity.
Qed.
Lemma ends_break_app rest e : ends_break (rest ++ [SBreak e]) = true.
Proof. unfold ends_break. now rewrite rev_app_distr. Qed.

Lemma exec_block_break_last m w fuel rest e en tr :
  exec_block m w fuel (rest ++ [SBreak e]) en tr =
  match exec_block m w fuel rest en tr with RNext en' tr' => RBreak (eval w en' e) en' tr' | o => o end.
Proof. rewrite exec_block_app. destruct (exec_block m w fuel rest en tr); reflexivity. Qed.

Lemma ends_break_not_next m w fuel ss en tr en' tr' :
  ends_break ss = true -> exec_block m w fuel ss en tr <> RNext en' tr'.
Proof.
  intros H. destruct (ends_break_split ss H) as (rest & e & ->). rewrite exec_block_break_last.
  destruct (exec_block m w fuel rest en tr); discriminate.
Qed.

(* no Break at this loop level: the block never returns a Break *)
Lemma no_break_not_break m w fuel :
  (forall s en tr v en' tr', no_break s = true -> exec m w fuel s en tr <> RBreak v en' tr') /\
  (forall ss en tr v en' tr', no_break_l ss = true -> exec_block m w fuel ss en tr <> RBreak v en' tr').
Proof.
  apply stmt_stmts_ind2.
  - intros x op e1 e2 en tr v en' tr' _. cbn. destruct (chk m op && ovf op _ _); [discriminate|].
    destruct (rt_binop op _ _); discriminate.
  - intros; discriminate.
  - intros; discriminate.
  - intros f args ret en tr v en' tr' _. cbn. destruct (w_call w tr f _); discriminate.
  - intros c s1 s2 fas H1 H2 en tr v en' tr' H.
    change (no_break (SIf c s1 s2 fas)) with (no_break_l s1 && no_break_l s2) in H. apply andb_prop in H. destruct H as [A B].
    rewrite exec_SIf. destruct (cond _) as [[|]|]; [| |discriminate].
    + specialize (H1 en tr). destruct (exec_block m w fuel s1 en tr); try discriminate. intros E. eapply H1; eauto.
    + specialize (H2 en tr). destruct (exec_block m w fuel s2 en tr); try discriminate. intros E. eapply H2; eauto.
  - intros c inv ss H en tr v en' tr' Hn. change (no_break (SSIf c inv ss)) with (no_break_l ss) in Hn.
    rewrite exec_SSIf. destruct (cond _) as [b|]; [|discriminate]. destruct (xorb b inv); [now apply H | discriminate].
  - intros e en tr v en' tr' H. discriminate.
  - intros lvs ss bc _ en tr v en' tr' _. rewrite exec_SWhile. destruct (loop _ _ _ _ _); discriminate.
  - intros; discriminate.
  - intros; discriminate.
  - intros; discriminate.
  - intros; discriminate.
  - intros s r Hs Hr en tr v en' tr' H. cbn in H. apply andb_prop in H. destruct H as [A B].
    rewrite exec_block_cons. specialize (Hs en tr). destruct (exec m w fuel s en tr) eqn:E; try discriminate.
    + now apply Hr.
    + intros E'. eapply Hs; eauto.
Qed.

(* ---- more fuel does not change a run that did not run out of fuel ---- *)
Lemma loop_fuel (b1 b2 : env -> trace -> res) next :
  (forall en tr, b1 en tr <> ROof -> b2 en tr = b1 en tr) ->
  forall n1 n2 en tr, (n1 <= n2)%nat -> loop b1 next n1 en tr <> ROof -> loop b2 next n2 en tr = loop b1 next n1 en tr.
Proof.
  intros Hb. induction n1 as [|n1 IH]; intros n2 en tr Hle Hn; cbn in *; [congruence|].
  destruct n2 as [|n2]; [lia|]. cbn.
  destruct (b1 en tr) eqn:E; (rewrite Hb; rewrite E; [|try discriminate]); auto.
  apply IH; [lia | assumption].
Qed.

Lemma fuel_mono m w f1 f2 : (f1 <= f2)%nat ->
  (forall s en tr, exec m w f1 s en tr <> ROof -> exec m w f2 s en tr = exec m w f1 s en tr) /\
  (forall ss en tr, exec_block m w f1 ss en tr <> ROof -> exec_block m w f2 ss en tr = exec_block m w f1 ss en tr).
Proof.
  intros Hle. apply stmt_stmts_ind2; try (intros; reflexivity).
  - intros c s1 s2 fas H1 H2 en tr. rewrite !exec_SIf. destruct (cond _) as [[|]|]; auto.
    + intros Hn. rewrite H1; [reflexivity|]. intros E. rewrite E in Hn. congruence.
    + intros Hn. rewrite H2; [reflexivity|]. intros E. rewrite E in Hn. congruence.
  - intros c inv ss H en tr. rewrite !exec_SSIf. destruct (cond _) as [b|]; auto. destruct (xorb b inv); auto.
  - intros lvs ss bc H en tr. rewrite !exec_SWhile. intros Hn.
    rewrite (loop_fuel (exec_block m w f1 ss) (exec_block m w f2 ss) _ H f1 f2); auto.
    intros E. rewrite E in Hn. congruence.
  - intros s r Hs Hr en tr. rewrite !exec_block_cons. intros Hn.
    rewrite Hs by (intros E; rewrite E in Hn; congruence). destruct (exec m w f1 s en tr); auto.
Qed.

(* ---- well-scoped code only depends on the variables in scope ---- *)
Definition agree (w : world) (T : list name) (e e' : env) : Prop :=
  forall x, In x T -> eval w e (EVar x) = eval w e' (EVar x).

Lemma agree_sub w T T' e e' : agree w T e e' -> (forall x, In x T' -> In x T) -> agree w T' e e'.
Proof. intros H Hi x Hx. auto. Qed.
Lemma agree_eval w T e e' a : agree w T e e' -> in_scope T a = true -> eval w e a = eval w e' a.
Proof. intros H Hs. destruct a; try reflexivity. apply H. now apply memb_In. Qed.
Lemma agree_cons w T e e' x v : agree w T e e' -> agree w (x :: T) ((x, v) :: e) ((x, v) :: e').
Proof.
  intros H y Hy. unfold eval. cbn. destruct (N.eqb_spec y x); [reflexivity|].
  apply (H y). destruct Hy; [congruence | assumption].
Qed.

Lemma agree_bind w (g : triple -> expr) ts T Tv e0 e0' e e' :
  agree w Tv e0 e0' -> (forall t, In t ts -> in_scope Tv (g t) = true) -> agree w T e e' ->
  agree w (map t_name ts ++ T)
    (combine (map t_name ts) (map (fun t => eval w e0 (g t)) ts) ++ e)
    (combine (map t_name ts) (map (fun t => eval w e0' (g t)) ts) ++ e').
Proof.
  intros H0 Hs H x Hx.
  assert (EE : forall en, eval w en (EVar x) = wrap32 (lookup x en)) by reflexivity. rewrite !EE, !lookup_bind.
  destruct (find (fun t => N.eqb x (t_name t)) ts) as [t|] eqn:F.
  - apply find_some in F. destruct F as [Ht _]. f_equal. eapply agree_eval; eauto.
  - rewrite <- !EE. apply (H x). rewrite in_app_iff in Hx. destruct Hx as [Hx|Hx]; [|assumption]. exfalso.
    apply in_map_iff in Hx. destruct Hx as [t [E Ht]]. apply (find_none _ _ F) in Ht. rewrite E, N.eqb_refl in Ht. discriminate.
Qed.

Section Agree.
  Variables (m : mode) (w : world) (fuel : nat).
  Notation exec := (exec m w fuel).
  Notation exec_block := (exec_block m w fuel).

  Definition res_agree (Tn Tb : list name) (r r' : res) : Prop :=
    match r with
    | RNext e1 t => exists e1', r' = RNext e1' t /\ agree w Tn e1 e1'
    | RBreak v e1 t => exists e1', r' = RBreak v e1' t /\ agree w Tb e1 e1'
    | o => r' = o
    end.

  Lemma loop_agree (Iv : env -> env -> Prop) (K : env -> env -> Prop) b next :
    (forall e e' tr, Iv e e' ->
       match b e tr with
       | RNext e1 t => exists e1', b e' tr = RNext e1' t /\ Iv (next e1) (next e1')
       | RBreak v e1 t => exists e1', b e' tr = RBreak v e1' t /\ K e1 e1'
       | o => b e' tr = o
       end) ->
    forall n e e' tr, Iv e e' ->
      match loop b next n e tr with
      | RBreak v e1 t => exists e1', loop b next n e' tr = RBreak v e1' t /\ K e1 e1'
      | RNext _ _ => True
      | o => loop b next n e' tr = o
      end.
  Proof.
    intros Hs. induction n as [|n IH]; intros e e' tr HI; cbn; [reflexivity|].
    specialize (Hs e e' tr HI). destruct (b e tr) as [e1 t|v e1 t|t|t| | |].
    - destruct Hs as [e1' [-> HI']]. apply IH. exact HI'.
    - destruct Hs as [e1' [-> HK]]. eauto.
    - now rewrite Hs.
    - now rewrite Hs.
    - now rewrite Hs.
    - now rewrite Hs.
    - now rewrite Hs.
  Qed.

  Lemma exec_agree_both :
    (forall s T e e' tr, scopedc T s = true -> agree w T e e' ->
                         res_agree (defs s ++ T) T (exec s e tr) (exec s e' tr)) /\
    (forall ss T e e' tr, scopedc_l T ss = true -> agree w T e e' ->
                          res_agree (defs_l ss ++ T) T (exec_block ss e tr) (exec_block ss e' tr)).
  Proof.
    apply stmt_stmts_ind2.
    - intros x op e1 e2 T e e' tr Hs Ha. cbn in Hs. apply andb_prop in Hs. destruct Hs as [H1 H2]. cbn.
      rewrite <- (agree_eval w T e e' e1 Ha H1), <- (agree_eval w T e e' e2 Ha H2).
      destruct (chk m op && ovf op _ _); [reflexivity|]. destruct (rt_binop op _ _); cbn; [|reflexivity].
      eexists. split; [reflexivity|]. now apply agree_cons.
    - intros x a T e e' tr Hs Ha. cbn in Hs. cbn. rewrite <- (agree_eval w T e e' a Ha Hs).
      eexists. split; [reflexivity|]. now apply agree_cons.
    - intros x p a T e e' tr Hs Ha. cbn in Hs. cbn. rewrite <- (agree_eval w T e e' a Ha Hs).
      eexists. split; [reflexivity|]. now apply agree_cons.
    - intros f args ret T e e' tr Hs Ha. cbn in Hs. cbn.
      assert (E : map (eval w e') args = map (eval w e) args).
      { apply map_ext_in. intros a Hi. symmetry. rewrite forallb_forall in Hs. apply (agree_eval w T); auto. }
      rewrite E. destruct (w_call w tr f _); cbn; [|reflexivity]. eexists. split; [reflexivity|].
      destruct ret as [r|]; cbn; [now apply agree_cons | assumption].
    - intros c s1 s2 fas H1 H2 T e e' tr Hs Ha. rewrite scopedc_SIf in Hs.
      apply andb_prop in Hs. destruct Hs as [Hs Hf]. apply andb_prop in Hs. destruct Hs as [Hs Hb2].
      apply andb_prop in Hs. destruct Hs as [Hc Hb1]. rewrite forallb_forall in Hf.
      rewrite !exec_SIf, <- (agree_eval w T e e' c Ha Hc). cbn [defs].
      destruct (cond _) as [[|]|]; [| |reflexivity].
      + specialize (H1 T e e' tr Hb1 Ha). destruct (exec_block s1 e tr) as [e1 t|v e1 t|t|t| | |]; cbn [res_agree] in *;
          try (now rewrite H1).
        * destruct H1 as [e1' [-> Ha1]]. eexists. split; [reflexivity|]. unfold bind_e1.
          apply (agree_bind w t_e1 fas T (defs_l s1 ++ T)); auto.
          -- intros t0 Ht. specialize (Hf t0 Ht). apply andb_prop in Hf. tauto.
          -- eapply agree_sub; eauto. intros x Hx. apply in_or_app. auto.
        * destruct H1 as [e1' [-> Ha1]]. eauto.
      + specialize (H2 T e e' tr Hb2 Ha). destruct (exec_block s2 e tr) as [e1 t|v e1 t|t|t| | |]; cbn [res_agree] in *;
          try (now rewrite H2).
        * destruct H2 as [e1' [-> Ha1]]. eexists. split; [reflexivity|]. unfold bind_e2.
          apply (agree_bind w t_e2 fas T (defs_l s2 ++ T)); auto.
          -- intros t0 Ht. specialize (Hf t0 Ht). apply andb_prop in Hf. tauto.
          -- eapply agree_sub; eauto. intros x Hx. apply in_or_app. auto.
        * destruct H2 as [e1' [-> Ha1]]. eauto.
    - intros c inv ss H T e e' tr Hs Ha. rewrite scopedc_SSIf in Hs. apply andb_prop in Hs. destruct Hs as [Hc Hs].
      rewrite !exec_SSIf, <- (agree_eval w T e e' c Ha Hc). cbn [defs app].
      destruct (cond _) as [b|]; [|reflexivity]. destruct (xorb b inv).
      + specialize (H T e e' tr Hs Ha). destruct (exec_block ss e tr); cbn [res_agree] in *; auto.
        destruct H as [e1' [-> Ha1]]. eexists. split; [reflexivity|]. eapply agree_sub; eauto.
        intros x Hx. apply in_or_app. auto.
      + cbn. eauto.
    - intros a T e e' tr Hs Ha. cbn in Hs. cbn. rewrite <- (agree_eval w T e e' a Ha Hs). eauto.
    - intros lvs ss bc H T e e' tr Hs Ha. rewrite scopedc_SWhile in Hs.
      apply andb_prop in Hs. destruct Hs as [Hs Hl2]. apply andb_prop in Hs. destruct Hs as [Hl1 Hss].
      rewrite forallb_forall in Hl1. rewrite !exec_SWhile. cbn [defs].
      set (LN := map t_name lvs).
      assert (Hinit : agree w (LN ++ T) (bind_e1 w lvs e) (bind_e1 w lvs e')).
      { unfold bind_e1. apply (agree_bind w t_e1 lvs T T); auto. }
      pose proof (loop_agree (agree w (LN ++ T)) (agree w (LN ++ T)) (exec_block ss) (bind_e2 w lvs)) as HL.
      assert (Hstep : forall a a' t0, agree w (LN ++ T) a a' ->
                match exec_block ss a t0 with
                | RNext e1 t => exists e1', exec_block ss a' t0 = RNext e1' t /\ agree w (LN ++ T) (bind_e2 w lvs e1) (bind_e2 w lvs e1')
                | RBreak v e1 t => exists e1', exec_block ss a' t0 = RBreak v e1' t /\ agree w (LN ++ T) e1 e1'
                | o => exec_block ss a' t0 = o
                end).
      { intros a a' t0 Haa. specialize (H (LN ++ T) a a' t0 Hss Haa).
        destruct (exec_block ss a t0) as [e1 t|v e1 t|t|t| | |] eqn:Eb; cbn [res_agree] in H; auto.
        destruct H as [e1' [-> Ha1]]. eexists. split; [reflexivity|].
        destruct (ends_break ss) eqn:Ee; [exfalso; eapply ends_break_not_next; eauto|]. cbn in Hl2.
        rewrite forallb_forall in Hl2. unfold bind_e2.
        apply (agree_bind w t_e2 lvs T (defs_l ss ++ LN ++ T)); auto.
        eapply agree_sub; eauto. intros x Hx. rewrite !in_app_iff. auto. }
      specialize (HL Hstep fuel _ _ tr Hinit).
      destruct (loop (exec_block ss) (bind_e2 w lvs) fuel (bind_e1 w lvs e) tr) as [? ?|v e1 t|t|t| | |] eqn:EL;
        cbn [res_agree]; try (now rewrite HL).
      + exfalso. eapply loop_never_next; eauto.
      + destruct HL as [e1' [-> Ha1]]. eexists. split; [reflexivity|].
        assert (Ha2 : agree w T e1 e1') by (eapply agree_sub; eauto; intros x Hx; apply in_or_app; auto).
        destruct bc as [b|]; cbn; [now apply agree_cons | assumption].
    - intros x tn es T e e' tr Hs Ha. cbn in Hs. cbn. rewrite forallb_forall in Hs.
      rewrite (map_ext_in (eval w e) (eval w e')) by (intros a Ha'; apply (agree_eval w T e e' a Ha (Hs a Ha'))).
      eexists. split; [reflexivity|]. now apply agree_cons.
    - intros x T e e' tr Hs. discriminate Hs.
    - intros x a T e e' tr Hs. discriminate Hs.
    - intros T e e' tr _ Ha. cbn. eauto.
    - intros s r Hs Hr T e e' tr Hsc Ha. cbn in Hsc. apply andb_prop in Hsc. destruct Hsc as [H1 H2].
      rewrite !exec_block_cons. specialize (Hs T e e' tr H1 Ha).
      destruct (exec s e tr) as [e1 t|v e1 t|t|t| | |]; cbn [res_agree] in *; try (now rewrite Hs).
      + destruct Hs as [e1' [-> Ha1]]. specialize (Hr (defs s ++ T) e1 e1' t H2 Ha1).
        destruct (exec_block r e1 t) as [e2 t2|v e2 t2|t2|t2| | |]; cbn [res_agree defs_l] in *; auto.
        * destruct Hr as [e2' [-> Ha2]]. eexists. split; [reflexivity|]. eapply agree_sub; eauto.
          intros x. rewrite !in_app_iff. tauto.
        * destruct Hr as [e2' [-> Ha2]]. eexists. split; [reflexivity|]. eapply agree_sub; eauto.
          intros x Hx. apply in_or_app. auto.
      + destruct Hs as [e1' [-> Ha1]]. eauto.
  Qed.

  (* the run of a loop from two environments that agree on the scope of its body *)
  Lemma loop_run_agree lvs ss T n e e' tr :
    scopedc_l (map t_name lvs ++ T) ss = true ->
    (ends_break ss || forallb (fun t => in_scope (defs_l ss ++ map t_name lvs ++ T) (t_e2 t)) lvs) = true ->
    agree w (map t_name lvs ++ T) e e' ->
    match loop (exec_block ss) (bind_e2 w lvs) n e tr with
    | RBreak v e1 t => exists e1', loop (exec_block ss) (bind_e2 w lvs) n e' tr = RBreak v e1' t /\
                                   agree w (map t_name lvs ++ T) e1 e1'
    | RNext _ _ => True
    | o => loop (exec_block ss) (bind_e2 w lvs) n e' tr = o
    end.
  Proof.
    intros Hss Hl2 Ha. set (LN := map t_name lvs) in *.
    apply (loop_agree (agree w (LN ++ T)) (agree w (LN ++ T))); [|exact Ha].
    intros a a' t0 Haa. pose proof (proj2 exec_agree_both ss (LN ++ T) a a' t0 Hss Haa) as H.
    destruct (exec_block ss a t0) as [e1 t|v e1 t|t|t| | |] eqn:Eb; cbn [res_agree] in H; auto.
    destruct H as [e1' [-> Ha1]]. eexists. split; [reflexivity|].
    destruct (ends_break ss) eqn:Ee; [exfalso; eapply ends_break_not_next; eauto|]. cbn in Hl2.
    rewrite forallb_forall in Hl2. unfold bind_e2.
    apply (agree_bind w t_e2 lvs T (defs_l ss ++ LN ++ T)); auto.
    eapply agree_sub; eauto. intros x Hx. rewrite !in_app_iff. auto.
  Qed.
End Agree.

(* ---- the first iteration of a loop, and a loop that starts one iteration later ---- *)
Lemma loop_next_ext (b : env -> trace -> res) nx nx' : (forall e, nx e = nx' e) ->
  forall n e tr, loop b nx n e tr = loop b nx' n e tr.
Proof. intros H. induction n as [|n IH]; intros e tr; cbn; [reflexivity|]. destruct (b e tr); auto. rewrite H. apply IH. Qed.

Lemma bind_e2_same w (f : triple -> expr) l en :
  bind_e2 w (map (fun t => (t_name t, f t, t_e2 t)) l) en = bind_e2 w l en.
Proof. unfold bind_e2. rewrite !map_map. reflexivity. Qed.

Lemma while_never_break m w fuel lvs ss bc en tr v e t : exec m w fuel (SWhile lvs ss bc) en tr <> RBreak v e t.
Proof. rewrite exec_SWhile. destruct (loop _ _ _ _ _); discriminate. Qed.

Lemma while_first m w fuel lvs ss bc en tr e1 t :
  exec m w fuel (SWhile lvs ss bc) en tr = RNext e1 t ->
  (exists v a1, exec_block m w fuel ss (bind_e1 w lvs en) tr = RBreak v a1 t /\ e1 = bind_opt bc v a1) \/
  (exists ab t1 k v a1, fuel = S k /\ exec_block m w fuel ss (bind_e1 w lvs en) tr = RNext ab t1 /\
     loop (exec_block m w fuel ss) (bind_e2 w lvs) k (bind_e2 w lvs ab) t1 = RBreak v a1 t /\ e1 = bind_opt bc v a1).
Proof.
  rewrite exec_SWhile. destruct fuel as [|k]; [discriminate|].
  remember (S k) as fl eqn:Ef. rewrite Ef at 2. cbn [loop].
  destruct (exec_block m w fl ss (bind_e1 w lvs en) tr) as [ab t1|v a1 t1| | | | |] eqn:Eb; try discriminate.
  - destruct (loop _ _ k _ t1) as [|v a1 t2| | | | |] eqn:El; try discriminate. intros [= <- <-].
    right. exists ab, t1, k, v, a1. auto.
  - intros [= <- <-]. left. eauto.
Qed.

Lemma while_advance m w fuel lvs (f : triple -> expr) ss bc T en tr k ab v a1 t :
  let adv := map (fun t => (t_name t, f t, t_e2 t)) lvs in
  fuel = S k ->
  scopedc_l (map t_name lvs ++ T) ss = true ->
  (ends_break ss || forallb (fun t => in_scope (defs_l ss ++ map t_name lvs ++ T) (t_e2 t)) lvs) = true ->
  loop (exec_block m w fuel ss) (bind_e2 w lvs) k (bind_e2 w lvs ab) tr = RBreak v a1 t ->
  agree w (map t_name lvs ++ T) (bind_e2 w lvs ab) (bind_e1 w adv en) ->
  exists a1', exec m w fuel (SWhile adv ss bc) en tr = RNext (bind_opt bc v a1') t /\
              agree w (map t_name lvs ++ T) a1 a1'.
Proof.
  intros adv Ef Hss Hl2 El Ha.
  pose proof (loop_run_agree m w fuel lvs ss T k _ _ tr Hss Hl2 Ha) as H. rewrite El in H.
  destruct H as [a1' [El' Ha1]]. exists a1'. split; [|exact Ha1].
  rewrite exec_SWhile.
  rewrite (loop_next_ext _ (bind_e2 w adv) (bind_e2 w lvs)) by (intros e; apply bind_e2_same).
  rewrite (loop_fuel (exec_block m w fuel ss) (exec_block m w fuel ss) (bind_e2 w lvs) ltac:(auto) k fuel); [now rewrite El'| lia | rewrite El'; discriminate].
Qed.

Lemma agree_bind2 w (g g' : triple -> expr) ts T e0 e0' e e' :
  (forall t, In t ts -> eval w e0 (g t) = eval w e0' (g' t)) -> agree w T e e' ->
  agree w (map t_name ts ++ T)
    (combine (map t_name ts) (map (fun t => eval w e0 (g t)) ts) ++ e)
    (combine (map t_name ts) (map (fun t => eval w e0' (g' t)) ts) ++ e').
Proof.
  intros H0 H x Hx.
  assert (EE : forall en, eval w en (EVar x) = wrap32 (lookup x en)) by reflexivity. rewrite !EE, !lookup_bind.
  destruct (find (fun t => N.eqb x (t_name t)) ts) as [t|] eqn:F.
  - apply find_some in F. destruct F as [Ht _]. f_equal. auto.
  - rewrite <- !EE. apply (H x). rewrite in_app_iff in Hx. destruct Hx as [Hx|Hx]; [|assumption]. exfalso.
    apply in_map_iff in Hx. destruct Hx as [t [E Ht]]. apply (find_none _ _ F) in Ht. rewrite E, N.eqb_refl in Ht. discriminate.
Qed.
Lemma agree_sym w T e e' : agree w T e e' -> agree w T e' e.
Proof. intros H x Hx. symmetry. auto. Qed.
Lemma agree_bind_opt w T bc v e e' : agree w T e e' -> agree w (opt_names bc ++ T) (bind_opt bc v e) (bind_opt bc v e').
Proof. intros H. destruct bc as [b|]; cbn; [apply agree_cons|]; exact H. Qed.
