(* C02deep — basic facts about the semantics: unfolding equations, frame property, loop invariants,
   strict runs are wrapping runs, fuel monotonicity, invariance under injective renaming. *)
From Coq Require Import ZArith NArith List Bool Lia.
Import ListNotations.
From SV Require Import Common.Int32 C02deep.Syntax C02deep.Sem.
Open Scope Z_scope.

(* ---- names, membership ---- *)
Lemma memb_In x l : memb x l = true <-> In x l.
Proof.
  unfold memb. rewrite existsb_exists. split.
  - intros [y [Hy E]]. apply N.eqb_eq in E. now subst.
  - intros H. exists x. split; [assumption | apply N.eqb_refl].
Qed.
Lemma memb_false x l : memb x l = false <-> ~ In x l.
Proof. rewrite <- memb_In. destruct (memb x l); split; congruence. Qed.

Lemma nodupb_NoDup l : nodupb l = true -> NoDup l.
Proof.
  induction l as [|x r IH]; cbn; intros H; constructor.
  - apply andb_prop in H. destruct H as [H _]. apply negb_true_iff in H. now apply memb_false.
  - apply andb_prop in H. tauto.
Qed.

Lemma wrap32_idem z : wrap32 (wrap32 z) = wrap32 z.
Proof. apply wrap32_id, wrap32_in. Qed.

Lemma eval_in32 w en e : in32 (eval w en e).
Proof. apply wrap32_in. Qed.
Lemma eval_wrap w en e : wrap32 (eval w en e) = eval w en e.
Proof. apply wrap32_idem. Qed.

(* ---- unfolding equations ---- *)
Section Eqns.
  Variables (strict : mode) (w : world) (fuel : nat).
  Notation exec := (exec strict w fuel).
  Notation exec_block := (exec_block strict w fuel).

  Lemma exec_block_nil en tr : exec_block [] en tr = RNext en tr.
  Proof. reflexivity. Qed.
  Lemma exec_block_cons s r en tr :
    exec_block (s :: r) en tr =
    match exec s en tr with RNext en' tr' => exec_block r en' tr' | o => o end.
  Proof. reflexivity. Qed.
  Lemma exec_SIf c s1 s2 fas en tr :
    exec (SIf c s1 s2 fas) en tr =
    match cond (eval w en c) with
    | None => RStuck
    | Some true => match exec_block s1 en tr with RNext en' tr' => RNext (bind_e1 w fas en') tr' | o => o end
    | Some false => match exec_block s2 en tr with RNext en' tr' => RNext (bind_e2 w fas en') tr' | o => o end
    end.
  Proof. reflexivity. Qed.
  Lemma exec_SSIf c inv ss en tr :
    exec (SSIf c inv ss) en tr =
    match cond (eval w en c) with
    | None => RStuck
    | Some b => if xorb b inv then exec_block ss en tr else RNext en tr
    end.
  Proof. reflexivity. Qed.
  Lemma exec_SWhile lvs ss bc en tr :
    exec (SWhile lvs ss bc) en tr =
    match loop (exec_block ss) (bind_e2 w lvs) fuel (bind_e1 w lvs en) tr with
    | RBreak v en' tr' => RNext (bind_opt bc v en') tr'
    | RNext _ _ => RStuck
    | o => o
    end.
  Proof. reflexivity. Qed.

  Lemma exec_block_app a b en tr :
    exec_block (a ++ b) en tr =
    match exec_block a en tr with RNext en' tr' => exec_block b en' tr' | o => o end.
  Proof.
    revert en tr. induction a as [|s r IH]; intros en tr; [reflexivity|].
    rewrite <- app_comm_cons, !exec_block_cons. destruct (exec s en tr); auto.
  Qed.
End Eqns.

(* ---- loops ---- *)
Lemma loop_never_next body next n en tr en' tr' : loop body next n en tr <> RNext en' tr'.
Proof.
  revert en tr. induction n as [|n IH]; intros en tr; cbn; [discriminate|].
  destruct (body en tr) eqn:E; try discriminate. apply IH.
Qed.

(* an invariant of the state at the head of every iteration gives a property of the state at the break *)
Lemma loop_break_inv (I : env -> trace -> Prop) (Q : Z -> env -> trace -> Prop) body next :
  (forall en tr en' tr', I en tr -> body en tr = RNext en' tr' -> I (next en') tr') ->
  (forall en tr v en' tr', I en tr -> body en tr = RBreak v en' tr' -> Q v en' tr') ->
  forall n en tr v en' tr', I en tr -> loop body next n en tr = RBreak v en' tr' -> Q v en' tr'.
Proof.
  intros Hn Hb. induction n as [|n IH]; intros en tr v en' tr' HI; cbn; [discriminate|].
  destruct (body en tr) eqn:E; try discriminate.
  - apply IH. eapply Hn; eauto.
  - intros [= <- <- <-]. eapply Hb; eauto.
Qed.

(* ---- lookup through simultaneous assignment ---- *)
Lemma lookup_app_notin x (l : env) en : ~ In x (map fst l) -> lookup x (l ++ en) = lookup x en.
Proof.
  induction l as [|[y v] r IH]; cbn; intros H; [reflexivity|].
  destruct (N.eqb_spec x y) as [->|N]; [exfalso; auto|]. apply IH. tauto.
Qed.
Lemma map_fst_combine {A B} (l : list A) (l' : list B) : length l = length l' -> map fst (combine l l') = l.
Proof. revert l'. induction l; destruct l'; cbn; intros; try discriminate; f_equal; auto. Qed.

Lemma lookup_bind_notin w (g : triple -> expr) ts en0 en x :
  ~ In x (map t_name ts) ->
  lookup x (combine (map t_name ts) (map (fun t => eval w en0 (g t)) ts) ++ en) = lookup x en.
Proof.
  intros H. apply lookup_app_notin. rewrite map_fst_combine; [assumption|]. now rewrite !map_length.
Qed.

(* the value a simultaneous assignment gives to x: that of the first triple named x *)
Lemma lookup_bind w (g : triple -> expr) ts en0 en x :
  lookup x (combine (map t_name ts) (map (fun t => eval w en0 (g t)) ts) ++ en) =
  match find (fun t => N.eqb x (t_name t)) ts with
  | Some t => eval w en0 (g t)
  | None => lookup x en
  end.
Proof.
  induction ts as [|t r IH]; cbn; [reflexivity|].
  destruct (N.eqb x (t_name t)); [reflexivity | apply IH].
Qed.

Lemma lookup_bind_opt_notin o v en x : ~ In x (opt_names o) -> lookup x (bind_opt o v en) = lookup x en.
Proof.
  destruct o as [y|]; cbn; [|reflexivity]. intros H.
  destruct (N.eqb_spec x y) as [->|]; [exfalso; auto | reflexivity].
Qed.

(* ---- frame: a statement only assigns its binders ---- *)
Section Frame.
  Variables (strict : mode) (w : world) (fuel : nat).
  Notation exec := (exec strict w fuel).
  Notation exec_block := (exec_block strict w fuel).

  Definition frame_res (bs : list name) (en : env) (r : res) : Prop :=
    match r with
    | RNext en' _ | RBreak _ en' _ => forall x, ~ In x bs -> lookup x en' = lookup x en
    | _ => True
    end.

  Lemma frame_both :
    (forall s en tr, frame_res (binders s) en (exec s en tr)) /\
    (forall ss en tr, frame_res (binders_l ss) en (exec_block ss en tr)).
  Proof.
    apply stmt_stmts_ind2.
    - (* SBin *) intros x op e1 e2 en tr. cbn.
      destruct (chk strict op && ovf op _ _); cbn; [exact I|].
      destruct (rt_binop op _ _); cbn; [|exact I].
      intros y Hy. destruct (N.eqb_spec y x) as [->|]; [exfalso; auto | reflexivity].
    - intros x e en tr. cbn. intros y Hy. destruct (N.eqb_spec y x) as [->|]; [exfalso; auto | reflexivity].
    - intros x p e en tr. cbn. intros y Hy. destruct (N.eqb_spec y x) as [->|]; [exfalso; auto | reflexivity].
    - intros f args ret en tr. cbn. destruct (w_call w tr f _); cbn; [|exact I].
      intros y Hy. now apply lookup_bind_opt_notin.
    - (* SIf *) intros c s1 s2 fas H1 H2 en tr. rewrite exec_SIf.
      change (binders (SIf c s1 s2 fas)) with (binders_l s1 ++ binders_l s2 ++ map t_name fas).
      destruct (cond _) as [[|]|]; [| |exact I].
      + specialize (H1 en tr). destruct (exec_block s1 en tr); cbn in *; try exact I.
        * intros y Hy. unfold bind_e1. rewrite lookup_bind_notin.
          -- apply H1. intros HH. apply Hy. apply in_or_app. auto.
          -- intros HH. apply Hy. apply in_or_app. right. apply in_or_app. auto.
        * intros y Hy. apply H1. intros HH. apply Hy. apply in_or_app. auto.
      + specialize (H2 en tr). destruct (exec_block s2 en tr); cbn in *; try exact I.
        * intros y Hy. unfold bind_e2. rewrite lookup_bind_notin.
          -- apply H2. intros HH. apply Hy. apply in_or_app. right. apply in_or_app. auto.
          -- intros HH. apply Hy. apply in_or_app. right. apply in_or_app. auto.
        * intros y Hy. apply H2. intros HH. apply Hy. apply in_or_app. right. apply in_or_app. auto.
    - (* SSIf *) intros c inv ss H en tr. rewrite exec_SSIf.
      change (binders (SSIf c inv ss)) with (binders_l ss).
      destruct (cond _) as [b|]; [|exact I]. destruct (xorb b inv); [apply H|]. cbn. auto.
    - intros e en tr. cbn. auto.
    - (* SWhile *) intros lvs ss bc H en tr. rewrite exec_SWhile.
      change (binders (SWhile lvs ss bc)) with (map t_name lvs ++ binders_l ss ++ opt_names bc).
      destruct (loop _ _ _ _ _) eqn:E; cbn; try exact I.
      intros y Hy. rewrite lookup_bind_opt_notin.
      2:{ intros HH. apply Hy. apply in_or_app. right. apply in_or_app. auto. }
      assert (Hy1 : ~ In y (map t_name lvs)) by (intros HH; apply Hy; apply in_or_app; auto).
      assert (Hy2 : ~ In y (binders_l ss)) by (intros HH; apply Hy; apply in_or_app; right; apply in_or_app; auto).
      revert E.
      apply (loop_break_inv (fun en1 _ => lookup y en1 = lookup y en) (fun _ en1 _ => lookup y en1 = lookup y en)).
      + intros en1 tr1 en2 tr2 HI Hb. unfold bind_e2. rewrite lookup_bind_notin by assumption.
        specialize (H en1 tr1). rewrite Hb in H. cbn in H. rewrite H by assumption. exact HI.
      + intros en1 tr1 v1 en2 tr2 HI Hb. specialize (H en1 tr1). rewrite Hb in H. cbn in H.
        rewrite H by assumption. exact HI.
      + unfold bind_e1. now rewrite lookup_bind_notin.
    - intros x tn es en tr. cbn. intros y Hy. destruct (N.eqb_spec y x) as [->|]; [exfalso; auto | reflexivity].
    - intros x en tr. cbn. intros y Hy. destruct (N.eqb_spec y x) as [->|]; [exfalso; auto | reflexivity].
    - intros x e en tr. cbn. intros y Hy. destruct (N.eqb_spec y x) as [->|]; [exfalso; auto | reflexivity].
    - intros en tr. cbn. auto.
    - (* cons *) intros s r Hs Hr en tr. rewrite exec_block_cons. cbn [binders_l].
      specialize (Hs en tr). destruct (exec s en tr) as [en1 tr1| | | | | |]; cbn in *; try exact I.
      + specialize (Hr en1 tr1). destruct (exec_block r en1 tr1); cbn in *; try exact I.
        * intros y Hy. rewrite Hr, Hs; auto; intros HH; apply Hy; apply in_or_app; auto.
        * intros y Hy. rewrite Hr, Hs; auto; intros HH; apply Hy; apply in_or_app; auto.
      + intros y Hy. apply Hs. intros HH. apply Hy. apply in_or_app. auto.
  Qed.

  Lemma frame_stmt s en tr : frame_res (binders s) en (exec s en tr).
  Proof. apply frame_both. Qed.
  Lemma frame_block ss en tr : frame_res (binders_l ss) en (exec_block ss en tr).
  Proof. apply frame_both. Qed.
End Frame.

(* ---- a strict run that does not stop on an overflow is a wrapping run ---- *)
Definition not_ovf (r : res) : Prop := match r with ROvf => False | _ => True end.

Lemma loop_ext (b1 b2 : env -> trace -> res) next n en tr :
  (forall en tr, not_ovf (b1 en tr) -> b2 en tr = b1 en tr) ->
  not_ovf (loop b1 next n en tr) -> loop b2 next n en tr = loop b1 next n en tr.
Proof.
  intros H. revert en tr. induction n as [|n IH]; intros en tr; cbn; [reflexivity|].
  intros Hn. destruct (b1 en tr) eqn:E; (rewrite H; rewrite E; [|try exact I]); cbn in *; auto.
Qed.

(* m checks fewer operations than m' *)
Definition mode_le (m m' : mode) : Prop := forall op, chk m op = true -> chk m' op = true.
Lemma mode_le_Wrap m : mode_le Wrap m. Proof. intros op H. discriminate. Qed.
Lemma mode_le_All m : mode_le m All. Proof. intros op _. reflexivity. Qed.
Lemma mode_le_refl m : mode_le m m. Proof. intros op H. exact H. Qed.

Lemma mode_weaken m m' w fuel : mode_le m m' ->
  (forall s en tr, not_ovf (exec m' w fuel s en tr) -> exec m w fuel s en tr = exec m' w fuel s en tr) /\
  (forall ss en tr, not_ovf (exec_block m' w fuel ss en tr) ->
                    exec_block m w fuel ss en tr = exec_block m' w fuel ss en tr).
Proof.
  intros Hle. apply stmt_stmts_ind2; try (intros; reflexivity).
  - intros x op e1 e2 en tr. cbn. destruct (chk m' op && ovf op _ _) eqn:E'; cbn; [tauto|]. intros _.
    destruct (chk m op) eqn:Em; cbn; [|reflexivity]. rewrite (Hle op Em) in E'. cbn in E'. now rewrite E'.
  - intros c s1 s2 fas H1 H2 en tr. rewrite !exec_SIf. destruct (cond _) as [[|]|]; auto.
    + intros Hn. rewrite H1; [reflexivity|]. destruct (exec_block m' w fuel s1 en tr); cbn in *; auto.
    + intros Hn. rewrite H2; [reflexivity|]. destruct (exec_block m' w fuel s2 en tr); cbn in *; auto.
  - intros c inv ss H en tr. rewrite !exec_SSIf. destruct (cond _) as [b|]; auto. destruct (xorb b inv); auto.
  - intros lvs ss bc H en tr. rewrite !exec_SWhile. intros Hn.
    rewrite (loop_ext (exec_block m' w fuel ss) (exec_block m w fuel ss)); auto.
    destruct (loop (exec_block m' w fuel ss) _ _ _ _); cbn in *; auto.
  - intros s r Hs Hr en tr. rewrite !exec_block_cons. intros Hn.
    rewrite Hs by (destruct (exec m' w fuel s en tr); cbn in *; auto).
    destruct (exec m' w fuel s en tr); auto.
Qed.

(* a run that is Done while checking more operations is the same run when fewer are checked *)
Theorem sem_weaken m m' w f args fuel v tr :
  mode_le m m' -> sem m' w f args fuel = Done v tr -> sem m w f args fuel = Done v tr.
Proof.
  unfold sem. intros Hle H. destruct (mode_weaken m m' w fuel Hle) as [_ Hb].
  rewrite Hb; [exact H|]. destruct (exec_block m' w fuel (f_body f) _ _); cbn; auto; discriminate.
Qed.

Theorem strict_done_wrapping w f args fuel v tr :
  sem All w f args fuel = Done v tr -> sem Wrap w f args fuel = Done v tr.
Proof. apply sem_weaken, mode_le_Wrap. Qed.

(* the wrapping semantics never reports an overflow *)
Lemma wrap_not_ovf w fuel :
  (forall s en tr, not_ovf (exec Wrap w fuel s en tr)) /\ (forall ss en tr, not_ovf (exec_block Wrap w fuel ss en tr)).
Proof.
  apply stmt_stmts_ind2; try (intros; exact I).
  - intros x op e1 e2 en tr. cbn. destruct (rt_binop op _ _); exact I.
  - intros f args ret en tr. cbn. destruct (w_call w tr f _); exact I.
  - intros c s1 s2 fas H1 H2 en tr. rewrite exec_SIf. destruct (cond _) as [[|]|]; [| |exact I].
    + specialize (H1 en tr). destruct (exec_block Wrap w fuel s1 en tr); auto.
    + specialize (H2 en tr). destruct (exec_block Wrap w fuel s2 en tr); auto.
  - intros c inv ss H en tr. rewrite exec_SSIf. destruct (cond _) as [b|]; [|exact I]. destruct (xorb b inv); [apply H | exact I].
  - intros lvs ss bc H en tr. rewrite exec_SWhile.
    assert (L : forall n e t, not_ovf (loop (exec_block Wrap w fuel ss) (bind_e2 w lvs) n e t)).
    { induction n as [|n IH]; intros e t; cbn; [exact I|]. specialize (H e t).
      destruct (exec_block Wrap w fuel ss e t); auto. }
    specialize (L fuel (bind_e1 w lvs en) tr). destruct (loop _ _ _ _ _); auto.
  - intros s r Hs Hr en tr. rewrite exec_block_cons. specialize (Hs en tr).
    destruct (exec Wrap w fuel s en tr); auto.
Qed.

(* ---- invariance under injective renaming of variables (DESIGN C02 item 9) ---- *)
Section Alpha.
  Variable r : name -> name.
  Hypothesis r_inj : forall x y, r x = r y -> x = y.
  Variables (strict : mode) (w : world) (fuel : nat).

  Definition ren_env (en : env) : env := map (fun p => (r (fst p), snd p)) en.
  Definition ren_res (o : res) : res :=
    match o with
    | RNext en tr => RNext (ren_env en) tr
    | RBreak v en tr => RBreak v (ren_env en) tr
    | o => o
    end.

  Lemma lookup_ren x en : lookup (r x) (ren_env en) = lookup x en.
  Proof.
    induction en as [|[y v] t IH]; cbn; [reflexivity|].
    destruct (N.eqb_spec x y) as [->|N].
    - now rewrite N.eqb_refl.
    - destruct (N.eqb_spec (r x) (r y)) as [E|_]; [apply r_inj in E; contradiction | exact IH].
  Qed.
  Lemma eval_ren en e : eval w (ren_env en) (ren_expr r e) = eval w en e.
  Proof. destruct e; cbn; try reflexivity. unfold eval. now rewrite lookup_ren. Qed.

  Lemma ren_env_app a b : ren_env (a ++ b) = ren_env a ++ ren_env b.
  Proof. apply map_app. Qed.
  Lemma ren_env_combine xs vs : ren_env (combine xs vs) = combine (map r xs) vs.
  Proof. revert vs. induction xs; destruct vs; cbn; auto. now rewrite IHxs. Qed.

  Lemma bind_e1_ren ts en : bind_e1 w (map (ren_triple r) ts) (ren_env en) = ren_env (bind_e1 w ts en).
  Proof.
    unfold bind_e1. rewrite ren_env_app, ren_env_combine. f_equal. f_equal.
    - rewrite !map_map. reflexivity.
    - rewrite !map_map. apply map_ext. intros t. apply eval_ren.
  Qed.
  Lemma bind_e2_ren ts en : bind_e2 w (map (ren_triple r) ts) (ren_env en) = ren_env (bind_e2 w ts en).
  Proof.
    unfold bind_e2. rewrite ren_env_app, ren_env_combine. f_equal. f_equal.
    - rewrite !map_map. reflexivity.
    - rewrite !map_map. apply map_ext. intros t. apply eval_ren.
  Qed.
  Lemma bind_opt_ren o v en : bind_opt (option_map r o) v (ren_env en) = ren_env (bind_opt o v en).
  Proof. destruct o; reflexivity. Qed.

  Lemma loop_ren (b1 b2 : env -> trace -> res) n1 n2 n en tr :
    (forall en tr, b2 (ren_env en) tr = ren_res (b1 en tr)) ->
    (forall en, n2 (ren_env en) = ren_env (n1 en)) ->
    loop b2 n2 n (ren_env en) tr = ren_res (loop b1 n1 n en tr).
  Proof.
    intros Hb Hn. revert en tr. induction n as [|n IH]; intros en tr; cbn; [reflexivity|].
    rewrite Hb. destruct (b1 en tr); cbn; auto. rewrite Hn. apply IH.
  Qed.

  Lemma exec_ren_both :
    (forall s en tr, exec strict w fuel (ren_stmt r s) (ren_env en) tr = ren_res (exec strict w fuel s en tr)) /\
    (forall ss en tr, exec_block strict w fuel (map (ren_stmt r) ss) (ren_env en) tr =
                      ren_res (exec_block strict w fuel ss en tr)).
  Proof.
    apply stmt_stmts_ind2.
    - intros x op e1 e2 en tr. cbn. rewrite !eval_ren. destruct (chk strict op && ovf op _ _); [reflexivity|].
      destruct (rt_binop op _ _); reflexivity.
    - intros x e en tr. cbn. now rewrite eval_ren.
    - intros x p e en tr. cbn. now rewrite eval_ren.
    - intros f args ret en tr. cbn. rewrite map_map.
      rewrite (map_ext (fun x => eval w (ren_env en) (ren_expr r x)) (eval w en)) by (intros; apply eval_ren).
      destruct (w_call w tr f _); cbn; [|reflexivity]. now rewrite bind_opt_ren.
    - intros c s1 s2 fas H1 H2 en tr. cbn [ren_stmt]. rewrite !exec_SIf, eval_ren.
      destruct (cond _) as [[|]|]; [| |reflexivity].
      + rewrite H1. destruct (exec_block strict w fuel s1 en tr); cbn; auto. now rewrite bind_e1_ren.
      + rewrite H2. destruct (exec_block strict w fuel s2 en tr); cbn; auto. now rewrite bind_e2_ren.
    - intros c inv ss H en tr. cbn [ren_stmt]. rewrite !exec_SSIf, eval_ren.
      destruct (cond _) as [b|]; [|reflexivity]. destruct (xorb b inv); [apply H | reflexivity].
    - intros e en tr. cbn. now rewrite eval_ren.
    - intros lvs ss bc H en tr. cbn [ren_stmt]. rewrite !exec_SWhile, bind_e1_ren.
      rewrite (loop_ren (exec_block strict w fuel ss) _ (bind_e2 w lvs)); auto using bind_e2_ren.
      destruct (loop _ _ _ _ _); cbn; auto. now rewrite bind_opt_ren.
    - intros x tn es en tr. cbn. rewrite map_map.
      now rewrite (map_ext (fun x => eval w (ren_env en) (ren_expr r x)) (eval w en)) by (intros; apply eval_ren).
    - intros x en tr. reflexivity.
    - intros x e en tr. cbn. now rewrite eval_ren.
    - reflexivity.
    - intros s t Hs Ht en tr. cbn [map]. rewrite !exec_block_cons, Hs.
      destruct (exec strict w fuel s en tr); cbn; auto.
  Qed.

  Theorem alpha_invariance f args : sem strict w (ren_func r f) args fuel = sem strict w f args fuel.
  Proof.
    unfold sem, init_env. cbn [ren_func f_params f_body f_ret].
    rewrite <- ren_env_combine. destruct exec_ren_both as [_ H]. rewrite H.
    destruct (exec_block strict w fuel (f_body f) _ _); cbn; auto. now rewrite eval_ren.
  Qed.
End Alpha.
