(* C02deep — the passes preserve well-formedness (wf_func: pairwise distinct binders, every read in scope) and
   the absence of a Break outside of a loop, so that a pipeline of passes needs these of its INPUT only. *)
From Coq Require Import ZArith NArith List Bool Lia.
Import ListNotations.
From SV Require Import Common.Int32 C02deep.Syntax C02deep.Sem C02deep.Passes C02deep.ProofsSem C02deep.ProofsScope
  C02deep.ProofsDceSets C02deep.ProofsDce C02deep.ProofsCcpRel C02deep.ProofsCcp C02deep.ProofsCcpFull.
Open Scope Z_scope.

Definition olist (o : option stmt) : list stmt := match o with Some s => [s] | None => [] end.
Lemma olist_cons o r : (match o with Some st' => st' :: r | None => r end) = olist o ++ r.
Proof. destruct o; reflexivity. Qed.

(* ======================================================================== dead code elimination *)
(* S is the scope of the input statement, S' the scope of its output: every name that is live before the
   statement and in S is in S'.  Then the output is scoped in S', and what is live after it is in scope. *)
Definition PW (st : stmt) : Prop := forall S S' s,
  scoped S st = true -> pre (binders st) (defs st) S s ->
  (forall x, In x (snd (dce_stmt st s)) -> In x S -> In x S') ->
  scoped_l S' (olist (fst (dce_stmt st s))) = true /\
  (forall x, In x s -> In x (defs st ++ S) -> In x (defs_l (olist (fst (dce_stmt st s))) ++ S')) /\
  NoDup (binders_l (olist (fst (dce_stmt st s)))).
Definition QW (ss : list stmt) : Prop := forall S S' s,
  scoped_l S ss = true -> pre (binders_l ss) (defs_l ss) S s ->
  (forall x, In x (snd (dce_stmts ss s)) -> In x S -> In x S') ->
  scoped_l S' (fst (dce_stmts ss s)) = true /\
  (forall x, In x s -> In x (defs_l ss ++ S) -> In x (defs_l (fst (dce_stmts ss s)) ++ S')) /\
  NoDup (binders_l (fst (dce_stmts ss s))).

Lemma in_scope_tr S S' s e : in_scope S e = true -> (forall x, e = EVar x -> In x s) ->
  (forall x, In x s -> In x S -> In x S') -> in_scope S' e = true.
Proof. intros H Hu Hi. destruct e; try reflexivity. apply in_scope_var. apply in_scope_var in H. auto. Qed.

Lemma PW_simple x st e1s S S' s :
  defs st = [x] -> binders st = [x] ->
  (forall S0, scoped S0 st = forallb (in_scope S0) e1s) ->
  scoped S st = true -> (forall y, In y s -> In y S -> In y S') ->
  (forall y, In (EVar y) e1s -> In y s) ->
  scoped_l S' [st] = true.
Proof.
  intros _ _ Hsc H Hi Hu. cbn. rewrite andb_true_r. rewrite Hsc in *. rewrite forallb_forall in *.
  intros e He. eapply in_scope_tr; eauto. intros y ->. auto.
Qed.

Lemma PW_SBin x op e1 e2 : PW (SBin x op e1 e2).
Proof.
  intros S S' s Hsc (Hnd & Hfr & Hint) Hi. cbn [dce_stmt] in *.
  destruct (negb (memb x s) && negb (is_divmod op)) eqn:E; cbn [fst snd olist] in *.
  - split; [reflexivity|]. split; [|constructor]. intros y Hy Hd. cbn in *. destruct Hd as [<-|Hd]; [|auto].
    apply andb_prop in E. destruct E as [E _]. apply negb_true_iff in E. apply memb_false in E. contradiction.
  - split; [|split; [|cbn; constructor; [intros []|constructor]]].
    + cbn in *. apply andb_prop in Hsc. destruct Hsc as [A B]. rewrite andb_true_r. apply andb_true_intro. split.
      * eapply in_scope_tr; eauto. intros y ->. rewrite !In_use_expr. auto.
      * eapply in_scope_tr; eauto. intros y ->. rewrite !In_use_expr. auto.
    + intros y Hy Hd. cbn in *. destruct Hd as [<-|Hd]; [auto|]. right. apply Hi; auto. rewrite !In_use_expr. auto.
Qed.
Lemma PW_SNot x e : PW (SNot x e).
Proof.
  intros S S' s Hsc (Hnd & Hfr & Hint) Hi. cbn [dce_stmt] in *.
  destruct (negb (memb x s)) eqn:E; cbn [fst snd olist] in *.
  - split; [reflexivity|]. split; [|constructor]. intros y Hy Hd. cbn in *. destruct Hd as [<-|Hd]; [|auto].
    apply negb_true_iff in E. apply memb_false in E. contradiction.
  - split; [|split; [|cbn; constructor; [intros []|constructor]]].
    + cbn in *. rewrite andb_true_r. eapply in_scope_tr; eauto. intros y ->. rewrite !In_use_expr. auto.
    + intros y Hy Hd. cbn in *. destruct Hd as [<-|Hd]; [auto|]. right. apply Hi; auto. rewrite !In_use_expr. auto.
Qed.
Lemma PW_SPrim x p e : PW (SPrim x p e).
Proof.
  intros S S' s Hsc (Hnd & Hfr & Hint) Hi. cbn [dce_stmt] in *.
  destruct (negb (memb x s)) eqn:E; cbn [fst snd olist] in *.
  - split; [reflexivity|]. split; [|constructor]. intros y Hy Hd. cbn in *. destruct Hd as [<-|Hd]; [|auto].
    apply negb_true_iff in E. apply memb_false in E. contradiction.
  - split; [|split; [|cbn; constructor; [intros []|constructor]]].
    + cbn in *. rewrite andb_true_r. eapply in_scope_tr; eauto. intros y ->. rewrite !In_use_expr. auto.
    + intros y Hy Hd. cbn in *. destruct Hd as [<-|Hd]; [auto|]. right. apply Hi; auto. rewrite !In_use_expr. auto.
Qed.
Lemma PW_SCall f args ret : PW (SCall f args ret).
Proof.
  intros S S' s Hsc (Hnd & Hfr & Hint) Hi. cbn [dce_stmt fst snd olist] in *.
  split; [|split].
  - cbn in *. rewrite andb_true_r. rewrite forallb_forall in *. intros e He. eapply in_scope_tr; eauto.
    intros y ->. rewrite In_use_exprs. auto.
  - intros y Hy Hd. cbn [defs defs_l app] in *. apply in_app_or in Hd. destruct Hd as [Hd|Hd].
    + destruct ret as [r|]; cbn in Hd; [|contradiction]. destruct Hd as [<-|[]]. cbn.
      apply memb_In in Hy. rewrite Hy. cbn. auto.
    + apply in_or_app. right. apply Hi; auto. rewrite In_use_exprs. auto.
  - cbn. rewrite app_nil_r. destruct ret as [r|]; cbn; [|constructor]. destruct (memb r s); cbn; repeat constructor; intros [].
Qed.
Lemma PW_SBreak e : PW (SBreak e).
Proof.
  intros S S' s Hsc (Hnd & Hfr & Hint) Hi. cbn [dce_stmt fst snd olist] in *.
  split; [|split; [|constructor]].
  - cbn in *. rewrite andb_true_r. eapply in_scope_tr; eauto. intros y ->. rewrite In_use_expr. auto.
  - intros y Hy Hd. cbn in *. apply Hi; auto. rewrite In_use_expr. auto.
Qed.

Lemma QW_nil : QW [].
Proof. intros S S' s _ _ Hi. cbn in *. split; [reflexivity|]. split; [auto | constructor]. Qed.

Lemma QW_cons st r : PW st -> QW r -> QW (st :: r).
Proof.
  intros Hs Hr S S' s Hsc (Hnd & Hfr & Hint) Hi.
  cbn [scoped_l] in Hsc. apply andb_prop in Hsc. destruct Hsc as [Hsc1 Hsc2].
  cbn [binders_l defs_l] in *. cbn [dce_stmts] in *.
  pose proof (dce_stmts_grows r s) as G. pose proof (dce_stmts_mono r s) as M.
  pose proof (dce_stmts_binders r s) as Br.
  specialize (fun S'' => Hr (defs st ++ S) S'' s Hsc2).
  destruct (dce_stmts r s) as [r' s1]. cbn [fst snd] in *.
  pose proof (dce_sets_both) as [DS _]. destruct (DS st s1) as (_ & _ & Bs).
  specialize (Hs S S' s1 Hsc1).
  destruct (dce_stmt st s1) as [o s2]. cbn [fst snd] in *.
  assert (Hpre1 : pre (binders st) (defs st) S s1).
  { split; [eapply NoDup_app_l; eauto|]. split; [intros x Hx; apply Hfr; rewrite in_app_iff; auto|].
    intros x Hx Hb. destruct (G x Hx) as [Hx'|Hx'].
    - specialize (Hint x Hx' ltac:(rewrite in_app_iff; auto)). rewrite in_app_iff in Hint. destruct Hint; auto.
      exfalso. eapply (NoDup_app_disj _ _ x Hnd); eauto. now apply defs_l_in_binders.
    - destruct (uses_l_scoped _ _ _ Hsc2 Hx') as [Hi'|Hi'].
      + rewrite in_app_iff in Hi'. destruct Hi' as [Hi'|Hi']; auto. exfalso. apply (Hfr x); auto. rewrite in_app_iff; auto.
      + exfalso. eapply (NoDup_app_disj _ _ x Hnd); eauto. }
  assert (Hpre2 : pre (binders_l r) (defs_l r) (defs st ++ S) s).
  { split; [eapply NoDup_app_r; eauto|]. split.
    - intros x Hx. rewrite in_app_iff. intros [Hi'|Hi'].
      + eapply (NoDup_app_disj _ _ x Hnd); eauto. now apply defs_in_binders.
      + apply (Hfr x); auto. rewrite in_app_iff; auto.
    - intros x Hx Hb. specialize (Hint x Hx ltac:(rewrite in_app_iff; auto)). rewrite in_app_iff in Hint.
      destruct Hint; auto. exfalso. eapply (NoDup_app_disj _ _ x Hnd); eauto. now apply defs_in_binders. }
  destruct (Hs Hpre1 Hi) as (A1 & A2 & A3).
  destruct (Hr (defs_l (olist o) ++ S') Hpre2 A2) as (B1 & B2 & B3).
  rewrite olist_cons. split; [|split].
  - rewrite scoped_l_app, A1, B1. reflexivity.
  - intros x Hx Hd. rewrite defs_l_app, <- app_assoc. apply B2; auto. rewrite <- app_assoc in Hd. exact Hd.
  - rewrite binders_l_app. apply NoDup_app_intro; auto.
    intros x H1 H2. apply Br in H2. eapply (NoDup_app_disj _ _ x Hnd); eauto.
    destruct o as [st'|]; cbn in H1; [|contradiction]. rewrite app_nil_r in H1. apply Bs. exact H1.
Qed.

Lemma PW_SSIf c inv ss : QW ss -> PW (SSIf c inv ss).
Proof.
  intros HQ S S' s Hsc (Hnd & Hfr & Hint) Hi.
  rewrite scoped_SSIf in Hsc. apply andb_prop in Hsc. destruct Hsc as [Hc Hsc].
  rewrite binders_SSIf in *. cbn [defs] in *. rewrite dce_SSIf in *.
  pose proof (dce_stmts_mono ss s) as M.
  specialize (HQ S S' s Hsc). destruct (dce_stmts ss s) as [ss' sa]. cbn [fst snd] in *.
  assert (Hpre : pre (binders_l ss) (defs_l ss) S s).
  { split; auto. split; auto. intros x Hx Hb. destruct (Hint x Hx Hb). }
  destruct (is_nil ss') eqn:En; cbn [fst snd olist] in *.
  - destruct (HQ Hpre Hi) as (A1 & A2 & A3). split; [reflexivity|]. split; [|constructor].
    intros x Hx Hd. cbn in *. auto.
  - destruct (HQ Hpre) as (A1 & A2 & A3); [intros x Hx; apply Hi; rewrite In_use_expr; auto|].
    split; [|split].
    + cbn [scoped_l]. rewrite scoped_SSIf, A1, !andb_true_r. eapply in_scope_tr; eauto. intros y ->. rewrite In_use_expr. auto.
    + intros x Hx Hd. cbn in *. apply Hi; auto. rewrite In_use_expr. auto.
    + cbn [binders_l]. rewrite binders_SSIf, app_nil_r. exact A3.
Qed.

Lemma PW_SIf c s1 s2 fas : QW s1 -> QW s2 -> PW (SIf c s1 s2 fas).
Proof.
  intros HQ1 HQ2 S S' s Hsc (Hnd & Hfr & Hint) Hi.
  rewrite scoped_SIf in Hsc. apply andb_prop in Hsc. destruct Hsc as [Hsc Hf].
  apply andb_prop in Hsc. destruct Hsc as [Hsc Hs2]. apply andb_prop in Hsc. destruct Hsc as [Hc Hs1].
  rewrite forallb_forall in Hf.
  rewrite binders_SIf in *. cbn [defs] in *.
  assert (Hnd1 : NoDup (binders_l s1)) by (eapply NoDup_app_l; eauto).
  assert (Hnd2 : NoDup (binders_l s2)) by (eapply NoDup_app_l, NoDup_app_r; eauto).
  assert (Hndf : NoDup (map t_name fas)) by (eapply NoDup_app_r, NoDup_app_r; eauto).
  assert (D12 : forall x, In x (binders_l s1) -> In x (binders_l s2) -> False).
  { intros x H1 H2. eapply (NoDup_app_disj _ _ x Hnd); eauto. rewrite in_app_iff. auto. }
  assert (D1f : forall x, In x (binders_l s1) -> In x (map t_name fas) -> False).
  { intros x H1 H2. eapply (NoDup_app_disj _ _ x Hnd); eauto. rewrite in_app_iff. auto. }
  assert (D2f : forall x, In x (binders_l s2) -> In x (map t_name fas) -> False).
  { intros x H1 H2. apply NoDup_app_r in Hnd. eapply (NoDup_app_disj _ _ x Hnd); eauto. }
  assert (Fr1 : forall x, In x (binders_l s1) -> ~ In x S) by (intros x Hx; apply Hfr; rewrite !in_app_iff; auto).
  assert (Fr2 : forall x, In x (binders_l s2) -> ~ In x S) by (intros x Hx; apply Hfr; rewrite !in_app_iff; auto).
  rewrite dce_SIf in *.
  destruct (dce_fas fas s) as [fas' sa] eqn:Ef.
  destruct (dce_fas_spec _ _ _ _ Ef) as (F1 & F2 & F3 & F4 & F5 & F6).
  pose proof (dce_stmts_mono s1 sa) as M1. pose proof (dce_stmts_grows s1 sa) as G1.
  pose proof (dce_stmts_binders s1 sa) as Bs1.
  specialize (HQ1 S S' sa Hs1). destruct (dce_stmts s1 sa) as [s1' sb]. cbn [fst snd] in *.
  pose proof (dce_stmts_mono s2 sb) as M2. pose proof (dce_stmts_binders s2 sb) as Bs2.
  specialize (HQ2 S S' sb Hs2). destruct (dce_stmts s2 sb) as [s2' sc]. cbn [fst snd] in *.
  assert (Hsa : forall x, In x sa -> In x (binders_l s1 ++ binders_l s2) ->
                (In x (binders_l s1) -> In x (defs_l s1)) /\ (In x (binders_l s2) -> In x (defs_l s2))).
  { intros x Hx Hb. destruct (F5 x Hx) as [Hs|[t [Ht Hu]]].
    - exfalso. rewrite in_app_iff in Hb. specialize (Hint x Hs ltac:(rewrite !in_app_iff; tauto)).
      destruct Hb; eauto.
    - specialize (Hf t Ht). apply andb_prop in Hf. destruct Hf as [Hf1 Hf2]. destruct Hu as [E|E].
      + rewrite E in Hf1. apply in_scope_var in Hf1. rewrite in_app_iff in Hf1. destruct Hf1 as [Hd|Hd].
        * split; auto. intros H2. exfalso. apply (D12 x); auto. now apply defs_l_in_binders.
        * exfalso. rewrite in_app_iff in Hb. destruct Hb as [Hb|Hb]; [apply (Fr1 x) | apply (Fr2 x)]; auto.
      + rewrite E in Hf2. apply in_scope_var in Hf2. rewrite in_app_iff in Hf2. destruct Hf2 as [Hd|Hd].
        * split; auto. intros H1. exfalso. apply (D12 x); auto. now apply defs_l_in_binders.
        * exfalso. rewrite in_app_iff in Hb. destruct Hb as [Hb|Hb]; [apply (Fr1 x) | apply (Fr2 x)]; auto. }
  assert (Hpre1 : pre (binders_l s1) (defs_l s1) S sa).
  { split; auto. split; auto. intros x Hx Hb. apply (Hsa x Hx); auto. rewrite in_app_iff. auto. }
  assert (Hpre2 : pre (binders_l s2) (defs_l s2) S sb).
  { split; auto. split; auto. intros x Hx Hb. destruct (G1 x Hx) as [Ha|Hu].
    - apply (Hsa x Ha); auto. rewrite in_app_iff. auto.
    - exfalso. destruct (uses_l_scoped _ _ _ Hs1 Hu) as [Hi'|Hi']; [apply (Fr2 x) | apply (D12 x)]; auto. }
  assert (Hlive : forall x, In x sc -> In x S -> In x S').
  { intros x Hx HS. apply Hi; auto. destruct (is_nil s1' && is_nil s2' && is_nil fas'); cbn [fst snd]; [|rewrite In_use_expr]; auto. }
  destruct (HQ1 Hpre1) as (A1 & A2 & A3); [intros x Hx; apply Hlive; auto|].
  destruct (HQ2 Hpre2 Hlive) as (B1 & B2 & B3).
  destruct (is_nil s1' && is_nil s2' && is_nil fas') eqn:En; cbn [fst snd olist] in *.
  - apply andb_prop in En. destruct En as [En E3]. destruct fas'; [|discriminate].
    split; [reflexivity|]. split; [|constructor]. intros x Hx Hd. cbn [defs_l app]. apply in_app_or in Hd. destruct Hd as [Hd|Hd].
    + apply in_map_iff in Hd. destruct Hd as [t [<- Ht]]. destruct (F3 t Ht Hx).
    + apply Hlive; auto.
  - split; [|split].
    + cbn [scoped_l]. rewrite scoped_SIf, A1, B1, !andb_true_r. apply andb_true_intro. split.
      * eapply in_scope_tr; eauto. intros y ->. rewrite In_use_expr. auto.
      * rewrite forallb_forall. intros t Ht. specialize (Hf t (F2 t Ht)). apply andb_prop in Hf. destruct Hf as [Hf1 Hf2].
        apply andb_true_intro. split.
        -- destruct (t_e1 t) as [| | |x] eqn:E; try reflexivity. apply in_scope_var. apply in_scope_var in Hf1.
           apply A2; auto. apply (F4 t x Ht). left. exact E.
        -- destruct (t_e2 t) as [| | |x] eqn:E; try reflexivity. apply in_scope_var. apply in_scope_var in Hf2.
           apply B2; auto. apply M1. apply (F4 t x Ht). right. exact E.
    + intros x Hx Hd. cbn [defs_l defs app]. apply in_app_or in Hd. apply in_or_app. destruct Hd as [Hd|Hd].
      * left. apply in_map_iff in Hd. destruct Hd as [t [<- Ht]]. apply in_map. auto.
      * right. apply Hlive; auto.
    + cbn [binders_l]. rewrite binders_SIf, app_nil_r. apply NoDup_app_intro; [exact A3 | |].
      * apply NoDup_app_intro; [exact B3 | auto |]. intros x H1 H2. apply (D2f x); auto.
        apply in_map_iff in H2. destruct H2 as [t [<- Ht]]. apply in_map. auto.
      * intros x H1 H2. apply in_app_or in H2. destruct H2 as [H2|H2]; [apply (D12 x); auto|].
        apply (D1f x); auto. apply in_map_iff in H2. destruct H2 as [t [<- Ht]]. apply in_map. auto.
Qed.

Lemma PW_SWhile lvs ss bc : QW ss -> PW (SWhile lvs ss bc).
Proof.
  intros HQ S S' s Hsc (Hnd & Hfr & Hint) Hi.
  rewrite scoped_SWhile in Hsc. apply andb_prop in Hsc. destruct Hsc as [Hsc Hl2].
  apply andb_prop in Hsc. destruct Hsc as [Hl1 Hs]. rewrite forallb_forall in Hl1, Hl2.
  rewrite binders_SWhile in *. cbn [defs] in *.
  assert (HndL : NoDup (map t_name lvs)) by (eapply NoDup_app_l; eauto).
  assert (HndB : NoDup (binders_l ss)) by (eapply NoDup_app_l, NoDup_app_r; eauto).
  assert (DLB : forall x, In x (map t_name lvs) -> In x (binders_l ss) -> False).
  { intros x H1 H2. eapply (NoDup_app_disj _ _ x Hnd); eauto. rewrite in_app_iff. auto. }
  assert (DLc : forall x, In x (map t_name lvs) -> In x (opt_names bc) -> False).
  { intros x H1 H2. eapply (NoDup_app_disj _ _ x Hnd); eauto. rewrite in_app_iff. auto. }
  assert (DBc : forall x, In x (binders_l ss) -> In x (opt_names bc) -> False).
  { intros x H1 H2. apply NoDup_app_r in Hnd. eapply (NoDup_app_disj _ _ x Hnd); eauto. }
  assert (FrL : forall x, In x (map t_name lvs) -> ~ In x S) by (intros x Hx; apply Hfr; rewrite !in_app_iff; auto).
  assert (FrB : forall x, In x (binders_l ss) -> ~ In x S) by (intros x Hx; apply Hfr; rewrite !in_app_iff; auto).
  rewrite dce_SWhile in *. cbn zeta in *.
  set (inside := uses_l ss (use_triples lvs [])) in *.
  set (lvs1 := filter (fun t => memb (t_name t) inside) lvs) in *.
  set (sa := use_e2s lvs1 s) in *.
  pose proof (dce_stmts_grows ss sa) as G. pose proof (dce_stmts_binders ss sa) as Bsub.
  pose proof (dce_stmts_mono ss sa) as M.
  specialize (fun S'' => HQ (map t_name lvs ++ S) S'' sa Hs).
  destruct (dce_stmts ss sa) as [ss' sb]. cbn [fst snd] in *.
  destruct (dce_lvs lvs1 sb) as [lvs2 sc] eqn:El.
  destruct (dce_lvs_spec _ _ _ _ El) as (F1 & F2 & F3 & F4 & F5 & F6). cbn [fst snd olist] in *.
  assert (Hs_sa : forall x, In x s -> In x sa) by (intros x Hx; unfold sa; rewrite In_use_e2s; auto).
  assert (Hin1 : forall t, In t lvs1 -> In t lvs) by (intros t Ht; apply filter_In in Ht; tauto).
  assert (Hpre : pre (binders_l ss) (defs_l ss) (map t_name lvs ++ S) sa).
  { split; auto. split.
    - intros x Hx. rewrite in_app_iff. intros [Hi'|Hi']; [eapply DLB | eapply FrB]; eauto.
    - intros x Hx Hb. unfold sa in Hx. rewrite In_use_e2s in Hx. destruct Hx as [[t [Ht E]]|Hx].
      + specialize (Hl2 t (Hin1 t Ht)). rewrite E in Hl2. apply in_scope_var in Hl2.
        rewrite !in_app_iff in Hl2. destruct Hl2 as [Hi'|[Hi'|Hi']]; auto; exfalso; [eapply DLB | eapply FrB]; eauto.
      + exfalso. specialize (Hint x Hx ltac:(rewrite !in_app_iff; tauto)). eapply DBc; eauto. }
  assert (Hkeep : forall t, In t lvs -> In (t_name t) sb -> In t lvs2).
  { intros t Ht Hx. apply F3; auto. apply filter_In. split; auto. apply memb_In.
    destruct (G _ Hx) as [Ha|Hu].
    - unfold sa in Ha. rewrite In_use_e2s in Ha. destruct Ha as [[t' [Ht' E]]|Ha].
      + unfold inside. rewrite uses_l_spec, In_use_triples. right. left. exists t'. split; auto. right. exact E.
      + exfalso. specialize (Hint _ Ha ltac:(rewrite !in_app_iff; left; now apply in_map)).
        eapply DLc; eauto. now apply in_map.
    - unfold inside. rewrite uses_l_spec. auto. }
  assert (HndL2 : NoDup (map t_name lvs2)) by (apply F6, NoDup_filter_names, HndL).
  assert (Hnames2 : forall x, In x (map t_name lvs2) -> In x (map t_name lvs)).
  { intros x Hi'. apply in_map_iff in Hi'. destruct Hi' as [t [E Ht]]. apply in_map_iff. exists t. auto. }
  destruct (HQ (map t_name lvs2 ++ S') Hpre) as (A1 & A2 & A3).
  { intros x Hx Hd. apply in_app_or in Hd. apply in_or_app. destruct Hd as [Hd|Hd].
    - left. apply in_map_iff in Hd. destruct Hd as [t [<- Ht]]. apply in_map. auto.
    - right. apply Hi; auto. }
  split; [|split].
  - cbn [scoped_l]. rewrite scoped_SWhile, A1, !andb_true_r. apply andb_true_intro. split.
    + rewrite forallb_forall. intros t Ht. specialize (Hl1 t (Hin1 t (F2 t Ht))).
      eapply in_scope_tr; eauto. intros y E. eapply F4; eauto.
    + rewrite forallb_forall. intros t Ht. specialize (Hl2 t (Hin1 t (F2 t Ht))).
      destruct (t_e2 t) as [| | |x] eqn:E; try reflexivity. apply in_scope_var. apply in_scope_var in Hl2.
      apply A2; auto. unfold sa. rewrite In_use_e2s. left. exists t. auto.
  - intros x Hx Hd. cbn [defs_l defs app]. apply in_app_or in Hd. apply in_or_app. destruct Hd as [Hd|Hd].
    + left. destruct bc as [b|]; cbn in Hd; [|contradiction]. destruct Hd as [<-|[]]. cbn.
      apply memb_In in Hx. rewrite Hx. left. reflexivity.
    + right. apply Hi; auto.
  - cbn [binders_l]. rewrite binders_SWhile, app_nil_r. apply NoDup_app_intro; [exact HndL2 | |].
    + apply NoDup_app_intro; [exact A3 | |].
      * destruct bc as [b|]; cbn; [|constructor]. destruct (memb b s); cbn; repeat constructor; intros [].
      * intros x H1 H2. apply (DBc x); auto. destruct bc as [b|]; cbn in *; [|contradiction].
        destruct (memb b s); cbn in *; tauto.
    + intros x H1 H2. apply Hnames2 in H1. apply in_app_or in H2. destruct H2 as [H2|H2]; [apply (DLB x); auto|].
      apply (DLc x); auto. destruct bc as [b|]; cbn in *; [|contradiction]. destruct (memb b s); cbn in *; tauto.
Qed.

Theorem dce_wf_all : (forall st, PW st) /\ (forall ss, QW ss).
Proof.
  apply stmt_stmts_ind2.
  - exact PW_SBin.
  - exact PW_SNot.
  - exact PW_SPrim.
  - exact PW_SCall.
  - exact PW_SIf.
  - exact PW_SSIf.
  - exact PW_SBreak.
  - exact PW_SWhile.
  - exact QW_nil.
  - exact QW_cons.
Qed.

Theorem dce_wf f : wf_func f = true -> wf_func (dce f) = true.
Proof.
  unfold wf_func at 1. intros H. apply andb_prop in H. destruct H as [H Hret]. apply andb_prop in H. destruct H as [Hnd Hsc].
  apply nodupb_NoDup in Hnd.
  destruct dce_wf_all as [_ HQ]. set (s0 := use_expr (f_ret f) []).
  assert (Hpre : pre (binders_l (f_body f)) (defs_l (f_body f)) (f_params f) s0).
  { split; [eapply NoDup_app_r; eauto|]. split.
    - intros x Hx Hp. eapply (NoDup_app_disj _ _ x Hnd); eauto.
    - intros x Hx Hb. unfold s0 in Hx. rewrite In_use_expr in Hx. destruct Hx as [E|[]].
      rewrite E in Hret. apply in_scope_var in Hret. rewrite in_app_iff in Hret. destruct Hret; auto.
      exfalso. eapply (NoDup_app_disj _ _ x Hnd); eauto. }
  destruct (HQ (f_body f) (f_params f) (f_params f) s0 Hsc Hpre (fun x _ H => H)) as (A1 & A2 & A3).
  unfold wf_func, dce. cbn [f_params f_body f_ret]. fold s0. rewrite A1, andb_true_r. apply andb_true_intro. split.
  - apply NoDup_nodupb. apply NoDup_app_intro; [eapply NoDup_app_l; eauto | exact A3 |].
    intros x Hp Hb. apply dce_stmts_binders in Hb. eapply (NoDup_app_disj _ _ x Hnd); eauto.
  - destruct (f_ret f) as [| | |x] eqn:E; try reflexivity. apply in_scope_var. apply in_scope_var in Hret.
    apply A2; auto. unfold s0. rewrite In_use_expr. auto.
Qed.
