(* C02deep — the passes preserve well-formedness (wf_func: pairwise distinct binders, every read in scope) and
   the absence of a Break outside of a loop, so that a pipeline of passes needs these of its INPUT only. *)
From Coq Require Import ZArith NArith List Bool Lia.
Import ListNotations.
From SV Require Import Common.Int32 C02deep.Syntax C02deep.Sem C02deep.Passes C02deep.ProofsSem C02deep.ProofsScope
  C02deep.ProofsDceSets C02deep.ProofsDce C02deep.ProofsCcpRel C02deep.ProofsCcp C02deep.ProofsCcpFull.
Open Scope Z_scope.

Definition olist (o : option stmt) : list stmt := match o with Some s => [s] | None => [] end.
Lemma olist_cons o r : (match o with Some st' => st' :: r | None => r end) = olist o ++ r.
Proof. destruct o; reflexivity. Qed.

(* ======================================================================== dead code elimination *)
(* S is the scope of the input statement, S' the scope of its output: every name that is live before the
   statement and in S is in S'.  Then the output is scoped in S', and what is live after it is in scope. *)
Definition PW (st : stmt) : Prop := forall S S' s,
  scoped S st = true -> pre (binders st) (defs st) S s ->
  (forall x, In x (snd (dce_stmt st s)) -> In x S -> In x S') ->
  scoped_l S' (olist (fst (dce_stmt st s))) = true /\
  (forall x, In x s -> In x (defs st ++ S) -> In x (defs_l (olist (fst (dce_stmt st s))) ++ S')) /\
  NoDup (binders_l (olist (fst (dce_stmt st s)))).
Definition QW (ss : list stmt) : Prop := forall S S' s,
  scoped_l S ss = true -> pre (binders_l ss) (defs_l ss) S s ->
  (forall x, In x (snd (dce_stmts ss s)) -> In x S -> In x S') ->
  scoped_l S' (fst (dce_stmts ss s)) = true /\
  (forall x, In x s -> In x (defs_l ss ++ S) -> In x (defs_l (fst (dce_stmts ss s)) ++ S')) /\
  NoDup (binders_l (fst (dce_stmts ss s))).

Lemma in_scope_tr S S' s e : in_scope S e = true -> (forall x, e = EVar x -> In x s) ->
  (forall x, In x s -> In x S -> In x S') -> in_scope S' e = true.
Proof. intros H Hu Hi. destruct e; try reflexivity. apply in_scope_var. apply in_scope_var in H. auto. Qed.

Lemma PW_simple x st e1s S S' s :
  defs st = [x] -> binders st = [x] ->
  (forall S0, scoped S0 st = forallb (in_scope S0) e1s) ->
  scoped S st = true -> (forall y, In y s -> In y S -> In y S') ->
  (forall y, In (EVar y) e1s -> In y s) ->
  scoped_l S' [st] = true.
Proof.
  intros _ _ Hsc H Hi Hu. cbn. rewrite andb_true_r. rewrite Hsc in *. rewrite forallb_forall in *.
  intros e He. eapply in_scope_tr; eauto. intros y ->. auto.
Qed.

Lemma PW_SBin x op e1 e2 : PW (SBin x op e1 e2).
Proof.
  intros S S' s Hsc (Hnd & Hfr & Hint) Hi. cbn [dce_stmt] in *.
  destruct (negb (memb x s) && negb (is_divmod op)) eqn:E; cbn [fst snd olist] in *.
  - split; [reflexivity|]. split; [|constructor]. intros y Hy Hd. cbn in *. destruct Hd as [<-|Hd]; [|auto].
    apply andb_prop in E. destruct E as [E _]. apply negb_true_iff in E. apply memb_false in E. contradiction.
  - split; [|split; [|cbn; constructor; [intros []|constructor]]].
    + cbn in *. apply andb_prop in Hsc. destruct Hsc as [A B]. rewrite andb_true_r. apply andb_true_intro. split.
      * eapply in_scope_tr; eauto. intros y ->. rewrite !In_use_expr. auto.
      * eapply in_scope_tr; eauto. intros y ->. rewrite !In_use_expr. auto.
    + intros y Hy Hd. cbn in *. destruct Hd as [<-|Hd]; [auto|]. right. apply Hi; auto. rewrite !In_use_expr. auto.
Qed.
Lemma PW_SNot x e : PW (SNot x e).
Proof.
  intros S S' s Hsc (Hnd & Hfr & Hint) Hi. cbn [dce_stmt] in *.
  destruct (negb (memb x s)) eqn:E; cbn [fst snd olist] in *.
  - split; [reflexivity|]. split; [|constructor]. intros y Hy Hd. cbn in *. destruct Hd as [<-|Hd]; [|auto].
    apply negb_true_iff in E. apply memb_false in E. contradiction.
  - split; [|split; [|cbn; constructor; [intros []|constructor]]].
    + cbn in *. rewrite andb_true_r. eapply in_scope_tr; eauto. intros y ->. rewrite !In_use_expr. auto.
    + intros y Hy Hd. cbn in *. destruct Hd as [<-|Hd]; [auto|]. right. apply Hi; auto. rewrite !In_use_expr. auto.
Qed.
Lemma PW_SPrim x p e : PW (SPrim x p e).
Proof.
  intros S S' s Hsc (Hnd & Hfr & Hint) Hi. cbn [dce_stmt] in *.
  destruct (negb (memb x s)) eqn:E; cbn [fst snd olist] in *.
  - split; [reflexivity|]. split; [|constructor]. intros y Hy Hd. cbn in *. destruct Hd as [<-|Hd]; [|auto].
    apply negb_true_iff in E. apply memb_false in E. contradiction.
  - split; [|split; [|cbn; constructor; [intros []|constructor]]].
    + cbn in *. rewrite andb_true_r. eapply in_scope_tr; eauto. intros y ->. rewrite !In_use_expr. auto.
    + intros y Hy Hd. cbn in *. destruct Hd as [<-|Hd]; [auto|]. right. apply Hi; auto. rewrite !In_use_expr. auto.
Qed.
Lemma PW_SCall f args ret : PW (SCall f args ret).
Proof.
  intros S S' s Hsc (Hnd & Hfr & Hint) Hi. cbn [dce_stmt fst snd olist] in *.
  split; [|split].
  - cbn in *. rewrite andb_true_r. rewrite forallb_forall in *. intros e He. eapply in_scope_tr; eauto.
    intros y ->. rewrite In_use_exprs. auto.
  - intros y Hy Hd. cbn [defs defs_l app] in *. apply in_app_or in Hd. destruct Hd as [Hd|Hd].
    + destruct ret as [r|]; cbn in Hd; [|contradiction]. destruct Hd as [<-|[]]. cbn.
      apply memb_In in Hy. rewrite Hy. cbn. auto.
    + apply in_or_app. right. apply Hi; auto. rewrite In_use_exprs. auto.
  - cbn. rewrite app_nil_r. destruct ret as [r|]; cbn; [|constructor]. destruct (memb r s); cbn; repeat constructor; intros [].
Qed.
Lemma PW_SBreak e : PW (SBreak e).
Proof.
  intros S S' s Hsc (Hnd & Hfr & Hint) Hi. cbn [dce_stmt fst snd olist] in *.
  split; [|split; [|constructor]].
  - cbn in *. rewrite andb_true_r. eapply in_scope_tr; eauto. intros y ->. rewrite In_use_expr. auto.
  - intros y Hy Hd. cbn in *. apply Hi; auto. rewrite In_use_expr. auto.
Qed.

Lemma QW_nil : QW [].
Proof. intros S S' s _ _ Hi. cbn in *. split; [reflexivity|]. split; [auto | constructor]. Qed.

Lemma QW_cons st r : PW st -> QW r -> QW (st :: r).
Proof.
  intros Hs Hr S S' s Hsc (Hnd & Hfr & Hint) Hi.
  cbn [scoped_l] in Hsc. apply andb_prop in Hsc. destruct Hsc as [Hsc1 Hsc2].
  cbn [binders_l defs_l] in *. cbn [dce_stmts] in *.
  pose proof (dce_stmts_grows r s) as G. pose proof (dce_stmts_mono r s) as M.
  pose proof (dce_stmts_binders r s) as Br.
  specialize (fun S'' => Hr (defs st ++ S) S'' s Hsc2).
  destruct (dce_stmts r s) as [r' s1]. cbn [fst snd] in *.
  pose proof (dce_sets_both) as [DS _]. destruct (DS st s1) as (_ & _ & Bs).
  specialize (Hs S S' s1 Hsc1).
  destruct (dce_stmt st s1) as [o s2]. cbn [fst snd] in *.
  assert (Hpre1 : pre (binders st) (defs st) S s1).
  { split; [eapply NoDup_app_l; eauto|]. split; [intros x Hx; apply Hfr; rewrite in_app_iff; auto|].
    intros x Hx Hb. destruct (G x Hx) as [Hx'|Hx'].
    - specialize (Hint x Hx' ltac:(rewrite in_app_iff; auto)). rewrite in_app_iff in Hint. destruct Hint; auto.
      exfalso. eapply (NoDup_app_disj _ _ x Hnd); eauto. now apply defs_l_in_binders.
    - destruct (uses_l_scoped _ _ _ Hsc2 Hx') as [Hi'|Hi'].
      + rewrite in_app_iff in Hi'. destruct Hi' as [Hi'|Hi']; auto. exfalso. apply (Hfr x); auto. rewrite in_app_iff; auto.
      + exfalso. eapply (NoDup_app_disj _ _ x Hnd); eauto. }
  assert (Hpre2 : pre (binders_l r) (defs_l r) (defs st ++ S) s).
  { split; [eapply NoDup_app_r; eauto|]. split.
    - intros x Hx. rewrite in_app_iff. intros [Hi'|Hi'].
      + eapply (NoDup_app_disj _ _ x Hnd); eauto. now apply defs_in_binders.
      + apply (Hfr x); auto. rewrite in_app_iff; auto.
    - intros x Hx Hb. specialize (Hint x Hx ltac:(rewrite in_app_iff; auto)). rewrite in_app_iff in Hint.
      destruct Hint; auto. exfalso. eapply (NoDup_app_disj _ _ x Hnd); eauto. now apply defs_in_binders. }
  destruct (Hs Hpre1 Hi) as (A1 & A2 & A3).
  destruct (Hr (defs_l (olist o) ++ S') Hpre2 A2) as (B1 & B2 & B3).
  rewrite olist_cons. split; [|split].
  - rewrite scoped_l_app, A1, B1. reflexivity.
  - intros x Hx Hd. rewrite defs_l_app, <- app_assoc. apply B2; auto. rewrite <- app_assoc in Hd. exact Hd.
  - rewrite binders_l_app. apply NoDup_app_intro; auto.
    intros x H1 H2. apply Br in H2. eapply (NoDup_app_disj _ _ x Hnd); eauto.
    destruct o as [st'|]; cbn in H1; [|contradiction]. rewrite app_nil_r in H1. apply Bs. exact H1.
Qed.
