(* C02deep — the passes preserve well-formedness (wf_func: pairwise distinct binders, every read in scope) and
   the absence of a Break outside of a loop, so that a pipeline of passes needs these of its INPUT only. *)
From Coq Require Import ZArith NArith List Bool Lia.
Import ListNotations.
From SV Require Import Common.Int32 C02.Kernels C02deep.Syntax C02deep.Sem C02deep.Passes C02deep.ProofsSem C02deep.ProofsScope
  C02deep.ProofsDceSets C02deep.ProofsDce C02deep.ProofsCcpRel C02deep.ProofsCcp C02deep.ProofsCcpFull.
Open Scope Z_scope.

Definition olist (o : option stmt) : list stmt := match o with Some s => [s] | None => [] end.
Lemma olist_cons o r : (match o with Some st' => st' :: r | None => r end) = olist o ++ r.
Proof. destruct o; reflexivity. Qed.

(* ======================================================================== dead code elimination *)
(* S is the scope of the input statement, S' the scope of its output: every name that is live before the
   statement and in S is in S'.  Then the output is scoped in S', and what is live after it is in scope. *)
Definition PW (st : stmt) : Prop := forall S S' s,
  scoped S st = true -> pre (binders st) (defs st) S s ->
  (forall x, In x (snd (dce_stmt st s)) -> In x S -> In x S') ->
  scoped_l S' (olist (fst (dce_stmt st s))) = true /\
  (forall x, In x s -> In x (defs st ++ S) -> In x (defs_l (olist (fst (dce_stmt st s))) ++ S')) /\
  NoDup (binders_l (olist (fst (dce_stmt st s)))).
Definition QW (ss : list stmt) : Prop := forall S S' s,
  scoped_l S ss = true -> pre (binders_l ss) (defs_l ss) S s ->
  (forall x, In x (snd (dce_stmts ss s)) -> In x S -> In x S') ->
  scoped_l S' (fst (dce_stmts ss s)) = true /\
  (forall x, In x s -> In x (defs_l ss ++ S) -> In x (defs_l (fst (dce_stmts ss s)) ++ S')) /\
  NoDup (binders_l (fst (dce_stmts ss s))).

Lemma in_scope_tr S S' s e : in_scope S e = true -> (forall x, e = EVar x -> In x s) ->
  (forall x, In x s -> In x S -> In x S') -> in_scope S' e = true.
Proof. intros H Hu Hi. destruct e; try reflexivity. apply in_scope_var. apply in_scope_var in H. auto. Qed.

Lemma PW_simple x st e1s S S' s :
  defs st = [x] -> binders st = [x] ->
  (forall S0, scoped S0 st = forallb (in_scope S0) e1s) ->
  scoped S st = true -> (forall y, In y s -> In y S -> In y S') ->
  (forall y, In (EVar y) e1s -> In y s) ->
  scoped_l S' [st] = true.
Proof.
  intros _ _ Hsc H Hi Hu. cbn. rewrite andb_true_r. rewrite Hsc in *. rewrite forallb_forall in *.
  intros e He. eapply in_scope_tr; eauto. intros y ->. auto.
Qed.

Lemma PW_SBin x op e1 e2 : PW (SBin x op e1 e2).
Proof.
  intros S S' s Hsc (Hnd & Hfr & Hint) Hi. cbn [dce_stmt] in *.
  destruct (negb (memb x s) && negb (is_divmod op)) eqn:E; cbn [fst snd olist] in *.
  - split; [reflexivity|]. split; [|constructor]. intros y Hy Hd. cbn in *. destruct Hd as [<-|Hd]; [|auto].
    apply andb_prop in E. destruct E as [E _]. apply negb_true_iff in E. apply memb_false in E. contradiction.
  - split; [|split; [|cbn; constructor; [intros []|constructor]]].
    + cbn in *. apply andb_prop in Hsc. destruct Hsc as [A B]. rewrite andb_true_r. apply andb_true_intro. split.
      * eapply in_scope_tr; eauto. intros y ->. rewrite !In_use_expr. auto.
      * eapply in_scope_tr; eauto. intros y ->. rewrite !In_use_expr. auto.
    + intros y Hy Hd. cbn in *. destruct Hd as [<-|Hd]; [auto|]. right. apply Hi; auto. rewrite !In_use_expr. auto.
Qed.
Lemma PW_SNot x e : PW (SNot x e).
Proof.
  intros S S' s Hsc (Hnd & Hfr & Hint) Hi. cbn [dce_stmt] in *.
  destruct (negb (memb x s)) eqn:E; cbn [fst snd olist] in *.
  - split; [reflexivity|]. split; [|constructor]. intros y Hy Hd. cbn in *. destruct Hd as [<-|Hd]; [|auto].
    apply negb_true_iff in E. apply memb_false in E. contradiction.
  - split; [|split; [|cbn; constructor; [intros []|constructor]]].
    + cbn in *. rewrite andb_true_r. eapply in_scope_tr; eauto. intros y ->. rewrite !In_use_expr. auto.
    + intros y Hy Hd. cbn in *. destruct Hd as [<-|Hd]; [auto|]. right. apply Hi; auto. rewrite !In_use_expr. auto.
Qed.
Lemma PW_SPrim x p e : PW (SPrim x p e).
Proof.
  intros S S' s Hsc (Hnd & Hfr & Hint) Hi. cbn [dce_stmt] in *.
  destruct (negb (memb x s)) eqn:E; cbn [fst snd olist] in *.
  - split; [reflexivity|]. split; [|constructor]. intros y Hy Hd. cbn in *. destruct Hd as [<-|Hd]; [|auto].
    apply negb_true_iff in E. apply memb_false in E. contradiction.
  - split; [|split; [|cbn; constructor; [intros []|constructor]]].
    + cbn in *. rewrite andb_true_r. eapply in_scope_tr; eauto. intros y ->. rewrite !In_use_expr. auto.
    + intros y Hy Hd. cbn in *. destruct Hd as [<-|Hd]; [auto|]. right. apply Hi; auto. rewrite !In_use_expr. auto.
Qed.
Lemma PW_SCall f args ret : PW (SCall f args ret).
Proof.
  intros S S' s Hsc (Hnd & Hfr & Hint) Hi. cbn [dce_stmt fst snd olist] in *.
  split; [|split].
  - cbn in *. rewrite andb_true_r. rewrite forallb_forall in *. intros e He. eapply in_scope_tr; eauto.
    intros y ->. rewrite In_use_exprs. auto.
  - intros y Hy Hd. cbn [defs defs_l app] in *. apply in_app_or in Hd. destruct Hd as [Hd|Hd].
    + destruct ret as [r|]; cbn in Hd; [|contradiction]. destruct Hd as [<-|[]]. cbn.
      apply memb_In in Hy. rewrite Hy. cbn. auto.
    + apply in_or_app. right. apply Hi; auto. rewrite In_use_exprs. auto.
  - cbn. rewrite app_nil_r. destruct ret as [r|]; cbn; [|constructor]. destruct (memb r s); cbn; repeat constructor; intros [].
Qed.
Lemma PW_SStruct x tn es : PW (SStruct x tn es).
Proof.
  intros S S' s Hsc (Hnd & Hfr & Hint) Hi. cbn [dce_stmt] in *.
  destruct (negb (memb x s)) eqn:E; cbn [fst snd olist] in *.
  - split; [reflexivity|]. split; [|constructor]. intros y Hy Hd. cbn in *. destruct Hd as [<-|Hd]; [|auto].
    apply negb_true_iff in E. apply memb_false in E. contradiction.
  - split; [|split; [|cbn; constructor; [intros []|constructor]]].
    + cbn in *. rewrite andb_true_r. rewrite forallb_forall in *. intros e He.
      apply (in_scope_tr S S' (use_exprs es s) e (Hsc e He)); [intros y ->; rewrite In_use_exprs; auto | exact Hi].
    + intros y Hy Hd. cbn in *. destruct Hd as [<-|Hd]; [auto|]. right. apply Hi; auto. rewrite In_use_exprs. auto.
Qed.
Lemma PW_SLateDecl x : PW (SLateDecl x).
Proof. intros S S' s Hsc. discriminate Hsc. Qed.
Lemma PW_SLateAssign x e : PW (SLateAssign x e).
Proof. intros S S' s Hsc. discriminate Hsc. Qed.
Lemma PW_SBreak e : PW (SBreak e).
Proof.
  intros S S' s Hsc (Hnd & Hfr & Hint) Hi. cbn [dce_stmt fst snd olist] in *.
  split; [|split; [|constructor]].
  - cbn in *. rewrite andb_true_r. eapply in_scope_tr; eauto. intros y ->. rewrite In_use_expr. auto.
  - intros y Hy Hd. cbn in *. apply Hi; auto. rewrite In_use_expr. auto.
Qed.

Lemma QW_nil : QW [].
Proof. intros S S' s _ _ Hi. cbn in *. split; [reflexivity|]. split; [auto | constructor]. Qed.

Lemma QW_cons st r : PW st -> QW r -> QW (st :: r).
Proof.
  intros Hs Hr S S' s Hsc (Hnd & Hfr & Hint) Hi.
  cbn [scoped_l] in Hsc. apply andb_prop in Hsc. destruct Hsc as [Hsc1 Hsc2].
  cbn [binders_l defs_l] in *. cbn [dce_stmts] in *.
  pose proof (dce_stmts_grows r s) as G. pose proof (dce_stmts_mono r s) as M.
  pose proof (dce_stmts_binders r s) as Br.
  specialize (fun S'' => Hr (defs st ++ S) S'' s Hsc2).
  destruct (dce_stmts r s) as [r' s1]. cbn [fst snd] in *.
  pose proof (dce_sets_both) as [DS _]. destruct (DS st s1) as (_ & _ & Bs).
  specialize (Hs S S' s1 Hsc1).
  destruct (dce_stmt st s1) as [o s2]. cbn [fst snd] in *.
  assert (Hpre1 : pre (binders st) (defs st) S s1).
  { split; [eapply NoDup_app_l; eauto|]. split; [intros x Hx; apply Hfr; rewrite in_app_iff; auto|].
    intros x Hx Hb. destruct (G x Hx) as [Hx'|Hx'].
    - specialize (Hint x Hx' ltac:(rewrite in_app_iff; auto)). rewrite in_app_iff in Hint. destruct Hint; auto.
      exfalso. eapply (NoDup_app_disj _ _ x Hnd); eauto. now apply defs_l_in_binders.
    - destruct (uses_l_scoped _ _ _ Hsc2 Hx') as [Hi'|Hi'].
      + rewrite in_app_iff in Hi'. destruct Hi' as [Hi'|Hi']; auto. exfalso. apply (Hfr x); auto. rewrite in_app_iff; auto.
      + exfalso. eapply (NoDup_app_disj _ _ x Hnd); eauto. }
  assert (Hpre2 : pre (binders_l r) (defs_l r) (defs st ++ S) s).
  { split; [eapply NoDup_app_r; eauto|]. split.
    - intros x Hx. rewrite in_app_iff. intros [Hi'|Hi'].
      + eapply (NoDup_app_disj _ _ x Hnd); eauto. now apply defs_in_binders.
      + apply (Hfr x); auto. rewrite in_app_iff; auto.
    - intros x Hx Hb. specialize (Hint x Hx ltac:(rewrite in_app_iff; auto)). rewrite in_app_iff in Hint.
      destruct Hint; auto. exfalso. eapply (NoDup_app_disj _ _ x Hnd); eauto. now apply defs_in_binders. }
  destruct (Hs Hpre1 Hi) as (A1 & A2 & A3).
  destruct (Hr (defs_l (olist o) ++ S') Hpre2 A2) as (B1 & B2 & B3).
  rewrite olist_cons. split; [|split].
  - rewrite scoped_l_app, A1, B1. reflexivity.
  - intros x Hx Hd. rewrite defs_l_app, <- app_assoc. apply B2; auto. rewrite <- app_assoc in Hd. exact Hd.
  - rewrite binders_l_app. apply NoDup_app_intro; auto.
    intros x H1 H2. apply Br in H2. eapply (NoDup_app_disj _ _ x Hnd); eauto.
    destruct o as [st'|]; cbn in H1; [|contradiction]. rewrite app_nil_r in H1. apply Bs. exact H1.
Qed.

Lemma PW_SSIf c inv ss : QW ss -> PW (SSIf c inv ss).
Proof.
  intros HQ S S' s Hsc (Hnd & Hfr & Hint) Hi.
  rewrite scoped_SSIf in Hsc. apply andb_prop in Hsc. destruct Hsc as [Hc Hsc].
  rewrite binders_SSIf in *. cbn [defs] in *. rewrite dce_SSIf in *.
  pose proof (dce_stmts_mono ss s) as M.
  specialize (HQ S S' s Hsc). destruct (dce_stmts ss s) as [ss' sa]. cbn [fst snd] in *.
  assert (Hpre : pre (binders_l ss) (defs_l ss) S s).
  { split; auto. split; auto. intros x Hx Hb. destruct (Hint x Hx Hb). }
  destruct (is_nil ss') eqn:En; cbn [fst snd olist] in *.
  - destruct (HQ Hpre Hi) as (A1 & A2 & A3). split; [reflexivity|]. split; [|constructor].
    intros x Hx Hd. cbn in *. auto.
  - destruct (HQ Hpre) as (A1 & A2 & A3); [intros x Hx; apply Hi; rewrite In_use_expr; auto|].
    split; [|split].
    + cbn [scoped_l]. rewrite scoped_SSIf, A1, !andb_true_r.
      apply (in_scope_tr S S' (use_expr c sa) c Hc); [intros y ->; rewrite In_use_expr; auto | exact Hi].
    + intros x Hx Hd. cbn in *. apply Hi; auto. rewrite In_use_expr. auto.
    + cbn [binders_l]. rewrite binders_SSIf, app_nil_r. exact A3.
Qed.

Lemma PW_SIf c s1 s2 fas : QW s1 -> QW s2 -> PW (SIf c s1 s2 fas).
Proof.
  intros HQ1 HQ2 S S' s Hsc (Hnd & Hfr & Hint) Hi.
  rewrite scoped_SIf in Hsc. apply andb_prop in Hsc. destruct Hsc as [Hsc Hf].
  apply andb_prop in Hsc. destruct Hsc as [Hsc Hs2]. apply andb_prop in Hsc. destruct Hsc as [Hc Hs1].
  rewrite forallb_forall in Hf.
  rewrite binders_SIf in *. cbn [defs] in *.
  assert (Hnd1 : NoDup (binders_l s1)) by (eapply NoDup_app_l; eauto).
  assert (Hnd2 : NoDup (binders_l s2)) by (eapply NoDup_app_l, NoDup_app_r; eauto).
  assert (Hndf : NoDup (map t_name fas)) by (eapply NoDup_app_r, NoDup_app_r; eauto).
  assert (D12 : forall x, In x (binders_l s1) -> In x (binders_l s2) -> False).
  { intros x H1 H2. eapply (NoDup_app_disj _ _ x Hnd); eauto. rewrite in_app_iff. auto. }
  assert (D1f : forall x, In x (binders_l s1) -> In x (map t_name fas) -> False).
  { intros x H1 H2. eapply (NoDup_app_disj _ _ x Hnd); eauto. rewrite in_app_iff. auto. }
  assert (D2f : forall x, In x (binders_l s2) -> In x (map t_name fas) -> False).
  { intros x H1 H2. apply NoDup_app_r in Hnd. eapply (NoDup_app_disj _ _ x Hnd); eauto. }
  assert (Fr1 : forall x, In x (binders_l s1) -> ~ In x S) by (intros x Hx; apply Hfr; rewrite !in_app_iff; auto).
  assert (Fr2 : forall x, In x (binders_l s2) -> ~ In x S) by (intros x Hx; apply Hfr; rewrite !in_app_iff; auto).
  rewrite dce_SIf in *.
  destruct (dce_fas fas s) as [fas' sa] eqn:Ef.
  destruct (dce_fas_spec _ _ _ _ Ef) as (F1 & F2 & F3 & F4 & F5 & F6).
  pose proof (dce_stmts_mono s1 sa) as M1. pose proof (dce_stmts_grows s1 sa) as G1.
  pose proof (dce_stmts_binders s1 sa) as Bs1.
  specialize (HQ1 S S' sa Hs1). destruct (dce_stmts s1 sa) as [s1' sb]. cbn [fst snd] in *.
  pose proof (dce_stmts_mono s2 sb) as M2. pose proof (dce_stmts_binders s2 sb) as Bs2.
  specialize (HQ2 S S' sb Hs2). destruct (dce_stmts s2 sb) as [s2' sc]. cbn [fst snd] in *.
  assert (Hsa : forall x, In x sa -> In x (binders_l s1 ++ binders_l s2) ->
                (In x (binders_l s1) -> In x (defs_l s1)) /\ (In x (binders_l s2) -> In x (defs_l s2))).
  { intros x Hx Hb. destruct (F5 x Hx) as [Hs|[t [Ht Hu]]].
    - exfalso. rewrite in_app_iff in Hb. specialize (Hint x Hs ltac:(rewrite !in_app_iff; tauto)).
      destruct Hb; eauto.
    - specialize (Hf t Ht). apply andb_prop in Hf. destruct Hf as [Hf1 Hf2]. destruct Hu as [E|E].
      + rewrite E in Hf1. apply in_scope_var in Hf1. rewrite in_app_iff in Hf1. destruct Hf1 as [Hd|Hd].
        * split; auto. intros H2. exfalso. apply (D12 x); auto. now apply defs_l_in_binders.
        * exfalso. rewrite in_app_iff in Hb. destruct Hb as [Hb|Hb]; [apply (Fr1 x) | apply (Fr2 x)]; auto.
      + rewrite E in Hf2. apply in_scope_var in Hf2. rewrite in_app_iff in Hf2. destruct Hf2 as [Hd|Hd].
        * split; auto. intros H1. exfalso. apply (D12 x); auto. now apply defs_l_in_binders.
        * exfalso. rewrite in_app_iff in Hb. destruct Hb as [Hb|Hb]; [apply (Fr1 x) | apply (Fr2 x)]; auto. }
  assert (Hpre1 : pre (binders_l s1) (defs_l s1) S sa).
  { split; auto. split; auto. intros x Hx Hb. apply (Hsa x Hx); auto. rewrite in_app_iff. auto. }
  assert (Hpre2 : pre (binders_l s2) (defs_l s2) S sb).
  { split; auto. split; auto. intros x Hx Hb. destruct (G1 x Hx) as [Ha|Hu].
    - apply (Hsa x Ha); auto. rewrite in_app_iff. auto.
    - exfalso. destruct (uses_l_scoped _ _ _ Hs1 Hu) as [Hi'|Hi']; [apply (Fr2 x) | apply (D12 x)]; auto. }
  assert (Hlive : forall x, In x sc -> In x S -> In x S').
  { intros x Hx HS. apply Hi; auto. destruct (is_nil s1' && is_nil s2' && is_nil fas'); cbn [fst snd]; [|rewrite In_use_expr]; auto. }
  destruct (HQ1 Hpre1) as (A1 & A2 & A3); [intros x Hx; apply Hlive; auto|].
  destruct (HQ2 Hpre2 Hlive) as (B1 & B2 & B3).
  destruct (is_nil s1' && is_nil s2' && is_nil fas') eqn:En; cbn [fst snd olist] in *.
  - apply andb_prop in En. destruct En as [En E3]. destruct fas'; [|discriminate].
    split; [reflexivity|]. split; [|constructor]. intros x Hx Hd. cbn [defs_l app]. apply in_app_or in Hd. destruct Hd as [Hd|Hd].
    + apply in_map_iff in Hd. destruct Hd as [t [<- Ht]]. destruct (F3 t Ht Hx).
    + apply Hlive; auto.
  - split; [|split].
    + cbn [scoped_l]. rewrite scoped_SIf, A1, B1, !andb_true_r. apply andb_true_intro. split.
      * apply (in_scope_tr S S' (use_expr c sc) c Hc); [intros y ->; rewrite In_use_expr; auto | exact Hi].
      * rewrite forallb_forall. intros t Ht. specialize (Hf t (F2 t Ht)). apply andb_prop in Hf. destruct Hf as [Hf1 Hf2].
        apply andb_true_intro. split.
        -- destruct (t_e1 t) as [| | |x] eqn:E; try reflexivity. apply in_scope_var. apply in_scope_var in Hf1.
           apply A2; auto. apply (F4 t x Ht). left. exact E.
        -- destruct (t_e2 t) as [| | |x] eqn:E; try reflexivity. apply in_scope_var. apply in_scope_var in Hf2.
           apply B2; auto. apply M1. apply (F4 t x Ht). right. exact E.
    + intros x Hx Hd. cbn [defs_l defs app]. apply in_app_or in Hd. apply in_or_app. destruct Hd as [Hd|Hd].
      * left. apply in_map_iff in Hd. destruct Hd as [t [<- Ht]]. apply in_map. auto.
      * right. apply Hlive; auto.
    + cbn [binders_l]. rewrite binders_SIf, app_nil_r. apply NoDup_app_intro; [exact A3 | |].
      * apply NoDup_app_intro; [exact B3 | auto |]. intros x H1 H2. apply (D2f x); auto.
        apply in_map_iff in H2. destruct H2 as [t [<- Ht]]. apply in_map. auto.
      * intros x H1 H2. apply in_app_or in H2. destruct H2 as [H2|H2]; [apply (D12 x); auto|].
        apply (D1f x); auto. apply in_map_iff in H2. destruct H2 as [t [<- Ht]]. apply in_map. auto.
Qed.

Lemma PW_SWhile lvs ss bc : QW ss -> PW (SWhile lvs ss bc).
Proof.
  intros HQ S S' s Hsc (Hnd & Hfr & Hint) Hi.
  rewrite scoped_SWhile in Hsc. apply andb_prop in Hsc. destruct Hsc as [Hsc Hl2].
  apply andb_prop in Hsc. destruct Hsc as [Hl1 Hs]. rewrite forallb_forall in Hl1, Hl2.
  rewrite binders_SWhile in *. cbn [defs] in *.
  assert (HndL : NoDup (map t_name lvs)) by (eapply NoDup_app_l; eauto).
  assert (HndB : NoDup (binders_l ss)) by (eapply NoDup_app_l, NoDup_app_r; eauto).
  assert (DLB : forall x, In x (map t_name lvs) -> In x (binders_l ss) -> False).
  { intros x H1 H2. eapply (NoDup_app_disj _ _ x Hnd); eauto. rewrite in_app_iff. auto. }
  assert (DLc : forall x, In x (map t_name lvs) -> In x (opt_names bc) -> False).
  { intros x H1 H2. eapply (NoDup_app_disj _ _ x Hnd); eauto. rewrite in_app_iff. auto. }
  assert (DBc : forall x, In x (binders_l ss) -> In x (opt_names bc) -> False).
  { intros x H1 H2. apply NoDup_app_r in Hnd. eapply (NoDup_app_disj _ _ x Hnd); eauto. }
  assert (FrL : forall x, In x (map t_name lvs) -> ~ In x S) by (intros x Hx; apply Hfr; rewrite !in_app_iff; auto).
  assert (FrB : forall x, In x (binders_l ss) -> ~ In x S) by (intros x Hx; apply Hfr; rewrite !in_app_iff; auto).
  rewrite dce_SWhile in *. cbn zeta in *.
  set (inside := uses_l ss (use_triples lvs [])) in *.
  set (lvs1 := filter (fun t => memb (t_name t) inside) lvs) in *.
  set (sa := use_e2s lvs1 s) in *.
  pose proof (dce_stmts_grows ss sa) as G. pose proof (dce_stmts_binders ss sa) as Bsub.
  pose proof (dce_stmts_mono ss sa) as M.
  specialize (fun S'' => HQ (map t_name lvs ++ S) S'' sa Hs).
  destruct (dce_stmts ss sa) as [ss' sb]. cbn [fst snd] in *.
  destruct (dce_lvs lvs1 sb) as [lvs2 sc] eqn:El.
  destruct (dce_lvs_spec _ _ _ _ El) as (F1 & F2 & F3 & F4 & F5 & F6). cbn [fst snd olist] in *.
  assert (Hs_sa : forall x, In x s -> In x sa) by (intros x Hx; unfold sa; rewrite In_use_e2s; auto).
  assert (Hin1 : forall t, In t lvs1 -> In t lvs) by (intros t Ht; apply filter_In in Ht; tauto).
  assert (Hpre : pre (binders_l ss) (defs_l ss) (map t_name lvs ++ S) sa).
  { split; auto. split.
    - intros x Hx. rewrite in_app_iff. intros [Hi'|Hi']; [eapply DLB | eapply FrB]; eauto.
    - intros x Hx Hb. unfold sa in Hx. rewrite In_use_e2s in Hx. destruct Hx as [[t [Ht E]]|Hx].
      + specialize (Hl2 t (Hin1 t Ht)). rewrite E in Hl2. apply in_scope_var in Hl2.
        rewrite !in_app_iff in Hl2. destruct Hl2 as [Hi'|[Hi'|Hi']]; auto; exfalso; [eapply DLB | eapply FrB]; eauto.
      + exfalso. specialize (Hint x Hx ltac:(rewrite !in_app_iff; tauto)). eapply DBc; eauto. }
  assert (Hkeep : forall t, In t lvs -> In (t_name t) sb -> In t lvs2).
  { intros t Ht Hx. apply F3; auto. apply filter_In. split; auto. apply memb_In.
    destruct (G _ Hx) as [Ha|Hu].
    - unfold sa in Ha. rewrite In_use_e2s in Ha. destruct Ha as [[t' [Ht' E]]|Ha].
      + unfold inside. rewrite uses_l_spec, In_use_triples. right. left. exists t'. split; auto. right. exact E.
      + exfalso. specialize (Hint _ Ha ltac:(rewrite !in_app_iff; left; now apply in_map)).
        eapply DLc; eauto. now apply in_map.
    - unfold inside. rewrite uses_l_spec. auto. }
  assert (HndL2 : NoDup (map t_name lvs2)) by (apply F6, NoDup_filter_names, HndL).
  assert (Hnames2 : forall x, In x (map t_name lvs2) -> In x (map t_name lvs)).
  { intros x Hi'. apply in_map_iff in Hi'. destruct Hi' as [t [E Ht]]. apply in_map_iff. exists t. auto. }
  destruct (HQ (map t_name lvs2 ++ S') Hpre) as (A1 & A2 & A3).
  { intros x Hx Hd. apply in_app_or in Hd. apply in_or_app. destruct Hd as [Hd|Hd].
    - left. apply in_map_iff in Hd. destruct Hd as [t [<- Ht]]. apply in_map. auto.
    - right. apply Hi; auto. }
  split; [|split].
  - cbn [scoped_l]. rewrite scoped_SWhile, A1, !andb_true_r. apply andb_true_intro. split.
    + rewrite forallb_forall. intros t Ht. specialize (Hl1 t (Hin1 t (F2 t Ht))).
      apply (in_scope_tr S S' sc (t_e1 t) Hl1); [intros y E; eapply F4; eauto | exact Hi].
    + rewrite forallb_forall. intros t Ht. specialize (Hl2 t (Hin1 t (F2 t Ht))).
      destruct (t_e2 t) as [| | |x] eqn:E; try reflexivity. apply in_scope_var. apply in_scope_var in Hl2.
      apply A2; auto. unfold sa. rewrite In_use_e2s. left. exists t. auto.
  - intros x Hx Hd. cbn [defs_l defs app]. apply in_app_or in Hd. apply in_or_app. destruct Hd as [Hd|Hd].
    + left. destruct bc as [b|]; cbn in Hd; [|contradiction]. destruct Hd as [<-|[]]. cbn.
      apply memb_In in Hx. rewrite Hx. left. reflexivity.
    + right. apply Hi; auto.
  - cbn [binders_l]. rewrite binders_SWhile, app_nil_r. apply NoDup_app_intro; [exact HndL2 | |].
    + apply NoDup_app_intro; [exact A3 | |].
      * destruct bc as [b|]; cbn; [|constructor]. destruct (memb b s); cbn; repeat constructor; intros [].
      * intros x H1 H2. apply (DBc x); auto. destruct bc as [b|]; cbn in *; [|contradiction].
        destruct (memb b s); cbn in *; tauto.
    + intros x H1 H2. apply Hnames2 in H1. apply in_app_or in H2. destruct H2 as [H2|H2]; [apply (DLB x); auto|].
      apply (DLc x); auto. destruct bc as [b|]; cbn in *; [|contradiction]. destruct (memb b s); cbn in *; tauto.
Qed.

Theorem dce_wf_all : (forall st, PW st) /\ (forall ss, QW ss).
Proof.
  apply stmt_stmts_ind2.
  - exact PW_SBin.
  - exact PW_SNot.
  - exact PW_SPrim.
  - exact PW_SCall.
  - exact PW_SIf.
  - exact PW_SSIf.
  - exact PW_SBreak.
  - exact PW_SWhile.
  - exact PW_SStruct.
  - exact PW_SLateDecl.
  - exact PW_SLateAssign.
  - exact QW_nil.
  - exact QW_cons.
Qed.

Theorem dce_wf f : wf_func f = true -> wf_func (dce f) = true.
Proof.
  unfold wf_func at 1. intros H. apply andb_prop in H. destruct H as [H Hret]. apply andb_prop in H. destruct H as [Hnd Hsc].
  apply nodupb_NoDup in Hnd.
  destruct dce_wf_all as [_ HQ]. set (s0 := use_expr (f_ret f) []).
  assert (Hpre : pre (binders_l (f_body f)) (defs_l (f_body f)) (f_params f) s0).
  { split; [eapply NoDup_app_r; eauto|]. split.
    - intros x Hx Hp. eapply (NoDup_app_disj _ _ x Hnd); eauto.
    - intros x Hx Hb. unfold s0 in Hx. rewrite In_use_expr in Hx. destruct Hx as [E|[]].
      rewrite E in Hret. apply in_scope_var in Hret. rewrite in_app_iff in Hret. destruct Hret; auto.
      exfalso. eapply (NoDup_app_disj _ _ x Hnd); eauto. }
  destruct (HQ (f_body f) (f_params f) (f_params f) s0 Hsc Hpre (fun x _ H => H)) as (A1 & A2 & A3).
  unfold wf_func, dce. cbn [f_params f_body f_ret]. fold s0. rewrite A1, andb_true_r. apply andb_true_intro. split.
  - apply NoDup_nodupb. apply NoDup_app_intro; [eapply NoDup_app_l; eauto | exact A3 |].
    intros x Hp Hb. apply dce_stmts_binders in Hb. eapply (NoDup_app_disj _ _ x Hnd); eauto.
  - destruct (f_ret f) as [| | |x] eqn:E; try reflexivity. apply in_scope_var. apply in_scope_var in Hret.
    apply A2; auto. unfold s0. rewrite In_use_expr. auto.
Qed.

(* no Break outside of a loop is created *)
Lemma dce_no_break_both :
  (forall st s, no_break st = true -> no_break_l (olist (fst (dce_stmt st s))) = true) /\
  (forall ss s, no_break_l ss = true -> no_break_l (fst (dce_stmts ss s)) = true).
Proof.
  apply stmt_stmts_ind2.
  - intros x op e1 e2 s _. cbn [dce_stmt]. destruct (_ && _); reflexivity.
  - intros x e s _. cbn [dce_stmt]. destruct (negb _); reflexivity.
  - intros x p e s _. cbn [dce_stmt]. destruct (negb _); reflexivity.
  - intros f args ret s _. reflexivity.
  - intros c s1 s2 fas H1 H2 s Hn. change (no_break (SIf c s1 s2 fas)) with (no_break_l s1 && no_break_l s2) in Hn.
    apply andb_prop in Hn. destruct Hn as [N1 N2]. rewrite dce_SIf.
    destruct (dce_fas fas s) as [fas' sa]. specialize (H1 sa N1). destruct (dce_stmts s1 sa) as [s1' sb].
    specialize (H2 sb N2). destruct (dce_stmts s2 sb) as [s2' sc]. cbn [fst snd] in *.
    destruct (_ && _); cbn [fst olist]; [reflexivity|]. cbn [no_break_l].
    change (no_break (SIf c s1' s2' fas')) with (no_break_l s1' && no_break_l s2'). now rewrite H1, H2.
  - intros c inv ss H s Hn. change (no_break (SSIf c inv ss)) with (no_break_l ss) in Hn. rewrite dce_SSIf.
    specialize (H s Hn). destruct (dce_stmts ss s) as [ss' sa]. cbn [fst] in *.
    destruct (is_nil ss'); cbn [fst olist]; [reflexivity|]. cbn [no_break_l].
    change (no_break (SSIf c inv ss')) with (no_break_l ss'). now rewrite H.
  - intros e s Hn. discriminate.
  - intros lvs ss bc _ s _. rewrite dce_SWhile. cbn zeta. destruct (dce_stmts ss _) as [ss' sb].
    destruct (dce_lvs _ sb) as [lvs2 sc]. reflexivity.
  - intros x tn es s _. cbn [dce_stmt]. destruct (negb _); reflexivity.
  - intros x s _. cbn [dce_stmt]. destruct (negb _); reflexivity.
  - intros x e s _. cbn [dce_stmt]. destruct (negb _); reflexivity.
  - reflexivity.
  - intros st r Hs Hr s Hn. cbn in Hn. apply andb_prop in Hn. destruct Hn as [N1 N2]. cbn [dce_stmts].
    specialize (Hr s N2). destruct (dce_stmts r s) as [r' s1]. specialize (Hs s1 N1).
    destruct (dce_stmt st s1) as [o s2]. cbn [fst] in *. destruct o as [st'|]; cbn in *; [|exact Hr].
    rewrite andb_true_r in Hs. now rewrite Hs, Hr.
Qed.
Lemma dce_no_break f : no_break_l (f_body f) = true -> no_break_l (f_body (dce f)) = true.
Proof. intros H. unfold dce. cbn [f_body]. now apply dce_no_break_both. Qed.

(* ======================================================================== constant propagation *)
Lemma no_break_l_app a b : no_break_l (a ++ b) = no_break_l a && no_break_l b.
Proof. induction a as [|s r IH]; cbn; [reflexivity|]. now rewrite IH, andb_assoc. Qed.

Lemma ccp_bound_nb x e c out c' b f : ccp_bound x e c = Some (out, c', b, f) -> no_break_l out = true.
Proof. unfold ccp_bound. destruct (bind x e c); [intros [= <- _ _ _]; reflexivity | discriminate]. Qed.
Lemma ccp_bin_rest_nb x op e1 e2 c out c' b f : ccp_bin_rest x op e1 e2 c = Some (out, c', b, f) -> no_break_l out = true.
Proof.
  unfold ccp_bin_rest. intros H.
  destruct (match e1, e2 with
            | EVar a, EVar b0 => if N.eqb a b0 then match op with MINUS | MOD => Some (EInt 0) | DIV => Some (EInt 1) | _ => None end else None
            | _, _ => None end); [eapply ccp_bound_nb; eauto|].
  destruct (flex_unwrapped op e1 e2) as [[op' a'] b'].
  destruct a' as [| | |v1]; try (injection H as <- _ _ _; reflexivity).
  destruct b' as [c2| | |]; try (injection H as <- _ _ _; reflexivity).
  destruct (assoc v1 (cx_b c)) as [[[iop iv] ic]|]; [destruct (merge_binop op' iop ic (wrap32 c2)) as [[mop mc]|]|];
    injection H as <- _ _ _; reflexivity.
Qed.
Lemma ccp_bin_nb x op e1 e2 c out c' b f : ccp_bin x op e1 e2 c = Some (out, c', b, f) -> no_break_l out = true.
Proof.
  unfold ccp_bin. intros H.
  repeat match type of H with
         | match ?x with _ => _ end = _ => destruct x
         | (if ?x then _ else _) = _ => destruct x
         end;
    first [apply ccp_bound_nb in H | apply ccp_bin_rest_nb in H]; exact H.
Qed.

Section CcpNoBreak.
Variable g : ver.
Hypothesis Hg : v_guard g = true.
Lemma try_loop_nb stmts body bc c : forall d l o c' b f,
  try_loop g stmts d l body bc c = Some (o, c', b, f) -> no_break_l o = true.
Proof.
  induction d as [|d IHd]; intros l o c' b f Et; cbn [try_loop] in Et;
    destruct (bind_inits l c) as [cA|]; try discriminate;
    destruct (stmts body cA) as [[[[oA cB] bA] fA]|]; try discriminate;
    destruct (split_last oA) as [[restA last]|].
  1, 3: rewrite Hg in Et; cbn [andb] in Et; destruct (no_break_l restA) eqn:En; cbn [negb] in Et; rewrite ?orb_true_r, ?orb_false_r in Et;
        [|injection Et as <- _ _ _; reflexivity];
        destruct (negb (is_break last)); [injection Et as <- _ _ _; reflexivity|];
        destruct last; try discriminate; destruct bc as [bn|];
        [destruct (bind bn _ c); [|discriminate]|]; injection Et as <- _ _ _; exact En.
  - injection Et as <- _ _ _; reflexivity.
  - destruct (try_loop g stmts d _ body bc c) as [[[[o' c2'] b2'] f2']|] eqn:Et2; [|discriminate].
    injection Et as <- _ _ _. eapply IHd; eauto.
Qed.

Lemma ccp_out_nb n : forall st c out c' b f,
  no_break st = true -> ccp_stmt g n st c = Some (out, c', b, f) -> no_break_l out = true.
Proof.
  induction n as [|n IH]; intros st c out c' b f Hnb H; [discriminate|].
  assert (HG : forall ss c out c' b f, no_break_l ss = true -> ccp_stmts g n ss c = Some (out, c', b, f) -> no_break_l out = true).
  { induction ss as [|s r IHr]; intros c0 out0 c0' b0 f0 Hn0 H0; unfold ccp_stmts in H0; cbn [ccp_go] in H0.
    - injection H0 as <- _ _ _. reflexivity.
    - cbn in Hn0. apply andb_prop in Hn0. destruct Hn0 as [Hn1 Hn2].
      destruct (ccp_stmt g n s c0) as [[[[o1 c1] b1] f1]|] eqn:E1; [|discriminate].
      pose proof (IH _ _ _ _ _ _ Hn1 E1) as N1. destruct b1; [injection H0 as <- _ _ _; exact N1|].
      destruct (ccp_go (ccp_stmt g n) r c1) as [[[[o2 c2] b2] f2]|] eqn:E2; [|discriminate].
      injection H0 as <- _ _ _. rewrite no_break_l_app, N1. eapply IHr; eauto. }
  destruct st; cbn [ccp_stmt] in H; fold (ccp_stmts g n) in H.
  - exact (ccp_bin_nb _ _ _ _ _ _ _ _ _ H).
  - destruct (lit _); [destruct (bind _ _ _)|]; try discriminate; injection H as <- _ _ _; reflexivity.
  - match type of H with (match ?m with _ => _ end) = _ => destruct m as [cp|]; [destruct (bind _ _ _); [|discriminate]|] end; injection H as <- _ _ _; reflexivity.
  - injection H as <- _ _ _; reflexivity.
  - change (no_break (SIf c0 s1 s2 fas)) with (no_break_l s1 && no_break_l s2) in Hnb.
    apply andb_prop in Hnb. destruct Hnb as [Hn1 Hn2].
    destruct (lit (opt_expr (cx_v c) c0)) as [v|].
    + destruct (ccp_stmts g n _ c) as [[[[o1 c1] b1] f1]|] eqn:E1; [|discriminate].
      assert (N1 : no_break_l o1 = true) by (eapply HG; [|exact E1]; destruct (negb (v =? 0)); assumption).
      destruct b1; [injection H as <- _ _ _; exact N1|].
      destruct (bind_fas _ _ _); [injection H as <- _ _ _; exact N1 | discriminate].
    + assert (GEN' : match ccp_stmts g n s1 c with
                     | None => None
                     | Some (o1, c1, _, f1) =>
                         match ccp_stmts g n s2 c with
                         | None => None
                         | Some (o2, c2, _, f2) =>
                             match merge_fas fas (map (fun t => opt_expr (cx_v c1) (t_e1 t)) fas)
                                             (map (fun t => opt_expr (cx_v c2) (t_e2 t)) fas) c with
                             | None => None
                             | Some (fas', c'0) =>
                                 Some (if is_nil o1 && is_nil o2 && is_nil fas' then [] else [SIf (opt_expr (cx_v c) c0) o1 o2 fas'],
                                       c'0, false,
                                       orf (orf f1 f2) (if dead_final_assignments o1 o2 fas then fl_unproved else fl0))
                             end
                         end
                     end = Some (out, c', b, f) -> no_break_l out = true).
      { intros HX. destruct (ccp_stmts g n s1 c) as [[[[o1 c1] b1] f1]|] eqn:E1; [|discriminate].
        destruct (ccp_stmts g n s2 c) as [[[[o2 c2] b2] f2]|] eqn:E2; [|discriminate].
        destruct (merge_fas _ _ _ c) as [[fas' c0']|]; [|discriminate]. injection HX as <- _ _ _.
        destruct (_ && _); [reflexivity|]. cbn [no_break_l].
        change (no_break (SIf (opt_expr (cx_v c) c0) o1 o2 fas')) with (no_break_l o1 && no_break_l o2).
        now rewrite (HG _ _ _ _ _ _ Hn1 E1), (HG _ _ _ _ _ _ Hn2 E2). }
      destruct s1 as [|a1 r1]; [|exact (GEN' H)].
      destruct s2 as [|a2 r2]; [|exact (GEN' H)].
      destruct fas as [|t [|t2 r]]; [exact (GEN' H)| |exact (GEN' H)].
      destruct (is_lit (t_e1 t) 1 && is_lit (t_e2 t) 0).
      * destruct (bind (t_name t) _ c); [injection H as <- _ _ _; reflexivity | discriminate].
      * destruct (is_lit (t_e1 t) 0 && is_lit (t_e2 t) 1); [injection H as <- _ _ _; reflexivity | exact (GEN' H)].
  - change (no_break (SSIf c0 inv ss)) with (no_break_l ss) in Hnb. destruct (lit _) as [v|].
    + destruct (negb _); [exact (HG _ _ _ _ _ _ Hnb H) | injection H as <- _ _ _; reflexivity].
    + destruct (ccp_stmts g n ss c) as [[[[o1 c1] b1] f1]|] eqn:E1; [|discriminate]. injection H as <- _ _ _.
      destruct (is_nil o1); [reflexivity|]. cbn [no_break_l].
      change (no_break (SSIf (opt_expr (cx_v c) c0) inv o1)) with (no_break_l o1). now rewrite (HG _ _ _ _ _ _ Hnb E1).
  - discriminate.
  - destruct (elim_lvs g lvs c) as [[[K c1] f0]|]; [|discriminate].
    destruct (ccp_stmts g n ss c1) as [[[[body c_in] bb] f1]|] eqn:Eb; [|discriminate].
    destruct (match split_last body with
              | Some (rest, SBreak e) => if v_guard g && negb (no_break_l rest) then None else Some (rest, e)
              | _ => None end) as [[rest e]|] eqn:Eonce.
    + assert (Hnr : no_break_l rest = true).
      { destruct (split_last body) as [[r l]|]; [|discriminate]. destruct l; try discriminate.
        rewrite Hg in Eonce. cbn [andb] in Eonce. destruct (no_break_l r) eqn:En; [|discriminate]. injection Eonce as <- _. exact En. }
      destruct (bind_inits _ c1) as [c2|]; [|discriminate].
      destruct (ccp_stmts g n rest c2) as [[[[o c3] b3] f2]|] eqn:Er; [|discriminate].
      destruct bc as [bn|]; [destruct (bind bn _ c3); [|discriminate]|]; injection H as <- _ _ _; exact (HG _ _ _ _ _ _ Hnr Er).
    + destruct (try_loop g (ccp_stmts g n) 5 _ body bc c1) as [[[[o c2] b2] f2]|] eqn:Et; [|discriminate].
      injection H as <- _ _ _. exact (try_loop_nb _ _ _ _ _ _ _ _ _ _ Et).
  - injection H as <- _ _ _; reflexivity.
  - injection H as <- _ _ _; reflexivity.
  - injection H as <- _ _ _; reflexivity.
Qed.

Lemma ccps_out_nb n : forall ss c out c' b f,
  no_break_l ss = true -> ccp_stmts g n ss c = Some (out, c', b, f) -> no_break_l out = true.
Proof.
  induction ss as [|s r IHr]; intros c0 out0 c0' b0 f0 Hn0 H0; unfold ccp_stmts in H0; cbn [ccp_go] in H0.
  - injection H0 as <- _ _ _. reflexivity.
  - cbn in Hn0. apply andb_prop in Hn0. destruct Hn0 as [Hn1 Hn2].
    destruct (ccp_stmt g n s c0) as [[[[o1 c1] b1] f1]|] eqn:E1; [|discriminate].
    pose proof (ccp_out_nb _ _ _ _ _ _ _ Hn1 E1) as N1. destruct b1; [injection H0 as <- _ _ _; exact N1|].
    destruct (ccp_go (ccp_stmt g n) r c1) as [[[[o2 c2] b2] f2]|] eqn:E2; [|discriminate].
    injection H0 as <- _ _ _. rewrite no_break_l_app, N1. eapply IHr; eauto.
Qed.

End CcpNoBreak.

Lemma ccp_gen_no_break g f f' fl : v_guard g = true ->
  no_break_l (f_body f) = true -> ccp_gen g f = Some (f', fl) -> no_break_l (f_body f') = true.
Proof.
  unfold ccp_gen. intros Hg Hn H.
  destruct (ccp_stmts g ccp_fuel (f_body f) cx0) as [[[[out c] b] f1]|] eqn:E; [|discriminate].
  injection H as <- _. cbn [f_body]. exact (ccps_out_nb g Hg _ _ _ _ _ _ _ Hn E).
Qed.
Lemma ccp_no_break f f' fl : no_break_l (f_body f) = true -> ccp f = Some (f', fl) -> no_break_l (f_body f') = true.
Proof. apply ccp_gen_no_break. reflexivity. Qed.
