(* C02deep — local value numbering preserves well-formedness: the representative a name is replaced by was
   defined in an enclosing block of the optimised code, so it is in scope wherever the name was. *)
From Coq Require Import ZArith NArith List Bool Lia.
Import ListNotations.
From SV Require Import Common.Int32 C02deep.Syntax C02deep.Sem C02deep.Passes C02deep.ProofsSem C02deep.ProofsScope
  C02deep.ProofsDceSets C02deep.ProofsDce C02deep.ProofsCcpRel C02deep.ProofsCcp C02deep.ProofsCcpFull C02deep.ProofsLvn.
Open Scope Z_scope.

(* T is the scope of the optimised code where S0 is the scope of the input *)
Definition lsc (vc : lvc) (bc : lbc) (S0 T : list name) : Prop :=
  (forall x, In x S0 -> In (lvn_var vc x) T) /\
  (forall u n, In (u, n) bc -> In n T /\ forall e y, In e (bexprs u) -> e = EVar y -> In y T).

Lemma lsc_mono vc bc S0 T T' : lsc vc bc S0 T -> incl' T T' -> lsc vc bc S0 T'.
Proof. intros [H1 H2] Hi. split; [auto|]. intros u n Hu. destruct (H2 u n Hu) as [A B]. split; eauto. Qed.
Lemma lsc_expr vc bc S0 T e : lsc vc bc S0 T -> in_scope S0 e = true -> in_scope T (lvn_expr vc e) = true.
Proof. intros [H _] Hs. destruct e; try reflexivity. cbn. apply in_scope_var. apply H. now apply in_scope_var. Qed.
Lemma lsc_fresh vc bc S0 T L : lsc vc bc S0 T -> (forall x, In x L -> assoc x vc = None) -> lsc vc bc (L ++ S0) (L ++ T).
Proof.
  intros [H1 H2] HL. split.
  - intros x Hx. apply in_app_or in Hx. apply in_or_app. destruct Hx as [Hx|Hx]; [|auto]. left. unfold lvn_var. now rewrite (HL x Hx).
  - intros u n Hu. destruct (H2 u n Hu) as [A B]. split; [apply in_or_app; auto|]. intros e y He Ey. apply in_or_app. eauto.
Qed.

Lemma olist_cons o r : (match o with Some st' => st' :: r | None => r end) = olist o ++ r.
Proof. destruct o; reflexivity. Qed.

Definition fresh (bs : list name) (vc : lvc) (S0 : list name) : Prop :=
  NoDup bs /\ forall x, In x bs -> assoc x vc = None /\ ~ In x S0.

Definition PLw (st : stmt) : Prop := forall vc bc S0 T o vc' bc',
  lvn_stmt st vc bc = (o, vc', bc') -> scoped S0 st = true -> lsc vc bc S0 T -> fresh (binders st) vc S0 ->
  scoped_l T (olist o) = true /\ lsc vc' bc' (defs st ++ S0) (defs_l (olist o) ++ T) /\
  (forall x, assoc x vc' <> None -> assoc x vc <> None \/ In x (binders st)) /\
  (forall x, In x (binders_l (olist o)) -> In x (binders st)) /\ NoDup (binders_l (olist o)).
Definition QLw (ss : list stmt) : Prop := forall vc bc S0 T out vc' bc',
  lvn_stmts ss vc bc = (out, vc', bc') -> scoped_l S0 ss = true -> lsc vc bc S0 T -> fresh (binders_l ss) vc S0 ->
  scoped_l T out = true /\ lsc vc' bc' (defs_l ss ++ S0) (defs_l out ++ T) /\
  (forall x, assoc x vc' <> None -> assoc x vc <> None \/ In x (binders_l ss)) /\
  (forall x, In x (binders_l out) -> In x (binders_l ss)) /\ NoDup (binders_l out).

(* the value-numbered statement forms *)
Lemma number_w x v keep vc bc S0 T o vc' bc' :
  lvn_number x v keep vc bc = (o, vc', bc') -> lsc vc bc S0 T -> assoc x vc = None -> ~ In x S0 ->
  defs keep = [x] -> binders keep = [x] -> scoped T keep = true ->
  (forall e y, In e (bexprs v) -> e = EVar y -> In y T) ->
  scoped_l T (olist o) = true /\ lsc vc' bc' (x :: S0) (defs_l (olist o) ++ T) /\
  (forall y, assoc y vc' <> None -> assoc y vc <> None \/ In y [x]) /\
  (forall y, In y (binders_l (olist o)) -> In y [x]) /\ NoDup (binders_l (olist o)).
Proof.
  unfold lvn_number. intros H [L1 L2] Hx HxS Hd Hb Hk Hv. destruct (bassoc v bc) as [b|] eqn:Eb.
  - injection H as <- <- <-. cbn [olist scoped_l defs_l binders_l app]. split; [reflexivity|].
    destruct (bassoc_In _ _ _ Eb) as [u [Hu _]]. destruct (L2 u b Hu) as [HbT _].
    unfold lvn_bind_var. rewrite Hx. split; [split|split; [|split; [intros y []|constructor]]].
    + intros y [<-|Hy]; unfold lvn_var; cbn; [now rewrite N.eqb_refl|].
      destruct (N.eqb_spec y x) as [->|]; [contradiction|]. apply L1. exact Hy.
    + exact L2.
    + intros y. cbn. destruct (N.eqb_spec y x) as [->|]; [right; left; reflexivity | auto].
  - injection H as <- <- <-. cbn [olist scoped_l defs_l binders_l]. rewrite Hk, Hd, Hb, app_nil_r. cbn [app].
    split; [reflexivity|]. split; [split|split; [auto|split; [auto|repeat constructor; intros []]]].
    + intros y [<-|Hy]; [left; unfold lvn_var; now rewrite Hx | right; auto].
    + intros u n [[= <- <-]|Hu].
      * split; [left; reflexivity|]. intros e y He Ey. right. eauto.
      * destruct (L2 u n Hu) as [A B]. split; [right; exact A|]. intros e y He Ey. right. eauto.
Qed.

Lemma PLw_SBin x op e1 e2 : PLw (SBin x op e1 e2).
Proof.
  intros vc bc S0 T o vc' bc' H Hsc HL (Hnd & Hfr). cbn [lvn_stmt] in H. cbn in Hsc. apply andb_prop in Hsc. destruct Hsc as [A B].
  destruct (Hfr x (or_introl eq_refl)) as [Hx HxS].
  apply (number_w x _ _ vc bc S0 T o vc' bc' H HL Hx HxS); try reflexivity.
  - cbn. now rewrite (lsc_expr vc bc S0 T e1 HL A), (lsc_expr vc bc S0 T e2 HL B).
  - intros e y [<-|[<-|[]]] Ey; apply in_scope_var; rewrite <- Ey; eapply lsc_expr; eauto.
Qed.
Lemma PLw_SNot x e : PLw (SNot x e).
Proof.
  intros vc bc S0 T o vc' bc' H Hsc HL (Hnd & Hfr). cbn [lvn_stmt] in H. cbn in Hsc.
  destruct (Hfr x (or_introl eq_refl)) as [Hx HxS].
  apply (number_w x _ _ vc bc S0 T o vc' bc' H HL Hx HxS); try reflexivity.
  - cbn. eapply lsc_expr; eauto.
  - intros e' y [<-|[]] Ey; apply in_scope_var; rewrite <- Ey; eapply lsc_expr; eauto.
Qed.
Lemma PLw_SPrim x p e : PLw (SPrim x p e).
Proof.
  intros vc bc S0 T o vc' bc' H Hsc HL (Hnd & Hfr). cbn [lvn_stmt] in H. cbn in Hsc.
  destruct (Hfr x (or_introl eq_refl)) as [Hx HxS].
  assert (Hk : in_scope T (lvn_expr vc e) = true) by (eapply lsc_expr; eauto).
  assert (Hnum : forall o vc' bc', lvn_number x (BVPrim p (lvn_expr vc e)) (SPrim x p (lvn_expr vc e)) vc bc = (o, vc', bc') ->
                 scoped_l T (olist o) = true /\ lsc vc' bc' (defs (SPrim x p e) ++ S0) (defs_l (olist o) ++ T) /\
                 (forall y, assoc y vc' <> None -> assoc y vc <> None \/ In y (binders (SPrim x p e))) /\
                 (forall y, In y (binders_l (olist o)) -> In y (binders (SPrim x p e))) /\ NoDup (binders_l (olist o))).
  { intros o0 vc0 bc0 H0. apply (number_w x _ _ vc bc S0 T o0 vc0 bc0 H0 HL Hx HxS); try reflexivity; [exact Hk|].
    intros e' y [<-|[]] Ey; apply in_scope_var; rewrite <- Ey; exact Hk. }
  destruct p; try (apply Hnum; exact H).
  injection H as <- <- <-. cbn [olist scoped_l scoped defs_l defs binders_l binders app]. rewrite Hk. cbn [andb].
  destruct HL as [L1 L2]. split; [reflexivity|]. split; [split|split; [auto|split; [auto|repeat constructor; intros []]]].
  - intros y [<-|Hy]; [left; unfold lvn_var; now rewrite Hx | right; auto].
  - intros u n Hu. destruct (L2 u n Hu) as [A B]. split; [right; exact A|]. intros e' y He Ey. right. eauto.
Qed.
Lemma PLw_SCall f args ret : PLw (SCall f args ret).
Proof.
  intros vc bc S0 T o vc' bc' H Hsc HL (Hnd & Hfr). cbn [lvn_stmt] in H. injection H as <- <- <-. cbn in Hsc.
  cbn [olist scoped_l scoped defs_l defs binders_l binders app]. rewrite app_nil_r.
  split; [|split; [|split; [auto|split; [auto|exact Hnd]]]].
  - rewrite andb_true_r. rewrite forallb_forall in *. intros e He. apply in_map_iff in He. destruct He as [e0 [<- He0]].
    eapply lsc_expr; eauto.
  - apply lsc_fresh; auto. intros x Hx. apply Hfr. exact Hx.
Qed.
Lemma PLw_SStruct x tn es : PLw (SStruct x tn es).
Proof.
  intros vc bc S0 T o vc' bc' H Hsc HL (Hnd & Hfr). cbn [lvn_stmt] in H. injection H as <- <- <-. cbn in Hsc.
  destruct (Hfr x (or_introl eq_refl)) as [Hx HxS].
  cbn [olist scoped_l scoped defs_l defs binders_l binders app].
  split; [|split; [|split; [auto|split; [auto|repeat constructor; intros []]]]].
  - rewrite andb_true_r. rewrite forallb_forall in *. intros e He. apply in_map_iff in He. destruct He as [e0 [<- He0]].
    eapply lsc_expr; eauto.
  - apply (lsc_fresh vc bc S0 T [x] HL). intros y [<-|[]]. exact Hx.
Qed.
Lemma PLw_SLateDecl x : PLw (SLateDecl x).
Proof. intros vc bc S0 T o vc' bc' _ Hsc. discriminate Hsc. Qed.
Lemma PLw_SLateAssign x e : PLw (SLateAssign x e).
Proof. intros vc bc S0 T o vc' bc' _ Hsc. discriminate Hsc. Qed.
Lemma PLw_SBreak e : PLw (SBreak e).
Proof.
  intros vc bc S0 T o vc' bc' H Hsc HL (Hnd & Hfr). cbn [lvn_stmt] in H. injection H as <- <- <-. cbn in Hsc.
  cbn [olist scoped_l scoped defs_l defs binders_l binders app].
  split; [rewrite andb_true_r; eapply lsc_expr; eauto|]. split; [exact HL|]. split; [auto|]. split; [auto|constructor].
Qed.

Lemma QLw_nil : QLw [].
Proof.
  intros vc bc S0 T out vc' bc' H _ HL _. cbn in H. injection H as <- <- <-. cbn.
  split; [reflexivity|]. split; [exact HL|]. split; [auto|]. split; [auto|constructor].
Qed.
Lemma QLw_cons st r : PLw st -> QLw r -> QLw (st :: r).
Proof.
  intros Hs Hr vc bc S0 T out vc' bc' H Hsc HL (Hnd & Hfr). cbn [lvn_stmts] in H.
  cbn [scoped_l] in Hsc. apply andb_prop in Hsc. destruct Hsc as [Hsc1 Hsc2]. cbn [binders_l defs_l] in *.
  destruct (lvn_stmt st vc bc) as [[o vc1] bc1] eqn:E1. destruct (lvn_stmts r vc1 bc1) as [[r' vc2] bc2] eqn:E2.
  injection H as <- <- <-.
  assert (Hf1 : fresh (binders st) vc S0).
  { split; [eapply NoDup_app_l; eauto|]. intros x Hx. apply Hfr. apply in_or_app. auto. }
  destruct (Hs vc bc S0 T o vc1 bc1 E1 Hsc1 HL Hf1) as (A1 & A2 & A3 & A4 & A5).
  assert (Hf2 : fresh (binders_l r) vc1 (defs st ++ S0)).
  { split; [eapply NoDup_app_r; eauto|]. intros x Hx. destruct (Hfr x (in_or_app _ _ _ (or_intror Hx))) as [F1 F2]. split.
    - destruct (assoc x vc1) eqn:Ea; [|reflexivity]. exfalso. destruct (A3 x) as [C|C]; [congruence | congruence |].
      eapply (NoDup_app_disj _ _ x Hnd); eauto.
    - rewrite in_app_iff. intros [Hd|Hd]; [|contradiction]. apply defs_in_binders in Hd. eapply (NoDup_app_disj _ _ x Hnd); eauto. }
  destruct (Hr vc1 bc1 (defs st ++ S0) (defs_l (olist o) ++ T) r' vc2 bc2 E2 Hsc2 A2 Hf2) as (B1 & B2 & B3 & B4 & B5).
  rewrite olist_cons. split; [|split; [|split; [|split]]].
  - rewrite scoped_l_app, A1, B1. reflexivity.
  - rewrite defs_l_app, <- !app_assoc. exact B2.
  - intros x Hx. destruct (B3 x Hx) as [C|C]; [|right; apply in_or_app; auto].
    destruct (A3 x C) as [C'|C']; [auto | right; apply in_or_app; auto].
  - intros x. rewrite binders_l_app, !in_app_iff. intros [Hx|Hx]; auto.
  - rewrite binders_l_app. apply NoDup_app_intro; auto. intros x H1 H2. eapply (NoDup_app_disj _ _ x Hnd); eauto.
Qed.

Lemma PLw_SSIf c inv ss : QLw ss -> PLw (SSIf c inv ss).
Proof.
  intros HQ vc bc S0 T o vc' bc' H Hsc HL (Hnd & Hfr). rewrite lvn_SSIf in H. cbn zeta in H.
  rewrite scoped_SSIf in Hsc. apply andb_prop in Hsc. destruct Hsc as [Hc Hsc]. rewrite binders_SSIf in *.
  destruct (lvn_stmts ss vc bc) as [[ss' vc1] bc1] eqn:E. injection H as <- <- <-.
  destruct (HQ vc bc S0 T ss' vc1 bc1 E Hsc HL (conj Hnd Hfr)) as (A1 & _ & _ & A4 & A5).
  cbn [olist scoped_l defs_l defs binders_l app]. rewrite scoped_SSIf, binders_SSIf, A1, (lsc_expr vc bc S0 T c HL Hc), app_nil_r.
  split; [reflexivity|]. split; [exact HL|]. split; [auto|]. split; [exact A4 | exact A5].
Qed.

Lemma PLw_SIf c s1 s2 fas : QLw s1 -> QLw s2 -> PLw (SIf c s1 s2 fas).
Proof.
  intros HQ1 HQ2 vc bc S0 T o vc' bc' H Hsc HL (Hnd & Hfr). rewrite lvn_SIf in H. cbn zeta in H.
  rewrite scoped_SIf in Hsc. apply andb_prop in Hsc. destruct Hsc as [Hsc Hf].
  apply andb_prop in Hsc. destruct Hsc as [Hsc Hs2]. apply andb_prop in Hsc. destruct Hsc as [Hc Hs1].
  rewrite forallb_forall in Hf. rewrite binders_SIf in *.
  destruct (lvn_stmts s1 vc bc) as [[s1' vc1] bc1] eqn:E1. destruct (lvn_stmts s2 vc bc) as [[s2' vc2] bc2] eqn:E2.
  injection H as <- <- <-.
  assert (Hf1 : fresh (binders_l s1) vc S0).
  { split; [eapply NoDup_app_l; eauto|]. intros x Hx. apply Hfr. rewrite !in_app_iff. auto. }
  assert (Hf2 : fresh (binders_l s2) vc S0).
  { split; [eapply NoDup_app_l, NoDup_app_r; eauto|]. intros x Hx. apply Hfr. rewrite !in_app_iff. auto. }
  destruct (HQ1 vc bc S0 T s1' vc1 bc1 E1 Hs1 HL Hf1) as (A1 & A2 & _ & A4 & A5).
  destruct (HQ2 vc bc S0 T s2' vc2 bc2 E2 Hs2 HL Hf2) as (B1 & B2 & _ & B4 & B5).
  set (fas' := map (fun t => (t_name t, lvn_expr vc1 (t_e1 t), lvn_expr vc2 (t_e2 t))) fas).
  assert (En : map t_name fas' = map t_name fas) by (unfold fas'; rewrite map_map; reflexivity).
  cbn [olist scoped_l defs_l defs binders_l app]. rewrite scoped_SIf, binders_SIf, A1, B1, (lsc_expr vc bc S0 T c HL Hc), En, !app_nil_r.
  split; [|split; [|split; [auto|split]]].
  - cbn [andb]. rewrite andb_true_r. rewrite forallb_forall. intros t Ht. apply in_map_iff in Ht. destruct Ht as [t0 [<- Ht0]]. cbn.
    specialize (Hf t0 Ht0). apply andb_prop in Hf. destruct Hf as [F1 F2].
    now rewrite (lsc_expr vc1 bc1 _ _ (t_e1 t0) A2 F1), (lsc_expr vc2 bc2 _ _ (t_e2 t0) B2 F2).
  - apply lsc_fresh; auto. intros x Hx. apply Hfr. rewrite !in_app_iff. auto.
  - intros x. rewrite !in_app_iff. intros [Hx|[Hx|Hx]]; auto.
  - apply NoDup_app_intro; [exact A5 | |].
    + apply NoDup_app_intro; [exact B5 | eapply NoDup_app_r, NoDup_app_r; eauto |].
      intros x H1 H2. apply NoDup_app_r in Hnd. eapply (NoDup_app_disj _ _ x Hnd); eauto.
    + intros x H1 H2. eapply (NoDup_app_disj _ _ x Hnd); eauto. rewrite in_app_iff in *. destruct H2; auto.
Qed.

Lemma PLw_SWhile lvs ss bcol : QLw ss -> PLw (SWhile lvs ss bcol).
Proof.
  intros HQ vc bc S0 T o vc' bc' H Hsc HL (Hnd & Hfr). rewrite lvn_SWhile in H.
  rewrite scoped_SWhile in Hsc. apply andb_prop in Hsc. destruct Hsc as [Hsc Hl2].
  apply andb_prop in Hsc. destruct Hsc as [Hl1 Hs]. rewrite forallb_forall in Hl1, Hl2. rewrite binders_SWhile in *.
  set (LN := map t_name lvs) in *.
  destruct (lvn_stmts ss vc bc) as [[ss' vc1] bc1] eqn:E. injection H as <- <- <-.
  assert (HLb : lsc vc bc (LN ++ S0) (LN ++ T)).
  { apply lsc_fresh; auto. intros x Hx. apply Hfr. rewrite !in_app_iff. auto. }
  assert (Hfb : fresh (binders_l ss) vc (LN ++ S0)).
  { split; [eapply NoDup_app_l, NoDup_app_r; eauto|]. intros x Hx. destruct (Hfr x) as [F1 F2]; [rewrite !in_app_iff; auto|].
    split; [exact F1|]. rewrite in_app_iff. intros [Hl|Hl]; [|contradiction].
    eapply (NoDup_app_disj _ _ x Hnd); eauto. rewrite in_app_iff. auto. }
  destruct (HQ vc bc (LN ++ S0) (LN ++ T) ss' vc1 bc1 E Hs HLb Hfb) as (A1 & A2 & _ & A4 & A5).
  set (lvs' := map (fun t => (t_name t, lvn_expr vc (t_e1 t), lvn_expr vc1 (t_e2 t))) lvs).
  assert (En : map t_name lvs' = LN) by (unfold lvs'; rewrite map_map; reflexivity).
  cbn [olist scoped_l defs_l defs binders_l app]. rewrite scoped_SWhile, binders_SWhile, En, A1, !app_nil_r.
  split; [|split; [|split; [auto|split]]].
  - rewrite !andb_true_r. apply andb_true_intro. split.
    + rewrite forallb_forall. intros t Ht. apply in_map_iff in Ht. destruct Ht as [t0 [<- Ht0]]. cbn. eapply lsc_expr; eauto.
    + rewrite forallb_forall. intros t Ht. apply in_map_iff in Ht. destruct Ht as [t0 [<- Ht0]]. cbn.
      eapply (lsc_expr vc1 bc1); eauto.
  - apply lsc_fresh; auto. intros x Hx. apply Hfr. rewrite !in_app_iff. auto.
  - intros x. rewrite !in_app_iff. intros [Hx|[Hx|Hx]]; auto.
  - apply NoDup_app_intro; [eapply NoDup_app_l; eauto | |].
    + apply NoDup_app_intro; [exact A5 | eapply NoDup_app_r, NoDup_app_r; eauto |].
      intros x H1 H2. apply NoDup_app_r in Hnd. eapply (NoDup_app_disj _ _ x Hnd); eauto.
    + intros x H1 H2. eapply (NoDup_app_disj _ _ x Hnd); eauto. rewrite in_app_iff in *. destruct H2; auto.
Qed.

Theorem lvn_wf_all : (forall st, PLw st) /\ (forall ss, QLw ss).
Proof.
  apply stmt_stmts_ind2.
  - exact PLw_SBin.
  - exact PLw_SNot.
  - exact PLw_SPrim.
  - exact PLw_SCall.
  - exact PLw_SIf.
  - exact PLw_SSIf.
  - exact PLw_SBreak.
  - exact PLw_SWhile.
  - exact PLw_SStruct.
  - exact PLw_SLateDecl.
  - exact PLw_SLateAssign.
  - exact QLw_nil.
  - exact QLw_cons.
Qed.

Theorem lvn_wf f : wf_func f = true -> wf_func (lvn f) = true.
Proof.
  unfold wf_func at 1. intros H. apply andb_prop in H. destruct H as [H Hret]. apply andb_prop in H. destruct H as [Hnd Hsc].
  apply nodupb_NoDup in Hnd. destruct lvn_wf_all as [_ HQ]. unfold lvn.
  destruct (lvn_stmts (f_body f) [] []) as [[body vc] bc] eqn:E.
  assert (HL0 : lsc [] [] (f_params f) (f_params f)) by (split; [intros x Hx; exact Hx | intros u n []]).
  assert (Hf0 : fresh (binders_l (f_body f)) [] (f_params f)).
  { split; [eapply NoDup_app_r; eauto|]. intros x Hx. split; [reflexivity|]. intros Hp. eapply (NoDup_app_disj _ _ x Hnd); eauto. }
  destruct (HQ (f_body f) [] [] (f_params f) (f_params f) body vc bc E Hsc HL0 Hf0) as (A1 & A2 & _ & A4 & A5).
  unfold wf_func. cbn [f_params f_body f_ret]. rewrite A1, andb_true_r. apply andb_true_intro. split.
  - apply NoDup_nodupb. apply NoDup_app_intro; [eapply NoDup_app_l; eauto | exact A5 |].
    intros x Hp Hb. apply A4 in Hb. eapply (NoDup_app_disj _ _ x Hnd); eauto.
  - eapply lsc_expr; eauto.
Qed.

Lemma lvn_binders f : wf_func f = true ->
  f_params (lvn f) = f_params f /\ incl' (binders_l (f_body (lvn f))) (binders_l (f_body f)).
Proof.
  unfold wf_func. intros H. apply andb_prop in H. destruct H as [H Hret]. apply andb_prop in H. destruct H as [Hnd Hsc].
  apply nodupb_NoDup in Hnd. destruct lvn_wf_all as [_ HQ]. unfold lvn.
  destruct (lvn_stmts (f_body f) [] []) as [[body vc] bc] eqn:E.
  assert (HL0 : lsc [] [] (f_params f) (f_params f)) by (split; [intros x Hx; exact Hx | intros u n []]).
  assert (Hf0 : fresh (binders_l (f_body f)) [] (f_params f)).
  { split; [eapply NoDup_app_r; eauto|]. intros x Hx. split; [reflexivity|]. intros Hp. eapply (NoDup_app_disj _ _ x Hnd); eauto. }
  destruct (HQ (f_body f) [] [] (f_params f) (f_params f) body vc bc E Hsc HL0 Hf0) as (_ & _ & _ & A4 & _).
  split; [reflexivity | exact A4].
Qed.

Lemma lvn_no_break_both :
  (forall st vc bc, no_break st = true -> no_break_l (olist (fst (fst (lvn_stmt st vc bc)))) = true) /\
  (forall ss vc bc, no_break_l ss = true -> no_break_l (fst (fst (lvn_stmts ss vc bc))) = true).
Proof.
  apply stmt_stmts_ind2.
  - intros x op e1 e2 vc bc _. cbn [lvn_stmt]. unfold lvn_number. destruct (bassoc _ bc); reflexivity.
  - intros x e vc bc _. cbn [lvn_stmt]. unfold lvn_number. destruct (bassoc _ bc); reflexivity.
  - intros x p e vc bc _. cbn [lvn_stmt]. unfold lvn_number. destruct p; try reflexivity; destruct (bassoc _ bc); reflexivity.
  - reflexivity.
  - intros c s1 s2 fas H1 H2 vc bc Hn. change (no_break (SIf c s1 s2 fas)) with (no_break_l s1 && no_break_l s2) in Hn.
    apply andb_prop in Hn. destruct Hn as [N1 N2]. rewrite lvn_SIf. cbn zeta.
    specialize (H1 vc bc N1). specialize (H2 vc bc N2).
    destruct (lvn_stmts s1 vc bc) as [[s1' vc1] bc1]. destruct (lvn_stmts s2 vc bc) as [[s2' vc2] bc2]. cbn [fst olist no_break_l] in *.
    rewrite andb_true_r. change (no_break_l s1' && no_break_l s2' = true). now rewrite H1, H2.
  - intros c inv ss H vc bc Hn. change (no_break (SSIf c inv ss)) with (no_break_l ss) in Hn. rewrite lvn_SSIf. cbn zeta.
    specialize (H vc bc Hn). destruct (lvn_stmts ss vc bc) as [[ss' vc1] bc1]. cbn [fst olist no_break_l] in *.
    rewrite andb_true_r. exact H.
  - discriminate.
  - intros lvs ss bcol _ vc bc _. rewrite lvn_SWhile. destruct (lvn_stmts ss vc bc) as [[ss' vc1] bc1]. reflexivity.
  - reflexivity.
  - reflexivity.
  - reflexivity.
  - reflexivity.
  - intros st r Hs Hr vc bc Hn. cbn in Hn. apply andb_prop in Hn. destruct Hn as [N1 N2]. cbn [lvn_stmts].
    specialize (Hs vc bc N1). destruct (lvn_stmt st vc bc) as [[o vc1] bc1]. specialize (Hr vc1 bc1 N2).
    destruct (lvn_stmts r vc1 bc1) as [[r' vc2] bc2]. cbn [fst] in *. destruct o as [st'|]; cbn in *; [|exact Hr].
    rewrite andb_true_r in Hs. now rewrite Hs, Hr.
Qed.
Lemma lvn_no_break f : no_break_l (f_body f) = true -> no_break_l (f_body (lvn f)) = true.
Proof.
  intros H. unfold lvn. pose proof (proj2 lvn_no_break_both (f_body f) [] [] H) as Hn.
  destruct (lvn_stmts (f_body f) [] []) as [[body vc] bc]. exact Hn.
Qed.
