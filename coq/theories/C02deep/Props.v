(* C02deep — property theorems: whole optimizer passes preserve the semantics of every well-formed
   function of the MIR fragment (Syntax.v / Sem.v).  Models in Passes.v mirror the Rust code. *)
From Coq Require Import ZArith NArith List Bool.
Import ListNotations.
From SV Require Import Common.Int32 C02deep.Syntax C02deep.Sem C02deep.SemStruct C02deep.Passes C02deep.ProofsSem C02deep.ProofsDce
  C02deep.ProofsCcp C02deep.ProofsCcpFull C02deep.ProofsCcpWitness C02deep.ProofsLvn C02deep.ProofsWf C02deep.ProofsWfLvn
  C02deep.ProofsCseStatic C02deep.ProofsCse C02deep.ProofsPipeline.
Open Scope Z_scope.

(* ---- the semantics ---- *)
(* renaming variables injectively does not change the behaviour of a function (DESIGN C02 item 9) *)
Theorem C02deep_alpha_invariance : forall (r : name -> name), (forall x y, r x = r y -> x = y) ->
  forall strict w fuel f args, sem strict w (ren_func r f) args fuel = sem strict w f args fuel.
Proof. exact alpha_invariance. Qed.

(* a run that is Done under the overflow-detecting semantics is the same run on the wrapping target *)
Theorem C02deep_strict_done_wrapping : forall w f args fuel v tr,
  sem All w f args fuel = Done v tr -> sem Wrap w f args fuel = Done v tr.
Proof. exact strict_done_wrapping. Qed.

(* ---- dead code elimination (dead_code_elimination.rs), DESIGN C02 items 8 and 10 ---- *)
(* exact preservation on the target semantics: same value, same calls, same trap (DIV / MOD are kept),
   same fuel; nothing is claimed only for ill-typed runs that get Stuck *)
Theorem C02deep_dce_preserves : forall w f args fuel,
  wf_func f = true -> same_unless_stuck (sem Wrap w (dce f) args fuel) (sem Wrap w f args fuel).
Proof. exact dce_preserves. Qed.
(* in the form of the property: every run that is not excluded is reproduced *)
Theorem C02deep_dce_refines : forall w f, wf_func f = true -> refines w (dce f) f.
Proof. exact dce_refines. Qed.

(* non-vacuity: a well-formed function with a loop, a call, a dead statement, a dead loop variable and a
   division whose result is dead: DCE removes the dead parts, keeps the division, and both versions run *)
Definition ex_dce : func :=
  mkfunc [1%N; 2%N]
    [SBin 3%N PLUS (EVar 1%N) (EInt 1);                        (* dead *)
     SBin 4%N DIV (EVar 1%N) (EVar 2%N);                       (* dead but may trap: kept *)
     SWhile [(5%N, EVar 1%N, EVar 8%N); (6%N, EInt 0, EVar 5%N)]
       [SBin 7%N GE (EVar 5%N) (EInt 3);
        SSIf (EVar 7%N) false [SBreak (EVar 5%N)];
        SCall 9%N [EVar 5%N] (Some 10%N);
        SBin 8%N PLUS (EVar 5%N) (EInt 1)]
       (Some 11%N)]
    (EVar 11%N).
Definition ex_world : world := mkworld (fun _ _ _ => Some 0) (fun _ => 0) (fun _ => 0) (fun _ v => v) (fun _ _ => 0).
Example C02deep_dce_nonvacuous :
  wf_func ex_dce = true /\
  dce ex_dce =
    mkfunc [1%N; 2%N]
      [SBin 4%N DIV (EVar 1%N) (EVar 2%N);
       SWhile [(5%N, EVar 1%N, EVar 8%N)]
         [SBin 7%N GE (EVar 5%N) (EInt 3);
          SSIf (EVar 7%N) false [SBreak (EVar 5%N)];
          SCall 9%N [EVar 5%N] None;
          SBin 8%N PLUS (EVar 5%N) (EInt 1)]
         (Some 11%N)]
      (EVar 11%N) /\
  sem Wrap ex_world ex_dce [1; 2] 10 = Done 3 [(9%N, [2]); (9%N, [1])] /\
  sem Wrap ex_world (dce ex_dce) [1; 2] 10 = Done 3 [(9%N, [2]); (9%N, [1])] /\
  sem Wrap ex_world ex_dce [1; 0] 10 = Trap [] /\
  sem Wrap ex_world (dce ex_dce) [1; 0] 10 = Trap [].
Proof. vm_compute. repeat split. Qed.

(* ---- conditional constant propagation (conditional_constant_propagation.rs) ---- *)
(* The pass as it is now, including the two rewrites of the While case that RE-OPTIMISE already optimised
   statements (the loop whose body ends in its only break is replaced by one iteration;
   try_optimize_loop_for_some_iterations evaluates iterations whose outcome is known).
   `ccp f = None` models a Rust panic (checked_bind on a bound name) or the recursion bound of the model.
   The one hypothesis next to well-formedness, `no_dead_final_operands f` (Passes.v, decidable, evaluated and
   counted by the check for every function it sees), is about UNREACHABLE code only.  It excludes the two
   situations in which the pass leaves, after an unconditional Break, an operand that names a statement it
   has dropped, so that its output is not well scoped any more:
     Passes.dead_loop_values: a loop that is kept and still has loop variables, whose optimised body now
       always ends in a Break: the loop values (never evaluated) may name statements after that Break;
     Passes.dead_final_assignments: an if-else with final assignments one optimised branch of which now
       always ends in a Break: that branch's side of the final assignments (never read) likewise.
   Known finding (not repaired: behaviour is unaffected, the emitted code stays syntactically valid): the
   emitted TypeScript then mentions a name that is declared nowhere, in dead code.
   `no_struct_forwarding f` (Passes.v, decidable, counted by the check): the pass also replaces the load of a field
   of a struct that was made in the same function by the field expression (index_access_cx); the theorem is proved
   for the pass without this replacement (Passes.ccp_nf) and the hypothesis says that the two agree on f.  It holds
   for every function that does not read a field of a struct it has made itself - all functions before inlining. *)
Theorem C02deep_ccp_preserves : forall w f f' fl,
  wf_func f = true -> no_dead_final_operands f -> no_struct_forwarding f -> ccp f = Some (f', fl) -> refines w f' f.
Proof. exact ccp_preserves_named. Qed.
(* ... and then the output is well formed again, so that the next pass / round may rely on its own theorem *)
Theorem C02deep_ccp_wf : forall f f' fl,
  wf_func f = true -> no_break_l (f_body f) = true -> no_dead_final_operands f -> no_struct_forwarding f ->
  ccp f = Some (f', fl) -> wf_func f' = true.
Proof. exact ccp_wf_named. Qed.
(* the excluded situation exists, is flagged, is ill scoped, and is harmless *)
Theorem C02deep_ccp_dead_code_ill_scoped_witness :
  exists f f' fl, wf_func f = true /\ no_break_l (f_body f) = true /\ ccp f = Some (f', fl) /\
                  dead_final_operands f = true /\ wf_func f' = false /\
                  f_body f' = [SWhile [(3%N, EVar 1%N, EVar 8%N); (4%N, EVar 2%N, EVar 4%N)]
                                 [SBin 5%N LT (EVar 4%N) (EVar 3%N); SSIf (EVar 5%N) false [SBreak (EInt 1)]; SBreak (EInt 2)]
                                 (Some 7%N)] /\
                  sem Add wit_world f [5; 3] 10 = Done 1 [] /\ sem Add wit_world f' [5; 3] 10 = Done 1 [] /\
                  sem Add wit_world f [1; 3] 10 = Done 2 [] /\ sem Add wit_world f' [1; 3] 10 = Done 2 [].
Proof. exact ccp_dead_code_ill_scoped_witness. Qed.

(* the pass as it was before the repairs that followed three findings of this check was wrong: *)
(* before 6cdc437: "the loop runs once" re-emitted a conditional Break outside of the loop *)
Theorem C02deep_ccp_old_refuted :
  exists f f' fl, wf_func f = true /\ ccp_old f = Some (f', fl) /\ snd fl = true /\ ~ refines wit_world f' f.
Proof. exact ccp_old_refuted. Qed.
Theorem C02deep_ccp_repaired_on_old_witness :
  exists f' fl, ccp wit_loop_once = Some (f', fl) /\ snd fl = false /\
                sem Wrap wit_world f' [5; 3] 10 = Done 1 [] /\ sem Wrap wit_world f' [1; 3] 10 = Done 2 [].
Proof. exact ccp_new_on_old_witness. Qed.
(* before fef18b5: an unchanging loop variable was bound to its raw initial value *)
Theorem C02deep_ccp_old2_refuted :
  exists f f' fl, wf_func f = true /\ ccp_old2 f = Some (f', fl) /\ ~ refines wit_world f' f.
Proof. exact ccp_old2_refuted. Qed.
Theorem C02deep_ccp_repaired_on_old2_witness :
  exists f' fl, ccp wit_raw_init = Some (f', fl) /\ fl = (false, false) /\ sem Wrap wit_world f' [0] 10 = Done 3 [].
Proof. exact ccp_new_on_old2_witness. Qed.
(* after 8c7c465 (checked merge of constants; the old kernel is refuted in C02/Props.v): two rounds are fine *)
Theorem C02deep_ccp_two_rounds_witness :
  exists f1 f2, ccp wit_two_rounds = Some (f1, (false, false)) /\ ccp f1 = Some (f2, (false, false)) /\
                sem All wit_world wit_two_rounds [-5] 10 = Done 0 [] /\ sem Wrap wit_world f2 [-5] 10 = Done 0 [].
Proof. exact ccp_two_rounds_now. Qed.

(* non-vacuity: folding, x + 0, x * 1, x - x, an if-else with a constant condition, operand reordering,
   merging (x + 1) + 2 and (x + 1) < 8, a final assignment that is the same on both sides, inside a loop
   that is kept: the hypotheses hold, the flag is false, the function changes, both versions run *)
Definition ex_ccp : func :=
  mkfunc [1%N]
    [SBin 2%N PLUS (EInt 2) (EInt 3);
     SBin 3%N MUL (EVar 1%N) (EInt 1);
     SBin 4%N MINUS (EVar 3%N) (EVar 3%N);
     SIf (EVar 4%N) [SCall 7%N [EVar 2%N] None] [SBin 5%N PLUS (EVar 1%N) (EVar 2%N)] [(6%N, EInt 9, EVar 5%N)];
     SWhile [(10%N, EVar 1%N, EVar 16%N)]
       [SBin 11%N PLUS (EVar 10%N) (EInt 1);
        SBin 12%N PLUS (EVar 11%N) (EInt 2);
        SBin 13%N LT (EVar 11%N) (EInt 8);
        SSIf (EVar 13%N) true [SBreak (EVar 6%N)];
        SIf (EVar 13%N) [] [] [(14%N, EVar 2%N, EInt 5)];
        SCall 8%N [EVar 14%N; EVar 12%N] (Some 15%N);
        SBin 16%N PLUS (EInt 1) (EVar 10%N)]
       (Some 17%N)]
    (EVar 17%N).
Example C02deep_ccp_nonvacuous :
  wf_func ex_ccp = true /\
  ccp ex_ccp = Some
    (mkfunc [1%N]
       [SBin 5%N PLUS (EVar 1%N) (EInt 5);
        SWhile [(10%N, EVar 1%N, EVar 16%N)]
          [SBin 11%N PLUS (EVar 10%N) (EInt 1);
           SBin 12%N PLUS (EVar 10%N) (EInt 3);
           SBin 13%N LT (EVar 10%N) (EInt 7);
           SSIf (EVar 13%N) true [SBreak (EVar 5%N)];
           SCall 8%N [EInt 5; EVar 12%N] (Some 15%N);
           SBin 16%N PLUS (EVar 10%N) (EInt 1)]
          (Some 17%N)]
       (EVar 17%N), (false, false)) /\
  sem All ex_world ex_ccp [4] 10 = Done 9 [(8%N, [5; 9]); (8%N, [5; 8]); (8%N, [5; 7])].
Proof. vm_compute. repeat split. Qed.

(* ---- rounds compose ----
   `refines` (no overflow at all in the input run, wrapping output run) does not compose: the output of a pass
   may overflow where its input did not (merged multiplications; before fix 8c7c465 also merged additions -
   finding C02-merged-constants-wrap-then-compare was exactly a second round trusting the first).  What the
   passes preserve, and what the next round needs, is freedom from overflow in + and - (mode Add):
   refines_add is transitive, follows from the input being overflow-free, and implies `refines`. *)
Theorem C02deep_sem_weaken : forall m m' w f args fuel v tr,
  mode_le m m' -> sem m' w f args fuel = Done v tr -> sem m w f args fuel = Done v tr.
Proof. exact sem_weaken. Qed.
Theorem C02deep_refines_add_trans : forall w f1 f2 f3,
  refines_add w f2 f1 -> refines_add w f3 f2 -> refines_add w f3 f1.
Proof. exact refines_add_trans. Qed.
Theorem C02deep_refines_add_refines : forall w f' f, refines_add w f' f -> refines w f' f.
Proof. exact refines_add_refines. Qed.

Theorem C02deep_dce_preserves_mode : forall m w f args fuel v tr,
  wf_func f = true -> sem m w f args fuel = Done v tr -> sem m w (dce f) args fuel = Done v tr.
Proof. exact dce_preserves_mode. Qed.
Theorem C02deep_ccp_preserves_add : forall w f f' fl,
  wf_func f = true -> no_dead_final_operands f -> no_struct_forwarding f -> ccp f = Some (f', fl) -> refines_add w f' f.
Proof. exact ccp_preserves_add_named. Qed.
Theorem C02deep_lvn_preserves_add : forall w f, wf_func f = true -> refines_add w (lvn f) f.
Proof. exact lvn_preserves_add. Qed.

(* every pass gives back a well-formed function without a Break outside of a loop, so a pipeline needs these two
   facts of its INPUT only (for ccp see C02deep_ccp_wf above) *)
Theorem C02deep_dce_wf : forall f, wf_func f = true -> wf_func (dce f) = true.
Proof. exact dce_wf. Qed.
Theorem C02deep_lvn_wf : forall f, wf_func f = true -> wf_func (lvn f) = true.
Proof. exact lvn_wf. Qed.
Theorem C02deep_dce_no_break : forall f, no_break_l (f_body f) = true -> no_break_l (f_body (dce f)) = true.
Proof. exact dce_no_break. Qed.
Theorem C02deep_lvn_no_break : forall f, no_break_l (f_body f) = true -> no_break_l (f_body (lvn f)) = true.
Proof. exact lvn_no_break. Qed.
Theorem C02deep_ccp_no_break : forall f f' fl,
  no_break_l (f_body f) = true -> ccp f = Some (f', fl) -> no_break_l (f_body f') = true.
Proof. exact ccp_no_break. Qed.

(* one round ccp; lvn; dce *)
Theorem C02deep_round : forall w f f1 fl,
  wf_func f = true -> no_break_l (f_body f) = true -> no_dead_final_operands f -> no_struct_forwarding f ->
  ccp f = Some (f1, fl) ->
  refines_add w (dce (lvn f1)) f /\ wf_func (dce (lvn f1)) = true /\ no_break_l (f_body (dce (lvn f1))) = true.
Proof. exact round_preserves. Qed.

(* ---- common subexpression elimination (common_subexpression_elimination.rs) ----
   `sup` is the supply of fresh names (the real pass takes them from a counter); fresh_for sup f: pairwise
   distinct and not names of f.  cse sup f = None only if the supply is too short. *)
(* on the target semantics every run is reproduced exactly: same value, same calls, same trap, same fuel *)
Theorem C02deep_cse_preserves : forall w sup f f' args fuel,
  wf_func f = true -> no_break_l (f_body f) = true -> fresh_for sup f -> cse sup f = Some f' ->
  same_unless_stuck (sem Wrap w f' args fuel) (sem Wrap w f args fuel).
Proof. exact cse_preserves. Qed.
(* in every checking mode a run that ends normally is reproduced (mode Add: the invariant between rounds) *)
Theorem C02deep_cse_preserves_mode : forall m w hd sup f f' sup' args fuel v tr,
  wf_func f = true -> no_break_l (f_body f) = true -> fresh_for sup f -> cse_gen hd sup f = Some (f', sup') ->
  sem m w f args fuel = Done v tr -> sem m w f' args fuel = Done v tr.
Proof. exact cse_preserves_mode. Qed.
(* the output is well formed, the rest of the supply is fresh for it *)
Theorem C02deep_cse_wf : forall hd sup f f' sup',
  wf_func f = true -> fresh_for sup f -> cse_gen hd sup f = Some (f', sup') ->
  wf_func f' = true /\ fresh_for sup' f' /\ (no_break_l (f_body f) = true -> no_break_l (f_body f') = true).
Proof. exact cse_wf. Qed.
(* before fix 32a0c6b (finding C02-cse-hoists-trapping-division) a division computed in both branches was hoisted
   too: it trapped before the call that precedes it inside the branch, so the calls made before the trap differ;
   the pass as it is now leaves that function alone *)
Theorem C02deep_cse_old_hoists_division_refuted :
  exists f sup f', wf_func f = true /\ no_break_l (f_body f) = true /\ cse_old sup f = Some f' /\
    sem Wrap wit_div_world f [1; 7; 0] 10 = Trap [(9%N, [])] /\ sem Wrap wit_div_world f' [1; 7; 0] 10 = Trap [] /\
    cse sup f = Some f.
Proof. exact cse_old_hoists_division_refuted. Qed.
Definition ex_cse : func :=
  mkfunc [1%N; 2%N; 3%N]
    [SIf (EVar 1%N)
       [SCall 9%N [EVar 2%N] None; SBin 4%N PLUS (EVar 2%N) (EVar 3%N); SBin 5%N MINUS (EVar 4%N) (EInt 3)]
       [SBin 6%N MINUS (EVar 2%N) (EInt 3); SBin 7%N PLUS (EVar 2%N) (EVar 3%N); SBin 8%N DIV (EVar 2%N) (EVar 3%N)]
       [(10%N, EVar 5%N, EVar 7%N)]]
    (EVar 10%N).
Example C02deep_cse_nonvacuous :
  wf_func ex_cse = true /\ no_break_l (f_body ex_cse) = true /\ fresh_for [20%N; 21%N] ex_cse /\
  cse [20%N; 21%N] ex_cse = Some
    (mkfunc [1%N; 2%N; 3%N]
       [SBin 20%N PLUS (EVar 2%N) (EVar 3%N);
        SIf (EVar 1%N)
          [SCall 9%N [EVar 2%N] None; SBin 4%N PLUS (EVar 2%N) (EVar 3%N); SBin 5%N MINUS (EVar 4%N) (EInt 3)]
          [SBin 6%N MINUS (EVar 2%N) (EInt 3); SBin 7%N PLUS (EVar 2%N) (EVar 3%N); SBin 8%N DIV (EVar 2%N) (EVar 3%N)]
          [(10%N, EVar 5%N, EVar 7%N)]]
       (EVar 10%N)) /\
  sem Wrap ex_world ex_cse [1; 5; 6] 10 = Done 8 [(9%N, [5])].
Proof.
  split; [vm_compute; reflexivity|]. split; [vm_compute; reflexivity|]. split.
  - split; [repeat constructor; cbn; intuition discriminate|]. intros x [<-|[<-|[]]] H; vm_compute in H; intuition discriminate.
  - split; vm_compute; reflexivity.
Qed.

(* optimize_function_for_rounds (lib.rs) restricted to the modelled passes, in its order and number of rounds:
   Passes.pipeline lvn cse sup = (ccp; [cse]; [lvn]; dce) twice, then ccp; dce; ccp (scalar replacement and the loop
   optimisations off).  Only the INPUT has to be well formed, without a Break outside of a loop, and the supply fresh
   for it; `pipeline_no_dead_final_operands` says that none of the five ccp applications met dead final operands,
   `pipeline_no_struct_forwarding` that the pipeline without the forwarding of struct fields gives the same result. *)
Theorem C02deep_pipeline : forall w lvn_on cse_on sup f f' fl sup',
  wf_func f = true -> no_break_l (f_body f) = true -> fresh_for sup f ->
  pipeline_no_dead_final_operands lvn_on cse_on sup f -> pipeline_no_struct_forwarding lvn_on cse_on sup f ->
  pipeline lvn_on cse_on sup f = Some (f', fl, sup') ->
  refines w f' f /\ wf_func f' = true /\ no_break_l (f_body f') = true.
Proof. exact pipeline_preserves_named. Qed.
Example C02deep_pipeline_nonvacuous :
  wf_func ex_ccp = true /\ no_break_l (f_body ex_ccp) = true /\ pipeline_no_dead_final_operands true true [] ex_ccp /\
  pipeline_no_struct_forwarding true true [] ex_ccp /\
  (exists f', pipeline true true [] ex_ccp = Some (f', (false, false), []) /\ f' <> ex_ccp /\
              sem Wrap ex_world f' [4] 10 = Done 9 [(8%N, [5; 9]); (8%N, [5; 8]); (8%N, [5; 7])]).
Proof.
  split; [vm_compute; reflexivity|]. split; [vm_compute; reflexivity|]. split; [vm_compute; reflexivity|].
  split; [vm_compute; reflexivity|].
  eexists. split; [vm_compute; reflexivity|]. split; [intros H; discriminate H | vm_compute; reflexivity].
Qed.

(* StructInit statements are part of the fragment (structs are immutable values, Sem.v); a function that makes a
   struct and passes it on is under every theorem above; one that also reads a field back is where the two
   variants of the pass differ (the forwarded load needs a world that is `struct_honest` for the structs of the run, see below) *)
Definition ex_struct : func :=
  mkfunc [1%N; 2%N]
    [SBin 3%N PLUS (EVar 1%N) (EInt 0);
     SStruct 4%N 7%N [EVar 3%N; EVar 2%N; EInt 5];
     SCall 9%N [EVar 4%N] (Some 5%N);
     SPrim 6%N (PIdx 0%N 1%N) (EVar 5%N)]
    (EVar 6%N).
Definition ex_struct_fwd : func :=
  mkfunc [1%N; 2%N]
    [SStruct 4%N 7%N [EVar 1%N; EVar 2%N]; SPrim 6%N (PIdx 0%N 1%N) (EVar 4%N); SCall 9%N [EVar 4%N; EVar 6%N] None]
    (EVar 6%N).
Example C02deep_struct_nonvacuous :
  wf_func ex_struct = true /\ no_dead_final_operands ex_struct /\ no_struct_forwarding ex_struct /\
  ccp ex_struct = Some
    (mkfunc [1%N; 2%N]
       [SStruct 4%N 7%N [EVar 1%N; EVar 2%N; EInt 5]; SCall 9%N [EVar 4%N] (Some 5%N); SPrim 6%N (PIdx 0%N 1%N) (EVar 5%N)]
       (EVar 6%N), (false, false)) /\
  wf_func ex_struct_fwd = true /\ ~ no_struct_forwarding ex_struct_fwd /\
  ccp ex_struct_fwd = Some
    (mkfunc [1%N; 2%N] [SStruct 4%N 7%N [EVar 1%N; EVar 2%N]; SCall 9%N [EVar 4%N; EVar 2%N] None] (EVar 2%N), (false, false)).
Proof.
  split; [vm_compute; reflexivity|]. split; [vm_compute; reflexivity|]. split; [vm_compute; reflexivity|].
  split; [vm_compute; reflexivity|]. split; [vm_compute; reflexivity|].
  split; [intros H; vm_compute in H; discriminate H | vm_compute; reflexivity].
Qed.

(* Loading a field of a struct gives the field back: `Sem.struct_honest w H` for the structs of H.  (For ALL structs
   at once this is unsatisfiable - there are more lists of fields than 32-bit references - so it is stated relative
   to a set, and `SemStruct.honest_run` takes the structs a run actually makes, `SemStruct.made_by`.)  Such worlds
   exist for every table of at most MAX structs, in particular for runs: *)
Theorem C02deep_table_world_honest : forall T w0, Z.of_nat (length T) <= MAX ->
  struct_honest (table_world T w0) (fun tn vs => In (tn, vs) T).
Proof. exact table_world_honest. Qed.
Theorem C02deep_honest_run_table : forall m T w0 f args fuel, Z.of_nat (length T) <= MAX ->
  (forall s, In s (made_by m (table_world T w0) f args fuel) -> In s T) ->
  honest_run m (table_world T w0) f args fuel.
Proof. exact honest_run_table. Qed.
(* non-vacuity: the function whose field load the pass forwards, in an honest world: the run makes one struct, the
   world is honest for the run, and the output of the pass (with forwarding) behaves like the input *)
Example C02deep_honest_run_nonvacuous :
  let w := table_world [(7%N, [5; 6])] ex_world in
  made_by Wrap w ex_struct_fwd [5; 6] 10 = [(7%N, [5; 6])] /\
  honest_run Wrap w ex_struct_fwd [5; 6] 10 /\
  sem Wrap w ex_struct_fwd [5; 6] 10 = Done 6 [(9%N, [1; 6])] /\
  (exists f' fl, ccp ex_struct_fwd = Some (f', fl) /\ sem Wrap w f' [5; 6] 10 = Done 6 [(9%N, [1; 6])]).
Proof.
  cbv zeta. split; [vm_compute; reflexivity|]. split.
  - apply honest_run_table; [vm_compute; discriminate|]. intros s Hs. vm_compute in Hs. exact Hs.
  - split; [vm_compute; reflexivity|]. eexists. eexists. split; [vm_compute; reflexivity|]. vm_compute; reflexivity.
Qed.

(* ---- local value numbering (local_value_numbering.rs): full strength ---- *)
Theorem C02deep_lvn_preserves : forall w f, wf_func f = true -> refines w (lvn f) f.
Proof. exact lvn_preserves. Qed.

Definition ex_lvn : func :=
  mkfunc [1%N; 2%N]
    [SBin 3%N PLUS (EVar 1%N) (EVar 2%N);
     SBin 4%N PLUS (EVar 1%N) (EVar 2%N);                      (* same value as 3 *)
     SBin 5%N MUL (EVar 4%N) (EVar 3%N);
     SIf (EVar 2%N) [SBin 6%N MUL (EVar 3%N) (EVar 3%N); SCall 9%N [EVar 6%N] None] [] [(7%N, EVar 6%N, EVar 5%N)];
     SBin 8%N MUL (EVar 3%N) (EVar 4%N)]                       (* not the same key as 5: operands in the other order *)
    (EVar 7%N).
Example C02deep_lvn_nonvacuous :
  wf_func ex_lvn = true /\
  lvn ex_lvn =
    mkfunc [1%N; 2%N]
      [SBin 3%N PLUS (EVar 1%N) (EVar 2%N);
       SBin 5%N MUL (EVar 3%N) (EVar 3%N);
       SIf (EVar 2%N) [SCall 9%N [EVar 5%N] None] [] [(7%N, EVar 5%N, EVar 5%N)]]
      (EVar 7%N) /\
  sem All ex_world ex_lvn [2; 1] 10 = Done 9 [(9%N, [9])].
Proof. vm_compute. repeat split. Qed.

(* DCE is exact on the target semantics, so it composes with any refinement *)
Theorem C02deep_then_dce : forall w f f1, refines w f1 f -> wf_func f1 = true -> refines w (dce f1) f.
Proof. exact refines_then_dce. Qed.

Print Assumptions C02deep_alpha_invariance.
Print Assumptions C02deep_strict_done_wrapping.
Print Assumptions C02deep_dce_preserves.
Print Assumptions C02deep_dce_refines.
Print Assumptions C02deep_ccp_preserves.
Print Assumptions C02deep_ccp_wf.
Print Assumptions C02deep_ccp_dead_code_ill_scoped_witness.
Print Assumptions C02deep_ccp_old_refuted.
Print Assumptions C02deep_ccp_repaired_on_old_witness.
Print Assumptions C02deep_ccp_old2_refuted.
Print Assumptions C02deep_ccp_repaired_on_old2_witness.
Print Assumptions C02deep_ccp_two_rounds_witness.
Print Assumptions C02deep_lvn_preserves.
Print Assumptions C02deep_then_dce.
Print Assumptions C02deep_sem_weaken.
Print Assumptions C02deep_refines_add_trans.
Print Assumptions C02deep_refines_add_refines.
Print Assumptions C02deep_dce_preserves_mode.
Print Assumptions C02deep_ccp_preserves_add.
Print Assumptions C02deep_lvn_preserves_add.
Print Assumptions C02deep_round.
Print Assumptions C02deep_dce_wf.
Print Assumptions C02deep_lvn_wf.
Print Assumptions C02deep_dce_no_break.
Print Assumptions C02deep_lvn_no_break.
Print Assumptions C02deep_ccp_no_break.
Print Assumptions C02deep_pipeline.
Print Assumptions C02deep_table_world_honest.
Print Assumptions C02deep_honest_run_table.
Print Assumptions C02deep_cse_preserves.
Print Assumptions C02deep_cse_preserves_mode.
Print Assumptions C02deep_cse_wf.
Print Assumptions C02deep_cse_old_hoists_division_refuted.
