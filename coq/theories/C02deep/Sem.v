(* C02deep — executable semantics of the MIR fragment of Syntax.v.  Definitions only.

   Values are 32-bit words (Z, read through wrap32): ints, and - opaquely - references, i31 values and
   string constants; the function under study never looks inside the latter (Syntax.v keeps Binary on
   int-typed operands only), it only passes them to calls, phis and opaque primitives.
   The world (an oracle) gives: the result of every call as a function of the whole call history, the value
   of string / i31 constants, the value of the opaque pure primitives (field load, pointer test, cast).
   A call that does not return (Process.panic, a trap or divergence inside the callee) is `None`.

   DECISIONS (the same as harness/src/mirsem.rs unless said otherwise)
   * arithmetic: Common/Int32.rt_binop = the WebAssembly instruction selected for the operator; division
     by zero and MIN / -1 trap.  Mode `All` additionally stops the run at the first + - * whose exact
     result leaves the 32-bit range (outcome Overflow): the property excludes such runs, and a run that is
     `Done` in mode All is a run without overflow.  Mode `Wrap` wraps (what the target does); mode `Add`
     checks + and - only (see `mode` below).
   * conditions of IfElse / SingleIf must be 0 or 1, anything else is Stuck (ill-typed MIR); Not is `xor 1`.
   * a variable that was never assigned reads 0 (WebAssembly locals are zero-initialised; mirsem faults);
     the environment is flat (function-level locals, as in the WebAssembly lowering): names assigned in a
     branch stay assigned.  On well-formed (Syntax.wf_func) functions the two readings coincide.
   * While: loop variables are initialised and updated simultaneously (evaluate all, then assign);
     fuel bounds the number of iterations of every loop (each loop gets `fuel` iterations);
     a Break that escapes every loop is Stuck.
   * StructInit: structs are immutable values; the reference to a new struct is an opaque function of its type
     and fields (two structs with the same fields are not distinguished: the fragment has no comparison of
     references).  `struct_honest` says that a field load from the references of given structs gives the field back.
   * LateInitDeclaration binds the name to 0, LateInitAssignment re-binds it (the environment is flat, so an
     assignment inside a branch is seen after it).
   Observable behaviour of a run = outcome: return value + call trace, or the kind of abnormal end + trace. *)
From Coq Require Import ZArith NArith List Bool.
Import ListNotations.
From SV Require Import Common.Int32 C02deep.Syntax.
Open Scope Z_scope.

Definition event := (N * list Z)%type.        (* callee, argument values *)
Definition trace := list event.                (* newest first *)

Record world := mkworld {
  w_call : trace -> N -> list Z -> option Z;
  w_str : name -> Z;
  w_i31 : Z -> Z;
  w_prim : prim -> Z -> Z;
  w_struct : N -> list Z -> Z }.      (* the reference to a new struct: a function of its type and field values *)

Definition env := list (name * Z).

Fixpoint lookup (x : name) (en : env) : Z :=
  match en with [] => 0 | (y, v) :: r => if N.eqb x y then v else lookup x r end.

Definition eval (w : world) (en : env) (e : expr) : Z :=
  wrap32 (match e with EInt z => z | EI31 z => w_i31 w z | EStr s => w_str w s | EVar x => lookup x en end).

Inductive res :=
| RNext (en : env) (tr : trace)
| RBreak (v : Z) (en : env) (tr : trace)
| RTrap (tr : trace)
| RAbort (tr : trace)
| RStuck
| ROvf
| ROof.

Definition ovf (op : binop) (a b : Z) : bool :=
  match op with
  | PLUS => negb (in32b (a + b))
  | MINUS => negb (in32b (a - b))
  | MUL => negb (in32b (a * b))
  | _ => false
  end.

(* which operations stop the run when their exact result leaves the 32-bit range:
   Wrap: none (the target);  All: + - * (the runs the property speaks about);
   Add: + - only (what the optimizer itself relies on between its rounds, see Props.v) *)
Inductive mode := Wrap | Add | All.
Definition chk (m : mode) (op : binop) : bool :=
  match m with
  | Wrap => false
  | Add => match op with PLUS | MINUS => true | _ => false end
  | All => true
  end.

Definition cond (v : Z) : option bool :=
  if v =? 0 then Some false else if v =? 1 then Some true else None.

Definition bind_opt (o : option name) (v : Z) (en : env) : env :=
  match o with Some x => (x, v) :: en | None => en end.

(* simultaneous assignment of the e1 (resp. e2) components *)
Definition bind_e1 (w : world) (ts : list triple) (en : env) : env :=
  combine (map t_name ts) (map (fun t => eval w en (t_e1 t)) ts) ++ en.
Definition bind_e2 (w : world) (ts : list triple) (en : env) : env :=
  combine (map t_name ts) (map (fun t => eval w en (t_e2 t)) ts) ++ en.

Definition exec_list (ex : stmt -> env -> trace -> res) : list stmt -> env -> trace -> res :=
  fix go ss en tr :=
    match ss with
    | [] => RNext en tr
    | s :: r => match ex s en tr with RNext en' tr' => go r en' tr' | o => o end
    end.

Fixpoint loop (body : env -> trace -> res) (next : env -> env) (n : nat) (en : env) (tr : trace) : res :=
  match n with
  | O => ROof
  | S n' => match body en tr with
            | RNext en' tr' => loop body next n' (next en') tr'
            | o => o
            end
  end.

Section Exec.
  Variable strict : mode.
  Variable w : world.
  Variable fuel : nat.

  Fixpoint exec (s : stmt) (en : env) (tr : trace) {struct s} : res :=
    match s with
    | SBin x op e1 e2 =>
        let a := eval w en e1 in let b := eval w en e2 in
        if chk strict op && ovf op a b then ROvf else
        match rt_binop op a b with Val v => RNext ((x, v) :: en) tr | TrapArith => RTrap tr end
    | SNot x e => RNext ((x, Z.lxor (eval w en e) 1) :: en) tr
    | SPrim x p e => RNext ((x, w_prim w p (eval w en e)) :: en) tr
    | SCall f args ret =>
        let vs := map (eval w en) args in
        match w_call w tr f vs with
        | None => RAbort ((f, vs) :: tr)
        | Some v => RNext (bind_opt ret v en) ((f, vs) :: tr)
        end
    | SIf c s1 s2 fas =>
        match cond (eval w en c) with
        | None => RStuck
        | Some true => match exec_list exec s1 en tr with
                       | RNext en' tr' => RNext (bind_e1 w fas en') tr'
                       | o => o
                       end
        | Some false => match exec_list exec s2 en tr with
                        | RNext en' tr' => RNext (bind_e2 w fas en') tr'
                        | o => o
                        end
        end
    | SSIf c inv ss =>
        match cond (eval w en c) with
        | None => RStuck
        | Some b => if xorb b inv then exec_list exec ss en tr else RNext en tr
        end
    | SBreak e => RBreak (eval w en e) en tr
    | SWhile lvs ss bc =>
        match loop (exec_list exec ss) (bind_e2 w lvs) fuel (bind_e1 w lvs en) tr with
        | RBreak v en' tr' => RNext (bind_opt bc v en') tr'
        | RNext _ _ => RStuck
        | o => o
        end
    | SStruct x tn es => RNext ((x, w_struct w tn (map (eval w en) es)) :: en) tr
    | SLateDecl x => RNext ((x, 0) :: en) tr
    | SLateAssign x e => RNext ((x, eval w en e) :: en) tr
    end.

  Definition exec_block : list stmt -> env -> trace -> res := exec_list exec.
End Exec.

Inductive outcome :=
| Done (v : Z) (tr : trace)
| Trap (tr : trace)
| Abort (tr : trace)
| Stuck
| Overflow
| OutOfFuel.

Definition init_env (f : func) (args : list Z) : env := combine (f_params f) args.

Definition sem (strict : mode) (w : world) (f : func) (args : list Z) (fuel : nat) : outcome :=
  match exec_block strict w fuel (f_body f) (init_env f args) [] with
  | RNext en tr => Done (eval w en (f_ret f)) tr
  | RBreak _ _ _ => Stuck
  | RTrap tr => Trap tr
  | RAbort tr => Abort tr
  | RStuck => Stuck
  | ROvf => Overflow
  | ROof => OutOfFuel
  end.

(* "the optimised function f' refines f": every run of f that is not excluded by the property (no overflow,
   no division trap, well-typed, terminates within the fuel) is reproduced exactly by f' on the target
   (wrapping) semantics: same return value, same calls with the same arguments in the same order. *)
Definition refines (w : world) (f' f : func) : Prop :=
  forall args fuel v tr, sem All w f args fuel = Done v tr -> sem Wrap w f' args fuel = Done v tr.

(* a field load from the reference to a struct with these fields gives the field back (at every load type), for
   the structs of H.  It cannot hold for ALL structs at once (references are 32-bit words, there are more lists
   of fields than references); SemStruct.v relates H to the structs a run actually makes and shows that such
   worlds exist for every finite H. *)
Definition struct_honest (w : world) (H : N -> list Z -> Prop) : Prop :=
  forall tn vs t i v, H tn vs -> nth_error vs (N.to_nat i) = Some v ->
    wrap32 (w_prim w (PIdx t i) (wrap32 (w_struct w tn vs))) = wrap32 v.

(* renaming of variables (used by the alpha-invariance theorem) *)
Definition ren_expr (r : name -> name) (e : expr) : expr :=
  match e with EVar x => EVar (r x) | _ => e end.
Definition ren_triple (r : name -> name) (t : triple) : triple :=
  (r (t_name t), ren_expr r (t_e1 t), ren_expr r (t_e2 t)).
Fixpoint ren_stmt (r : name -> name) (s : stmt) : stmt :=
  match s with
  | SBin x op e1 e2 => SBin (r x) op (ren_expr r e1) (ren_expr r e2)
  | SNot x e => SNot (r x) (ren_expr r e)
  | SPrim x p e => SPrim (r x) p (ren_expr r e)
  | SCall f args ret => SCall f (map (ren_expr r) args) (option_map r ret)
  | SIf c s1 s2 fas => SIf (ren_expr r c) (map (ren_stmt r) s1) (map (ren_stmt r) s2) (map (ren_triple r) fas)
  | SSIf c inv ss => SSIf (ren_expr r c) inv (map (ren_stmt r) ss)
  | SBreak e => SBreak (ren_expr r e)
  | SWhile lvs ss bc => SWhile (map (ren_triple r) lvs) (map (ren_stmt r) ss) (option_map r bc)
  | SStruct x tn es => SStruct (r x) tn (map (ren_expr r) es)
  | SLateDecl x => SLateDecl (r x)
  | SLateAssign x e => SLateAssign (r x) (ren_expr r e)
  end.
Definition ren_func (r : name -> name) (f : func) : func :=
  mkfunc (map r (f_params f)) (map (ren_stmt r) (f_body f)) (ren_expr r (f_ret f)).
