(* C02deep — structs: which structs a run makes, and worlds in which loading a field of such a struct gives the
   field back (Sem.struct_honest).  Definitions, one existence lemma and its instances; nothing else depends on
   this file yet (the CCP theorems are proved for the pass without forwarding of struct fields). *)
From Coq Require Import ZArith NArith List Bool Lia.
Import ListNotations.
From SV Require Import Common.Int32 C02deep.Syntax C02deep.Sem.
Open Scope Z_scope.

Definition sval := (N * list Z)%type.          (* type name, field values *)

(* the structs made by a run, oldest first: a second interpreter that follows `exec` and logs every SStruct *)
Section Made.
  Variables (m : mode) (w : world) (fuel : nat).

  Definition made_list (mk : stmt -> env -> trace -> list sval) : list stmt -> env -> trace -> list sval :=
    fix go ss en tr :=
      match ss with
      | [] => []
      | s :: r => mk s en tr ++ match exec m w fuel s en tr with RNext en' tr' => go r en' tr' | _ => [] end
      end.
  Fixpoint made_loop (mk : env -> trace -> list sval) (body : env -> trace -> res) (next : env -> env)
           (n : nat) (en : env) (tr : trace) : list sval :=
    match n with
    | O => []
    | S n' => mk en tr ++ match body en tr with RNext en' tr' => made_loop mk body next n' (next en') tr' | _ => [] end
    end.
  Fixpoint made (s : stmt) (en : env) (tr : trace) {struct s} : list sval :=
    match s with
    | SStruct _ tn es => [(tn, map (eval w en) es)]
    | SIf c s1 s2 _ =>
        match cond (eval w en c) with
        | Some true => made_list made s1 en tr
        | Some false => made_list made s2 en tr
        | None => []
        end
    | SSIf c inv ss =>
        match cond (eval w en c) with
        | Some b => if xorb b inv then made_list made ss en tr else []
        | None => []
        end
    | SWhile lvs ss _ =>
        made_loop (made_list made ss) (exec_block m w fuel ss) (bind_e2 w lvs) fuel (bind_e1 w lvs en) tr
    | _ => []
    end.
  Definition made_block : list stmt -> env -> trace -> list sval := made_list made.
End Made.

(* the structs the run of f on args makes *)
Definition made_by (m : mode) (w : world) (f : func) (args : list Z) (fuel : nat) : list sval :=
  made_block m w fuel (f_body f) (init_env f args) [].

(* w is honest for this run: a field load from the reference of a struct the run made gives the field back *)
Definition honest_run (m : mode) (w : world) (f : func) (args : list Z) (fuel : nat) : Prop :=
  struct_honest w (fun tn vs => In (tn, vs) (made_by m w f args fuel)).

(* ---- such worlds exist: references are positions in a table of structs ---- *)
Definition sval_eqb (a b : sval) : bool :=
  N.eqb (fst a) (fst b) && (fix eq (x y : list Z) : bool :=
    match x, y with [] , [] => true | u :: r, v :: r' => Z.eqb u v && eq r r' | _, _ => false end) (snd a) (snd b).
Lemma sval_eqb_eq a b : sval_eqb a b = true <-> a = b.
Proof.
  destruct a as [t x], b as [t' y]. unfold sval_eqb. cbn [fst snd]. rewrite andb_true_iff, N.eqb_eq.
  assert (H : forall x y, (fix eq (x y : list Z) : bool :=
     match x, y with [] , [] => true | u :: r, v :: r' => Z.eqb u v && eq r r' | _, _ => false end) x y = true <-> x = y).
  { induction x0 as [|u r IH]; destruct y0 as [|v r']; cbn; try (split; [discriminate | discriminate]); [tauto|].
    rewrite andb_true_iff, Z.eqb_eq, IH. split; [intros [-> ->]; reflexivity | intros [= -> ->]; auto]. }
  rewrite H. split; [intros [-> ->]; reflexivity | intros [= -> ->]; auto].
Qed.
(* position of the first occurrence, counted from 1 (0: not in the table) *)
Fixpoint index_of (a : sval) (T : list sval) : nat :=
  match T with [] => O | b :: r => if sval_eqb a b then 1%nat else match index_of a r with O => O | S k => S (S k) end end.
Lemma index_of_nth a T : In a T -> exists k, index_of a T = S k /\ nth_error T k = Some a.
Proof.
  induction T as [|b r IH]; [intros []|]. intros Hi. cbn [index_of]. destruct (sval_eqb a b) eqn:E.
  - apply sval_eqb_eq in E. subst. exists O. auto.
  - destruct Hi as [->|Hi]; [rewrite (proj2 (sval_eqb_eq a a) eq_refl) in E; discriminate|].
    destruct (IH Hi) as [k [-> Hk]]. exists (S k). auto.
Qed.
Lemma index_of_le a T : (index_of a T <= length T)%nat.
Proof. induction T as [|b r IH]; cbn; [lia|]. destruct (sval_eqb a b); [lia|]. destruct (index_of a r); lia. Qed.

(* the world of a table: w_struct gives the position, a field load looks the position up *)
Definition table_world (T : list sval) (w0 : world) : world :=
  mkworld (w_call w0) (w_str w0) (w_i31 w0)
    (fun p v => match p with
                | PIdx _ i => match v with
                              | Zpos _ => match nth_error T (Z.to_nat v - 1) with
                                          | Some s => nth (N.to_nat i) (snd s) 0
                                          | None => w_prim w0 p v
                                          end
                              | _ => w_prim w0 p v
                              end
                | _ => w_prim w0 p v
                end)
    (fun tn vs => Z.of_nat (index_of (tn, vs) T)).

Theorem table_world_honest T w0 : Z.of_nat (length T) <= MAX ->
  struct_honest (table_world T w0) (fun tn vs => In (tn, vs) T).
Proof.
  intros Hlen tn vs t i v Hin Hnth. cbn [table_world w_prim w_struct].
  destruct (index_of_nth (tn, vs) T Hin) as [k [Ek Hk]]. rewrite Ek.
  pose proof (index_of_le (tn, vs) T) as Hle. rewrite Ek in Hle.
  assert (Hw : wrap32 (Z.of_nat (S k)) = Z.of_nat (S k)).
  { apply wrap32_id. unfold in32, MIN, MAX in *. lia. }
  rewrite Hw. destruct (Z.of_nat (S k)) eqn:Ez; try lia.
  rewrite <- Ez, Nat2Z.id. cbn [Nat.sub]. rewrite Nat.sub_0_r, Hk. cbn [snd].
  f_equal. apply nth_error_nth. exact Hnth.
Qed.

(* a table that contains the structs the run makes in the world of that table gives a world honest for the run *)
Lemma honest_run_table m T w0 f args fuel : Z.of_nat (length T) <= MAX ->
  (forall s, In s (made_by m (table_world T w0) f args fuel) -> In s T) ->
  honest_run m (table_world T w0) f args fuel.
Proof.
  intros Hlen Hsub tn vs t i v Hin Hnth. apply (table_world_honest T w0 Hlen tn vs t i v); [apply Hsub; exact Hin | exact Hnth].
Qed.
