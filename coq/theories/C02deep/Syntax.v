(* C02deep — a fragment of samlang's mid-level IR (crates/samlang-ast/src/mir.rs) as a deep embedding.
   Definitions only (plus the induction principle of the nested inductive type).

   What is in the fragment (everything else makes `vh mir-dump` skip the function):
     Expression : Int32Literal, Int31Literal, StringName, Variable                      (all four forms)
     Statement  : Binary (all 16 BinaryOperator cases; operands must be int-typed: literals or variables of
                  type Int32), Not, IsPointer / IndexedAccess / Cast (as opaque pure unary primitives `SPrim`:
                  MIR has no store to a struct field, so a load, a pointer test and a cast are functions of
                  the operand value on the immutable heap), Call of a FunctionName (uninterpreted: the world
                  is an oracle), IfElse with final_assignments, SingleIf, Break, While with loop_variables and
                  break_collector.
   Left out   : StructInit, ClosureInit (allocation), LateInitDeclaration / LateInitAssignment, Call through a
                closure variable, Binary on non-int operands (string / reference comparison).
   Types are erased: a VariableName is its name.  Names are the rank of the PStr in the order `PStr::cmp`
   (the harness computes it), so that `N.compare` on names IS the order the optimizer uses when it sorts
   operands (Expression::cmp compares variables by name). *)
From Coq Require Import ZArith NArith List Bool.
Import ListNotations.
From SV Require Import Common.Int32.

Definition name := N.

Inductive expr :=
| EInt (z : Z)          (* Int32Literal *)
| EI31 (z : Z)          (* Int31Literal *)
| EStr (s : name)       (* StringName *)
| EVar (x : name).      (* Variable *)

Inductive prim :=
| PIdx (ty i : N)       (* IndexedAccess { type_, index } *)
| PIsPtr (ty : N)       (* IsPointer { pointer_type } *)
| PCast (ty : N).       (* Cast { type_ } *)

(* IfElseFinalAssignment (name, e1, e2) and GenenalLoopVariable (name, initial_value, loop_value) *)
Definition triple := (name * expr * expr)%type.
Definition t_name (t : triple) : name := fst (fst t).
Definition t_e1 (t : triple) : expr := snd (fst t).
Definition t_e2 (t : triple) : expr := snd t.

Inductive stmt :=
| SBin (x : name) (op : binop) (e1 e2 : expr)
| SNot (x : name) (e : expr)
| SPrim (x : name) (p : prim) (e : expr)
| SCall (f : N) (args : list expr) (ret : option name)
| SIf (c : expr) (s1 s2 : list stmt) (fas : list triple)
| SSIf (c : expr) (inv : bool) (ss : list stmt)
| SBreak (e : expr)
| SWhile (lvs : list triple) (ss : list stmt) (bc : option name)
(* StructInit: x = a new struct of type tn with these fields (an immutable value) *)
| SStruct (x : name) (tn : N) (es : list expr)
(* LateInitDeclaration / LateInitAssignment: a variable that is declared first and assigned later, possibly in
   a nested block.  Such functions are in the fragment for the comparison of pass outputs only: `scoped` is
   false on them, so the theorems (which rely on single assignment) say nothing about them. *)
| SLateDecl (x : name)
| SLateAssign (x : name) (e : expr).

Record func := mkfunc { f_params : list name; f_body : list stmt; f_ret : expr }.

(* induction over statements and statement lists together *)
Section StmtInd.
  Variable P : stmt -> Prop.
  Variable Q : list stmt -> Prop.
  Hypothesis HBin : forall x op e1 e2, P (SBin x op e1 e2).
  Hypothesis HNot : forall x e, P (SNot x e).
  Hypothesis HPrim : forall x p e, P (SPrim x p e).
  Hypothesis HCall : forall f args ret, P (SCall f args ret).
  Hypothesis HIf : forall c s1 s2 fas, Q s1 -> Q s2 -> P (SIf c s1 s2 fas).
  Hypothesis HSIf : forall c inv ss, Q ss -> P (SSIf c inv ss).
  Hypothesis HBreak : forall e, P (SBreak e).
  Hypothesis HWhile : forall lvs ss bc, Q ss -> P (SWhile lvs ss bc).
  Hypothesis HStruct : forall x tn es, P (SStruct x tn es).
  Hypothesis HLateDecl : forall x, P (SLateDecl x).
  Hypothesis HLateAssign : forall x e, P (SLateAssign x e).
  Hypothesis HNil : Q [].
  Hypothesis HCons : forall s r, P s -> Q r -> Q (s :: r).

  Fixpoint stmt_ind2 (s : stmt) : P s :=
    let fix go (ss : list stmt) : Q ss :=
      match ss with [] => HNil | s :: r => HCons s r (stmt_ind2 s) (go r) end in
    match s with
    | SBin x op e1 e2 => HBin x op e1 e2
    | SNot x e => HNot x e
    | SPrim x p e => HPrim x p e
    | SCall f args ret => HCall f args ret
    | SIf c s1 s2 fas => HIf c s1 s2 fas (go s1) (go s2)
    | SSIf c inv ss => HSIf c inv ss (go ss)
    | SBreak e => HBreak e
    | SWhile lvs ss bc => HWhile lvs ss bc (go ss)
    | SStruct x tn es => HStruct x tn es
    | SLateDecl x => HLateDecl x
    | SLateAssign x e => HLateAssign x e
    end.

  Fixpoint stmts_ind2 (ss : list stmt) : Q ss :=
    match ss with [] => HNil | s :: r => HCons s r (stmt_ind2 s) (stmts_ind2 r) end.

  Lemma stmt_stmts_ind2 : (forall s, P s) /\ (forall ss, Q ss).
  Proof. split; [exact stmt_ind2 | exact stmts_ind2]. Qed.
End StmtInd.

(* ---- names ---- *)
Definition memb (x : name) (l : list name) : bool := existsb (N.eqb x) l.

Definition opt_names (o : option name) : list name := match o with Some x => [x] | None => [] end.

(* names a statement puts in scope for the statements that follow it *)
Definition defs (s : stmt) : list name :=
  match s with
  | SBin x _ _ _ | SNot x _ | SPrim x _ _ => [x]
  | SCall _ _ ret => opt_names ret
  | SIf _ _ _ fas => map t_name fas
  | SSIf _ _ _ | SBreak _ | SLateAssign _ _ => []
  | SWhile _ _ bc => opt_names bc
  | SStruct x _ _ | SLateDecl x => [x]
  end.

(* every binder occurring in a statement, at any depth *)
Fixpoint binders (s : stmt) : list name :=
  let fix go (ss : list stmt) : list name :=
    match ss with [] => [] | s :: r => binders s ++ go r end in
  match s with
  | SBin x _ _ _ | SNot x _ | SPrim x _ _ => [x]
  | SCall _ _ ret => opt_names ret
  | SIf _ s1 s2 fas => go s1 ++ go s2 ++ map t_name fas
  | SSIf _ _ ss => go ss
  | SBreak _ => []
  | SWhile lvs ss bc => map t_name lvs ++ go ss ++ opt_names bc
  | SStruct x _ _ | SLateDecl x | SLateAssign x _ => [x]
  end.
Fixpoint binders_l (ss : list stmt) : list name :=
  match ss with [] => [] | s :: r => binders s ++ binders_l r end.

Fixpoint defs_l (ss : list stmt) : list name :=
  match ss with [] => [] | s :: r => defs_l r ++ defs s end.

(* ---- well-formedness: SSA-style scoping ---- *)
Definition in_scope (S : list name) (e : expr) : bool :=
  match e with EVar x => memb x S | _ => true end.

(* every variable that is read is in scope: parameters, results of earlier statements of the enclosing
   blocks, final-assignment names after their if-else, loop variables inside their loop, the break
   collector after its loop.  Names defined inside a branch / loop body are not visible after it. *)
Fixpoint scoped (S : list name) (s : stmt) : bool :=
  let fix go (S : list name) (ss : list stmt) : bool :=
    match ss with [] => true | s :: r => scoped S s && go (defs s ++ S) r end in
  match s with
  | SBin _ _ e1 e2 => in_scope S e1 && in_scope S e2
  | SNot _ e | SPrim _ _ e | SBreak e => in_scope S e
  | SCall _ args _ => forallb (in_scope S) args
  | SIf c s1 s2 fas =>
      in_scope S c && go S s1 && go S s2 &&
      forallb (fun t => in_scope (defs_l s1 ++ S) (t_e1 t) && in_scope (defs_l s2 ++ S) (t_e2 t)) fas
  | SSIf c _ ss => in_scope S c && go S ss
  | SWhile lvs ss _ =>
      forallb (fun t => in_scope S (t_e1 t)) lvs &&
      go (map t_name lvs ++ S) ss &&
      forallb (fun t => in_scope (defs_l ss ++ map t_name lvs ++ S) (t_e2 t)) lvs
  | SStruct _ _ es => forallb (in_scope S) es
  | SLateDecl _ | SLateAssign _ _ => false
  end.
Fixpoint scoped_l (S : list name) (ss : list stmt) : bool :=
  match ss with [] => true | s :: r => scoped S s && scoped_l (defs s ++ S) r end.

Fixpoint nodupb (l : list name) : bool :=
  match l with [] => true | x :: r => negb (memb x r) && nodupb r end.

(* a Break may only occur inside a While *)
Fixpoint no_break (s : stmt) : bool :=
  let fix go (ss : list stmt) : bool := match ss with [] => true | s :: r => no_break s && go r end in
  match s with
  | SBreak _ => false
  | SIf _ s1 s2 _ => go s1 && go s2
  | SSIf _ _ ss => go ss
  | _ => true
  end.
Fixpoint no_break_l (ss : list stmt) : bool :=
  match ss with [] => true | s :: r => no_break s && no_break_l r end.

(* well-formed function: binders pairwise distinct and distinct from the parameters (single assignment),
   reads in scope, no Break outside a loop *)
Definition wf_func (f : func) : bool :=
  nodupb (f_params f ++ binders_l (f_body f)) &&
  scoped_l (f_params f) (f_body f) &&
  in_scope (defs_l (f_body f) ++ f_params f) (f_ret f).

(* the relaxed scoping the constant-propagation proof works with (its own output satisfies it, but not always
   `scoped`): when the body of a loop ends in a Break at top level the loop values are never evaluated, and
   the pass leaves in them names whose definitions (after that Break) it has dropped *)
Definition ends_break (ss : list stmt) : bool :=
  match rev ss with SBreak _ :: _ => true | _ => false end.

Fixpoint scopedc (S : list name) (s : stmt) : bool :=
  let fix go (S : list name) (ss : list stmt) : bool :=
    match ss with [] => true | s :: r => scopedc S s && go (defs s ++ S) r end in
  match s with
  | SBin _ _ e1 e2 => in_scope S e1 && in_scope S e2
  | SNot _ e | SPrim _ _ e | SBreak e => in_scope S e
  | SCall _ args _ => forallb (in_scope S) args
  | SIf c s1 s2 fas =>
      in_scope S c && go S s1 && go S s2 &&
      forallb (fun t => in_scope (defs_l s1 ++ S) (t_e1 t) && in_scope (defs_l s2 ++ S) (t_e2 t)) fas
  | SSIf c _ ss => in_scope S c && go S ss
  | SWhile lvs ss _ =>
      forallb (fun t => in_scope S (t_e1 t)) lvs &&
      go (map t_name lvs ++ S) ss &&
      (ends_break ss || forallb (fun t => in_scope (defs_l ss ++ map t_name lvs ++ S) (t_e2 t)) lvs)
  | SStruct _ _ es => forallb (in_scope S) es
  | SLateDecl _ | SLateAssign _ _ => false
  end.
Fixpoint scopedc_l (S : list name) (ss : list stmt) : bool :=
  match ss with [] => true | s :: r => scopedc S s && scopedc_l (defs s ++ S) r end.

Definition wfc_func (f : func) : bool :=
  nodupb (f_params f ++ binders_l (f_body f)) &&
  scopedc_l (f_params f) (f_body f) &&
  in_scope (defs_l (f_body f) ++ f_params f) (f_ret f).
