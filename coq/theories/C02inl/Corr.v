(* C02inl - evaluation glue for layer B (checks/c02_inl.py, `vh inl-dump`).

   NAMES.  The check numbers the names of the program that ENTERS the pass 1, 2, .. (< 2^32).  The real pass makes
   the new name  prefix ++ x  with prefix = "_t<id>"; the check decodes such a string (id >= the first id the pass
   could allocate, x a name of the input or again such a string) into  number(x) * 2^32 + id  = mangle_c id x.
   So the model's output can be compared with the real output for equality once the model is given the prefix
   ids the real pass used (its supply).  The order in which the real pass visits the functions that can be inlined
   is the iteration order of a HashMap; the supply is therefore RECOVERED from the real output: the model is run
   with placeholder prefixes 0, 1, 2, .., its output is laid over the real output name by name, the prefix chains
   of paired names give  placeholder -> real id,  and the model is run again with the real ids.  The recovery is
   untrusted glue: what is reported is the equality  model(real supply) = real output. *)
From Coq Require Import ZArith NArith List Bool.
Import ListNotations.
From SV Require Import Common.Int32 C01mir.Syntax C01mir.Sem C02inl.Inline C02inl.Sroa.
Open Scope N_scope.

Definition W32 : N := 4294967296.
Definition mangle_c (p : N) (x : name) : name := x * W32 + p.

(* ---- every name occurrence of a program, in a fixed traversal order ---- *)
Definition enames (e : expr) : list name := match e with EVar x _ => [x] | _ => [] end.
Definition qnames (q : quad) : list name := q_name q :: enames (q_e1 q) ++ enames (q_e2 q).
Fixpoint snames (s : stmt) : list name :=
  let fix go (ss : list stmt) : list name := match ss with [] => [] | s :: r => snames s ++ go r end in
  match s with
  | SBin x _ e1 e2 => x :: enames e1 ++ enames e2
  | SNot x e | SPrim x _ e | SAssign x e | SClosure x _ _ _ e => x :: enames e
  | SCall c args _ ret => cvars c ++ flat_map enames args ++ opt_names ret
  | SIf c s1 s2 fas => enames c ++ go s1 ++ go s2 ++ flat_map qnames fas
  | SSIf c _ ss => enames c ++ go ss
  | SBreak e => enames e
  | SWhile lvs ss bc => flat_map qnames lvs ++ go ss ++ bc_names bc
  | SDecl x _ => [x]
  | SStruct x _ es => x :: flat_map enames es
  end.
Definition fnames_all (f : func) : list name := f_params f ++ flat_map snames (f_body f) ++ enames (f_ret f).
Definition pnames (P : program) : list name := flat_map fnames_all P.

(* prefix chain of a name, innermost prefix last *)
Fixpoint chain (fuel : nat) (n : name) : list N :=
  match fuel with
  | O => []
  | S k => if n <? W32 then [] else (n mod W32) :: chain k (n / W32)
  end.


Definition learn (acc : list (N * N)) (mr : name * name) : list (N * N) :=
  fold_left (fun a pr => match aget a (fst pr) with Some _ => a | None => pr :: a end)
            (combine (chain 12 (fst mr)) (chain 12 (snd mr))) acc.

Definition placeholders (k : nat) : list N := map N.of_nat (seq 0 k).

(* the supply the real pass used, in the order in which the model visits the call sites *)
Definition recover (K : nat) (before after : program) : list N :=
  match optimize_functions mangle_c false before (placeholders K) with
  | None => []
  | Some (m0, rest) =>
      let tbl := fold_left learn (combine (pnames m0) (pnames after)) [] in
      map (fun i => match aget tbl i with Some p => p | None => 0 end) (placeholders (K - length rest))
  end.

Definition b2n (b : bool) : N := if b then 1 else 0.

(* all the functions are distinct names, every function is well formed *)
Definition wf_program (P : program) : bool := nodupb (map f_name P) && forallb wf_func P.

(* how many rounds do something *)
Fixpoint rounds_done (n : nat) (fs : program) (sup : list N) : N :=
  match n with
  | O => 0
  | S n' => match round mangle_c false cost_policy fs sup with
            | Some (Some (fs', sup')) => 1 + rounds_done n' fs' sup'
            | _ => 0
            end
  end.

(* one stage: [status; side conditions; wf_program before; sites inlined; changed; rounds; functions; wf_program after]
   status 0: model(recovered supply) = real output; 1: differs; 2: the model fails (panic of the mirror / supply)
   side conditions 1: the run with chk = true gives the same result (every site_ok and nodup test passed) *)
Definition tie_inline (K : nat) (before after : program) : list N :=
  let sup := recover K before after in
  let m := optimize_functions mangle_c false before sup in
  let mc := optimize_functions mangle_c true before sup in
  let st := match m with
            | Some (P', _) => if program_eqb P' after then 0 else 1
            | None => 2
            end in
  let sc := match m, mc with
            | Some (P', _), Some (Pc, _) => b2n (program_eqb P' Pc)
            | _, _ => 0
            end in
  [st; sc; b2n (wf_program before); N.of_nat (length sup); b2n (negb (program_eqb before after));
   rounds_done 5 before sup; N.of_nat (length before); b2n (wf_program after)].

(* a synthetic program on which the real pass panicked: 1 iff the mirror fails as well *)
Definition tie_inline_none (K : nat) (before : program) : list N :=
  [match optimize_functions mangle_c false before (placeholders K) with None => 1 | Some _ => 0 end].

(* ---- scalar replacement: one function ---- *)
Definition fty_of (tbl : list (N * (list ty * ty))) (ft : ty) : list ty * ty :=
  match aget tbl ft with Some d => d | None => ([], 0) end.

(* [status; changed; wf_func before; seeded variant C02-4 = real; replaced structs; replaced closures; substituted loads;
    the deletion theorem applies (sroa_deletes_only, T = the types of the deleted allocations)]
   status 0: model output = real output; 1: differs; 2: the model fails (a panic of the mirror) *)
Definition tie_sroa (tbl : list (N * (list ty * ty))) (before after : func) : list N :=
  let a := analyse ver_now before in
  let st := match sroa_func ver_now (fty_of tbl) before with
            | Some m => if func_eqb m after then 0 else 1
            | None => 2
            end in
  let sd := match sroa_func ver_c02_4 (fty_of tbl) before with
            | Some m => b2n (func_eqb m after)
            | None => 0
            end in
  let T := del_types_l (fun x => is_some (rs_of a x)) (fun x => is_some (rc_of a x)) (f_body before) in
  [st; b2n (negb (func_eqb before after)); b2n (wf_func before); sd;
   N.of_nat (length (filter (fun d => negb (memb (fst d) (ea_esc a))) (ea_s a)));
   N.of_nat (length (filter (fun d => negb (memb (fst d) (ea_esc a))) (ea_c a)));
   match rw_stmts (fty_of tbl) (rs_of a) (rc_of a) (f_body before) [] with
   | Some (_, sub) => if nothing_replaced a then 0 else N.of_nat (length sub)
   | None => 0
   end;
   b2n (sroa_deletes_only (fty_of tbl) T before)].

Definition tie_sroa_none (tbl : list (N * (list ty * ty))) (before : func) : list N :=
  [match sroa_func ver_now (fty_of tbl) before with None => 1 | Some _ => 0 end].

(* ---- a concrete world: a heap kept in the history (as C01mir/Corr.v) ---- *)
Open Scope Z_scope.
Definition BASE : Z := 100000.

Fixpoint find_alloc (tr : trace) (v : Z) : option event :=
  match tr with
  | [] => None
  | ev :: r => if v =? BASE + Z.of_nat (length r) then Some ev else find_alloc r v
  end.

Definition rw_ext (tr : trace) (f : N) (vs : list Z) : option Z :=
  let h := fold_left (fun a v => (a * 31 + v) mod 65521) vs (Z.of_N f + 7 * Z.of_nat (length tr)) in
  if h mod 29 =? 0 then None else Some (h mod 7).

Definition rw_prim (tr : trace) (p : prim) (v : Z) : Z :=
  match p with
  | PIdx _ i => match find_alloc tr v with
                | Some (KStruct _, vs) => nth (N.to_nat i) vs 0
                | Some (KClosure _ _, vs) => nth (N.to_nat i) vs 0
                | _ => (v * 5 + Z.of_N i) mod 17 - 3
                end
  | PIsPtr _ => if BASE <=? v then 1 else 0
  | PCast _ => v
  end.

Definition rw_clo (tr : trace) (v : Z) : option (N * Z) :=
  match find_alloc tr v with
  | Some (KClosure _ f, cx :: _) => Some (f, cx)
  | _ => None
  end.

Definition refw : world :=
  mkworld rw_ext (fun tr _ _ => BASE + Z.of_nat (length tr)) (fun s => 5000 + Z.of_N s) (fun z => 2 * z + 1) rw_prim rw_clo.

Definition arg_pool : list Z := [3; 0; 1; 5; 2; -1; 7; 4; 10; 6].
Definition arg_vector (k : nat) (j : nat) : list Z :=
  map (fun i => nth ((i * 7 + j * 3) mod 10) arg_pool 0) (seq 0 k).

Definition evk_eqb (a b : evk) : bool :=
  match a, b with
  | KExt f, KExt g => N.eqb f g
  | KStruct t, KStruct u => N.eqb t u
  | KClosure t f, KClosure u g => N.eqb t u && N.eqb f g
  | _, _ => false
  end.
Definition trace_eqb (a b : trace) : bool :=
  list_eqb (fun x y => evk_eqb (fst x) (fst y) && list_eqb Z.eqb (snd x) (snd y)) a b.

Definition outcome_eqb (a b : outcome) : bool :=
  match a, b with
  | Done v tr, Done v' tr' => (v =? v') && trace_eqb tr tr'
  | Trap tr, Trap tr' | Abort tr, Abort tr' => trace_eqb tr tr'
  | Stuck, Stuck | OutOfFuel, OutOfFuel => true
  | _, _ => false
  end.

(* 0: the source run is out of fuel (nothing is claimed); 1: same outcome; 2: different outcome;
   3: same outcome and the source run is Done (a subset of 1, counted separately) *)
Definition sem_case (fuel : nat) (P P' : program) (f : N) (args : list Z) : N :=
  match sem refw P f args fuel with
  | OutOfFuel => 0%N
  | o => if outcome_eqb o (sem refw P' f args fuel) then (match o with Done _ _ => 3 | _ => 1 end)%N else 2%N
  end.

Definition count (k : N) (l : list N) : N := N.of_nat (length (filter (N.eqb k) l)).

(* instances of the preservation theorem: every function whose body changed, on 3 argument vectors
   [source out of fuel; same; different; same and Done] *)
Definition inst_inline (fuel : nat) (P P' : program) : list N :=
  let rs := flat_map (fun f =>
                        match find_func P' (f_name f) with
                        | Some f' => if func_eqb f f' then []
                                     else map (fun j => sem_case fuel P P' (f_name f) (arg_vector (length (f_params f)) j)) (seq 0 3)
                        | None => [2%N]
                        end) P in
  [count 0 rs; (count 1 rs + count 3 rs)%N; count 2 rs; count 3 rs].
