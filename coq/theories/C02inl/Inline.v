(* C02inl - Gallina mirror of crates/samlang-optimization/src/inlining.rs over the whole-program MIR syntax of
   C01mir/Syntax.v.  Definitions only.

   WHAT THE RUST DOES (optimize_functions, called between the rounds of the per-function passes when
   `does_perform_inlining` is set):
     up to 5 rounds; in each round
       * estimator::get_functions_to_inline: cost of every function body (a sum over the statements);
         cost <= 20 : the function CAN BE INLINED, cost <= 1000 : the function CAN PERFORM inlining;
         no function can be inlined -> return the list unchanged;
       * the functions that can be inlined are moved into a HashMap (by name), the others stay in list order;
       * every other function that can perform inlining, and then every function of the map, is rewritten by
         perform_inline_rewrite_on_function: each statement `Call { callee: FunctionName(h), .. }` with h in the
         map and h <> the function being rewritten is replaced by the body of h (THE BODY h HAD BEFORE THIS ROUND),
         rewritten by inline_rewrite_stmts, followed - when the call had a return collector c - by
         `c = <rewritten return value of h> + 0`; IfElse / SingleIf / While bodies are traversed, an inlined
         body is not traversed again in the same round;
       * inline_rewrite_stmts renames every binder x of the callee to the string  prefix ++ x  where prefix is a
         new temporary name "_t<id>" taken from the heap for this call site (bind_with_mangled_name), replaces
         every parameter by the argument expression, and keeps a stacked context name -> expression: the two
         branches of an IfElse and the body of a SingleIf are scopes (what they bind is forgotten after them), the
         body of a While is NOT a scope; binding a name that is already bound panics (checked_bind);
       * the result list is sorted by function name.

   THE MODEL
     * `mangle : N -> name -> name` stands for string concatenation  prefix ++ name  (Corr.v instantiates it with
       an injective arithmetic encoding; the theorems hold for every mangle that is injective in the name);
       the prefixes come from a SUPPLY (list of prefix numbers, one per inlined call site, in traversal order), so
       that the output of the model can be compared for equality with the real output;
     * a panic of the Rust code (checked_bind on a bound name, unwrap of a missing binding, a callee variable bound
       to a literal) and an exhausted supply are `None`;
     * the stacked context is a flat association list handled functionally (a scope is left by going on with the
       list one had before it); cxbind fails when the name is bound anywhere in the list, as
       LocalStackedContext::insert reports a previous binding at any level;
     * which functions are inlined / perform inlining is a parameter (`pol`) of the round: the real policy is
       `cost_policy`; the preservation theorems quantify over every policy, and over an additional site filter
       `sel` (ordinal of the candidate call site inside the function) that the real pass does not have
       (sel = fun _ => true); with it, "inline exactly one call site" is an instance;
     * `chk = true` makes the model ALSO test, at every site it inlines, the side conditions under which the
       preservation theorem is proved (site_ok below) and fail when one does not hold; `chk = false` is the
       mirror of the code.  The tie evaluates both on every real program.
   Order of evaluation inside one statement follows the Rust struct-literal field order (e.g. Binary binds its
   name BEFORE rewriting its operands, Call rewrites callee and arguments BEFORE binding the collector). *)
From Coq Require Import ZArith NArith List Bool.
Import ListNotations.
From SV Require Import Common.Int32 C01mir.Syntax.

(* the number the harness gives to mir::INT_32_TYPE *)
Definition ty_int : ty := 0%N.

(* ---- estimator ---- *)
Fixpoint cost (s : stmt) : N :=
  let fix go (ss : list stmt) : N := match ss with [] => 0%N | s :: r => (cost s + go r)%N end in
  (match s with
   | SDecl _ _ => 0
   | SPrim _ (PIdx _ _) _ => 2
   | SPrim _ _ _ | SNot _ _ | SBin _ _ _ _ | SAssign _ _ => 1
   | SCall _ _ _ _ => 10
   | SIf _ s1 s2 fas => 1 + go s1 + go s2 + N.of_nat (length fas) * 2
   | SSIf _ _ ss => 1 + go ss
   | SBreak _ => 1
   | SWhile lvs ss _ => 1 + N.of_nat (length lvs) * 2 + go ss
   | SStruct _ _ es => 1 + N.of_nat (length es)
   | SClosure _ _ _ _ _ => 3
   end)%N.
Fixpoint cost_l (ss : list stmt) : N := match ss with [] => 0%N | s :: r => (cost s + cost_l r)%N end.
Definition fcost (f : func) : N := cost_l (f_body f).

Definition INLINE_THRESHOLD : N := 20.
Definition PERFORM_INLINE_THRESHOLD : N := 1000.

(* ---- names of a function (the set V the fresh names must avoid) ---- *)
Definition evars (e : expr) : list name := match e with EVar x _ => [x] | _ => [] end.
Definition cvars (c : callee) : list name := match c with CVar x _ => [x] | CFn _ _ _ => [] end.
Definition qvars (q : quad) : list name := evars (q_e1 q) ++ evars (q_e2 q).

(* every variable a statement reads *)
Fixpoint reads (s : stmt) : list name :=
  let fix go (ss : list stmt) : list name := match ss with [] => [] | s :: r => reads s ++ go r end in
  match s with
  | SBin _ _ e1 e2 => evars e1 ++ evars e2
  | SNot _ e | SPrim _ _ e | SBreak e | SAssign _ e | SClosure _ _ _ _ e => evars e
  | SCall c args _ _ => cvars c ++ flat_map evars args
  | SIf c s1 s2 fas => evars c ++ go s1 ++ go s2 ++ flat_map qvars fas
  | SSIf c _ ss => evars c ++ go ss
  | SWhile lvs ss _ => flat_map qvars lvs ++ go ss
  | SDecl _ _ => []
  | SStruct _ _ es => flat_map evars es
  end.
Fixpoint reads_l (ss : list stmt) : list name := match ss with [] => [] | s :: r => reads s ++ reads_l r end.

Definition fn_names (f : func) : list name :=
  f_params f ++ binders_l (f_body f) ++ assigned_l (f_body f) ++ reads_l (f_body f) ++ evars (f_ret f).

(* ---- scoping of a callee ----
   C01mir.Syntax.scoped with two relaxations: the loop values of a While whose body ends in an unconditional Break,
   and the final-assignment operands of an IfElse branch that ends in an unconditional Break, are never evaluated
   and need not be in scope (constant propagation leaves names of dropped statements in exactly those
   positions: C02deep's dead_final_operands class). *)
Definition is_break (s : stmt) : bool := match s with SBreak _ => true | _ => false end.
Fixpoint ends_break (ss : list stmt) : bool :=
  match ss with
  | [] => false
  | s :: r => match r with [] => is_break s | _ => ends_break r end
  end.

Fixpoint cscoped (S : list name) (s : stmt) : bool :=
  let fix go (S : list name) (ss : list stmt) : bool :=
    match ss with [] => true | s :: r => cscoped S s && go (defs s ++ S) r end in
  fresh_in S (defs s) &&
  match s with
  | SBin _ _ e1 e2 => in_scope S e1 && in_scope S e2
  | SNot _ e | SPrim _ _ e | SBreak e | SClosure _ _ _ _ e => in_scope S e
  | SAssign x e => in_scope S e && memb x S
  | SDecl _ _ => true
  | SCall c args _ _ => callee_in_scope S c && forallb (in_scope S) args
  | SStruct _ _ es => forallb (in_scope S) es
  | SIf c s1 s2 fas =>
      in_scope S c && go S s1 && go S s2 &&
      forallb (fun q => (ends_break s1 || in_scope (defs_l s1 ++ S) (q_e1 q)) &&
                        (ends_break s2 || in_scope (defs_l s2 ++ S) (q_e2 q))) fas
  | SSIf c _ ss => in_scope S c && go S ss
  | SWhile lvs ss _ =>
      fresh_in S (map q_name lvs) &&
      forallb (fun q => in_scope S (q_e1 q)) lvs &&
      go (map q_name lvs ++ S) ss &&
      forallb (fun q => ends_break ss || in_scope (defs_l ss ++ map q_name lvs ++ S) (q_e2 q)) lvs
  end.
Fixpoint cscoped_l (S : list name) (ss : list stmt) : bool :=
  match ss with [] => true | s :: r => cscoped S s && cscoped_l (defs s ++ S) r end.

(* a function that may be inlined: parameters pairwise distinct, reads in scope (up to dead operands), no Break
   outside a loop, LateInitAssignment never targets a parameter *)
Definition wf_callee (f : func) : bool :=
  nodupb (f_params f) &&
  cscoped_l (f_params f) (f_body f) &&
  in_scope (defs_l (f_body f) ++ f_params f) (f_ret f) &&
  no_break_l (f_body f) &&
  disjointb (assigned_l (f_body f)) (f_params f).

(* ---- the context of inline_rewrite ---- *)
Definition cxt := list (name * expr).
Fixpoint cxget (cx : cxt) (x : name) : option expr :=
  match cx with [] => None | (y, e) :: r => if N.eqb x y then Some e else cxget r x end.
(* LocalValueContextForOptimization::checked_bind *)
Definition cxbind (cx : cxt) (x : name) (e : expr) : option cxt :=
  match cxget cx x with Some _ => None | None => Some ((x, e) :: cx) end.

(* traversal of a statement list threading a state, in the option monad *)
Definition opt_list {A : Type} (f : stmt -> A -> option (stmt * A)) : list stmt -> A -> option (list stmt * A) :=
  fix go ss a :=
    match ss with
    | [] => Some ([], a)
    | s :: r => match f s a with
                | None => None
                | Some (s', a1) => match go r a1 with None => None | Some (r', a2) => Some (s' :: r', a2) end
                end
    end.
(* the same with flat_map *)
Definition flat_list {A : Type} (f : stmt -> A -> option (list stmt * A)) : list stmt -> A -> option (list stmt * A) :=
  fix go ss a :=
    match ss with
    | [] => Some ([], a)
    | s :: r => match f s a with
                | None => None
                | Some (l, a1) => match go r a1 with None => None | Some (l2, a2) => Some (l ++ l2, a2) end
                end
    end.

Section Rewrite.
  Variable mangle : N -> name -> name.
  Variable p : N.                         (* the prefix of this call site *)

  (* bind_with_mangled_name *)
  Definition bindm (cx : cxt) (x : name) (t : ty) : option (name * cxt) :=
    match cxbind cx x (EVar (mangle p x) t) with Some cx' => Some (mangle p x, cx') | None => None end.

  (* inline_rewrite_variable / _expr / _callee *)
  Definition rw_var (cx : cxt) (x : name) (t : ty) : expr :=
    match cxget cx x with Some e => e | None => EVar x t end.
  Definition rw_expr (cx : cxt) (e : expr) : expr :=
    match e with EVar x t => rw_var cx x t | _ => e end.
  Definition rw_callee (cx : cxt) (c : callee) : option callee :=
    match c with
    | CFn _ _ _ => Some c
    | CVar x t => match rw_var cx x t with EVar y u => Some (CVar y u) | _ => None end
    end.

  (* the final assignments of an IfElse: e1 rewritten in the context at the end of the first branch, e2 at the end
     of the second, names bound one after the other in the context of the IfElse *)
  Fixpoint bind_fas (cx1 cx2 : cxt) (fas : list quad) (cx : cxt) : option (list quad * cxt) :=
    match fas with
    | [] => Some ([], cx)
    | q :: r =>
        match bindm cx (q_name q) (q_ty q) with
        | None => None
        | Some (m, cx') =>
            match bind_fas cx1 cx2 r cx' with
            | None => None
            | Some (l, cx'') => Some (mkq m (q_ty q) (rw_expr cx1 (q_e1 q)) (rw_expr cx2 (q_e2 q)) :: l, cx'')
            end
        end
    end.

  (* loop variables: name bound, then the initial value rewritten (in the context that already has the name);
     the loop value is rewritten after the body *)
  Fixpoint bind_lvs (lvs : list quad) (cx : cxt) : option (list quad * cxt) :=
    match lvs with
    | [] => Some ([], cx)
    | q :: r =>
        match bindm cx (q_name q) (q_ty q) with
        | None => None
        | Some (m, cx') =>
            let i := rw_expr cx' (q_e1 q) in
            match bind_lvs r cx' with
            | None => None
            | Some (l, cx'') => Some (mkq m (q_ty q) i (q_e2 q) :: l, cx'')
            end
        end
    end.

  (* the type given to the variable a primitive defines *)
  Definition prim_ty (pr : prim) : ty :=
    match pr with PIdx t _ => t | PIsPtr _ => ty_int | PCast t => t end.

  (* inline_rewrite_stmt *)
  Fixpoint irw_stmt (s : stmt) (cx : cxt) {struct s} : option (stmt * cxt) :=
    match s with
    | SBin x op e1 e2 =>
        match bindm cx x ty_int with
        | None => None
        | Some (m, cx') => Some (SBin m op (rw_expr cx' e1) (rw_expr cx' e2), cx')
        end
    | SNot x e =>
        match bindm cx x ty_int with
        | None => None
        | Some (m, cx') => Some (SNot m (rw_expr cx' e), cx')
        end
    | SPrim x pr e =>
        match bindm cx x (prim_ty pr) with
        | None => None
        | Some (m, cx') => Some (SPrim m pr (rw_expr cx' e), cx')
        end
    | SCall c args rty ret =>
        match rw_callee cx c with
        | None => None
        | Some c' =>
            let args' := map (rw_expr cx) args in
            match ret with
            | None => Some (SCall c' args' rty None, cx)
            | Some r => match bindm cx r rty with
                        | None => None
                        | Some (m, cx') => Some (SCall c' args' rty (Some m), cx')
                        end
            end
        end
    | SIf c s1 s2 fas =>
        let c' := rw_expr cx c in
        match opt_list irw_stmt s1 cx with
        | None => None
        | Some (s1', cx1) =>
            match opt_list irw_stmt s2 cx with
            | None => None
            | Some (s2', cx2) =>
                match bind_fas cx1 cx2 fas cx with
                | None => None
                | Some (fas', cx') => Some (SIf c' s1' s2' fas', cx')
                end
            end
        end
    | SSIf c inv ss =>
        let c' := rw_expr cx c in
        match opt_list irw_stmt ss cx with
        | None => None
        | Some (ss', _) => Some (SSIf c' inv ss', cx)
        end
    | SBreak e => Some (SBreak (rw_expr cx e), cx)
    | SWhile lvs ss bc =>
        match bind_lvs lvs cx with
        | None => None
        | Some (lvs1, cxl) =>
            match opt_list irw_stmt ss cxl with
            | None => None
            | Some (ss', cxb) =>
                let lvs' := map (fun q => mkq (q_name q) (q_ty q) (q_e1 q) (rw_expr cxb (q_e2 q))) lvs1 in
                match bc with
                | None => Some (SWhile lvs' ss' None, cxb)
                | Some (b, t) => match bindm cxb b t with
                                 | None => None
                                 | Some (m, cx') => Some (SWhile lvs' ss' (Some (m, t)), cx')
                                 end
                end
            end
        end
    | SDecl x t =>
        match bindm cx x t with
        | None => None
        | Some (m, cx') => Some (SDecl m t, cx')
        end
    | SAssign x e =>
        match cxget cx x with
        | Some (EVar y _) => Some (SAssign y (rw_expr cx e), cx)
        | _ => None
        end
    | SStruct x t es =>
        match bindm cx x t with
        | None => None
        | Some (m, cx') => Some (SStruct m t (map (rw_expr cx') es), cx')
        end
    | SClosure x t f ft e =>
        match bindm cx x t with
        | None => None
        | Some (m, cx') => Some (SClosure m t f ft (rw_expr cx' e), cx')
        end
    end.
  Definition irw_stmts : list stmt -> cxt -> option (list stmt * cxt) := opt_list irw_stmt.

  (* Inline step 1: parameters bound to the argument expressions (zip: the shorter list decides) *)
  Fixpoint bind_params (ps : list name) (args : list expr) (cx : cxt) : option cxt :=
    match ps, args with
    | x :: pr, a :: ar => match cxbind cx x a with None => None | Some cx' => bind_params pr ar cx' end
    | _, _ => Some cx
    end.

  (* the statements that replace `ret = h(args)` *)
  Definition inline_body (hf : func) (args : list expr) (ret : option name) : option (list stmt) :=
    match bind_params (f_params hf) args [] with
    | None => None
    | Some cx0 =>
        match irw_stmts (f_body hf) cx0 with
        | None => None
        | Some (body', cx') =>
            Some (body' ++ match ret with
                           | Some c => [SBin c PLUS (rw_expr cx' (f_ret hf)) (EInt 0)]
                           | None => []
                           end)
        end
    end.

  (* side conditions of the preservation theorem at one call site; V = names of the function that is rewritten *)
  Definition site_ok (V : list name) (hf : func) (args : list expr) : bool :=
    wf_callee hf &&
    (length args =? length (f_params hf))%nat &&
    forallb (fun x => negb (memb (mangle p x) V)) (binders_l (f_body hf)).
End Rewrite.

(* ---- perform_inline_rewrite_on_function ---- *)
Section Perform.
  Variable mangle : N -> name -> name.
  Variable chk : bool.                 (* also test site_ok *)
  Variable can : N -> option func.     (* functions_that_can_be_inlined *)
  Variable sel : nat -> bool.          (* site filter by ordinal of the candidate (the real pass: always true) *)
  Variable cur : N.                    (* current_fn_name *)
  Variable V : list name.              (* names of the current function (used by chk only) *)

  (* state: ordinal of the next candidate site, remaining supply *)
  Definition pst := (nat * list N)%type.

  Fixpoint pir_stmt (s : stmt) (st : pst) {struct s} : option (list stmt * pst) :=
    match s with
    | SCall (CFn h _ _) args _ ret =>
        match can h with
        | Some hf =>
            if N.eqb h cur then Some ([s], st) else
            let '(k, sup) := st in
            if negb (sel k) then Some ([s], (S k, sup)) else
            match sup with
            | [] => None
            | p :: sup' =>
                if chk && negb (site_ok mangle p V hf args) then None else
                match inline_body mangle p hf args ret with
                | None => None
                | Some l => Some (l, (S k, sup'))
                end
            end
        | None => Some ([s], st)
        end
    | SIf c s1 s2 fas =>
        match flat_list pir_stmt s1 st with
        | None => None
        | Some (s1', st1) =>
            match flat_list pir_stmt s2 st1 with
            | None => None
            | Some (s2', st2) => Some ([SIf c s1' s2' fas], st2)
            end
        end
    | SSIf c inv ss =>
        match flat_list pir_stmt ss st with
        | None => None
        | Some (ss', st1) => Some ([SSIf c inv ss'], st1)
        end
    | SWhile lvs ss bc =>
        match flat_list pir_stmt ss st with
        | None => None
        | Some (ss', st1) => Some ([SWhile lvs ss' bc], st1)
        end
    | _ => Some ([s], st)
    end.
  Definition pir_stmts : list stmt -> pst -> option (list stmt * pst) := flat_list pir_stmt.
End Perform.

Definition with_body (f : func) (b : list stmt) : func :=
  mkfunc (f_name f) (f_params f) (f_atys f) (f_rty f) b (f_ret f).

(* perform_inline_rewrite_on_function: all candidate sites selected *)
Definition pir_func (mangle : N -> name -> name) (chk : bool) (can : N -> option func) (sel : nat -> bool)
    (f : func) (sup : list N) : option (func * list N) :=
  match pir_stmts mangle chk can sel (f_name f) (fn_names f) (f_body f) (0%nat, sup) with
  | None => None
  | Some (b, (_, sup')) => Some (with_body f b, sup')
  end.

(* ---- one round of optimize_functions ---- *)
Definition memN (x : N) (l : list N) : bool := existsb (N.eqb x) l.

(* inlining policy: which functions can be inlined, which can perform inlining *)
Record policy := mkpol { can_be_inlined : func -> bool; can_perform : func -> bool }.
Definition cost_policy : policy :=
  mkpol (fun f => (fcost f <=? INLINE_THRESHOLD)%N) (fun f => (fcost f <=? PERFORM_INLINE_THRESHOLD)%N).

(* stable insertion sort by function name (inlined.sort_by_key(|a| a.name); names are numbered in that order) *)
Fixpoint insert_fn (f : func) (l : list func) : list func :=
  match l with
  | [] => [f]
  | g :: r => if (f_name f <=? f_name g)%N then f :: l else g :: insert_fn f r
  end.
Definition sort_fns (l : list func) : list func := fold_right insert_fn [] l.

Section Round.
  Variable mangle : N -> name -> name.
  Variable chk : bool.
  Variable pol : policy.

  (* the rewriting of a list of functions, threading the supply; `perf` decides which ones are rewritten *)
  Fixpoint rewrite_all (can : N -> option func) (perf : func -> bool) (fs : list func) (sup : list N)
      : option (list func * list N) :=
    match fs with
    | [] => Some ([], sup)
    | f :: r =>
        if perf f then
          match pir_func mangle chk can (fun _ => true) f sup with
          | None => None
          | Some (f', sup1) =>
              match rewrite_all can perf r sup1 with None => None | Some (r', sup2) => Some (f' :: r', sup2) end
          end
        else
          match rewrite_all can perf r sup with None => None | Some (r', sup2) => Some (f :: r', sup2) end
    end.

  (* the names the estimator put into the two HashSets *)
  Definition inl_names (fs : list func) : list N := map f_name (filter (can_be_inlined pol) fs).
  Definition perf_names (fs : list func) : list N := map f_name (filter (can_perform pol) fs).

  (* None: a panic / supply exhausted / (chk) side condition violated; Some (None): nothing can be inlined, the
     loop of optimize_functions returns; Some (Some ..): the list after this round *)
  Definition round (fs : list func) (sup : list N) : option (option (list func * list N)) :=
    let inl := inl_names fs in
    match inl with
    | [] => Some None
    | _ =>
        if chk && negb (nodupb (map f_name fs)) then None else
        let inl_fs := filter (fun f => memN (f_name f) inl) fs in
        let others := filter (fun f => negb (memN (f_name f) inl)) fs in
        let can := find_func inl_fs in
        let perf := perf_names fs in
        match rewrite_all can (fun f => memN (f_name f) perf) others sup with
        | None => None
        | Some (o', sup1) =>
            match rewrite_all can (fun _ => true) inl_fs sup1 with
            | None => None
            | Some (i', sup2) => Some (Some (sort_fns (o' ++ i'), sup2))
            end
        end
    end.

  Fixpoint rounds (n : nat) (fs : list func) (sup : list N) : option (list func * list N) :=
    match n with
    | O => Some (fs, sup)
    | S n' =>
        match round fs sup with
        | None => None
        | Some None => Some (fs, sup)
        | Some (Some (fs', sup')) => rounds n' fs' sup'
        end
    end.
End Round.

(* optimize_functions *)
Definition optimize_functions (mangle : N -> name -> name) (chk : bool) (fs : program) (sup : list N)
    : option (program * list N) :=
  rounds mangle chk cost_policy 5 fs sup.

(* ---- inlining exactly one call site: the k-th candidate call (a call of another function of the program) in the
   body of function g, with prefix p ---- *)
Definition inline_site (mangle : N -> name -> name) (chk : bool) (P : program) (g : N) (k : nat) (p : N)
    : option program :=
  match find_func P g with
  | None => None
  | Some fn =>
      match pir_func mangle chk (find_func P) (Nat.eqb k) fn [p] with
      | None => None
      | Some (fn', _) => Some (map (fun f => if N.eqb (f_name f) g then fn' else f) P)
      end
  end.
