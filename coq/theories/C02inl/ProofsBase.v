(* C02inl - general facts used by the inlining and scalar-replacement proofs:
   small lemmas on names / environments, the direction-indexed result relation (one proof gives "more fuel on the
   right" and "more fuel on the left"), the generic loop lemma, and facts on exec_list. *)
From Coq Require Import ZArith NArith List Bool Lia.
Import ListNotations.
From SV Require Import Common.Int32 C01mir.Syntax C01mir.Sem C02inl.Inline.
Open Scope Z_scope.

(* ---------- small facts ---------- *)
Lemma memb_app x a b : memb x (a ++ b) = memb x a || memb x b.
Proof. unfold memb. apply existsb_app. Qed.

Lemma memb_In x l : memb x l = true <-> In x l.
Proof.
  unfold memb. rewrite existsb_exists. split.
  - intros [y [Hy He]]. apply N.eqb_eq in He. subst. exact Hy.
  - intro H. exists x. split; [exact H | apply N.eqb_refl].
Qed.

Lemma memb_false_In x l : memb x l = false <-> ~ In x l.
Proof.
  rewrite <- memb_In. destruct (memb x l); split; intro H; try reflexivity; try discriminate.
  exfalso. apply H. reflexivity.
Qed.

Lemma memb_cons x y l : memb x (y :: l) = N.eqb x y || memb x l.
Proof. reflexivity. Qed.

Lemma wrap32_idem z : wrap32 (wrap32 z) = wrap32 z.
Proof. apply wrap32_id. apply wrap32_in. Qed.

Lemma eval_wrapped w en e : wrap32 (eval w en e) = eval w en e.
Proof. unfold eval. apply wrap32_idem. Qed.

Lemma lookup_app_r x (a b : env) : memb x (map fst a) = false -> lookup x (a ++ b) = lookup x b.
Proof.
  induction a as [|[y v] a IH]; simpl; intro H; [reflexivity|].
  destruct (N.eqb x y); [discriminate|]. apply IH. exact H.
Qed.

Lemma lookup_combine_notin x ns (vs : list Z) en :
  memb x ns = false -> lookup x (combine ns vs ++ en) = lookup x en.
Proof.
  revert vs. induction ns as [|n ns IH]; intros vs H; simpl; [reflexivity|].
  destruct vs as [|v vs]; simpl; [reflexivity|].
  simpl in H. apply orb_false_iff in H. destruct H as [H1 H2]. rewrite H1. apply IH. exact H2.
Qed.

Lemma forallb_In {A} (f : A -> bool) l x : forallb f l = true -> In x l -> f x = true.
Proof. intros H Hi. rewrite forallb_forall in H. apply H. exact Hi. Qed.

Lemma disjointb_spec a b x : disjointb a b = true -> In x a -> memb x b = false.
Proof.
  unfold disjointb. intros H Hi. apply (forallb_In _ _ _ H) in Hi. apply negb_true_iff in Hi. exact Hi.
Qed.

Lemma fresh_in_spec S l : fresh_in S l = true -> nodupb l = true /\ forall x, In x l -> memb x S = false.
Proof.
  unfold fresh_in. intro H. apply andb_true_iff in H. destruct H as [H1 H2]. split; [exact H1|].
  intros x Hx. eapply disjointb_spec; eauto.
Qed.

Lemma Forall2_imp {A B} (P Q : A -> B -> Prop) l l' :
  (forall a b, P a b -> Q a b) -> Forall2 P l l' -> Forall2 Q l l'.
Proof. intros H F. induction F; constructor; auto. Qed.

(* ---------- the direction-indexed relations ----------
   d = true : the left run may be out of fuel where the right one is not (the right side has at least as much fuel)
   d = false: the right run may be out of fuel where the left one is not *)
Inductive rel_d (R : res -> res -> Prop) (d : bool) (r r' : res) : Prop :=
| rd_ok : R r r' -> rel_d R d r r'
| rd_l : d = true -> r = RFail FOof -> rel_d R d r r'
| rd_r : d = false -> r' = RFail FOof -> rel_d R d r r'.

Definition crel_d (d : bool) (c c' : cres) : Prop :=
  c = c' \/ (d = true /\ c = CFail FOof) \/ (d = false /\ c' = CFail FOof).

Definition fle (d : bool) (a b : nat) : Prop := if d then (a <= b)%nat else (b <= a)%nat.

Lemma rel_d_mono (R R' : res -> res -> Prop) d r r' :
  (R r r' -> R' r r') -> rel_d R d r r' -> rel_d R' d r r'.
Proof. intros H [H1|H1 H2|H1 H2]; [apply rd_ok; auto | apply rd_l; auto | apply rd_r; auto]. Qed.

Lemma crel_d_refl d c : crel_d d c c.
Proof. left. reflexivity. Qed.

(* results of loops: only Break and failures *)
Definition Rloop (K : env -> env -> Prop) (r r' : res) : Prop :=
  match r, r' with
  | RBreak v e t, RBreak v' e' t' => v = v' /\ t = t' /\ K e e'
  | RFail o, RFail o' => o = o'
  | _, _ => False
  end.

(* results of a loop body: Next (related for the next iteration), Break, failures *)
Definition Rbody (J K : env -> env -> Prop) (r r' : res) : Prop :=
  match r, r' with
  | RNext e t, RNext e' t' => t = t' /\ J e e'
  | RBreak v e t, RBreak v' e' t' => v = v' /\ t = t' /\ K e e'
  | RFail o, RFail o' => o = o'
  | _, _ => False
  end.

Lemma loop_rel d (I J K : env -> env -> Prop) body body' (next next' : env -> env) :
  (forall en en' tr, I en en' -> rel_d (Rbody J K) d (body en tr) (body' en' tr)) ->
  (forall e e', J e e' -> I (next e) (next' e')) ->
  forall n n' en en' tr, fle d n n' -> I en en' ->
    rel_d (Rloop K) d (loop body next n en tr) (loop body' next' n' en' tr).
Proof.
  intros Hb Hn n. induction n as [|n IH]; intros n' en en' tr Hf HI.
  - destruct d; simpl in Hf.
    + apply rd_l; reflexivity.
    + assert (n' = O) by lia. subst. apply rd_ok. simpl. reflexivity.
  - destruct n' as [|n'].
    + destruct d; simpl in Hf; [lia|]. apply rd_r; reflexivity.
    + simpl. destruct (Hb en en' tr HI) as [H|H1 H2|H1 H2].
      * destruct (body en tr) as [e1 t1|v1 e1 t1|o1]; destruct (body' en' tr) as [e2 t2|v2 e2 t2|o2];
          simpl in H; try contradiction.
        -- destruct H as [-> HJ]. apply IH; [destruct d; simpl in *; lia | apply Hn; exact HJ].
        -- apply rd_ok. simpl. exact H.
        -- apply rd_ok. simpl. exact H.
      * rewrite H2. apply rd_l; [exact H1 | reflexivity].
      * rewrite H2. apply rd_r; [exact H1 | reflexivity].
Qed.

(* ---------- exec_list ---------- *)
Lemma exec_list_app ex l1 l2 en tr :
  exec_list ex (l1 ++ l2) en tr =
  match exec_list ex l1 en tr with RNext e t => exec_list ex l2 e t | o => o end.
Proof.
  revert en tr. induction l1 as [|s l1 IH]; intros en tr; simpl; [reflexivity|].
  destruct (ex s en tr); try reflexivity. apply IH.
Qed.

Lemma exec_list_cons ex s r en tr :
  exec_list ex (s :: r) en tr = match ex s en tr with RNext e t => exec_list ex r e t | o => o end.
Proof. reflexivity. Qed.

Lemma exec_list_single ex s en tr : exec_list ex [s] en tr = ex s en tr.
Proof. simpl. destruct (ex s en tr); reflexivity. Qed.

(* a block that ends in an unconditional Break never ends normally *)
Lemma ends_break_not_next w cf lf ss :
  ends_break ss = true -> forall en tr e t, exec_list (exec w cf lf) ss en tr <> RNext e t.
Proof.
  induction ss as [|s r IH]; intros H en tr e t; [discriminate|].
  simpl in H. destruct r as [|s2 r2].
  - destruct s; try discriminate.
  - rewrite exec_list_cons. destruct (exec w cf lf s en tr); try discriminate. apply IH. exact H.
Qed.

(* a block without Break outside loops never ends in Break *)
Lemma no_break_both w cf lf :
  (forall s, no_break s = true -> forall en tr v e t, exec w cf lf s en tr <> RBreak v e t) /\
  (forall ss, no_break_l ss = true -> forall en tr v e t, exec_list (exec w cf lf) ss en tr <> RBreak v e t).
Proof.
  apply stmt_stmts_ind2.
  - intros x op e1 e2 _ en tr v e t. simpl. destruct (rt_binop op (eval w en e1) (eval w en e2)); discriminate.
  - intros; simpl; discriminate.
  - intros; simpl; discriminate.
  - intros c args rty ret _ en tr v e t. simpl. destruct c as [f a r0|x t0].
    + destruct (cf f (map (eval w en) args) tr); discriminate.
    + destruct (w_clo w tr (wrap32 (lookup x en))) as [[f cx]|]; [|discriminate].
      destruct (cf f (cx :: map (eval w en) args) tr); discriminate.
  - intros c s1 s2 fas IH1 IH2 H en tr v e t. simpl in H.
    change ((fix go (ss : list stmt) : bool := match ss with [] => true | s :: r => no_break s && go r end) s1)
      with (no_break_l s1) in H.
    change ((fix go (ss : list stmt) : bool := match ss with [] => true | s :: r => no_break s && go r end) s2)
      with (no_break_l s2) in H.
    apply andb_true_iff in H. destruct H as [H1 H2]. simpl.
    destruct (cond (eval w en c)) as [[|]|]; [| |discriminate].
    + specialize (IH1 H1 en tr). destruct (exec_list (exec w cf lf) s1 en tr); try discriminate.
      exfalso. eapply IH1. reflexivity.
    + specialize (IH2 H2 en tr). destruct (exec_list (exec w cf lf) s2 en tr); try discriminate.
      exfalso. eapply IH2. reflexivity.
  - intros c inv ss IH H en tr v e t. simpl in H.
    change ((fix go (ss : list stmt) : bool := match ss with [] => true | s :: r => no_break s && go r end) ss)
      with (no_break_l ss) in H.
    simpl. destruct (cond (eval w en c)) as [b|]; [|discriminate].
    destruct (xorb b inv); [|discriminate]. apply IH. exact H.
  - intros; discriminate.
  - intros lvs ss bc _ _ en tr v e t. simpl.
    destruct (loop (exec_list (exec w cf lf) ss) (bind_e2 w lvs) lf (bind_e1 w lvs en) tr); discriminate.
  - intros; simpl; discriminate.
  - intros; simpl; discriminate.
  - intros; simpl; discriminate.
  - intros; simpl; discriminate.
  - intros; simpl; discriminate.
  - intros s r IHs IHr H en tr v e t. simpl in H. apply andb_true_iff in H. destruct H as [H1 H2].
    rewrite exec_list_cons. specialize (IHs H1 en tr).
    destruct (exec w cf lf s en tr) as [e1 t1|v1 e1 t1|o1]; try discriminate.
    + apply IHr. exact H2.
    + exfalso. eapply IHs. reflexivity.
Qed.

(* ---------- agreement of two environments on a set of names ---------- *)
Definition agreeV (V : list name) (e e' : env) : Prop := forall x, memb x V = true -> lookup x e = lookup x e'.

Lemma agreeV_refl V e : agreeV V e e.
Proof. intros x _. reflexivity. Qed.

Lemma agreeV_trans V a b c : agreeV V a b -> agreeV V b c -> agreeV V a c.
Proof. intros H1 H2 x Hx. rewrite (H1 x Hx). apply H2. exact Hx. Qed.

Lemma agreeV_bind V e e' x v : agreeV V e e' -> agreeV V ((x, v) :: e) ((x, v) :: e').
Proof. intros H y Hy. simpl. destruct (N.eqb y x); [reflexivity | apply H; exact Hy]. Qed.

Lemma agreeV_bind_r V e e' x v : agreeV V e e' -> memb x V = false -> agreeV V e ((x, v) :: e').
Proof.
  intros H Hx y Hy. simpl. destruct (N.eqb y x) eqn:E.
  - apply N.eqb_eq in E. subst. congruence.
  - apply H. exact Hy.
Qed.

Definition evars_in (V : list name) (e : expr) : Prop := forall x, In x (evars e) -> memb x V = true.

Lemma eval_agree w V e e' ex : agreeV V e e' -> evars_in V ex -> eval w e ex = eval w e' ex.
Proof.
  intros H Hv. destruct ex as [z|z|s|x t]; try reflexivity.
  unfold eval. f_equal. apply H. apply Hv. simpl. left. reflexivity.
Qed.

Lemma map_eval_agree w V e e' es :
  agreeV V e e' -> (forall x, In x (flat_map evars es) -> memb x V = true) ->
  map (eval w e) es = map (eval w e') es.
Proof.
  intros H. induction es as [|a es IH]; intro Hv; simpl; [reflexivity|].
  f_equal.
  - eapply eval_agree; eauto. intros x Hx. apply Hv. simpl. apply in_or_app. left. exact Hx.
  - apply IH. intros x Hx. apply Hv. simpl. apply in_or_app. right. exact Hx.
Qed.
