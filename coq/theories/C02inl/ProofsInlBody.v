(* C02inl - the body of a callee, rewritten by inline_rewrite_stmts and run in the environment of the caller, simulates
   the body run in its own environment (Lemma body_sim).  The statement is indexed by a direction `d` (ProofsBase):
   d = true gives "every determined outcome of the call is an outcome of the inlined code", d = false the converse. *)
From Coq Require Import ZArith NArith List Bool Lia.
Import ListNotations.
From SV Require Import Common.Int32 C01mir.Syntax C01mir.Sem C02inl.Inline C02inl.ProofsBase.
Open Scope Z_scope.

(* ---------- the context ---------- *)
Lemma cxbind_inv cx x e cx' : cxbind cx x e = Some cx' -> cxget cx x = None /\ cx' = (x, e) :: cx.
Proof. unfold cxbind. destruct (cxget cx x); [discriminate|]. intro H. inversion H. auto. Qed.

Lemma bindm_inv mangle p cx x t m cx' :
  bindm mangle p cx x t = Some (m, cx') ->
  cxget cx x = None /\ m = mangle p x /\ cx' = (x, EVar (mangle p x) t) :: cx.
Proof.
  unfold bindm. destruct (cxbind cx x (EVar (mangle p x) t)) as [c|] eqn:E; [|discriminate].
  intro H. inversion H; subst. apply cxbind_inv in E. destruct E as [E1 E2]. auto.
Qed.

Definition Ext (cx cx' : cxt) : Prop := forall x e, cxget cx x = Some e -> cxget cx' x = Some e.

Lemma Ext_refl cx : Ext cx cx.
Proof. intros x e H. exact H. Qed.
Lemma Ext_trans a b c : Ext a b -> Ext b c -> Ext a c.
Proof. intros H1 H2 x e H. apply H2. apply H1. exact H. Qed.
Lemma Ext_bind cx x e : cxget cx x = None -> Ext cx ((x, e) :: cx).
Proof.
  intros Hn y e0 H. simpl. destruct (N.eqb y x) eqn:E; [|exact H].
  apply N.eqb_eq in E. subst. congruence.
Qed.

Section Body.
  Variable w : world.
  Variable d : bool.
  Variables cf callf' : callf_t.
  Variables lf0 lf : nat.
  Hypothesis Hcf : forall f vs tr, crel_d d (cf f vs tr) (callf' f vs tr).
  Hypothesis Hlf : fle d lf0 lf.
  Variable mangle : N -> name -> name.
  Variable p : N.
  Hypothesis Hinj : forall x y, mangle p x = mangle p y -> x = y.
  Variable V : list name.
  Variables Params Bnd : list name.
  Hypothesis Hfresh : forall b, In b Bnd -> memb (mangle p b) V = false.

  Notation bindm := (bindm mangle p).
  Notation rw_expr := (rw_expr).
  Notation irw_stmt := (irw_stmt mangle p).
  Notation irw_stmts := (irw_stmts mangle p).

  (* what a context entry can be: a parameter bound to an argument expression (its variable is a caller name), or a
     binder of the callee bound to its mangled name *)
  Definition CxWf (cx : cxt) : Prop :=
    forall x e, cxget cx x = Some e ->
      (In x Params /\ evars_in V e) \/ (In x Bnd /\ exists t, e = EVar (mangle p x) t).

  (* the callee environment ec and the caller environment e' agree through the context on the names in scope *)
  Definition Inv (S : list name) (cx : cxt) (ec e' : env) : Prop :=
    forall x, memb x S = true -> exists e, cxget cx x = Some e /\ wrap32 (lookup x ec) = eval w e' e.

  Lemma CxWf_bind cx x t : CxWf cx -> In x Bnd -> CxWf ((x, EVar (mangle p x) t) :: cx).
  Proof.
    intros H Hx y e Hg. simpl in Hg. destruct (N.eqb y x) eqn:E.
    - apply N.eqb_eq in E. subst. inversion Hg; subst. right. split; [exact Hx | eexists; reflexivity].
    - apply H. exact Hg.
  Qed.

  (* an entry of a well-formed context does not mention the mangled name of a binder other than its own *)
  Lemma entry_stable cx x e (ns : list name) (vs : list Z) E :
    CxWf cx -> cxget cx x = Some e -> (forall n, In n ns -> In n Bnd) -> memb x ns = false ->
    eval w (combine (map (mangle p) ns) vs ++ E) e = eval w E e.
  Proof.
    intros Hw Hg Hb Hx. destruct e as [z|z|s|y t]; try reflexivity.
    unfold eval. f_equal. apply lookup_combine_notin.
    apply memb_false_In. intro Hi. apply in_map_iff in Hi. destruct Hi as [n [Hn Hin]].
    destruct (Hw _ _ Hg) as [[_ Hv]|[_ [t' Ht]]].
    - assert (memb y V = true) by (apply Hv; simpl; left; reflexivity).
      rewrite <- Hn in H. rewrite (Hfresh n (Hb n Hin)) in H. discriminate.
    - inversion Ht as [[Hy Ht2]]. rewrite Hy in Hn. apply Hinj in Hn. rewrite Hn in Hin.
      apply memb_false_In in Hx. contradiction.
  Qed.

  Definition weq (v v' : Z) : Prop := wrap32 v = wrap32 v'.

  Lemma lookup_mangled ns : forall vs vs' x E E',
    In x ns -> Forall2 weq vs vs' -> length ns = length vs ->
    wrap32 (lookup x (combine ns vs ++ E)) = wrap32 (lookup (mangle p x) (combine (map (mangle p) ns) vs' ++ E')).
  Proof.
    induction ns as [|n ns IH]; intros vs vs' x E E' Hi HF Hl; [contradiction|].
    destruct vs as [|v vs]; [discriminate|]. inversion HF as [|v0 v' l l' Hv HF']; subst.
    simpl. destruct (N.eqb x n) eqn:En.
    - apply N.eqb_eq in En. subst. rewrite N.eqb_refl. exact Hv.
    - assert (Hm : N.eqb (mangle p x) (mangle p n) = false).
      { apply N.eqb_neq. intro Hc. apply Hinj in Hc. subst. rewrite N.eqb_refl in En. discriminate. }
      rewrite Hm. apply IH; [|exact HF'|simpl in Hl; lia].
      destruct Hi as [Hi|Hi]; [subst; rewrite N.eqb_refl in En; discriminate | exact Hi].
  Qed.

  Lemma Inv_rebind S0 cx0 E E' ns vs vs' S cx' :
    Inv S0 cx0 E E' -> CxWf cx0 ->
    (forall x, In x ns -> In x Bnd /\ exists t, cxget cx' x = Some (EVar (mangle p x) t)) ->
    (forall x, memb x S = true -> memb x ns = false -> memb x S0 = true /\ cxget cx' x = cxget cx0 x) ->
    Forall2 weq vs vs' -> length ns = length vs ->
    Inv (ns ++ S) cx' (combine ns vs ++ E) (combine (map (mangle p) ns) vs' ++ E').
  Proof.
    intros HI Hw Hns HS HF Hl x Hx. rewrite memb_app in Hx. destruct (memb x ns) eqn:En.
    - apply memb_In in En. destruct (Hns x En) as [_ [t Ht]]. exists (EVar (mangle p x) t). split; [exact Ht|].
      unfold eval. apply lookup_mangled; assumption.
    - simpl in Hx. destruct (HS x Hx En) as [H0 Hg]. destruct (HI x H0) as [e [He Hv]].
      exists e. split; [rewrite Hg; exact He|].
      rewrite lookup_combine_notin by exact En. rewrite Hv. symmetry.
      eapply entry_stable; eauto. intros n Hn. apply Hns. exact Hn.
  Qed.

  Lemma Inv_restrict S1 cx1 E E' S cx Ea Ea' :
    Inv S1 cx1 E E' -> Inv S cx Ea Ea' -> Ext cx cx1 -> (forall x, memb x S = true -> memb x S1 = true) ->
    Inv S cx E E'.
  Proof.
    intros H1 H0 Hext Hsub x Hx. destruct (H0 x Hx) as [e0 [Hg0 _]].
    destruct (H1 x (Hsub x Hx)) as [e [Hg Hv]]. rewrite (Hext _ _ Hg0) in Hg. inversion Hg; subst.
    exists e. split; assumption.
  Qed.

  (* one new binder *)
  Lemma Inv_bind1 S cx E E' x t v v' :
    Inv S cx E E' -> CxWf cx -> In x Bnd -> cxget cx x = None -> weq v v' ->
    Inv (x :: S) ((x, EVar (mangle p x) t) :: cx) ((x, v) :: E) ((mangle p x, v') :: E').
  Proof.
    intros HI Hw Hb Hn Hv.
    apply (Inv_rebind S cx E E' [x] [v] [v'] S ((x, EVar (mangle p x) t) :: cx)); auto.
    - intros y [Hy|[]]. subst. split; [exact Hb|]. exists t. simpl. rewrite N.eqb_refl. reflexivity.
    - intros y Hy Hny. split; [exact Hy|]. simpl in *. rewrite orb_false_r in Hny. rewrite Hny. reflexivity.
  Qed.

  Lemma eval_rw S cx cx1 ec e' ex :
    Inv S cx ec e' -> Ext cx cx1 -> in_scope S ex = true -> eval w ec ex = eval w e' (rw_expr cx1 ex).
  Proof.
    intros HI Hext Hs. destruct ex as [z|z|s|x t]; try reflexivity.
    simpl in Hs. destruct (HI x Hs) as [e0 [Hg Hv]]. simpl. unfold rw_var. rewrite (Hext _ _ Hg).
    rewrite <- Hv. reflexivity.
  Qed.

  Lemma map_eval_rw S cx cx1 ec e' es :
    Inv S cx ec e' -> Ext cx cx1 -> forallb (in_scope S) es = true ->
    map (eval w ec) es = map (eval w e') (map (rw_expr cx1) es).
  Proof.
    intros HI Hext. induction es as [|a es IH]; intro H; simpl; [reflexivity|].
    simpl in H. apply andb_true_iff in H. destruct H as [H1 H2]. f_equal; [eapply eval_rw; eauto | apply IH; exact H2].
  Qed.

  Lemma agreeV_mangled e' b v : In b Bnd -> agreeV V e' ((mangle p b, v) :: e').
  Proof. intro Hb. apply agreeV_bind_r; [apply agreeV_refl | apply Hfresh; exact Hb]. Qed.

  Lemma agreeV_mangled_many e' ns vs : (forall n, In n ns -> In n Bnd) -> agreeV V e' (combine (map (mangle p) ns) vs ++ e').
  Proof.
    intros Hb x Hx. symmetry. apply lookup_combine_notin. apply memb_false_In. intro Hi.
    apply in_map_iff in Hi. destruct Hi as [n [Hn Hin]]. subst. rewrite (Hfresh n (Hb n Hin)) in Hx. discriminate.
  Qed.

  (* ---------- static part: the context stays well formed and only grows ---------- *)
  Lemma bind_fas_static cx1 cx2 : forall fas cx fas' cx',
    bind_fas mangle p cx1 cx2 fas cx = Some (fas', cx') -> (forall b, In b (map q_name fas) -> In b Bnd) -> CxWf cx ->
    CxWf cx' /\ Ext cx cx' /\ map q_name fas' = map (mangle p) (map q_name fas) /\
    (forall x, In x (map q_name fas) -> exists t, cxget cx' x = Some (EVar (mangle p x) t)) /\
    (forall x, memb x (map q_name fas) = false -> cxget cx' x = cxget cx x) /\
    map q_e1 fas' = map (fun q => rw_expr cx1 (q_e1 q)) fas /\
    map q_e2 fas' = map (fun q => rw_expr cx2 (q_e2 q)) fas.
  Proof.
    induction fas as [|q r IH]; intros cx fas' cx' H Hb Hw; simpl in H.
    - inversion H; subst. repeat split; auto using Ext_refl. intros x [].
    - destruct (bindm cx (q_name q) (q_ty q)) as [[m c1]|] eqn:Eb; [|discriminate].
      destruct (bind_fas mangle p cx1 cx2 r c1) as [[l c2]|] eqn:Er; [|discriminate].
      inversion H; subst. apply bindm_inv in Eb. destruct Eb as (Hn & -> & ->).
      assert (Hq : In (q_name q) Bnd) by (apply Hb; simpl; left; reflexivity).
      destruct (IH _ _ _ Er) as (W & X & M & G & K & L1 & L2).
      { intros b Hi. apply Hb. simpl. right. exact Hi. }
      { apply CxWf_bind; assumption. }
      split; [exact W|]. split; [eapply Ext_trans; [apply Ext_bind; exact Hn | exact X]|].
      split; [simpl; f_equal; exact M|]. split; [|split; [|split]].
      + intros x [Hx|Hx].
        * subst. destruct (memb (q_name q) (map q_name r)) eqn:Em.
          -- apply G. apply memb_In. exact Em.
          -- exists (q_ty q). rewrite (K _ Em). simpl. rewrite N.eqb_refl. reflexivity.
        * apply G. exact Hx.
      + intros x Hx. simpl in Hx. apply orb_false_iff in Hx. destruct Hx as [Hx1 Hx2].
        rewrite (K _ Hx2). simpl. rewrite Hx1. reflexivity.
      + simpl. f_equal. exact L1.
      + simpl. f_equal. exact L2.
  Qed.

  Lemma bind_lvs_static : forall lvs cx lvs1 cxl,
    bind_lvs mangle p lvs cx = Some (lvs1, cxl) -> (forall b, In b (map q_name lvs) -> In b Bnd) -> CxWf cx ->
    CxWf cxl /\ Ext cx cxl /\ map q_name lvs1 = map (mangle p) (map q_name lvs) /\
    (forall x, In x (map q_name lvs) -> exists t, cxget cxl x = Some (EVar (mangle p x) t)) /\
    (forall x, memb x (map q_name lvs) = false -> cxget cxl x = cxget cx x) /\
    map q_e2 lvs1 = map q_e2 lvs /\
    Forall2 (fun q q1 => exists c, Ext cx c /\ Ext c cxl /\ q_e1 q1 = rw_expr c (q_e1 q)) lvs lvs1.
  Proof.
    induction lvs as [|q r IH]; intros cx lvs1 cxl H Hb Hw; simpl in H.
    - inversion H; subst. repeat split; auto using Ext_refl. intros x [].
    - destruct (bindm cx (q_name q) (q_ty q)) as [[m c1]|] eqn:Eb; [|discriminate].
      destruct (bind_lvs mangle p r c1) as [[l c2]|] eqn:Er; [|discriminate].
      inversion H; subst. apply bindm_inv in Eb. destruct Eb as (Hn & -> & ->).
      assert (Hq : In (q_name q) Bnd) by (apply Hb; simpl; left; reflexivity).
      destruct (IH _ _ _ Er) as (W & X & M & G & K & L2 & F).
      { intros b Hi. apply Hb. simpl. right. exact Hi. }
      { apply CxWf_bind; assumption. }
      assert (X0 : Ext cx ((q_name q, EVar (mangle p (q_name q)) (q_ty q)) :: cx)) by (apply Ext_bind; exact Hn).
      split; [exact W|]. split; [eapply Ext_trans; eauto|].
      split; [simpl; f_equal; exact M|]. split; [|split; [|split]].
      + intros x [Hx|Hx].
        * subst. destruct (memb (q_name q) (map q_name r)) eqn:Em.
          -- apply G. apply memb_In. exact Em.
          -- exists (q_ty q). rewrite (K _ Em). simpl. rewrite N.eqb_refl. reflexivity.
        * apply G. exact Hx.
      + intros x Hx. simpl in Hx. apply orb_false_iff in Hx. destruct Hx as [Hx1 Hx2].
        rewrite (K _ Hx2). simpl. rewrite Hx1. reflexivity.
      + simpl. f_equal. exact L2.
      + constructor.
        * eexists. split; [exact X0|]. split; [exact X | reflexivity].
        * eapply Forall2_imp; [|exact F]. intros a b [c [C1 [C2 C3]]]. exists c.
          split; [eapply Ext_trans; eauto|]. split; assumption.
  Qed.

  Lemma irw_static_both :
    (forall s cx s' cx', irw_stmt s cx = Some (s', cx') -> (forall b, In b (binders s) -> In b Bnd) -> CxWf cx ->
                         CxWf cx' /\ Ext cx cx') /\
    (forall ss cx ss' cx', irw_stmts ss cx = Some (ss', cx') -> (forall b, In b (binders_l ss) -> In b Bnd) -> CxWf cx ->
                           CxWf cx' /\ Ext cx cx').
  Proof.
    apply stmt_stmts_ind2.
    - (* SBin *) intros x op e1 e2 cx s' cx' H Hb Hw. simpl in H.
      destruct (bindm cx x ty_int) as [[m c1]|] eqn:Eb; [|discriminate]. inversion H; subst.
      apply bindm_inv in Eb. destruct Eb as (Hn & -> & ->).
      split; [apply CxWf_bind; [exact Hw | apply Hb; simpl; auto] | apply Ext_bind; exact Hn].
    - intros x e cx s' cx' H Hb Hw. simpl in H.
      destruct (bindm cx x ty_int) as [[m c1]|] eqn:Eb; [|discriminate]. inversion H; subst.
      apply bindm_inv in Eb. destruct Eb as (Hn & -> & ->).
      split; [apply CxWf_bind; [exact Hw | apply Hb; simpl; auto] | apply Ext_bind; exact Hn].
    - intros x pr e cx s' cx' H Hb Hw. simpl in H.
      destruct (bindm cx x (prim_ty pr)) as [[m c1]|] eqn:Eb; [|discriminate]. inversion H; subst.
      apply bindm_inv in Eb. destruct Eb as (Hn & -> & ->).
      split; [apply CxWf_bind; [exact Hw | apply Hb; simpl; auto] | apply Ext_bind; exact Hn].
    - (* SCall *) intros c args rty ret cx s' cx' H Hb Hw. simpl in H.
      destruct (rw_callee cx c) as [c'|]; [|discriminate].
      destruct ret as [r|].
      + destruct (bindm cx r rty) as [[m c1]|] eqn:Eb; [|discriminate]. inversion H; subst.
        apply bindm_inv in Eb. destruct Eb as (Hn & -> & ->).
        split; [apply CxWf_bind; [exact Hw | apply Hb; simpl; auto] | apply Ext_bind; exact Hn].
      + inversion H; subst. split; [exact Hw | apply Ext_refl].
    - (* SIf *) intros c s1 s2 fas IH1 IH2 cx s' cx' H Hb Hw. simpl in H.
      destruct (opt_list irw_stmt s1 cx) as [[s1' cx1]|]; [|discriminate].
      destruct (opt_list irw_stmt s2 cx) as [[s2' cx2]|]; [|discriminate].
      destruct (bind_fas mangle p cx1 cx2 fas cx) as [[fas' c3]|] eqn:Ef; [|discriminate].
      inversion H; subst. destruct (bind_fas_static _ _ _ _ _ _ Ef) as (W & X & _); auto.
      intros b Hi. apply Hb. simpl. apply in_or_app. right. apply in_or_app. right. exact Hi.
    - (* SSIf *) intros c inv ss IH cx s' cx' H Hb Hw. simpl in H.
      destruct (opt_list irw_stmt ss cx) as [[ss' cx1]|]; [|discriminate].
      inversion H; subst. split; [exact Hw | apply Ext_refl].
    - intros e cx s' cx' H Hb Hw. simpl in H. inversion H; subst. split; [exact Hw | apply Ext_refl].
    - (* SWhile *) intros lvs ss bc IH cx s' cx' H Hb Hw. simpl in H.
      destruct (bind_lvs mangle p lvs cx) as [[lvs1 cxl]|] eqn:El; [|discriminate].
      destruct (opt_list irw_stmt ss cxl) as [[ss' cxb]|] eqn:Es; [|discriminate].
      destruct (bind_lvs_static _ _ _ _ El) as (W1 & X1 & _); auto.
      { intros b Hi. apply Hb. simpl. apply in_or_app. left. exact Hi. }
      destruct (IH _ _ _ Es) as (W2 & X2); auto.
      { intros b Hi. apply Hb. simpl. apply in_or_app. right. apply in_or_app. left. exact Hi. }
      destruct bc as [[b t]|].
      + destruct (bindm cxb b t) as [[m c1]|] eqn:Eb; [|discriminate]. inversion H; subst.
        apply bindm_inv in Eb. destruct Eb as (Hn & -> & ->).
        split.
        * apply CxWf_bind; [exact W2|]. apply Hb. simpl. apply in_or_app. right. apply in_or_app. right. simpl. auto.
        * eapply Ext_trans; [exact X1|]. eapply Ext_trans; [exact X2|]. apply Ext_bind. exact Hn.
      + inversion H; subst. split; [exact W2 | eapply Ext_trans; eauto].
    - (* SDecl *) intros x t cx s' cx' H Hb Hw. simpl in H.
      destruct (bindm cx x t) as [[m c1]|] eqn:Eb; [|discriminate]. inversion H; subst.
      apply bindm_inv in Eb. destruct Eb as (Hn & -> & ->).
      split; [apply CxWf_bind; [exact Hw | apply Hb; simpl; auto] | apply Ext_bind; exact Hn].
    - (* SAssign *) intros x e cx s' cx' H Hb Hw. simpl in H.
      destruct (cxget cx x) as [[z|z|s|y u]|]; try discriminate. inversion H; subst. split; [exact Hw | apply Ext_refl].
    - intros x t es cx s' cx' H Hb Hw. simpl in H.
      destruct (bindm cx x t) as [[m c1]|] eqn:Eb; [|discriminate]. inversion H; subst.
      apply bindm_inv in Eb. destruct Eb as (Hn & -> & ->).
      split; [apply CxWf_bind; [exact Hw | apply Hb; simpl; auto] | apply Ext_bind; exact Hn].
    - intros x t f ft e cx s' cx' H Hb Hw. simpl in H.
      destruct (bindm cx x t) as [[m c1]|] eqn:Eb; [|discriminate]. inversion H; subst.
      apply bindm_inv in Eb. destruct Eb as (Hn & -> & ->).
      split; [apply CxWf_bind; [exact Hw | apply Hb; simpl; auto] | apply Ext_bind; exact Hn].
    - (* nil *) intros cx ss' cx' H _ Hw. simpl in H. inversion H; subst. split; [exact Hw | apply Ext_refl].
    - (* cons *) intros s r IHs IHr cx ss' cx' H Hb Hw. unfold Inline.irw_stmts in H. simpl in H.
      destruct (irw_stmt s cx) as [[s1 c1]|] eqn:E1; [|discriminate].
      destruct (opt_list irw_stmt r c1) as [[r1 c2]|] eqn:E2; [|discriminate].
      inversion H; subst.
      destruct (IHs _ _ _ E1) as (W1 & X1); auto.
      { intros b Hi. apply Hb. simpl. apply in_or_app. left. exact Hi. }
      destruct (IHr _ _ _ E2) as (W2 & X2); auto.
      { intros b Hi. apply Hb. simpl. apply in_or_app. right. exact Hi. }
      split; [exact W2 | eapply Ext_trans; eauto].
  Qed.

  (* ---------- unfolding of the nested fixpoints ---------- *)
  Lemma cscoped_SIf S c s1 s2 fas :
    cscoped S (SIf c s1 s2 fas) =
    fresh_in S (map q_name fas) &&
    (in_scope S c && cscoped_l S s1 && cscoped_l S s2 &&
     forallb (fun q => (ends_break s1 || in_scope (defs_l s1 ++ S) (q_e1 q)) &&
                       (ends_break s2 || in_scope (defs_l s2 ++ S) (q_e2 q))) fas).
  Proof. reflexivity. Qed.
  Lemma cscoped_SSIf S c inv ss : cscoped S (SSIf c inv ss) = fresh_in S [] && (in_scope S c && cscoped_l S ss).
  Proof. reflexivity. Qed.
  Lemma cscoped_SWhile S lvs ss bc :
    cscoped S (SWhile lvs ss bc) =
    fresh_in S (bc_names bc) &&
    (fresh_in S (map q_name lvs) && forallb (fun q => in_scope S (q_e1 q)) lvs &&
     cscoped_l (map q_name lvs ++ S) ss &&
     forallb (fun q => ends_break ss || in_scope (defs_l ss ++ map q_name lvs ++ S) (q_e2 q)) lvs).
  Proof. reflexivity. Qed.
  Lemma binders_SIf c s1 s2 fas : binders (SIf c s1 s2 fas) = binders_l s1 ++ binders_l s2 ++ map q_name fas.
  Proof. reflexivity. Qed.
  Lemma binders_SSIf c inv ss : binders (SSIf c inv ss) = binders_l ss.
  Proof. reflexivity. Qed.
  Lemma binders_SWhile lvs ss bc : binders (SWhile lvs ss bc) = map q_name lvs ++ binders_l ss ++ bc_names bc.
  Proof. reflexivity. Qed.
  Lemma assigned_SIf c s1 s2 fas : assigned (SIf c s1 s2 fas) = assigned_l s1 ++ assigned_l s2.
  Proof. reflexivity. Qed.
  Lemma assigned_SSIf c inv ss : assigned (SSIf c inv ss) = assigned_l ss.
  Proof. reflexivity. Qed.
  Lemma assigned_SWhile lvs ss bc : assigned (SWhile lvs ss bc) = assigned_l ss.
  Proof. reflexivity. Qed.

  Lemma Inv_sub S1 S cx E E' : Inv S1 cx E E' -> (forall x, memb x S = true -> memb x S1 = true) -> Inv S cx E E'.
  Proof. intros H Hs x Hx. apply H. apply Hs. exact Hx. Qed.

  (* ---------- the simulation ---------- *)
  Definition RB (S : list name) (cx : cxt) (S' : list name) (cx' : cxt) (e0 : env) (r r' : res) : Prop :=
    match r, r' with
    | RNext e t, RNext e' t' => t = t' /\ Inv S' cx' e e' /\ agreeV V e0 e'
    | RBreak v e t, RBreak v' e' t' => v = v' /\ t = t' /\ Inv S cx e e' /\ agreeV V e0 e'
    | RFail o, RFail o' => o = o'
    | _, _ => False
    end.

  Definition Pst (s : stmt) : Prop :=
    forall S cx s' cx' ec e' tr,
      cscoped S s = true -> (forall b, In b (binders s) -> In b Bnd) -> (forall x, In x (assigned s) -> ~ In x Params) ->
      CxWf cx -> irw_stmt s cx = Some (s', cx') -> Inv S cx ec e' ->
      rel_d (RB S cx (defs s ++ S) cx' e') d (exec w cf lf0 s ec tr) (exec w callf' lf s' e' tr).
  Definition Qst (ss : list stmt) : Prop :=
    forall S cx ss' cx' ec e' tr,
      cscoped_l S ss = true -> (forall b, In b (binders_l ss) -> In b Bnd) -> (forall x, In x (assigned_l ss) -> ~ In x Params) ->
      CxWf cx -> irw_stmts ss cx = Some (ss', cx') -> Inv S cx ec e' ->
      rel_d (RB S cx (defs_l ss ++ S) cx' e') d (exec_list (exec w cf lf0) ss ec tr) (exec_list (exec w callf' lf) ss' e' tr).

  Ltac one_binder Hb Hw H Eb Hn Hxb X x :=
    simpl in H;
    match type of H with
    | match bindm ?cx x ?t with _ => _ end = _ =>
        destruct (bindm cx x t) as [[?m ?c1]|] eqn:Eb; [|discriminate];
        inversion H; subst; clear H;
        apply bindm_inv in Eb; destruct Eb as (Hn & -> & ->);
        assert (Hxb : In x Bnd) by (apply Hb; simpl; auto);
        assert (X : Ext cx ((x, EVar (mangle p x) t) :: cx)) by (apply Ext_bind; exact Hn)
    end.

  Lemma weq_refl v : weq v v.
  Proof. reflexivity. Qed.

  Lemma sim_SBin x op e1 e2 : Pst (SBin x op e1 e2).
  Proof.
    intros S cx s' cx' ec e' tr Hsc Hb Ha Hw H HI. one_binder Hb Hw H Eb Hn Hxb X x.
    simpl in Hsc. apply andb_true_iff in Hsc. destruct Hsc as [_ Hsc]. apply andb_true_iff in Hsc. destruct Hsc as [H1 H2].
    simpl. rewrite <- (eval_rw _ _ _ _ _ _ HI X H1), <- (eval_rw _ _ _ _ _ _ HI X H2).
    destruct (rt_binop op (eval w ec e1) (eval w ec e2)) as [v|]; apply rd_ok; simpl; [|reflexivity].
    split; [reflexivity|]. split; [apply Inv_bind1; auto using weq_refl | apply agreeV_mangled; exact Hxb].
  Qed.

  Lemma sim_SNot x e : Pst (SNot x e).
  Proof.
    intros S cx s' cx' ec e' tr Hsc Hb Ha Hw H HI. one_binder Hb Hw H Eb Hn Hxb X x.
    simpl in Hsc. apply andb_true_iff in Hsc. destruct Hsc as [_ H1].
    simpl. rewrite <- (eval_rw _ _ _ _ _ _ HI X H1). apply rd_ok; simpl.
    split; [reflexivity|]. split; [apply Inv_bind1; auto using weq_refl | apply agreeV_mangled; exact Hxb].
  Qed.

  Lemma sim_SPrim x pr e : Pst (SPrim x pr e).
  Proof.
    intros S cx s' cx' ec e' tr Hsc Hb Ha Hw H HI. one_binder Hb Hw H Eb Hn Hxb X x.
    simpl in Hsc. apply andb_true_iff in Hsc. destruct Hsc as [_ H1].
    simpl. rewrite <- (eval_rw _ _ _ _ _ _ HI X H1). apply rd_ok; simpl.
    split; [reflexivity|]. split; [apply Inv_bind1; auto using weq_refl | apply agreeV_mangled; exact Hxb].
  Qed.

  Lemma sim_SDecl x t : Pst (SDecl x t).
  Proof.
    intros S cx s' cx' ec e' tr Hsc Hb Ha Hw H HI. one_binder Hb Hw H Eb Hn Hxb X x.
    simpl. apply rd_ok; simpl.
    split; [reflexivity|]. split; [apply Inv_bind1; auto using weq_refl | apply agreeV_mangled; exact Hxb].
  Qed.

  Lemma sim_SStruct x t es : Pst (SStruct x t es).
  Proof.
    intros S cx s' cx' ec e' tr Hsc Hb Ha Hw H HI. one_binder Hb Hw H Eb Hn Hxb X x.
    simpl in Hsc. apply andb_true_iff in Hsc. destruct Hsc as [_ H1].
    simpl. rewrite <- (map_eval_rw _ _ _ _ _ _ HI X H1). apply rd_ok; simpl.
    split; [reflexivity|]. split; [apply Inv_bind1; auto using weq_refl | apply agreeV_mangled; exact Hxb].
  Qed.

  Lemma sim_SClosure x t f ft e : Pst (SClosure x t f ft e).
  Proof.
    intros S cx s' cx' ec e' tr Hsc Hb Ha Hw H HI. one_binder Hb Hw H Eb Hn Hxb X x.
    simpl in Hsc. apply andb_true_iff in Hsc. destruct Hsc as [_ H1].
    simpl. rewrite <- (eval_rw _ _ _ _ _ _ HI X H1). apply rd_ok; simpl.
    split; [reflexivity|]. split; [apply Inv_bind1; auto using weq_refl | apply agreeV_mangled; exact Hxb].
  Qed.

  Lemma sim_SBreak e : Pst (SBreak e).
  Proof.
    intros S cx s' cx' ec e' tr Hsc Hb Ha Hw H HI. simpl in H. inversion H; subst; clear H.
    simpl in Hsc. rename Hsc into H1.
    simpl. rewrite <- (eval_rw _ _ _ _ _ _ HI (Ext_refl _) H1). apply rd_ok; simpl.
    split; [reflexivity|]. split; [reflexivity|]. split; [exact HI | apply agreeV_refl].
  Qed.

  Lemma sim_SAssign x e : Pst (SAssign x e).
  Proof.
    intros S cx s' cx' ec e' tr Hsc Hb Ha Hw H HI. simpl in H.
    destruct (cxget cx x) as [[z|z|s|y u]|] eqn:Eg; try discriminate. inversion H; subst; clear H.
    simpl in Hsc. apply andb_true_iff in Hsc. destruct Hsc as [H1 H2].
    destruct (Hw _ _ Eg) as [[Hp _]|[Hxb [t Ht]]].
    { exfalso. eapply Ha; [simpl; left; reflexivity | exact Hp]. }
    inversion Ht; subst.
    simpl. rewrite <- (eval_rw _ _ _ _ _ _ HI (Ext_refl _) H1). apply rd_ok; simpl.
    split; [reflexivity|]. split; [|apply agreeV_mangled; exact Hxb].
    eapply Inv_sub.
    - apply (Inv_rebind S cx' ec e' [x] [eval w ec e] [eval w ec e] S cx'); auto.
      + intros y [Hy|[]]. subst. split; [exact Hxb|]. exists t. exact Eg.
      + constructor; [reflexivity | constructor].
    - intros y Hy. simpl. rewrite Hy. apply orb_true_r.
  Qed.

  Lemma sim_SCall c args rty ret : Pst (SCall c args rty ret).
  Proof.
    intros S cx s' cx' ec e' tr Hsc Hb Ha Hw H HI. simpl in H.
    destruct (rw_callee cx c) as [c'|] eqn:Ec; [|discriminate].
    simpl in Hsc. apply andb_true_iff in Hsc. destruct Hsc as [_ Hsc]. apply andb_true_iff in Hsc. destruct Hsc as [H1 H2].
    assert (Hargs : map (eval w ec) args = map (eval w e') (map (rw_expr cx) args)).
    { eapply map_eval_rw; eauto using Ext_refl. }
    (* what happens once the callee has answered *)
    assert (Hafter : forall v t,
      match ret with
      | None => Some (SCall c' (map (rw_expr cx) args) rty None, cx)
      | Some r => match bindm cx r rty with
                  | Some (m, cx1) => Some (SCall c' (map (rw_expr cx) args) rty (Some m), cx1)
                  | None => None
                  end
      end = Some (s', cx') ->
      exists ret', s' = SCall c' (map (rw_expr cx) args) rty ret' /\
        RB S cx (opt_names ret ++ S) cx' e' (RNext (bind_opt ret v ec) t) (RNext (bind_opt ret' v e') t)).
    { intros v t H0. destruct ret as [r|].
      - destruct (bindm cx r rty) as [[m c1]|] eqn:Eb; [|discriminate]. inversion H0; subst.
        apply bindm_inv in Eb. destruct Eb as (Hn & -> & ->).
        assert (Hxb : In r Bnd) by (apply Hb; simpl; auto).
        eexists. split; [reflexivity|]. simpl.
        split; [reflexivity|]. split; [apply Inv_bind1; auto using weq_refl | apply agreeV_mangled; exact Hxb].
      - inversion H0; subst. eexists. split; [reflexivity|]. simpl.
        split; [reflexivity|]. split; [exact HI | apply agreeV_refl]. }
    destruct c as [f atys frty|x tx].
    - simpl in Ec. inversion Ec; subst c'. 
      destruct (Hcf f (map (eval w ec) args) tr) as [E|[[Ed E]|[Ed E]]].
      + destruct (cf f (map (eval w ec) args) tr) as [v t|o] eqn:Ecf.
        * destruct (Hafter v t H) as [ret' [-> HR]]. apply rd_ok. simpl. rewrite Ecf. rewrite <- Hargs, <- E. exact HR.
        * destruct ret as [r|].
          -- destruct (bindm cx r rty) as [[m c1]|]; [|discriminate]. inversion H; subst.
             apply rd_ok. simpl. rewrite Ecf. rewrite <- Hargs, <- E. reflexivity.
          -- inversion H; subst. apply rd_ok. simpl. rewrite Ecf. rewrite <- Hargs, <- E. reflexivity.
      + apply rd_l; [exact Ed|]. simpl. rewrite E. reflexivity.
      + apply rd_r; [exact Ed|].
        destruct ret as [r|].
        * destruct (bindm cx r rty) as [[m c1]|]; [|discriminate]. inversion H; subst.
          simpl. rewrite <- Hargs, E. reflexivity.
        * inversion H; subst. simpl. rewrite <- Hargs, E. reflexivity.
    - simpl in H1. destruct (HI x H1) as [e0 [Hg Hv]].
      simpl in Ec. unfold rw_var in Ec. rewrite Hg in Ec. destruct e0 as [z|z|s0|y u]; try discriminate.
      inversion Ec; subst c'. unfold eval in Hv.
      assert (Hsame : forall ret', exec w callf' lf (SCall (CVar y u) (map (rw_expr cx) args) rty ret') e' tr =
                match w_clo w tr (wrap32 (lookup x ec)) with
                | None => RFail FStuck
                | Some (f, c0) => match callf' f (c0 :: map (eval w ec) args) tr with
                                  | CRet v tr' => RNext (bind_opt ret' v e') tr'
                                  | CFail o => RFail o
                                  end
                end).
      { intro ret'. simpl. rewrite Hv, Hargs. reflexivity. }
      simpl exec at 1.
      destruct (w_clo w tr (wrap32 (lookup x ec))) as [[f c0]|] eqn:Eclo.
      + destruct (Hcf f (c0 :: map (eval w ec) args) tr) as [E|[[Ed E]|[Ed E]]].
        * destruct (cf f (c0 :: map (eval w ec) args) tr) as [v t|o] eqn:Ecf.
          -- destruct (Hafter v t H) as [ret' [-> HR]]. apply rd_ok. rewrite Hsame, <- E. exact HR.
          -- destruct ret as [r|].
             ++ destruct (bindm cx r rty) as [[m c1]|]; [|discriminate]. inversion H; subst.
                apply rd_ok. rewrite Hsame, <- E. simpl. reflexivity.
             ++ inversion H; subst. apply rd_ok. rewrite Hsame, <- E. simpl. reflexivity.
        * apply rd_l; [exact Ed|]. rewrite E. reflexivity.
        * apply rd_r; [exact Ed|].
          destruct ret as [r|].
          -- destruct (bindm cx r rty) as [[m c1]|]; [|discriminate]. inversion H; subst.
             rewrite Hsame, E. reflexivity.
          -- inversion H; subst. rewrite Hsame, E. reflexivity.
      + destruct ret as [r|].
        * destruct (bindm cx r rty) as [[m c1]|]; [|discriminate]. inversion H; subst.
          apply rd_ok. rewrite Hsame. simpl. reflexivity.
        * inversion H; subst. apply rd_ok. rewrite Hsame. simpl. reflexivity.
  Qed.

  Lemma in_app3 {A} (x : A) a b c : In x b -> In x (a ++ b ++ c).
  Proof. intro H. apply in_or_app. right. apply in_or_app. left. exact H. Qed.

  Lemma sim_nil : Qst [].
  Proof.
    intros S cx ss' cx' ec e' tr _ _ _ Hw H HI. unfold Inline.irw_stmts in H. simpl in H. inversion H; subst.
    apply rd_ok. simpl. split; [reflexivity|]. split; [exact HI | apply agreeV_refl].
  Qed.

  Lemma sim_cons s r : Pst s -> Qst r -> Qst (s :: r).
  Proof.
    intros IHs IHr S cx ss' cx' ec e' tr Hsc Hb Ha Hw H HI. unfold Inline.irw_stmts in H. simpl in H.
    destruct (irw_stmt s cx) as [[s1 c1]|] eqn:E1; [|discriminate].
    destruct (opt_list irw_stmt r c1) as [[r1 c2]|] eqn:E2; [|discriminate].
    inversion H; subst; clear H.
    simpl in Hsc. apply andb_true_iff in Hsc. destruct Hsc as [Hs1 Hs2].
    assert (Hb1 : forall b, In b (binders s) -> In b Bnd) by (intros b Hi; apply Hb; simpl; apply in_or_app; left; exact Hi).
    assert (Hb2 : forall b, In b (binders_l r) -> In b Bnd) by (intros b Hi; apply Hb; simpl; apply in_or_app; right; exact Hi).
    assert (Ha1 : forall x, In x (assigned s) -> ~ In x Params) by (intros x Hi; apply Ha; simpl; apply in_or_app; left; exact Hi).
    assert (Ha2 : forall x, In x (assigned_l r) -> ~ In x Params) by (intros x Hi; apply Ha; simpl; apply in_or_app; right; exact Hi).
    destruct (proj1 (irw_static_both) _ _ _ _ E1 Hb1 Hw) as [W1 X1].
    rewrite !exec_list_cons.
    destruct (IHs S cx s1 c1 ec e' tr Hs1 Hb1 Ha1 Hw E1 HI) as [HR|Hd HR|Hd HR].
    - destruct (exec w cf lf0 s ec tr) as [e1 t1|v1 e1 t1|o1]; destruct (exec w callf' lf s1 e' tr) as [e2 t2|v2 e2 t2|o2];
        simpl in HR; try contradiction.
      + destruct HR as (-> & HI1 & HA1).
        destruct (IHr (defs s ++ S) c1 r1 cx' e1 e2 t2 Hs2 Hb2 Ha2 W1 E2 HI1) as [HR2|Hd2 HR2|Hd2 HR2].
        * apply rd_ok.
          destruct (exec_list (exec w cf lf0) r e1 t2) as [e3 t3|v3 e3 t3|o3];
            destruct (exec_list (exec w callf' lf) r1 e2 t2) as [e4 t4|v4 e4 t4|o4]; simpl in HR2; try contradiction; simpl.
          -- destruct HR2 as (-> & HI2 & HA2). split; [reflexivity|]. split.
             ++ simpl. rewrite <- app_assoc. exact HI2.
             ++ eapply agreeV_trans; eauto.
          -- destruct HR2 as (-> & -> & HI2 & HA2). split; [reflexivity|]. split; [reflexivity|]. split.
             ++ eapply Inv_restrict; [exact HI2 | exact HI | exact X1 |].
                intros x Hx. rewrite memb_app. rewrite Hx. apply orb_true_r.
             ++ eapply agreeV_trans; eauto.
          -- exact HR2.
        * apply rd_l; assumption.
        * apply rd_r; assumption.
      + apply rd_ok. simpl. exact HR.
      + apply rd_ok. simpl. exact HR.
    - rewrite HR. apply rd_l; [exact Hd | reflexivity].
    - rewrite HR. apply rd_r; [exact Hd | reflexivity].
  Qed.

  Lemma sim_SSIf c inv ss : Qst ss -> Pst (SSIf c inv ss).
  Proof.
    intros IH S cx s' cx' ec e' tr Hsc Hb Ha Hw H HI. simpl in H.
    destruct (opt_list irw_stmt ss cx) as [[ss' cx1]|] eqn:E1; [|discriminate]. inversion H; subst; clear H.
    rewrite cscoped_SSIf in Hsc. apply andb_true_iff in Hsc. destruct Hsc as [_ Hsc].
    apply andb_true_iff in Hsc. destruct Hsc as [Hc Hs].
    rewrite binders_SSIf in Hb. rewrite assigned_SSIf in Ha.
    destruct (proj2 (irw_static_both) _ _ _ _ E1 Hb Hw) as [W1 X1].
    simpl. rewrite <- (eval_rw _ _ _ _ _ _ HI (Ext_refl _) Hc).
    destruct (cond (eval w ec c)) as [b|]; [|apply rd_ok; simpl; reflexivity].
    destruct (xorb b inv).
    - destruct (IH S cx' ss' cx1 ec e' tr Hs Hb Ha Hw E1 HI) as [HR|Hd HR|Hd HR]; [|apply rd_l; assumption|apply rd_r; assumption].
      apply rd_ok.
      destruct (exec_list (exec w cf lf0) ss ec tr) as [e3 t3|v3 e3 t3|o3];
        destruct (exec_list (exec w callf' lf) ss' e' tr) as [e4 t4|v4 e4 t4|o4]; simpl in HR; try contradiction; simpl.
      + destruct HR as (-> & HI2 & HA2). split; [reflexivity|]. split; [|exact HA2].
        eapply Inv_restrict; [exact HI2 | exact HI | exact X1 |].
        intros x Hx. rewrite memb_app. rewrite Hx. apply orb_true_r.
      + exact HR.
      + exact HR.
    - apply rd_ok. simpl. split; [reflexivity|]. split; [exact HI | apply agreeV_refl].
  Qed.

  (* simultaneous bindings: the values bound on both sides *)
  Lemma Forall2_map2 {A B C D} (R : C -> D -> Prop) (f : A -> C) (g : B -> D) l l' :
    Forall2 (fun a b => R (f a) (g b)) l l' -> Forall2 R (map f l) (map g l').
  Proof. intro F. induction F; simpl; constructor; auto. Qed.

  Lemma Forall2_same_map {A C D} (R : C -> D -> Prop) (f : A -> C) (g : A -> D) l :
    (forall a, In a l -> R (f a) (g a)) -> Forall2 R (map f l) (map g l).
  Proof.
    induction l as [|a l IH]; intro H; simpl; constructor.
    - apply H. left. reflexivity.
    - apply IH. intros b Hb. apply H. right. exact Hb.
  Qed.

  Lemma sim_SIf c s1 s2 fas : Qst s1 -> Qst s2 -> Pst (SIf c s1 s2 fas).
  Proof.
    intros IH1 IH2 S cx s' cx' ec e' tr Hsc Hb Ha Hw H HI. simpl in H.
    destruct (opt_list irw_stmt s1 cx) as [[s1' cx1]|] eqn:E1; [|discriminate].
    destruct (opt_list irw_stmt s2 cx) as [[s2' cx2]|] eqn:E2; [|discriminate].
    destruct (bind_fas mangle p cx1 cx2 fas cx) as [[fas' c3]|] eqn:Ef; [|discriminate].
    inversion H; subst; clear H.
    rewrite cscoped_SIf in Hsc. apply andb_true_iff in Hsc. destruct Hsc as [_ Hsc].
    apply andb_true_iff in Hsc. destruct Hsc as [Hsc Hfa]. apply andb_true_iff in Hsc. destruct Hsc as [Hsc Hs2].
    apply andb_true_iff in Hsc. destruct Hsc as [Hc Hs1].
    rewrite binders_SIf in Hb. rewrite assigned_SIf in Ha.
    assert (Hb1 : forall b, In b (binders_l s1) -> In b Bnd) by (intros b Hi; apply Hb; apply in_or_app; left; exact Hi).
    assert (Hb2 : forall b, In b (binders_l s2) -> In b Bnd) by (intros b Hi; apply Hb; apply in_app3; exact Hi).
    assert (Hb3 : forall b, In b (map q_name fas) -> In b Bnd)
      by (intros b Hi; apply Hb; apply in_or_app; right; apply in_or_app; right; exact Hi).
    assert (Ha1 : forall x, In x (assigned_l s1) -> ~ In x Params) by (intros x Hi; apply Ha; apply in_or_app; left; exact Hi).
    assert (Ha2 : forall x, In x (assigned_l s2) -> ~ In x Params) by (intros x Hi; apply Ha; apply in_or_app; right; exact Hi).
    destruct (proj2 (irw_static_both) _ _ _ _ E1 Hb1 Hw) as [W1 X1].
    destruct (proj2 (irw_static_both) _ _ _ _ E2 Hb2 Hw) as [W2 X2].
    destruct (bind_fas_static _ _ _ _ _ _ Ef Hb3 Hw) as (W3 & X3 & M3 & G3 & K3 & L1 & L2).
    simpl. rewrite <- (eval_rw _ _ _ _ _ _ HI (Ext_refl _) Hc).
    destruct (cond (eval w ec c)) as [[|]|]; [| |apply rd_ok; simpl; reflexivity].
    - (* first branch *)
      destruct (IH1 S cx s1' cx1 ec e' tr Hs1 Hb1 Ha1 Hw E1 HI) as [HR|Hd HR|Hd HR];
        [|rewrite HR; apply rd_l; [exact Hd|reflexivity] |rewrite HR; apply rd_r; [exact Hd|reflexivity]].
      apply rd_ok.
      destruct (exec_list (exec w cf lf0) s1 ec tr) as [e3 t3|v3 e3 t3|o3] eqn:EL;
        destruct (exec_list (exec w callf' lf) s1' e' tr) as [e4 t4|v4 e4 t4|o4]; simpl in HR; try contradiction; simpl.
      + destruct HR as (-> & HI2 & HA2). split; [reflexivity|].
        assert (Hnb : ends_break s1 = false).
        { destruct (ends_break s1) eqn:Eb; [|reflexivity]. exfalso. eapply ends_break_not_next; eauto. }
        unfold bind_e1. rewrite M3.
        split.
        * apply (Inv_rebind (defs_l s1 ++ S) cx1 e3 e4 (map q_name fas)
                  (map (fun q => eval w e3 (q_e1 q)) fas) (map (fun q => eval w e4 (q_e1 q)) fas') S cx');
            [exact HI2 | exact W1 | | | |].
          -- intros x Hx. split; [apply Hb3; exact Hx | apply G3; exact Hx].
          -- intros x Hx Hn. split; [rewrite memb_app, Hx; apply orb_true_r|].
             rewrite (K3 _ Hn). destruct (HI x Hx) as [e0 [Hg _]]. rewrite Hg. symmetry. apply X1. exact Hg.
          -- replace (map (fun q => eval w e4 (q_e1 q)) fas') with (map (eval w e4) (map q_e1 fas')) by (rewrite map_map; reflexivity).
             rewrite L1, map_map. apply Forall2_same_map. intros q Hq. unfold weq. f_equal.
             eapply eval_rw; [exact HI2 | apply Ext_refl |].
             apply (forallb_In _ _ _ Hfa) in Hq. apply andb_true_iff in Hq. destruct Hq as [Hq _].
             rewrite Hnb in Hq. exact Hq.
          -- rewrite !map_length. reflexivity.
        * eapply agreeV_trans; [exact HA2|]. apply agreeV_mangled_many. exact Hb3.
      + exact HR.
      + exact HR.
    - (* second branch *)
      destruct (IH2 S cx s2' cx2 ec e' tr Hs2 Hb2 Ha2 Hw E2 HI) as [HR|Hd HR|Hd HR];
        [|rewrite HR; apply rd_l; [exact Hd|reflexivity] |rewrite HR; apply rd_r; [exact Hd|reflexivity]].
      apply rd_ok.
      destruct (exec_list (exec w cf lf0) s2 ec tr) as [e3 t3|v3 e3 t3|o3] eqn:EL;
        destruct (exec_list (exec w callf' lf) s2' e' tr) as [e4 t4|v4 e4 t4|o4]; simpl in HR; try contradiction; simpl.
      + destruct HR as (-> & HI2 & HA2). split; [reflexivity|].
        assert (Hnb : ends_break s2 = false).
        { destruct (ends_break s2) eqn:Eb; [|reflexivity]. exfalso. eapply ends_break_not_next; eauto. }
        unfold bind_e2. rewrite M3.
        split.
        * apply (Inv_rebind (defs_l s2 ++ S) cx2 e3 e4 (map q_name fas)
                  (map (fun q => eval w e3 (q_e2 q)) fas) (map (fun q => eval w e4 (q_e2 q)) fas') S cx');
            [exact HI2 | exact W2 | | | |].
          -- intros x Hx. split; [apply Hb3; exact Hx | apply G3; exact Hx].
          -- intros x Hx Hn. split; [rewrite memb_app, Hx; apply orb_true_r|].
             rewrite (K3 _ Hn). destruct (HI x Hx) as [e0 [Hg _]]. rewrite Hg. symmetry. apply X2. exact Hg.
          -- replace (map (fun q => eval w e4 (q_e2 q)) fas') with (map (eval w e4) (map q_e2 fas')) by (rewrite map_map; reflexivity).
             rewrite L2, map_map. apply Forall2_same_map. intros q Hq. unfold weq. f_equal.
             eapply eval_rw; [exact HI2 | apply Ext_refl |].
             apply (forallb_In _ _ _ Hfa) in Hq. apply andb_true_iff in Hq. destruct Hq as [_ Hq].
             rewrite Hnb in Hq. exact Hq.
          -- rewrite !map_length. reflexivity.
        * eapply agreeV_trans; [exact HA2|]. apply agreeV_mangled_many. exact Hb3.
      + exact HR.
      + exact HR.
  Qed.

  Lemma Forall2_imp_in {A B} (P Q : A -> B -> Prop) l l' :
    (forall a b, In a l -> P a b -> Q a b) -> Forall2 P l l' -> Forall2 Q l l'.
  Proof.
    intros H F. induction F; constructor.
    - apply H; [left; reflexivity | assumption].
    - apply IHF. intros a b Ha. apply H. right. exact Ha.
  Qed.

  Lemma sim_SWhile lvs ss bc : Qst ss -> Pst (SWhile lvs ss bc).
  Proof.
    intros IH S cx s' cx' ec e' tr Hsc Hb Ha Hw H HI. simpl in H.
    destruct (bind_lvs mangle p lvs cx) as [[lvs1 cxl]|] eqn:El; [|discriminate].
    destruct (opt_list irw_stmt ss cxl) as [[ss' cxb]|] eqn:Es; [|discriminate].
    rewrite cscoped_SWhile in Hsc. apply andb_true_iff in Hsc. destruct Hsc as [_ Hsc].
    apply andb_true_iff in Hsc. destruct Hsc as [Hsc Hlv2]. apply andb_true_iff in Hsc. destruct Hsc as [Hsc Hss].
    apply andb_true_iff in Hsc. destruct Hsc as [_ Hlv1].
    rewrite binders_SWhile in Hb. rewrite assigned_SWhile in Ha.
    assert (Hb1 : forall b, In b (map q_name lvs) -> In b Bnd) by (intros b Hi; apply Hb; apply in_or_app; left; exact Hi).
    assert (Hb2 : forall b, In b (binders_l ss) -> In b Bnd) by (intros b Hi; apply Hb; apply in_app3; exact Hi).
    assert (Hb3 : forall b, In b (bc_names bc) -> In b Bnd)
      by (intros b Hi; apply Hb; apply in_or_app; right; apply in_or_app; right; exact Hi).
    destruct (bind_lvs_static _ _ _ _ El Hb1 Hw) as (W1 & X1 & M1 & G1 & K1 & L2 & F1).
    destruct (proj2 (irw_static_both) _ _ _ _ Es Hb2 W1) as [W2 X2].
    remember (map (fun q => mkq (q_name q) (q_ty q) (q_e1 q) (rw_expr cxb (q_e2 q))) lvs1) as lvs' eqn:Elv.
    assert (N' : map q_name lvs' = map (mangle p) (map q_name lvs)).
    { rewrite Elv, map_map. simpl. exact M1. }
    assert (Q1 : map q_e1 lvs' = map q_e1 lvs1).
    { rewrite Elv, map_map. reflexivity. }
    assert (Q2 : map q_e2 lvs' = map (fun q => rw_expr cxb (q_e2 q)) lvs).
    { rewrite Elv, map_map. simpl. rewrite <- (map_map q_e2 (rw_expr cxb)), L2, map_map. reflexivity. }
    assert (Hdom : forall x, memb x S = true -> cxget cxl x = cxget cx x /\ cxget cxb x = cxget cx x).
    { intros x Hx. destruct (HI x Hx) as [e0 [Hg _]]. rewrite Hg. split; [apply X1; exact Hg | apply X2; apply X1; exact Hg]. }
    set (I := fun e e1 : env => Inv (map q_name lvs ++ S) cxl e e1 /\ agreeV V e' e1).
    set (J := fun e e1 : env => Inv (defs_l ss ++ map q_name lvs ++ S) cxb e e1 /\ agreeV V e' e1 /\ ends_break ss = false).
    (* the loop variables are initialised *)
    assert (HI0 : I (bind_e1 w lvs ec) (bind_e1 w lvs' e')).
    { unfold I, bind_e1. rewrite N'. split.
      - apply (Inv_rebind S cx ec e' (map q_name lvs) (map (fun q => eval w ec (q_e1 q)) lvs)
                 (map (fun q => eval w e' (q_e1 q)) lvs') S cxl); [exact HI | exact Hw | | | |].
        + intros x Hx. split; [apply Hb1; exact Hx | apply G1; exact Hx].
        + intros x Hx Hn. split; [exact Hx | apply K1; exact Hn].
        + replace (map (fun q => eval w e' (q_e1 q)) lvs') with (map (eval w e') (map q_e1 lvs')) by (rewrite map_map; reflexivity).
          rewrite Q1, map_map. apply Forall2_map2. eapply Forall2_imp_in; [|exact F1].
          intros q q1 Hq [c0 [C1 [C2 C3]]]. simpl. rewrite C3. unfold weq. f_equal.
          eapply eval_rw; [exact HI | exact C1 |]. apply (forallb_In _ _ _ Hlv1) in Hq. exact Hq.
        + rewrite !map_length. reflexivity.
      - apply agreeV_mangled_many. exact Hb1. }
    (* one iteration *)
    assert (Hbody : forall en en1 tr0, I en en1 ->
              rel_d (Rbody J I) d (exec_list (exec w cf lf0) ss en tr0) (exec_list (exec w callf' lf) ss' en1 tr0)).
    { intros en en1 tr0 [HIe HAe].
      destruct (IH (map q_name lvs ++ S) cxl ss' cxb en en1 tr0 Hss Hb2 Ha W1 Es HIe) as [HR|Hd HR|Hd HR];
        [|apply rd_l; assumption|apply rd_r; assumption].
      apply rd_ok.
      destruct (exec_list (exec w cf lf0) ss en tr0) as [e3 t3|v3 e3 t3|o3] eqn:EL;
        destruct (exec_list (exec w callf' lf) ss' en1 tr0) as [e4 t4|v4 e4 t4|o4]; simpl in HR; try contradiction; simpl.
      - destruct HR as (-> & HI2 & HA2). split; [reflexivity|]. unfold J. split; [exact HI2|].
        split; [eapply agreeV_trans; eauto|].
        destruct (ends_break ss) eqn:Eb; [|reflexivity]. exfalso. eapply ends_break_not_next; eauto.
      - destruct HR as (-> & -> & HI2 & HA2). split; [reflexivity|]. split; [reflexivity|]. unfold I.
        split; [exact HI2 | eapply agreeV_trans; eauto].
      - exact HR. }
    (* the loop variables are updated *)
    assert (Hnext : forall e e1, J e e1 -> I (bind_e2 w lvs e) (bind_e2 w lvs' e1)).
    { intros e e1 (HJ & HAj & Hnb). unfold I, bind_e2. rewrite N'. split.
      - apply (Inv_rebind (defs_l ss ++ map q_name lvs ++ S) cxb e e1 (map q_name lvs) (map (fun q => eval w e (q_e2 q)) lvs)
                 (map (fun q => eval w e1 (q_e2 q)) lvs') S cxl); [exact HJ | exact W2 | | | |].
        + intros x Hx. split; [apply Hb1; exact Hx | apply G1; exact Hx].
        + intros x Hx Hn. split.
          * rewrite !memb_app, Hx. rewrite !orb_true_r. reflexivity.
          * destruct (Hdom x Hx) as [D1 D2]. rewrite D1, D2. reflexivity.
        + replace (map (fun q => eval w e1 (q_e2 q)) lvs') with (map (eval w e1) (map q_e2 lvs')) by (rewrite map_map; reflexivity).
          rewrite Q2, map_map. apply Forall2_same_map. intros q Hq. unfold weq. f_equal.
          eapply eval_rw; [exact HJ | apply Ext_refl |].
          apply (forallb_In _ _ _ Hlv2) in Hq. rewrite Hnb in Hq. exact Hq.
        + rewrite !map_length. reflexivity.
      - eapply agreeV_trans; [exact HAj|]. apply agreeV_mangled_many. exact Hb1. }
    pose proof (loop_rel d I J I _ _ _ _ Hbody Hnext lf0 lf _ _ tr Hlf HI0) as HL.
    destruct bc as [[b t]|].
    - destruct (bindm cxb b t) as [[m c1]|] eqn:Eb; [|discriminate]. inversion H; subst s' cx'; clear H.
      apply bindm_inv in Eb. destruct Eb as (Hn & -> & ->).
      assert (Hbb : In b Bnd) by (apply Hb3; simpl; auto).
      simpl. destruct HL as [HR|Hd HR|Hd HR]; [|rewrite HR; apply rd_l; [exact Hd|reflexivity]|rewrite HR; apply rd_r; [exact Hd|reflexivity]].
      apply rd_ok.
      destruct (loop (exec_list (exec w cf lf0) ss) (bind_e2 w lvs) lf0 (bind_e1 w lvs ec) tr) as [e3 t3|v3 e3 t3|o3];
        destruct (loop (exec_list (exec w callf' lf) ss') (bind_e2 w lvs') lf (bind_e1 w lvs' e') tr) as [e4 t4|v4 e4 t4|o4];
        simpl in HR; try contradiction; simpl.
      + destruct HR as (-> & -> & [HIb HAb]). split; [reflexivity|]. split.
        * apply (Inv_rebind (map q_name lvs ++ S) cxl e3 e4 [b] [v4] [v4] S ((b, EVar (mangle p b) t) :: cxb));
            [exact HIb | exact W1 | | | |].
          -- intros x [Hx|[]]. subst. split; [exact Hbb|]. exists t. simpl. rewrite N.eqb_refl. reflexivity.
          -- intros x Hx Hnx. split; [rewrite memb_app, Hx; apply orb_true_r|].
             simpl in Hnx. rewrite orb_false_r in Hnx. simpl. rewrite Hnx.
             destruct (Hdom x Hx) as [D1 D2]. rewrite D1, D2. reflexivity.
          -- constructor; [reflexivity | constructor].
          -- reflexivity.
        * eapply agreeV_trans; [exact HAb|]. apply agreeV_mangled. exact Hbb.
      + exact HR.
    - inversion H; subst s' cx'; clear H.
      simpl. destruct HL as [HR|Hd HR|Hd HR]; [|rewrite HR; apply rd_l; [exact Hd|reflexivity]|rewrite HR; apply rd_r; [exact Hd|reflexivity]].
      apply rd_ok.
      destruct (loop (exec_list (exec w cf lf0) ss) (bind_e2 w lvs) lf0 (bind_e1 w lvs ec) tr) as [e3 t3|v3 e3 t3|o3];
        destruct (loop (exec_list (exec w callf' lf) ss') (bind_e2 w lvs') lf (bind_e1 w lvs' e') tr) as [e4 t4|v4 e4 t4|o4];
        simpl in HR; try contradiction; simpl.
      + destruct HR as (-> & -> & [HIb HAb]). split; [reflexivity|]. split; [|exact HAb].
        apply (Inv_rebind (map q_name lvs ++ S) cxl e3 e4 [] [] [] S cxb); [exact HIb | exact W1 | | | |].
        * intros x [].
        * intros x Hx _. split; [rewrite memb_app, Hx; apply orb_true_r|].
          destruct (Hdom x Hx) as [D1 D2]. rewrite D1, D2. reflexivity.
        * constructor.
        * reflexivity.
      + exact HR.
  Qed.

  Theorem body_sim_both : (forall s, Pst s) /\ (forall ss, Qst ss).
  Proof.
    apply stmt_stmts_ind2.
    - apply sim_SBin.
    - apply sim_SNot.
    - apply sim_SPrim.
    - apply sim_SCall.
    - apply sim_SIf.
    - apply sim_SSIf.
    - apply sim_SBreak.
    - apply sim_SWhile.
    - apply sim_SDecl.
    - apply sim_SAssign.
    - apply sim_SStruct.
    - apply sim_SClosure.
    - apply sim_nil.
    - apply sim_cons.
  Qed.
End Body.
