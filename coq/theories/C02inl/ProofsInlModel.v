(* C02inl - the functions of Inline.v (run with chk = true) produce programs related by prog_rel:
   one call site (inline_site), one round with any policy, the rounds of optimize_functions. *)
From Coq Require Import ZArith NArith List Bool Lia Permutation.
Import ListNotations.
From SV Require Import Common.Int32 C01mir.Syntax C01mir.Sem C02inl.Inline C02inl.ProofsBase C02inl.ProofsInlBody
  C02inl.ProofsInlProg C02inl.ProofsInlPass.
Open Scope Z_scope.

(* ---------- find_func ---------- *)
Lemma find_func_In P f fn : find_func P f = Some fn -> In fn P /\ f_name fn = f.
Proof.
  induction P as [|g P IH]; simpl; [discriminate|].
  destruct (N.eqb (f_name g) f) eqn:E.
  - intro H. inversion H; subst. apply N.eqb_eq in E. auto.
  - intro H. destruct (IH H). auto.
Qed.

Lemma find_func_none P f : find_func P f = None -> ~ In f (map f_name P).
Proof.
  induction P as [|g P IH]; simpl; [tauto|].
  destruct (N.eqb (f_name g) f) eqn:E; [discriminate|]. intros H [Hc|Hc].
  - subst. rewrite N.eqb_refl in E. discriminate.
  - exact (IH H Hc).
Qed.

Lemma find_func_notin P f : ~ In f (map f_name P) -> find_func P f = None.
Proof.
  induction P as [|g P IH]; simpl; [reflexivity|]. intro H.
  destruct (N.eqb (f_name g) f) eqn:E.
  - apply N.eqb_eq in E. exfalso. apply H. left. exact E.
  - apply IH. intro Hc. apply H. right. exact Hc.
Qed.

Lemma find_func_nodup P fn : NoDup (map f_name P) -> In fn P -> find_func P (f_name fn) = Some fn.
Proof.
  induction P as [|g P IH]; simpl; intros Hn Hi; [contradiction|].
  inversion Hn as [|a l Hna Hn']; subst. destruct Hi as [Hi|Hi].
  - subst. rewrite N.eqb_refl. reflexivity.
  - destruct (N.eqb (f_name g) (f_name fn)) eqn:E.
    + apply N.eqb_eq in E. exfalso. apply Hna. rewrite E. apply in_map. exact Hi.
    + apply IH; assumption.
Qed.

Lemma nodupb_NoDup l : nodupb l = true -> NoDup l.
Proof.
  induction l as [|x l IH]; simpl; intro H; [constructor|].
  apply andb_true_iff in H. destruct H as [H1 H2]. apply negb_true_iff in H1. constructor.
  - apply memb_false_In. exact H1.
  - apply IH. exact H2.
Qed.

(* ---------- sorting and partitioning are permutations ---------- *)
Lemma insert_fn_perm f l : Permutation (insert_fn f l) (f :: l).
Proof.
  induction l as [|g l IH]; simpl; [apply Permutation_refl|].
  destruct (f_name f <=? f_name g)%N; [apply Permutation_refl|].
  eapply Permutation_trans; [apply perm_skip; exact IH | apply perm_swap].
Qed.

Lemma sort_fns_perm l : Permutation (sort_fns l) l.
Proof.
  induction l as [|f l IH]; simpl; [constructor|].
  eapply Permutation_trans; [apply insert_fn_perm | apply perm_skip; exact IH].
Qed.

Lemma partition_perm {A} (q : A -> bool) l : Permutation (filter (fun x => negb (q x)) l ++ filter q l) l.
Proof.
  induction l as [|x l IH]; simpl; [constructor|].
  destruct (q x); simpl.
  - eapply Permutation_trans; [apply Permutation_sym; apply Permutation_middle|]. apply perm_skip. exact IH.
  - apply perm_skip. exact IH.
Qed.

Section Model.
  Variable mangle : N -> name -> name.
  Hypothesis mangle_inj : forall p x y, mangle p x = mangle p y -> x = y.

  (* ---------- inl_stmts is monotone in the set of inlinable functions ---------- *)
  Lemma inl_mono_both (can can' : N -> option func) V :
    (forall h hf, can h = Some hf -> can' h = Some hf) ->
    (forall s l, inl_stmt mangle can V s l -> inl_stmt mangle can' V s l) /\
    (forall ss l, inl_stmts mangle can V ss l -> inl_stmts mangle can' V ss l).
  Proof.
    intro Hc. apply inl_both_ind; intros.
    - apply IS_same; assumption.
    - apply IS_if; assumption.
    - apply IS_sif; assumption.
    - apply IS_while; assumption.
    - eapply IS_inline; eauto.
    - apply ISS_nil.
    - apply ISS_cons; assumption.
  Qed.

  Lemma fn_rel_mono can can' fn fn' :
    (forall h hf, can h = Some hf -> can' h = Some hf) -> fn_rel mangle can fn fn' -> fn_rel mangle can' fn fn'.
  Proof.
    intros Hc (A & B & C & D). repeat split; try assumption. eapply (proj2 (inl_mono_both can can' _ Hc)); eauto.
  Qed.

  (* ---------- perform_inline_rewrite ---------- *)
  Lemma pir_rel_both can sel cur V :
    (forall s st l st', pir_stmt mangle true can sel cur V s st = Some (l, st') -> inl_stmt mangle can V s l) /\
    (forall ss st l st', pir_stmts mangle true can sel cur V ss st = Some (l, st') -> inl_stmts mangle can V ss l).
  Proof.
    apply stmt_stmts_ind2.
    - intros x op e1 e2 st l st' H. simpl in H. inversion H; subst. apply IS_same. reflexivity.
    - intros x e st l st' H. simpl in H. inversion H; subst. apply IS_same. reflexivity.
    - intros x pr e st l st' H. simpl in H. inversion H; subst. apply IS_same. reflexivity.
    - (* SCall *) intros c args rty ret st l st' H. simpl in H. destruct c as [h atys rty0|x t].
      + destruct (can h) as [hf|] eqn:Ec.
        * destruct (N.eqb h cur); [inversion H; subst; apply IS_same; reflexivity|].
          destruct st as [k sup]. destruct (negb (sel k)); [inversion H; subst; apply IS_same; reflexivity|].
          destruct sup as [|p sup']; [discriminate|].
          destruct (site_ok mangle p V hf args) eqn:Eok; simpl in H; [|discriminate].
          destruct (inline_body mangle p hf args ret) as [l0|] eqn:Eb; [|discriminate].
          inversion H; subst. eapply IS_inline; eauto.
        * inversion H; subst. apply IS_same. reflexivity.
      + inversion H; subst. apply IS_same. reflexivity.
    - (* SIf *) intros c s1 s2 fas IH1 IH2 st l st' H. simpl in H.
      destruct (flat_list (pir_stmt mangle true can sel cur V) s1 st) as [[s1' st1]|] eqn:E1; [|discriminate].
      destruct (flat_list (pir_stmt mangle true can sel cur V) s2 st1) as [[s2' st2]|] eqn:E2; [|discriminate].
      inversion H; subst. apply IS_if; [eapply IH1 | eapply IH2]; eauto.
    - intros c inv ss IH st l st' H. simpl in H.
      destruct (flat_list (pir_stmt mangle true can sel cur V) ss st) as [[ss' st1]|] eqn:E1; [|discriminate].
      inversion H; subst. apply IS_sif. eapply IH; eauto.
    - intros e st l st' H. simpl in H. inversion H; subst. apply IS_same. reflexivity.
    - intros lvs ss bc IH st l st' H. simpl in H.
      destruct (flat_list (pir_stmt mangle true can sel cur V) ss st) as [[ss' st1]|] eqn:E1; [|discriminate].
      inversion H; subst. apply IS_while. eapply IH; eauto.
    - intros x t st l st' H. simpl in H. inversion H; subst. apply IS_same. reflexivity.
    - intros x e st l st' H. simpl in H. inversion H; subst. apply IS_same. reflexivity.
    - intros x t es st l st' H. simpl in H. inversion H; subst. apply IS_same. reflexivity.
    - intros x t f ft e st l st' H. simpl in H. inversion H; subst. apply IS_same. reflexivity.
    - intros st l st' H. unfold pir_stmts in H. simpl in H. inversion H; subst. apply ISS_nil.
    - intros s r IHs IHr st l st' H. unfold pir_stmts in H. simpl in H.
      destruct (pir_stmt mangle true can sel cur V s st) as [[l1 st1]|] eqn:E1; [|discriminate].
      destruct (flat_list (pir_stmt mangle true can sel cur V) r st1) as [[l2 st2]|] eqn:E2; [|discriminate].
      inversion H; subst. apply ISS_cons; [eapply IHs | eapply IHr]; eauto.
  Qed.

  Lemma pir_func_rel can sel f sup f' sup' :
    pir_func mangle true can sel f sup = Some (f', sup') -> fn_rel mangle can f f'.
  Proof.
    unfold pir_func. intro H.
    destruct (pir_stmts mangle true can sel (f_name f) (fn_names f) (f_body f) (0%nat, sup)) as [[b [k s]]|] eqn:E; [|discriminate].
    inversion H; subst. unfold fn_rel, with_body. simpl. repeat split; try reflexivity.
    eapply (proj2 (pir_rel_both can sel (f_name f) (fn_names f))); eauto.
  Qed.

  (* ---------- one call site ---------- *)
  Lemma find_func_map_replace P g fn' f :
    f_name fn' = g ->
    find_func (map (fun h => if N.eqb (f_name h) g then fn' else h) P) f =
    match find_func P f with Some h => Some (if N.eqb (f_name h) g then fn' else h) | None => None end.
  Proof.
    intro Hn. induction P as [|h P IH]; simpl; [reflexivity|].
    destruct (N.eqb (f_name h) g) eqn:Eg.
    - simpl. rewrite Hn. apply N.eqb_eq in Eg. rewrite Eg.
      destruct (N.eqb g f) eqn:Ef; [rewrite Eg, N.eqb_refl; reflexivity | exact IH].
    - simpl. destruct (N.eqb (f_name h) f) eqn:Ef; [rewrite Eg; reflexivity | exact IH].
  Qed.

  Theorem inline_site_rel P g k p P' : inline_site mangle true P g k p = Some P' -> prog_rel mangle P P'.
  Proof.
    unfold inline_site. intro H.
    destruct (find_func P g) as [fn|] eqn:Eg; [|discriminate].
    destruct (pir_func mangle true (find_func P) (Nat.eqb k) fn [p]) as [[fn' s]|] eqn:Ep; [|discriminate].
    inversion H; subst P'; clear H.
    pose proof (pir_func_rel _ _ _ _ _ _ Ep) as Hrel.
    destruct (find_func_In _ _ _ Eg) as [_ Hng].
    assert (Hn' : f_name fn' = g) by (destruct Hrel as [A _]; congruence).
    intro f. rewrite (find_func_map_replace P g fn' f Hn').
    destruct (find_func P f) as [h|] eqn:Ef; [|reflexivity].
    eexists. split; [reflexivity|].
    destruct (N.eqb (f_name h) g) eqn:Eh.
    - apply N.eqb_eq in Eh. destruct (find_func_In _ _ _ Ef) as [_ Hnf].
      assert (Hfg : f = g) by congruence. rewrite Hfg in Ef. rewrite Eg in Ef. inversion Ef; subst h. exact Hrel.
    - apply fn_rel_refl.
  Qed.

  (* ---------- one round ---------- *)
  Lemma rewrite_all_rel chk' can perf : forall fs sup fs' sup',
    chk' = true -> rewrite_all mangle chk' can perf fs sup = Some (fs', sup') -> Forall2 (fn_rel mangle can) fs fs'.
  Proof.
    intros fs sup fs' sup' ->. revert sup fs' sup'.
    induction fs as [|f r IH]; intros sup fs' sup' H; simpl in H.
    - inversion H; subst. constructor.
    - destruct (perf f).
      + destruct (pir_func mangle true can (fun _ => true) f sup) as [[f' s1]|] eqn:Ep; [|discriminate].
        destruct (rewrite_all mangle true can perf r s1) as [[r' s2]|] eqn:Er; [|discriminate].
        inversion H; subst. constructor; [eapply pir_func_rel; eauto | eapply IH; eauto].
      + destruct (rewrite_all mangle true can perf r sup) as [[r' s2]|] eqn:Er; [|discriminate].
        inversion H; subst. constructor; [apply fn_rel_refl | eapply IH; eauto].
  Qed.

  Lemma Forall2_names can l l' : Forall2 (fn_rel mangle can) l l' -> map f_name l' = map f_name l.
  Proof. intro F. induction F as [|a b l l' [Hn _] F IH]; simpl; [reflexivity|]. f_equal; assumption. Qed.

  Lemma Forall2_In_l {A B} (R : A -> B -> Prop) l l' a : Forall2 R l l' -> In a l -> exists b, In b l' /\ R a b.
  Proof.
    intro F. induction F as [|x y l l' Hxy F IH]; intro Hi; [contradiction|].
    destruct Hi as [Hi|Hi]; [subst; exists y; split; [left; reflexivity | exact Hxy]|].
    destruct (IH Hi) as [b [Hb Hr]]. exists b. split; [right; exact Hb | exact Hr].
  Qed.

  Theorem round_rel pol fs sup fs' sup' :
    round mangle true pol fs sup = Some (Some (fs', sup')) -> prog_rel mangle fs fs'.
  Proof.
    unfold round. intro H.
    destruct (inl_names pol fs) as [|i0 il] eqn:Einl; [discriminate|]. rewrite <- Einl in H.
    destruct (nodupb (map f_name fs)) eqn:End; simpl in H; [|discriminate].
    set (q := fun f => memN (f_name f) (inl_names pol fs)) in *.
    set (inl_fs := filter q fs) in *.
    set (others := filter (fun f : func => negb (memN (f_name f) (inl_names pol fs))) fs) in *.
    destruct (rewrite_all mangle true (find_func inl_fs) (fun f => memN (f_name f) (perf_names pol fs)) others sup)
      as [[o' s1]|] eqn:Eo; [|discriminate].
    destruct (rewrite_all mangle true (find_func inl_fs) (fun _ => true) inl_fs s1) as [[i' s2]|] eqn:Ei; [|discriminate].
    inversion H; subst fs' sup'; clear H.
    pose proof (rewrite_all_rel _ _ _ _ _ _ _ eq_refl Eo) as Fo.
    pose proof (rewrite_all_rel _ _ _ _ _ _ _ eq_refl Ei) as Fi.
    pose proof (Forall2_app Fo Fi) as F.
    apply nodupb_NoDup in End.
    assert (Pp : Permutation (others ++ inl_fs) fs) by (apply (partition_perm q)).
    assert (Hcan : forall h hf, find_func inl_fs h = Some hf -> find_func fs h = Some hf).
    { intros h hf Hf. destruct (find_func_In _ _ _ Hf) as [Hi Hn]. subst h. apply find_func_nodup; [exact End|].
      unfold inl_fs in Hi. apply filter_In in Hi. apply Hi. }
    assert (Pn : Permutation (map f_name (sort_fns (o' ++ i'))) (map f_name fs)).
    { eapply Permutation_trans; [apply Permutation_map; apply sort_fns_perm|].
      rewrite (Forall2_names _ _ _ F). apply Permutation_map. exact Pp. }
    assert (Nd' : NoDup (map f_name (sort_fns (o' ++ i')))).
    { eapply Permutation_NoDup; [apply Permutation_sym; exact Pn | exact End]. }
    intro g. destruct (find_func fs g) as [fn|] eqn:Eg.
    - destruct (find_func_In _ _ _ Eg) as [Hi Hn].
      assert (Hi2 : In fn (others ++ inl_fs)) by (eapply Permutation_in; [apply Permutation_sym; exact Pp | exact Hi]).
      destruct (Forall2_In_l _ _ _ _ F Hi2) as [fn' [Hi' Hrel]].
      exists fn'. split.
      + assert (Hn' : f_name fn' = g) by (destruct Hrel as [A _]; congruence).
        rewrite <- Hn'. apply find_func_nodup; [exact Nd'|].
        eapply Permutation_in; [apply Permutation_sym; apply sort_fns_perm | exact Hi'].
      + eapply fn_rel_mono; [exact Hcan | exact Hrel].
    - apply find_func_notin. intro Hc. apply (find_func_none _ _ Eg).
      eapply Permutation_in; [exact Pn | exact Hc].
  Qed.

  (* ---------- chains of rounds ---------- *)
  Inductive chain : nat -> program -> program -> Prop :=
  | ch0 P : chain 0 P P
  | chS k P Q R : prog_rel mangle P Q -> chain k Q R -> chain (S k) P R.

  Lemma chain_forward w k P R : chain k P R -> forall n f vs tr, crel_d true (call w P n f vs tr) (call w R n f vs tr).
  Proof.
    intro C. induction C as [P|k P Q R HPQ C IH]; intros n f vs tr; [left; reflexivity|].
    eapply crel_true_trans; [apply (prog_rel_forward mangle mangle_inj w P Q HPQ) | apply IH].
  Qed.

  Lemma crel_false_le w P n n' c' f vs tr :
    (n <= n')%nat -> crel_d false (call w P n f vs tr) c' -> crel_d false (call w P n' f vs tr) c'.
  Proof. intro H. induction H; intro Hc; [exact Hc|]. apply (crel_false_step mangle mangle_inj). apply IHle. exact Hc. Qed.

  Lemma crel_false_trans a b c : crel_d false a b -> crel_d false b c -> crel_d false a c.
  Proof.
    intros [E1|[[D _]|[_ E1]]] [E2|[[D2 _]|[_ E2]]]; try discriminate.
    - left. congruence.
    - right. right. split; [reflexivity | exact E2].
    - right. right. split; [reflexivity | congruence].
    - right. right. split; [reflexivity | exact E2].
  Qed.

  Lemma chain_backward w k P R : chain k P R ->
    forall m f vs tr, crel_d false (call w P (2 ^ k * m) f vs tr) (call w R m f vs tr).
  Proof.
    intro C. induction C as [P|k P Q R HPQ C IH]; intros m f vs tr.
    - simpl. rewrite Nat.add_0_r. left. reflexivity.
    - eapply crel_false_trans; [|apply IH].
      replace (2 ^ S k * m)%nat with (2 * (2 ^ k * m))%nat by (simpl; lia).
      apply (prog_rel_backward mangle mangle_inj w P Q HPQ).
  Qed.

  Lemma rounds_chain pol : forall n fs sup fs' sup',
    rounds mangle true pol n fs sup = Some (fs', sup') -> exists k, (k <= n)%nat /\ chain k fs fs'.
  Proof.
    induction n as [|n IH]; intros fs sup fs' sup' H; simpl in H.
    - inversion H; subst. exists 0%nat. split; [lia | constructor].
    - destruct (round mangle true pol fs sup) as [[[f1 s1]|]|] eqn:Er; [| |discriminate].
      + destruct (IH _ _ _ _ H) as [k [Hk C]]. exists (S k). split; [lia|].
        econstructor; [eapply round_rel; eauto | exact C].
      + inversion H; subst. exists 0%nat. split; [lia | constructor].
  Qed.

  Lemma pow2_le k n : (k <= n)%nat -> (2 ^ k <= 2 ^ n)%nat.
  Proof. intro H. apply Nat.pow_le_mono_r; lia. Qed.

  (* the rounds of the pass, any policy *)
  Theorem rounds_preserve w pol n fs sup fs' sup' :
    rounds mangle true pol n fs sup = Some (fs', sup') ->
    forall m f vs tr,
      crel_d true (call w fs m f vs tr) (call w fs' m f vs tr) /\
      crel_d false (call w fs (2 ^ n * m) f vs tr) (call w fs' m f vs tr).
  Proof.
    intros H m f vs tr. destruct (rounds_chain pol _ _ _ _ _ H) as [k [Hk C]]. split.
    - apply (chain_forward w k _ _ C).
    - eapply crel_false_le; [|apply (chain_backward w k _ _ C)].
      apply Nat.mul_le_mono_r. apply pow2_le. exact Hk.
  Qed.
End Model.

(* ---------- the checked run is the mirror of the code on which every side condition held ---------- *)
Section Chk.
  Variable mangle : N -> name -> name.

  Lemma pir_chk_both can sel cur V :
    (forall s st r, pir_stmt mangle true can sel cur V s st = Some r -> pir_stmt mangle false can sel cur V s st = Some r) /\
    (forall ss st r, pir_stmts mangle true can sel cur V ss st = Some r -> pir_stmts mangle false can sel cur V ss st = Some r).
  Proof.
    apply stmt_stmts_ind2; try (intros; assumption).
    - (* SCall *) intros c args rty ret st r H. simpl in *. destruct c as [h atys rty0|x t]; [|exact H].
      destruct (can h) as [hf|]; [|exact H]. destruct (N.eqb h cur); [exact H|].
      destruct st as [k sup]. destruct (negb (sel k)); [exact H|]. destruct sup as [|p sup']; [exact H|].
      destruct (site_ok mangle p V hf args); simpl in *; [exact H | discriminate].
    - intros c s1 s2 fas IH1 IH2 st r H. unfold pir_stmts in *. simpl in *.
      destruct (flat_list (pir_stmt mangle true can sel cur V) s1 st) as [[s1' st1]|] eqn:E1; [|discriminate].
      rewrite (IH1 _ _ E1).
      destruct (flat_list (pir_stmt mangle true can sel cur V) s2 st1) as [[s2' st2]|] eqn:E2; [|discriminate].
      rewrite (IH2 _ _ E2). exact H.
    - intros c inv ss IH st r H. unfold pir_stmts in *. simpl in *.
      destruct (flat_list (pir_stmt mangle true can sel cur V) ss st) as [[ss' st1]|] eqn:E1; [|discriminate].
      rewrite (IH _ _ E1). exact H.
    - intros lvs ss bc IH st r H. unfold pir_stmts in *. simpl in *.
      destruct (flat_list (pir_stmt mangle true can sel cur V) ss st) as [[ss' st1]|] eqn:E1; [|discriminate].
      rewrite (IH _ _ E1). exact H.
    - intros s r IHs IHr st res H. unfold pir_stmts in *. simpl in *.
      destruct (pir_stmt mangle true can sel cur V s st) as [[l1 st1]|] eqn:E1; [|discriminate].
      rewrite (IHs _ _ E1).
      destruct (flat_list (pir_stmt mangle true can sel cur V) r st1) as [[l2 st2]|] eqn:E2; [|discriminate].
      rewrite (IHr _ _ E2). exact H.
  Qed.

  Lemma pir_func_chk can sel f sup r :
    pir_func mangle true can sel f sup = Some r -> pir_func mangle false can sel f sup = Some r.
  Proof.
    unfold pir_func. intro H.
    destruct (pir_stmts mangle true can sel (f_name f) (fn_names f) (f_body f) (0%nat, sup)) as [[b [k s]]|] eqn:E; [|discriminate].
    rewrite (proj2 (pir_chk_both can sel (f_name f) (fn_names f)) _ _ _ E). exact H.
  Qed.

  Lemma inline_site_chk P g k p P' : inline_site mangle true P g k p = Some P' -> inline_site mangle false P g k p = Some P'.
  Proof.
    unfold inline_site. destruct (find_func P g) as [fn|]; [|discriminate].
    destruct (pir_func mangle true (find_func P) (Nat.eqb k) fn [p]) as [[fn' s]|] eqn:E; [|discriminate].
    rewrite (pir_func_chk _ _ _ _ _ E). auto.
  Qed.

  Lemma rewrite_all_chk can perf : forall fs sup r,
    rewrite_all mangle true can perf fs sup = Some r -> rewrite_all mangle false can perf fs sup = Some r.
  Proof.
    induction fs as [|f l IH]; intros sup r H; simpl in *; [exact H|].
    destruct (perf f).
    - destruct (pir_func mangle true can (fun _ => true) f sup) as [[f' s1]|] eqn:Ep; [|discriminate].
      rewrite (pir_func_chk _ _ _ _ _ Ep).
      destruct (rewrite_all mangle true can perf l s1) as [[r' s2]|] eqn:Er; [|discriminate].
      rewrite (IH _ _ Er). exact H.
    - destruct (rewrite_all mangle true can perf l sup) as [[r' s2]|] eqn:Er; [|discriminate].
      rewrite (IH _ _ Er). exact H.
  Qed.

  Lemma round_chk pol fs sup r : round mangle true pol fs sup = Some r -> round mangle false pol fs sup = Some r.
  Proof.
    unfold round. destruct (inl_names pol fs) as [|i0 il] eqn:Einl; [auto|]. rewrite <- Einl.
    destruct (nodupb (map f_name fs)); simpl; [|discriminate].
    intro H.
    destruct (rewrite_all mangle true (find_func (filter (fun f => memN (f_name f) (inl_names pol fs)) fs))
                (fun f => memN (f_name f) (perf_names pol fs))
                (filter (fun f => negb (memN (f_name f) (inl_names pol fs))) fs) sup) as [[o' s1]|] eqn:Eo; [|discriminate].
    rewrite (rewrite_all_chk _ _ _ _ _ Eo).
    destruct (rewrite_all mangle true (find_func (filter (fun f => memN (f_name f) (inl_names pol fs)) fs))
                (fun _ => true) (filter (fun f => memN (f_name f) (inl_names pol fs)) fs) s1) as [[i' s2]|] eqn:Ei; [|discriminate].
    rewrite (rewrite_all_chk _ _ _ _ _ Ei). exact H.
  Qed.

  Lemma rounds_chk pol : forall n fs sup r,
    rounds mangle true pol n fs sup = Some r -> rounds mangle false pol n fs sup = Some r.
  Proof.
    induction n as [|n IH]; intros fs sup r H; simpl in *; [exact H|].
    destruct (round mangle true pol fs sup) as [[[f1 s1]|]|] eqn:Er; [| |discriminate].
    - rewrite (round_chk _ _ _ _ Er). apply IH. exact H.
    - rewrite (round_chk _ _ _ _ Er). exact H.
  Qed.
End Chk.

(* ---------- from call results to observable outcomes ---------- *)
Lemma crel_true_outcome c c' : crel_d true c c' -> outcome_of c <> OutOfFuel -> outcome_of c' = outcome_of c.
Proof.
  intros [E|[[_ E]|[D _]]] Hn; [subst; reflexivity | subst; simpl in Hn; congruence | discriminate].
Qed.

Lemma crel_false_outcome c c' : crel_d false c c' -> outcome_of c' <> OutOfFuel -> outcome_of c = outcome_of c'.
Proof.
  intros [E|[[D _]|[_ E]]] Hn; [subst; reflexivity | discriminate | subst; simpl in Hn; congruence].
Qed.
