(* C02inl - program level: a program P' whose function bodies are obtained from those of P by inlining any set of
   call sites (prog_rel) has the determined outcomes of P at the same fuel, and P has the determined outcomes of P'
   at twice the fuel (prog_rel_forward / prog_rel_backward).  Then: the model functions of Inline.v (with chk = true)
   produce related programs - one call site, one round with any policy, the five rounds of optimize_functions. *)
From Coq Require Import ZArith NArith List Bool Lia Permutation.
Import ListNotations.
From SV Require Import Common.Int32 C01mir.Syntax C01mir.Sem C02inl.Inline C02inl.ProofsBase C02inl.ProofsInlBody C02inl.ProofsInlProg.
Open Scope Z_scope.

Section Prog.
  Variable mangle : N -> name -> name.
  Hypothesis mangle_inj : forall p x y, mangle p x = mangle p y -> x = y.

  Definition fn_rel (can : N -> option func) (fn fn' : func) : Prop :=
    f_name fn' = f_name fn /\ f_params fn' = f_params fn /\ f_ret fn' = f_ret fn /\
    inl_stmts mangle can (fn_names fn) (f_body fn) (f_body fn').

  Definition prog_rel (P P' : program) : Prop :=
    forall f, match find_func P f with
              | None => find_func P' f = None
              | Some fn => exists fn', find_func P' f = Some fn' /\ fn_rel (find_func P) fn fn'
              end.

  Lemma fn_rel_refl can fn : fn_rel can fn fn.
  Proof. repeat split; try reflexivity. apply (proj2 (inl_refl_both mangle can (fn_names fn))). Qed.

  Lemma prog_rel_refl P : prog_rel P P.
  Proof. intro f. destruct (find_func P f) as [fn|] eqn:E; [|reflexivity]. exists fn. split; [reflexivity | apply fn_rel_refl]. Qed.

  Lemma fn_names_reads fn : forall x, In x (reads_l (f_body fn)) -> memb x (fn_names fn) = true.
  Proof.
    intros x Hx. apply memb_In. unfold fn_names. apply in_or_app. right. apply in_or_app. right.
    apply in_or_app. right. apply in_or_app. left. exact Hx.
  Qed.
  Lemma fn_names_ret fn : forall x, In x (evars (f_ret fn)) -> memb x (fn_names fn) = true.
  Proof.
    intros x Hx. apply memb_In. unfold fn_names. apply in_or_app. right. apply in_or_app. right.
    apply in_or_app. right. apply in_or_app. right. exact Hx.
  Qed.

  Section Run.
    Variable w : world.
    Variable d : bool.
    Variables callf callf' : callf_t.
    Variables lf lf' : nat.
    Variable can : N -> option func.
    Hypothesis H1 : forall f vs tr, crel_d d (callf f vs tr) (callf' f vs tr).
    Hypothesis Hlf : fle d lf lf'.
    Hypothesis H2 : forall h hf, can h = Some hf -> forall vs tr,
        (d = true /\ callf h vs tr = CFail FOof) \/
        exists cf lf0, callf h vs tr = run_body w cf lf0 hf vs tr /\
                       (forall f vs tr, crel_d d (cf f vs tr) (callf' f vs tr)) /\ fle d lf0 lf'.

    Lemma run_body_sim fn fn' vs tr :
      fn_rel can fn fn' -> crel_d d (run_body w callf lf fn vs tr) (run_body w callf' lf' fn' vs tr).
    Proof.
      intros (_ & Hp & Hr & Hb). unfold run_body, init_env. rewrite Hp, Hr.
      destruct (negb (length vs =? length (f_params fn))%nat); [left; reflexivity|].
      pose proof (proj2 (caller_sim_both w d callf callf' lf lf' mangle mangle_inj can (fn_names fn) H1 Hlf H2)
                    _ _ Hb (fn_names_reads fn) (combine (f_params fn) vs) (combine (f_params fn) vs) tr (agreeV_refl _ _)) as HS.
      unfold exec_block.
      destruct HS as [HR|Hd HR|Hd HR].
      - destruct (exec_list (exec w callf lf) (f_body fn) (combine (f_params fn) vs) tr) as [e3 t3|v3 e3 t3|o3];
          destruct (exec_list (exec w callf' lf') (f_body fn') (combine (f_params fn) vs) tr) as [e4 t4|v4 e4 t4|o4];
          simpl in HR; try contradiction.
        + destruct HR as [-> HA]. left. f_equal. eapply eval_agree; [exact HA | exact (fn_names_ret fn)].
        + left. reflexivity.
        + subst. left. reflexivity.
      - rewrite HR. right. left. split; [exact Hd | reflexivity].
      - rewrite HR. right. right. split; [exact Hd | reflexivity].
    Qed.
  End Run.

  (* ---------- more fuel never changes a determined outcome ---------- *)
  Lemma call_mono w P : forall n f vs tr, crel_d true (call w P n f vs tr) (call w P (S n) f vs tr).
  Proof.
    induction n as [|n IH]; intros f vs tr.
    - right. left. split; reflexivity.
    - change (call w P (S n) f vs tr) with
        (match find_func P f with None => call_ext w f vs tr | Some fn => run_body w (call w P n) (S n) fn vs tr end).
      change (call w P (S (S n)) f vs tr) with
        (match find_func P f with None => call_ext w f vs tr | Some fn => run_body w (call w P (S n)) (S (S n)) fn vs tr end).
      destruct (find_func P f) as [fn|]; [|left; reflexivity].
      apply (run_body_sim w true (call w P n) (call w P (S n)) (S n) (S (S n)) (fun _ => None)).
      + exact IH.
      + simpl. lia.
      + intros h hf Hc. discriminate.
      + apply fn_rel_refl.
  Qed.

  Lemma crel_true_trans a b c : crel_d true a b -> crel_d true b c -> crel_d true a c.
  Proof.
    intros [E1|[[_ E1]|[D _]]] [E2|[[_ E2]|[D2 _]]]; try discriminate.
    - left. congruence.
    - right. left. split; [reflexivity | congruence].
    - right. left. split; [reflexivity | exact E1].
    - right. left. split; [reflexivity | exact E1].
  Qed.

  Lemma call_mono_le w P n m : (n <= m)%nat -> forall f vs tr, crel_d true (call w P n f vs tr) (call w P m f vs tr).
  Proof.
    intro H. induction H; intros f vs tr; [left; reflexivity|].
    eapply crel_true_trans; [apply IHle | apply call_mono].
  Qed.

  (* ---------- forward: P' has the determined outcomes of P at the same fuel ---------- *)
  Theorem prog_rel_forward w P P' : prog_rel P P' ->
    forall n f vs tr, crel_d true (call w P n f vs tr) (call w P' n f vs tr).
  Proof.
    intros HP. induction n as [|n IH]; intros f vs tr.
    - left. reflexivity.
    - change (call w P (S n) f vs tr) with
        (match find_func P f with None => call_ext w f vs tr | Some fn => run_body w (call w P n) (S n) fn vs tr end).
      change (call w P' (S n) f vs tr) with
        (match find_func P' f with None => call_ext w f vs tr | Some fn => run_body w (call w P' n) (S n) fn vs tr end).
      specialize (HP f). destruct (find_func P f) as [fn|] eqn:Ef.
      + destruct HP as [fn' [Ef' Hrel]]. rewrite Ef'.
        apply (run_body_sim w true (call w P n) (call w P' n) (S n) (S n) (find_func P)).
        * exact IH.
        * simpl. lia.
        * intros h hf Hc vs0 tr0. destruct n as [|n'].
          -- left. split; reflexivity.
          -- right. exists (call w P n'), (S n'). split.
             ++ simpl. rewrite Hc. reflexivity.
             ++ split; [|simpl; lia]. intros g vs1 tr1.
                eapply crel_true_trans; [apply call_mono | apply IH].
        * exact Hrel.
      + rewrite HP. left. reflexivity.
  Qed.

  (* ---------- backward: P has the determined outcomes of P' at twice the fuel ---------- *)
  Lemma crel_false_step w P k c' f vs tr :
    crel_d false (call w P k f vs tr) c' -> crel_d false (call w P (S k) f vs tr) c'.
  Proof.
    intros [E|[[D _]|[_ E]]]; try discriminate.
    - destruct (call_mono w P k f vs tr) as [E2|[[_ E2]|[D2 _]]]; try discriminate.
      + left. congruence.
      + right. right. split; [reflexivity|]. congruence.
    - right. right. split; [reflexivity | exact E].
  Qed.

  Theorem prog_rel_backward w P P' : prog_rel P P' ->
    forall m f vs tr, crel_d false (call w P (2 * m) f vs tr) (call w P' m f vs tr).
  Proof.
    intros HP. induction m as [|m IH]; intros f vs tr.
    - right. right. split; reflexivity.
    - replace (2 * S m)%nat with (S (S (2 * m))) by lia.
      change (call w P (S (S (2 * m))) f vs tr) with
        (match find_func P f with None => call_ext w f vs tr
                             | Some fn => run_body w (call w P (S (2 * m))) (S (S (2 * m))) fn vs tr end).
      change (call w P' (S m) f vs tr) with
        (match find_func P' f with None => call_ext w f vs tr | Some fn => run_body w (call w P' m) (S m) fn vs tr end).
      specialize (HP f). destruct (find_func P f) as [fn|] eqn:Ef.
      + destruct HP as [fn' [Ef' Hrel]]. rewrite Ef'.
        apply (run_body_sim w false (call w P (S (2 * m))) (call w P' m) (S (S (2 * m))) (S m) (find_func P)).
        * intros g vs1 tr1. apply crel_false_step. apply IH.
        * simpl. lia.
        * intros h hf Hc vs0 tr0. right. exists (call w P (2 * m)), (S (2 * m)). split.
          -- simpl. rewrite Hc. reflexivity.
          -- split; [exact IH | simpl; lia].
        * exact Hrel.
      + rewrite HP. left. reflexivity.
  Qed.
End Prog.
