(* C02inl - inlining any set of call sites of a function body (relation inl_stmts: every call of a function that `can`
   knows may be replaced by that function's rewritten body) is simulated by the original body (Theorem caller_sim),
   in both directions (index d).  The program-level theorems follow in ProofsInlPass.v. *)
From Coq Require Import ZArith NArith List Bool Lia.
Import ListNotations.
From SV Require Import Common.Int32 C01mir.Syntax C01mir.Sem C02inl.Inline C02inl.ProofsBase C02inl.ProofsInlBody.
Open Scope Z_scope.

Definition simple (s : stmt) : bool :=
  match s with SIf _ _ _ _ | SSIf _ _ _ | SWhile _ _ _ => false | _ => true end.

Section Rel.
  Variable mangle : N -> name -> name.
  Variable can : N -> option func.
  Variable V : list name.

  (* s is replaced by the list l *)
  Inductive inl_stmt : stmt -> list stmt -> Prop :=
  | IS_same s : simple s = true -> inl_stmt s [s]
  | IS_if c s1 s2 fas s1' s2' : inl_stmts s1 s1' -> inl_stmts s2 s2' -> inl_stmt (SIf c s1 s2 fas) [SIf c s1' s2' fas]
  | IS_sif c inv ss ss' : inl_stmts ss ss' -> inl_stmt (SSIf c inv ss) [SSIf c inv ss']
  | IS_while lvs ss ss' bc : inl_stmts ss ss' -> inl_stmt (SWhile lvs ss bc) [SWhile lvs ss' bc]
  | IS_inline h atys rty args rt ret hf p l :
      can h = Some hf -> site_ok mangle p V hf args = true -> inline_body mangle p hf args ret = Some l ->
      inl_stmt (SCall (CFn h atys rty) args rt ret) l
  with inl_stmts : list stmt -> list stmt -> Prop :=
  | ISS_nil : inl_stmts [] []
  | ISS_cons s r l l2 : inl_stmt s l -> inl_stmts r l2 -> inl_stmts (s :: r) (l ++ l2).

  Scheme inl_stmt_mind := Minimality for inl_stmt Sort Prop
    with inl_stmts_mind := Minimality for inl_stmts Sort Prop.
  Combined Scheme inl_both_ind from inl_stmt_mind, inl_stmts_mind.
End Rel.

Lemma inl_refl_both mangle can V :
  (forall s, inl_stmt mangle can V s [s]) /\ (forall ss, inl_stmts mangle can V ss ss).
Proof.
  apply stmt_stmts_ind2; intros; try (apply IS_same; reflexivity).
  - apply IS_if; assumption.
  - apply IS_sif; assumption.
  - apply IS_while; assumption.
  - apply ISS_nil.
  - change (s :: r) with ([s] ++ r) at 2. apply ISS_cons; assumption.
Qed.

(* ---------- reads ---------- *)
Lemma reads_SIf c s1 s2 fas : reads (SIf c s1 s2 fas) = evars c ++ reads_l s1 ++ reads_l s2 ++ flat_map qvars fas.
Proof. reflexivity. Qed.
Lemma reads_SSIf c inv ss : reads (SSIf c inv ss) = evars c ++ reads_l ss.
Proof. reflexivity. Qed.
Lemma reads_SWhile lvs ss bc : reads (SWhile lvs ss bc) = flat_map qvars lvs ++ reads_l ss.
Proof. reflexivity. Qed.

Section Caller.
  Variable w : world.
  Variable d : bool.
  Variables callf callf' : callf_t.
  Variables lf lf' : nat.
  Variable mangle : N -> name -> name.
  Hypothesis mangle_inj : forall p x y, mangle p x = mangle p y -> x = y.
  Variable can : N -> option func.
  Variable V : list name.
  Hypothesis H1 : forall f vs tr, crel_d d (callf f vs tr) (callf' f vs tr).
  Hypothesis Hlf : fle d lf lf'.
  (* a function that may be inlined: its call is a run of its body (with callees and loop fuel that the inlined code
     is given as well), or it is out of fuel *)
  Hypothesis H2 : forall h hf, can h = Some hf -> forall vs tr,
      (d = true /\ callf h vs tr = CFail FOof) \/
      exists cf lf0, callf h vs tr = run_body w cf lf0 hf vs tr /\
                     (forall f vs tr, crel_d d (cf f vs tr) (callf' f vs tr)) /\ fle d lf0 lf'.

  Definition RA (r r' : res) : Prop :=
    match r, r' with
    | RNext e t, RNext e' t' => t = t' /\ agreeV V e e'
    | RBreak v e t, RBreak v' e' t' => v = v' /\ t = t' /\ agreeV V e e'
    | RFail o, RFail o' => o = o'
    | _, _ => False
    end.

  Definition inV (l : list name) : Prop := forall x, In x l -> memb x V = true.

  Lemma inV_app a b : inV (a ++ b) -> inV a /\ inV b.
  Proof. intro H. split; intros x Hx; apply H; apply in_or_app; [left|right]; exact Hx. Qed.

  Lemma bind_q_agree (sel : quad -> expr) qs e e' :
    agreeV V e e' -> (forall q, In q qs -> inV (evars (sel q))) ->
    agreeV V (combine (map q_name qs) (map (fun q => eval w e (sel q)) qs) ++ e)
             (combine (map q_name qs) (map (fun q => eval w e' (sel q)) qs) ++ e').
  Proof.
    intros HA Hq.
    assert (E : map (fun q => eval w e (sel q)) qs = map (fun q => eval w e' (sel q)) qs).
    { apply map_ext_in. intros q Hi. eapply eval_agree; [exact HA|]. intros x Hx. apply (Hq q Hi). exact Hx. }
    rewrite E. intros x Hx.
    destruct (memb x (map fst (combine (map q_name qs) (map (fun q => eval w e' (sel q)) qs)))) eqn:Em.
    - clear -Em. revert Em. generalize (combine (map q_name qs) (map (fun q => eval w e' (sel q)) qs)).
      induction l as [|[y v] l IH]; simpl; intro H; [discriminate|].
      destruct (N.eqb x y); [reflexivity | apply IH; exact H].
    - rewrite !lookup_app_r by exact Em. apply HA. exact Hx.
  Qed.

  Lemma qvars_e1 qs : inV (flat_map qvars qs) -> forall q, In q qs -> inV (evars (q_e1 q)).
  Proof.
    intros H q Hq x Hx. apply H. apply in_flat_map. exists q. split; [exact Hq|]. unfold qvars. apply in_or_app. left. exact Hx.
  Qed.
  Lemma qvars_e2 qs : inV (flat_map qvars qs) -> forall q, In q qs -> inV (evars (q_e2 q)).
  Proof.
    intros H q Hq x Hx. apply H. apply in_flat_map. exists q. split; [exact Hq|]. unfold qvars. apply in_or_app. right. exact Hx.
  Qed.

  (* a statement without nested blocks, run in two environments that agree on V *)
  Lemma simple_sim s :
    simple s = true -> inV (reads s) -> forall en en' tr, agreeV V en en' ->
    rel_d RA d (exec w callf lf s en tr) (exec w callf' lf' s en' tr).
  Proof.
    intros Hs Hr en en' tr HA. destruct s; try discriminate; simpl in Hr.
    - (* SBin *) apply inV_app in Hr. destruct Hr as [R1 R2]. simpl.
      rewrite (eval_agree w V en en' e1 HA R1), (eval_agree w V en en' e2 HA R2).
      destruct (rt_binop op (eval w en' e1) (eval w en' e2)); apply rd_ok; simpl; [|reflexivity].
      split; [reflexivity | apply agreeV_bind; exact HA].
    - simpl. rewrite (eval_agree w V en en' e HA Hr). apply rd_ok; simpl. split; [reflexivity | apply agreeV_bind; exact HA].
    - simpl. rewrite (eval_agree w V en en' e HA Hr). apply rd_ok; simpl. split; [reflexivity | apply agreeV_bind; exact HA].
    - (* SCall *) apply inV_app in Hr. destruct Hr as [R1 R2].
      assert (Ea : map (eval w en) args = map (eval w en') args) by (eapply map_eval_agree; eauto).
      assert (Hret : forall v t, RA (RNext (bind_opt ret v en) t) (RNext (bind_opt ret v en') t)).
      { intros v t. simpl. split; [reflexivity|]. destruct ret; simpl; [apply agreeV_bind|]; exact HA. }
      simpl. destruct c as [f atys rty0|x t].
      + rewrite <- Ea. destruct (H1 f (map (eval w en) args) tr) as [E|[[Ed E]|[Ed E]]].
        * rewrite <- E. destruct (callf f (map (eval w en) args) tr); apply rd_ok; [apply Hret | simpl; reflexivity].
        * rewrite E. apply rd_l; [exact Ed | reflexivity].
        * rewrite E. apply rd_r; [exact Ed | reflexivity].
      + assert (Ex : lookup x en = lookup x en') by (apply HA; apply R1; simpl; left; reflexivity).
        rewrite <- Ex, <- Ea.
        destruct (w_clo w tr (wrap32 (lookup x en))) as [[f c0]|]; [|apply rd_ok; simpl; reflexivity].
        destruct (H1 f (c0 :: map (eval w en) args) tr) as [E|[[Ed E]|[Ed E]]].
        * rewrite <- E. destruct (callf f (c0 :: map (eval w en) args) tr); apply rd_ok; [apply Hret | simpl; reflexivity].
        * rewrite E. apply rd_l; [exact Ed | reflexivity].
        * rewrite E. apply rd_r; [exact Ed | reflexivity].
    - (* SBreak *) simpl. rewrite (eval_agree w V en en' e HA Hr). apply rd_ok; simpl. auto.
    - (* SDecl *) simpl. apply rd_ok; simpl. split; [reflexivity | apply agreeV_bind; exact HA].
    - simpl. rewrite (eval_agree w V en en' e HA Hr). apply rd_ok; simpl. split; [reflexivity | apply agreeV_bind; exact HA].
    - (* SStruct *) simpl. rewrite (map_eval_agree w V en en' es HA Hr). apply rd_ok; simpl.
      split; [reflexivity | apply agreeV_bind; exact HA].
    - simpl. rewrite (eval_agree w V en en' e HA Hr). apply rd_ok; simpl. split; [reflexivity | apply agreeV_bind; exact HA].
  Qed.

  (* ---------- the parameters of an inlined function ---------- *)
  Lemma bind_params_ok en : forall ps args cx cx0,
    bind_params ps args cx = Some cx0 -> length args = length ps ->
    Ext cx cx0 /\
    (forall x e, cxget cx0 x = Some e -> cxget cx x = Some e \/ (In x ps /\ In e args)) /\
    (forall x, In x ps -> exists e, cxget cx0 x = Some e /\ In e args /\
                                    lookup x (combine ps (map (eval w en) args)) = eval w en e).
  Proof.
    induction ps as [|x pr IH]; intros args cx cx0 H Hl.
    - destruct args; [|discriminate]. simpl in H. inversion H; subst. split; [apply Ext_refl|]. split; [auto|]. intros x [].
    - destruct args as [|a ar]; [discriminate|]. simpl in H.
      destruct (cxbind cx x a) as [c1|] eqn:Eb; [|discriminate]. apply cxbind_inv in Eb. destruct Eb as [Hn ->].
      destruct (IH ar _ _ H) as (X & O & G); [simpl in Hl; lia|].
      split; [eapply Ext_trans; [apply Ext_bind; exact Hn | exact X]|]. split.
      + intros y e Hg. destruct (O y e Hg) as [Hc|[Hi He]].
        * simpl in Hc. destruct (N.eqb y x) eqn:E.
          -- apply N.eqb_eq in E. subst. inversion Hc; subst. right. simpl. auto.
          -- left. exact Hc.
        * right. simpl. auto.
      + intros y Hy. simpl. destruct (N.eqb y x) eqn:E.
        * apply N.eqb_eq in E. subst. exists a. split; [apply X; simpl; rewrite N.eqb_refl; reflexivity|]. simpl. auto.
        * destruct Hy as [Hy|Hy]; [subst; rewrite N.eqb_refl in E; discriminate|].
          destruct (G y Hy) as [e [Hg [Hi Hv]]]. exists e. simpl. auto.
  Qed.

  (* ---------- an inlined call ---------- *)
  Lemma inline_sim h atys rty args rt ret hf p l :
    can h = Some hf -> site_ok mangle p V hf args = true -> inline_body mangle p hf args ret = Some l ->
    inV (flat_map evars args) -> forall en en' tr, agreeV V en en' ->
    rel_d RA d (exec w callf lf (SCall (CFn h atys rty) args rt ret) en tr) (exec_list (exec w callf' lf') l en' tr).
  Proof.
    intros Hcan Hok Hib Hr en en' tr HA.
    unfold site_ok in Hok. apply andb_true_iff in Hok. destruct Hok as [Hok Hfr].
    apply andb_true_iff in Hok. destruct Hok as [Hwf Hlen]. apply Nat.eqb_eq in Hlen.
    unfold wf_callee in Hwf. apply andb_true_iff in Hwf. destruct Hwf as [Hwf Hdis].
    apply andb_true_iff in Hwf. destruct Hwf as [Hwf Hnb]. apply andb_true_iff in Hwf. destruct Hwf as [Hwf Hret].
    apply andb_true_iff in Hwf. destruct Hwf as [Hnd Hsc].
    unfold inline_body in Hib.
    destruct (bind_params (f_params hf) args []) as [cx0|] eqn:Ebp; [|discriminate].
    destruct (irw_stmts mangle p (f_body hf) cx0) as [[body' cx']|] eqn:Eirw; [|discriminate].
    inversion Hib; subst l; clear Hib.
    simpl exec.
    destruct (H2 h hf Hcan (map (eval w en) args) tr) as [[Ed E]|[cf [lf0 [E [Hcf Hlf0]]]]].
    { rewrite E. apply rd_l; [exact Ed | reflexivity]. }
    rewrite E. unfold run_body. rewrite map_length, Hlen, Nat.eqb_refl. simpl negb. cbv iota.
    destruct (bind_params_ok en _ _ _ _ Ebp Hlen) as (_ & O & G).
    set (Bnd := binders_l (f_body hf)).
    assert (Hfresh : forall b, In b Bnd -> memb (mangle p b) V = false).
    { intros b Hb. apply (forallb_In _ _ _ Hfr) in Hb. apply negb_true_iff in Hb. exact Hb. }
    assert (Hw : CxWf mangle p V (f_params hf) Bnd cx0).
    { intros x e Hg. destruct (O x e Hg) as [Hc|[Hi He]]; [discriminate|]. left. split; [exact Hi|].
      intros y Hy. apply Hr. apply in_flat_map. exists e. split; assumption. }
    assert (HI : Inv w (f_params hf) cx0 (init_env hf (map (eval w en) args)) en').
    { intros x Hx. apply memb_In in Hx. destruct (G x Hx) as [e [Hg [Hi Hv]]]. exists e. split; [exact Hg|].
      unfold init_env. rewrite Hv, eval_wrapped. eapply eval_agree; [exact HA|].
      intros y Hy. apply Hr. apply in_flat_map. exists e. split; assumption. }
    assert (Has : forall x, In x (assigned_l (f_body hf)) -> ~ In x (f_params hf)).
    { intros x Hx. apply memb_false_In. eapply disjointb_spec; eauto. }
    pose proof (proj2 (body_sim_both w d cf callf' lf0 lf' Hcf Hlf0 mangle p (mangle_inj p) V (f_params hf) Bnd Hfresh)
                  (f_body hf) (f_params hf) cx0 body' cx' _ en' tr Hsc (fun b Hb => Hb) Has Hw Eirw HI) as HB.
    rewrite exec_list_app. unfold exec_block.
    destruct HB as [HR|Hd HR|Hd HR]; [|rewrite HR; apply rd_l; [exact Hd|reflexivity]|rewrite HR; apply rd_r; [exact Hd|reflexivity]].
    destruct (exec_list (exec w cf lf0) (f_body hf) (init_env hf (map (eval w en) args)) tr) as [e3 t3|v3 e3 t3|o3] eqn:EL;
      destruct (exec_list (exec w callf' lf') body' en' tr) as [e4 t4|v4 e4 t4|o4]; simpl in HR; try contradiction.
    - destruct HR as (-> & HI2 & HA2).
      assert (Ev : eval w e3 (f_ret hf) = eval w e4 (rw_expr cx' (f_ret hf))).
      { eapply eval_rw; [exact HI2 | apply Ext_refl | exact Hret]. }
      destruct ret as [c|].
      + rewrite exec_list_single. simpl. rewrite <- Ev.
        replace (eval w e4 (EInt 0)) with 0 by reflexivity. rewrite Z.add_0_r, eval_wrapped.
        apply rd_ok. simpl. split; [reflexivity|]. apply agreeV_bind. eapply agreeV_trans; eauto.
      + simpl. apply rd_ok. simpl. split; [reflexivity|]. eapply agreeV_trans; eauto.
    - exfalso. eapply (proj2 (no_break_both w cf lf0)); [exact Hnb | exact EL].
    - apply rd_ok. simpl. exact HR.
  Qed.

  (* ---------- the body of the caller ---------- *)
  Theorem caller_sim_both :
    (forall s l, inl_stmt mangle can V s l -> inV (reads s) -> forall en en' tr, agreeV V en en' ->
        rel_d RA d (exec w callf lf s en tr) (exec_list (exec w callf' lf') l en' tr)) /\
    (forall ss l, inl_stmts mangle can V ss l -> inV (reads_l ss) -> forall en en' tr, agreeV V en en' ->
        rel_d RA d (exec_list (exec w callf lf) ss en tr) (exec_list (exec w callf' lf') l en' tr)).
  Proof.
    apply inl_both_ind.
    - (* same *) intros s Hs Hr en en' tr HA. rewrite exec_list_single. apply simple_sim; assumption.
    - (* if *) intros c s1 s2 fas s1' s2' _ IH1 _ IH2 Hr en en' tr HA. rewrite exec_list_single.
      rewrite reads_SIf in Hr. apply inV_app in Hr. destruct Hr as [Rc Hr]. apply inV_app in Hr. destruct Hr as [R1 Hr].
      apply inV_app in Hr. destruct Hr as [R2 Rf].
      simpl. rewrite (eval_agree w V en en' c HA Rc).
      destruct (cond (eval w en' c)) as [[|]|]; [| |apply rd_ok; simpl; reflexivity].
      + destruct (IH1 R1 en en' tr HA) as [HR|Hd HR|Hd HR]; [|rewrite HR; apply rd_l; [exact Hd|reflexivity]|rewrite HR; apply rd_r; [exact Hd|reflexivity]].
        apply rd_ok.
        destruct (exec_list (exec w callf lf) s1 en tr) as [e3 t3|v3 e3 t3|o3];
          destruct (exec_list (exec w callf' lf') s1' en' tr) as [e4 t4|v4 e4 t4|o4]; simpl in HR; try contradiction; simpl; [|exact HR|exact HR].
        destruct HR as [-> HA2]. split; [reflexivity|]. apply (bind_q_agree q_e1); [exact HA2 | apply qvars_e1; exact Rf].
      + destruct (IH2 R2 en en' tr HA) as [HR|Hd HR|Hd HR]; [|rewrite HR; apply rd_l; [exact Hd|reflexivity]|rewrite HR; apply rd_r; [exact Hd|reflexivity]].
        apply rd_ok.
        destruct (exec_list (exec w callf lf) s2 en tr) as [e3 t3|v3 e3 t3|o3];
          destruct (exec_list (exec w callf' lf') s2' en' tr) as [e4 t4|v4 e4 t4|o4]; simpl in HR; try contradiction; simpl; [|exact HR|exact HR].
        destruct HR as [-> HA2]. split; [reflexivity|]. apply (bind_q_agree q_e2); [exact HA2 | apply qvars_e2; exact Rf].
    - (* sif *) intros c inv ss ss' _ IH Hr en en' tr HA. rewrite exec_list_single.
      rewrite reads_SSIf in Hr. apply inV_app in Hr. destruct Hr as [Rc Rs].
      simpl. rewrite (eval_agree w V en en' c HA Rc).
      destruct (cond (eval w en' c)) as [b|]; [|apply rd_ok; simpl; reflexivity].
      destruct (xorb b inv); [apply IH; assumption|]. apply rd_ok. simpl. auto.
    - (* while *) intros lvs ss ss' bc _ IH Hr en en' tr HA. rewrite exec_list_single.
      rewrite reads_SWhile in Hr. apply inV_app in Hr. destruct Hr as [Rl Rs].
      assert (HL : rel_d (Rloop (agreeV V)) d
                (loop (exec_list (exec w callf lf) ss) (bind_e2 w lvs) lf (bind_e1 w lvs en) tr)
                (loop (exec_list (exec w callf' lf') ss') (bind_e2 w lvs) lf' (bind_e1 w lvs en') tr)).
      { apply (loop_rel d (agreeV V) (agreeV V) (agreeV V)).
        - intros e e' t He. eapply rel_d_mono; [|apply IH; [exact Rs | exact He]].
          intro HR. destruct (exec_list (exec w callf lf) ss e t); destruct (exec_list (exec w callf' lf') ss' e' t); exact HR.
        - intros e e' He. apply (bind_q_agree q_e2); [exact He | apply qvars_e2; exact Rl].
        - exact Hlf.
        - apply (bind_q_agree q_e1); [exact HA | apply qvars_e1; exact Rl]. }
      simpl. destruct HL as [HR|Hd HR|Hd HR]; [|rewrite HR; apply rd_l; [exact Hd|reflexivity]|rewrite HR; apply rd_r; [exact Hd|reflexivity]].
      apply rd_ok.
      destruct (loop (exec_list (exec w callf lf) ss) (bind_e2 w lvs) lf (bind_e1 w lvs en) tr) as [e3 t3|v3 e3 t3|o3];
        destruct (loop (exec_list (exec w callf' lf') ss') (bind_e2 w lvs) lf' (bind_e1 w lvs en') tr) as [e4 t4|v4 e4 t4|o4];
        simpl in HR; try contradiction; simpl; [|exact HR].
      destruct HR as (-> & -> & HA2). split; [reflexivity|]. destruct bc as [[b t]|]; simpl; [apply agreeV_bind|]; exact HA2.
    - (* inline *) intros h atys rty args rt ret hf p l Hc Hok Hib Hr en en' tr HA.
      eapply inline_sim; eauto.
    - (* nil *) intros _ en en' tr HA. apply rd_ok. simpl. auto.
    - (* cons *) intros s r l l2 _ IHs _ IHr Hr en en' tr HA.
      simpl in Hr. apply inV_app in Hr. destruct Hr as [R1 R2].
      rewrite exec_list_cons, exec_list_app.
      destruct (IHs R1 en en' tr HA) as [HR|Hd HR|Hd HR]; [|rewrite HR; apply rd_l; [exact Hd|reflexivity]|rewrite HR; apply rd_r; [exact Hd|reflexivity]].
      destruct (exec w callf lf s en tr) as [e3 t3|v3 e3 t3|o3];
        destruct (exec_list (exec w callf' lf') l en' tr) as [e4 t4|v4 e4 t4|o4]; simpl in HR; try contradiction.
      + destruct HR as [-> HA2]. apply IHr; assumption.
      + apply rd_ok. simpl. exact HR.
      + apply rd_ok. simpl. exact HR.
  Qed.
End Caller.
