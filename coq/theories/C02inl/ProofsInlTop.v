(* C02inl - the inlining theorems in terms of the observable outcome `sem` (Sem.v). *)
From Coq Require Import ZArith NArith List Bool Lia.
Import ListNotations.
From SV Require Import Common.Int32 C01mir.Syntax C01mir.Sem C02inl.Inline C02inl.ProofsBase C02inl.ProofsInlBody
  C02inl.ProofsInlProg C02inl.ProofsInlPass C02inl.ProofsInlModel.

Definition mangle_injective (mangle : N -> name -> name) : Prop := forall p x y, mangle p x = mangle p y -> x = y.

(* P' has every determined outcome of P at the same fuel, P has every determined outcome of P' at k times the fuel *)
Definition equivalent_upto (k : nat) (P P' : program) : Prop :=
  forall w f args fuel,
    (sem w P f args fuel <> OutOfFuel -> sem w P' f args fuel = sem w P f args fuel) /\
    (sem w P' f args fuel <> OutOfFuel -> sem w P f args (k * fuel) = sem w P' f args fuel).

Lemma prog_rel_equivalent mangle : mangle_injective mangle ->
  forall P P', prog_rel mangle P P' -> equivalent_upto 2 P P'.
Proof.
  intros Hinj P P' HR w f args fuel. unfold sem. split; intro Hn.
  - apply crel_true_outcome; [|exact Hn]. apply (prog_rel_forward mangle Hinj w P P' HR).
  - apply crel_false_outcome; [|exact Hn]. apply (prog_rel_backward mangle Hinj w P P' HR).
Qed.

Lemma inline_one_site_preserves mangle : mangle_injective mangle ->
  forall P g k p P', inline_site mangle true P g k p = Some P' -> equivalent_upto 2 P P'.
Proof.
  intros Hinj P g k p P' H. apply (prog_rel_equivalent mangle Hinj). eapply inline_site_rel; eauto.
Qed.

Lemma rounds_equivalent mangle : mangle_injective mangle ->
  forall pol n P sup P' sup', rounds mangle true pol n P sup = Some (P', sup') -> equivalent_upto (2 ^ n) P P'.
Proof.
  intros Hinj pol n P sup P' sup' H w f args fuel. unfold sem.
  destruct (rounds_preserve mangle Hinj w pol n P sup P' sup' H fuel f args []) as [F B].
  split; intro Hn; [apply crel_true_outcome | apply crel_false_outcome]; assumption.
Qed.

Lemma pass_preserves mangle : mangle_injective mangle ->
  forall P sup P' sup', optimize_functions mangle true P sup = Some (P', sup') -> equivalent_upto 32 P P'.
Proof. intros Hinj P sup P' sup' H. exact (rounds_equivalent mangle Hinj cost_policy 5 P sup P' sup' H). Qed.

(* the estimator is only a heuristic: one round with ANY policy *)
Lemma round_any_policy mangle : mangle_injective mangle ->
  forall pol P sup P' sup', round mangle true pol P sup = Some (Some (P', sup')) -> equivalent_upto 2 P P'.
Proof.
  intros Hinj pol P sup P' sup' H. apply (prog_rel_equivalent mangle Hinj). eapply round_rel; eauto.
Qed.

Lemma fuel_monotone w P n m f vs tr :
  (n <= m)%nat -> call w P n f vs tr <> CFail FOof -> call w P m f vs tr = call w P n f vs tr.
Proof.
  intros H Hn.
  destruct (call_mono_le (fun _ x => x) (fun _ _ _ E => E) w P n m H f vs tr) as [E|[[_ E]|[D _]]];
    [symmetry; exact E | contradiction | discriminate].
Qed.
