(* C02inl - every side condition of the inlining theorems is needed: for each one a program on which the mirror of
   the code (chk = false) inlines a call, the checked run (chk = true) refuses, and the behaviour changes.
   All by vm_compute in the concrete world of Corr.v.  Function 0 is the entry `main`, function 1 the callee. *)
From Coq Require Import ZArith NArith List Bool Lia.
Import ListNotations.
From SV Require Import Common.Int32 C01mir.Syntax C01mir.Sem C02inl.Inline C02inl.Corr C02inl.ProofsInlTop.
Open Scope N_scope.

Lemma mangle_c_injective : mangle_injective mangle_c.
Proof. intros p x y H. unfold mangle_c, W32 in H. lia. Qed.

Definition fn (nm : N) (params : list name) (body : list stmt) (ret : expr) : func :=
  mkfunc nm params (map (fun _ => 0) params) 0 body ret.
Definition call1 (args : list expr) (ret : option name) : stmt := SCall (CFn 1 (map (fun _ => 0) args) 0) args 0 ret.
Definition mv (x : name) (e : expr) : stmt := SBin x PLUS e (EInt 0).

Definition changes (P P' : program) : Prop :=
  sem refw P 0 [] 5 <> OutOfFuel /\ sem refw P' 0 [] 5 <> sem refw P 0 [] 5.

(* (a) the fresh names must be fresh: prefix 7 makes 1 * 2^32 + 7 out of the callee's variable 1, a name main reads *)
Definition Pa : program :=
  [fn 0 [] [mv 4294967303 (EInt 5); call1 [] (Some 10)] (EVar 4294967303 0);
   fn 1 [] [mv 1 (EInt 9)] (EVar 1 0)].
Lemma inline_needs_fresh_names_refuted :
  exists P', inline_site mangle_c false Pa 0 0 7 = Some P' /\ inline_site mangle_c true Pa 0 0 7 = None /\
             inline_site mangle_c true Pa 0 0 8 <> None /\ changes Pa P'.
Proof. eexists. split; [vm_compute; reflexivity|]. split; [vm_compute; reflexivity|]. split; [vm_compute; discriminate|].
  split; vm_compute; discriminate. Qed.

(* (b) the callee must be scoped: it reads a variable it never defines, which after inlining is main's variable *)
Definition Pb : program :=
  [fn 0 [] [mv 20 (EInt 5); call1 [] (Some 10)] (EVar 10 0);
   fn 1 [] [] (EVar 20 0)].
Lemma inline_needs_scoped_callee_refuted :
  exists P', inline_site mangle_c false Pb 0 0 7 = Some P' /\ inline_site mangle_c true Pb 0 0 7 = None /\ changes Pb P'.
Proof. eexists. split; [vm_compute; reflexivity|]. split; [vm_compute; reflexivity|]. split; vm_compute; discriminate. Qed.

(* (c) no Break outside a loop in the callee: inlined into a loop of main it leaves that loop *)
Definition Pc : program :=
  [fn 0 [] [SWhile [] [call1 [] None; SBreak (EInt 1)] (Some (10, 0))] (EVar 10 0);
   fn 1 [] [SBreak (EInt 2)] (EInt 0)].
Lemma inline_needs_no_break_refuted :
  exists P', inline_site mangle_c false Pc 0 0 7 = Some P' /\ inline_site mangle_c true Pc 0 0 7 = None /\ changes Pc P'.
Proof. eexists. split; [vm_compute; reflexivity|]. split; [vm_compute; reflexivity|]. split; vm_compute; discriminate. Qed.

(* (d) as many arguments as parameters: the call is stuck, the inlined code is not *)
Definition Pd : program :=
  [fn 0 [] [call1 [] (Some 10)] (EVar 10 0);
   fn 1 [30] [] (EVar 30 0)].
Lemma inline_needs_arity_refuted :
  exists P', inline_site mangle_c false Pd 0 0 7 = Some P' /\ inline_site mangle_c true Pd 0 0 7 = None /\ changes Pd P'.
Proof. eexists. split; [vm_compute; reflexivity|]. split; [vm_compute; reflexivity|]. split; vm_compute; discriminate. Qed.

(* (e) LateInitAssignment must not target a parameter: after inlining it assigns main's variable *)
Definition Pe : program :=
  [fn 0 [] [mv 20 (EInt 5); call1 [EVar 20 0] (Some 10)] (EVar 20 0);
   fn 1 [30] [SAssign 30 (EInt 9)] (EVar 30 0)].
Lemma inline_needs_unassigned_parameters_refuted :
  exists P', inline_site mangle_c false Pe 0 0 7 = Some P' /\ inline_site mangle_c true Pe 0 0 7 = None /\ changes Pe P'.
Proof. eexists. split; [vm_compute; reflexivity|]. split; [vm_compute; reflexivity|]. split; vm_compute; discriminate. Qed.

(* (f) the renaming must be injective in the name (the checked run cannot see this: it is a hypothesis on mangle) *)
Definition Pf : program :=
  [fn 0 [] [call1 [] (Some 10)] (EVar 10 0);
   fn 1 [] [mv 1 (EInt 3); mv 2 (EInt 4)] (EVar 1 0)].
Lemma inline_needs_injective_renaming_refuted :
  exists P', inline_site (fun p _ => p) true Pf 0 0 7 = Some P' /\ changes Pf P'.
Proof. eexists. split; [vm_compute; reflexivity|]. split; vm_compute; discriminate. Qed.

(* non-vacuity: the theorems apply to programs with loops, branches, nested calls; the inlined program needs less fuel *)
Definition Pok : program :=
  [fn 0 [] [mv 20 (EInt 4); call1 [EVar 20 0; EInt 3] (Some 10); call1 [EVar 10 0; EVar 20 0] (Some 11)] (EVar 11 0);
   fn 1 [30; 31]
      [SBin 32 LT (EVar 30 0) (EVar 31 0);
       SIf (EVar 32 0) [SBin 33 MUL (EVar 30 0) (EInt 2)] [SCall (CFn 2 [0] 0) [EVar 31 0] 0 (Some 34)] [mkq 35 0 (EVar 33 0) (EVar 34 0)];
       SWhile [mkq 36 0 (EInt 0) (EVar 38 0)] [SBin 37 GE (EVar 36 0) (EInt 2); SSIf (EVar 37 0) false [SBreak (EVar 36 0)];
                                                  SBin 38 PLUS (EVar 36 0) (EInt 1)] (Some (39, 0));
       SBin 40 PLUS (EVar 35 0) (EVar 39 0)] (EVar 40 0);
   fn 2 [50] [SBin 51 PLUS (EVar 50 0) (EInt 100)] (EVar 51 0)].

Example inline_site_applies :
  exists P', inline_site mangle_c true Pok 0 1 7 = Some P' /\
             sem refw Pok 0 [] 4 = Done 106 [] /\ sem refw P' 0 [] 4 = Done 106 [] /\ P' <> Pok.
Proof. eexists. split; [vm_compute; reflexivity|]. split; [vm_compute; reflexivity|]. split; [vm_compute; reflexivity|].
  vm_compute. discriminate. Qed.

(* the whole pass: three call sites are inlined (two in main, one in function 1); the result needs less fuel *)
Example pass_applies :
  exists P' sup', optimize_functions mangle_c true Pok [7; 8; 9; 10; 11; 12; 13; 14] = Some (P', sup') /\
                  sem refw Pok 0 [] 3 = OutOfFuel /\ sem refw Pok 0 [] 4 = Done 106 [] /\ sem refw P' 0 [] 3 = Done 106 [] /\
                  length sup' = 5%nat.
Proof. eexists. eexists. split; [vm_compute; reflexivity|]. repeat split; vm_compute; reflexivity. Qed.
