(* C02inl - scalar replacement (Sroa.v).

   1. esc_sound: the escape analysis marks every variable that occurs in an operand position (everything except the
      pointer of an IndexedAccess and the callee of a Call): a struct / closure the pass replaces is never read
      there.  This is the escape condition the code checks.
   2. When, in addition, no replaced name is the pointer of a load or a callee (`no_ptr_use`: what remains after
      constant propagation has forwarded the loads, which is what the pipeline does before this pass), the pass
      deletes the allocations and changes nothing else (rw_is_del), and
   3. deleting allocations whose variable is never read preserves the behaviour of the whole program exactly, at the
      same fuel, up to the deleted allocation events, for every world that does not observe allocations of the
      deleted types (blind_to): del_preserves, sroa_deletion_preserves.

   The semantics answers field loads and closure calls by a world oracle over untyped 32-bit values; a statement
   about replaced LOADS and devirtualised closure CALLS would need the oracle to read back what an allocation it must
   not observe has stored (see the report in Props.v); those two rewrites are covered by the output tie and by the
   typed MIR interpreter of the harness only. *)
From Coq Require Import ZArith NArith List Bool Lia.
Import ListNotations.
From SV Require Import Common.Int32 C01mir.Syntax C01mir.Sem C02inl.Inline C02inl.Sroa C02inl.ProofsBase.
Open Scope Z_scope.

Lemma reads_SIf' c s1 s2 fas : reads (SIf c s1 s2 fas) = evars c ++ reads_l s1 ++ reads_l s2 ++ flat_map qvars fas.
Proof. reflexivity. Qed.
Lemma reads_SSIf' c inv ss : reads (SSIf c inv ss) = evars c ++ reads_l ss.
Proof. reflexivity. Qed.
Lemma reads_SWhile' lvs ss bc : reads (SWhile lvs ss bc) = flat_map qvars lvs ++ reads_l ss.
Proof. reflexivity. Qed.
Lemma oreads_SIf c s1 s2 fas : oreads (SIf c s1 s2 fas) = evars c ++ oreads_l s1 ++ oreads_l s2 ++ flat_map qvars fas.
Proof. reflexivity. Qed.
Lemma oreads_SSIf c inv ss : oreads (SSIf c inv ss) = evars c ++ oreads_l ss.
Proof. reflexivity. Qed.
Lemma oreads_SWhile lvs ss bc : oreads (SWhile lvs ss bc) = flat_map qvars lvs ++ oreads_l ss.
Proof. reflexivity. Qed.
Lemma preads_SIf c s1 s2 fas : preads (SIf c s1 s2 fas) = preads_l s1 ++ preads_l s2.
Proof. reflexivity. Qed.
Lemma preads_SSIf c inv ss : preads (SSIf c inv ss) = preads_l ss.
Proof. reflexivity. Qed.
Lemma preads_SWhile lvs ss bc : preads (SWhile lvs ss bc) = preads_l ss.
Proof. reflexivity. Qed.

Lemma reads_split_both :
  (forall s x, In x (reads s) -> In x (oreads s) \/ In x (preads s)) /\
  (forall ss x, In x (reads_l ss) -> In x (oreads_l ss) \/ In x (preads_l ss)).
Proof.
  apply stmt_stmts_ind2.
  - intros; simpl in *; auto.
  - intros; simpl in *; auto.
  - intros x p e y H. destruct p; simpl in *; auto.
  - intros c args rty ret y H. simpl in *. apply in_app_or in H. destruct H; [right|left]; assumption.
  - intros c s1 s2 fas IH1 IH2 y H. rewrite reads_SIf' in H. rewrite oreads_SIf, preads_SIf.
    apply in_app_or in H. destruct H as [H|H]; [left; apply in_or_app; auto|].
    apply in_app_or in H. destruct H as [H|H].
    { destruct (IH1 _ H); [left; apply in_or_app; right; apply in_or_app; auto | right; apply in_or_app; auto]. }
    apply in_app_or in H. destruct H as [H|H].
    { destruct (IH2 _ H); [left; apply in_or_app; right; apply in_or_app; right; apply in_or_app; auto | right; apply in_or_app; auto]. }
    left. apply in_or_app. right. apply in_or_app. right. apply in_or_app. auto.
  - intros c inv ss IH y H. rewrite reads_SSIf' in H. rewrite oreads_SSIf, preads_SSIf.
    apply in_app_or in H. destruct H as [H|H]; [left; apply in_or_app; auto|].
    destruct (IH _ H); [left; apply in_or_app; auto | auto].
  - intros; simpl in *; auto.
  - intros lvs ss bc IH y H. rewrite reads_SWhile' in H. rewrite oreads_SWhile, preads_SWhile.
    apply in_app_or in H. destruct H as [H|H]; [left; apply in_or_app; auto|].
    destruct (IH _ H); [left; apply in_or_app; auto | auto].
  - intros; simpl in *; auto.
  - intros; simpl in *; auto.
  - intros; simpl in *; auto.
  - intros; simpl in *; auto.
  - intros; simpl in *; auto.
  - intros s r IHs IHr y H. simpl in *. apply in_app_or in H. destruct H as [H|H].
    + destruct (IHs _ H); [left|right]; apply in_or_app; auto.
    + destruct (IHr _ H); [left|right]; apply in_or_app; auto.
Qed.

(* ---------- 1. the escape analysis ---------- *)
Lemma mark_mono e a x : In x (ea_esc a) -> In x (ea_esc (mark e a)).
Proof. destruct e; simpl; auto. Qed.
Lemma mark_in e a x : In x (evars e) -> In x (ea_esc (mark e a)).
Proof. destruct e; simpl; try tauto. Qed.

Lemma marks_mono es : forall a x, In x (ea_esc a) -> In x (ea_esc (marks es a)).
Proof. unfold marks. induction es as [|e es IH]; intros a x H; simpl; [exact H|]. apply IH. apply mark_mono. exact H. Qed.
Lemma marks_in es : forall a x, In x (flat_map evars es) -> In x (ea_esc (marks es a)).
Proof.
  unfold marks. induction es as [|e es IH]; intros a x H; simpl in *; [contradiction|].
  apply in_app_or in H. destruct H as [H|H]; [apply (marks_mono es); apply mark_in; exact H | apply IH; exact H].
Qed.

Lemma fold_q_mono (g : ea -> quad -> ea) qs :
  (forall a q x, In x (ea_esc a) -> In x (ea_esc (g a q))) -> forall a x, In x (ea_esc a) -> In x (ea_esc (fold_left g qs a)).
Proof. intro Hg. induction qs as [|q qs IH]; intros a x H; simpl; [exact H|]. apply IH. apply Hg. exact H. Qed.
Lemma fold_q_in (g : ea -> quad -> ea) qs :
  (forall a q x, In x (ea_esc a) -> In x (ea_esc (g a q))) -> (forall a q x, In x (qvars q) -> In x (ea_esc (g a q))) ->
  forall a x, In x (flat_map qvars qs) -> In x (ea_esc (fold_left g qs a)).
Proof.
  intros Hm Hg. induction qs as [|q qs IH]; intros a x H; simpl in *; [contradiction|].
  apply in_app_or in H. destruct H as [H|H]; [apply (fold_q_mono g qs Hm); apply Hg; exact H | apply IH; exact H].
Qed.

Definition gq (a : ea) (q : quad) : ea := mark (q_e2 q) (mark (q_e1 q) a).
Lemma gq_mono a q x : In x (ea_esc a) -> In x (ea_esc (gq a q)).
Proof. intro H. unfold gq. apply mark_mono, mark_mono. exact H. Qed.
Lemma gq_in a q x : In x (qvars q) -> In x (ea_esc (gq a q)).
Proof. unfold gq, qvars. intro H. apply in_app_or in H. destruct H; [apply mark_mono, mark_in | apply mark_in]; assumption. Qed.

Lemma esc_SIf c s1 s2 fas a :
  esc_stmt ver_now (SIf c s1 s2 fas) a = fold_left gq fas (esc_stmts ver_now s2 (esc_stmts ver_now s1 (mark c a))).
Proof. reflexivity. Qed.
Lemma esc_SSIf c inv ss a : esc_stmt ver_now (SSIf c inv ss) a = esc_stmts ver_now ss (mark c a).
Proof. reflexivity. Qed.
Lemma esc_SWhile lvs ss bc a : esc_stmt ver_now (SWhile lvs ss bc) a = esc_stmts ver_now ss (fold_left gq lvs a).
Proof. reflexivity. Qed.

Lemma esc_both :
  (forall s a, (forall x, In x (ea_esc a) -> In x (ea_esc (esc_stmt ver_now s a))) /\
               (forall x, In x (oreads s) -> In x (ea_esc (esc_stmt ver_now s a)))) /\
  (forall ss a, (forall x, In x (ea_esc a) -> In x (ea_esc (esc_stmts ver_now ss a))) /\
                (forall x, In x (oreads_l ss) -> In x (ea_esc (esc_stmts ver_now ss a)))).
Proof.
  apply stmt_stmts_ind2.
  - intros x op e1 e2 a. simpl. split; intros y H.
    + apply mark_mono, mark_mono. exact H.
    + apply in_app_or in H. destruct H; [apply mark_mono, mark_in | apply mark_in]; assumption.
  - intros x e a. simpl. split; intros y H; [apply mark_mono | apply mark_in]; exact H.
  - intros x p e a. destruct p; simpl; split; intros y H; try (apply mark_mono; exact H); try (apply mark_in; exact H); auto; contradiction.
  - intros c args rty ret a. simpl. split; intros y H; [apply marks_mono | apply marks_in]; exact H.
  - intros c s1 s2 fas IH1 IH2 a. rewrite esc_SIf, oreads_SIf.
    split; intros y H.
    + apply (fold_q_mono gq fas gq_mono). apply (proj1 (IH2 _)). apply (proj1 (IH1 _)). apply mark_mono. exact H.
    + apply in_app_or in H. destruct H as [H|H].
      { apply (fold_q_mono gq fas gq_mono). apply (proj1 (IH2 _)). apply (proj1 (IH1 _)). apply mark_in. exact H. }
      apply in_app_or in H. destruct H as [H|H].
      { apply (fold_q_mono gq fas gq_mono). apply (proj1 (IH2 _)). apply (proj2 (IH1 _)). exact H. }
      apply in_app_or in H. destruct H as [H|H].
      { apply (fold_q_mono gq fas gq_mono). apply (proj2 (IH2 _)). exact H. }
      apply (fold_q_in gq fas gq_mono gq_in). exact H.
  - intros c inv ss IH a. rewrite esc_SSIf, oreads_SSIf.
    split; intros y H.
    + apply (proj1 (IH _)). apply mark_mono. exact H.
    + apply in_app_or in H. destruct H as [H|H]; [apply (proj1 (IH _)); apply mark_in; exact H | apply (proj2 (IH _)); exact H].
  - intros e a. simpl. split; intros y H; [apply mark_mono | apply mark_in]; exact H.
  - intros lvs ss bc IH a. rewrite esc_SWhile, oreads_SWhile.
    split; intros y H.
    + apply (proj1 (IH _)). apply (fold_q_mono gq lvs gq_mono). exact H.
    + apply in_app_or in H. destruct H as [H|H].
      * apply (proj1 (IH _)). apply (fold_q_in gq lvs gq_mono gq_in). exact H.
      * apply (proj2 (IH _)). exact H.
  - intros x t a. simpl. split; intros y H; [exact H | contradiction].
  - intros x e a. simpl. split; intros y H; [apply mark_mono | apply mark_in]; exact H.
  - intros x t es a. simpl. split; intros y H; [apply marks_mono | apply marks_in]; exact H.
  - intros x t f ft e a. simpl. split; intros y H; [apply mark_mono | apply mark_in]; exact H.
  - intros a. simpl. split; intros y H; [exact H | contradiction].
  - intros s r IHs IHr a. simpl. split; intros y H.
    + apply (proj1 (IHr _)). apply (proj1 (IHs _)). exact H.
    + apply in_app_or in H. destruct H as [H|H]; [apply (proj1 (IHr _)); apply (proj2 (IHs _)); exact H | apply (proj2 (IHr _)); exact H].
Qed.

(* a name the analysis of the (unmodified) code does not mark occurs in no operand position and is not returned *)
Theorem esc_sound f x :
  memb x (ea_esc (analyse ver_now f)) = false -> ~ In x (oreads_l (f_body f)) /\ ~ In x (evars (f_ret f)).
Proof.
  intro H. apply memb_false_In in H. unfold analyse in H. split; intro Hc; apply H.
  - apply mark_mono. apply (proj2 (proj2 esc_both (f_body f) _)). exact Hc.
  - apply mark_in. exact Hc.
Qed.

(* ---------- 2. without pointer uses the pass is deletion ---------- *)
Lemma res_nil e : res [] e = e.
Proof. destruct e; reflexivity. Qed.
Lemma map_res_nil es : map (res []) es = es.
Proof. induction es as [|e es IH]; simpl; [reflexivity|]. rewrite res_nil. rewrite IH. reflexivity. Qed.
Lemma res_quad_nil qs : map (res_quad []) qs = qs.
Proof. induction qs as [|q qs IH]; simpl; [reflexivity|]. rewrite IH. unfold res_quad. rewrite !res_nil. destruct q; reflexivity. Qed.

Lemma rw_SIf fty rs rc c s1 s2 fas sub :
  rw_stmt fty rs rc (SIf c s1 s2 fas) sub =
  match rw_stmts fty rs rc s1 sub with
  | None => None
  | Some (s1', sub1) => match rw_stmts fty rs rc s2 sub1 with
                        | None => None
                        | Some (s2', sub2) => Some ([SIf (res sub c) s1' s2' (map (res_quad sub2) fas)], sub2)
                        end
  end.
Proof. reflexivity. Qed.
Lemma rw_SSIf fty rs rc c inv ss sub :
  rw_stmt fty rs rc (SSIf c inv ss) sub =
  match rw_stmts fty rs rc ss sub with None => None | Some (ss', sub1) => Some ([SSIf (res sub c) inv ss'], sub1) end.
Proof. reflexivity. Qed.
Lemma rw_SWhile fty rs rc lvs ss bc sub :
  rw_stmt fty rs rc (SWhile lvs ss bc) sub =
  match rw_stmts fty rs rc ss sub with None => None | Some (ss', sub1) => Some ([SWhile (map (res_quad sub) lvs) ss' bc], sub1) end.
Proof. reflexivity. Qed.

Lemma rw_is_del_both fty rs rc :
  (forall s, (forall x, In x (preads s) -> rs x = None /\ rc x = None) ->
             rw_stmt fty rs rc s [] = Some (del_stmt (fun x => is_some (rs x)) (fun x => is_some (rc x)) s, [])) /\
  (forall ss, (forall x, In x (preads_l ss) -> rs x = None /\ rc x = None) ->
              rw_stmts fty rs rc ss [] = Some (del_stmts (fun x => is_some (rs x)) (fun x => is_some (rc x)) ss, [])).
Proof.
  apply stmt_stmts_ind2.
  - intros. simpl. rewrite !res_nil. reflexivity.
  - intros. simpl. rewrite !res_nil. reflexivity.
  - intros x p e H. destruct p as [t i|t|t]; simpl; try (rewrite res_nil; reflexivity).
    destruct e as [z|z|s0|y u]; try (rewrite res_nil; reflexivity).
    destruct (H y) as [H1 _]; [simpl; auto|]. rewrite H1. reflexivity.
  - intros c args rty ret H. simpl. destruct c as [f a r0|y t].
    + rewrite map_res_nil. reflexivity.
    + destruct (H y) as [_ H2]; [simpl; auto|]. rewrite H2. simpl. rewrite map_res_nil. reflexivity.
  - intros c s1 s2 fas IH1 IH2 H. rewrite preads_SIf in H. rewrite rw_SIf.
    rewrite IH1 by (intros x Hx; apply H; apply in_or_app; left; exact Hx).
    rewrite IH2 by (intros x Hx; apply H; apply in_or_app; right; exact Hx).
    rewrite res_quad_nil, res_nil. reflexivity.
  - intros c inv ss IH H. rewrite preads_SSIf in H. rewrite rw_SSIf.
    rewrite IH by exact H. rewrite res_nil. reflexivity.
  - intros. simpl. rewrite res_nil. reflexivity.
  - intros lvs ss bc IH H. rewrite preads_SWhile in H. rewrite rw_SWhile.
    rewrite IH by exact H. rewrite res_quad_nil. reflexivity.
  - intros. reflexivity.
  - intros. simpl. rewrite res_nil. reflexivity.
  - intros x t es _. simpl. destruct (rs x); simpl; [reflexivity|]. rewrite map_res_nil. reflexivity.
  - intros x t f ft e _. simpl. destruct (rc x); simpl; [reflexivity|]. rewrite res_nil. reflexivity.
  - intros. reflexivity.
  - intros s r IHs IHr H. simpl in *.
    rewrite IHs by (intros x Hx; apply H; apply in_or_app; left; exact Hx).
    rewrite IHr by (intros x Hx; apply H; apply in_or_app; right; exact Hx). reflexivity.
Qed.

(* ---------- 3. deleting allocations that are never read ---------- *)
Definition is_T (T : list ty) (e : event) : bool :=
  match fst e with KStruct t | KClosure t _ => memT t T | KExt _ => false end.

(* tr' is tr without some allocation events of the types T *)
Inductive drel (T : list ty) : trace -> trace -> Prop :=
| dr_nil : drel T [] []
| dr_keep e tr tr' : drel T tr tr' -> drel T (e :: tr) (e :: tr')
| dr_drop e tr tr' : is_T T e = true -> drel T tr tr' -> drel T (e :: tr) tr'.

(* the world does not observe allocations of the types T *)
Definition blind_to (T : list ty) (w : world) : Prop :=
  forall tr tr', drel T tr tr' ->
    (forall f vs, w_ext w tr f vs = w_ext w tr' f vs) /\
    (forall k vs, w_new w tr k vs = w_new w tr' k vs) /\
    (forall p v, w_prim w tr p v = w_prim w tr' p v) /\
    (forall v, w_clo w tr v = w_clo w tr' v).

Definition frel (T : list ty) (o o' : fail) : Prop :=
  match o, o' with
  | FTrap t, FTrap t' | FAbort t, FAbort t' => drel T t t'
  | FStuck, FStuck | FOof, FOof => True
  | _, _ => False
  end.
Definition agree_off (D : name -> bool) (e e' : env) : Prop := forall x, D x = false -> lookup x e = lookup x e'.
Definition RD (T : list ty) (D : name -> bool) (r r' : Sem.res) : Prop :=
  match r, r' with
  | RNext e t, RNext e' t' => drel T t t' /\ agree_off D e e'
  | RBreak v e t, RBreak v' e' t' => v = v' /\ drel T t t' /\ agree_off D e e'
  | RFail o, RFail o' => frel T o o'
  | _, _ => False
  end.
Definition CD (T : list ty) (c c' : cres) : Prop :=
  match c, c' with
  | CRet v t, CRet v' t' => v = v' /\ drel T t t'
  | CFail o, CFail o' => frel T o o'
  | _, _ => False
  end.

Lemma agree_off_bind D e e' x v : agree_off D e e' -> agree_off D ((x, v) :: e) ((x, v) :: e').
Proof. intros H y Hy. simpl. destruct (N.eqb y x); [reflexivity | apply H; exact Hy]. Qed.
Lemma agree_off_bind_l D e e' x v : agree_off D e e' -> D x = true -> agree_off D ((x, v) :: e) e'.
Proof.
  intros H Hx y Hy. simpl. destruct (N.eqb y x) eqn:E; [|apply H; exact Hy].
  apply N.eqb_eq in E. subst. congruence.
Qed.

Definition offD (D : name -> bool) (l : list name) : Prop := forall x, In x l -> D x = false.
Lemma offD_app D a b : offD D (a ++ b) -> offD D a /\ offD D b.
Proof. intro H. split; intros x Hx; apply H; apply in_or_app; [left|right]; exact Hx. Qed.

Lemma eval_off w D e e' ex : agree_off D e e' -> offD D (evars ex) -> eval w e ex = eval w e' ex.
Proof.
  intros H Hv. destruct ex as [z|z|s|x t]; try reflexivity. unfold eval. f_equal. apply H. apply Hv. simpl. auto.
Qed.
Lemma map_eval_off w D e e' es : agree_off D e e' -> offD D (flat_map evars es) -> map (eval w e) es = map (eval w e') es.
Proof.
  intro H. induction es as [|a es IH]; intro Hv; simpl; [reflexivity|].
  simpl in Hv. apply offD_app in Hv. destruct Hv as [H1 H2]. f_equal; [eapply eval_off; eauto | apply IH; exact H2].
Qed.

Lemma bind_q_off w D (sel : quad -> expr) qs e e' :
  agree_off D e e' -> (forall q, In q qs -> offD D (evars (sel q))) ->
  agree_off D (combine (map q_name qs) (map (fun q => eval w e (sel q)) qs) ++ e)
              (combine (map q_name qs) (map (fun q => eval w e' (sel q)) qs) ++ e').
Proof.
  intros HA Hq.
  assert (E : map (fun q => eval w e (sel q)) qs = map (fun q => eval w e' (sel q)) qs).
  { apply map_ext_in. intros q Hi. eapply eval_off; [exact HA | apply Hq; exact Hi]. }
  rewrite E. intros x Hx.
  destruct (memb x (map fst (combine (map q_name qs) (map (fun q => eval w e' (sel q)) qs)))) eqn:Em.
  - clear -Em. revert Em. generalize (combine (map q_name qs) (map (fun q => eval w e' (sel q)) qs)).
    induction l as [|[y v] l IH]; simpl; intro H; [discriminate|].
    destruct (N.eqb x y); [reflexivity | apply IH; exact H].
  - rewrite !lookup_app_r by exact Em. apply HA. exact Hx.
Qed.

Lemma qoff_e1 D qs : offD D (flat_map qvars qs) -> forall q, In q qs -> offD D (evars (q_e1 q)).
Proof. intros H q Hq x Hx. apply H. apply in_flat_map. exists q. split; [exact Hq|]. unfold qvars. apply in_or_app. left. exact Hx. Qed.
Lemma qoff_e2 D qs : offD D (flat_map qvars qs) -> forall q, In q qs -> offD D (evars (q_e2 q)).
Proof. intros H q Hq x Hx. apply H. apply in_flat_map. exists q. split; [exact Hq|]. unfold qvars. apply in_or_app. right. exact Hx. Qed.

Section DelSim.
  Variable w : world.
  Variable T : list ty.
  Hypothesis Hblind : blind_to T w.
  Variables callf callf' : callf_t.
  Hypothesis Hc : forall f vs tr tr', drel T tr tr' -> CD T (callf f vs tr) (callf' f vs tr').
  Variable lf : nat.
  Variables ds dc : name -> bool.
  Let D := fun x => ds x || dc x.

  Lemma loop_del (I : env -> env -> Prop) body body' (next next' : env -> env) :
    (forall en en' tr tr', I en en' -> drel T tr tr' ->
        match body en tr, body' en' tr' with
        | RNext e t, RNext e' t' => drel T t t' /\ I (next e) (next' e')
        | RBreak v e t, RBreak v' e' t' => v = v' /\ drel T t t' /\ agree_off D e e'
        | RFail o, RFail o' => frel T o o'
        | _, _ => False
        end) ->
    forall n en en' tr tr', I en en' -> drel T tr tr' ->
      RD T D (loop body next n en tr) (loop body' next' n en' tr').
  Proof.
    intros Hb n. induction n as [|n IH]; intros en en' tr tr' HI Hd; simpl; [exact Logic.I|].
    specialize (Hb en en' tr tr' HI Hd).
    destruct (body en tr) as [e t|v e t|o]; destruct (body' en' tr') as [e2 t2|v2 e2 t2|o2]; try contradiction.
    - destruct Hb as [Hd2 HI2]. apply IH; assumption.
    - exact Hb.
    - exact Hb.
  Qed.

  Lemma del_types_SIf c s1 s2 fas : del_types ds dc (SIf c s1 s2 fas) = del_types_l ds dc s1 ++ del_types_l ds dc s2.
  Proof. reflexivity. Qed.
  Lemma del_types_SSIf c inv ss : del_types ds dc (SSIf c inv ss) = del_types_l ds dc ss.
  Proof. reflexivity. Qed.
  Lemma del_types_SWhile lvs ss bc : del_types ds dc (SWhile lvs ss bc) = del_types_l ds dc ss.
  Proof. reflexivity. Qed.
  Lemma del_SIf c s1 s2 fas : del_stmt ds dc (SIf c s1 s2 fas) = [SIf c (del_stmts ds dc s1) (del_stmts ds dc s2) fas].
  Proof. reflexivity. Qed.
  Lemma del_SSIf c inv ss : del_stmt ds dc (SSIf c inv ss) = [SSIf c inv (del_stmts ds dc ss)].
  Proof. reflexivity. Qed.
  Lemma del_SWhile lvs ss bc : del_stmt ds dc (SWhile lvs ss bc) = [SWhile lvs (del_stmts ds dc ss) bc].
  Proof. reflexivity. Qed.

  Definition okT (l : list ty) : Prop := forall t, In t l -> memT t T = true.
  Lemma okT_app a b : okT (a ++ b) -> okT a /\ okT b.
  Proof. intro H. split; intros x Hx; apply H; apply in_or_app; [left|right]; exact Hx. Qed.

  Theorem del_sim_both :
    (forall s, offD D (reads s) -> okT (del_types ds dc s) -> forall en en' tr tr', agree_off D en en' -> drel T tr tr' ->
        RD T D (exec w callf lf s en tr) (exec_list (exec w callf' lf) (del_stmt ds dc s) en' tr')) /\
    (forall ss, offD D (reads_l ss) -> okT (del_types_l ds dc ss) -> forall en en' tr tr', agree_off D en en' -> drel T tr tr' ->
        RD T D (exec_list (exec w callf lf) ss en tr) (exec_list (exec w callf' lf) (del_stmts ds dc ss) en' tr')).
  Proof.
    apply stmt_stmts_ind2.
    - (* SBin *) intros x op e1 e2 Hr _ en en' tr tr' HA Hd. simpl in Hr. apply offD_app in Hr. destruct Hr as [R1 R2].
      simpl. rewrite (eval_off w D en en' e1 HA R1), (eval_off w D en en' e2 HA R2).
      destruct (rt_binop op (eval w en' e1) (eval w en' e2)); simpl; [|exact Hd].
      split; [exact Hd | apply agree_off_bind; exact HA].
    - intros x e Hr _ en en' tr tr' HA Hd. simpl in Hr. simpl. rewrite (eval_off w D en en' e HA Hr).
      split; [exact Hd | apply agree_off_bind; exact HA].
    - intros x p e Hr _ en en' tr tr' HA Hd. simpl in Hr. simpl. rewrite (eval_off w D en en' e HA Hr).
      destruct (Hblind _ _ Hd) as (_ & _ & Hp & _). rewrite Hp.
      split; [exact Hd | apply agree_off_bind; exact HA].
    - (* SCall *) intros c args rty ret Hr _ en en' tr tr' HA Hd. simpl in Hr. apply offD_app in Hr. destruct Hr as [R1 R2].
      assert (Ea : map (eval w en) args = map (eval w en') args) by (eapply map_eval_off; eauto).
      assert (Hret : forall v t t', drel T t t' -> RD T D (RNext (bind_opt ret v en) t) (RNext (bind_opt ret v en') t')).
      { intros v t t' Ht. simpl. split; [exact Ht|]. destruct ret; simpl; [apply agree_off_bind|]; exact HA. }
      simpl. destruct c as [f atys rty0|x t].
      + rewrite <- Ea. specialize (Hc f (map (eval w en) args) tr tr' Hd).
        destruct (callf f (map (eval w en) args) tr) as [v t|o]; destruct (callf' f (map (eval w en) args) tr') as [v2 t2|o2];
          simpl in Hc; try contradiction.
        * destruct Hc as [-> Ht]. apply Hret. exact Ht.
        * exact Hc.
      + assert (Ex : lookup x en = lookup x en') by (apply HA; apply R1; simpl; auto).
        destruct (Hblind _ _ Hd) as (_ & _ & _ & Hclo). rewrite <- Ex, <- Ea, <- Hclo.
        destruct (w_clo w tr (wrap32 (lookup x en))) as [[f c0]|]; [|simpl; exact Logic.I].
        specialize (Hc f (c0 :: map (eval w en) args) tr tr' Hd).
        destruct (callf f (c0 :: map (eval w en) args) tr) as [v t1|o]; destruct (callf' f (c0 :: map (eval w en) args) tr') as [v2 t2|o2];
          simpl in Hc; try contradiction.
        * destruct Hc as [-> Ht]. apply Hret. exact Ht.
        * exact Hc.
    - (* SIf *) intros c s1 s2 fas IH1 IH2 Hr Ht en en' tr tr' HA Hd.
      rewrite reads_SIf' in Hr. apply offD_app in Hr. destruct Hr as [Rc Hr]. apply offD_app in Hr. destruct Hr as [R1 Hr].
      apply offD_app in Hr. destruct Hr as [R2 Rf].
      rewrite del_types_SIf in Ht. apply okT_app in Ht. destruct Ht as [T1 T2].
      rewrite del_SIf, exec_list_single. simpl. rewrite (eval_off w D en en' c HA Rc).
      destruct (cond (eval w en' c)) as [[|]|]; [| |exact Logic.I].
      + specialize (IH1 R1 T1 en en' tr tr' HA Hd).
        destruct (exec_list (exec w callf lf) s1 en tr) as [e3 t3|v3 e3 t3|o3];
          destruct (exec_list (exec w callf' lf) (del_stmts ds dc s1) en' tr') as [e4 t4|v4 e4 t4|o4]; simpl in IH1; try contradiction; simpl.
        * destruct IH1 as [Hd2 HA2]. split; [exact Hd2|]. apply (bind_q_off w D q_e1); [exact HA2 | apply qoff_e1; exact Rf].
        * exact IH1.
        * exact IH1.
      + specialize (IH2 R2 T2 en en' tr tr' HA Hd).
        destruct (exec_list (exec w callf lf) s2 en tr) as [e3 t3|v3 e3 t3|o3];
          destruct (exec_list (exec w callf' lf) (del_stmts ds dc s2) en' tr') as [e4 t4|v4 e4 t4|o4]; simpl in IH2; try contradiction; simpl.
        * destruct IH2 as [Hd2 HA2]. split; [exact Hd2|]. apply (bind_q_off w D q_e2); [exact HA2 | apply qoff_e2; exact Rf].
        * exact IH2.
        * exact IH2.
    - (* SSIf *) intros c inv ss IH Hr Ht en en' tr tr' HA Hd.
      rewrite reads_SSIf' in Hr. apply offD_app in Hr. destruct Hr as [Rc Rs]. rewrite del_types_SSIf in Ht.
      rewrite del_SSIf, exec_list_single. simpl. rewrite (eval_off w D en en' c HA Rc).
      destruct (cond (eval w en' c)) as [b|]; [|exact Logic.I].
      destruct (xorb b inv); [apply IH; assumption|]. simpl. auto.
    - (* SBreak *) intros e Hr _ en en' tr tr' HA Hd. simpl in Hr. simpl. rewrite (eval_off w D en en' e HA Hr). auto.
    - (* SWhile *) intros lvs ss bc IH Hr Ht en en' tr tr' HA Hd.
      rewrite reads_SWhile' in Hr. apply offD_app in Hr. destruct Hr as [Rl Rs]. rewrite del_types_SWhile in Ht.
      rewrite del_SWhile, exec_list_single. simpl.
      assert (HL : RD T D (loop (exec_list (exec w callf lf) ss) (bind_e2 w lvs) lf (bind_e1 w lvs en) tr)
                          (loop (exec_list (exec w callf' lf) (del_stmts ds dc ss)) (bind_e2 w lvs) lf (bind_e1 w lvs en') tr')).
      { apply (loop_del (agree_off D)).
        - intros e e' t t' He Hdt. specialize (IH Rs Ht e e' t t' He Hdt).
          destruct (exec_list (exec w callf lf) ss e t) as [e3 t3|v3 e3 t3|o3];
            destruct (exec_list (exec w callf' lf) (del_stmts ds dc ss) e' t') as [e4 t4|v4 e4 t4|o4]; simpl in IH; try contradiction.
          + destruct IH as [Hd2 HA2]. split; [exact Hd2|]. apply (bind_q_off w D q_e2); [exact HA2 | apply qoff_e2; exact Rl].
          + exact IH.
          + exact IH.
        - apply (bind_q_off w D q_e1); [exact HA | apply qoff_e1; exact Rl].
        - exact Hd. }
      destruct (loop (exec_list (exec w callf lf) ss) (bind_e2 w lvs) lf (bind_e1 w lvs en) tr) as [e3 t3|v3 e3 t3|o3];
        destruct (loop (exec_list (exec w callf' lf) (del_stmts ds dc ss)) (bind_e2 w lvs) lf (bind_e1 w lvs en') tr') as [e4 t4|v4 e4 t4|o4];
        simpl in HL; try contradiction; simpl.
      + exact Logic.I.
      + destruct HL as (-> & Hd2 & HA2). split; [exact Hd2|]. destruct bc as [[b t]|]; simpl; [apply agree_off_bind|]; exact HA2.
      + exact HL.
    - (* SDecl *) intros x t _ _ en en' tr tr' HA Hd. simpl. split; [exact Hd | apply agree_off_bind; exact HA].
    - intros x e Hr _ en en' tr tr' HA Hd. simpl in Hr. simpl. rewrite (eval_off w D en en' e HA Hr).
      split; [exact Hd | apply agree_off_bind; exact HA].
    - (* SStruct *) intros x t es Hr Ht en en' tr tr' HA Hd. simpl in Hr.
      assert (Ea : map (eval w en) es = map (eval w en') es) by (eapply map_eval_off; eauto).
      simpl in *. destruct (ds x) eqn:Ex.
      + simpl. split.
        * apply dr_drop; [|exact Hd]. simpl. apply Ht. simpl. auto.
        * apply agree_off_bind_l; [exact HA|]. unfold D. rewrite Ex. reflexivity.
      + simpl. destruct (Hblind _ _ Hd) as (_ & Hn & _). rewrite Ea, Hn.
        split; [apply dr_keep; exact Hd | apply agree_off_bind; exact HA].
    - (* SClosure *) intros x t f ft e Hr Ht en en' tr tr' HA Hd. simpl in Hr.
      simpl in *. destruct (dc x) eqn:Ex.
      + simpl. split.
        * apply dr_drop; [|exact Hd]. simpl. apply Ht. simpl. auto.
        * apply agree_off_bind_l; [exact HA|]. unfold D. rewrite Ex. apply orb_true_r.
      + simpl. rewrite (eval_off w D en en' e HA Hr). destruct (Hblind _ _ Hd) as (_ & Hn & _). rewrite Hn.
        split; [apply dr_keep; exact Hd | apply agree_off_bind; exact HA].
    - (* nil *) intros _ _ en en' tr tr' HA Hd. simpl. auto.
    - (* cons *) intros s r IHs IHr Hr Ht en en' tr tr' HA Hd. simpl in Hr, Ht.
      apply offD_app in Hr. destruct Hr as [R1 R2]. apply okT_app in Ht. destruct Ht as [T1 T2].
      simpl del_stmts. rewrite exec_list_cons, exec_list_app.
      specialize (IHs R1 T1 en en' tr tr' HA Hd).
      destruct (exec w callf lf s en tr) as [e3 t3|v3 e3 t3|o3];
        destruct (exec_list (exec w callf' lf) (del_stmt ds dc s) en' tr') as [e4 t4|v4 e4 t4|o4]; simpl in IHs; try contradiction.
      + destruct IHs as [Hd2 HA2]. apply IHr; assumption.
      + exact IHs.
      + exact IHs.
  Qed.
End DelSim.

(* ---------- program level ---------- *)
Definition del_func (ds dc : name -> bool) (f : func) : func :=
  mkfunc (f_name f) (f_params f) (f_atys f) (f_rty f) (del_stmts ds dc (f_body f)) (f_ret f).

Definition fn_del (T : list ty) (fn fn' : func) : Prop :=
  exists ds dc, fn' = del_func ds dc fn /\
                offD (fun x => ds x || dc x) (reads_l (f_body fn) ++ evars (f_ret fn)) /\
                okT T (del_types_l ds dc (f_body fn)).

Definition prog_del (T : list ty) (P P' : program) : Prop :=
  forall f, match find_func P f with
            | None => find_func P' f = None
            | Some fn => exists fn', find_func P' f = Some fn' /\ fn_del T fn fn'
            end.

Lemma del_id_both :
  (forall s, del_stmt (fun _ => false) (fun _ => false) s = [s]) /\
  (forall ss, del_stmts (fun _ => false) (fun _ => false) ss = ss).
Proof.
  apply stmt_stmts_ind2; intros; try reflexivity.
  - rewrite del_SIf, H, H0. reflexivity.
  - rewrite del_SSIf, H. reflexivity.
  - rewrite del_SWhile, H. reflexivity.
  - simpl. rewrite H, H0. reflexivity.
Qed.

Lemma del_types_none_both :
  (forall s, del_types (fun _ => false) (fun _ => false) s = []) /\
  (forall ss, del_types_l (fun _ => false) (fun _ => false) ss = []).
Proof.
  apply stmt_stmts_ind2; intros; try reflexivity.
  - rewrite del_types_SIf, H, H0. reflexivity.
  - rewrite del_types_SSIf, H. reflexivity.
  - rewrite del_types_SWhile, H. reflexivity.
  - simpl. rewrite H, H0. reflexivity.
Qed.

Lemma fn_del_refl T fn : fn_del T fn fn.
Proof.
  exists (fun _ => false), (fun _ => false). split; [|split].
  - unfold del_func. rewrite (proj2 del_id_both). destruct fn; reflexivity.
  - intros x _. reflexivity.
  - rewrite (proj2 del_types_none_both). intros t [].
Qed.

Theorem prog_del_preserves w T P P' : blind_to T w -> prog_del T P P' ->
  forall n f vs tr tr', drel T tr tr' -> CD T (call w P n f vs tr) (call w P' n f vs tr').
Proof.
  intros Hb HP. induction n as [|n IH]; intros f vs tr tr' Hd; [simpl; exact I|].
  change (call w P (S n) f vs tr) with
    (match find_func P f with None => call_ext w f vs tr | Some fn => run_body w (call w P n) (S n) fn vs tr end).
  change (call w P' (S n) f vs tr') with
    (match find_func P' f with None => call_ext w f vs tr' | Some fn => run_body w (call w P' n) (S n) fn vs tr' end).
  specialize (HP f). destruct (find_func P f) as [fn|] eqn:Ef.
  - destruct HP as [fn' [Ef' (ds & dc & -> & Hoff & Hok)]]. rewrite Ef'.
    apply offD_app in Hoff. destruct Hoff as [Ro Rr].
    unfold run_body, init_env, del_func. simpl.
    destruct (negb (length vs =? length (f_params fn))%nat); [simpl; exact I|].
    pose proof (proj2 (del_sim_both w T Hb (call w P n) (call w P' n) IH (S n) ds dc) (f_body fn) Ro Hok
                  (combine (f_params fn) vs) (combine (f_params fn) vs) tr tr' (fun x _ => eq_refl) Hd) as HS.
    unfold exec_block.
    destruct (exec_list (exec w (call w P n) (S n)) (f_body fn) (combine (f_params fn) vs) tr) as [e3 t3|v3 e3 t3|o3];
      destruct (exec_list (exec w (call w P' n) (S n)) (del_stmts ds dc (f_body fn)) (combine (f_params fn) vs) tr') as [e4 t4|v4 e4 t4|o4];
      simpl in HS; try contradiction; simpl.
    + destruct HS as [Hd2 HA]. split; [|exact Hd2]. eapply eval_off; eauto.
    + exact I.
    + exact HS.
  - rewrite HP. unfold call_ext. destruct (Hb _ _ Hd) as (He & _). rewrite He.
    destruct (w_ext w tr' f vs); simpl; [split; [reflexivity|] |]; apply dr_keep; exact Hd.
Qed.

(* observable outcomes *)
Definition orel (T : list ty) (o o' : outcome) : Prop :=
  match o, o' with
  | Done v t, Done v' t' => v = v' /\ drel T t t'
  | Trap t, Trap t' | Abort t, Abort t' => drel T t t'
  | Stuck, Stuck | OutOfFuel, OutOfFuel => True
  | _, _ => False
  end.

Theorem del_preserves w T P P' : blind_to T w -> prog_del T P P' ->
  forall f args fuel, orel T (sem w P f args fuel) (sem w P' f args fuel).
Proof.
  intros Hb HP f args fuel. unfold sem.
  pose proof (prog_del_preserves w T P P' Hb HP fuel f args [] [] (dr_nil T)) as H.
  destruct (call w P fuel f args []) as [v t|[t|t| |]]; destruct (call w P' fuel f args []) as [v2 t2|[t2|t2| |]];
    simpl in *; try contradiction; auto.
Qed.

(* the external calls of related traces are the same *)
Definition ext_only (tr : trace) : trace := filter (fun e => match fst e with KExt _ => true | _ => false end) tr.
Lemma drel_ext_only T tr tr' : drel T tr tr' -> ext_only tr = ext_only tr'.
Proof.
  intro H. induction H as [|e tr tr' H IH|e tr tr' He H IH]; simpl; [reflexivity| |].
  - rewrite IH. reflexivity.
  - unfold is_T in He. destruct (fst e); try discriminate; exact IH.
Qed.

(* ---------- the pass ---------- *)
Theorem sroa_is_deletion fty T f f' :
  sroa_func ver_now fty f = Some f' -> sroa_deletes_only fty T f = true -> fn_del T f f'.
Proof.
  unfold sroa_func, sroa_deletes_only. intros H Hc. apply andb_true_iff in Hc. destruct Hc as [Hp Ht].
  destruct (nothing_replaced (analyse ver_now f)); [inversion H; subst; apply fn_del_refl|].
  set (a := analyse ver_now f) in *.
  assert (Hpr : forall x, In x (preads_l (f_body f)) -> rs_of a x = None /\ rc_of a x = None).
  { intros x Hx. apply (forallb_In _ _ _ Hp) in Hx. apply andb_true_iff in Hx. destruct Hx as [H1 H2].
    destruct (rs_of a x); [discriminate|]. destruct (rc_of a x); [discriminate|]. auto. }
  rewrite (proj2 (rw_is_del_both fty (rs_of a) (rc_of a)) _ Hpr) in H. rewrite res_nil in H. inversion H; subst f'; clear H.
  exists (fun x => is_some (rs_of a x)), (fun x => is_some (rc_of a x)). split; [reflexivity|]. split.
  - intros x Hx. destruct (is_some (rs_of a x) || is_some (rc_of a x)) eqn:ED; [|reflexivity]. exfalso.
    assert (Hne : memb x (ea_esc a) = false).
    { apply orb_true_iff in ED. destruct ED as [ED|ED].
      - unfold rs_of in ED. destruct (aget (ea_s a) x); [|discriminate]. destruct (memb x (ea_esc a)); [discriminate | reflexivity].
      - unfold rc_of in ED. destruct (aget (ea_c a) x); [|discriminate]. destruct (memb x (ea_esc a)); [discriminate | reflexivity]. }
    destruct (esc_sound f x Hne) as [No Nr].
    apply in_app_or in Hx. destruct Hx as [Hx|Hx]; [|exact (Nr Hx)].
    destruct (proj2 reads_split_both _ _ Hx) as [Ho|Hpp]; [exact (No Ho)|].
    destruct (Hpr x Hpp) as [E1 E2]. rewrite E1, E2 in ED. discriminate.
  - intros t Hi. apply (forallb_In _ _ _ Ht). exact Hi.
Qed.

Lemma sroa_func_name fty f f' : sroa_func ver_now fty f = Some f' -> f_name f' = f_name f.
Proof.
  unfold sroa_func. destruct (nothing_replaced _); [intro H; inversion H; reflexivity|].
  destruct (rw_stmts _ _ _ _ _) as [[b sub]|]; [|discriminate]. intro H. inversion H. reflexivity.
Qed.

Theorem sroa_program_del fty T sel : forall P P',
  sroa_program fty sel P = Some P' -> (forall f, In f P -> sel f = true -> sroa_deletes_only fty T f = true) -> prog_del T P P'.
Proof.
  induction P as [|f r IH]; intros P' H Hs; simpl in H.
  - inversion H; subst. intro g. reflexivity.
  - destruct (if sel f then sroa_func ver_now fty f else Some f) as [f'|] eqn:Ef; [|discriminate].
    destruct (sroa_program fty sel r) as [r'|] eqn:Er; [|discriminate]. inversion H; subst P'; clear H.
    assert (Hrel : fn_del T f f' /\ f_name f' = f_name f).
    { destruct (sel f) eqn:Es.
      - split; [eapply sroa_is_deletion; [exact Ef | apply Hs; [left; reflexivity | exact Es]] | eapply sroa_func_name; eauto].
      - inversion Ef; subst. split; [apply fn_del_refl | reflexivity]. }
    destruct Hrel as [Hrel Hn].
    specialize (IH r' eq_refl (fun g Hg => Hs g (or_intror Hg))).
    intro g. simpl. rewrite Hn. destruct (N.eqb (f_name f) g).
    + exists f'. split; [reflexivity | exact Hrel].
    + apply IH.
Qed.

Theorem sroa_deletion_preserves w fty T sel P P' :
  blind_to T w -> sroa_program fty sel P = Some P' ->
  (forall f, In f P -> sel f = true -> sroa_deletes_only fty T f = true) ->
  forall f args fuel, orel T (sem w P f args fuel) (sem w P' f args fuel).
Proof. intros Hb H Hs. apply del_preserves; [exact Hb | eapply sroa_program_del; eauto]. Qed.
