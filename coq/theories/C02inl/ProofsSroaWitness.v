(* C02inl - scalar replacement: a world that satisfies the hypothesis of the deletion theorem, instances, and
   refutations (vm_compute):
     * the seeded change C02-4 (loop values no longer marked as escaping) changes behaviour;
     * the pass as it is resolves the loop values of a While BEFORE it rewrites the body: a loop value that names a
       load the body substitutes away is left dangling (MIR level; constant propagation forwards such loads before this
       pass runs, so no compiled program is known to reach it; replayed on the real pass with `vh inl-dump`);
     * a world that observes allocations (a bump allocator) tells the deleted allocation. *)
From Coq Require Import ZArith NArith List Bool Lia.
Import ListNotations.
From SV Require Import Common.Int32 C01mir.Syntax C01mir.Sem C02inl.Inline C02inl.Sroa C02inl.Corr C02inl.ProofsBase C02inl.ProofsSroa.
Open Scope Z_scope.

(* ---------- a world that does not observe allocations of the types T ---------- *)
Definition vis (T : list ty) (tr : trace) : trace := filter (fun e => negb (is_T T e)) tr.

Definition blindw (T : list ty) : world :=
  mkworld (fun tr => rw_ext (vis T tr)) (fun tr _ _ => BASE + Z.of_nat (length (vis T tr))) (fun s => 5000 + Z.of_N s)
          (fun z => 2 * z + 1) (fun tr => rw_prim (vis T tr)) (fun tr => rw_clo (vis T tr)).

Lemma drel_vis T tr tr' : drel T tr tr' -> vis T tr = vis T tr'.
Proof.
  intro H. induction H as [|e tr tr' H IH|e tr tr' He H IH]; simpl; [reflexivity| |].
  - rewrite IH. reflexivity.
  - rewrite He. simpl. exact IH.
Qed.

Lemma blindw_blind T : blind_to T (blindw T).
Proof. intros tr tr' H. simpl. rewrite (drel_vis T tr tr' H). repeat split; reflexivity. Qed.

Open Scope N_scope.
Definition fty0 : ty -> list ty * ty := fun _ => ([0], 0).
Definition mvz (x : name) (e : expr) : stmt := SBin x PLUS e (EInt 0).
Definition fnz (nm : N) (params : list name) (body : list stmt) (ret : expr) : func :=
  mkfunc nm params (map (fun _ => 0) params) 0 body ret.

(* ---------- an instance of the deletion theorem ----------
   function 0: a pair that is built and never used (its loads were forwarded), a closure that is never called, a pair
   that escapes (kept), an external call in between *)
Definition Fdel : func :=
  fnz 0 [1]
    [SBin 2 PLUS (EVar 1 0) (EInt 1);
     SStruct 3 7 [EVar 1 0; EVar 2 0];
     SCall (CFn 90 [0] 0) [EVar 2 0] 0 (Some 4);
     SClosure 5 8 1 9 (EVar 4 0);
     SStruct 6 7 [EVar 4 0; EInt 5];
     SIf (EVar 4 0) [SStruct 10 7 [EInt 1; EInt 2]] [] []]
    (EVar 6 7).

Example sroa_deletion_applies :
  exists f', sroa_func ver_now fty0 Fdel = Some f' /\ sroa_deletes_only fty0 [7; 8] Fdel = true /\ f' <> Fdel /\
             sem (blindw [7; 8]) [Fdel] 0 [3%Z] 3 =
               Done 100001 [(KStruct 7, [1; 2]%Z); (KStruct 7, [1; 5]%Z); (KClosure 8 1, [1%Z]); (KExt 90, [4%Z]);
                            (KStruct 7, [3; 4]%Z)] /\
             sem (blindw [7; 8]) [f'] 0 [3%Z] 3 = Done 100001 [(KStruct 7, [1; 5]%Z); (KExt 90, [4%Z])].
Proof.
  eexists. split; [vm_compute; reflexivity|]. split; [vm_compute; reflexivity|]. split; [vm_compute; discriminate|].
  split; vm_compute; reflexivity.
Qed.

(* ---------- the seeded change C02-4 ----------
   while (p = s0; loop value s) { if i >= 2 break p[0]; s = [p[0] + 1]; i = i + 1 }: the struct s is carried into the
   next iteration through the loop variable p.  The code as it is leaves the function alone; the seeded variant
   deletes the allocation of s and leaves the loop value dangling. *)
Definition Fc4 : func :=
  fnz 0 [1]
    [SStruct 2 7 [EVar 1 0];
     SWhile [mkq 3 7 (EVar 2 7) (EVar 8 7); mkq 4 0 (EInt 0) (EVar 9 0)]
       [SPrim 5 (PIdx 0 0) (EVar 3 7);
        SBin 6 GE (EVar 4 0) (EInt 2);
        SSIf (EVar 6 0) false [SBreak (EVar 5 0)];
        SBin 7 PLUS (EVar 5 0) (EInt 1);
        SStruct 8 7 [EVar 7 0];
        SBin 9 PLUS (EVar 4 0) (EInt 1)]
       (Some (10, 0))]
    (EVar 10 0).

Lemma sroa_c02_4_refuted :
  sroa_func ver_now fty0 Fc4 = Some Fc4 /\
  exists f', sroa_func ver_c02_4 fty0 Fc4 = Some f' /\ f' <> Fc4 /\
             (exists tr, sem refw [Fc4] 0 [5%Z] 4 = Done 7 tr) /\
             (forall tr, sem refw [f'] 0 [5%Z] 4 <> Done 7 tr).
Proof.
  split; [vm_compute; reflexivity|]. eexists. split; [vm_compute; reflexivity|]. split; [vm_compute; discriminate|].
  split; [eexists; vm_compute; reflexivity|]. intro tr. vm_compute. discriminate.
Qed.

(* ---------- loop values are resolved before the body is rewritten ----------
   while (i = 0; loop value v) { c = i >= 5; if c break i; t = i + a; s = [t; 7]; v = s[0] }: the pass deletes s, turns
   v into a substitution v -> t, and leaves the loop value `v`, which no statement defines any more. *)
Definition Flv : func :=
  fnz 0 [1]
    [SWhile [mkq 2 0 (EInt 0) (EVar 7 0)]
       [SBin 3 GE (EVar 2 0) (EInt 5);
        SSIf (EVar 3 0) false [SBreak (EVar 2 0)];
        SBin 4 PLUS (EVar 2 0) (EVar 1 0);
        SStruct 5 7 [EVar 4 0; EInt 7];
        SPrim 7 (PIdx 0 0) (EVar 5 7)]
       (Some (8, 0))]
    (EVar 8 0).

Lemma sroa_loop_value_dangling_refuted :
  wf_func Flv = true /\
  exists f', sroa_func ver_now fty0 Flv = Some f' /\ wf_func f' = false /\
             (exists tr, sem refw [Flv] 0 [3%Z] 4 = Done 6 tr) /\
             sem refw [f'] 0 [3%Z] 4 = OutOfFuel /\ sem refw [f'] 0 [3%Z] 40 = OutOfFuel.
Proof.
  split; [vm_compute; reflexivity|]. eexists. split; [vm_compute; reflexivity|]. split; [vm_compute; reflexivity|].
  split; [eexists; vm_compute; reflexivity|]. split; vm_compute; reflexivity.
Qed.

(* ---------- the world must not observe the deleted allocations ----------
   a bump allocator numbers the references: deleting the first allocation renumbers the second, which is returned *)
Definition Fbw : func :=
  fnz 0 [] [SStruct 1 7 [EInt 1]; SStruct 2 7 [EInt 2]] (EVar 2 7).

Lemma sroa_needs_blind_world_refuted :
  exists f', sroa_func ver_now fty0 Fbw = Some f' /\ sroa_deletes_only fty0 [7] Fbw = true /\
             sem refw [Fbw] 0 [] 2 = Done 100001 [(KStruct 7, [2%Z]); (KStruct 7, [1%Z])] /\
             sem refw [f'] 0 [] 2 = Done 100000 [(KStruct 7, [2%Z])].
Proof. eexists. split; [vm_compute; reflexivity|]. split; [vm_compute; reflexivity|]. split; vm_compute; reflexivity. Qed.
