(* C02 "optimisations never change behaviour" - the two passes without a model elsewhere: function inlining
   (inlining.rs) and scalar replacement (scalar_replacement.rs).  Models: Inline.v, Sroa.v (mirrors of the Rust,
   tied to the code by output equality on real programs, checks/c02_inl.py).  Semantics: C01mir/Sem.v - whole
   programs, calls between the functions of the program, externals and allocations answered by a world oracle,
   one fuel number bounding call depth and loop iterations; observable = outcome + trace.

   Inlining removes one level of calls, so the inlined program needs less fuel: the statements are
     equivalent_upto k P P' :  every determined outcome (anything but OutOfFuel) of P at fuel n is the outcome of P' at
                               fuel n, and every determined outcome of P' at fuel n is the outcome of P at fuel k * n.
   Hence P and P' have the same set of determined outcomes: same result, same trace, same trap / abort / stuck,
   and one diverges iff the other does.

   SIDE CONDITIONS.  The model functions take `chk`; with chk = true they test at every call site they inline
     site_ok: the callee is wf_callee (parameters distinct, reads in scope up to operands that are never evaluated,
              no Break outside a loop, LateInitAssignment never targets a parameter), the call has as many arguments
              as the callee has parameters, and no renamed binder of the callee is a name of the rewritten function;
     and (a round of the pass) that function names are pairwise distinct;
   and fail otherwise.  A successful checked run equals the unchecked run (= the mirror of the code), theorem 5.
   Every condition is refuted when dropped (6-11).  checks/c02_inl.py evaluates the checked run on every real program. *)
From Coq Require Import ZArith NArith List Bool.
Import ListNotations.
From SV Require Import Common.Int32 C01mir.Syntax C01mir.Sem C02inl.Inline C02inl.Sroa C02inl.Corr
  C02inl.ProofsInlPass C02inl.ProofsInlModel C02inl.ProofsInlTop C02inl.ProofsInlWitness C02inl.ProofsSroa C02inl.ProofsSroaWitness.

(* 1. inlining ONE call site (the k-th call, in function g, of another function of the program; prefix p for the new
      names) preserves the semantics of the program, for every renaming that is injective in the name *)
Theorem C02inl_one_call_site_preserves :
  forall mangle, mangle_injective mangle ->
  forall P g k p P', inline_site mangle true P g k p = Some P' -> equivalent_upto 2 P P'.
Proof. exact inline_one_site_preserves. Qed.

(* 2. the pass as a whole: the five rounds of optimize_functions with the cost policy of the estimator *)
Theorem C02inl_pass_preserves :
  forall mangle, mangle_injective mangle ->
  forall P sup P' sup', optimize_functions mangle true P sup = Some (P', sup') -> equivalent_upto 32 P P'.
Proof. exact pass_preserves. Qed.

(* 3. the cost estimate is only a heuristic: any policy (which functions may be inlined, which may perform inlining),
      any number of rounds; and, most generally, ANY set of call sites of ANY functions of the program (prog_rel:
      every function body of P' is a body of P in which some calls are replaced by the callee's rewritten body) *)
Theorem C02inl_any_policy_preserves :
  forall mangle, mangle_injective mangle ->
  forall pol n P sup P' sup', rounds mangle true pol n P sup = Some (P', sup') -> equivalent_upto (2 ^ n) P P'.
Proof. exact rounds_equivalent. Qed.

Theorem C02inl_any_call_sites_preserve :
  forall mangle, mangle_injective mangle ->
  forall P P', prog_rel mangle P P' -> equivalent_upto 2 P P'.
Proof. exact prog_rel_equivalent. Qed.

(* 4. more fuel never changes a determined outcome (so "at fuel k * n" above means "at every fuel >= k * n") *)
Theorem C02inl_fuel_monotone :
  forall w P n m f vs tr, (n <= m)%nat -> call w P n f vs tr <> CFail FOof -> call w P m f vs tr = call w P n f vs tr.
Proof. exact fuel_monotone. Qed.

(* 5. a checked run that succeeds is the run of the mirror of the code *)
Theorem C02inl_checked_run_is_the_mirror :
  forall mangle pol n P sup r, rounds mangle true pol n P sup = Some r -> rounds mangle false pol n P sup = Some r.
Proof. exact rounds_chk. Qed.

(* 6-11. every side condition is needed (vm_compute witnesses; the mirror inlines, the checked run refuses, the
         behaviour changes) *)
Theorem C02inl_fresh_names_needed_refuted :
  exists P', inline_site mangle_c false Pa 0 0 7 = Some P' /\ inline_site mangle_c true Pa 0 0 7 = None /\
             inline_site mangle_c true Pa 0 0 8 <> None /\ changes Pa P'.
Proof. exact inline_needs_fresh_names_refuted. Qed.

Theorem C02inl_scoped_callee_needed_refuted :
  exists P', inline_site mangle_c false Pb 0 0 7 = Some P' /\ inline_site mangle_c true Pb 0 0 7 = None /\ changes Pb P'.
Proof. exact inline_needs_scoped_callee_refuted. Qed.

Theorem C02inl_no_break_needed_refuted :
  exists P', inline_site mangle_c false Pc 0 0 7 = Some P' /\ inline_site mangle_c true Pc 0 0 7 = None /\ changes Pc P'.
Proof. exact inline_needs_no_break_refuted. Qed.

Theorem C02inl_arity_needed_refuted :
  exists P', inline_site mangle_c false Pd 0 0 7 = Some P' /\ inline_site mangle_c true Pd 0 0 7 = None /\ changes Pd P'.
Proof. exact inline_needs_arity_refuted. Qed.

Theorem C02inl_unassigned_parameters_needed_refuted :
  exists P', inline_site mangle_c false Pe 0 0 7 = Some P' /\ inline_site mangle_c true Pe 0 0 7 = None /\ changes Pe P'.
Proof. exact inline_needs_unassigned_parameters_refuted. Qed.

Theorem C02inl_injective_renaming_needed_refuted :
  exists P', inline_site (fun p _ => p) true Pf 0 0 7 = Some P' /\ changes Pf P'.
Proof. exact inline_needs_injective_renaming_refuted. Qed.

(* the renaming of the tie is injective *)
Theorem C02inl_tie_renaming_injective : mangle_injective mangle_c.
Proof. exact mangle_c_injective. Qed.

(* non-vacuity: a program with branches, a loop and nested calls on which the checked functions succeed *)
Example C02inl_one_site_applies :
  exists P', inline_site mangle_c true Pok 0 1 7 = Some P' /\
             sem refw Pok 0 [] 4 = Done 106 [] /\ sem refw P' 0 [] 4 = Done 106 [] /\ P' <> Pok.
Proof. exact inline_site_applies. Qed.

Example C02inl_pass_applies :
  exists P' sup', optimize_functions mangle_c true Pok [7; 8; 9; 10; 11; 12; 13; 14]%N = Some (P', sup') /\
                  sem refw Pok 0 [] 3 = OutOfFuel /\ sem refw Pok 0 [] 4 = Done 106 [] /\ sem refw P' 0 [] 3 = Done 106 [] /\
                  length sup' = 5%nat.
Proof. exact pass_applies. Qed.

(* ================= scalar replacement =================
   The pass replaces a struct / closure whose variable does not ESCAPE.  12: the escape condition the code checks -
   a variable the analysis does not mark occurs in no operand position of the function (everything except the pointer
   of an IndexedAccess and the callee of a Call) and is not returned.
   13-14: when moreover no replaced variable is the pointer of a load or a callee (sroa_deletes_only: the situation
   the pipeline creates, since constant propagation forwards loads from a known StructInit before this pass runs;
   evaluated on every real function by the tie) the pass deletes the allocations and nothing else, and that is EXACT
   on the target semantics: same fuel, same value, same kind of outcome, traces equal up to the deleted allocation
   events (orel / drel; in particular the same external calls, 15) - for every world that does not observe
   allocations of the deleted types T (blind_to; blindw is such a world, 16).
   NOT PROVED (kept as the full statement): the same for replaced LOADS and devirtualised closure CALLS,
       forall w (heap-like) fty T sel P P', sroa_program fty sel P = Some P' -> ... -> orel T (sem w P ..) (sem w P' ..).
   In this semantics loads and closure calls are answered by the world oracle from untyped 32-bit values: the oracle
   would have to read back the fields of an allocation that, to be deletable, it must not observe.  Those two
   rewrites are tied to the code by output equality and validated by the typed MIR interpreter of the harness.
   17: the full statement is moreover FALSE of the faithful model at MIR level (loop values are resolved before the
   body is rewritten); 18: the seeded change C02-4 is refuted; 19: blindness is needed. *)
Theorem C02inl_sroa_escape_condition_sound :
  forall f x, memb x (ea_esc (analyse ver_now f)) = false ->
    ~ In x (oreads_l (f_body f)) /\ ~ In x (evars (f_ret f)).
Proof. exact esc_sound. Qed.

Theorem C02inl_sroa_is_deletion :
  forall fty T f f', sroa_func ver_now fty f = Some f' -> sroa_deletes_only fty T f = true -> fn_del T f f'.
Proof. exact sroa_is_deletion. Qed.

Theorem C02inl_sroa_preserves_partial :
  forall w fty T sel P P', blind_to T w -> sroa_program fty sel P = Some P' ->
    (forall f, In f P -> sel f = true -> sroa_deletes_only fty T f = true) ->
    forall f args fuel, orel T (sem w P f args fuel) (sem w P' f args fuel).
Proof. exact sroa_deletion_preserves. Qed.

Theorem C02inl_sroa_same_external_calls : forall T tr tr', drel T tr tr' -> ext_only tr = ext_only tr'.
Proof. exact drel_ext_only. Qed.

Theorem C02inl_sroa_blind_world_exists : forall T, blind_to T (blindw T).
Proof. exact blindw_blind. Qed.

Theorem C02inl_sroa_loop_value_dangling_refuted :
  wf_func Flv = true /\
  exists f', sroa_func ver_now fty0 Flv = Some f' /\ wf_func f' = false /\
             (exists tr, sem refw [Flv] 0 [3%Z] 4 = Done 6 tr) /\
             sem refw [f'] 0 [3%Z] 4 = OutOfFuel /\ sem refw [f'] 0 [3%Z] 40 = OutOfFuel.
Proof. exact sroa_loop_value_dangling_refuted. Qed.

Theorem C02inl_sroa_seeded_C02_4_refuted :
  sroa_func ver_now fty0 Fc4 = Some Fc4 /\
  exists f', sroa_func ver_c02_4 fty0 Fc4 = Some f' /\ f' <> Fc4 /\
             (exists tr, sem refw [Fc4] 0 [5%Z] 4 = Done 7 tr) /\
             (forall tr, sem refw [f'] 0 [5%Z] 4 <> Done 7 tr).
Proof. exact sroa_c02_4_refuted. Qed.

Theorem C02inl_sroa_blind_world_needed_refuted :
  exists f', sroa_func ver_now fty0 Fbw = Some f' /\ sroa_deletes_only fty0 [7%N] Fbw = true /\
             sem refw [Fbw] 0 [] 2 = Done 100001 [(KStruct 7, [2%Z]); (KStruct 7, [1%Z])] /\
             sem refw [f'] 0 [] 2 = Done 100000 [(KStruct 7, [2%Z])].
Proof. exact sroa_needs_blind_world_refuted. Qed.

Example C02inl_sroa_deletion_applies :
  exists f', sroa_func ver_now fty0 Fdel = Some f' /\ sroa_deletes_only fty0 [7; 8]%N Fdel = true /\ f' <> Fdel /\
             sem (blindw [7; 8]%N) [Fdel] 0 [3%Z] 3 =
               Done 100001 [(KStruct 7, [1; 2]%Z); (KStruct 7, [1; 5]%Z); (KClosure 8 1, [1%Z]); (KExt 90, [4%Z]);
                            (KStruct 7, [3; 4]%Z)] /\
             sem (blindw [7; 8]%N) [f'] 0 [3%Z] 3 = Done 100001 [(KStruct 7, [1; 5]%Z); (KExt 90, [4%Z])].
Proof. exact sroa_deletion_applies. Qed.

Print Assumptions C02inl_one_call_site_preserves.
Print Assumptions C02inl_pass_preserves.
Print Assumptions C02inl_any_policy_preserves.
Print Assumptions C02inl_any_call_sites_preserve.
Print Assumptions C02inl_fuel_monotone.
Print Assumptions C02inl_checked_run_is_the_mirror.
Print Assumptions C02inl_fresh_names_needed_refuted.
Print Assumptions C02inl_scoped_callee_needed_refuted.
Print Assumptions C02inl_no_break_needed_refuted.
Print Assumptions C02inl_arity_needed_refuted.
Print Assumptions C02inl_unassigned_parameters_needed_refuted.
Print Assumptions C02inl_injective_renaming_needed_refuted.
Print Assumptions C02inl_tie_renaming_injective.
Print Assumptions C02inl_sroa_escape_condition_sound.
Print Assumptions C02inl_sroa_is_deletion.
Print Assumptions C02inl_sroa_preserves_partial.
Print Assumptions C02inl_sroa_same_external_calls.
Print Assumptions C02inl_sroa_blind_world_exists.
Print Assumptions C02inl_sroa_loop_value_dangling_refuted.
Print Assumptions C02inl_sroa_seeded_C02_4_refuted.
Print Assumptions C02inl_sroa_blind_world_needed_refuted.
