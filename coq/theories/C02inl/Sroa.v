(* C02inl - Gallina mirror of crates/samlang-optimization/src/scalar_replacement.rs (scalar replacement of aggregates
   and closure devirtualisation, one function at a time) over the MIR syntax of C01mir/Syntax.v.  Definitions only.

   WHAT THE RUST DOES (optimize_function)
     1. EscapeAnalysis::visit_statements over the body, then mark_escape(return_value):
          struct_definitions  : name of every StructInit  -> its field expressions   (HashMap: a later insert wins)
          closure_definitions : name of every ClosureInit -> (function name expression, context)
          escaped             : every VARIABLE that occurs as an operand anywhere except as the pointer of an
                                IndexedAccess and as the callee of a Call (Binary / Not / IsPointer / Cast operands,
                                call arguments, conditions, final-assignment operands, Break values, initial and loop
                                values of loop variables, assigned expressions, fields of a StructInit, context of a
                                ClosureInit, the return value);
     2. the structs / closures that are replaced: defined and not escaped; if there are none the function is unchanged;
     3. rewrite_statements with one global substitution map name -> expression (never scoped):
          IndexedAccess v = s[i], s replaced  : no statement; substitution[v] := resolve(fields(s)[i])
          StructInit / ClosureInit of a replaced name : no statement
          Call through a replaced closure variable c  : Call of the function of c with resolve(context(c)) as new
                                                        first argument
          everything else : the same statement with every operand resolved through the substitution
          (While: initial AND loop values are resolved BEFORE the body is rewritten; IfElse: the final assignments
           after both branches);
        the return value is resolved at the end.
   THE MODEL follows that statement by statement.  HashMaps are association lists (newest first, lookup = first match);
   resolve_expression recurses while the variable is a key of the substitution: here with fuel (length of the
   substitution + 1: enough whenever the substitution is acyclic, which holds on single-assignment code).
   `fields[index]` out of bounds and `.as_variable().unwrap()` on a literal are panics: `None`.
   The callee of a devirtualised call needs the argument and return types of the closure's function type; the syntax
   keeps only the number of that type, so the model takes the table  fty : type number -> (argument types, return type)
   from the harness.
   `ver`: v_loopval = true is the code as it is; false mirrors the seeded change C02-4 (the loop values of a While are
   no longer marked as escaping). *)
From Coq Require Import ZArith NArith List Bool.
Import ListNotations.
From SV Require Import Common.Int32 C01mir.Syntax C02inl.Inline.

Record ver := mkver { v_loopval : bool }.
Definition ver_now : ver := mkver true.
Definition ver_c02_4 : ver := mkver false.

Definition sdefs := list (name * list expr).
Definition cdefs := list (name * (N * ty * expr)).
Record ea := mkea { ea_s : sdefs; ea_c : cdefs; ea_esc : list name }.

Definition mark (e : expr) (a : ea) : ea :=
  match e with EVar x _ => mkea (ea_s a) (ea_c a) (x :: ea_esc a) | _ => a end.
Definition marks (es : list expr) (a : ea) : ea := fold_left (fun a e => mark e a) es a.

Section Ver.
  Variable vr : ver.

  Fixpoint esc_stmt (s : stmt) (a : ea) {struct s} : ea :=
    let fix go (ss : list stmt) (a : ea) {struct ss} : ea :=
      match ss with [] => a | s :: r => go r (esc_stmt s a) end in
    match s with
    | SPrim _ (PIdx _ _) _ => a
    | SPrim _ _ e | SNot _ e => mark e a
    | SBin _ _ e1 e2 => mark e2 (mark e1 a)
    | SCall _ args _ _ => marks args a
    | SIf c s1 s2 fas =>
        fold_left (fun a q => mark (q_e2 q) (mark (q_e1 q) a)) fas (go s2 (go s1 (mark c a)))
    | SSIf c _ ss => go ss (mark c a)
    | SBreak e => mark e a
    | SWhile lvs ss _ =>
        go ss (fold_left (fun a q => if v_loopval vr then mark (q_e2 q) (mark (q_e1 q) a) else mark (q_e1 q) a) lvs a)
    | SAssign _ e => mark e a
    | SDecl _ _ => a
    | SStruct x _ es => let a' := marks es a in mkea ((x, es) :: ea_s a') (ea_c a') (ea_esc a')
    | SClosure x _ f ft e => let a' := mark e a in mkea (ea_s a') ((x, (f, ft, e)) :: ea_c a') (ea_esc a')
    end.
  Fixpoint esc_stmts (ss : list stmt) (a : ea) : ea :=
    match ss with [] => a | s :: r => esc_stmts r (esc_stmt s a) end.

  Definition analyse (f : func) : ea := mark (f_ret f) (esc_stmts (f_body f) (mkea [] [] [])).
End Ver.

Fixpoint aget {A : Type} (l : list (name * A)) (x : name) : option A :=
  match l with [] => None | (y, v) :: r => if N.eqb x y then Some v else aget r x end.

(* the replaced structs / closures *)
Definition rs_of (a : ea) (x : name) : option (list expr) :=
  match aget (ea_s a) x with Some es => if memb x (ea_esc a) then None else Some es | None => None end.
Definition rc_of (a : ea) (x : name) : option (N * ty * expr) :=
  match aget (ea_c a) x with Some d => if memb x (ea_esc a) then None else Some d | None => None end.
Definition nothing_replaced (a : ea) : bool :=
  forallb (fun d => memb (fst d) (ea_esc a)) (ea_s a) && forallb (fun d => memb (fst d) (ea_esc a)) (ea_c a).

Definition subst := list (name * expr).

Fixpoint resolve (n : nat) (sub : subst) (e : expr) : expr :=
  match e with
  | EVar x _ => match aget sub x with
                | Some r => match n with O => r | S n' => resolve n' sub r end
                | None => e
                end
  | _ => e
  end.
Definition res (sub : subst) (e : expr) : expr := resolve (S (length sub)) sub e.

Section Rewrite.
  Variable fty : ty -> list ty * ty.
  Variable rs : name -> option (list expr).
  Variable rc : name -> option (N * ty * expr).

  Definition res_quad (sub : subst) (q : quad) : quad :=
    mkq (q_name q) (q_ty q) (res sub (q_e1 q)) (res sub (q_e2 q)).

  Fixpoint rw_stmt (s : stmt) (sub : subst) {struct s} : option (list stmt * subst) :=
    let fix go (ss : list stmt) (sub : subst) {struct ss} : option (list stmt * subst) :=
      match ss with
      | [] => Some ([], sub)
      | s :: r => match rw_stmt s sub with
                  | None => None
                  | Some (l, sub1) => match go r sub1 with None => None | Some (l2, sub2) => Some (l ++ l2, sub2) end
                  end
      end in
    match s with
    | SBin x op e1 e2 => Some ([SBin x op (res sub e1) (res sub e2)], sub)
    | SNot x e => Some ([SNot x (res sub e)], sub)
    | SPrim x (PIdx t i) e =>
        match e with
        | EVar y _ =>
            match rs y with
            | Some fields =>
                match nth_error fields (N.to_nat i) with
                | Some fe => Some ([], (x, res sub fe) :: sub)
                | None => None
                end
            | None => Some ([SPrim x (PIdx t i) (res sub e)], sub)
            end
        | _ => Some ([SPrim x (PIdx t i) (res sub e)], sub)
        end
    | SPrim x pr e => Some ([SPrim x pr (res sub e)], sub)
    | SCall c args rty ret =>
        match c with
        | CVar y t =>
            match rc y with
            | Some (f, ft, ctx) =>
                Some ([SCall (CFn f (fst (fty ft)) (snd (fty ft))) (res sub ctx :: map (res sub) args) rty ret], sub)
            | None =>
                match res sub (EVar y t) with
                | EVar y' t' => Some ([SCall (CVar y' t') (map (res sub) args) rty ret], sub)
                | _ => None
                end
            end
        | CFn _ _ _ => Some ([SCall c (map (res sub) args) rty ret], sub)
        end
    | SIf c s1 s2 fas =>
        let c' := res sub c in
        match go s1 sub with
        | None => None
        | Some (s1', sub1) =>
            match go s2 sub1 with
            | None => None
            | Some (s2', sub2) => Some ([SIf c' s1' s2' (map (res_quad sub2) fas)], sub2)
            end
        end
    | SSIf c inv ss =>
        let c' := res sub c in
        match go ss sub with
        | None => None
        | Some (ss', sub1) => Some ([SSIf c' inv ss'], sub1)
        end
    | SBreak e => Some ([SBreak (res sub e)], sub)
    | SWhile lvs ss bc =>
        let lvs' := map (res_quad sub) lvs in
        match go ss sub with
        | None => None
        | Some (ss', sub1) => Some ([SWhile lvs' ss' bc], sub1)
        end
    | SDecl x t => Some ([SDecl x t], sub)
    | SAssign x e => Some ([SAssign x (res sub e)], sub)
    | SStruct x t es =>
        match rs x with
        | Some _ => Some ([], sub)
        | None => Some ([SStruct x t (map (res sub) es)], sub)
        end
    | SClosure x t f ft e =>
        match rc x with
        | Some _ => Some ([], sub)
        | None => Some ([SClosure x t f ft (res sub e)], sub)
        end
    end.
  Fixpoint rw_stmts (ss : list stmt) (sub : subst) : option (list stmt * subst) :=
    match ss with
    | [] => Some ([], sub)
    | s :: r => match rw_stmt s sub with
                | None => None
                | Some (l, sub1) => match rw_stmts r sub1 with None => None | Some (l2, sub2) => Some (l ++ l2, sub2) end
                end
    end.
End Rewrite.

(* optimize_function *)
Definition sroa_func (vr : ver) (fty : ty -> list ty * ty) (f : func) : option func :=
  let a := analyse vr f in
  if nothing_replaced a then Some f else
  match rw_stmts fty (rs_of a) (rc_of a) (f_body f) [] with
  | None => None
  | Some (b, sub) => Some (mkfunc (f_name f) (f_params f) (f_atys f) (f_rty f) b (res sub (f_ret f)))
  end.

(* the names the pass removes: replaced structs and closures, and the loads it turned into substitutions *)
Definition dropped (vr : ver) (fty : ty -> list ty * ty) (f : func) : list name :=
  let a := analyse vr f in
  map fst (filter (fun d => negb (memb (fst d) (ea_esc a))) (ea_s a)) ++
  map fst (filter (fun d => negb (memb (fst d) (ea_esc a))) (ea_c a)) ++
  match rw_stmts fty (rs_of a) (rc_of a) (f_body f) [] with Some (_, sub) => map fst sub | None => [] end.

(* ================= definitions used by the theorems (ProofsSroa.v) and by the tie ================= *)
(* ---------- operand positions / pointer positions ---------- *)
(* variables in the positions the escape analysis marks *)
Fixpoint oreads (s : stmt) : list name :=
  let fix go (ss : list stmt) : list name := match ss with [] => [] | s :: r => oreads s ++ go r end in
  match s with
  | SPrim _ (PIdx _ _) _ => []
  | SBin _ _ e1 e2 => evars e1 ++ evars e2
  | SNot _ e | SPrim _ _ e | SBreak e | SAssign _ e | SClosure _ _ _ _ e => evars e
  | SCall _ args _ _ => flat_map evars args
  | SIf c s1 s2 fas => evars c ++ go s1 ++ go s2 ++ flat_map qvars fas
  | SSIf c _ ss => evars c ++ go ss
  | SWhile lvs ss _ => flat_map qvars lvs ++ go ss
  | SDecl _ _ => []
  | SStruct _ _ es => flat_map evars es
  end.
Fixpoint oreads_l (ss : list stmt) : list name := match ss with [] => [] | s :: r => oreads s ++ oreads_l r end.

(* variables used as the pointer of a load or as a callee *)
Fixpoint preads (s : stmt) : list name :=
  let fix go (ss : list stmt) : list name := match ss with [] => [] | s :: r => preads s ++ go r end in
  match s with
  | SPrim _ (PIdx _ _) e => evars e
  | SCall c _ _ _ => cvars c
  | SIf _ s1 s2 _ => go s1 ++ go s2
  | SSIf _ _ ss | SWhile _ ss _ => go ss
  | _ => []
  end.
Fixpoint preads_l (ss : list stmt) : list name := match ss with [] => [] | s :: r => preads s ++ preads_l r end.


(* the pass restricted to DELETION: the allocations of ds / dc disappear, nothing else changes *)
Section Del.
  Variables ds dc : name -> bool.      (* struct / closure variables whose allocation is deleted *)

  Fixpoint del_stmt (s : stmt) : list stmt :=
    let fix go (ss : list stmt) : list stmt := match ss with [] => [] | s :: r => del_stmt s ++ go r end in
    match s with
    | SStruct x _ _ => if ds x then [] else [s]
    | SClosure x _ _ _ _ => if dc x then [] else [s]
    | SIf c s1 s2 fas => [SIf c (go s1) (go s2) fas]
    | SSIf c inv ss => [SSIf c inv (go ss)]
    | SWhile lvs ss bc => [SWhile lvs (go ss) bc]
    | _ => [s]
    end.
  Fixpoint del_stmts (ss : list stmt) : list stmt := match ss with [] => [] | s :: r => del_stmt s ++ del_stmts r end.

  (* the types of the deleted allocations *)
  Fixpoint del_types (s : stmt) : list ty :=
    let fix go (ss : list stmt) : list ty := match ss with [] => [] | s :: r => del_types s ++ go r end in
    match s with
    | SStruct x t _ => if ds x then [t] else []
    | SClosure x t _ _ _ => if dc x then [t] else []
    | SIf _ s1 s2 _ => go s1 ++ go s2
    | SSIf _ _ ss | SWhile _ ss _ => go ss
    | _ => []
    end.
  Fixpoint del_types_l (ss : list stmt) : list ty := match ss with [] => [] | s :: r => del_types s ++ del_types_l r end.
End Del.

Definition is_some {A} (o : option A) : bool := match o with Some _ => true | None => false end.

Definition memT (t : ty) (T : list ty) : bool := existsb (N.eqb t) T.

(* the decidable side conditions of the deletion theorem: no replaced name is the pointer of a load or a callee, and
   the types of the deleted allocations are in T (the types the world must not observe) *)
Definition sroa_deletes_only (fty : ty -> list ty * ty) (T : list ty) (f : func) : bool :=
  let a := analyse ver_now f in
  forallb (fun x => negb (is_some (rs_of a x)) && negb (is_some (rc_of a x))) (preads_l (f_body f)) &&
  forallb (fun t => memT t T) (del_types_l (fun x => is_some (rs_of a x)) (fun x => is_some (rc_of a x)) (f_body f)).


(* scalar replacement applied to the functions `sel` selects *)
Fixpoint sroa_program (fty : ty -> list ty * ty) (sel : func -> bool) (P : program) : option program :=
  match P with
  | [] => Some []
  | f :: r => match (if sel f then sroa_func ver_now fty f else Some f), sroa_program fty sel r with
              | Some f', Some r' => Some (f' :: r')
              | _, _ => None
              end
  end.

