(* C02loop — Gallina model of crates/samlang-optimization/src/loop_algebraic_optimization.rs.  Definitions only.
   analyze_number_of_iterations_to_break_guard is C02.Kernels.trip (tied to the code by checks/c02.py and proved
   exact in C02/Props.v). *)
From Coq Require Import ZArith NArith List Bool.
Import ListNotations.
From SV Require Import Common.Int32 C02.Kernels C02deep.Syntax C02deep.Passes C02loop.Analysis.
Open Scope Z_scope.

(* counter.alloc_temp_str(): the supply is the list of the temporaries the real run allocated, in allocation order
   (theorems: any supply of pairwise distinct names that occur nowhere in the function) *)
Definition alloc (sup : list name) : name * list name :=
  match sup with x :: r => (x, r) | [] => (0%N, []) end.

(* Statement::Binary(Statement::binary_unwrapped(..)) and Statement::Binary(Statement::binary_flexible_unwrapped(..)) *)
Definition bin_unw (x : name) (op : binop) (e1 e2 : expr) : stmt :=
  let '(op', a, b) := unwrapped op e1 e2 in SBin x op' a b.
Definition bin_flex (x : name) (op : binop) (e1 e2 : expr) : stmt :=
  let '(op', a, b) := flex_unwrapped op e1 e2 in SBin x op' a b.

(* optimize: None = "no closed form, go on with the other loop optimizations" *)
Definition alg (o : owl) (sup : list name) : option (list stmt * list name) :=
  match bg_init (o_basic o), bg_inc (o_basic o), bg_guard (o_basic o) with
  | EInt i0, PInt inc, PInt g =>
      if negb (is_nil (o_others o)) || negb (is_nil (o_derived o)) || negb (is_nil (o_stmts o)) then None
      else
        match trip (bg_op (o_basic o)) i0 inc g with
        | None => None
        | Some k =>
            match o_bc o with
            | None => Some ([], sup)
            | Some (n, EVar v) =>
                if N.eqb v (bg_name (o_basic o)) then
                  let final := i0 + inc * k in
                  if in32b final then Some ([SBin n PLUS (EInt final) (EInt 0)], sup) else None
                else
                  match find (fun r => N.eqb (gi_name r) v) (o_general o) with
                  | Some r =>
                      let '(tmp, sup1) := alloc sup in
                      Some ([bin_flex tmp MUL (pli_expr (gi_inc r)) (EInt k);
                             bin_flex n PLUS (gi_init r) (EVar tmp)], sup1)
                  | None => Some ([SBin n PLUS (EVar v) (EInt 0)], sup)
                  end
            | Some (n, e) => Some ([SBin n PLUS e (EInt 0)], sup)
            end
        end
  | _, _, _ => None
  end.
