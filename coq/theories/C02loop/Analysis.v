(* C02loop — Gallina model of crates/samlang-optimization/src/loop_induction_analysis.rs, statement by
   statement, on the MIR fragment of C02deep/Syntax.v.  Definitions only.

   Types are erased (as in C02deep): a VariableName is its name; break_collector: Option<(PStr, Type, Expression)>
   is `option (name * expr)`.
   HashMap<PStr, DerivedInductionVariable> is an association list (insert = cons, get = first match);
   HashSet<PStr> is a list (only membership is observed).
   Compile-time i32 arithmetic (`i1 + i2`, `i1 * i2`, `m * v`) is the arithmetic of a build WITHOUT overflow
   checks (the release profile of /repo/Cargo.toml): wrap32.  A build with overflow checks panics where the exact
   result leaves the range (finding C02-loop-analysis-overflow-panic). *)
From Coq Require Import ZArith NArith List Bool.
Import ListNotations.
From SV Require Import Common.Int32 C02.Kernels C02deep.Syntax C02deep.Passes.
Open Scope Z_scope.

(* PotentialLoopInvariantExpression *)
Inductive pli := PInt (z : Z) | PVar (x : name).
(* to_expression *)
Definition pli_expr (p : pli) : expr := match p with PInt z => EInt z | PVar x => EVar x end.

(* GuardOperator = C02.Kernels.guard (GLT | GLE | GGT | GGE); the guard is the CONTINUE condition `i op g` *)
Definition g_invert (g : guard) : guard :=
  match g with GLT => GGE | GLE => GGT | GGT => GLE | GGE => GLT end.
Definition g_to_op (g : guard) : binop :=
  match g with GLT => LT | GLE => LE | GGT => GT | GGE => GE end.

(* BasicInductionVariableWithLoopGuard *)
Record bivg := mkbivg { bg_name : name; bg_init : expr; bg_inc : pli; bg_op : guard; bg_guard : pli }.
(* GeneralBasicInductionVariable *)
Record giv := mkgiv { gi_name : name; gi_init : expr; gi_inc : pli }.
(* as_general_basic_induction_variable *)
Definition as_giv (b : bivg) : giv := mkgiv (bg_name b) (bg_init b) (bg_inc b).
(* GeneralBasicInductionVariableWithLoopValueCollector *)
Record givc := mkgivc { gc_name : name; gc_init : expr; gc_inc : pli; gc_coll : name }.
(* DerivedInductionVariable / DerivedInductionVariableWithName *)
Record div := mkdiv { d_base : name; d_mult : pli; d_imm : pli }.
Record divn := mkdivn { dn_name : name; dn_base : name; dn_mult : pli; dn_imm : pli }.

(* OptimizableWhileLoop *)
Record owl := mkowl {
  o_basic : bivg;
  o_general : list giv;
  o_others : list triple;          (* loop_variables_that_are_not_basic_induction_variables *)
  o_derived : list divn;
  o_stmts : list stmt;
  o_bc : option (name * expr) }.

(* stmts_contains_break: a Break of THIS loop (a nested While is not searched) = not Syntax.no_break_l *)
Definition contains_break_l (ss : list stmt) : bool := negb (no_break_l ss).

(* merge_invariant_addition_for_loop_optimization *)
Definition merge_add (a b : pli) : option pli :=
  match a, b with
  | PInt i1, PInt i2 => Some (PInt (wrap32 (i1 + i2)))
  | PInt i1, v => if i1 =? 0 then Some v else None
  | v, PInt i2 => if i2 =? 0 then Some v else None
  | _, _ => None
  end.

(* merge_invariant_multiplication_for_loop_optimization *)
Definition merge_mul (a b : pli) : option pli :=
  match a, b with
  | PInt i1, PInt i2 => Some (PInt (wrap32 (i1 * i2)))
  | PInt i1, v => if i1 =? 1 then Some v else None
  | v, PInt i2 => if i2 =? 1 then Some v else None
  | _, _ => None
  end.

(* merge_constant_operation_into_derived_induction_variable *)
Definition merge_const_op (ex : div) (is_plus : bool) (e : pli) : option div :=
  if is_plus then
    match merge_add (d_imm ex) e with
    | Some mi => Some (mkdiv (d_base ex) (d_mult ex) mi)
    | None => None
    end
  else
    match e with
    | PInt v =>
        if v =? 1 then Some ex
        else match d_mult ex, d_imm ex with
             | PInt m, PInt i => Some (mkdiv (d_base ex) (PInt (wrap32 (m * v))) (PInt (wrap32 (i * v))))
             | _, _ => None
             end
    | PVar _ =>
        match d_mult ex, d_imm ex with
        | PInt m, PInt i => if (m =? 1) && (i =? 1) then Some (mkdiv (d_base ex) e e) else None
        | _, _ => None
        end
    end.

(* merge_variable_addition_into_derived_induction_variable *)
Definition merge_var_add (ex an : div) : option div :=
  if N.eqb (d_base ex) (d_base an) then
    match merge_add (d_mult ex) (d_mult an), merge_add (d_imm ex) (d_imm an) with
    | Some mm, Some mi => Some (mkdiv (d_base ex) mm mi)
    | _, _ => None
    end
  else None.

(* get_loop_invariant_expression_opt *)
Definition get_inv (e : expr) (ninv : set) : option pli :=
  match e with
  | EInt i => Some (PInt i)
  | EI31 _ | EStr _ => None
  | EVar v => if memb v ninv then None else Some (PVar v)
  end.

Definition as_var (e : expr) : option name := match e with EVar x => Some x | _ => None end.
Definition dset := list (name * div).
Definition dget (e : expr) (s : dset) : option div :=
  match as_var e with Some x => assoc x s | None => None end.

Definition is_plus (op : binop) : bool := match op with PLUS => true | _ => false end.
Definition is_plus_or_mul (op : binop) : bool := match op with PLUS | MUL => true | _ => false end.

(* try_merge_into_derived_induction_variable_without_swap: Some set' = "inserted, return true" *)
Definition try_merge_noswap (s : dset) (ninv : set) (x : name) (op : binop) (e1 e2 : expr) : option dset :=
  match dget e1 s with
  | None => None
  | Some ex =>
      let first :=
        match dget e2 s with
        | Some an => if is_plus op then merge_var_add ex an else None
        | None => None
        end in
      match first with
      | Some merged => Some ((x, merged) :: s)
      | None =>
          match get_inv e2 ninv with
          | Some p =>
              if is_plus_or_mul op then
                match merge_const_op ex (is_plus op) p with
                | Some merged => Some ((x, merged) :: s)
                | None => None
                end
              else None
          | None => None
          end
      end
  end.

(* try_merge_into_derived_induction_variable *)
Definition try_merge (s : dset) (ninv : set) (x : name) (op : binop) (e1 e2 : expr) : dset :=
  match try_merge_noswap s ninv x op e1 e2 with
  | Some s' => s'
  | None =>
      if is_plus_or_mul op then
        match try_merge_noswap s ninv x op e2 e1 with Some s' => s' | None => s end
      else s
  end.

(* get_guard_operator *)
Definition get_guard_operator (op : binop) (invert_condition : bool) : option guard :=
  match (match op with LT => Some GLT | LE => Some GLE | GT => Some GGT | GE => Some GGE | _ => None end) with
  | Some g => Some (if invert_condition then g else g_invert g)
  | None => None
  end.

(* LoopGuardStructure *)
Record lgs := mklgs { lg_var : name; lg_op : guard; lg_guard : pli; lg_bc : option (name * expr) }.

(* results of functions that may panic *)
Inductive xres (A : Type) := XOk (a : A) | XNo | XPanic.
Arguments XOk {A} a. Arguments XNo {A}. Arguments XPanic {A}.

(* extract_loop_guard_structure.  XPanic: `single_if_stmts[0].as_break().unwrap()` on a statement that contains
   a Break without being one (the loop has a break collector). *)
Definition extract_guard (ss : list stmt) (bc : option name) (ninv : set) : xres lgs :=
  match ss with
  | SBin x op (EVar e1v) e2 :: SSIf (EVar cv) inv sis :: rest =>
      if N.eqb x cv && (Nat.eqb (length sis) 1) && contains_break_l sis && negb (contains_break_l rest) then
        match get_guard_operator op inv, get_inv e2 ninv with
        | Some g, Some ge =>
            match bc with
            | Some b =>
                match sis with
                | SBreak e :: _ => XOk (mklgs e1v g ge (Some (b, e)))
                | _ => XPanic
                end
            | None => XOk (mklgs e1v g ge None)
            end
        | _, _ => XNo
        end
      else XNo
  | _ => XNo
  end.

(* the inner `for stmt in rest_stmts` of extract_basic_induction_variables: the first matching statement *)
Fixpoint find_increment (lv coll : name) (rest : list stmt) (ninv : set) : option pli :=
  match rest with
  | [] => None
  | SBin x PLUS (EVar e1v) e2 :: r =>
      if N.eqb x coll && N.eqb e1v lv then
        match get_inv e2 ninv with
        | Some inc => Some inc
        | None => find_increment lv coll r ninv
        end
      else find_increment lv coll r ninv
  | _ :: r => find_increment lv coll r ninv
  end.

(* extract_basic_induction_variables: (all_basic_induction_variables, loop_variables_that_are_not_...) *)
Fixpoint extract_basic_loop (lvs : list triple) (rest : list stmt) (ninv : set) : list givc * list triple :=
  match lvs with
  | [] => ([], [])
  | lv :: r =>
      let '(bs, os) := extract_basic_loop r rest ninv in
      match (match t_e2 lv with
             | EVar coll =>
                 match find_increment (t_name lv) coll rest ninv with
                 | Some inc => Some (mkgivc (t_name lv) (t_e1 lv) inc coll)
                 | None => None
                 end
             | _ => None
             end) with
      | Some b => (b :: bs, os)
      | None => (bs, lv :: os)
      end
  end.

Definition extract_basic (pot : name) (lvs : list triple) (rest : list stmt) (ninv : set)
  : option (list triple * list givc * givc) :=
  let '(bs, os) := extract_basic_loop lvs rest ninv in
  match find (fun b => N.eqb (gc_name b) pot) bs with
  | Some g => Some (os, bs, g)
  | None => None
  end.

(* extract_derived_induction_variables *)
Definition dset_init (bs : list givc) : dset :=
  fold_left (fun s v => (gc_name v, mkdiv (gc_name v) (PInt 1) (PInt 0)) :: s) bs [].
Definition dset_run (s : dset) (rest : list stmt) (ninv : set) : dset :=
  fold_left (fun s st => match st with SBin x op e1 e2 => try_merge s ninv x op e1 e2 | _ => s end) rest s.
Fixpoint collect_derived (s : dset) (colls : set) (rest : list stmt) : list divn :=
  match rest with
  | [] => []
  | SBin x _ _ _ :: r =>
      match assoc x s with
      | Some d => if memb x colls then collect_derived s colls r
                  else mkdivn x (d_base d) (d_mult d) (d_imm d) :: collect_derived s colls r
      | None => collect_derived s colls r
      end
  | _ :: r => collect_derived s colls r
  end.
Definition extract_derived (bs : list givc) (rest : list stmt) (ninv : set) : list divn :=
  collect_derived (dset_run (dset_init bs) rest ninv) (map gc_coll bs) rest.

(* remove_dead_code_inside_loop *)
Definition live_of_others (os : list triple) : set :=
  fold_left (fun s v => match as_var (t_e2 v) with Some x => x :: s | None => s end) os [].
Definition remove_dead_code (os : list triple) (rest : list stmt) : list stmt :=
  fst (dce_stmts rest (live_of_others os)).

(* the check added by fix 8c133db (finding C02-loop-guard-variable-dropped): the guard comparison stmts[0] is
   dropped and re-created under a fresh name, so nothing else may read its name *)
Definition guard_name_used (lvs : list triple) (ss : list stmt) (g : lgs) : bool :=
  match ss with
  | SBin cc _ _ _ :: _ =>
      let used := uses_l (skipn 2 ss) [] in
      let used := fold_left (fun s v => use_expr (t_e2 v) s) lvs used in
      let used := match lg_bc g with Some (_, e) => use_expr e used | None => used end in
      memb cc used
  | _ => false
  end.

(* extract_optimizable_while_loop.  XNo = Err(the loop, unchanged).  old_guard = true: the code before fix 8c133db *)
Definition extract_g (old_guard : bool) (lvs : list triple) (ss : list stmt) (bc : option name) (ninv : set) : xres owl :=
  match extract_guard ss bc ninv with
  | XPanic => XPanic
  | XNo => XNo
  | XOk g =>
      if negb old_guard && guard_name_used lvs ss g then XNo else
      let rest := skipn 2 ss in
      match extract_basic (lg_var g) lvs rest ninv with
      | None => XNo
      | Some (others, all_basic, gb) =>
          let basic := mkbivg (gc_name gb) (gc_init gb) (gc_inc gb) (lg_op g) (lg_guard g) in
          let general :=
            map (fun it => mkgiv (gc_name it) (gc_init it) (gc_inc it))
                (filter (fun it => negb (N.eqb (gc_name it) (lg_var g))) all_basic) in
          let derived := extract_derived all_basic rest ninv in
          let dnames := map dn_name derived in
          let statements :=
            remove_dead_code
              (filter (fun it => match as_var (t_e2 it) with Some v => negb (memb v dnames) | None => true end) others)
              rest in
          XOk (mkowl basic general others derived statements (lg_bc g))
      end
  end.
Definition extract := extract_g false.
