(* C02loop — the decidable classes that the theorems of Props.v exclude (definitions only).  Each is a predicate
   on ONE loop (its loop variables, body, break collector), evaluated by the check on every real loop the pass
   meets; `classes_func` walks a function the way the pass does (loops at the top level and inside if / single-if
   branches; the body of a loop is not searched).

   K_licm_divmod    (code before fix 3d66ed3) loop-invariant code motion hoists a DIV / MOD: it may trap before the
                    loop's exit test [fixed finding C02-licm-hoists-trapping-division]
   K_guard_used     (code before fix 8c133db) the guard comparison `cc = i op g` is dropped and re-created under a
                    fresh name although `cc` is still used by the rest of the body, a loop value or the break value
                    [fixed finding C02-loop-guard-variable-dropped]
   K_iv             induction-variable elimination fires; with it: known_iv = the registered class of the open
                    finding C02-iv-elimination-guard, exact_iv = the exact static class (see below)
   K_base_dropped   a derived induction variable that stays derived is recomputed from a basic induction variable
                    that expand_optimizable_while_loop drops from the loop variables (MIR level)
   K_nested_break   the single statement under the guard's `if` contains a Break without being one: the loop has
                    no break collector and the inner condition is lost (MIR level; with a collector: panic)
   K_sr_defs        strength reduction fires and the body still binds a reduced variable: the driver deletes the
                    defining statement (covered by C02loop_sr_preserves with C02loop_sr_defs_affine; not an error
                    class: counted for coverage only) *)
From Coq Require Import ZArith NArith List Bool.
Import ListNotations.
From SV Require Import Common.Int32 C02.Kernels C02deep.Syntax C02deep.Passes
  C02loop.Analysis C02loop.Licm C02loop.Algebraic C02loop.StrengthIv C02loop.Driver.
Open Scope Z_scope.

Definition is_divmod_stmt (st : stmt) : bool :=
  match st with SBin _ op _ _ => is_divmod op | _ => false end.

Definition K_licm_divmod (lvs : list triple) (ss : list stmt) : bool :=
  let '(hoisted, _, _) := licm_g true lvs ss in existsb is_divmod_stmt hoisted.

(* the name of the guard comparison, when the first two statements have the shape of a guard *)
Definition guard_cc (ss : list stmt) : option name :=
  match ss with SBin x _ _ _ :: SSIf _ _ _ :: _ => Some x | _ => None end.
Definition break_value_of (ss : list stmt) : expr :=
  match ss with _ :: SSIf _ _ (SBreak e :: _) :: _ => e | _ => EInt 0 end.

Definition K_guard_used (lvs : list triple) (ss : list stmt) (bc : option name) : bool :=
  let '(_, inner, ninv) := licm lvs ss in
  match extract_g true lvs inner bc ninv, guard_cc inner with
  | XOk _, Some cc =>
      memb cc (uses_l (skipn 2 inner) (use_e2s lvs (use_expr (break_value_of inner) [])))
  | _, _ => false
  end.

Definition is_glt (g : guard) : bool := match g with GLT => true | _ => false end.

(* the decidable class of open finding C02-iv-elimination-guard as registered (checks/c02_passes.py known_iv on the
   hook log (op, m, c, g, i0)): the replaced guard is not `<`, or the multiplier is not a positive constant, or
   one of immediate / bound / initial value is not a constant, or m*g+c or m*i0+c is not representable *)
Definition lit_of (p : pli) : option Z := match p with PInt z => Some z | PVar _ => None end.
Definition known_iv (op : guard) (m c g : pli) (i0 : expr) : bool :=
  match lit_of m, lit_of c, lit_of g, i0 with
  | Some m, Some c, Some g, EInt i0 =>
      negb (is_glt op && (0 <? m) && in32b (m * g + c) && in32b (m * i0 + c))
  | _, _, _, _ => true
  end.
(* the exact static class: additionally the stride must be a constant and the product at the value with which the
   loop is left (i0 + inc * trip count) must be representable too *)
Definition exact_iv (op : guard) (m c g inc : pli) (i0 : expr) : bool :=
  known_iv op m c g i0 ||
  match lit_of m, lit_of c, lit_of g, lit_of inc, i0 with
  | Some m, Some c, Some g, Some inc, EInt i0 =>
      match trip GLT i0 inc g with
      | Some k => negb (in32b (m * (i0 + inc * k) + c))
      | None => false                 (* the unoptimised loop never ends without an overflow: an excluded run *)
      end
  | _, _, _, _, _ => true
  end.

(* (fires, inside the registered class, inside the exact class) *)
Definition K_iv (lvs : list triple) (ss : list stmt) (bc : option name) : bool * bool * bool :=
  let '(_, inner, ninv) := licm lvs ss in
  match extract lvs inner bc ninv with
  | XOk o =>
      match alg o [] with
      | Some _ => (false, false, false)
      | None =>
          match ive o [] with
          | Some _ =>
              match filter (fun v => N.eqb (dn_base v) (bg_name (o_basic o))) (o_derived o) with
              | [only] =>
                  let b := o_basic o in
                  (true, known_iv (bg_op b) (dn_mult only) (dn_imm only) (bg_guard b) (bg_init b),
                   exact_iv (bg_op b) (dn_mult only) (dn_imm only) (bg_guard b) (bg_inc b) (bg_init b))
              | _ => (true, true, true)
              end
          | None => (false, false, false)
          end
      end
  | _ => (false, false, false)
  end.

(* the owl that reaches expand_optimizable_while_loop *)
Definition owl_before_expand (lvs : list triple) (ss : list stmt) (bc : option name) : option owl :=
  let '(_, inner, ninv) := licm lvs ss in
  match extract lvs inner bc ninv with
  | XOk o =>
      match alg o [] with
      | Some _ => None
      | None =>
          let o1 := match ive o [] with
                    | Some (_, nb, nd, _) => mkowl nb (o_general o) (o_others o) nd (o_stmts o) (o_bc o)
                    | None => o end in
          match sr o1 [] with
          | Some (_, o2, _) =>
              let handled := map gi_name (o_general o2) in
              Some (mkowl (o_basic o2) (o_general o2) (o_others o2) (o_derived o2)
                          (filter (fun s => negb (is_handled handled s)) (o_stmts o2)) (o_bc o2))
          | None => None
          end
      end
  | _ => None
  end.

Definition K_base_dropped (lvs : list triple) (ss : list stmt) (bc : option name) : bool :=
  match owl_before_expand lvs ss bc with
  | Some o =>
      let bv := match o_bc o with Some (_, e) => e | None => EInt 0 end in
      let useful := useful_set o bv in
      existsb (fun d => negb (N.eqb (dn_base d) (bg_name (o_basic o))) && negb (memb (dn_base d) useful)) (o_derived o)
  | None => false
  end.

(* strength reduction fires and the body still binds a reduced variable (the driver deletes the defining statement;
   covered by C02loop_sr_preserves, counted for coverage) *)
Definition K_sr_defs (lvs : list triple) (ss : list stmt) (bc : option name) : bool :=
  let '(_, inner, ninv) := licm lvs ss in
  match extract lvs inner bc ninv with
  | XOk o =>
      match alg o [] with
      | Some _ => false
      | None =>
          let o1 := match ive o [] with
                    | Some (_, nb, nd, _) => mkowl nb (o_general o) (o_others o) nd (o_stmts o) (o_bc o)
                    | None => o end in
          match sr o1 [] with
          | Some (_, o2, _) =>
              existsb (fun x => memb x (binders_l (o_stmts o1)))
                      (skipn (length (o_general o1)) (map gi_name (o_general o2)))
          | None => false
          end
      end
  | _ => false
  end.

Definition K_nested_break (lvs : list triple) (ss : list stmt) (bc : option name) : bool :=
  let '(_, inner, ninv) := licm lvs ss in
  match extract lvs inner bc ninv with
  | XOk _ => match inner with _ :: SSIf _ _ (SBreak _ :: _) :: _ => false | _ => true end
  | XPanic => true
  | XNo => false
  end.

Definition b2N (b : bool) : N := if b then 1%N else 0%N.
Definition classes_loop (lvs : list triple) (ss : list stmt) (bc : option name) : list N :=
  let iv := K_iv lvs ss bc in
  [b2N (K_licm_divmod lvs ss); b2N (K_guard_used lvs ss bc); b2N (fst (fst iv)); b2N (snd (fst iv)); b2N (snd iv);
   b2N (K_base_dropped lvs ss bc); b2N (K_nested_break lvs ss bc); b2N (K_sr_defs lvs ss bc)].

Fixpoint addv (a b : list N) : list N :=
  match a, b with x :: r, y :: r' => (x + y)%N :: addv r r' | _, _ => [] end.
Definition zerov : list N := [0; 0; 0; 0; 0; 0; 0; 0]%N.

Fixpoint classes_stmt (st : stmt) : list N :=
  let fix go (ss : list stmt) : list N :=
    match ss with [] => zerov | s :: r => addv (classes_stmt s) (go r) end in
  match st with
  | SIf _ s1 s2 _ => addv (go s1) (go s2)
  | SSIf _ _ ss => go ss
  | SWhile lvs ss bc => classes_loop lvs ss bc
  | _ => zerov
  end.
Definition classes_func (f : func) : list N :=
  fold_right (fun s acc => addv (classes_stmt s) acc) zerov (f_body f).
