(* C02loop — evaluation glue for layer B: `vh mir-dump` prints a function before and after the real "loop" pass
   (samlang_optimization::verif::run_function_pass("loop")) together with the temporaries the run allocated;
   here the Gallina model Driver.loop_pass is run on `before` with that supply and compared with the real
   `after`; the hypotheses / class predicates of the theorems are evaluated; both versions are executed on
   argument vectors biased to the literals of the function (bounds, bounds +- 1) in a concrete world (testing). *)
From Coq Require Import ZArith NArith List Bool.
Import ListNotations.
From SV Require Import Common.Int32 C02.Kernels C02deep.Syntax C02deep.Sem C02deep.Passes
  C02loop.Analysis C02loop.Licm C02loop.Algebraic C02loop.StrengthIv C02loop.Driver C02loop.Classes C02loop.Cover.
Open Scope Z_scope.


(* ---- structural equality and the concrete world: the same definitions as C02deep/Corr.v (copied so that this
   directory does not depend on a file that is still being extended) ---- *)
Definition expr_eqb (a b : expr) : bool :=
  match a, b with
  | EInt i, EInt j | EI31 i, EI31 j => i =? j
  | EStr s, EStr t | EVar s, EVar t => N.eqb s t
  | _, _ => false
  end.
Definition prim_eqb (a b : prim) : bool :=
  match a, b with
  | PIdx t i, PIdx t' i' => N.eqb t t' && N.eqb i i'
  | PIsPtr t, PIsPtr t' | PCast t, PCast t' => N.eqb t t'
  | _, _ => false
  end.
Definition binop_eqb (a b : binop) : bool :=
  match a, b with
  | MUL, MUL | DIV, DIV | MOD, MOD | PLUS, PLUS | MINUS, MINUS | LAND, LAND | LOR, LOR | SHL, SHL | SHR, SHR
  | XOR, XOR | LT, LT | LE, LE | GT, GT | GE, GE | EQ, EQ | NE, NE => true
  | _, _ => false
  end.
Fixpoint list_eqb {A} (eq : A -> A -> bool) (a b : list A) : bool :=
  match a, b with
  | [], [] => true
  | x :: r, y :: r' => eq x y && list_eqb eq r r'
  | _, _ => false
  end.
Definition opt_eqb (a b : option name) : bool :=
  match a, b with Some x, Some y => N.eqb x y | None, None => true | _, _ => false end.
Definition triple_eqb (a b : triple) : bool :=
  N.eqb (t_name a) (t_name b) && expr_eqb (t_e1 a) (t_e1 b) && expr_eqb (t_e2 a) (t_e2 b).
Fixpoint stmt_eqb (a b : stmt) {struct a} : bool :=
  let fix go (x y : list stmt) : bool :=
    match x, y with
    | [], [] => true
    | s :: r, s' :: r' => stmt_eqb s s' && go r r'
    | _, _ => false
    end in
  match a, b with
  | SBin x op e1 e2, SBin x' op' e1' e2' => N.eqb x x' && binop_eqb op op' && expr_eqb e1 e1' && expr_eqb e2 e2'
  | SNot x e, SNot x' e' => N.eqb x x' && expr_eqb e e'
  | SPrim x p e, SPrim x' p' e' => N.eqb x x' && prim_eqb p p' && expr_eqb e e'
  | SCall f args ret, SCall f' args' ret' => N.eqb f f' && list_eqb expr_eqb args args' && opt_eqb ret ret'
  | SIf c s1 s2 fas, SIf c' s1' s2' fas' => expr_eqb c c' && go s1 s1' && go s2 s2' && list_eqb triple_eqb fas fas'
  | SSIf c i ss, SSIf c' i' ss' => expr_eqb c c' && Bool.eqb i i' && go ss ss'
  | SBreak e, SBreak e' => expr_eqb e e'
  | SStruct x tn es, SStruct x' tn' es' => N.eqb x x' && N.eqb tn tn' && list_eqb expr_eqb es es'
  | SLateDecl x, SLateDecl x' => N.eqb x x'
  | SLateAssign x e, SLateAssign x' e' => N.eqb x x' && expr_eqb e e'
  | SWhile lvs ss bc, SWhile lvs' ss' bc' => list_eqb triple_eqb lvs lvs' && go ss ss' && opt_eqb bc bc'
  | _, _ => false
  end.
Definition func_eqb (f g : func) : bool :=
  list_eqb N.eqb (f_params f) (f_params g) && list_eqb stmt_eqb (f_body f) (f_body g) && expr_eqb (f_ret f) (f_ret g).

Definition tw_call (tr : trace) (f : N) (vs : list Z) : option Z :=
  let h := fold_left (fun a v => (a * 31 + v) mod 65521) vs (Z.of_N f + 7 * Z.of_nat (length tr)) in
  if h mod 23 =? 0 then None else Some (h mod 41 - 20).
Definition tw : world :=
  mkworld tw_call (fun s => 1000 + Z.of_N s) (fun z => 2000 + z)
          (fun p v => match p with
                      | PIdx _ i => (v * 5 + Z.of_N i) mod 17 - 3
                      | PIsPtr _ => v mod 2
                      | PCast _ => v
                      end)
          (fun tn vs => fold_left (fun a v => (a * 131 + v) mod 1000003) vs (Z.of_N tn + 17)).
Definition trace_eqb (a b : trace) : bool :=
  list_eqb (fun x y => N.eqb (fst x) (fst y) && list_eqb Z.eqb (snd x) (snd y)) a b.
Definition outcome_same (a b : outcome) : bool :=
  match a, b with
  | Done v tr, Done v' tr' => (v =? v') && trace_eqb tr tr'
  | _, _ => false
  end.
Definition b2n (b : bool) : N := if b then 1%N else 0%N.
Definition count (k : N) (l : list N) : N := N.of_nat (length (filter (N.eqb k) l)).

(* literals of a function (loop bounds, strides, initial values) *)
Definition lit_expr (e : expr) : list Z := match e with EInt z => [z] | _ => [] end.
Definition lit_triples (ts : list triple) : list Z := flat_map (fun t => lit_expr (t_e1 t) ++ lit_expr (t_e2 t)) ts.
Fixpoint lits (st : stmt) : list Z :=
  let fix go (ss : list stmt) : list Z := match ss with [] => [] | s :: r => lits s ++ go r end in
  match st with
  | SBin _ _ e1 e2 => lit_expr e1 ++ lit_expr e2
  | SNot _ e | SPrim _ _ e | SBreak e | SLateAssign _ e => lit_expr e
  | SLateDecl _ => []
  | SCall _ args _ | SStruct _ _ args => flat_map lit_expr args
  | SIf c s1 s2 fas => go s1 ++ go s2 ++ lit_triples fas
  | SSIf _ _ ss => go ss
  | SWhile lvs ss _ => lit_triples lvs ++ go ss
  end.
Definition lits_l (ss : list stmt) : list Z := flat_map lits ss.

(* argument vectors: the j-th vector takes its i-th argument from the pool [literals, literals - 1, literals + 1,
   a few fixed values] at a position that depends on i and j *)
Definition bias_pool (f : func) : list Z :=
  let ls := lits_l (f_body f) in
  ls ++ map (fun z => z - 1) ls ++ map (fun z => z + 1) ls ++ [0; 1; -1; 2; 5; -3; 9; 10; 11; 100; -7].
Definition bias_vector (f : func) (j : nat) : list Z :=
  let pool := bias_pool f in
  let n := length pool in
  map (fun i => nth ((i * 7 + j * 3 + j * i) mod n) pool 0) (seq 0 (length (f_params f))).

Definition sem_case_l (fuel : nat) (before after : func) (args : list Z) : N :=
  match sem All tw before args fuel with
  | Done v tr => if outcome_same (Done v tr) (sem Wrap tw after args fuel) then 1%N else 2%N
  | _ => 0%N
  end.
(* runs whose unoptimised version traps (division): the trace before the trap must be a prefix-compatible... the
   optimised run must make at least the same calls first; 1 = ok, 2 = not *)
Fixpoint is_suffix (a b : trace) : bool :=     (* traces are newest first: a is an initial segment in time of b *)
  trace_eqb a b || match b with [] => false | _ :: r => is_suffix a r end.
Definition trap_case_l (fuel : nat) (before after : func) (args : list Z) : N :=
  match sem Wrap tw before args fuel with
  | Trap tr =>
      match sem Wrap tw after args fuel with
      | Done _ tr' | Trap tr' | Abort tr' => if is_suffix tr tr' then 1%N else 2%N
      | OutOfFuel => 1%N
      | _ => 2%N
      end
  | _ => 0%N
  end.
Definition nvec : nat := 6.
Definition sem_cases_l (before after : func) : list N :=
  map (fun j => sem_case_l 80 before after (bias_vector before j)) (seq 0 nvec).
Definition trap_cases_l (before after : func) : list N :=
  map (fun j => trap_case_l 80 before after (bias_vector before j)) (seq 0 nvec).

(* one tie case:
   [status (0 model = real, 1 differ, 2 model panics); wf_func before;
    loops where licm hoisted / extract succeeded / closed form / iv elimination / strength reduction;
    class predicates: (old code) hoisted DIV-MOD, (old code) guard variable still used, iv elimination fires,
                      inside the registered class known_iv, inside the exact class, derived base dropped, nested break;
    sanity runs reproduced; NOT reproduced; trap runs with the trace kept; trap runs with a lost trace] *)
(* last column: the function is in the decidable domain of the function-level theorem
   (ProofsCover.loop_pass_preserves_b: well formed, supply fresh and long enough - one more name is appended to the
   real run's temporaries -, every loop outside the named classes) AND the model run with that supply returns the
   real pass's output, i.e. the theorem says `refines_wrap after before` for this very pair *)
Definition thm_case (sup : list name) (before after : func) : N :=
  b2n (in_theorem_domain sup before &&
       match loop_pass (extended_supply sup before) before with Some (m, _) => func_eqb m after | None => false end).
Definition tie_case (sup : list name) (before after : func) : list N :=
  let wf := b2n (wf_func before) in
  let sc := sem_cases_l before after in
  let tc := trap_cases_l before after in
  let cl := classes_func before in
  match loop_pass sup before with
  | Some (m, fl) =>
      [(if func_eqb m after then 0 else 1)%N; wf; f_licm fl; f_extract fl; f_alg fl; f_ive fl; f_sr fl]
      ++ cl ++ [count 1 sc; count 2 sc; count 1 tc; count 2 tc; thm_case sup before after]
  | None => [2%N; wf; 0%N; 0%N; 0%N; 0%N; 0%N] ++ cl ++ [count 1 sc; count 2 sc; count 1 tc; count 2 tc; 0%N]
  end.
Definition tie_cases (cs : list (list name * func * func)) : list (list N) :=
  map (fun c => tie_case (fst (fst c)) (snd (fst c)) (snd c)) cs.
