(* C02loop — the decidable domain of the function-level theorem (ProofsCover.loop_pass_preserves): the supply of
   fresh names is long enough and every loop of the function is outside the named classes.  Definitions only (they
   are evaluated on every real function by the tie, Corr.v).
     - K_nested_break: the statement under the guard's `if` is a Break               (plain_break_b)
     - K_base_dropped: the bases of the derived induction variables stay loop variables, for the analysis result
       and for the one that reaches expand_optimizable_while_loop                     (bases_kept_b)
     - C02-iv-elimination-guard (open finding): induction-variable elimination does not fire
     - the closed form is used only when the literals are 32-bit literals and the value with which the loop is
       left is representable (otherwise the unoptimised loop overflows: an excluded run) *)
From Coq Require Import ZArith NArith List Bool.
Import ListNotations.
From SV Require Import Common.Int32 C02.Kernels C02deep.Syntax C02deep.Passes
  C02loop.Analysis C02loop.Licm C02loop.Algebraic C02loop.StrengthIv C02loop.Driver.
Open Scope Z_scope.

Definition plain_break_b (ss : list stmt) : bool :=
  match ss with _ :: SSIf _ _ [SBreak _] :: _ => true | _ => false end.
Definition kept_generals_c (o : owl) : list giv :=
  filter (fun v => memb (gi_name v) (useful_set o (match o_bc o with Some (_, e) => e | None => EInt 0 end))) (o_general o).
Definition bases_kept_b (o : owl) : bool :=
  forallb (fun d => memb (dn_base d) (bg_name (o_basic o) :: map gi_name (kept_generals_c o))) (o_derived o).
Definition alg_lits_b (o : owl) : bool :=
  match bg_init (o_basic o) with EInt z => in32b z | _ => true end &&
  match bg_inc (o_basic o) with PInt z => in32b z | _ => true end &&
  match bg_guard (o_basic o) with PInt z => in32b z | _ => true end.
Definition alg_exit_in32_b (o : owl) : bool :=
  match bg_init (o_basic o), bg_inc (o_basic o), bg_guard (o_basic o) with
  | EInt i0, PInt inc, PInt g =>
      match trip (bg_op (o_basic o)) i0 inc g with Some K => in32b (i0 + inc * K) | None => true end
  | _, _, _ => true
  end.
(* the analysis result that reaches expand_optimizable_while_loop *)
Definition o3_of_c (o2 : owl) : owl :=
  mkowl (o_basic o2) (o_general o2) (o_others o2) (o_derived o2)
        (filter (fun s => negb (is_handled (map gi_name (o_general o2)) s)) (o_stmts o2)) (o_bc o2).
Definition loop_outside_b (lvs : list triple) (ss : list stmt) (bc : option name) (sup : list name) : bool :=
  let '(hoisted, inner, ninv) := licm lvs ss in
  match extract lvs inner bc ninv with
  | XOk o =>
      plain_break_b inner && bases_kept_b o &&
      match alg o sup with
      | Some _ => alg_lits_b o && alg_exit_in32_b o
      | None =>
          match ive o sup with None => true | Some _ => false end &&
          match sr o sup with
          | Some (_, o2, _) => bases_kept_b (o3_of_c o2)
          | None => true
          end
      end
  | _ => true
  end.

Fixpoint outside_stmt_b (st : stmt) (sup : list name) : bool :=
  let fix go (ss : list stmt) (sup : list name) : bool :=
    match ss with
    | [] => true
    | s :: r => outside_stmt_b s sup &&
                match loop_stmt current s sup with Some (_, sup1, _) => go r sup1 | None => true end
    end in
  match st with
  | SIf _ s1 s2 _ => go s1 sup && match loop_stmts current s1 sup with Some (_, sup1, _) => go s2 sup1 | None => true end
  | SSIf _ _ ss => go ss sup
  | SWhile lvs ss bc => loop_outside_b lvs ss bc sup
  | _ => true
  end.
Fixpoint outside_stmts_b (ss : list stmt) (sup : list name) : bool :=
  match ss with
  | [] => true
  | s :: r => outside_stmt_b s sup &&
              match loop_stmt current s sup with Some (_, sup1, _) => outside_stmts_b r sup1 | None => true end
  end.

Definition loop_pass_covered (sup : list name) (f : func) : bool :=
  match loop_stmts current (f_body f) sup with
  | Some (_, sup', _) => negb (is_nil sup') && outside_stmts_b (f_body f) sup
  | None => false
  end.

(* the supply is a list of pairwise distinct names that occur nowhere in the function *)
Definition fresh_for_b (sup : list name) (f : func) : bool :=
  nodupb sup && forallb (fun y => negb (memb y (f_params f ++ binders_l (f_body f)))) sup.

(* for the tie: the real run's temporaries are exactly as many as the pass takes, so one more name is appended *)
Definition nmax_c (l : list name) : N := fold_right N.max 0%N l.
Definition extended_supply (sup : list name) (f : func) : list name :=
  sup ++ [(nmax_c (sup ++ f_params f ++ binders_l (f_body f)) + 1)%N].
Definition in_theorem_domain (sup : list name) (f : func) : bool :=
  let s := extended_supply sup f in
  wf_func f && fresh_for_b s f && loop_pass_covered s f.
