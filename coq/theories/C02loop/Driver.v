(* C02loop — Gallina model of crates/samlang-optimization/src/loop_optimizations.rs (the "loop" pass).
   Definitions only.  `None` models a Rust panic (see Analysis.extract_guard and StrengthIv.sr_loop). *)
From Coq Require Import ZArith NArith List Bool.
Import ListNotations.
From SV Require Import Common.Int32 C02.Kernels C02deep.Syntax C02deep.Passes
  C02loop.Analysis C02loop.Licm C02loop.Algebraic C02loop.StrengthIv.
Open Scope Z_scope.

(* the eager `.map(|v| (v, counter.alloc_temp_str())).collect_vec()` *)
Fixpoint alloc_each {A} (l : list A) (sup : list name) : list (A * name) * list name :=
  match l with
  | [] => ([], sup)
  | v :: r => let '(n, s1) := alloc sup in let '(r', s2) := alloc_each r s1 in ((v, n) :: r', s2)
  end.

(* the lazy `.flat_map(|v| { let step_1_temp = counter.alloc_temp_str(); .. })`, run by the final collect *)
Fixpoint expand_derived (ds : list divn) (sup : list name) : list stmt * list name :=
  match ds with
  | [] => ([], sup)
  | v :: r =>
      let '(t, s1) := alloc sup in
      let '(r', s2) := expand_derived r s1 in
      (bin_flex t MUL (EVar (dn_base v)) (pli_expr (dn_mult v))
       :: bin_flex (dn_name v) PLUS (EVar t) (pli_expr (dn_imm v)) :: r', s2)
  end.

(* useful_used_set *)
Definition useful_set (o : owl) (break_value : expr) : set :=
  uses_l (o_stmts o)
    (fold_left (fun s v => use_expr (t_e2 v) s) (o_others o)
       (use_expr break_value [bg_name (o_basic o)])).

(* expand_optimizable_while_loop *)
Definition expand (o : owl) (sup : list name) : stmt * list name :=
  let b := o_basic o in
  let '(coll, s1) := alloc sup in
  let break_value := match o_bc o with Some (_, e) => e | None => EInt 0 end in
  let useful := useful_set o break_value in
  let '(gcs, s2) := alloc_each (filter (fun v => memb (gi_name v) useful) (o_general o)) s1 in
  let '(cc, s3) := alloc s2 in
  let loop_variables :=
    filter (fun v => memb (t_name v) useful) (o_others o)
    ++ [(bg_name b, bg_init b, EVar coll)]
    ++ map (fun vn => (gi_name (fst vn), gi_init (fst vn), EVar (snd vn))) gcs in
  let '(dstmts, s4) := expand_derived (o_derived o) s3 in
  (SWhile loop_variables
     ([bin_unw cc (g_to_op (g_invert (bg_op b))) (EVar (bg_name b)) (pli_expr (bg_guard b));
       SSIf (EVar cc) false [SBreak break_value]]
      ++ o_stmts o
      ++ [bin_unw coll PLUS (EVar (bg_name b)) (pli_expr (bg_inc b))]
      ++ map (fun vn => bin_unw (snd vn) PLUS (EVar (gi_name (fst vn))) (pli_expr (gi_inc (fst vn)))) gcs
      ++ dstmts)
     (match o_bc o with Some (n, _) => Some n | None => None end),
   s4).

(* which sub-passes changed the loop (for the coverage report of the tie) *)
Record fired := mkfired { f_licm : N; f_extract : N; f_alg : N; f_ive : N; f_sr : N }.
Definition fired0 : fired := mkfired 0 0 0 0 0.
Definition fired_add (a b : fired) : fired :=
  mkfired (f_licm a + f_licm b) (f_extract a + f_extract b) (f_alg a + f_alg b) (f_ive a + f_ive b) (f_sr a + f_sr b).

Definition is_handled (handled : set) (st : stmt) : bool :=
  match st with SBin x _ _ _ => memb x handled | _ => false end.

(* the versions of the code: (old_div, old_guard) = (false, false) is the code as it is; true selects the code
   before fix 3d66ed3 (LICM hoists DIV / MOD) resp. before fix 8c133db (guard name still used) *)
Definition version := (bool * bool)%type.
Definition current : version := (false, false).

(* optimize_while_statement_with_all_loop_optimizations *)
Definition loop_while_v (ver : version) (lvs : list triple) (ss : list stmt) (bc : option name) (sup : list name)
  : option (list stmt * list name * fired) :=
  let '(hoisted, inner, ninv) := licm_g (fst ver) lvs ss in
  let fl := mkfired (if is_nil hoisted then 0 else 1) 0 0 0 0 in
  match extract_g (snd ver) lvs inner bc ninv with
  | XPanic => None
  | XNo => Some (hoisted ++ [SWhile lvs inner bc], sup, fl)
  | XOk o =>
      let fl := fired_add fl (mkfired 0 1 0 0 0) in
      match alg o sup with
      | Some (stmts, sup') => Some (hoisted ++ stmts, sup', fired_add fl (mkfired 0 0 1 0 0))
      | None =>
          let '(pre1, o1, sup1, fl1) :=
            match ive o sup with
            | Some (pre, nb, nd, sup') =>
                (pre, mkowl nb (o_general o) (o_others o) nd (o_stmts o) (o_bc o), sup', fired_add fl (mkfired 0 0 0 1 0))
            | None => ([], o, sup, fl)
            end in
          match sr o1 sup1 with
          | None => None
          | Some (pre2, o2, sup2) =>
              let handled := map gi_name (o_general o2) in
              let o3 := mkowl (o_basic o2) (o_general o2) (o_others o2) (o_derived o2)
                              (filter (fun s => negb (is_handled handled s)) (o_stmts o2)) (o_bc o2) in
              let '(w, sup3) := expand o3 sup2 in
              Some (hoisted ++ pre1 ++ pre2 ++ [w], sup3,
                    fired_add fl1 (mkfired 0 0 0 0 (if is_nil pre2 then 0 else 1)))
          end
      end
  end.

Definition loop_while := loop_while_v current.

(* optimize_stmt / optimize_stmts *)
Section Version.
Variable ver : version.
Fixpoint loop_stmt (st : stmt) (sup : list name) : option (list stmt * list name * fired) :=
  let fix go (ss : list stmt) (sup : list name) : option (list stmt * list name * fired) :=
    match ss with
    | [] => Some ([], sup, fired0)
    | s :: r =>
        match loop_stmt s sup with
        | None => None
        | Some (s', sup1, f1) =>
            match go r sup1 with
            | None => None
            | Some (r', sup2, f2) => Some (s' ++ r', sup2, fired_add f1 f2)
            end
        end
    end in
  match st with
  | SIf c s1 s2 fas =>
      match go s1 sup with
      | None => None
      | Some (s1', sup1, f1) =>
          match go s2 sup1 with
          | None => None
          | Some (s2', sup2, f2) => Some ([SIf c s1' s2' fas], sup2, fired_add f1 f2)
          end
      end
  | SSIf c inv ss =>
      match go ss sup with
      | None => None
      | Some (ss', sup1, f1) => Some ([SSIf c inv ss'], sup1, f1)
      end
  | SWhile lvs ss bc => loop_while_v ver lvs ss bc sup
  | _ => Some ([st], sup, fired0)
  end.
Fixpoint loop_stmts (ss : list stmt) (sup : list name) : option (list stmt * list name * fired) :=
  match ss with
  | [] => Some ([], sup, fired0)
  | s :: r =>
      match loop_stmt s sup with
      | None => None
      | Some (s', sup1, f1) =>
          match loop_stmts r sup1 with
          | None => None
          | Some (r', sup2, f2) => Some (s' ++ r', sup2, fired_add f1 f2)
          end
      end
  end.

(* optimize_function *)
Definition loop_pass_v (sup : list name) (f : func) : option (func * fired) :=
  match loop_stmts (f_body f) sup with
  | None => None
  | Some (b, _, fl) => Some (mkfunc (f_params f) b (f_ret f), fl)
  end.
End Version.
Definition loop_pass := loop_pass_v current.
