(* C02loop — Gallina model of crates/samlang-optimization/src/loop_invariant_code_motion.rs.  Definitions only.
   On the fragment of C02deep/Syntax.v: IsPointer / IndexedAccess / Cast are SPrim; ClosureInit is outside the
   fragment. *)
From Coq Require Import ZArith NArith List Bool.
Import ListNotations.
From SV Require Import Common.Int32 C02deep.Syntax C02deep.Passes.
Open Scope Z_scope.

(* expression_is_loop_invariant *)
Definition is_inv (e : expr) (ninv : set) : bool :=
  match e with EVar v => negb (memb v ninv) | _ => true end.

(* LoopInvariantCodeMotionOptimizationResult, built by the `for stmt in stmts` loop:
   (hoisted_stmts, inner_stmts, non_loop_invariant_variables), the two lists in reverse (push = cons) *)
(* old_div = true: the code before fix 3d66ed3 (finding C02-licm-hoists-trapping-division), which also hoisted
   DIV / MOD; the current code is old_div = false: `!matches!(b.operator, DIV | MOD) && ..` *)
Definition licm_step_g (old_div : bool) (acc : list stmt * list stmt * set) (st : stmt) : list stmt * list stmt * set :=
  let '(h, i, ninv) := acc in
  match st with
  | SNot x e | SPrim x _ e =>
      if is_inv e ninv then (st :: h, i, ninv) else (h, st :: i, x :: ninv)
  | SBin x op e1 e2 =>
      if (old_div || negb (is_divmod op)) && is_inv e1 ninv && is_inv e2 ninv then (st :: h, i, ninv) else (h, st :: i, x :: ninv)
  | SStruct x _ es =>
      if forallb (fun e => is_inv e ninv) es then (st :: h, i, ninv) else (h, st :: i, x :: ninv)
  | SLateDecl x | SLateAssign x _ => (h, st :: i, x :: ninv)
  | SCall _ _ ret => (h, st :: i, opt_names ret ++ ninv)
  | SIf _ _ _ fas => (h, st :: i, rev (map t_name fas) ++ ninv)
  | SSIf _ _ _ | SBreak _ => (h, st :: i, ninv)
  | SWhile _ _ bc => (h, st :: i, opt_names bc ++ ninv)
  end.

Definition licm_step := licm_step_g false.

(* optimize *)
Definition licm_g (old_div : bool) (lvs : list triple) (ss : list stmt) : list stmt * list stmt * set :=
  let '(h, i, ninv) := fold_left (licm_step_g old_div) ss ([], [], rev (map t_name lvs)) in
  (rev h, rev i, ninv).
Definition licm := licm_g false.
