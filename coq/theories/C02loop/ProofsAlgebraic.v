(* C02loop — the closed form of counting loops (Algebraic.alg) equals running the loop.
   The loop is the one Driver.expand builds from the analysis result (ProofsExpand.xloop; for the loops `alg`
   accepts it consists of the guard and the collector statements only).  Exact side condition: the value with
   which the guarded induction variable leaves the loop, i0 + inc * K (K = C02.Kernels.trip), is representable -
   then so is every intermediate value; nothing else may overflow harmfully (the other induction variables are
   computed modulo 2^32 on both sides). *)
From Coq Require Import ZArith NArith List Bool Lia Morphisms Setoid.
Import ListNotations.
From SV Require Import Common.Int32 C02.Kernels C02.Proofs C02deep.Syntax C02deep.Sem C02deep.Passes C02deep.ProofsSem
  C02deep.ProofsScope C02loop.Analysis C02loop.Algebraic C02loop.StrengthIv C02loop.Driver
  C02loop.ProofsBase C02loop.ProofsAnalysis C02loop.ProofsExpand.
Open Scope Z_scope.

Lemma get_guard_invert gop : get_guard_operator (g_to_op (g_invert gop)) false = Some gop.
Proof. destruct gop; reflexivity. Qed.
Lemma get_inv_pli p : get_inv (pli_expr p) [] = Some p.
Proof. destruct p; reflexivity. Qed.

(* the head of every expanded loop *)
Lemma exec_guard_stmts m w fuel b cc bv e tr :
  exists c : bool,
    let e' := (cc, b2z c) :: e in
    exec_block m w fuel (guard_stmts b cc bv) e tr =
    if guard_holds (bg_op b) (wrap32 (lookup (bg_name b) e)) (pv w e (bg_guard b)) then RNext e' tr
    else RBreak (eval w e' bv) e' tr.
Proof.
  destruct (guard_sound m w fuel cc (g_to_op (g_invert (bg_op b))) (bg_name b) (pli_expr (bg_guard b)) false
              [SBreak bv] (bg_op b) (bg_guard b) [] e tr (get_guard_invert _) (get_inv_pli _)) as (c & _ & H).
  exists c. cbn zeta in *. unfold guard_stmts. rewrite exec_block_cons, exec_bin_unw, <- exec_block_cons. exact H.
Qed.

Lemma in32_between a b x : in32 a -> in32 b -> (a <= x <= b \/ b <= x <= a) -> in32 x.
Proof. unfold in32. lia. Qed.

Section Alg.
  Variables (w : world) (fuel : nat).
  Variables (b : bivg) (gcs : list (giv * name)) (coll cc : name) (bv : expr) (bc : option name).
  Variables (i0 inc g K : Z).
  Variable en : env.

  Notation i := (bg_name b).
  Let GN := map (fun vn => gi_name (fst vn)) gcs.
  Let CN := map snd gcs.
  Let lvs := (i, bg_init b, EVar coll) :: map (fun vn => (gi_name (fst vn), gi_init (fst vn), EVar (snd vn))) gcs.
  Let body := guard_stmts b cc bv ++ [coll_stmt coll i (bg_inc b)] ++ gcoll_stmts gcs.
  Let Bound := i :: GN ++ coll :: cc :: CN.

  Hypothesis Hinit : bg_init b = EInt i0.
  Hypothesis Hinc : bg_inc b = PInt inc.
  Hypothesis Hg : bg_guard b = PInt g.
  Hypothesis Hi0 : in32 i0.
  Hypothesis Hinc32 : in32 inc.
  Hypothesis Hg32 : in32 g.
  Hypothesis Htrip : trip (bg_op b) i0 inc g = Some K.
  Hypothesis Hfinal : in32 (i0 + inc * K).
  Hypothesis Hnd : NoDup Bound.
  (* the increments of the other induction variables are invariant: not bound by the loop *)
  Hypothesis Hincs : forall v n x, In (v, n) gcs -> gi_inc v = PVar x -> ~ In x Bound.

  Definition j0 (v : giv) : Z := eval w en (gi_init v).
  Definition jinc (v : giv) : Z := pv w en (gi_inc v).

  Definition head_inv (e : env) (k : Z) : Prop :=
    0 <= k <= K /\ lookup i e = i0 + inc * k /\
    (forall v n, In (v, n) gcs -> eq32 (lookup (gi_name v) e) (j0 v + jinc v * k)) /\
    (forall y, ~ In y Bound -> lookup y e = lookup y en).

  Lemma in32_ik k : 0 <= k <= K -> in32 (i0 + inc * k).
  Proof.
    intros Hk. apply (in32_between i0 (i0 + inc * K)); auto.
    destruct (Z_le_gt_dec 0 inc); [left | right]; nia.
  Qed.

  Lemma NoDup_Bound_i y : In y (GN ++ coll :: cc :: CN) -> y <> i.
  Proof. unfold Bound in Hnd. inversion Hnd; subst. intros H ->. auto. Qed.
  Lemma Hnd_tail : NoDup (GN ++ coll :: cc :: CN).
  Proof. unfold Bound in Hnd. now inversion Hnd. Qed.
  Lemma GN_not_fresh y : In y GN -> y <> coll /\ y <> cc /\ ~ In y CN.
  Proof.
    intros Hy. pose proof Hnd_tail as H. repeat split.
    - intros ->. apply (nd_app_disj _ _ coll H); auto. now left.
    - intros ->. apply (nd_app_disj _ _ cc H); auto. right. now left.
    - intros Hc. apply (nd_app_disj _ _ y H); auto. right. now right.
  Qed.
  Lemma coll_cc_CN : coll <> cc /\ ~ In coll CN /\ ~ In cc CN /\ NoDup CN.
  Proof.
    pose proof Hnd_tail as H. apply nd_app_r in H. inversion H as [|? ? Hn Hr1]. inversion Hr1 as [|? ? Hn2 Hr2].
    repeat split; auto.
    - intros E. apply Hn. rewrite E. now left.
    - intros Hc. apply Hn. now right.
  Qed.

  Lemma pv_inc_stable e v n :
    In (v, n) gcs -> (forall y, ~ In y Bound -> lookup y e = lookup y en) -> pv w e (gi_inc v) = jinc v.
  Proof.
    intros Hi Hout. unfold jinc. destruct (gi_inc v) as [z|x] eqn:E; [reflexivity|].
    rewrite !pv_var. f_equal. apply Hout. eapply Hincs; eauto.
  Qed.

  Lemma find_lvs_i : find (fun t => N.eqb i (t_name t)) lvs = Some (i, bg_init b, EVar coll).
  Proof. unfold lvs. cbn. now rewrite N.eqb_refl. Qed.

  Lemma NoDup_GN : NoDup GN.
  Proof. pose proof Hnd_tail as H. eapply nd_app_l; eauto. Qed.
  Lemma NoDup_CN : NoDup CN.
  Proof. apply coll_cc_CN. Qed.

  Lemma find_lvs_j v n :
    In (v, n) gcs -> find (fun t => N.eqb (gi_name v) (t_name t)) lvs = Some (gi_name v, gi_init v, EVar n).
  Proof.
    intros Hi. unfold lvs. cbn [find t_name fst].
    assert (Hne : gi_name v <> i).
    { apply NoDup_Bound_i. apply in_or_app. left. unfold GN. apply in_map_iff. exists (v, n). auto. }
    destruct (N.eqb_spec (gi_name v) i) as [E|_]; [contradiction|].
    pose proof NoDup_GN as Hn. unfold GN in Hn. clear - Hi Hn.
    induction gcs as [|vn r IH]; [contradiction|]. cbn [map find t_name fst] in *.
    inversion Hn as [|? ? Hni Hn']; subst. destruct Hi as [->|Hi].
    - cbn. now rewrite N.eqb_refl.
    - destruct (N.eqb_spec (gi_name v) (gi_name (fst vn))) as [E|_]; [|auto].
      exfalso. apply Hni. rewrite <- E. apply in_map_iff. exists (v, n). auto.
  Qed.

  (* one iteration *)
  Lemma body_step e k t :
    head_inv e k ->
    if guard_holds (bg_op b) (i0 + inc * k) g
    then exists e1, exec_block Wrap w fuel body e t = RNext e1 t /\ head_inv (bind_e2 w lvs e1) (k + 1)
    else exists e1, exec_block Wrap w fuel body e t = RBreak (eval w e1 bv) e1 t /\
                    lookup i e1 = i0 + inc * k /\
                    (forall v n, In (v, n) gcs -> eq32 (lookup (gi_name v) e1) (j0 v + jinc v * k)) /\
                    (forall y, ~ In y Bound -> lookup y e1 = lookup y en).
  Proof.
    intros (Hk & Hi & Hj & Hout).
    pose proof (in32_ik k Hk) as Hik.
    unfold body. rewrite exec_block_app.
    destruct (exec_guard_stmts Wrap w fuel b cc bv e t) as (c & Hgs). cbn zeta in Hgs. rewrite Hgs.
    rewrite Hi, (wrap32_id _ Hik), Hg, pv_int, (wrap32_id _ Hg32).
    assert (Hcc_i : cc <> i) by (apply NoDup_Bound_i; apply in_or_app; right; right; now left).
    assert (Hcoll_i : coll <> i) by (apply NoDup_Bound_i; apply in_or_app; right; now left).
    set (e' := (cc, b2z c) :: e).
    assert (Hout' : forall y, y <> cc -> lookup y e' = lookup y e) by (intros y Hy; now apply lookup_cons_ne).
    destruct (guard_holds (bg_op b) (i0 + inc * k) g) eqn:Hgh.
    - (* continue *)
      assert (Hk1 : 0 <= k + 1 <= K).
      { destruct (trip_correct _ _ _ _ _ Htrip) as (HK & Hlt & Hge).
        destruct (Z_lt_ge_dec k K); [lia|]. assert (k = K) by lia. subst k. rewrite Hge in Hgh. discriminate. }
      rewrite exec_block_app, exec_block_single, exec_coll_stmt, exec_gcolls.
      eexists. split; [reflexivity|].
      set (e2 := (coll, _) :: e').
      assert (Hcollv : lookup coll e2 = i0 + inc * (k + 1)).
      { unfold e2. rewrite lookup_cons_eq, eval_var, Hinc, pv_int, (wrap32_id _ Hinc32).
        rewrite (Hout' i) by auto. rewrite Hi, (wrap32_id _ Hik).
        replace (i0 + inc * k + inc) with (i0 + inc * (k + 1)) by ring. apply wrap32_id. now apply in32_ik. }
      assert (HCNcoll : ~ In coll CN) by apply coll_cc_CN.
      assert (HCNcc : ~ In cc CN) by apply coll_cc_CN.
      assert (HCN_not : forall y, In y CN -> y <> i /\ ~ In y GN /\ y <> coll /\ y <> cc).
      { intros y Hy. repeat split.
        - apply NoDup_Bound_i. apply in_or_app. right. right. now right.
        - intros Hc. destruct (GN_not_fresh y Hc) as (_ & _ & Hn). contradiction.
        - intros ->. contradiction.
        - intros ->. contradiction. }
      split; [exact Hk1|]. split; [|split].
      + unfold bind_e2. rewrite lookup_bind, find_lvs_i. cbn [t_e2 snd]. rewrite eval_var.
        rewrite colls_env_outside by assumption. rewrite Hcollv. apply wrap32_id. now apply in32_ik.
      + intros v n Hvn. unfold bind_e2. rewrite lookup_bind, (find_lvs_j v n Hvn). cbn [t_e2 snd]. rewrite eval_var, eq32_wrap.
        rewrite (colls_env_value w gcs e2 v n NoDup_CN Hvn).
        * rewrite eq32_wrap.
          assert (Hjn : In (gi_name v) GN) by (unfold GN; apply in_map_iff; exists (v, n); auto).
          assert (E1 : eval w e2 (EVar (gi_name v)) = eval w e (EVar (gi_name v))).
          { destruct (GN_not_fresh _ Hjn) as (Hn1 & Hn2 & _).
            rewrite !eval_var. f_equal. unfold e2, e'. rewrite !lookup_cons_ne; auto. }
          rewrite E1, eval_var, eq32_wrap, (Hj v n Hvn).
          assert (E2 : pv w e2 (gi_inc v) = jinc v).
          { apply (pv_inc_stable e2 v n Hvn). intros y Hy. unfold e2, e'.
            rewrite !lookup_cons_ne; auto; intros ->; apply Hy; unfold Bound; right; apply in_or_app; right; [right; now left | now left]. }
          rewrite E2. apply eq32_eq. ring.
        * intros y Hy E. destruct (HCN_not y Hy) as (_ & Hg' & _). apply Hg'. rewrite E. unfold GN. apply in_map_iff. exists (v, n). auto.
        * intros y x Hy Ex E. subst y. apply (Hincs v n x Hvn Ex). unfold Bound. right. apply in_or_app. right. right. now right.
      + intros y Hy. unfold bind_e2. rewrite lookup_bind_notin.
        * rewrite colls_env_outside by (intros Hc; apply Hy; unfold Bound; right; apply in_or_app; right; right; now right).
          unfold e2, e'. rewrite !lookup_cons_ne; [now apply Hout| |];
            intros ->; apply Hy; unfold Bound; right; apply in_or_app; right; [right; now left | now left].
        * intros Hc. apply Hy. unfold lvs in Hc. cbn [map t_name fst] in Hc. destruct Hc as [<-|Hc]; [now left|].
          unfold Bound. right. apply in_or_app. left. unfold GN. rewrite map_map in Hc. exact Hc.
    - (* break *)
      exists e'. split; [reflexivity|]. split; [rewrite Hout' by auto; exact Hi|]. split.
      + intros v n Hvn. rewrite Hout'; [exact (Hj v n Hvn)|].
        assert (Hjn : In (gi_name v) GN) by (unfold GN; apply in_map_iff; exists (v, n); auto).
        apply (GN_not_fresh _ Hjn).
      + intros y Hy. rewrite Hout'; [now apply Hout|]. intros ->. apply Hy. unfold Bound. right. apply in_or_app. right. right. now left.
  Qed.

  (* the loop can only be left in the state the closed form predicts *)
  Lemma alg_loop n0 v e' t' tr :
    loop (exec_block Wrap w fuel body) (bind_e2 w lvs) n0 (bind_e1 w lvs en) tr = RBreak v e' t' ->
    t' = tr /\ v = eval w e' bv /\ lookup i e' = i0 + inc * K /\
    (forall v0 n, In (v0, n) gcs -> eq32 (lookup (gi_name v0) e') (j0 v0 + jinc v0 * K)) /\
    (forall y, ~ In y Bound -> lookup y e' = lookup y en).
  Proof.
    apply (loop_break_inv (fun e t => t = tr /\ exists k, head_inv e k)
             (fun v e' t' => t' = tr /\ v = eval w e' bv /\ lookup i e' = i0 + inc * K /\
                (forall v0 n, In (v0, n) gcs -> eq32 (lookup (gi_name v0) e') (j0 v0 + jinc v0 * K)) /\
                (forall y, ~ In y Bound -> lookup y e' = lookup y en))).
    - intros e t e1 t1 (-> & k & HI) Hb. pose proof (body_step e k tr HI) as Hs.
      destruct (guard_holds (bg_op b) (i0 + inc * k) g).
      + destruct Hs as (e1' & E & HI'). rewrite E in Hb. injection Hb as <- <-. split; [reflexivity|]. eauto.
      + destruct Hs as (e1' & E & _). rewrite E in Hb. discriminate.
    - intros e t v0 e1 t1 (-> & k & HI) Hb. pose proof (body_step e k tr HI) as Hs.
      destruct (guard_holds (bg_op b) (i0 + inc * k) g) eqn:Hgh.
      + destruct Hs as (e1' & E & _). rewrite E in Hb. discriminate.
      + destruct Hs as (e1' & E & H1 & H2 & H3). rewrite E in Hb. injection Hb as <- <- <-.
        assert (k = K).
        { destruct HI as (Hk & _). destruct (trip_correct _ _ _ _ _ Htrip) as (HK & Hlt & Hge).
          destruct (Z_lt_ge_dec k K) as [Hl|]; [|lia]. rewrite (Hlt k) in Hgh by lia. discriminate. }
        subst k. auto.
    - split; [reflexivity|]. exists 0. split; [|split; [|split]].
      + destruct (trip_correct _ _ _ _ _ Htrip) as (HK & _). lia.
      + unfold bind_e1. rewrite lookup_bind, find_lvs_i. cbn [t_e1 fst snd]. rewrite Hinit, eval_int, (wrap32_id _ Hi0). ring.
      + intros v0 n Hvn. unfold bind_e1. rewrite lookup_bind, (find_lvs_j v0 n Hvn). cbn [t_e1 fst snd]. unfold j0. apply eq32_eq. ring.
      + intros y Hy. unfold bind_e1. rewrite lookup_bind_notin; [reflexivity|].
        intros Hc. apply Hy. unfold lvs in Hc. cbn [map t_name fst] in Hc. destruct Hc as [<-|Hc]; [now left|].
        unfold Bound. right. apply in_or_app. left. unfold GN. rewrite map_map in Hc. exact Hc.
  Qed.
End Alg.

(* ------------------------------------------------------------------ the theorem about Algebraic.alg *)
Lemma map_snd_combine {A B} (l : list A) (l' : list B) : length l = length l' -> map snd (combine l l') = l'.
Proof. revert l'. induction l; destruct l'; cbn; intros; try discriminate; f_equal; auto. Qed.
Lemma in_combine_exists {A B} (l : list A) (l' : list B) a : length l = length l' -> In a l -> exists b, In (a, b) (combine l l').
Proof.
  revert l'. induction l as [|x r IH]; destruct l' as [|y r']; cbn; intros L Hi; try discriminate; [contradiction|].
  destruct Hi as [->|Hi]; [eauto|]. destruct (IH r' ltac:(lia) Hi) as [b Hb]. eauto.
Qed.
Lemma find_unique_name (gs : list giv) r v :
  NoDup (map gi_name gs) -> In r gs -> gi_name r = v -> find (fun r0 => N.eqb (gi_name r0) v) gs = Some r.
Proof.
  induction gs as [|a l IH]; cbn; intros Hnd Hi E; [contradiction|]. inversion Hnd as [|? ? Hni Hnd']; subst.
  destruct Hi as [->|Hi]; [now rewrite N.eqb_refl|].
  destruct (N.eqb_spec (gi_name a) (gi_name r)) as [E|_]; [|auto].
  exfalso. apply Hni. rewrite E. now apply in_map.
Qed.

(* the hypotheses on the names: the loop binds pairwise distinct names; the increments of the induction variables
   and the break value do not mention the temporaries; `tmp` (the temporary the closed form may allocate) is not
   read by the initial values *)
Definition alg_names (o : owl) (coll cc : name) (ns : list name) (tmp : name) : Prop :=
  let bound := bg_name (o_basic o) :: map gi_name (kept_generals o) ++ coll :: cc :: ns in
  length ns = length (kept_generals o) /\
  NoDup bound /\ NoDup (map gi_name (o_general o)) /\
  (forall v x, In v (kept_generals o) -> gi_inc v = PVar x -> ~ In x bound) /\
  (forall x, bv_of o = EVar x -> x <> coll /\ x <> cc /\ ~ In x ns) /\
  (forall v, In v (o_general o) -> gi_init v <> EVar tmp).
(* the literals are 32-bit literals *)
Definition alg_lits (o : owl) : Prop :=
  (forall z, bg_init (o_basic o) = EInt z -> in32 z) /\ (forall z, bg_inc (o_basic o) = PInt z -> in32 z) /\
  (forall z, bg_guard (o_basic o) = PInt z -> in32 z).
(* the exact side condition: the value with which the loop is left is representable *)
Definition alg_exit_in32 (o : owl) : Prop :=
  forall i0 inc g K, bg_init (o_basic o) = EInt i0 -> bg_inc (o_basic o) = PInt inc -> bg_guard (o_basic o) = PInt g ->
    trip (bg_op (o_basic o)) i0 inc g = Some K -> in32 (i0 + inc * K).

Theorem alg_sound w fuel fuel' o sup stmts sup' coll cc ns en tr e1 t :
  alg o sup = Some (stmts, sup') ->
  alg_lits o -> alg_exit_in32 o -> alg_names o coll cc ns (fst (alloc sup)) ->
  exec Wrap w fuel (xloop o coll cc (combine (kept_generals o) ns) []) en tr = RNext e1 t ->
  exists e2,
    exec_block Wrap w fuel' stmts en tr = RNext e2 t /\
    (forall n, bc_of o = Some n -> wrap32 (lookup n e1) = wrap32 (lookup n e2)) /\
    (forall y, ~ In y (bg_name (o_basic o) :: map gi_name (kept_generals o) ++ coll :: cc :: ns) ->
               ~ In y (opt_names (bc_of o)) -> y <> fst (alloc sup) -> lookup y e1 = lookup y e2).
Proof.
  intros Halg (Hl1 & Hl2 & Hl3) Hexit (Hlen & Hnd & Hndg & Hincs & Hbv & Htmp) Hex.
  unfold alg in Halg.
  destruct (bg_init (o_basic o)) as [i0| | |] eqn:Ei; try discriminate.
  destruct (bg_inc (o_basic o)) as [inc|] eqn:Einc; try discriminate.
  destruct (bg_guard (o_basic o)) as [g|] eqn:Eg; try discriminate.
  destruct (o_others o) as [|] eqn:Eo; [|discriminate]. destruct (o_derived o) as [|] eqn:Ed; [|discriminate].
  destruct (o_stmts o) as [|] eqn:Es; [|discriminate]. cbn [is_nil negb orb] in Halg.
  destruct (trip (bg_op (o_basic o)) i0 inc g) as [K|] eqn:Et; [|discriminate].
  set (gcs := combine (kept_generals o) ns) in *.
  assert (EGN : map (fun vn : giv * name => gi_name (fst vn)) gcs = map gi_name (kept_generals o)).
  { unfold gcs. rewrite <- (map_map fst gi_name), map_fst_combine; auto. }
  assert (ECN : map snd gcs = ns) by (unfold gcs; apply map_snd_combine; auto).
  (* the loop is the counting loop of the section *)
  unfold xloop, xlvs, xbody in Hex. rewrite Eo, Ed, Es in Hex. cbn [filter derived_stmts app] in Hex.
  rewrite app_nil_r in Hex. rewrite exec_SWhile in Hex.
  destruct (loop _ _ fuel _ tr) as [|v e' t'| | | | |] eqn:EL; try discriminate. injection Hex as <- <-.
  pose proof (alg_loop w fuel (o_basic o) gcs coll cc (bv_of o) i0 inc g K en Ei Einc Eg
                (Hl1 _ eq_refl) (Hl2 _ eq_refl) (Hl3 _ eq_refl) Et (Hexit _ _ _ _ Ei Einc Eg Et)) as HA.
  rewrite EGN, ECN in HA. specialize (HA Hnd).
  assert (Hincs' : forall (v : giv) (n x : name), In (v, n) gcs -> gi_inc v = PVar x ->
             ~ In x (bg_name (o_basic o) :: map gi_name (kept_generals o) ++ coll :: cc :: ns)).
  { intros v0 n x Hi. apply Hincs. unfold gcs in Hi. now apply in_combine_l in Hi. }
  specialize (HA Hincs' fuel v e' t' tr EL). destruct HA as (-> & Hv & Hie & Hje & Hout).
  destruct (o_bc o) as [[n bve]|] eqn:Ebc.
  2:{ injection Halg as <- <-. exists en. split; [reflexivity|]. unfold bc_of. rewrite Ebc. split; [discriminate|].
      intros y Hy _ _. cbn. now apply Hout. }
  assert (Ebv : bv_of o = bve) by (unfold bv_of; now rewrite Ebc).
  assert (Ebcn : bc_of o = Some n) by (unfold bc_of; now rewrite Ebc).
  rewrite Ebcn. cbn [bind_opt opt_names].
  assert (Hfin : forall stmts0 val en1,
            exec_block Wrap w fuel' stmts0 en tr = RNext ((n, val) :: en1) tr ->
            (forall y, y <> fst (alloc sup) -> lookup y en1 = lookup y en) -> wrap32 v = wrap32 val ->
            exists e2, exec_block Wrap w fuel' stmts0 en tr = RNext e2 tr /\
              (forall n0, Some n = Some n0 -> wrap32 (lookup n0 ((n, v) :: e')) = wrap32 (lookup n0 e2)) /\
              (forall y, ~ In y (bg_name (o_basic o) :: map gi_name (kept_generals o) ++ coll :: cc :: ns) ->
                         ~ In y [n] -> y <> fst (alloc sup) -> lookup y ((n, v) :: e') = lookup y e2)).
  { intros stmts0 val en1 He Hen1 Hval. exists ((n, val) :: en1). split; [exact He|]. split.
    - intros n0 [= <-]. now rewrite !lookup_cons_eq.
    - intros y Hy Hn Ht. rewrite !lookup_cons_ne by (intros ->; apply Hn; now left). rewrite Hen1 by assumption. now apply Hout. }
  rewrite Ebv in Hv.
  destruct bve as [z|z|s|x].
  - injection Halg as <- <-. apply (Hfin _ (wrap32 (eval w en (EInt z) + eval w en (EInt 0))) en); [reflexivity|auto|].
    rewrite Hv. unfold eval. cbn. rewrite Z.add_0_r, !wrap32_idem. reflexivity.
  - injection Halg as <- <-. apply (Hfin _ (wrap32 (eval w en (EI31 z) + eval w en (EInt 0))) en); [reflexivity|auto|].
    rewrite Hv. unfold eval. cbn. rewrite Z.add_0_r, !wrap32_idem. reflexivity.
  - injection Halg as <- <-. apply (Hfin _ (wrap32 (eval w en (EStr s) + eval w en (EInt 0))) en); [reflexivity|auto|].
    rewrite Hv. unfold eval. cbn. rewrite Z.add_0_r, !wrap32_idem. reflexivity.
  - rewrite eval_var in Hv.
    destruct (N.eqb_spec x (bg_name (o_basic o))) as [Ex|Nx].
    + (* the guarded induction variable itself *)
      destruct (in32b (i0 + inc * K)) eqn:Ef; [|discriminate]. injection Halg as <- <-.
      apply (Hfin _ (wrap32 (eval w en (EInt (i0 + inc * K)) + eval w en (EInt 0))) en); [reflexivity|auto|].
      rewrite Hv, Ex, Hie. unfold eval. cbn. rewrite Z.add_0_r, !wrap32_idem. reflexivity.
    + destruct (find (fun r => N.eqb (gi_name r) x) (o_general o)) as [r|] eqn:Ef.
      * (* another induction variable: initial value + increment * trip count *)
        destruct (alloc sup) as [tmp sup1] eqn:Ea. injection Halg as <- <-. cbn [fst] in *.
        apply find_some in Ef. destruct Ef as [Hr Er]. apply N.eqb_eq in Er.
        assert (Hrk : In r (kept_generals o)).
        { unfold kept_generals. apply filter_In. split; [assumption|]. unfold useful_of, useful_set.
          rewrite Es, Eo, Ebv. cbn. rewrite Er, N.eqb_refl. reflexivity. }
        destruct (in_combine_exists _ ns r (eq_sym Hlen) Hrk) as [nr Hnr]. fold gcs in Hnr.
        specialize (Hje r nr Hnr).
        eapply Hfin.
        -- rewrite exec_block_cons, exec_bin_flex, exec_mul_wrap, exec_block_single, exec_bin_flex, exec_plus_wrap. reflexivity.
        -- intros y Hy. now apply lookup_cons_ne.
        -- rewrite Hv, <- Er. apply eq32_wrap_eq. rewrite !eq32_wrap, Hje. unfold j0, jinc, pv.
           assert (E1 : eval w ((tmp, wrap32 (eval w en (pli_expr (gi_inc r)) * eval w en (EInt K))) :: en) (gi_init r) = eval w en (gi_init r)).
           { destruct (gi_init r) as [| | |y] eqn:Ey; try reflexivity. rewrite !eval_var. f_equal. apply lookup_cons_ne.
             intros ->. apply (Htmp r Hr). exact Ey. }
           rewrite E1, eval_var, lookup_cons_eq, !eq32_wrap, eval_int, eq32_wrap. reflexivity.
      * (* a name the loop does not change *)
        injection Halg as <- <-.
        apply (Hfin _ (wrap32 (eval w en (EVar x) + eval w en (EInt 0))) en); [reflexivity|auto|].
        rewrite Hv. destruct (Hbv x Ebv) as (H1 & H2 & H3).
        rewrite Hout.
        -- unfold eval. cbn. rewrite Z.add_0_r, !wrap32_idem. reflexivity.
        -- intros [Hc|Hc]; [congruence|]. rewrite in_app_iff in Hc. destruct Hc as [Hc|[Hc|[Hc|Hc]]]; try congruence; try contradiction.
           (* x names a kept general induction variable: then `find` finds one *)
           apply in_map_iff in Hc. destruct Hc as (r & Er & Hr). unfold kept_generals in Hr. apply filter_In in Hr.
           destruct Hr as [Hr _]. pose proof (find_none _ _ Ef r Hr) as Hn. cbn in Hn. rewrite Er, N.eqb_refl in Hn. discriminate.
Qed.
