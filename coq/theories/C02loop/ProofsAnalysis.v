(* C02loop — the induction analysis is sound: whatever Analysis.extract accepts has that shape semantically.
   (1) the first two statements break out of the loop exactly when the extracted guard `i op g` is false;
   (2) every recognised basic induction variable is advanced by its (invariant) increment when the body runs to
       its end;
   (3) every recognised derived induction variable equals multiplier * base + immediate (modulo 2^32) at the end of
       every iteration that runs to its end, base / multiplier / immediate taken at the head of the iteration. *)
From Coq Require Import ZArith NArith List Bool Lia Morphisms Setoid.
Import ListNotations.
From SV Require Import Common.Int32 C02.Kernels C02deep.Syntax C02deep.Sem C02deep.Passes C02deep.ProofsSem
  C02deep.ProofsScope C02deep.ProofsDceSets C02loop.Analysis C02loop.ProofsBase.
Open Scope Z_scope.

(* ------------------------------------------------------------------ the constant merges are ring identities *)
Section Merges.
  Variables (w : world) (en : env).
  Notation pv := (pv w en).

  Lemma merge_add_sound a b c : merge_add a b = Some c -> eq32 (pv c) (pv a + pv b).
  Proof.
    unfold merge_add. destruct a as [i1|x], b as [i2|y]; try discriminate.
    - intros [= <-]. rewrite !pv_int. eq32_ring.
    - destruct (Z.eqb_spec i1 0) as [->|]; [|discriminate]. intros [= <-]. rewrite pv_int. eq32_ring.
    - destruct (Z.eqb_spec i2 0) as [->|]; [|discriminate]. intros [= <-]. rewrite pv_int. eq32_ring.
  Qed.
  Lemma merge_mul_sound a b c : merge_mul a b = Some c -> eq32 (pv c) (pv a * pv b).
  Proof.
    unfold merge_mul. destruct a as [i1|x], b as [i2|y]; try discriminate.
    - intros [= <-]. rewrite !pv_int. eq32_ring.
    - destruct (Z.eqb_spec i1 1) as [->|]; [|discriminate]. intros [= <-]. rewrite pv_int. eq32_ring.
    - destruct (Z.eqb_spec i2 1) as [->|]; [|discriminate]. intros [= <-]. rewrite pv_int. eq32_ring.
  Qed.

  (* the value a derived induction variable stands for, base value b *)
  Definition dval (d : div) (b : Z) : Z := pv (d_mult d) * b + pv (d_imm d).

  Lemma merge_const_op_sound ex isp p d b :
    merge_const_op ex isp p = Some d ->
    d_base d = d_base ex /\
    eq32 (dval d b) (if isp then dval ex b + pv p else dval ex b * pv p).
  Proof.
    unfold merge_const_op, dval. destruct isp.
    - destruct (merge_add (d_imm ex) p) as [mi|] eqn:E; [|discriminate]. intros [= <-]. cbn. split; [reflexivity|].
      rewrite (merge_add_sound _ _ _ E). eq32_ring.
    - destruct p as [v|v].
      + destruct (Z.eqb_spec v 1) as [->|].
        * intros [= <-]. split; [reflexivity|]. rewrite pv_int. eq32_ring.
        * destruct (d_mult ex) as [m|] eqn:Em; [|discriminate]. destruct (d_imm ex) as [i|] eqn:Ei; [|discriminate].
          cbn [andb]. intros [= <-]. cbn [d_base d_mult d_imm]. split; [reflexivity|]. rewrite ?Em, ?Ei, !pv_int. eq32_ring.
      + destruct (d_mult ex) as [m|] eqn:Em; [|discriminate]. destruct (d_imm ex) as [i|] eqn:Ei; [|discriminate].
        destruct (Z.eqb_spec m 1) as [->|]; [|discriminate]. destruct (Z.eqb_spec i 1) as [->|]; [|discriminate].
        cbn [andb]. intros [= <-]. cbn [d_base d_mult d_imm]. split; [reflexivity|]. rewrite ?Em, ?Ei, !pv_int. eq32_ring.
  Qed.

  Lemma merge_var_add_sound ex an d b :
    merge_var_add ex an = Some d ->
    d_base d = d_base ex /\ d_base an = d_base ex /\ eq32 (dval d b) (dval ex b + dval an b).
  Proof.
    unfold merge_var_add, dval. destruct (N.eqb_spec (d_base ex) (d_base an)) as [E|]; [|discriminate].
    destruct (merge_add (d_mult ex) (d_mult an)) as [mm|] eqn:E1; [|discriminate].
    destruct (merge_add (d_imm ex) (d_imm an)) as [mi|] eqn:E2; [|discriminate].
    intros [= <-]. cbn. split; [reflexivity|]. split; [auto|].
    rewrite (merge_add_sound _ _ _ E1), (merge_add_sound _ _ _ E2). eq32_ring.
  Qed.
End Merges.

(* ------------------------------------------------------------------ (1) the guard *)
Lemma extract_guard_shape ss bc ninv g :
  extract_guard ss bc ninv = XOk g ->
  exists cc op ge inv sis rest,
    ss = SBin cc op (EVar (lg_var g)) ge :: SSIf (EVar cc) inv sis :: rest /\
    get_guard_operator op inv = Some (lg_op g) /\ get_inv ge ninv = Some (lg_guard g) /\
    length sis = 1%nat /\ no_break_l rest = true /\
    match bc with
    | Some b => exists e, sis = [SBreak e] /\ lg_bc g = Some (b, e)
    | None => lg_bc g = None
    end.
Proof.
  unfold extract_guard. destruct ss as [|s0 ss]; [discriminate|]. destruct s0 as [cc op e1 ge| | | | | | | | | |]; try discriminate.
  destruct e1 as [| | |iv]; try discriminate. destruct ss as [|s1 rest]; [discriminate|].
  destruct s1 as [| | | | |c inv sis| | | | |]; try discriminate. destruct c as [| | |cv]; try discriminate.
  destruct (N.eqb_spec cc cv) as [<-|]; [|discriminate]. cbn [andb].
  destruct (Nat.eqb_spec (length sis) 1) as [Hl|]; [|discriminate]. cbn [andb].
  destruct (contains_break_l sis) eqn:Hcb; [|discriminate]. cbn [andb].
  destruct (contains_break_l rest) eqn:Hr; [discriminate|]. cbn [negb].
  destruct (get_guard_operator op inv) as [g0|] eqn:Eg; [|discriminate].
  destruct (get_inv ge ninv) as [p|] eqn:Ei; [|discriminate].
  unfold contains_break_l in Hr. apply negb_false_iff in Hr.
  destruct bc as [b|].
  - destruct sis as [|[| | | | | |e| | | |] sis']; try discriminate. intros [= <-]. cbn in Hl.
    destruct sis'; [|discriminate]. exists cc, op, ge, inv, [SBreak e], rest. cbn. repeat split; eauto.
  - intros [= <-]. exists cc, op, ge, inv, sis, rest. cbn. repeat split; auto.
Qed.

(* the comparison computes the guard *)
Lemma guard_operator_sound op inv g a b :
  get_guard_operator op inv = Some g -> in32 a -> in32 b ->
  exists c, rt_binop op a b = Val (b2z c) /\ guard_holds g a b = negb (xorb c inv).
Proof.
  unfold get_guard_operator. intros H Ha Hb.
  destruct op; try discriminate; cbn in H; injection H as <-; cbn;
    eexists; (split; [reflexivity|]); destruct inv; cbn;
    rewrite ?Z.ltb_antisym; destruct (a <=? b), (b <=? a); reflexivity.
Qed.

Section Guard.
  Variables (m : mode) (w : world) (fuel : nat).

  (* the head of the body: continue (with the comparison result bound) iff the guard holds, otherwise run the
     statement under the `if` (a Break for every loop with a break collector) *)
  Theorem guard_sound cc op iv ge inv sis g p ninv en tr :
    get_guard_operator op inv = Some g -> get_inv ge ninv = Some p ->
    exists c : bool,
      let en' := (cc, b2z c) :: en in
      guard_holds g (wrap32 (lookup iv en)) (pv w en p) = negb (xorb c inv) /\
      exec_block m w fuel [SBin cc op (EVar iv) ge; SSIf (EVar cc) inv sis] en tr =
      if guard_holds g (wrap32 (lookup iv en)) (pv w en p) then RNext en' tr
      else exec_block m w fuel sis en' tr.
  Proof.
    intros Hg Hi.
    assert (Hge : eval w en ge = pv w en p).
    { destruct ge; cbn in Hi; try discriminate; [injection Hi as <-; reflexivity|].
      destruct (memb x ninv); [discriminate|]. injection Hi as <-. reflexivity. }
    destruct (guard_operator_sound op inv g (wrap32 (lookup iv en)) (pv w en p) Hg (wrap32_in _) (pv_in32 _ _ _)) as (c & Hrt & Hgh).
    exists c. cbn zeta. split; [exact Hgh|].
    rewrite exec_block_cons, exec_SBin, eval_var, Hge.
    assert (Hno : chk m op && ovf op (wrap32 (lookup iv en)) (pv w en p) = false).
    { unfold get_guard_operator in Hg. destruct op; try discriminate; cbn; apply andb_false_r. }
    rewrite Hno, Hrt, exec_block_single, exec_SSIf, eval_var, lookup_cons_eq, Hgh.
    assert (Hc : cond (wrap32 (b2z c)) = Some c) by (destruct c; reflexivity).
    rewrite Hc. destruct (xorb c inv); reflexivity.
  Qed.
End Guard.

(* ------------------------------------------------------------------ (2) basic induction variables *)
Lemma find_increment_sound lv coll rest ninv inc :
  find_increment lv coll rest ninv = Some inc ->
  exists e2, In (SBin coll PLUS (EVar lv) e2) rest /\ get_inv e2 ninv = Some inc.
Proof.
  induction rest as [|st r IH]; cbn; [discriminate|].
  assert (Hskip : find_increment lv coll r ninv = Some inc ->
                  exists e2, (st = SBin coll PLUS (EVar lv) e2 \/ In (SBin coll PLUS (EVar lv) e2) r) /\ get_inv e2 ninv = Some inc).
  { intros H. destruct (IH H) as (q & Hi & Hg). exists q. auto. }
  destruct st as [x op a1 a2| | | | | | | | | |]; try exact Hskip.
  destruct op; try exact Hskip.
  destruct a1 as [| | |e1v]; try exact Hskip.
  destruct (N.eqb_spec x coll) as [->|]; cbn [andb]; [|exact Hskip].
  destruct (N.eqb_spec e1v lv) as [->|]; [|exact Hskip].
  destruct (get_inv a2 ninv) as [i|] eqn:E; [|exact Hskip].
  intros [= <-]. eauto.
Qed.

Lemma extract_basic_loop_sound lvs rest ninv : forall bs os,
  extract_basic_loop lvs rest ninv = (bs, os) ->
  (forall b, In b bs -> In (gc_name b, gc_init b, EVar (gc_coll b)) lvs /\
                        exists e2, In (SBin (gc_coll b) PLUS (EVar (gc_name b)) e2) rest /\ get_inv e2 ninv = Some (gc_inc b)) /\
  (forall o, In o os -> In o lvs) /\
  (forall lv, In lv lvs -> In lv os \/ exists b, In b bs /\ gc_name b = t_name lv).
Proof.
  induction lvs as [|lv r IH]; intros bs os H.
  - cbn in H. injection H as <- <-. repeat split; intros; contradiction.
  - cbn [extract_basic_loop] in H. destruct (extract_basic_loop r rest ninv) as [bs0 os0] eqn:E.
    destruct (IH bs0 os0 eq_refl) as (H1 & H2 & H3).
    destruct lv as [[n i] l]. cbn [t_e2 t_name t_e1 fst snd] in H.
    assert (Hdef : forall b, (bs, os) = (b :: bs0, os0) \/ (bs, os) = (bs0, (n, i, l) :: os0) ->
             (bs, os) = (bs0, (n, i, l) :: os0) \/ exists b, (bs, os) = (b :: bs0, os0)) by (intros b [Hb|Hb]; eauto).
    destruct l as [| | |coll].
    1-3: injection H as <- <-; (split; [intros b Hb; destruct (H1 b Hb); split; [now right|assumption]|]);
      (split; [intros o [<-|Ho]; [now left | right; auto]|]);
      intros lv [<-|Hl]; [left; now left | destruct (H3 lv Hl) as [Ho|Hb]; [left; now right | now right]].
    destruct (find_increment n coll rest ninv) as [inc|] eqn:F.
    + injection H as <- <-. destruct (find_increment_sound _ _ _ _ _ F) as (e2 & Hi & Hg).
      split; [|split].
      * intros b [<-|Hb]; cbn; [split; [now left | eauto] | destruct (H1 b Hb); split; [now right|assumption]].
      * intros o Ho. right. auto.
      * intros lv [<-|Hl]; [right; eexists; split; [now left | reflexivity]|].
        destruct (H3 lv Hl) as [Ho|(b & Hb & Hn)]; [now left | right; exists b; split; [now right | assumption]].
    + injection H as <- <-.
      split; [intros b Hb; destruct (H1 b Hb); split; [now right|assumption]|].
      split; [intros o [<-|Ho]; [now left | right; auto]|].
      intros lv [<-|Hl]; [left; now left | destruct (H3 lv Hl) as [Ho|Hb]; [left; now right | now right]].
Qed.

(* ------------------------------------------------------------------ (3) derived induction variables *)
Section Derived.
  Variables (m : mode) (w : world) (fuel : nat).
  Variable ninv : set.
  Variable e0 : env.                       (* the environment at the head of the iteration *)
  Variable Bnd : list name.                (* every binder of the rest of the body *)
  Variable BN : list name.                 (* the names of the basic induction variables *)

  Definition unchanged (e : env) : Prop := forall y, ~ In y Bnd -> lookup y e = lookup y e0.

  Definition dset_ok (s : dset) (e : env) : Prop :=
    forall x d, assoc x s = Some d ->
      In (d_base d) BN /\ eq32 (lookup x e) (dval w e0 d (lookup (d_base d) e0)).

  (* an operand that is outside the non-invariant set is not bound in the body (it comes from the scope in front
     of the loop), so it has the value it had at the head of the iteration *)
  Definition op_stable (a : expr) : Prop := forall v, a = EVar v -> ~ In v ninv -> ~ In v Bnd.
  Definition ops_stable (rest : list stmt) : Prop :=
    forall x op a b, In (SBin x op a b) rest -> op_stable a /\ op_stable b.

  Lemma get_inv_value e a p :
    op_stable a -> unchanged e -> get_inv a ninv = Some p -> eval w e a = pv w e0 p.
  Proof.
    intros Hs Hu. destruct a as [z| | |v]; cbn; try discriminate.
    - intros [= <-]. reflexivity.
    - destruct (memb v ninv) eqn:M; [discriminate|]. intros [= <-]. apply memb_false in M.
      rewrite eval_var, pv_var. f_equal. apply Hu. now apply (Hs v).
  Qed.

  Lemma dget_value s e a d :
    dset_ok s e -> dget a s = Some d ->
    In (d_base d) BN /\ eq32 (eval w e a) (dval w e0 d (lookup (d_base d) e0)).
  Proof.
    unfold dget. destruct a as [| | |y]; cbn; try discriminate. intros Hok Ha.
    destruct (Hok y d Ha) as [Hb Hv]. split; [assumption|]. rewrite eval_var, eq32_wrap. exact Hv.
  Qed.

  Lemma try_merge_noswap_sound s e x op a b s' :
    op_stable b -> unchanged e -> dset_ok s e -> is_plus_or_mul op = true ->
    try_merge_noswap s ninv x op a b = Some s' ->
    exists d, s' = (x, d) :: s /\ In (d_base d) BN /\
              eq32 (if is_plus op then eval w e a + eval w e b else eval w e a * eval w e b)
                   (dval w e0 d (lookup (d_base d) e0)).
  Proof.
    intros Hst Hu Hok Hpm. unfold try_merge_noswap.
    destruct (dget a s) as [ex|] eqn:Ea; [|discriminate].
    destruct (dget_value _ _ _ _ Hok Ea) as [Hbex Hva].
    set (first := match dget b s with Some an => if is_plus op then merge_var_add ex an else None | None => None end).
    destruct first as [merged|] eqn:Ef.
    - intros [= <-]. unfold first in Ef. destruct (dget b s) as [an|] eqn:Eb; [|discriminate].
      destruct (is_plus op) eqn:Ep; [|discriminate].
      destruct (dget_value _ _ _ _ Hok Eb) as [Hban Hvb].
      destruct (merge_var_add_sound w e0 _ _ _ (lookup (d_base ex) e0) Ef) as (Hb1 & Hb2 & Hv).
      exists merged. split; [reflexivity|]. rewrite Hb1. split; [assumption|]. cbv iota.
      rewrite Hva, Hvb, Hb2. now symmetry.
    - clear Ef first. destruct (get_inv b ninv) as [p|] eqn:Eb; [|discriminate]. rewrite Hpm.
      destruct (merge_const_op ex (is_plus op) p) as [merged|] eqn:Em; [|discriminate]. intros [= <-].
      destruct (merge_const_op_sound w e0 _ _ _ _ (lookup (d_base ex) e0) Em) as (Hb1 & Hv).
      exists merged. split; [reflexivity|]. rewrite Hb1. split; [assumption|].
      rewrite (get_inv_value e b p Hst Hu Eb). revert Hv. destruct (is_plus op); intros Hv; cbv iota; rewrite Hva; now symmetry.
  Qed.

  Lemma try_merge_sound s e x op a b v :
    op_stable a -> op_stable b -> unchanged e -> dset_ok s e ->
    rt_binop op (eval w e a) (eval w e b) = Val v ->
    (forall y, In y (map fst s) -> y <> x) -> ~ In x Bnd \/ True ->
    dset_ok (try_merge s ninv x op a b) ((x, v) :: e).
  Proof.
    intros Hsta Hstb Hu Hok Hrt Hkeys _.
    assert (Hkeep : dset_ok s ((x, v) :: e)).
    { intros y d Hy. destruct (Hok y d Hy) as [Hb Hv]. split; [assumption|].
      rewrite lookup_cons_ne; [assumption|]. apply Hkeys. clear - Hy. induction s as [|[k u] r IH]; cbn in *; [discriminate|].
      destruct (N.eqb_spec y k) as [->|]; [now left | right; auto]. }
    assert (Hadd : forall d, In (d_base d) BN -> eq32 v (dval w e0 d (lookup (d_base d) e0)) ->
                             dset_ok ((x, d) :: s) ((x, v) :: e)).
    { intros d Hb Hv y d' Hy. cbn in Hy. destruct (N.eqb_spec y x) as [->|Ne].
      - injection Hy as <-. split; [assumption|]. now rewrite lookup_cons_eq.
      - apply Hkeep. exact Hy. }
    unfold try_merge. destruct (is_plus_or_mul op) eqn:Hpm.
    2:{ assert (E : try_merge_noswap s ninv x op a b = None).
        { unfold try_merge_noswap. destruct (dget a s); [|reflexivity].
          assert (Hp : is_plus op = false) by (destruct op; cbn in *; try reflexivity; discriminate).
          rewrite Hp, Hpm. destruct (dget b s); destruct (get_inv b ninv); reflexivity. }
        rewrite E. exact Hkeep. }
    assert (Hval : forall x1 x2, eq32 v (if is_plus op then x1 + x2 else x1 * x2) ->
                   forall d, eq32 (if is_plus op then x1 + x2 else x1 * x2) (dval w e0 d (lookup (d_base d) e0)) ->
                   eq32 v (dval w e0 d (lookup (d_base d) e0))) by (intros; etransitivity; eauto).
    assert (Hv : eq32 v (if is_plus op then eval w e a + eval w e b else eval w e a * eval w e b)).
    { destruct op; cbn in Hpm; try discriminate; cbn in Hrt; injection Hrt as <-; cbn; apply eq32_wrap. }
    destruct (try_merge_noswap s ninv x op a b) as [s'|] eqn:E1.
    - destruct (try_merge_noswap_sound _ _ _ _ _ _ _ Hstb Hu Hok Hpm E1) as (d & -> & Hb & Hd).
      apply Hadd; [assumption|]. etransitivity; eauto.
    - destruct (try_merge_noswap s ninv x op b a) as [s'|] eqn:E2; [|exact Hkeep].
      destruct (try_merge_noswap_sound _ _ _ _ _ _ _ Hsta Hu Hok Hpm E2) as (d & -> & Hb & Hd).
      apply Hadd; [assumption|]. etransitivity; [exact Hv|]. rewrite <- Hd.
      destruct (is_plus op); [rewrite Z.add_comm | rewrite Z.mul_comm]; reflexivity.
  Qed.

  (* the walk over the top-level statements of the rest of the body *)
  Lemma dset_run_sound rest : forall s e tr e1 t,
    ops_stable rest -> unchanged e -> dset_ok s e ->
    NoDup (binders_l rest) ->
    (forall y, In y (binders_l rest) -> In y Bnd) ->
    (forall y, In y (map fst s) -> ~ In y (binders_l rest)) ->
    exec_block m w fuel rest e tr = RNext e1 t ->
    dset_ok (dset_run s rest ninv) e1 /\ unchanged e1.
  Proof.
    induction rest as [|st r IH]; intros s e tr e1 t Hst Hu Hok Hnd Hsub Hkeys Hex.
    - cbn in Hex. injection Hex as <- <-. auto.
    - rewrite exec_block_cons in Hex. cbn [binders_l] in *.
      assert (Hndr : NoDup (binders_l r)) by (eapply nd_app_r; eauto).
      assert (Hsubr : forall y, In y (binders_l r) -> In y Bnd) by (intros y Hy; apply Hsub, in_or_app; now right).
      destruct (exec m w fuel st e tr) as [e' t'| | | | | |] eqn:Es; try discriminate.
      pose proof (frame_stmt m w fuel st e tr) as Hfr. rewrite Es in Hfr. cbn in Hfr.
      assert (Hu' : unchanged e').
      { intros y Hy. rewrite Hfr; [now apply Hu|]. intros Hb. apply Hy, Hsub, in_or_app. now left. }
      unfold dset_run. cbn [fold_left]. fold (dset_run (match st with SBin x op a b => try_merge s ninv x op a b | _ => s end) r ninv).
      assert (Hstr : ops_stable r) by (intros x0 op0 a0 b0 Hi0; apply (Hst x0 op0 a0 b0); now right).
      assert (Hgen : forall s', (forall y, In y (map fst s') -> In y (map fst s) \/ In y (binders st)) ->
                     dset_ok s' e' -> dset_ok (dset_run s' r ninv) e1 /\ unchanged e1).
      { intros s' Hk' Hok'. eapply IH; eauto. intros y Hy Hb. destruct (Hk' y Hy) as [Hs|Hs].
        - apply (Hkeys y Hs). apply in_or_app. now right.
        - apply (nd_app_disj _ _ y Hnd); auto. }
      assert (Hsame : dset_ok s e').
      { intros y d Hy. destruct (Hok y d Hy) as [Hb Hv]. split; [assumption|]. rewrite Hfr; [assumption|].
        intros Hc. apply (Hkeys y).
        - clear - Hy. induction s as [|[k u] r0 IH0]; cbn in *; [discriminate|].
          destruct (N.eqb_spec y k) as [->|]; [now left | right; auto].
        - apply in_or_app. now left. }
      destruct st as [x op a b| | | | | | | | | |]; try (apply Hgen; [intros y Hy; now left | exact Hsame]).
      rewrite exec_SBin in Es. destruct (chk m op && ovf op _ _); [discriminate|].
      destruct (rt_binop op (eval w e a) (eval w e b)) as [v|] eqn:Hrt; [|discriminate]. injection Es as <- <-.
      apply Hgen.
      + intros y Hy. unfold try_merge in Hy.
        assert (Hns : forall a' b' s', try_merge_noswap s ninv x op a' b' = Some s' -> s' = (x, snd (hd (x, mkdiv x (PInt 0) (PInt 0)) s')) :: s).
        { intros a' b' s' H. unfold try_merge_noswap in H. destruct (dget a' s); [|discriminate].
          destruct (match dget b' s with Some an => if is_plus op then merge_var_add d an else None | None => None end);
            [injection H as <-; reflexivity|].
          destruct (get_inv b' ninv); [|discriminate]. destruct (is_plus_or_mul op); [|discriminate].
          destruct (merge_const_op d (is_plus op) p); [|discriminate]. injection H as <-. reflexivity. }
        destruct (try_merge_noswap s ninv x op a b) as [s1|] eqn:E1.
        * rewrite (Hns _ _ _ E1) in Hy. cbn in Hy. destruct Hy as [<-|Hy]; [right; now left | now left].
        * destruct (is_plus_or_mul op); [|now left].
          destruct (try_merge_noswap s ninv x op b a) as [s2|] eqn:E2; [|now left].
          rewrite (Hns _ _ _ E2) in Hy. cbn in Hy. destruct Hy as [<-|Hy]; [right; now left | now left].
      + destruct (Hst x op a b (or_introl eq_refl)) as [Hsa Hsb]. apply try_merge_sound; auto. intros y Hy ->. apply (Hkeys x Hy). apply in_or_app. left. now left.
  Qed.
End Derived.

(* the initial set: every basic induction variable is 1 * itself + 0 *)
Lemma dset_init_spec bs : forall x d,
  assoc x (dset_init bs) = Some d -> d = mkdiv x (PInt 1) (PInt 0) /\ In x (map gc_name bs).
Proof.
  unfold dset_init. assert (G : forall l s x d, assoc x (fold_left (fun s v => (gc_name v, mkdiv (gc_name v) (PInt 1) (PInt 0)) :: s) l s) = Some d ->
    (d = mkdiv x (PInt 1) (PInt 0) /\ In x (map gc_name l)) \/ assoc x s = Some d).
  { induction l as [|v r IH]; intros s x d H; cbn in *; [now right|].
    destruct (IH _ _ _ H) as [[-> Hi]|Ha]; [left; auto|]. cbn in Ha.
    destruct (N.eqb_spec x (gc_name v)) as [->|]; [injection Ha as <-; left; auto | now right]. }
  intros x d H. destruct (G _ _ _ _ H) as [?|Hc]; [assumption | discriminate].
Qed.
Lemma dset_init_keys bs y : In y (map fst (dset_init bs)) -> In y (map gc_name bs).
Proof.
  unfold dset_init. assert (G : forall l s, In y (map fst (fold_left (fun s v => (gc_name v, mkdiv (gc_name v) (PInt 1) (PInt 0)) :: s) l s)) ->
    In y (map gc_name l) \/ In y (map fst s)).
  { induction l as [|v r IH]; intros s H; cbn in *; [now right|].
    destruct (IH _ H) as [Hi|Hi]; [left; now right|]. cbn in Hi. destruct Hi as [<-|Hi]; [left; now left | now right]. }
  intros H. destruct (G _ _ H) as [?|[]]. assumption.
Qed.

Lemma collect_derived_spec s colls rest d :
  In d (collect_derived s colls rest) ->
  assoc (dn_name d) s = Some (mkdiv (dn_base d) (dn_mult d) (dn_imm d)) /\ In (dn_name d) (defs_l rest) /\
  ~ In (dn_name d) colls.
Proof.
  induction rest as [|st r IH]; cbn; [contradiction|].
  assert (Hr : In d (collect_derived s colls r) ->
               assoc (dn_name d) s = Some (mkdiv (dn_base d) (dn_mult d) (dn_imm d)) /\ In (dn_name d) (defs_l r ++ defs st) /\
               ~ In (dn_name d) colls).
  { intros H. destruct (IH H) as (A & B & C). repeat split; auto. apply in_or_app. now left. }
  destruct st as [x op a b| | | | | | | | | |]; auto.
  destruct (assoc x s) as [dd|] eqn:E; auto. destruct (memb x colls) eqn:M; auto.
  intros [<-|H]; auto. cbn. destruct dd. cbn. repeat split; auto.
  - apply in_or_app. right. now left.
  - now apply memb_false.
Qed.

(* (3) as a theorem about one iteration *)
Theorem derived_sound m w fuel ninv bs rest e0 tr e1 t :
  NoDup (binders_l rest) ->
  (forall b, In b bs -> ~ In (gc_name b) (binders_l rest)) ->
  ops_stable ninv (binders_l rest) rest ->
  exec_block m w fuel rest e0 tr = RNext e1 t ->
  forall d, In d (extract_derived bs rest ninv) ->
    In (dn_base d) (map gc_name bs) /\
    eq32 (lookup (dn_name d) e1)
         (pv w e0 (dn_mult d) * lookup (dn_base d) e0 + pv w e0 (dn_imm d)).
Proof.
  intros Hnd Hb Hinv Hex d Hd. unfold extract_derived in Hd.
  destruct (collect_derived_spec _ _ _ _ Hd) as (Ha & _ & _).
  assert (Hok0 : dset_ok w e0 (map gc_name bs) (dset_init bs) e0).
  { intros x dd Hx. destruct (dset_init_spec _ _ _ Hx) as [-> Hi]. cbn [d_base]. split; [assumption|].
    unfold dval. cbn [d_mult d_imm d_base]. rewrite !pv_int. eq32_ring. }
  destruct (dset_run_sound m w fuel ninv e0 (binders_l rest) (map gc_name bs) rest (dset_init bs) e0 tr e1 t) as [Hok _]; auto.
  - intros y _. reflexivity.
  - intros y Hy. apply dset_init_keys in Hy. apply in_map_iff in Hy. destruct Hy as (b & <- & Hbi). now apply Hb.
  - destruct (Hok _ _ Ha) as [Hb' Hv]. cbn in Hb', Hv. split; assumption.
Qed.
