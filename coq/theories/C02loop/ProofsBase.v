(* C02loop — shared lemmas: arithmetic modulo 2^32 as a setoid, values of invariant expressions, execution of the
   statements the loop pass emits (binary_unwrapped / binary_flexible_unwrapped), the relation between the results
   of the loop before and after a rewrite. *)
From Coq Require Import ZArith NArith List Bool Lia Morphisms Setoid.
Import ListNotations.
From SV Require Import Common.Int32 C02.Kernels C02deep.Syntax C02deep.Sem C02deep.Passes C02deep.ProofsSem
  C02deep.ProofsCcpArith C02deep.ProofsScope C02loop.Analysis C02loop.Algebraic.
Open Scope Z_scope.

(* ------------------------------------------------------------------ congruence modulo 2^32 *)
(* an inductive wrapper, so that `rewrite` treats it as a setoid relation and not as the underlying equation *)
Inductive eq32 (a b : Z) : Prop := eq32_intro : wrap32 a = wrap32 b -> eq32 a b.
Lemma eq32_wrap_eq a b : eq32 a b -> wrap32 a = wrap32 b. Proof. now intros []. Qed.
Lemma eq32_refl a : eq32 a a. Proof. now constructor. Qed.
Lemma eq32_sym a b : eq32 a b -> eq32 b a. Proof. intros []. now constructor. Qed.
Lemma eq32_trans a b c : eq32 a b -> eq32 b c -> eq32 a c. Proof. intros [] []. constructor. congruence. Qed.
#[export] Instance eq32_equiv : Equivalence eq32.
Proof. split; [exact eq32_refl | exact eq32_sym | exact eq32_trans]. Qed.

Lemma eq32_wrap a : eq32 (wrap32 a) a.
Proof. constructor. apply wrap32_idem. Qed.

#[export] Instance eq32_add : Proper (eq32 ==> eq32 ==> eq32) Z.add.
Proof.
  intros a a' [Ha] b b' [Hb]. constructor.
  rewrite <- (wrap32_add_l a b), <- (wrap32_add_r (wrap32 a) b), Ha, Hb, wrap32_add_r, wrap32_add_l. reflexivity.
Qed.
#[export] Instance eq32_mul : Proper (eq32 ==> eq32 ==> eq32) Z.mul.
Proof.
  intros a a' [Ha] b b' [Hb]. constructor.
  rewrite <- (wrap32_mul_l a b), <- (wrap32_mul_r (wrap32 a) b), Ha, Hb, wrap32_mul_r, wrap32_mul_l. reflexivity.
Qed.
#[export] Instance eq32_opp : Proper (eq32 ==> eq32) Z.opp.
Proof.
  intros a a' Ha. replace (- a) with (a * -1) by ring. replace (- a') with (a' * -1) by ring. now rewrite Ha.
Qed.
#[export] Instance eq32_sub : Proper (eq32 ==> eq32 ==> eq32) Z.sub.
Proof. intros a a' Ha b b' Hb. unfold Z.sub. now rewrite Ha, Hb. Qed.

Lemma eq32_in32 a b : in32 a -> in32 b -> eq32 a b -> a = b.
Proof. intros Ha Hb [H]. now rewrite !wrap32_id in H. Qed.
Lemma eq32_eq a b : a = b -> eq32 a b. Proof. intros ->. reflexivity. Qed.

(* strip every wrap32 inside a goal `eq32 _ _` and finish with ring *)
Ltac eq32_ring := repeat rewrite eq32_wrap; apply eq32_eq; ring.

(* ------------------------------------------------------------------ values *)
Definition pv (w : world) (en : env) (p : pli) : Z := eval w en (pli_expr p).

Lemma pv_int w en z : pv w en (PInt z) = wrap32 z. Proof. reflexivity. Qed.
Lemma pv_var w en x : pv w en (PVar x) = wrap32 (lookup x en). Proof. reflexivity. Qed.
Lemma pv_in32 w en p : in32 (pv w en p). Proof. apply eval_in32. Qed.
Lemma eval_var w en x : eval w en (EVar x) = wrap32 (lookup x en). Proof. reflexivity. Qed.
Lemma eval_int w en z : eval w en (EInt z) = wrap32 z. Proof. reflexivity. Qed.

(* ------------------------------------------------------------------ execution of one binary statement *)
Section Exec.
  Variables (w : world) (fuel : nat).

  Lemma exec_SBin m x op a b en tr :
    exec m w fuel (SBin x op a b) en tr =
    if chk m op && ovf op (eval w en a) (eval w en b) then ROvf
    else match rt_binop op (eval w en a) (eval w en b) with
         | Val v => RNext ((x, v) :: en) tr
         | TrapArith => RTrap tr
         end.
  Proof. reflexivity. Qed.

  Lemma exec_bin_unw m x op a b en tr :
    exec m w fuel (bin_unw x op a b) en tr = exec m w fuel (SBin x op a b) en tr.
  Proof.
    unfold bin_unw. destruct (unwrapped op a b) as [[op' a'] b'] eqn:U.
    rewrite !exec_SBin. destruct (unwrapped_sound _ _ _ _ _ _ U w en) as [-> ->].
    now rewrite (unwrapped_chk m _ _ _ _ _ _ U).
  Qed.
  Lemma exec_bin_flex m x op a b en tr :
    exec m w fuel (bin_flex x op a b) en tr = exec m w fuel (SBin x op a b) en tr.
  Proof.
    unfold bin_flex. destruct (flex_unwrapped op a b) as [[op' a'] b'] eqn:U.
    rewrite !exec_SBin. destruct (flex_unwrapped_sound _ _ _ _ _ _ U w en) as [-> ->].
    now rewrite (flex_unwrapped_chk m _ _ _ _ _ _ U).
  Qed.

  Lemma exec_plus_wrap x a b en tr :
    exec Wrap w fuel (SBin x PLUS a b) en tr = RNext ((x, wrap32 (eval w en a + eval w en b)) :: en) tr.
  Proof. reflexivity. Qed.
  Lemma exec_mul_wrap x a b en tr :
    exec Wrap w fuel (SBin x MUL a b) en tr = RNext ((x, wrap32 (eval w en a * eval w en b)) :: en) tr.
  Proof. reflexivity. Qed.

  (* binders of the emitted statements *)
  Lemma binders_bin_unw x op a b : binders (bin_unw x op a b) = [x].
  Proof. unfold bin_unw. now destruct (unwrapped op a b) as [[? ?] ?]. Qed.
  Lemma binders_bin_flex x op a b : binders (bin_flex x op a b) = [x].
  Proof. unfold bin_flex. now destruct (flex_unwrapped op a b) as [[? ?] ?]. Qed.
End Exec.

Lemma exec_block_single m w fuel s en tr :
  exec_block m w fuel [s] en tr = exec m w fuel s en tr.
Proof. rewrite exec_block_cons. destruct (exec m w fuel s en tr); reflexivity. Qed.

(* ------------------------------------------------------------------ lookups *)
Lemma lookup_cons_eq x v en : lookup x ((x, v) :: en) = v.
Proof. cbn. now rewrite N.eqb_refl. Qed.
Lemma lookup_cons_ne x y v en : x <> y -> lookup x ((y, v) :: en) = lookup x en.
Proof. intros H. cbn. destruct (N.eqb_spec x y); [contradiction | reflexivity]. Qed.

(* ------------------------------------------------------------------ results before / after a rewrite
   every result of the original that the property speaks about (normal end, break, trap, abort of a callee) is
   reproduced with the same value and the same call trace, in an environment that agrees on the names T that
   are in scope afterwards; nothing is claimed when the original gets stuck (ill typed), stops on an overflow
   (excluded run) or runs out of fuel *)
Definition res_sim (w : world) (T : list name) (r r' : res) : Prop :=
  match r with
  | RNext e t => exists e', r' = RNext e' t /\ agree w T e e'
  | RBreak v e t => exists e', r' = RBreak v e' t /\ agree w T e e'
  | RTrap t => r' = RTrap t
  | RAbort t => r' = RAbort t
  | RStuck | ROvf | ROof => True
  end.

Lemma agree_refl w T e : agree w T e e. Proof. intros x _. reflexivity. Qed.
Lemma agree_trans w T e1 e2 e3 : agree w T e1 e2 -> agree w T e2 e3 -> agree w T e1 e3.
Proof. intros H1 H2 x Hx. rewrite (H1 x Hx). auto. Qed.
Lemma res_sim_refl w T r : res_sim w T r r.
Proof. destruct r; cbn; eauto using agree_refl. Qed.

(* ------------------------------------------------------------------ NoDup of concatenations *)
Lemma nd_app_l {A} (a b : list A) : NoDup (a ++ b) -> NoDup a.
Proof. induction a; cbn; intros H; [constructor|]. inversion H; subst. constructor; auto. rewrite in_app_iff in *. tauto. Qed.
Lemma nd_app_r {A} (a b : list A) : NoDup (a ++ b) -> NoDup b.
Proof. induction a; cbn; intros H; auto. inversion H; auto. Qed.
Lemma nd_app_disj {A} (a b : list A) x : NoDup (a ++ b) -> In x a -> In x b -> False.
Proof.
  induction a; cbn; intros H Ha Hb; [contradiction|]. inversion H; subst. destruct Ha as [->|Ha]; [|eauto].
  rewrite in_app_iff in *. tauto.
Qed.
Lemma nd_app_intro {A} (a b : list A) : NoDup a -> NoDup b -> (forall x, In x a -> In x b -> False) -> NoDup (a ++ b).
Proof.
  induction a; cbn; intros Ha Hb Hd; auto. inversion Ha; subst. constructor.
  - rewrite in_app_iff. intros [H|H]; [contradiction | eapply Hd; eauto].
  - apply IHa; eauto.
Qed.
