(* C02loop — bridge: what Analysis.extract returns satisfies the hypotheses of the stage theorems *)
From Coq Require Import ZArith NArith List Bool Lia Morphisms Setoid.
Import ListNotations.
From SV Require Import Common.Int32 C02.Kernels C02.Proofs C02deep.Syntax C02deep.Sem C02deep.Passes C02deep.ProofsSem
  C02deep.ProofsScope C02deep.ProofsDceSets C02deep.ProofsDce
  C02loop.Analysis C02loop.Algebraic C02loop.StrengthIv C02loop.Driver
  C02loop.ProofsBase C02loop.ProofsAnalysis C02loop.ProofsExpand C02loop.ProofsAlgebraic C02loop.ProofsXloop
  C02loop.ProofsScopeX C02loop.ProofsInv C02loop.ProofsExtract C02loop.ProofsExtract2 C02loop.ProofsXstep C02loop.ProofsIve C02loop.ProofsSr
  C02loop.ProofsDefs C02loop.ProofsSrG.
Open Scope Z_scope.

Theorem extract_bridge (w : world) S lvs ss bc ninv o coll cc :
  extract lvs ss bc ninv = XOk o ->
  scoped S (SWhile lvs ss bc) = true ->
  NoDup (binders (SWhile lvs ss bc)) ->
  (forall x, In x (binders (SWhile lvs ss bc)) -> ~ In x S) ->
  (forall x, In x (map t_name lvs ++ defs_l ss) -> In x ninv) ->
  plain_break ss ->
  (forall y, In y [coll; cc] -> ~ In y S /\ ~ In y (binders (SWhile lvs ss bc))) ->
  owl_wf S o /\ (bases_kept o -> owl_reads_s S o) /\ NoDup (binders_l (o_stmts o)) /\
  (forall d st, In d (o_derived o) -> In st (o_stmts o) -> In (dn_name d) (binders st) ->
                exists op a b, st = SBin (dn_name d) op a b) /\
  (forall x, In x (o_LN o ++ o_DN o ++ binders_l (o_stmts o)) -> In x (binders (SWhile lvs ss bc))) /\
  bc_of o = bc.
Proof.
  intros Hext Hsc Hnd Hfr Hcov Hpb Hfout.
  destruct (extract_inv _ _ _ _ _ Hext) as (g & others & all_basic & gb & Hg & Hused & Hbasic & Hfind & ->).
  destruct (extract_guard_shape _ _ _ _ Hg) as (cc0 & op & ge & inv & sis & rest & -> & Hgop & Hginv & Hlen & Hnb & Hbc).
  assert (Hsis : exists e0, sis = [SBreak e0]).
  { cbn in Hpb. destruct sis as [|[| | | | | |e0| | | |] [|]]; try contradiction. eauto. }
  destruct Hsis as [e0 ->]. cbn [skipn] in *.
  assert (Hbc' : lg_bc g = match bc with Some b => Some (b, e0) | None => None end).
  { destruct bc as [b|]; [|exact Hbc]. destruct Hbc as (e & [= <-] & E). exact E. }
  rewrite binders_SWhile in Hnd, Hfr, Hfout.
  change (binders_l (SBin cc0 op (EVar (lg_var g)) ge :: SSIf (EVar cc0) inv [SBreak e0] :: rest)) with (cc0 :: binders_l rest) in Hnd, Hfr, Hfout.
  assert (Hrest : scoped_l (cc0 :: map t_name lvs ++ S) rest = true /\ in_scope (map t_name lvs ++ S) ge = true).
  { rewrite scoped_SWhile in Hsc. apply andb_prop in Hsc. destruct Hsc as [Hsc _]. apply andb_prop in Hsc. destruct Hsc as [_ Hss].
    cbn [scoped_l scoped defs app] in Hss. apply andb_prop in Hss. destruct Hss as [Hc Hss]. apply andb_prop in Hc.
    destruct Hc as [_ Hcg]. apply andb_prop in Hss. destruct Hss as [_ Hr]. split; assumption. }
  destruct Hrest as [Hrest Hge].
  assert (Hcov' : forall x, In x (map t_name lvs) \/ x = cc0 \/ In x (defs_l rest) -> In x ninv).
  { intros x Hx. apply Hcov. rewrite in_app_iff. cbn [defs_l defs app]. rewrite !in_app_iff. cbn.
    destruct Hx as [H|[->|H]]; auto. }
  assert (HinS : forall v, In v (defs_l rest ++ cc0 :: map t_name lvs ++ S) -> ~ In v ninv -> In v S).
  { intros v Hv Hn. rewrite in_app_iff in Hv. cbn in Hv. rewrite in_app_iff in Hv.
    destruct Hv as [H|[H|[H|H]]]; auto; exfalso; apply Hn, Hcov'; auto. }
  assert (HSnb : forall v, In v S -> ~ In v (binders_l rest)).
  { intros v Hv Hb. apply (Hfr v); auto. apply in_or_app. right. apply in_or_app. left. now right. }
  assert (Hprov : forall v, prov ninv rest v -> In v S).
  { intros v (Hn & x & op0 & a & b & Hi & Hab). destruct (scoped_l_member rest _ _ _ _ _ Hrest Hi) as [Ha Hb].
    apply HinS; auto. destruct Hab as [->| ->]; now apply in_scope_var. }
  set (o := owl_of g all_basic others gb rest ninv).
  assert (HinvS : forall v,
    lg_guard g = PVar v \/ (exists b, In b all_basic /\ gc_inc b = PVar v) \/
    (exists d, In d (o_derived o) /\ (dn_mult d = PVar v \/ dn_imm d = PVar v)) -> In v S).
  { intros v [Hv|[(b & Hb & Hv)|(d & Hd & Hv)]].
    + destruct ge as [| | |x]; cbn in Hginv; try discriminate; [rewrite Hv in Hginv; discriminate|].
      destruct (memb x ninv) eqn:M; [discriminate|]. rewrite Hv in Hginv. injection Hginv as ->.
      apply memb_false in M. apply in_scope_var in Hge. apply in_app_iff in Hge. destruct Hge as [H|H]; auto.
      exfalso. apply M, Hcov'. auto.
    + destruct (extract_basic_loop_sound _ _ _ _ _ Hbasic) as (H1 & _). destruct (H1 b Hb) as (_ & e2 & Hi & Hgi).
      rewrite Hv in Hgi. destruct (get_inv_pvar _ _ _ Hgi) as [-> Hn]. apply Hprov. split; auto. eauto 8.
    + apply Hprov. exact (extract_derived_prov ninv rest all_basic d v Hd Hv). }
  assert (Hfout' : forall y, In y (coll :: cc :: [] ++ []) ->
            ~ In y S /\ ~ In y (map t_name lvs ++ (cc0 :: binders_l rest) ++ opt_names bc)) by exact Hfout.
  pose proof (bridge_names w S lvs bc ninv cc0 op ge inv e0 rest g others all_basic gb coll cc [] [] Hsc Hnd Hfr Hbc' Hused Hbasic Hfind Hfout')
    as (N1 & N2 & N3 & N4 & N5 & N6).
  pose proof (bridge_reads S lvs bc ninv cc0 op ge inv e0 rest g others all_basic gb coll cc [] [] Hsc Hnd Hfr Hbc' Hused Hbasic Hfind Hfout')
    as (R1 & R2 & R3 & R4).
  fold o in N1, N2, N3, N4, N5, N6, R1, R2, R3, R4.
  assert (Ei : o_i o = lg_var g).
  { unfold o_i. cbn [o owl_of o_basic bg_name]. pose proof (find_some _ _ Hfind) as [_ E]. now apply N.eqb_eq in E. }
  assert (HLN : forall x, In x (o_LN o) -> In x (map t_name lvs)).
  { intros x Hx. apply N2. unfold o_LN, o_GN, o_ON in Hx. rewrite Ei in Hx. exact Hx. }
  assert (Hin : forall x, In x (o_LN o ++ o_DN o ++ binders_l (o_stmts o)) ->
                In x (map t_name lvs ++ (cc0 :: binders_l rest) ++ opt_names bc)).
  { intros x Hx. apply in_app_iff in Hx. destruct Hx as [Hx|Hx]; [apply in_or_app; left; now apply HLN|].
    apply in_or_app. right. apply in_or_app. left. right. now apply N4. }
  split; [|split; [|split; [exact N5|split; [|split]]]].
  - split; [|split; [|split; [|split; [|split]]]].
    + unfold o_LN, o_GN, o_ON. rewrite Ei. exact N1.
    + exact N3.
    + intros x Hx Hs. apply (Hfr x); auto.
    + intros x Hx Hl. apply HLN in Hl. apply N4 in Hx. apply (nd_app_disj _ _ x Hnd); auto. apply in_or_app. left. now right.
    + intros v Hv. apply HinvS. destruct Hv as [Hv|[Hv|[(gv & Hgv & Hv)|Hv]]]; auto.
      * right. left. exists gb. split; [apply (find_some _ _ Hfind) | exact Hv].
      * right. left. cbn [o owl_of o_general] in Hgv. apply in_map_iff in Hgv. destruct Hgv as (b & <- & Hb).
        apply filter_In in Hb. exists b. split; [tauto | exact Hv].
    + intros d Hd. unfold o_GN. rewrite Ei. now apply N6.
  - intros Hbk. unfold owl_reads_s, kept_all, kept_names. rewrite Ei.
    change (o_others o) with others. split; [exact R1|]. split; [exact R2|]. split; [exact R3|]. split; [|exact R4].
    intros d Hd. specialize (Hbk d Hd). rewrite <- Ei. exact Hbk.
  - intros d st Hd Hst Hb.
    exact (bridge_defs lvs bc ninv cc0 rest g others all_basic gb Hnd d st Hd Hst Hb).
  - rewrite binders_SWhile. exact Hin.
  - unfold bc_of. cbn [o owl_of o_bc]. rewrite Hbc'. destruct bc; reflexivity.
Qed.
