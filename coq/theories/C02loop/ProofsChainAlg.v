(* C02loop — composition for one loop: extraction, closed form *)
From Coq Require Import ZArith NArith List Bool Lia Morphisms Setoid Permutation.
Import ListNotations.
From SV Require Import Common.Int32 C02.Kernels C02.Proofs C02deep.Syntax C02deep.Sem C02deep.Passes C02deep.ProofsSem
  C02deep.ProofsScope C02deep.ProofsDceSets C02deep.ProofsDce
  C02loop.Analysis C02loop.Algebraic C02loop.StrengthIv C02loop.Driver
  C02loop.ProofsBase C02loop.ProofsAnalysis C02loop.ProofsExpand C02loop.ProofsAlgebraic C02loop.ProofsXloop
  C02loop.ProofsScopeX C02loop.ProofsInv C02loop.ProofsExtract C02loop.ProofsExtract2 C02loop.ProofsXstep C02loop.ProofsIve C02loop.ProofsSr
  C02loop.ProofsDefs C02loop.ProofsSrG C02loop.ProofsSupply.
From SV Require Import C02loop.ProofsBridge C02loop.ProofsChainSr.
Open Scope Z_scope.

Lemma alg_shape o sup stmts sup' : alg o sup = Some (stmts, sup') ->
  o_others o = [] /\ o_derived o = [] /\ o_stmts o = [] /\ (sup' = sup \/ sup' = snd (alloc sup)).
Proof.
  unfold alg. destruct (bg_init (o_basic o)) as [i0| | |]; try discriminate.
  destruct (bg_inc (o_basic o)) as [inc|]; try discriminate. destruct (bg_guard (o_basic o)) as [g|]; try discriminate.
  destruct (o_others o); cbn; [|discriminate]. destruct (o_derived o); cbn; [|discriminate]. destruct (o_stmts o); cbn; [|discriminate].
  destruct (trip _ _ _ _); [|discriminate]. intros H.
  assert (G : sup' = sup \/ sup' = snd (alloc sup)); [|auto].
  destruct (o_bc o) as [[n e]|]; [|injection H as _ <-; auto].
  destruct e as [| | |v]; try (injection H as _ <-; auto).
  destruct (N.eqb v _); [destruct (in32b _); [injection H as _ <-; auto | discriminate]|].
  destruct (find _ _); [|injection H as _ <-; auto].
  destruct (alloc sup) as [tmp s1]. injection H as _ <-. auto.
Qed.

Theorem chain_alg w fuel S lvs ss bc ninv o sup stmts sup' en tr e1 t :
  extract lvs ss bc ninv = XOk o ->
  scoped S (SWhile lvs ss bc) = true ->
  NoDup (binders (SWhile lvs ss bc)) ->
  (forall x, In x (binders (SWhile lvs ss bc)) -> ~ In x S) ->
  (forall x, In x (map t_name lvs ++ defs_l ss) -> In x ninv) ->
  plain_break ss ->
  alg o sup = Some (stmts, sup') -> alg_lits o -> alg_exit_in32 o ->
  sup' <> [] -> (forall y, In y sup -> ~ In y S /\ ~ In y (binders (SWhile lvs ss bc))) ->
  exec Wrap w fuel (SWhile lvs ss bc) en tr = RNext e1 t ->
  exists e2, exec_block Wrap w fuel stmts en tr = RNext e2 t /\ agree w (opt_names bc ++ S) e1 e2.
Proof.
  intros Hext Hsc Hnd Hfr Hcov Hpb Halg Hlits Hexit Hne Hsfr Hex.
  destruct (alg_shape _ _ _ _ Halg) as (Eo & Ed & Es & Hsup).
  assert (Hbk : bases_kept o) by (intros d Hd; rewrite Ed in Hd; contradiction).
  assert (Hsupne : sup <> []) by (intros ->; destruct Hsup as [->| ->]; apply Hne; reflexivity).
  set (tmp := fst (alloc sup)).
  assert (Htmp : In tmp sup) by (unfold tmp; destruct sup; [congruence | now left]).
  destruct (fresh_names (tmp :: S ++ binders (SWhile lvs ss bc)) (length (kept_generals o)) 0)
    as (collA & ccA & nsA & tsA & LnA & LtA & NdA & FrA).
  destruct tsA; [|discriminate]. rewrite app_nil_r in NdA, FrA.
  assert (FrA' : forall y, In y (collA :: ccA :: nsA) -> ~ In y S /\ ~ In y (binders (SWhile lvs ss bc)) /\ y <> tmp).
  { intros y Hy. specialize (FrA y Hy). cbn [In] in FrA. rewrite in_app_iff in FrA. repeat split; try tauto. intros ->. tauto. }
  assert (FrA2 : forall y, In y [collA; ccA] -> ~ In y S /\ ~ In y (binders (SWhile lvs ss bc))).
  { intros y Hy. destruct (FrA' y) as (A & B & _); [destruct Hy as [<-|[<-|[]]]; [now left | right; now left]|]. auto. }
  destruct (extract_bridge w S lvs ss bc ninv o collA ccA Hext Hsc Hnd Hfr Hcov Hpb FrA2) as (Hwf & Hreads & _ & _ & Hnames & Ebc).
  specialize (Hreads Hbk). destruct Hwf as (W1 & _ & W3 & _ & W5 & _). destruct Hreads as (_ & _ & R3 & _ & R4).
  assert (HLNb : forall x, In x (o_LN o) -> In x (binders (SWhile lvs ss bc))) by (intros x Hx; apply Hnames, in_or_app; now left).
  assert (Hkg : forall x, In x (map gi_name (kept_generals o)) -> In x (o_GN o)).
  { intros x Hx. apply in_map_iff in Hx. destruct Hx as (v & <- & Hv). unfold kept_generals in Hv. apply filter_In in Hv. apply in_map. tauto. }
  assert (Hbound : forall x, In x (bg_name (o_basic o) :: map gi_name (kept_generals o)) -> In x (o_LN o)).
  { intros x [<-|Hx]; [now left|]. right. apply in_or_app. left. now apply Hkg. }
  pose proof (extract_expand_sound w fuel S lvs ss bc ninv o collA ccA nsA [] en tr Hext Hsc Hnd Hfr Hcov Hpb Hbk) as H1.
  rewrite app_nil_r in H1. specialize (H1 NdA (fun y Hy => let '(conj A (conj B _)) := FrA' y Hy in conj A B) LnA).
  rewrite Ed in H1. specialize (H1 eq_refl). rewrite Hex in H1. destruct H1 as (eA & EA & AgA).
  assert (Hnames_alg : alg_names o collA ccA nsA tmp).
  { split; [exact LnA|]. split; [|split; [|split; [|split]]].
    - unfold o_LN in W1. inversion W1 as [|? ? Wi Wr]; subst. apply nd_app_l in Wr.
      change (bg_name (o_basic o) :: map gi_name (kept_generals o) ++ collA :: ccA :: nsA)
        with ((bg_name (o_basic o) :: map gi_name (kept_generals o)) ++ collA :: ccA :: nsA).
      apply nd_app_intro; [|exact NdA|].
      + constructor.
        * intros Hc. apply Wi. apply in_or_app. left. now apply Hkg.
        * unfold kept_generals. apply NoDup_map_filter. exact Wr.
      + intros x Hx Hy. destruct (FrA' x Hy) as (_ & B & _). apply B, HLNb, Hbound, Hx.
    - unfold o_LN in W1. inversion W1 as [|? ? Wi Wr]; subst. eapply nd_app_l; eauto.
    - intros v x Hv Hinc Hc.
      assert (HxS : In x S).
      { apply W5. right. right. left. exists v. split; [|exact Hinc]. unfold kept_generals in Hv. apply filter_In in Hv. tauto. }
      change (bg_name (o_basic o) :: map gi_name (kept_generals o) ++ collA :: ccA :: nsA)
        with ((bg_name (o_basic o) :: map gi_name (kept_generals o)) ++ collA :: ccA :: nsA) in Hc.
      apply in_app_iff in Hc. destruct Hc as [Hc|Hc].
      + apply (W3 x); auto. apply in_or_app. left. now apply Hbound.
      + destruct (FrA' x Hc) as (A & _). contradiction.
    - intros x Ex. rewrite Ex in R3. apply in_scope_var in R3.
      assert (Hx : ~ In x (collA :: ccA :: nsA)).
      { intros Hc. destruct (FrA' x Hc) as (A & B & _). apply in_app_iff in R3. destruct R3 as [R3|R3]; [|contradiction].
        apply B, HLNb. unfold kept_all, kept_names in R3. destruct R3 as [<-|R3]; [now left|]. right.
        apply in_app_iff in R3. apply in_or_app. destruct R3 as [R3|R3].
        - right. apply in_map_iff in R3. destruct R3 as (k & <- & Hk). apply filter_In in Hk. apply in_map. tauto.
        - left. now apply Hkg. }
      repeat split; [intros ->; apply Hx; now left | intros ->; apply Hx; right; now left | intros H; apply Hx; right; now right].
    - intros v Hv Ei. destruct (Hsfr tmp Htmp) as [A _]. apply A. apply R4. right. left. eauto. }
  destruct (alg_sound w fuel fuel o sup stmts sup' collA ccA nsA en tr eA t Halg Hlits Hexit Hnames_alg EA) as (e2 & E2 & Hc & Ho).
  exists e2. split; [exact E2|]. eapply agree_trans; [exact AgA|].
  intros x Hx. rewrite !eval_var. apply in_app_iff in Hx. destruct Hx as [Hx|Hx].
  - apply Hc. rewrite Ebc. destruct bc as [b|]; [|contradiction]. destruct Hx as [<-|[]]. reflexivity.
  - f_equal. apply Ho.
    + change (bg_name (o_basic o) :: map gi_name (kept_generals o) ++ collA :: ccA :: nsA)
        with ((bg_name (o_basic o) :: map gi_name (kept_generals o)) ++ collA :: ccA :: nsA).
      rewrite in_app_iff. intros [Hc1|Hc1].
      * apply (W3 x); auto. apply in_or_app. left. now apply Hbound.
      * destruct (FrA' x Hc1) as (A & _). contradiction.
    + rewrite Ebc. intros Hc1. apply (Hfr x); auto. rewrite binders_SWhile. apply in_or_app. right. apply in_or_app. now right.
    + intros ->. destruct (Hsfr tmp Htmp) as (A & _). contradiction.
Qed.
