(* C02loop — composition for one loop: extraction, strength reduction, re-expansion *)
From Coq Require Import ZArith NArith List Bool Lia Morphisms Setoid Permutation.
Import ListNotations.
From SV Require Import Common.Int32 C02.Kernels C02.Proofs C02deep.Syntax C02deep.Sem C02deep.Passes C02deep.ProofsSem
  C02deep.ProofsScope C02deep.ProofsDceSets C02deep.ProofsDce
  C02loop.Analysis C02loop.Algebraic C02loop.StrengthIv C02loop.Driver
  C02loop.ProofsBase C02loop.ProofsAnalysis C02loop.ProofsExpand C02loop.ProofsAlgebraic C02loop.ProofsXloop
  C02loop.ProofsScopeX C02loop.ProofsInv C02loop.ProofsExtract C02loop.ProofsExtract2 C02loop.ProofsXstep C02loop.ProofsIve C02loop.ProofsSr
  C02loop.ProofsDefs C02loop.ProofsSrG C02loop.ProofsSupply.
From SV Require Import C02loop.ProofsBridge.
Open Scope Z_scope.

(* ------------------------------------------------------------------ names outside a finite set exist *)
Definition nmax (l : list name) : N := fold_right N.max 0%N l.
Lemma nmax_ge l x : In x l -> (x <= nmax l)%N.
Proof. induction l as [|y r IH]; cbn [nmax fold_right In]; [contradiction|]. intros [->|H]; [apply N.le_max_l | specialize (IH H); fold (nmax r); etransitivity; [exact IH | apply N.le_max_r]]. Qed.
Definition fresh_list (avoid : list name) (n : nat) : list name :=
  map (fun k => (nmax avoid + 1 + N.of_nat k)%N) (seq 0 n).
Lemma fresh_list_spec avoid n :
  length (fresh_list avoid n) = n /\ NoDup (fresh_list avoid n) /\ forall y, In y (fresh_list avoid n) -> ~ In y avoid.
Proof.
  unfold fresh_list. split; [now rewrite map_length, seq_length|]. split.
  - apply FinFun.Injective_map_NoDup; [|apply seq_NoDup]. intros a b H. lia.
  - intros y Hy Ha. apply in_map_iff in Hy. destruct Hy as (k & <- & _). apply nmax_ge in Ha. lia.
Qed.
Lemma fresh_names (avoid : list name) (n m : nat) :
  exists (coll cc : name) (ns ts : list name), length ns = n /\ length ts = m /\ NoDup (coll :: cc :: ns ++ ts) /\
    forall y, In y (coll :: cc :: ns ++ ts) -> ~ In y avoid.
Proof.
  destruct (fresh_list_spec avoid (2 + n + m)) as (L & Nd & Ho).
  remember (fresh_list avoid (2 + n + m)) as l. destruct l as [|coll [|cc r]]; try discriminate.
  cbn in L. exists coll, cc, (firstn n r), (skipn n r).
  assert (Lr : length r = (n + m)%nat) by lia.
  split; [rewrite firstn_length; lia|]. split; [rewrite skipn_length; lia|].
  rewrite firstn_skipn. auto.
Qed.

Lemma expand_nil o : snd (expand o []) = [].
Proof.
  unfold expand. cbn [alloc]. destruct (alloc_each _ []) as [gcs s2] eqn:E2.
  pose proof (alloc_each_nil (filter (fun v => memb (gi_name v) (useful_set o match o_bc o with Some (_, e) => e | None => EInt 0 end)) (o_general o))) as H2.
  rewrite E2 in H2. cbn in H2. subst s2. cbn [alloc].
  destruct (expand_derived (o_derived o) []) as [dstmts s4] eqn:E4. pose proof (expand_derived_nil (o_derived o)) as H4.
  rewrite E4 in H4. exact H4.
Qed.

Lemma agree_trans w T e1 e2 e3 : agree w T e1 e2 -> agree w T e2 e3 -> agree w T e1 e3.
Proof. intros A B x Hx. now rewrite (A x Hx), (B x Hx). Qed.

(* ------------------------------------------------------------------ the chain for a loop on which strength
   reduction and re-expansion run (no closed form, no induction-variable elimination) *)
Theorem chain_sr w fuel S lvs ss bc ninv o sup pre2 o2 sup2 en tr :
  extract lvs ss bc ninv = XOk o ->
  scoped S (SWhile lvs ss bc) = true ->
  NoDup (binders (SWhile lvs ss bc)) ->
  (forall x, In x (binders (SWhile lvs ss bc)) -> ~ In x S) ->
  (forall x, In x (map t_name lvs ++ defs_l ss) -> In x ninv) ->
  plain_break ss -> bases_kept o ->
  sr o sup = Some (pre2, o2, sup2) ->
  let o3 := mkowl (o_basic o2) (o_general o2) (o_others o2) (o_derived o2)
                  (filter (fun s => negb (is_handled (map gi_name (o_general o2)) s)) (o_stmts o2)) (o_bc o2) in
  bases_kept o3 ->
  snd (expand o3 sup2) <> [] ->
  NoDup sup -> (forall y, In y sup -> ~ In y S /\ ~ In y (binders (SWhile lvs ss bc))) ->
  match exec Wrap w fuel (SWhile lvs ss bc) en tr with
  | RNext e1 t => exists e1', exec_block Wrap w fuel (pre2 ++ [fst (expand o3 sup2)]) en tr = RNext e1' t /\
                              agree w (opt_names bc ++ S) e1 e1'
  | RBreak _ _ _ | RStuck | ROvf => True
  | r => exec_block Wrap w fuel (pre2 ++ [fst (expand o3 sup2)]) en tr = r
  end.
Proof.
  intros Hext Hsc Hnd Hfr Hcov Hpb Hbk Hsr o3 Hbk3 Hne Hsnd Hsfr.
  assert (Hne2 : sup2 <> []) by (intros ->; apply Hne; apply expand_nil).
  destruct (sr_inv_sup _ _ _ _ _ Hsr Hne2) as (srs & rem & Hrel & -> & -> & Esup).
  assert (Eo3 : o3 = sr_owl o srs rem) by reflexivity.
  clearbody o3. subst o3.
  destruct (expand_xloop_sup (sr_owl o srs rem) sup2 Hne) as (collB & ccB & nsB & tsB & EB & LnB & LtB & Esup2).
  set (PT := flat_map (fun s => [sd_t1 s; sd_t2 s]) srs) in *.
  (* virtual temporaries for the intermediate loop *)
  destruct (fresh_names (S ++ binders (SWhile lvs ss bc)) (length (kept_generals o)) (length (o_derived o)))
    as (collA & ccA & nsA & tsA & LnA & LtA & NdA & FrA).
  assert (FrA' : forall y, In y (collA :: ccA :: nsA ++ tsA) -> ~ In y S /\ ~ In y (binders (SWhile lvs ss bc))).
  { intros y Hy. specialize (FrA y Hy). rewrite in_app_iff in FrA. tauto. }
  assert (FrA2 : forall y, In y [collA; ccA] -> ~ In y S /\ ~ In y (binders (SWhile lvs ss bc))).
  { intros y Hy. apply FrA'. destruct Hy as [<-|[<-|[]]]; [now left | right; now left]. }
  destruct (extract_bridge w S lvs ss bc ninv o collA ccA Hext Hsc Hnd Hfr Hcov Hpb FrA2) as (Hwf & Hreads & HndS & Hdefs & Hnames & Ebc).
  (* freshness in terms of the analysis result *)
  assert (Hfresh : forall names, NoDup names -> (forall y, In y names -> ~ In y S /\ ~ In y (binders (SWhile lvs ss bc))) ->
                   fresh_for S o names).
  { intros names Hn Ho. split; [exact Hn|]. intros y Hy. destruct (Ho y Hy) as [A B]. split; [exact A|]. intros Hc. apply B. now apply Hnames. }
  rewrite Esup in Hsnd, Hsfr. rewrite Esup2 in Hsnd, Hsfr.
  assert (HfP : fresh_for S o PT).
  { apply Hfresh; [eapply nd_app_l; eauto|]. intros y Hy. apply Hsfr. apply in_or_app. now left. }
  assert (PermB : Permutation (collB :: nsB ++ ccB :: tsB) (collB :: ccB :: nsB ++ tsB)).
  { constructor. symmetry. apply Permutation_middle. }
  assert (EB2 : collB :: nsB ++ ccB :: tsB ++ snd (expand (sr_owl o srs rem) sup2)
                = (collB :: nsB ++ ccB :: tsB) ++ snd (expand (sr_owl o srs rem) sup2)).
  { cbn [app]. f_equal. rewrite <- app_assoc. reflexivity. }
  rewrite EB2 in Hsnd, Hsfr.
  assert (HfB : fresh_for (PT ++ S) o (collB :: ccB :: nsB ++ tsB)).
  { assert (HndB0 : NoDup (collB :: nsB ++ ccB :: tsB)) by (apply nd_app_r in Hsnd; eapply nd_app_l; eauto).
    assert (HinB : forall y, In y (collB :: ccB :: nsB ++ tsB) -> In y ((collB :: nsB ++ ccB :: tsB) ++ snd (expand (sr_owl o srs rem) sup2))).
    { intros y Hy. apply (Permutation_in _ (Permutation_sym PermB)) in Hy. apply in_or_app. now left. }
    split; [eapply Permutation_NoDup; eauto|]. intros y Hy. specialize (HinB y Hy).
    destruct (Hsfr y (in_or_app _ _ _ (or_intror HinB))) as [A B]. split.
    - rewrite in_app_iff. intros [Hc|Hc]; [|contradiction]. apply (nd_app_disj _ _ y Hsnd); auto.
    - intros Hc. apply B. now apply Hnames. }
  assert (HfA : fresh_for S o (collA :: ccA :: nsA ++ tsA)) by (apply Hfresh; auto).
  (* no reduced name is bound after the filter *)
  assert (Hnb : forall s, In s srs -> ~ In (dn_name (sd_d s)) (binders_l (o_stmts (sr_owl o srs rem)))).
  { intros s Hs Hc. apply in_binders_l' in Hc. destruct Hc as (st & Hst & Hb).
    unfold sr_owl in Hst. cbn [o_stmts o_general] in Hst. apply filter_In in Hst. destruct Hst as [Hst Hh].
    destruct (sr_rel_ss _ _ _ _ Hrel s Hs) as (Hd & _).
    destruct (Hdefs (sd_d s) st Hd Hst Hb) as (op & a & b & ->). cbn [is_handled] in Hh.
    apply negb_true_iff in Hh. apply memb_false in Hh. apply Hh. rewrite map_app, map_map. apply in_or_app. right.
    apply in_map_iff. exists s. split; [reflexivity | exact Hs]. }
  assert (Hdef : reduced_defs_affine w fuel o srs).
  { apply (extract_defs_affine w fuel S lvs ss bc ninv o srs Hext Hsc Hnd Hfr Hcov). intros s Hs. apply (sr_rel_ss _ _ _ _ Hrel s Hs). }
  pose proof (extract_expand_sound w fuel S lvs ss bc ninv o collA ccA nsA tsA en tr Hext Hsc Hnd Hfr Hcov Hpb Hbk NdA FrA' LnA LtA) as H1.
  pose proof (sr_sound_g w fuel S o srs rem collA ccA nsA tsA collB ccB nsB tsB en tr Hrel Hwf (Hreads Hbk) Hnb Hbk3 Hdef HfA HfB HfP
                (conj LnA LtA) (conj LnB LtB)) as H2.
  cbv zeta in H2. rewrite <- EB in H2. rewrite Ebc in H2.
  destruct (exec Wrap w fuel (SWhile lvs ss bc) en tr) as [e1 t|v e1 t|t|t| | |]; auto.
  - destruct H1 as (eA & EA & AgA). rewrite EA in H2. destruct H2 as (e1' & E2 & Ag2). exists e1'. split; [exact E2|].
    eapply agree_trans; eauto.
  - now rewrite H1 in H2.
  - now rewrite H1 in H2.
  - now rewrite H1 in H2.
Qed.
