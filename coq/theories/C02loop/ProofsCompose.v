(* C02loop — the loop pass on a function: the stage theorems composed through optimize_stmt / optimize_stmts *)
From Coq Require Import ZArith NArith List Bool Lia Morphisms Setoid Permutation.
Import ListNotations.
From SV Require Import Common.Int32 C02.Kernels C02.Proofs C02deep.Syntax C02deep.Sem C02deep.Passes C02deep.ProofsSem
  C02deep.ProofsScope C02deep.ProofsDceSets C02deep.ProofsDce C02deep.ProofsCcpRel C02deep.ProofsCseStatic
  C02loop.Analysis C02loop.Licm C02loop.Algebraic C02loop.StrengthIv C02loop.Driver
  C02loop.ProofsBase C02loop.ProofsLicm C02loop.ProofsAnalysis C02loop.ProofsExpand C02loop.ProofsAlgebraic C02loop.ProofsXloop
  C02loop.ProofsScopeX C02loop.ProofsInv C02loop.ProofsExtract C02loop.ProofsExtract2 C02loop.ProofsXstep C02loop.ProofsIve C02loop.ProofsSr
  C02loop.ProofsDefs C02loop.ProofsSrG C02loop.ProofsSupply C02loop.ProofsLicmWf.
From SV Require Import C02loop.ProofsBridge C02loop.ProofsChainSr C02loop.ProofsChainAlg C02loop.ProofsLoopWhile.
Open Scope Z_scope.

(* ------------------------------------------------------------------ the supply only loses a prefix *)
Definition suffix (a b : list name) : Prop := exists u, b = u ++ a.
Lemma suffix_refl a : suffix a a. Proof. exists []. reflexivity. Qed.
Lemma suffix_trans a b c : suffix a b -> suffix b c -> suffix a c.
Proof. intros [u ->] [v ->]. exists (v ++ u). now rewrite app_assoc. Qed.
Lemma suffix_in a b x : suffix a b -> In x a -> In x b.
Proof. intros [u ->] H. apply in_or_app. now right. Qed.
Lemma suffix_nodup a b : suffix a b -> NoDup b -> NoDup a.
Proof. intros [u ->] H. eapply nd_app_r; eauto. Qed.
Lemma suffix_nil a : suffix a [] -> a = [].
Proof. intros [u H]. symmetry in H. apply app_eq_nil in H. tauto. Qed.
Lemma alloc_suffix s : suffix (snd (alloc s)) s.
Proof. destruct s as [|x r]; cbn; [apply suffix_refl | exists [x]; reflexivity]. Qed.
Lemma alloc_each_suffix {A} (l : list A) : forall s, suffix (snd (alloc_each l s)) s.
Proof.
  induction l as [|v r IH]; intros s; cbn; [apply suffix_refl|].
  pose proof (alloc_suffix s) as H1. destruct (alloc s) as [n s1]. cbn in H1. specialize (IH s1).
  destruct (alloc_each r s1) as [r' s2]. cbn in *. eapply suffix_trans; eauto.
Qed.
Lemma expand_derived_suffix ds : forall s, suffix (snd (expand_derived ds s)) s.
Proof.
  induction ds as [|v r IH]; intros s; cbn; [apply suffix_refl|].
  pose proof (alloc_suffix s) as H1. destruct (alloc s) as [n s1]. cbn in H1. specialize (IH s1).
  destruct (expand_derived r s1) as [r' s2]. cbn in *. eapply suffix_trans; eauto.
Qed.
Lemma expand_suffix o s : suffix (snd (expand o s)) s.
Proof.
  unfold expand. pose proof (alloc_suffix s) as H1. destruct (alloc s) as [coll s1]. cbn in H1.
  match goal with |- context [alloc_each ?l s1] => pose proof (alloc_each_suffix l s1) as H2; destruct (alloc_each l s1) as [gcs s2] end.
  cbn in H2. pose proof (alloc_suffix s2) as H3. destruct (alloc s2) as [cc s3]. cbn in H3.
  pose proof (expand_derived_suffix (o_derived o) s3) as H4. destruct (expand_derived (o_derived o) s3) as [ds s4]. cbn in *.
  eapply suffix_trans; [exact H4|]. eapply suffix_trans; [exact H3|]. eapply suffix_trans; eauto.
Qed.
Lemma sr_loop_suffix bmap ds : forall s pre gs rem s', sr_loop bmap ds s = Some (pre, gs, rem, s') -> suffix s' s.
Proof.
  induction ds as [|d r IH]; intros s pre gs rem s' H; cbn [sr_loop] in H.
  - injection H as _ _ _ <-. apply suffix_refl.
  - destruct (assoc (dn_base d) bmap) as [a|]; [|discriminate].
    destruct (merge_mul (gi_inc a) (dn_mult d)) as [added|].
    + pose proof (alloc_suffix s) as H1. destruct (alloc s) as [t1 s1]. pose proof (alloc_suffix s1) as H2. destruct (alloc s1) as [t2 s2]. cbn in H1, H2.
      destruct (sr_loop bmap r s2) as [[[[pre0 gs0] rem0] s3]|] eqn:Er; [|discriminate]. injection H as _ _ _ <-.
      eapply suffix_trans; [eapply IH; eauto|]. eapply suffix_trans; eauto.
    + destruct (sr_loop bmap r s) as [[[[pre0 gs0] rem0] s3]|] eqn:Er; [|discriminate]. injection H as _ _ _ <-. eapply IH; eauto.
Qed.
Lemma sr_suffix o s pre o2 s' : sr o s = Some (pre, o2, s') -> suffix s' s.
Proof.
  unfold sr. destruct (sr_loop _ (o_derived o) s) as [[[[pre0 gs] rem] s1]|] eqn:E; [|discriminate].
  intros [= _ _ <-]. eapply sr_loop_suffix; eauto.
Qed.
Lemma ive_suffix o s pre nb nd s' : ive o s = Some (pre, nb, nd, s') -> suffix s' s.
Proof.
  unfold ive. destruct (owl_uses_iv o); [discriminate|]. destruct (filter _ (o_derived o)) as [|only [|]]; try discriminate.
  destruct (merge_mul _ _); [|discriminate].
  pose proof (alloc_suffix s) as H1. destruct (alloc s) as [t1 s1]. pose proof (alloc_suffix s1) as H2. destruct (alloc s1) as [t2 s2].
  pose proof (alloc_suffix s2) as H3. destruct (alloc s2) as [t3 s3]. pose proof (alloc_suffix s3) as H4. destruct (alloc s3) as [t4 s4].
  cbn in *. intros [= _ _ _ <-]. eapply suffix_trans; [exact H4|]. eapply suffix_trans; [exact H3|]. eapply suffix_trans; eauto.
Qed.
Lemma loop_while_suffix ver lvs ss bc s out s' fl : loop_while_v ver lvs ss bc s = Some (out, s', fl) -> suffix s' s.
Proof.
  unfold loop_while_v. destruct (licm_g (fst ver) lvs ss) as [[hoisted inner] ninv].
  destruct (extract_g (snd ver) lvs inner bc ninv) as [o| |]; [| |discriminate].
  2:{ intros [= _ <- _]. apply suffix_refl. }
  destruct (alg o s) as [[stmts s1]|] eqn:Ea.
  - intros [= _ <- _]. destruct (alg_shape _ _ _ _ Ea) as (_ & _ & _ & [->| ->]); [apply suffix_refl | apply alloc_suffix].
  - destruct (ive o s) as [[[[p1 nb] nd] s1]|] eqn:Ei.
    + destruct (sr _ s1) as [[[p2 o2] s2]|] eqn:Es; [|discriminate].
      pose proof (expand_suffix (o3_of o2) s2) as H3. unfold o3_of in H3. destruct (expand _ s2) as [wl s3]. cbn in H3.
      intros [= _ <- _]. eapply suffix_trans; [exact H3|]. eapply suffix_trans; [eapply sr_suffix; eauto | eapply ive_suffix; eauto].
    + destruct (sr _ s) as [[[p2 o2] s2]|] eqn:Es; [|discriminate].
      pose proof (expand_suffix (o3_of o2) s2) as H3. unfold o3_of in H3. destruct (expand _ s2) as [wl s3]. cbn in H3.
      intros [= _ <- _]. eapply suffix_trans; [exact H3|]. eapply sr_suffix; eauto.
Qed.

(* ------------------------------------------------------------------ unfolding of the traversal *)
Lemma loop_stmt_go ver ss : forall sup,
  (fix go (ss : list stmt) (sup : list name) : option (list stmt * list name * fired) :=
     match ss with
     | [] => Some ([], sup, fired0)
     | s :: r =>
         match loop_stmt ver s sup with
         | None => None
         | Some (s', sup1, f1) =>
             match go r sup1 with
             | None => None
             | Some (r', sup2, f2) => Some (s' ++ r', sup2, fired_add f1 f2)
             end
         end
     end) ss sup = loop_stmts ver ss sup.
Proof.
  induction ss as [|s r IH]; intros sup; [reflexivity|]. cbn [loop_stmts].
  destruct (loop_stmt ver s sup) as [[[s' sup1] f1]|]; [|reflexivity]. now rewrite IH.
Qed.
Lemma loop_stmt_SIf ver c s1 s2 fas sup :
  loop_stmt ver (SIf c s1 s2 fas) sup =
  match loop_stmts ver s1 sup with
  | None => None
  | Some (s1', sup1, f1) =>
      match loop_stmts ver s2 sup1 with
      | None => None
      | Some (s2', sup2, f2) => Some ([SIf c s1' s2' fas], sup2, fired_add f1 f2)
      end
  end.
Proof. cbn [loop_stmt]. rewrite loop_stmt_go. destruct (loop_stmts ver s1 sup) as [[[s1' sup1] f1]|]; [|reflexivity]. now rewrite loop_stmt_go. Qed.
Lemma loop_stmt_SSIf ver c inv ss sup :
  loop_stmt ver (SSIf c inv ss) sup =
  match loop_stmts ver ss sup with
  | None => None
  | Some (ss', sup1, f1) => Some ([SSIf c inv ss'], sup1, f1)
  end.
Proof. cbn [loop_stmt]. now rewrite loop_stmt_go. Qed.

Lemma loop_suffix_both ver :
  (forall st sup out sup' fl, loop_stmt ver st sup = Some (out, sup', fl) -> suffix sup' sup) /\
  (forall ss sup out sup' fl, loop_stmts ver ss sup = Some (out, sup', fl) -> suffix sup' sup).
Proof.
  apply stmt_stmts_ind2; try (intros; match goal with H : loop_stmt _ _ _ = Some _ |- _ => cbn in H; injection H as _ <- _; apply suffix_refl end).
  - intros c s1 s2 fas H1 H2 sup out sup' fl H. rewrite loop_stmt_SIf in H.
    destruct (loop_stmts ver s1 sup) as [[[s1' sup1] f1]|] eqn:E1; [|discriminate].
    destruct (loop_stmts ver s2 sup1) as [[[s2' sup2] f2]|] eqn:E2; [|discriminate]. injection H as _ <- _.
    eapply suffix_trans; [eapply H2; eauto | eapply H1; eauto].
  - intros c inv ss H1 sup out sup' fl H. rewrite loop_stmt_SSIf in H.
    destruct (loop_stmts ver ss sup) as [[[ss' sup1] f1]|] eqn:E1; [|discriminate]. injection H as _ <- _. eapply H1; eauto.
  - intros lvs ss bc _ sup out sup' fl H. cbn [loop_stmt] in H. eapply loop_while_suffix; eauto.
  - intros sup out sup' fl H. cbn in H. injection H as _ <- _. apply suffix_refl.
  - intros s r Hs Hr sup out sup' fl H. cbn [loop_stmts] in H.
    destruct (loop_stmt ver s sup) as [[[s' sup1] f1]|] eqn:E1; [|discriminate].
    destruct (loop_stmts ver r sup1) as [[[r' sup2] f2]|] eqn:E2; [|discriminate]. injection H as _ <- _.
    eapply suffix_trans; [eapply Hr; eauto | eapply Hs; eauto].
Qed.

(* ------------------------------------------------------------------ every loop of the function is outside the
   named classes (the supply is threaded as the pass threads it) *)
Fixpoint outside_stmt (st : stmt) (sup : list name) : Prop :=
  let fix go (ss : list stmt) (sup : list name) : Prop :=
    match ss with
    | [] => True
    | s :: r => outside_stmt s sup /\
                match loop_stmt current s sup with Some (_, sup1, _) => go r sup1 | None => True end
    end in
  match st with
  | SIf _ s1 s2 _ => go s1 sup /\ match loop_stmts current s1 sup with Some (_, sup1, _) => go s2 sup1 | None => True end
  | SSIf _ _ ss => go ss sup
  | SWhile lvs ss bc => loop_outside lvs ss bc sup
  | _ => True
  end.
Fixpoint outside_stmts (ss : list stmt) (sup : list name) : Prop :=
  match ss with
  | [] => True
  | s :: r => outside_stmt s sup /\
              match loop_stmt current s sup with Some (_, sup1, _) => outside_stmts r sup1 | None => True end
  end.
Lemma outside_go ss : forall sup,
  (fix go (ss : list stmt) (sup : list name) : Prop :=
     match ss with
     | [] => True
     | s :: r => outside_stmt s sup /\
                 match loop_stmt current s sup with Some (_, sup1, _) => go r sup1 | None => True end
     end) ss sup = outside_stmts ss sup.
Proof.
  induction ss as [|s r IH]; intros sup; [reflexivity|]. cbn [outside_stmts].
  destruct (loop_stmt current s sup) as [[[s' sup1] f1]|]; [|reflexivity]. now rewrite IH.
Qed.

(* ------------------------------------------------------------------ the simulation *)
Section Sim.
  Variables (w : world) (fuel : nat).
  Definition res_sim (Tn Tb : list name) (r r' : res) : Prop :=
    match r with
    | RNext e1 t => exists e1', r' = RNext e1' t /\ agree w Tn e1 e1'
    | RBreak v e1 t => exists e1', r' = RBreak v e1' t /\ agree w Tb e1 e1'
    | _ => True
    end.
  Lemma res_agree_sim Tn Tb r r' : res_agree w Tn Tb r r' -> res_sim Tn Tb r r'.
  Proof. destruct r; cbn; auto. Qed.

  Definition fresh_sup (sup S bs : list name) : Prop := NoDup sup /\ forall y, In y sup -> ~ In y S /\ ~ In y bs.
  Lemma fresh_sup_sub sup sup1 S S1 bs bs1 :
    fresh_sup sup S bs -> suffix sup1 sup -> (forall x, In x S1 -> In x S \/ In x bs) -> (forall x, In x bs1 -> In x bs) ->
    fresh_sup sup1 S1 bs1.
  Proof.
    intros [Hn Hf] Hs H1 H2. split; [eapply suffix_nodup; eauto|]. intros y Hy. destruct (Hf y (suffix_in _ _ _ Hs Hy)) as [A B].
    split; [intros Hc; destruct (H1 y Hc); contradiction | intros Hc; apply B; auto].
  Qed.

  Definition PS (st : stmt) : Prop := forall S sup out sup' fl en en' tr,
    loop_stmt current st sup = Some (out, sup', fl) -> sup' <> [] ->
    scoped S st = true -> NoDup (binders st) -> (forall x, In x (binders st) -> ~ In x S) ->
    fresh_sup sup S (binders st) -> outside_stmt st sup -> agree w S en en' ->
    res_sim (defs st ++ S) S (exec Wrap w fuel st en tr) (exec_block Wrap w fuel out en' tr).
  Definition QS (ss : list stmt) : Prop := forall S sup out sup' fl en en' tr,
    loop_stmts current ss sup = Some (out, sup', fl) -> sup' <> [] ->
    scoped_l S ss = true -> NoDup (binders_l ss) -> (forall x, In x (binders_l ss) -> ~ In x S) ->
    fresh_sup sup S (binders_l ss) -> outside_stmts ss sup -> agree w S en en' ->
    res_sim (defs_l ss ++ S) S (exec_block Wrap w fuel ss en tr) (exec_block Wrap w fuel out en' tr).

  Lemma PS_same st : (forall sup, loop_stmt current st sup = Some ([st], sup, fired0)) -> PS st.
  Proof.
    intros Hsame S sup out sup' fl en en' tr H _ Hsc _ _ _ _ Hag. rewrite Hsame in H. injection H as <- _ _.
    rewrite exec_block_single. apply res_agree_sim.
    exact (proj1 (exec_agree_both Wrap w fuel) st S en en' tr (proj1 scoped_scopedc_both _ _ Hsc) Hag).
  Qed.

  Lemma sim_both : (forall st, PS st) /\ (forall ss, QS ss).
  Proof.
    apply stmt_stmts_ind2; try (intros; apply PS_same; reflexivity).
    - (* SIf *)
      intros c s1 s2 fas H1 H2 S sup out sup' fl en en' tr H Hne Hsc Hnd Hfr Hfs Hout Hag.
      rewrite loop_stmt_SIf in H.
      destruct (loop_stmts current s1 sup) as [[[s1' sup1] f1]|] eqn:E1; [|discriminate].
      destruct (loop_stmts current s2 sup1) as [[[s2' sup2] f2]|] eqn:E2; [|discriminate]. injection H as <- <- <-.
      cbn [outside_stmt] in Hout. destruct Hout as [Ho1 Ho2]. rewrite outside_go in Ho1. rewrite E1 in Ho2. cbv beta iota in Ho2. rewrite outside_go in Ho2.
      pose proof (proj2 (loop_suffix_both current) _ _ _ _ _ E1) as Sf1.
      pose proof (proj2 (loop_suffix_both current) _ _ _ _ _ E2) as Sf2.
      assert (Hne1 : sup1 <> []) by (intros ->; apply Hne; now apply suffix_nil).
      rewrite scoped_SIf in Hsc. apply andb_prop in Hsc. destruct Hsc as [Hsc Hf]. apply andb_prop in Hsc. destruct Hsc as [Hsc Hb2].
      apply andb_prop in Hsc. destruct Hsc as [Hc Hb1]. rewrite forallb_forall in Hf.
      rewrite binders_SIf in Hnd, Hfr, Hfs.
      rewrite exec_block_single, !exec_SIf, <- (ProofsScope.agree_eval w S en en' c Hag Hc). cbn [defs].
      destruct (cond _) as [[|]|]; [| |exact I].
      + assert (Hr := H1 S sup s1' sup1 f1 en en' tr E1 Hne1 Hb1 (nd_app_l _ _ Hnd)
                         (fun x Hx => Hfr x (in_or_app _ _ _ (or_introl Hx)))
                         (fresh_sup_sub _ _ _ _ _ _ Hfs (suffix_refl _) (fun x Hx => or_introl Hx) (fun x Hx => in_or_app _ _ _ (or_introl Hx)))
                         Ho1 Hag).
        destruct (exec_block Wrap w fuel s1 en tr) as [e1 t|v e1 t|t|t| | |]; cbn [res_sim] in *; auto.
        * destruct Hr as [e1' [-> Ha1]]. eexists. split; [reflexivity|]. unfold bind_e1.
          apply (agree_bind w t_e1 fas S (defs_l s1 ++ S)); auto.
          -- intros t0 Ht. specialize (Hf t0 Ht). apply andb_prop in Hf. tauto.
          -- eapply agree_sub; eauto. intros x Hx. apply in_or_app. auto.
        * destruct Hr as [e1' [-> Ha1]]. eauto.
      + assert (Hr := H2 S sup1 s2' sup2 f2 en en' tr E2 Hne Hb2 (nd_app_l _ _ (nd_app_r _ _ Hnd))
                         (fun x Hx => Hfr x (in_or_app _ _ _ (or_intror (in_or_app _ _ _ (or_introl Hx)))))
                         (fresh_sup_sub _ _ _ _ _ _ Hfs Sf1 (fun x Hx => or_introl Hx)
                            (fun x Hx => in_or_app _ _ _ (or_intror (in_or_app _ _ _ (or_introl Hx)))))
                         Ho2 Hag).
        destruct (exec_block Wrap w fuel s2 en tr) as [e1 t|v e1 t|t|t| | |]; cbn [res_sim] in *; auto.
        * destruct Hr as [e1' [-> Ha1]]. eexists. split; [reflexivity|]. unfold bind_e2.
          apply (agree_bind w t_e2 fas S (defs_l s2 ++ S)); auto.
          -- intros t0 Ht. specialize (Hf t0 Ht). apply andb_prop in Hf. tauto.
          -- eapply agree_sub; eauto. intros x Hx. apply in_or_app. auto.
        * destruct Hr as [e1' [-> Ha1]]. eauto.
    - (* SSIf *)
      intros c inv ss H1 S sup out sup' fl en en' tr H Hne Hsc Hnd Hfr Hfs Hout Hag.
      rewrite loop_stmt_SSIf in H.
      destruct (loop_stmts current ss sup) as [[[ss' sup1] f1]|] eqn:E1; [|discriminate]. injection H as <- <- <-.
      cbn [outside_stmt] in Hout. rewrite outside_go in Hout.
      rewrite scoped_SSIf in Hsc. apply andb_prop in Hsc. destruct Hsc as [Hc Hsc].
      rewrite binders_SSIf in Hnd, Hfr, Hfs.
      rewrite exec_block_single, !exec_SSIf, <- (ProofsScope.agree_eval w S en en' c Hag Hc). cbn [defs app].
      destruct (cond _) as [b|]; [|exact I]. destruct (xorb b inv).
      + assert (Hr := H1 S sup ss' sup1 f1 en en' tr E1 Hne Hsc Hnd Hfr Hfs Hout Hag).
        destruct (exec_block Wrap w fuel ss en tr); cbn [res_sim] in *; auto.
        destruct Hr as [e1' [-> Ha1]]. eexists. split; [reflexivity|]. eapply agree_sub; eauto.
        intros x Hx. apply in_or_app. auto.
      + cbn. eauto.
    - (* SWhile *)
      intros lvs ss bc _ S sup out sup' fl en en' tr H Hne Hsc Hnd Hfr [Hsn Hsf] Hout Hag.
      cbn [loop_stmt] in H. cbn [outside_stmt] in Hout.
      pose proof (loop_while_sound w fuel S lvs ss bc sup out sup' fl en en' tr H Hne Hsc Hnd Hfr Hsn Hsf Hout Hag) as HW.
      destruct (exec Wrap w fuel (SWhile lvs ss bc) en tr) as [e1 t|v e1 t|t|t| | |] eqn:E; cbn [res_sim defs]; auto.
      exfalso. eapply while_never_break; eauto.
    - (* nil *)
      intros S sup out sup' fl en en' tr H _ _ _ _ _ _ Hag. cbn in H. injection H as <- _ _. cbn. eauto.
    - (* cons *)
      intros s r Hs Hr S sup out sup' fl en en' tr H Hne Hsc Hnd Hfr Hfs Hout Hag.
      cbn [loop_stmts] in H. cbn [outside_stmts] in Hout.
      destruct (loop_stmt current s sup) as [[[s' sup1] f1]|] eqn:E1; [|discriminate].
      destruct (loop_stmts current r sup1) as [[[r' sup2] f2]|] eqn:E2; [|discriminate]. injection H as <- <- <-.
      destruct Hout as [Ho1 Ho2].
      pose proof (proj1 (loop_suffix_both current) _ _ _ _ _ E1) as Sf1.
      pose proof (proj2 (loop_suffix_both current) _ _ _ _ _ E2) as Sf2.
      assert (Hne1 : sup1 <> []) by (intros ->; apply Hne; now apply suffix_nil).
      cbn [scoped_l] in Hsc. apply andb_prop in Hsc. destruct Hsc as [Hsc1 Hsc2]. cbn [binders_l] in Hnd, Hfr, Hfs.
      assert (R1 := Hs S sup s' sup1 f1 en en' tr E1 Hne1 Hsc1 (nd_app_l _ _ Hnd)
                       (fun x Hx => Hfr x (in_or_app _ _ _ (or_introl Hx)))
                       (fresh_sup_sub _ _ _ _ _ _ Hfs (suffix_refl _) (fun x Hx => or_introl Hx) (fun x Hx => in_or_app _ _ _ (or_introl Hx)))
                       Ho1 Hag).
      rewrite exec_block_cons, exec_block_app.
      destruct (exec Wrap w fuel s en tr) as [e1 t|v e1 t|t|t| | |]; cbn [res_sim] in *; auto.
      + destruct R1 as [e1' [-> Ha1]].
        assert (R2 := Hr (defs s ++ S) sup1 r' sup2 f2 e1 e1' t E2 Hne Hsc2 (nd_app_r _ _ Hnd)).
        assert (Hfr2 : forall x, In x (binders_l r) -> ~ In x (defs s ++ S)).
        { intros x Hx Hc. apply in_app_iff in Hc. destruct Hc as [Hc|Hc].
          - apply (nd_app_disj _ _ x Hnd); auto. now apply defs_in_binders.
          - apply (Hfr x); auto. apply in_or_app. now right. }
        specialize (R2 Hfr2
          (fresh_sup_sub _ _ _ _ _ _ Hfs Sf1
             (fun x Hx => match in_app_or _ _ _ Hx with or_introl H => or_intror (in_or_app _ _ _ (or_introl (defs_in_binders _ _ H))) | or_intror H => or_introl H end)
             (fun x Hx => in_or_app _ _ _ (or_intror Hx)))
          Ho2 Ha1).
        cbn [defs_l]. destruct (exec_block Wrap w fuel r e1 t) as [e2 t2|v e2 t2|t2|t2| | |]; cbn [res_sim] in *; auto.
        * destruct R2 as [e2' [-> Ha2]]. eexists. split; [reflexivity|]. eapply agree_sub; eauto.
          intros x. rewrite !in_app_iff. tauto.
        * destruct R2 as [e2' [-> Ha2]]. eexists. split; [reflexivity|]. eapply agree_sub; eauto.
          intros x Hx. apply in_or_app. now right.
      + destruct R1 as [e1' [-> Ha1]]. eauto.
  Qed.
End Sim.

(* ------------------------------------------------------------------ the function-level statement *)
Definition refines_wrap (w : world) (f' f : func) : Prop :=
  forall args fuel v tr, sem Wrap w f args fuel = Done v tr -> sem Wrap w f' args fuel = Done v tr.

Theorem loop_pass_refines w sup f body sup' fl :
  wf_func f = true -> ProofsCseStatic.fresh_for sup f ->
  loop_stmts current (f_body f) sup = Some (body, sup', fl) -> sup' <> [] ->
  outside_stmts (f_body f) sup ->
  loop_pass sup f = Some (mkfunc (f_params f) body (f_ret f), fl) /\
  refines_wrap w (mkfunc (f_params f) body (f_ret f)) f.
Proof.
  intros Hwf [Hsn Hsd] Hl Hne Hout. split.
  - unfold loop_pass, loop_pass_v. now rewrite Hl.
  - unfold wf_func in Hwf. apply andb_prop in Hwf. destruct Hwf as [Hwf Hret]. apply andb_prop in Hwf. destruct Hwf as [Hnd Hsc].
    apply nodupb_NoDup in Hnd.
    intros args fuel v tr Hs. unfold sem in *. cbn [f_body f_params f_ret]. unfold init_env in *. cbn [f_params].
    assert (Hfs : fresh_sup sup (f_params f) (binders_l (f_body f))).
    { split; [exact Hsn|]. intros y Hy. split; intros Hc; apply (Hsd y Hy); apply in_or_app; auto. }
    pose proof (proj2 (sim_both w fuel) (f_body f) (f_params f) sup body sup' fl (combine (f_params f) args) (combine (f_params f) args) [] Hl Hne Hsc (nd_app_r _ _ Hnd)
                  (fun x Hx Hc => nd_app_disj _ _ x Hnd Hc Hx) Hfs Hout (fun x _ => eq_refl)) as R.
    destruct (exec_block Wrap w fuel (f_body f) (combine (f_params f) args) []) as [e1 t| | | | | |]; try discriminate.
    cbn [res_sim] in R. destruct R as [e1' [-> Ha]]. injection Hs as <- <-. f_equal.
    symmetry. eapply ProofsScope.agree_eval; eauto.
Qed.
