(* C02loop — the decidable form of "every loop of the function is outside the named classes", and the function-level
   theorem stated with it *)
From Coq Require Import ZArith NArith List Bool Lia.
Import ListNotations.
From SV Require Import Common.Int32 C02.Kernels C02deep.Syntax C02deep.Sem C02deep.Passes C02deep.ProofsSem
  C02deep.ProofsCcp C02deep.ProofsCseStatic
  C02loop.Analysis C02loop.Licm C02loop.Algebraic C02loop.StrengthIv C02loop.Driver C02loop.Cover
  C02loop.ProofsBase C02loop.ProofsExpand C02loop.ProofsAlgebraic C02loop.ProofsExtract2
  C02loop.ProofsLoopWhile C02loop.ProofsCompose.
Open Scope Z_scope.

Lemma plain_break_b_spec ss : plain_break_b ss = true -> plain_break ss.
Proof. destruct ss as [|a [|[| | | | |c i [|[| | | | | |e| | | |] [|]]| | | | |] r]]; cbn; try discriminate; auto. Qed.
Lemma bases_kept_b_spec o : bases_kept_b o = true -> bases_kept o.
Proof. unfold bases_kept_b, bases_kept. change (kept_generals_c o) with (kept_generals o). rewrite forallb_forall. intros H d Hd. apply memb_In. now apply H. Qed.
Lemma alg_lits_b_spec o : alg_lits_b o = true -> alg_lits o.
Proof.
  unfold alg_lits_b, alg_lits. intros H. apply andb_prop in H. destruct H as [H H3]. apply andb_prop in H. destruct H as [H1 H2].
  split; [|split]; intros z0 E; rewrite E in *; now apply in32b_spec.
Qed.
Lemma alg_exit_in32_b_spec o : alg_exit_in32_b o = true -> alg_exit_in32 o.
Proof.
  unfold alg_exit_in32_b, alg_exit_in32. intros H i0 inc g K E1 E2 E3 E4. rewrite E1, E2, E3, E4 in H. now apply in32b_spec.
Qed.
Lemma loop_outside_b_spec lvs ss bc sup : loop_outside_b lvs ss bc sup = true -> loop_outside lvs ss bc sup.
Proof.
  unfold loop_outside_b, loop_outside. destruct (licm lvs ss) as [[hoisted inner] ninv].
  destruct (extract lvs inner bc ninv) as [o| |]; auto. intros H.
  apply andb_prop in H. destruct H as [H H3]. apply andb_prop in H. destruct H as [H1 H2].
  split; [now apply plain_break_b_spec|]. split; [now apply bases_kept_b_spec|].
  destruct (alg o sup) as [[stmts s1]|].
  - apply andb_prop in H3. destruct H3 as [A B]. split; [now apply alg_lits_b_spec | now apply alg_exit_in32_b_spec].
  - apply andb_prop in H3. destruct H3 as [A B]. split; [destruct (ive o sup); [discriminate | reflexivity]|].
    destruct (sr o sup) as [[[p2 o2] s2]|]; [change (o3_of_c o2) with (o3_of o2) in B; now apply bases_kept_b_spec | exact I].
Qed.

Lemma outside_go_b ss : forall sup,
  (fix go (ss : list stmt) (sup : list name) : bool :=
     match ss with
     | [] => true
     | s :: r => outside_stmt_b s sup &&
                 match loop_stmt current s sup with Some (_, sup1, _) => go r sup1 | None => true end
     end) ss sup = outside_stmts_b ss sup.
Proof.
  induction ss as [|s r IH]; intros sup; [reflexivity|]. cbn [outside_stmts_b].
  destruct (loop_stmt current s sup) as [[[s' sup1] f1]|]; [|reflexivity]. now rewrite IH.
Qed.

Lemma outside_b_both :
  (forall st sup, outside_stmt_b st sup = true -> outside_stmt st sup) /\
  (forall ss sup, outside_stmts_b ss sup = true -> outside_stmts ss sup).
Proof.
  apply stmt_stmts_ind2; try (intros; exact I).
  - intros c s1 s2 fas H1 H2 sup H. cbn [outside_stmt_b outside_stmt] in *. rewrite outside_go_b in H. rewrite outside_go.
    apply andb_prop in H. destruct H as [A B]. split; [now apply H1|].
    destruct (loop_stmts current s1 sup) as [[[s1' sup1] f1]|]; [|exact I]. rewrite outside_go_b in B. rewrite outside_go. now apply H2.
  - intros c inv ss H1 sup H. cbn [outside_stmt_b outside_stmt] in *. rewrite outside_go_b in H. rewrite outside_go. now apply H1.
  - intros lvs ss bc _ sup H. cbn [outside_stmt_b outside_stmt] in *. now apply loop_outside_b_spec.
  - intros s r Hs Hr sup H. cbn [outside_stmts_b outside_stmts] in *. apply andb_prop in H. destruct H as [A B].
    split; [now apply Hs|]. destruct (loop_stmt current s sup) as [[[s' sup1] f1]|]; [now apply Hr | exact I].
Qed.

Theorem loop_pass_preserves w sup f f' fl :
  wf_func f = true -> ProofsCseStatic.fresh_for sup f -> loop_pass_covered sup f = true ->
  loop_pass sup f = Some (f', fl) ->
  refines_wrap w f' f.
Proof.
  intros Hwf Hfr Hcov Hl. unfold loop_pass_covered in Hcov. unfold loop_pass, loop_pass_v in Hl.
  destruct (loop_stmts current (f_body f) sup) as [[[body sup'] fl0]|] eqn:E; [|discriminate].
  injection Hl as <- <-. apply andb_prop in Hcov. destruct Hcov as [A B].
  apply (loop_pass_refines w sup f body sup' fl0 Hwf Hfr E).
  - intros ->. discriminate.
  - now apply outside_b_both.
Qed.

(* composition with the other passes: the loop pass as the LAST stage of a chain that preserves runs without
   + / - overflow (C02deep.refines_add) gives the property's `refines` *)
Theorem refines_add_then_loop w f f1 f2 : refines_add w f1 f -> refines_wrap w f2 f1 -> refines w f2 f.
Proof.
  intros H1 H2 args fuel v tr Hs. apply H2. apply (sem_weaken Wrap Add); [apply mode_le_Wrap|].
  apply H1. apply (sem_weaken Add All); [apply mode_le_All | exact Hs].
Qed.

Lemma fresh_for_b_spec sup f : fresh_for_b sup f = true -> ProofsCseStatic.fresh_for sup f.
Proof.
  unfold fresh_for_b. intros H. apply andb_prop in H. destruct H as [A B]. split; [now apply nodupb_NoDup|].
  rewrite forallb_forall in B. intros y Hy Hc. specialize (B y Hy). apply negb_true_iff in B. apply memb_false in B. contradiction.
Qed.

(* the form the tie evaluates on every real function *)
Theorem loop_pass_preserves_b w sup f f' fl :
  wf_func f = true -> fresh_for_b sup f = true -> loop_pass_covered sup f = true ->
  loop_pass sup f = Some (f', fl) -> refines_wrap w f' f.
Proof. intros H1 H2 H3 H4. eapply loop_pass_preserves; eauto. now apply fresh_for_b_spec. Qed.


