(* C02loop — the defining statements of derived induction variables that the dead code elimination inside
   extract keeps still compute multiplier * base + immediate *)
From Coq Require Import ZArith NArith List Bool Lia Morphisms Setoid.
Import ListNotations.
From SV Require Import Common.Int32 C02.Kernels C02deep.Syntax C02deep.Sem C02deep.Passes C02deep.ProofsSem
  C02deep.ProofsScope C02deep.ProofsDceSets C02deep.ProofsDce C02deep.ProofsWf
  C02loop.Analysis C02loop.ProofsBase C02loop.ProofsAnalysis.
Open Scope Z_scope.

Lemma assoc_in_keys {A} x (s : list (name * A)) d : assoc x s = Some d -> In x (map fst s).
Proof.
  induction s as [|[k u] r IH]; cbn; [discriminate|]. destruct (N.eqb_spec x k) as [->|]; [now left | right; auto].
Qed.

Section DerivedOn.
  Variables (m : mode) (w : world) (fuel : nat).
  Variable ninv : set.
  Variable e0 : env.
  Variable Bnd : list name.
  Variable BN : list name.

  Definition dset_ok_on (K : list name) (s : dset) (e : env) : Prop :=
    forall x d, In x K -> assoc x s = Some d ->
      In (d_base d) BN /\ eq32 (lookup x e) (dval w e0 d (lookup (d_base d) e0)).

  Lemma dget_value_on K s e a d :
    dset_ok_on K s e -> (forall v, a = EVar v -> In v K) -> dget a s = Some d ->
    In (d_base d) BN /\ eq32 (eval w e a) (dval w e0 d (lookup (d_base d) e0)).
  Proof.
    unfold dget. destruct a as [| | |y]; cbn; try discriminate. intros Hok HK Ha.
    destruct (Hok y d (HK y eq_refl) Ha) as [Hb Hv]. split; [assumption|]. rewrite eval_var, eq32_wrap. exact Hv.
  Qed.

  Lemma try_merge_noswap_sound_on K s e x op a b s' :
    op_stable ninv Bnd b -> unchanged e0 Bnd e -> dset_ok_on K s e -> is_plus_or_mul op = true ->
    (forall v, a = EVar v -> In v K) -> (forall v, b = EVar v -> In v K) ->
    try_merge_noswap s ninv x op a b = Some s' ->
    exists d, s' = (x, d) :: s /\ In (d_base d) BN /\
              eq32 (if is_plus op then eval w e a + eval w e b else eval w e a * eval w e b)
                   (dval w e0 d (lookup (d_base d) e0)).
  Proof.
    intros Hst Hu Hok Hpm Ka Kb. unfold try_merge_noswap.
    destruct (dget a s) as [ex|] eqn:Ea; [|discriminate].
    destruct (dget_value_on _ _ _ _ _ Hok Ka Ea) as [Hbex Hva].
    set (first := match dget b s with Some an => if is_plus op then merge_var_add ex an else None | None => None end).
    destruct first as [merged|] eqn:Ef.
    - intros [= <-]. unfold first in Ef. destruct (dget b s) as [an|] eqn:Eb; [|discriminate].
      destruct (is_plus op) eqn:Ep; [|discriminate].
      destruct (dget_value_on _ _ _ _ _ Hok Kb Eb) as [Hban Hvb].
      destruct (merge_var_add_sound w e0 _ _ _ (lookup (d_base ex) e0) Ef) as (Hb1 & Hb2 & Hv).
      exists merged. split; [reflexivity|]. rewrite Hb1. split; [assumption|]. cbv iota.
      rewrite Hva, Hvb, Hb2. now symmetry.
    - clear Ef first. destruct (get_inv b ninv) as [p|] eqn:Eb; [|discriminate]. rewrite Hpm.
      destruct (merge_const_op ex (is_plus op) p) as [merged|] eqn:Em; [|discriminate]. intros [= <-].
      destruct (merge_const_op_sound w e0 _ _ _ _ (lookup (d_base ex) e0) Em) as (Hb1 & Hv).
      exists merged. split; [reflexivity|]. rewrite Hb1. split; [assumption|].
      rewrite (get_inv_value w ninv e0 Bnd e b p Hst Hu Eb). revert Hv. destruct (is_plus op); intros Hv; cbv iota; rewrite Hva; now symmetry.
  Qed.

  Lemma try_merge_off op s x a b : is_plus_or_mul op = false -> try_merge s ninv x op a b = s.
  Proof.
    intros Hpm. unfold try_merge. rewrite Hpm.
    assert (E : try_merge_noswap s ninv x op a b = None).
    { unfold try_merge_noswap. destruct (dget a s); [|reflexivity].
      assert (Hp : is_plus op = false) by (destruct op; cbn in *; try reflexivity; discriminate).
      rewrite Hp, Hpm. destruct (dget b s); destruct (get_inv b ninv); reflexivity. }
    now rewrite E.
  Qed.

  Lemma try_merge_shape s x op a b :
    try_merge s ninv x op a b = s \/ exists d, try_merge s ninv x op a b = (x, d) :: s.
  Proof.
    assert (Hns : forall a' b' s', try_merge_noswap s ninv x op a' b' = Some s' -> exists d, s' = (x, d) :: s).
    { intros a' b' s' H. unfold try_merge_noswap in H. destruct (dget a' s); [|discriminate].
      destruct (match dget b' s with Some an => if is_plus op then merge_var_add d an else None | None => None end);
        [injection H as <-; eauto|].
      destruct (get_inv b' ninv); [|discriminate]. destruct (is_plus_or_mul op); [|discriminate].
      destruct (merge_const_op d (is_plus op) p); [|discriminate]. injection H as <-. eauto. }
    unfold try_merge. destruct (try_merge_noswap s ninv x op a b) as [s1|] eqn:E1.
    - right. eauto.
    - destruct (is_plus_or_mul op); [|now left]. destruct (try_merge_noswap s ninv x op b a) as [s2|] eqn:E2; [right; eauto | now left].
  Qed.

  Lemma try_merge_sound_on K K' s e x op a b v :
    op_stable ninv Bnd a -> op_stable ninv Bnd b -> unchanged e0 Bnd e -> dset_ok_on K s e ->
    rt_binop op (eval w e a) (eval w e b) = Val v ->
    (forall y, In y (map fst s) -> y <> x) ->
    (forall v, a = EVar v -> In v K) -> (forall v, b = EVar v -> In v K) ->
    (forall z, In z K' -> z <> x -> In z K) ->
    dset_ok_on K' (try_merge s ninv x op a b) ((x, v) :: e).
  Proof.
    intros Hsta Hstb Hu Hok Hrt Hkeys Ka Kb HK.
    assert (Hkeep : dset_ok_on K' s ((x, v) :: e)).
    { intros y d Ky Hy. assert (Ne : y <> x) by (apply Hkeys; eapply assoc_in_keys; eauto).
      destruct (Hok y d (HK y Ky Ne) Hy) as [Hb Hv]. split; [assumption|]. now rewrite lookup_cons_ne. }
    assert (Hadd : forall d, In (d_base d) BN -> eq32 v (dval w e0 d (lookup (d_base d) e0)) ->
                             dset_ok_on K' ((x, d) :: s) ((x, v) :: e)).
    { intros d Hb Hv y d' Ky Hy. cbn in Hy. destruct (N.eqb_spec y x) as [->|Ne].
      - injection Hy as <-. split; [assumption|]. now rewrite lookup_cons_eq.
      - apply Hkeep; assumption. }
    destruct (is_plus_or_mul op) eqn:Hpm; [|now rewrite try_merge_off].
    unfold try_merge. rewrite Hpm.
    assert (Hv : eq32 v (if is_plus op then eval w e a + eval w e b else eval w e a * eval w e b)).
    { destruct op; cbn in Hpm; try discriminate; cbn in Hrt; injection Hrt as <-; cbn; apply eq32_wrap. }
    destruct (try_merge_noswap s ninv x op a b) as [s'|] eqn:E1.
    - destruct (try_merge_noswap_sound_on _ _ _ _ _ _ _ _ Hstb Hu Hok Hpm Ka Kb E1) as (d & -> & Hb & Hd).
      apply Hadd; [assumption|]. etransitivity; eauto.
    - destruct (try_merge_noswap s ninv x op b a) as [s'|] eqn:E2; [|exact Hkeep].
      destruct (try_merge_noswap_sound_on _ _ _ _ _ _ _ _ Hsta Hu Hok Hpm Kb Ka E2) as (d & -> & Hb & Hd).
      apply Hadd; [assumption|]. etransitivity; [exact Hv|]. rewrite <- Hd.
      destruct (is_plus op); [rewrite Z.add_comm | rewrite Z.mul_comm]; reflexivity.
  Qed.

  Lemma plus_or_mul_val op p q : is_plus_or_mul op = true -> exists v, rt_binop op p q = Val v.
  Proof. destruct op; cbn; try discriminate; intros _; eauto. Qed.

  (* a key that is not bound in the statements that follow keeps its entry *)
  Lemma dset_run_keeps rest : forall s x, ~ In x (binders_l rest) -> assoc x (dset_run s rest ninv) = assoc x s.
  Proof.
    induction rest as [|st r IH]; intros s x Hx; [reflexivity|]. unfold dset_run. cbn [fold_left].
    fold (dset_run (match st with SBin x op a b => try_merge s ninv x op a b | _ => s end) r ninv).
    cbn [binders_l] in Hx. rewrite IH by (intros Hc; apply Hx, in_or_app; now right).
    destruct st as [y op a b| | | | | | | | | |]; try reflexivity.
    destruct (try_merge_shape s y op a b) as [->|[d ->]]; [reflexivity|]. cbn.
    destruct (N.eqb_spec x y) as [->|]; [|reflexivity]. exfalso. apply Hx. cbn. now left.
  Qed.

  Lemma dce_stmts_cons st r L :
    dce_stmts (st :: r) L =
    (match fst (dce_stmt st (snd (dce_stmts r L))) with Some st' => st' :: fst (dce_stmts r L) | None => fst (dce_stmts r L) end,
     snd (dce_stmt st (snd (dce_stmts r L)))).
  Proof. cbn [dce_stmts]. destruct (dce_stmts r L) as [r' s1]. cbn [fst snd]. destruct (dce_stmt st s1) as [o s2]. reflexivity. Qed.

  (* the kept image of a statement is a binary statement only for that same binary statement *)
  Lemma dce_stmt_SBin st s d op x y : fst (dce_stmt st s) = Some (SBin d op x y) ->
    st = SBin d op x y /\ snd (dce_stmt st s) = use_expr y (use_expr x s).
  Proof.
    destruct st as [x0 op0 a b|x0 e|x0 p e|f args ret|c s1 s2 fas|c inv ss|e|lvs ss bc|x0 tn es|x0|x0 e].
    - cbn [dce_stmt]. destruct (negb (memb x0 s) && negb (is_divmod op0)); cbn; [discriminate|]. intros [= -> -> -> ->]. auto.
    - cbn [dce_stmt]. destruct (negb (memb x0 s)); cbn; discriminate.
    - cbn [dce_stmt]. destruct (negb (memb x0 s)); cbn; discriminate.
    - cbn; discriminate.
    - rewrite dce_SIf. destruct (dce_fas fas s) as [fas' sa]. destruct (dce_stmts s1 sa) as [s1' sb]. destruct (dce_stmts s2 sb) as [s2' sc].
      destruct (is_nil s1' && is_nil s2' && is_nil fas'); cbn; discriminate.
    - rewrite dce_SSIf. destruct (dce_stmts ss s) as [ss' sa]. destruct (is_nil ss'); cbn; discriminate.
    - cbn; discriminate.
    - rewrite dce_SWhile. cbv zeta. destruct (dce_stmts ss _) as [ss' sb]. destruct (dce_lvs _ sb) as [lvs2 sc]. cbn; discriminate.
    - cbn [dce_stmt]. destruct (negb (memb x0 s)); cbn; discriminate.
    - cbn [dce_stmt]. destruct (negb (memb x0 s)); cbn; discriminate.
    - cbn [dce_stmt]. destruct (negb (memb x0 s)); cbn; discriminate.
  Qed.

  Lemma dce_walk rest : forall L s e tr p d op x y q a1 t dd,
    ops_stable ninv Bnd rest -> unchanged e0 Bnd e ->
    dset_ok_on (snd (dce_stmts rest L)) s e ->
    NoDup (binders_l rest) ->
    (forall z, In z (binders_l rest) -> In z Bnd) ->
    (forall z, In z (map fst s) -> ~ In z (binders_l rest)) ->
    fst (dce_stmts rest L) = p ++ SBin d op x y :: q ->
    exec_block m w fuel p e tr = RNext a1 t ->
    assoc d (dset_run s rest ninv) = Some dd ->
    exists v, rt_binop op (eval w a1 x) (eval w a1 y) = Val v /\ eq32 v (dval w e0 dd (lookup (d_base dd) e0)).
  Proof.
    induction rest as [|st r IH]; intros L s e tr p d op x y q a1 t dd Hst Hu Hok Hnd Hsub Hkeys Hsplit Hex Hdd.
    - cbn in Hsplit. destruct p; discriminate.
    - rewrite dce_stmts_cons in Hsplit, Hok. cbn [fst snd] in Hsplit, Hok. cbn [binders_l] in *.
      set (s1 := snd (dce_stmts r L)) in *.
      assert (Hndr : NoDup (binders_l r)) by (eapply nd_app_r; eauto).
      assert (Hsubr : forall z, In z (binders_l r) -> In z Bnd) by (intros z Hz; apply Hsub, in_or_app; now right).
      assert (Hstr : ops_stable ninv Bnd r) by (intros x0 op0 a0 b0 Hi0; apply (Hst x0 op0 a0 b0); now right).
      set (sN := match st with SBin x op a b => try_merge s ninv x op a b | _ => s end).
      assert (HddN : assoc d (dset_run sN r ninv) = Some dd) by exact Hdd.
      assert (HkeysN : forall z, In z (map fst sN) -> ~ In z (binders_l r)).
      { intros z Hz Hb.
        assert (Hc : In z (map fst s) \/ In z (binders st)).
        { unfold sN in Hz. destruct st as [x0 op0 a0 b0| | | | | | | | | |]; auto.
          destruct (try_merge_shape s x0 op0 a0 b0) as [E|[d0 E]]; rewrite E in Hz; [now left|]. cbn in Hz. destruct Hz as [<-|Hz]; [right; now left | now left]. }
        destruct Hc as [Hc|Hc].
        - apply (Hkeys z Hc). apply in_or_app. now right.
        - apply (nd_app_disj _ _ z Hnd); auto. }
      assert (Hmono : forall z, In z s1 -> In z (snd (dce_stmt st s1))) by (intros z; apply dce_stmt_mono).
      (* the environment after the kept image of st (if any) satisfies the invariant for the rest *)
      assert (Hother : forall e', (forall z, ~ In z (binders st) -> lookup z e' = lookup z e) ->
                (match st with SBin _ _ _ _ => False | _ => True end \/ fst (dce_stmt st s1) = None) ->
                dset_ok_on s1 sN e' /\ unchanged e0 Bnd e').
      { intros e' Hfr Hcase. split.
        - intros z d0 Kz Hz.
          assert (Hzs : assoc z s = Some d0 /\ ~ In z (binders st)).
          { assert (Hgen : assoc z s = Some d0 -> assoc z s = Some d0 /\ ~ In z (binders st)).
            { intros H. split; [assumption|]. intros Hc. apply (Hkeys z (assoc_in_keys _ _ _ H)). apply in_or_app. now left. }
            unfold sN in Hz. destruct st as [x0 op0 a0 b0| | | | | | | | | |]; auto.
            destruct Hcase as [[]|Hnone].
            cbn [dce_stmt] in Hnone. destruct (negb (memb x0 s1) && negb (is_divmod op0)) eqn:Ek; [|discriminate].
            apply andb_prop in Ek. destruct Ek as [Ek _]. apply negb_true_iff in Ek. apply memb_false in Ek.
            destruct (try_merge_shape s x0 op0 a0 b0) as [E|[d1 E]]; rewrite E in Hz; auto.
            cbn in Hz. destruct (N.eqb_spec z x0) as [->|]; [contradiction | auto]. }
          destruct Hzs as [Hzs Hnb]. destruct (Hok z d0 (Hmono z Kz) Hzs) as [Hb Hv]. split; [assumption|]. now rewrite Hfr.
        - intros z Hz. rewrite Hfr; [now apply Hu|]. intros Hb. apply Hz, Hsub, in_or_app. now left. }
      destruct (fst (dce_stmt st s1)) as [st'|] eqn:Eo.
      + destruct p as [|st0 p'].
        * (* the statement itself *)
          cbn [app] in Hsplit. injection Hsplit as -> Hq. cbn in Hex. injection Hex as <- <-.
          destruct (dce_stmt_SBin _ _ _ _ _ _ Eo) as [-> Es2]. rewrite Es2 in Hok.
          assert (Hnb : ~ In d (binders_l r)).
          { intros Hc. apply (nd_app_disj _ _ d Hnd); auto. cbn. now left. }
          unfold sN in HddN. rewrite dset_run_keeps in HddN by assumption.
          destruct (is_plus_or_mul op) eqn:Hpm.
          2:{ rewrite try_merge_off in HddN by assumption. exfalso. apply (Hkeys d (assoc_in_keys _ _ _ HddN)). apply in_or_app. left. cbn. now left. }
          destruct (plus_or_mul_val op (eval w e x) (eval w e y) Hpm) as [v Hv]. exists v. split; [assumption|].
          destruct (Hst d op x y (or_introl eq_refl)) as [Hsa Hsb].
          assert (Hok' : dset_ok_on [d] (try_merge s ninv d op x y) ((d, v) :: e)).
          { apply (try_merge_sound_on (use_expr y (use_expr x s1)) [d] s e d op x y v); auto.
            - intros z Hz ->. apply (Hkeys d Hz). apply in_or_app. left. cbn. now left.
            - intros v0 ->. rewrite In_use_expr. right. rewrite In_use_expr. now left.
            - intros v0 ->. rewrite In_use_expr. now left.
            - intros z [<-|[]] Hne. now contradiction Hne. }
          destruct (Hok' d dd (or_introl eq_refl) HddN) as [_ Hval]. rewrite lookup_cons_eq in Hval. exact Hval.
        * cbn [app] in Hsplit. injection Hsplit as -> Hq. rewrite exec_block_cons in Hex.
          destruct (exec m w fuel st0 e tr) as [e' t'| | | | | |] eqn:Es; try discriminate.
          pose proof (frame_stmt m w fuel st0 e tr) as Hfr. rewrite Es in Hfr. cbn [frame_res] in Hfr.
          assert (Hb0 : forall z, In z (binders st0) -> In z (binders st)).
          { intros z Hz. pose proof (proj1 dce_sets_both st s1) as (_ & _ & H3). apply H3. rewrite Eo. exact Hz. }
          assert (Hfr' : forall z, ~ In z (binders st) -> lookup z e' = lookup z e) by (intros z Hz; apply Hfr; auto).
          assert (Hinv : dset_ok_on s1 sN e' /\ unchanged e0 Bnd e').
          { destruct st as [x0 op0 a0 b0| | | | | | | | | |]; try (apply Hother; [exact Hfr' | left; exact I]).
            destruct (dce_stmt_SBin (SBin x0 op0 a0 b0) s1 x0 op0 a0 b0) as [_ Es2].
            { cbn [dce_stmt] in Eo |- *. destruct (negb (memb x0 s1) && negb (is_divmod op0)); cbn in *; [discriminate | reflexivity]. }
            assert (E0 : st0 = SBin x0 op0 a0 b0).
            { cbn [dce_stmt] in Eo. destruct (negb (memb x0 s1) && negb (is_divmod op0)); cbn in Eo; [discriminate | now injection Eo]. }
            subst st0. rewrite Es2 in Hok. rewrite exec_SBin in Es. destruct (chk m op0 && ovf op0 _ _); [discriminate|].
            destruct (rt_binop op0 (eval w e a0) (eval w e b0)) as [v|] eqn:Hrt; [|discriminate]. injection Es as <- <-.
            destruct (Hst x0 op0 a0 b0 (or_introl eq_refl)) as [Hsa Hsb]. split.
            - unfold sN. apply (try_merge_sound_on (use_expr b0 (use_expr a0 s1)) s1 s e x0 op0 a0 b0 v); auto.
              + intros z Hz ->. apply (Hkeys x0 Hz). apply in_or_app. left. cbn. now left.
              + intros v0 ->. rewrite In_use_expr. right. rewrite In_use_expr. now left.
              + intros v0 ->. rewrite In_use_expr. now left.
              + intros z Hz _. rewrite !In_use_expr. auto.
            - intros z Hz. rewrite lookup_cons_ne; [now apply Hu|]. intros ->. apply Hz, Hsub, in_or_app. left. cbn. now left. }
          destruct Hinv as [HokN HuN].
          exact (IH L sN e' t' p' d op x y q a1 t dd Hstr HuN HokN Hndr Hsubr HkeysN Hq Hex HddN).
      + destruct (Hother e (fun z _ => eq_refl) (or_intror eq_refl)) as [HokN HuN].
        exact (IH L sN e tr p d op x y q a1 t dd Hstr HuN HokN Hndr Hsubr HkeysN Hsplit Hex HddN).
  Qed.
End DerivedOn.

Theorem derived_defs_affine m w fuel ninv bs rest L e0 :
  NoDup (binders_l rest) ->
  (forall b, In b bs -> ~ In (gc_name b) (binders_l rest)) ->
  ops_stable ninv (binders_l rest) rest ->
  forall p d op x y q dv tr a1 t,
    fst (dce_stmts rest L) = p ++ SBin d op x y :: q ->
    In dv (extract_derived bs rest ninv) -> d = dn_name dv ->
    exec_block m w fuel p e0 tr = RNext a1 t ->
    exists v, rt_binop op (eval w a1 x) (eval w a1 y) = Val v /\
              eq32 v (pv w e0 (dn_mult dv) * lookup (dn_base dv) e0 + pv w e0 (dn_imm dv)).
Proof.
  intros Hnd Hb Hinv p d op x y q dv tr a1 t Hsplit Hd -> Hex. unfold extract_derived in Hd.
  destruct (collect_derived_spec _ _ _ _ Hd) as (Ha & _ & _).
  assert (H : exists v, rt_binop op (eval w a1 x) (eval w a1 y) = Val v /\
             eq32 v (dval w e0 (mkdiv (dn_base dv) (dn_mult dv) (dn_imm dv)) (lookup (dn_base dv) e0))).
  { apply (dce_walk m w fuel ninv e0 (binders_l rest) (map gc_name bs) rest L (dset_init bs) e0 tr p (dn_name dv) op x y q a1 t); auto.
    - intros z _. reflexivity.
    - intros z dd _ Hz. destruct (dset_init_spec _ _ _ Hz) as [-> Hi]. cbn [d_base]. split; [assumption|].
      unfold dval. cbn [d_mult d_imm d_base]. rewrite !pv_int. eq32_ring.
    - intros z Hz. apply dset_init_keys in Hz. apply in_map_iff in Hz. destruct Hz as (b & <- & Hbi). now apply Hb. }
  destruct H as (v & Hv & Hval).
  - exists v. split; [assumption|]. exact Hval.
Qed.
