(* C02loop — the driver on a loop the induction analysis does not accept: only loop-invariant code motion *)
From Coq Require Import ZArith NArith List Bool Lia.
Import ListNotations.
From SV Require Import Common.Int32 C02.Kernels C02deep.Syntax C02deep.Sem C02deep.Passes C02deep.ProofsSem
  C02deep.ProofsScope C02loop.Analysis C02loop.Licm C02loop.Algebraic C02loop.StrengthIv C02loop.Driver
  C02loop.ProofsBase C02loop.ProofsLicm.
Open Scope Z_scope.

Theorem loop_while_rejected w fuel S lvs ss bc sup out sup' fl en tr :
  loop_while lvs ss bc sup = Some (out, sup', fl) -> f_extract fl = 0%N ->
  scoped S (SWhile lvs ss bc) = true ->
  NoDup (binders (SWhile lvs ss bc)) ->
  (forall x, In x (binders (SWhile lvs ss bc)) -> ~ In x S) ->
  sup' = sup /\
  match exec Wrap w fuel (SWhile lvs ss bc) en tr with
  | RNext e1 t => exists e1', exec_block Wrap w fuel out en tr = RNext e1' t /\ agree w (opt_names bc ++ S) e1 e1'
  | o => exec_block Wrap w fuel out en tr = o
  end.
Proof.
  unfold loop_while, loop_while_v. cbn [current fst snd]. change (licm_g false) with licm. change (extract_g false) with extract.
  destruct (licm lvs ss) as [[hoisted inner] ninv] eqn:El.
  destruct (extract lvs inner bc ninv) as [o| |] eqn:Ee; [|intros [= <- <- <-] _ Hsc Hnd Hfr|discriminate].
  - destruct (alg o sup) as [[stmts s1]|].
    + intros [= <- <- <-]. cbn. discriminate.
    + destruct (ive o sup) as [[[[p1 nb] nd] s1]|]; destruct (sr _ _) as [[[p2 o2] s2]|]; try discriminate;
        destruct (expand _ _); intros [= <- <- <-]; cbn; destruct (is_nil hoisted); discriminate.
  - split; [reflexivity|]. exact (licm_sound w fuel S lvs ss bc hoisted inner ninv en tr El Hsc Hnd Hfr).
Qed.
