(* C02loop — the loop that Driver.expand builds, with its temporaries as explicit parameters (`xloop`), and the
   execution of its pieces: the guard, the collector statements of the basic induction variables, the statements
   that recompute the derived induction variables. *)
From Coq Require Import ZArith NArith List Bool Lia Morphisms Setoid.
Import ListNotations.
From SV Require Import Common.Int32 C02.Kernels C02deep.Syntax C02deep.Sem C02deep.Passes C02deep.ProofsSem
  C02deep.ProofsScope C02loop.Analysis C02loop.Algebraic C02loop.StrengthIv C02loop.Driver
  C02loop.ProofsBase C02loop.ProofsAnalysis.
Open Scope Z_scope.

Definition bv_of (o : owl) : expr := match o_bc o with Some (_, e) => e | None => EInt 0 end.
Definition bc_of (o : owl) : option name := match o_bc o with Some (n, _) => Some n | None => None end.

Definition guard_stmts (b : bivg) (cc : name) (bv : expr) : list stmt :=
  [bin_unw cc (g_to_op (g_invert (bg_op b))) (EVar (bg_name b)) (pli_expr (bg_guard b));
   SSIf (EVar cc) false [SBreak bv]].
Definition coll_stmt (x v : name) (inc : pli) : stmt := bin_unw x PLUS (EVar v) (pli_expr inc).
Definition gcoll_stmts (gcs : list (giv * name)) : list stmt :=
  map (fun vn => coll_stmt (snd vn) (gi_name (fst vn)) (gi_inc (fst vn))) gcs.
Fixpoint derived_stmts (ds : list divn) (ts : list name) : list stmt :=
  match ds, ts with
  | d :: r, t :: tr =>
      bin_flex t MUL (EVar (dn_base d)) (pli_expr (dn_mult d))
      :: bin_flex (dn_name d) PLUS (EVar t) (pli_expr (dn_imm d)) :: derived_stmts r tr
  | _, _ => []
  end.
Definition useful_of (o : owl) : set := useful_set o (bv_of o).
Definition xlvs (o : owl) (coll : name) (gcs : list (giv * name)) : list triple :=
  filter (fun v => memb (t_name v) (useful_of o)) (o_others o)
  ++ [(bg_name (o_basic o), bg_init (o_basic o), EVar coll)]
  ++ map (fun vn => (gi_name (fst vn), gi_init (fst vn), EVar (snd vn))) gcs.
Definition xbody (o : owl) (coll cc : name) (gcs : list (giv * name)) (dts : list name) : list stmt :=
  guard_stmts (o_basic o) cc (bv_of o)
  ++ o_stmts o
  ++ [coll_stmt coll (bg_name (o_basic o)) (bg_inc (o_basic o))]
  ++ gcoll_stmts gcs
  ++ derived_stmts (o_derived o) dts.
Definition xloop (o : owl) (coll cc : name) (gcs : list (giv * name)) (dts : list name) : stmt :=
  SWhile (xlvs o coll gcs) (xbody o coll cc gcs dts) (bc_of o).

(* the general induction variables that survive in the expanded loop *)
Definition kept_generals (o : owl) : list giv := filter (fun v => memb (gi_name v) (useful_of o)) (o_general o).

Lemma alloc_each_spec {A} (l : list A) : forall sup,
  exists ns, fst (alloc_each l sup) = combine l ns /\ length ns = length l.
Proof.
  induction l as [|v r IH]; intros sup; cbn; [exists []; auto|].
  destruct (alloc sup) as [n s1]. destruct (IH s1) as (ns & E & L). destruct (alloc_each r s1) as [r' s2]. cbn in *.
  exists (n :: ns). cbn. rewrite E, L. auto.
Qed.
Lemma expand_derived_spec ds : forall sup,
  exists ts, fst (expand_derived ds sup) = derived_stmts ds ts /\ length ts = length ds.
Proof.
  induction ds as [|d r IH]; intros sup; cbn; [exists []; auto|].
  destruct (alloc sup) as [t s1]. destruct (IH s1) as (ts & E & L). destruct (expand_derived r s1) as [r' s2]. cbn in *.
  exists (t :: ts). cbn. rewrite E, L. auto.
Qed.

(* expand builds an xloop *)
Lemma expand_xloop o sup :
  exists coll cc ns ts,
    fst (expand o sup) = xloop o coll cc (combine (kept_generals o) ns) ts /\
    length ns = length (kept_generals o) /\ length ts = length (o_derived o).
Proof.
  unfold expand. destruct (alloc sup) as [coll s1].
  fold (bv_of o). fold (useful_of o). fold (kept_generals o).
  destruct (alloc_each_spec (kept_generals o) s1) as (ns & E & L).
  destruct (alloc_each (kept_generals o) s1) as [gcs s2]. cbn [fst] in E. subst gcs.
  destruct (alloc s2) as [cc s3].
  destruct (expand_derived_spec (o_derived o) s3) as (ts & E & Lt).
  destruct (expand_derived (o_derived o) s3) as [dstmts s4]. cbn [fst] in E. subst dstmts.
  exists coll, cc, ns, ts. cbn [fst]. split; [|auto]. reflexivity.
Qed.

(* ------------------------------------------------------------------ execution of the collector statements *)
Section Colls.
  Variables (w : world) (fuel : nat).
  Notation exec_block := (exec_block Wrap w fuel).

  Lemma exec_coll_stmt x v inc en tr :
    exec Wrap w fuel (coll_stmt x v inc) en tr = RNext ((x, wrap32 (eval w en (EVar v) + pv w en inc)) :: en) tr.
  Proof. unfold coll_stmt. now rewrite exec_bin_unw. Qed.

  (* the environment after the collector statements of a list of (induction variable, collector) pairs *)
  Fixpoint colls_env (gcs : list (giv * name)) (en : env) : env :=
    match gcs with
    | [] => en
    | vn :: r =>
        colls_env r ((snd vn, wrap32 (eval w en (EVar (gi_name (fst vn))) + pv w en (gi_inc (fst vn)))) :: en)
    end.
  Lemma exec_gcolls gcs : forall en tr, exec_block (gcoll_stmts gcs) en tr = RNext (colls_env gcs en) tr.
  Proof.
    induction gcs as [|vn r IH]; intros en tr; [reflexivity|].
    cbn [gcoll_stmts map]. rewrite exec_block_cons, exec_coll_stmt. apply IH.
  Qed.
  Lemma colls_env_outside gcs : forall en y, ~ In y (map snd gcs) -> lookup y (colls_env gcs en) = lookup y en.
  Proof.
    induction gcs as [|vn r IH]; intros en y Hy; [reflexivity|]. cbn in *.
    rewrite IH by tauto. apply lookup_cons_ne. intros ->. tauto.
  Qed.
  (* each collector holds variable + increment, both read in the environment in front of the statements *)
  Lemma colls_env_value gcs : forall en v n,
    NoDup (map snd gcs) -> In (v, n) gcs ->
    (forall y, In y (map snd gcs) -> y <> gi_name v) ->
    (forall y x, In y (map snd gcs) -> gi_inc v = PVar x -> y <> x) ->
    lookup n (colls_env gcs en) = wrap32 (eval w en (EVar (gi_name v)) + pv w en (gi_inc v)).
  Proof.
    induction gcs as [|vn r IH]; intros en v n Hnd Hi Hv Hx; [contradiction|].
    cbn [map] in Hnd. inversion Hnd as [|? ? Hni Hnd']; subst. cbn [colls_env].
    destruct Hi as [->|Hi].
    - cbn [fst snd] in *. rewrite colls_env_outside by assumption. apply lookup_cons_eq.
    - rewrite (IH _ v n Hnd' Hi).
      + assert (E1 : eval w ((snd vn, wrap32 (eval w en (EVar (gi_name (fst vn))) + pv w en (gi_inc (fst vn)))) :: en) (EVar (gi_name v))
                     = eval w en (EVar (gi_name v))).
        { rewrite !eval_var. f_equal. apply lookup_cons_ne. intros E. apply (Hv (snd vn)); [now left | auto]. }
        assert (E2 : pv w ((snd vn, wrap32 (eval w en (EVar (gi_name (fst vn))) + pv w en (gi_inc (fst vn)))) :: en) (gi_inc v)
                     = pv w en (gi_inc v)).
        { destruct (gi_inc v) as [z|x] eqn:Ei; [reflexivity|]. rewrite !pv_var. f_equal. apply lookup_cons_ne.
          intros E. apply (Hx (snd vn) x); [now left | reflexivity | auto]. }
        now rewrite E1, E2.
      + intros y Hy. apply Hv. now right.
      + intros y x Hy. apply Hx. now right.
  Qed.
End Colls.
