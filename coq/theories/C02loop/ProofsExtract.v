(* C02loop — extraction followed by re-expansion preserves the loop: for every loop that Analysis.extract accepts
   (code after fix 8c133db), outside the two MIR-level classes K_nested_break and K_base_dropped, the loop that
   Driver.expand builds from the analysis result (ProofsExpand.xloop) behaves like the original loop. *)
From Coq Require Import ZArith NArith List Bool Lia Morphisms Setoid.
Import ListNotations.
From SV Require Import Common.Int32 C02.Kernels C02deep.Syntax C02deep.Sem C02deep.Passes C02deep.ProofsSem
  C02deep.ProofsScope C02deep.ProofsDceSets C02deep.ProofsDce C02deep.ProofsWf
  C02loop.Analysis C02loop.Algebraic C02loop.StrengthIv C02loop.Driver
  C02loop.ProofsBase C02loop.ProofsAnalysis C02loop.ProofsExpand C02loop.ProofsAlgebraic C02loop.ProofsXloop
  C02loop.ProofsScopeX.
Open Scope Z_scope.

(* ------------------------------------------------------------------ what extract returns *)
Definition owl_of (g : lgs) (all_basic : list givc) (others : list triple) (gb : givc) (rest : list stmt) (ninv : set) : owl :=
  let derived := extract_derived all_basic rest ninv in
  mkowl (mkbivg (gc_name gb) (gc_init gb) (gc_inc gb) (lg_op g) (lg_guard g))
        (map (fun it => mkgiv (gc_name it) (gc_init it) (gc_inc it))
             (filter (fun it => negb (N.eqb (gc_name it) (lg_var g))) all_basic))
        others derived
        (remove_dead_code
           (filter (fun it => match as_var (t_e2 it) with Some v => negb (memb v (map dn_name derived)) | None => true end) others)
           rest)
        (lg_bc g).

Lemma extract_inv lvs ss bc ninv o :
  extract lvs ss bc ninv = XOk o ->
  exists g others all_basic gb,
    extract_guard ss bc ninv = XOk g /\ guard_name_used lvs ss g = false /\
    extract_basic_loop lvs (skipn 2 ss) ninv = (all_basic, others) /\
    find (fun b => N.eqb (gc_name b) (lg_var g)) all_basic = Some gb /\
    o = owl_of g all_basic others gb (skipn 2 ss) ninv.
Proof.
  unfold extract, extract_g. destruct (extract_guard ss bc ninv) as [g| |] eqn:Eg; try discriminate.
  cbn [negb andb]. destruct (guard_name_used lvs ss g) eqn:Eu; [discriminate|].
  unfold extract_basic. destruct (extract_basic_loop lvs (skipn 2 ss) ninv) as [bs os] eqn:Eb.
  destruct (find (fun b => N.eqb (gc_name b) (lg_var g)) bs) as [gb|] eqn:Ef; [|discriminate].
  intros [= <-]. exists g, os, bs, gb. repeat split; auto.
Qed.

(* ------------------------------------------------------------------ the value of a top-level binary statement *)
Lemma toplevel_value m w fuel rest : forall e tr e1 t x op p q,
  NoDup (binders_l rest) -> In (SBin x op p q) rest ->
  (forall v, p = EVar v -> ~ In v (binders_l rest)) -> (forall v, q = EVar v -> ~ In v (binders_l rest)) ->
  exec_block m w fuel rest e tr = RNext e1 t ->
  rt_binop op (eval w e p) (eval w e q) = Val (lookup x e1).
Proof.
  induction rest as [|st r IH]; intros e tr e1 t x op p q Hnd Hi Hp Hq Hex; [contradiction|].
  rewrite exec_block_cons in Hex. cbn [binders_l] in *.
  destruct (exec m w fuel st e tr) as [e' t'| | | | | |] eqn:Es; try discriminate.
  pose proof (frame_stmt m w fuel st e tr) as Hfs. rewrite Es in Hfs. cbn in Hfs.
  pose proof (frame_block m w fuel r e' t') as Hfr. rewrite Hex in Hfr. cbn in Hfr.
  destruct Hi as [->|Hi].
  - rewrite exec_SBin in Es. destruct (chk m op && ovf op _ _); [discriminate|].
    destruct (rt_binop op (eval w e p) (eval w e q)) as [v|]; [|discriminate]. injection Es as <- <-.
    f_equal. rewrite Hfr; [symmetry; apply lookup_cons_eq|]. cbn in Hnd. inversion Hnd; assumption.
  - assert (Ev : forall a, (forall v, a = EVar v -> ~ In v (binders st ++ binders_l r)) -> eval w e' a = eval w e a).
    { intros a Ha. destruct a as [| | |v]; try reflexivity. rewrite !eval_var. f_equal. apply Hfs.
      intros Hb. apply (Ha v eq_refl). apply in_or_app. now left. }
    rewrite <- (Ev p Hp), <- (Ev q Hq). eapply IH; eauto.
    + eapply nd_app_r; eauto.
    + intros v E Hb. apply (Hp v E). apply in_or_app. now right.
    + intros v E Hb. apply (Hq v E). apply in_or_app. now right.
Qed.

(* ------------------------------------------------------------------ loops whose bodies are related *)
Lemma loop_sim3 (Iv : env -> env -> Prop) (K : Z -> Z -> env -> env -> Prop) b b' next next' :
  (forall e e' tr, Iv e e' ->
     match b e tr with
     | RNext e1 t => exists e1', b' e' tr = RNext e1' t /\ Iv (next e1) (next' e1')
     | RBreak v e1 t => exists v' e1', b' e' tr = RBreak v' e1' t /\ K v v' e1 e1'
     | RStuck | ROvf => True
     | o => b' e' tr = o
     end) ->
  forall n e e' tr, Iv e e' ->
    match loop b next n e tr with
    | RBreak v e1 t => exists v' e1', loop b' next' n e' tr = RBreak v' e1' t /\ K v v' e1 e1'
    | RNext _ _ | RStuck | ROvf => True
    | o => loop b' next' n e' tr = o
    end.
Proof.
  intros Hs. induction n as [|n IH]; intros e e' tr HI; cbn; [reflexivity|].
  specialize (Hs e e' tr HI). destruct (b e tr) as [e1 t|v e1 t|t|t| | |]; auto.
  - destruct Hs as [e1' [-> HI']]. apply IH. exact HI'.
  - destruct Hs as (v' & e1' & -> & HK). eauto.
  - now rewrite Hs.
  - now rewrite Hs.
  - now rewrite Hs.
Qed.
